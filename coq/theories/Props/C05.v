(* C05 -- property theorems only.  Statements are about the model of tensorly/tenalg/svd.py (Model/Svd.v).
   LAPACK's svd is an arbitrary function `oracle` constrained only by the contract hypotheses
   (shape_contract / svd_contract); matrices over R are lists of rows read through mget Rops.
   Round 5 (end of file): the Eckart-Young-Mirsky inequality is PROVED (C05_eckart_young, C05_eckart_young_fn, C05_eckart_young_orth), so "best approximation of that
   rank" is a full theorem for truncated_svd (C05_interface_best_approx, _gen, also under a mask) and symeig_svd (C05_symeig_*_best,
   C05_interface_symeig_best); randomized_svd of the model end to end under the range-covering hypothesis
   (C05_randomized_svd_*_partial, C05_interface_randomized_*_partial; C05_range_finder_covers derives the hypothesis from the
   reduced-QR contract and a spanning sketch); svd_interface for ANY back end incl. a callable (C05_interface_generic,
   C05_interface_masked_generic), the non_negative option for every method / mask / flip (C05_interface_nonneg), and the
   post-processing pipeline as a trace re-derived from the Python source on every run (C05_interface_traced).
   Round 7 (from "ROUND 7" on): the transposed randomized branch's singular values (C05_randomized_S_true_transposed_partial); COMPLEX scalars as
   C = R x R - error identity, Eckart-Young, uniqueness of the singular values transported through the real embedding (C05_complex_trunc_error,
   _eckart_young, _singular_values_unique), truncated_svd of the model on complex scalars (C05_complex_truncated_best, _best_gen, _S_true), the list-level
   conjugate-aware svd_flip (C05_complex_flip_model, _signs_unit, _flip_u_sign / _v_sign), the interface end to end over C
   (C05_complex_interface_truncated_e2e, _e2e_sign, _e2e_gen) and the randomized lifting step over C (C05_complex_randomized_lift*_partial); more decision
   logic under the per-run ast tie (Proofs/SvdDecisions2.v: C05_nn_pair_factored, C05_make_nn_factored, C05_fit_factored, C05_impute_factored). *)
From Coq Require Import List Arith Bool Reals QArith.
From TLV Require Import Base.Ops Base.Tensor Base.RSum Model.Svd Proofs.SvdProofsAux Proofs.SvdProofs
  Proofs.SvdNNProofs Proofs.SvdSymeigProofs Proofs.SvdRandProofs Proofs.SvdInterfaceProofs
  Proofs.SvdGramProofs Proofs.SvdSymeigFull Proofs.SvdMaskProofs Proofs.SvdDecisions
  Proofs.SvdWitness Proofs.SvdSymeigShapes Proofs.SvdEckartYoung Proofs.SvdRandE2E Proofs.SvdInterfaceAll Proofs.SvdSymeigBest Base.BigSum Model.SvdConj Proofs.SvdConjProofs Model.SvdValidate Proofs.SvdValidateProofs Proofs.SvdUnique Model.SvdComplex
  Proofs.SvdRandTS Proofs.SvdComplexR Proofs.SvdComplexModel Proofs.SvdDecisions2 Proofs.SvdComplexFlip Proofs.SvdComplexRand Proofs.SvdDecisions3 Proofs.SvdComplexMask Proofs.SvdComplexSymeig Proofs.SvdComplexLiftModel.
Import ListNotations.
Local Open Scope nat_scope.

(* --- n_eigenvecs clamping and output shapes: every matrix shape, every request (None, 0, > max(shape)) --- *)
Theorem C05_svd_checks_clamp : forall d1 d2 n,
  let '(k, mn, mx) := svd_checks d1 d2 n in
  mn = Nat.min d1 d2 /\ mx = Nat.max d1 d2 /\ k <= mx /\
  (n = None -> k = mx) /\ (forall r, n = Some r -> k = Nat.min r mx).
Proof. exact svd_checks_spec. Qed.
Print Assumptions C05_svd_checks_clamp.

Theorem C05_truncated_shapes : forall (A : Type) (oracle : bool -> triple A) (d1 d2 : nat) (n : option nat),
  (forall f, shape_contract d1 d2 f (oracle f)) ->
  let k := n_kept d1 d2 n in
  shape3 (truncated_svd oracle d1 d2 n) d1 (Nat.min k d1) (Nat.min k (Nat.min d1 d2)) (Nat.min k d2) d2.
Proof. exact truncated_shapes. Qed.
Print Assumptions C05_truncated_shapes.

Theorem C05_truncated_shapes_documented : forall (A : Type) (oracle : bool -> triple A) (d1 d2 r : nat),
  (forall f, shape_contract d1 d2 f (oracle f)) -> r <= Nat.min d1 d2 ->
  shape3 (truncated_svd oracle d1 d2 (Some r)) d1 r r r d2.
Proof. exact truncated_shapes_documented. Qed.
Print Assumptions C05_truncated_shapes_documented.

Theorem C05_truncated_shapes_beyond : forall (A : Type) (oracle : bool -> triple A) (d1 d2 : nat) (n : option nat),
  (forall f, shape_contract d1 d2 f (oracle f)) ->
  (n = None \/ exists r, n = Some r /\ Nat.max d1 d2 <= r) ->
  shape3 (truncated_svd oracle d1 d2 n) d1 d1 (Nat.min d1 d2) d2 d2.
Proof. exact truncated_shapes_beyond. Qed.
Print Assumptions C05_truncated_shapes_beyond.

(* --- returned S: a prefix of the oracle's S, hence non-negative and non-increasing --- *)
Theorem C05_truncated_S_prefix : forall (A : Type) (oracle : bool -> triple A) (d1 d2 : nat) (n : option nat),
  snd (fst (truncated_svd oracle d1 d2 n)) = firstn (n_kept d1 d2 n) (snd (fst (oracle (full_flag d1 d2 n)))).
Proof. exact truncated_S_prefix. Qed.
Print Assumptions C05_truncated_S_prefix.

Theorem C05_truncated_S_ordered : forall (oracle : bool -> triple R) (d1 d2 : nat) (n : option nat),
  (forall f, nonneg_list (snd (fst (oracle f))) /\ nonincreasing (snd (fst (oracle f)))) ->
  let Sg := snd (fst (truncated_svd oracle d1 d2 n)) in
  nonneg_list Sg /\ nonincreasing Sg /\
  (forall i, i < length Sg -> nth i Sg 0%R = nth i (snd (fst (oracle (full_flag d1 d2 n)))) 0%R).
Proof. exact truncated_S_ordered. Qed.
Print Assumptions C05_truncated_S_ordered.

(* --- a sub-selection of an orthonormal family is orthonormal; the returned factors are orthonormal --- *)
Theorem C05_slice_orthonormal_cols : forall (m c k : nat) (U : list (list R)),
  orthonormal_cols m c (mget Rops U) -> orthonormal_cols m (Nat.min k c) (mget Rops (map (firstn k) U)).
Proof. exact slice_orthonormal_cols. Qed.
Print Assumptions C05_slice_orthonormal_cols.

Theorem C05_slice_orthonormal_rows : forall (r n k : nat) (V : list (list R)),
  orthonormal_rows r n (mget Rops V) -> orthonormal_rows (Nat.min k r) n (mget Rops (firstn k V)).
Proof. exact slice_orthonormal_rows. Qed.
Print Assumptions C05_slice_orthonormal_rows.

Theorem C05_truncated_orthonormal : forall (oracle : bool -> triple R) (d1 d2 : nat) (M : nat -> nat -> R) (n : option nat),
  (forall f, svd_contract d1 d2 M f (oracle f)) ->
  let k := n_kept d1 d2 n in
  let '(U, Sg, V) := truncated_svd oracle d1 d2 n in
  orthonormal_cols d1 (Nat.min k d1) (mget Rops U) /\ orthonormal_rows (Nat.min k d2) d2 (mget Rops V).
Proof. exact truncated_orthonormal. Qed.
Print Assumptions C05_truncated_orthonormal.

(* --- ||M - U_k diag(S_k) V_k||_F^2 = sum of the squared discarded singular values --- *)
Theorem C05_truncated_error : forall (oracle : bool -> triple R) (d1 d2 : nat) (M : nat -> nat -> R) (n : option nat),
  (forall f, svd_contract d1 d2 M f (oracle f)) ->
  let k := n_kept d1 d2 n in
  let mn := Nat.min d1 d2 in
  let '(U, Sg, V) := truncated_svd oracle d1 d2 n in
  rsum d1 (fun i => rsum d2 (fun j => ((M i j - recon U Sg V i j)^2)%R))
  = rsum (mn - k) (fun t => ((nth (k + t) (snd (fst (oracle (full_flag d1 d2 n)))) 0)^2)%R).
Proof. exact truncated_error. Qed.
Print Assumptions C05_truncated_error.

(* --- svd_flip: product unchanged, sign convention, orthonormality kept --- *)
Theorem C05_flip_product : forall (U V : list (list R)) (ub : bool) (U' V' : list (list R)) (s : nat -> R) (p : nat),
  svd_flip Rops U V ub = (U', V') -> p <= ncols U -> p <= length V -> decisive U V ub p ->
  forall i j, rsum p (fun t => (mget Rops U' i t * s t * mget Rops V' t j)%R)
            = rsum p (fun t => (mget Rops U i t * s t * mget Rops V t j)%R).
Proof. exact flip_product. Qed.
Print Assumptions C05_flip_product.

Theorem C05_flip_u_sign : forall (U V U' V' : list (list R)) (t : nat),
  svd_flip Rops U V true = (U', V') -> U <> [] -> t < ncols U ->
  exists imax, imax < length U /\ mget Rops U' imax t = Rabs (mget Rops U imax t) /\
    (forall i, (Rabs (mget Rops U i t) <= Rabs (mget Rops U imax t))%R) /\
    (forall i, (Rabs (mget Rops U' i t) <= mget Rops U' imax t)%R).
Proof. exact flip_u_sign. Qed.
Print Assumptions C05_flip_u_sign.

Theorem C05_flip_v_sign : forall (U V U' V' : list (list R)) (t : nat),
  svd_flip Rops U V false = (U', V') -> t < length V -> nth t V [] <> [] ->
  exists jmax, mget Rops V' t jmax = Rabs (mget Rops V t jmax) /\
    (forall j, (Rabs (mget Rops V t j) <= Rabs (mget Rops V t jmax))%R) /\
    (forall j, (Rabs (mget Rops V' t j) <= mget Rops V' t jmax)%R).
Proof. exact flip_v_sign. Qed.
Print Assumptions C05_flip_v_sign.

Theorem C05_flip_orthonormal : forall (U V : list (list R)) (ub : bool) (U' V' : list (list R)) (n : nat),
  svd_flip Rops U V ub = (U', V') -> ncols U = length V ->
  orthonormal_cols (length U) (ncols U) (mget Rops U) -> orthonormal_rows (length V) n (mget Rops V) ->
  orthonormal_cols (length U) (ncols U) (mget Rops U') /\ orthonormal_rows (length V) n (mget Rops V').
Proof. exact flip_orthonormal. Qed.
Print Assumptions C05_flip_orthonormal.

(* --- non_negative option (make_svd_non_negative, code after the repairs b4786a7 and 5074a8d): both factors are
       entrywise non-negative for EVERY input (U, S, V need not even be an SVD); sq stands for sqrt --- *)
Theorem C05_nndsvd_nonneg : forall (sq : R -> R) (eps : R) (M U : list (list R)) (Sg : list R) (V : list (list R)),
  (forall t, (0 <= sq t)%R) ->
  let '(W, H) := make_svd_non_negative Rops sq eps M U Sg V NNDSVD in nonneg_mat W /\ nonneg_mat H.
Proof. exact nndsvd_nonneg. Qed.
Print Assumptions C05_nndsvd_nonneg.

Theorem C05_nndsvda_nonneg : forall (sq : R -> R) (eps : R) (M U : list (list R)) (Sg : list R) (V : list (list R)),
  (0 <= eps)%R ->
  let '(W, H) := make_svd_non_negative Rops sq eps M U Sg V NNDSVDA in nonneg_mat W /\ nonneg_mat H.
Proof. exact nndsvda_nonneg. Qed.
Print Assumptions C05_nndsvda_nonneg.

(* the input on which the code before 5074a8d returned -1/2 (signed mean) now gets +1/2 *)
Example C05_nn_witness_signed_mean : forall sq : R -> R, sq 1%R = 1%R ->
  let '(W, H) := make_svd_non_negative Rops sq (/ 4503599627370496)%R [[-1; 0]]%R [[1]]%R [1]%R [[-1; 0]]%R NNDSVDA in
  mget Rops H 0 1 = (/ 2)%R.
Proof. exact nn_witness_signed_mean. Qed.

(* --- symeig_svd, known unrepaired finding: for a rank-deficient matrix, an exact eigh answer, any sqrt and any
       eps > 0, the returned left vectors are not orthonormal (the null-space column M v / sqrt(eps) is zero) --- *)
Theorem C05_symeig_rankdef_refuted : forall (sq : R -> R) (eps : R), (0 < eps)%R ->
  exists M lam W,
    eigh_contract 2 (fun i k => rsum 2 (fun r => (mget Rops M r i * mget Rops M r k)%R)) lam W /\
    let '(U, Sg, V) := symeig_svd Rops (fun _ => (lam, W)) sq eps M 2 2 (Some 2) in
    ~ orthonormal_cols 2 2 (mget Rops U).
Proof. exact symeig_rankdef_refuted. Qed.
Print Assumptions C05_symeig_rankdef_refuted.

(* --- randomized_svd, lifting step U' = Q @ U of the model (mmul), over R.  PARTIAL: the hypothesis
       M = Q (Q^T M) ("the range finder's Q captures the range of M", what n_eigenvecs + n_oversamples >= rank
       buys with probability 1 over the Gaussian draw) is assumed, not derived from the range finder.
       Then (Q U, S, V) has orthonormal columns, reproduces M, and every truncation has error = sum of the
       discarded squared singular values of the small SVD --- *)
Theorem C05_randomized_lift_partial : forall (d1 d2 c p k : nat) (Qm U V : list (list R)) (Sg : list R) (M B : nat -> nat -> R),
  length Qm = d1 -> (forall i, i < d1 -> length (nth i Qm []) = c) -> length U = c -> length Sg = p ->
  orthonormal_cols d1 c (mget Rops Qm) ->
  (forall i j, i < d1 -> j < d2 -> M i j = rsum c (fun a => (mget Rops Qm i a * B a j)%R)) ->
  orthonormal_cols c p (mget Rops U) -> orthonormal_rows p d2 (mget Rops V) ->
  (forall a j, a < c -> j < d2 -> B a j = rsum p (fun t => (mget Rops U a t * nth t Sg 0 * mget Rops V t j)%R)) ->
  k <= p ->
  let U' := mmul Rops p Qm U in
  orthonormal_cols d1 p (mget Rops U') /\
  (forall i j, i < d1 -> j < d2 -> M i j = recon U' Sg V i j) /\
  rsum d1 (fun i => rsum d2 (fun j => ((M i j - rsum k (fun t => (mget Rops U' i t * nth t Sg 0 * mget Rops V t j)%R))^2)%R))
  = rsum (p - k) (fun t => ((nth (k + t) Sg 0)^2)%R).
Proof. exact randomized_lift_model_partial. Qed.
Print Assumptions C05_randomized_lift_partial.

(* entries of the model's list-based matrix product (used by randomized_svd, symeig_svd and the mask imputation) *)
Theorem C05_mmul_entries : forall (n : nat) (X Y : list (list R)) (i j m : nat),
  i < length X -> j < n -> length (nth i X []) = m -> length Y = m ->
  mget Rops (mmul Rops n X Y) i j = rsum m (fun t => (mget Rops X i t * mget Rops Y t j)%R).
Proof. exact mg_mmul. Qed.
Print Assumptions C05_mmul_entries.

(* --- svd_interface: the dispatch table (method name -> function run) is part of the model; the end-to-end statement for
       method = truncated_svd.  funs is the table of functions of this request: only its FTruncated member is constrained,
       the members behind the other method names are arbitrary --- *)
Theorem C05_dispatch_table :
  dispatch MTruncated = Some FTruncated /\ dispatch MSymeig = Some FSymeig /\ dispatch MRandomized = Some FRandomized /\
  dispatch MCallable = Some FUser /\ dispatch MUnknown = None.
Proof. exact dispatch_table. Qed.
Print Assumptions C05_dispatch_table.

(* definitional: without mask / non_negative the selected function runs once and its answer is sign-flipped iff flip_sign *)
Theorem C05_interface_dispatch : forall (funs : fname -> nat -> list (list R) -> triple R) meth fn d2 Ml n flip ub iters sq eps,
  dispatch meth = Some fn ->
  svd_interface Rops funs meth d2 Ml n flip ub None None iters sq eps =
  Ok (let '(U0, S0, V0) := funs fn 0 Ml in
      let '(U, V) := if flip then svd_flip Rops U0 V0 ub else (U0, V0) in (U, S0, V)).
Proof. exact interface_unfold. Qed.
Print Assumptions C05_interface_dispatch.

(* only the selected function is consulted (any mask / non_negative setting) *)
Theorem C05_interface_only_selected : forall (funs funs' : fname -> nat -> list (list R) -> triple R) meth fn d2 Ml n flip ub nn mask iters sq eps,
  dispatch meth = Some fn -> (forall c X, funs fn c X = funs' fn c X) ->
  svd_interface Rops funs meth d2 Ml n flip ub nn mask iters sq eps = svd_interface Rops funs' meth d2 Ml n flip ub nn mask iters sq eps.
Proof. exact interface_only_selected. Qed.
Print Assumptions C05_interface_only_selected.

Theorem C05_interface_unknown_rejected : forall (funs : fname -> nat -> list (list R) -> triple R) d2 Ml n flip ub nn mask iters sq eps,
  svd_interface Rops funs MUnknown d2 Ml n flip ub nn mask iters sq eps = Err.
Proof. exact interface_unknown. Qed.
Print Assumptions C05_interface_unknown_rejected.

(* every matrix shape, every 1 <= n_eigenvecs <= min(shape), flip_sign off / U-based / V-based; orc X f = LAPACK's answer on X
   with full_matrices = f, constrained by the SVD contract on the matrix Ml that svd_interface is given: the returned triple
   has S = the leading singular values (non-negative, non-increasing), orthonormal U columns / V rows, and error = the
   discarded squared singular values *)
Theorem C05_interface_truncated_e2e : forall (orc : list (list R) -> bool -> triple R) (funs : fname -> nat -> list (list R) -> triple R)
    d1 d2 (Ml : list (list R)) r flip ub iters sq eps U S V,
  (forall f, svd_contract d1 d2 (mget Rops Ml) f (orc Ml f)) ->
  (forall c X, funs FTruncated c X = truncated_svd (orc X) d1 d2 (Some r)) ->
  1 <= r <= Nat.min d1 d2 ->
  svd_interface Rops funs MTruncated d2 Ml (Some r) flip ub None None iters sq eps = Ok (U, S, V) ->
  S = firstn r (snd (fst (orc Ml false))) /\ nonneg_list S /\ nonincreasing S /\
  orthonormal_cols d1 r (mget Rops U) /\ orthonormal_rows r d2 (mget Rops V) /\
  rsum d1 (fun i => rsum d2 (fun j => ((mget Rops Ml i j - recon U S V i j)^2)%R))
    = rsum (Nat.min d1 d2 - r) (fun t => ((nth (r + t) (snd (fst (orc Ml false))) 0)^2)%R).
Proof. exact interface_truncated_e2e. Qed.
Print Assumptions C05_interface_truncated_e2e.

(* ================= round 3 ================= *)
(* --- symeig_svd returns a truncated SVD whenever the kept eigenvalues of the Gram matrix exceed eps (sq = sqrt over R;
       eigh is an arbitrary function whose answer on the Gram matrix the code builds meets eigh_contract2: W orthogonal,
       G W = W diag(lam)).  S = sqrt of the leading eigenvalues (positive), orthonormal U columns / V rows, and the squared
       error is the sum of the discarded eigenvalues (= discarded squared singular values).  Wide/square and tall case. --- *)
Theorem C05_symeig_svd_wide : forall (eigh : list (list R) -> list R * list (list R)) eps (M : list (list R)) d1 d2 n lam W,
  d1 <= d2 -> rect d1 d2 M ->
  eigh (mmul Rops d2 (transp Rops d2 M) M) = (lam, W) ->
  eigh_contract2 d2 (mmul Rops d2 (transp Rops d2 M) M) lam W ->
  let p := Nat.min (Nat.min d1 d2) (n_kept d1 d2 n) in
  (forall t, t < p -> (0 <= eps < nth (d2 - 1 - t) lam 0)%R) ->
  let '(U, Sg, V) := symeig_svd Rops eigh sqrt eps M d1 d2 n in
  length Sg = p /\
  (forall t, t < p -> nth t Sg 0%R = sqrt (nth (d2 - 1 - t) lam 0%R) /\ (0 < nth t Sg 0)%R) /\
  orthonormal_cols d1 p (mget Rops U) /\ orthonormal_rows p d2 (mget Rops V) /\
  rsum d1 (fun i => rsum d2 (fun j => ((mget Rops M i j - recon U Sg V i j)^2)%R))
  = rsum (d2 - p) (fun t => nth (d2 - 1 - (p + t)) lam 0%R).
Proof. exact symeig_wide_svd. Qed.
Print Assumptions C05_symeig_svd_wide.

Theorem C05_symeig_svd_tall : forall (eigh : list (list R) -> list R * list (list R)) eps (M : list (list R)) d1 d2 n lam W,
  d2 < d1 -> rect d1 d2 M ->
  eigh (mmul Rops d1 M (transp Rops d2 M)) = (lam, W) ->
  eigh_contract2 d1 (mmul Rops d1 M (transp Rops d2 M)) lam W ->
  let p := Nat.min (Nat.min d1 d2) (n_kept d1 d2 n) in
  (forall t, t < p -> (0 <= eps < nth (d1 - 1 - t) lam 0)%R) ->
  let '(U, Sg, V) := symeig_svd Rops eigh sqrt eps M d1 d2 n in
  length Sg = p /\
  (forall t, t < p -> nth t Sg 0%R = sqrt (nth (d1 - 1 - t) lam 0%R) /\ (0 < nth t Sg 0)%R) /\
  orthonormal_cols d1 p (mget Rops U) /\ orthonormal_rows p d2 (mget Rops V) /\
  rsum d1 (fun i => rsum d2 (fun j => ((mget Rops M i j - recon U Sg V i j)^2)%R))
  = rsum (d1 - p) (fun t => nth (d1 - 1 - (p + t)) lam 0%R).
Proof. exact symeig_tall_svd. Qed.
Print Assumptions C05_symeig_svd_tall.

Example C05_symeig_hyps_satisfiable :
  eigh_contract2 1 (mmul Rops 1 (transp Rops 1 [[2%R]]) [[2%R]]) [4%R] [[1%R]] /\ (0 <= 1 < nth (1 - 1 - 0) [4] 0)%R.
Proof. exact symeig_hyps_satisfiable. Qed.

(* --- randomized_svd, transposed branch (range finder on M^T, V' = V @ Q^T as computed by mmul / transp).  PARTIAL like
       C05_randomized_lift_partial: M = (M Q) Q^T is the named hypothesis --- *)
Theorem C05_randomized_liftT_partial : forall d1 d2 c p k (Qm U V : list (list R)) (Sg : list R) (M B : nat -> nat -> R),
  length V = p -> (forall t, t < p -> length (nth t V []) = c) -> length Sg = p ->
  orthonormal_cols d2 c (mget Rops Qm) ->
  (forall i j, i < d1 -> j < d2 -> M i j = rsum c (fun a => (B i a * mget Rops Qm j a)%R)) ->
  orthonormal_cols d1 p (mget Rops U) -> orthonormal_rows p c (mget Rops V) ->
  (forall i a, i < d1 -> a < c -> B i a = rsum p (fun t => (mget Rops U i t * nth t Sg 0 * mget Rops V t a)%R)) ->
  k <= p ->
  let V' := mmul Rops d2 V (transp Rops c Qm) in
  orthonormal_rows p d2 (mget Rops V') /\
  (forall i j, i < d1 -> j < d2 -> M i j = recon U Sg V' i j) /\
  rsum d1 (fun i => rsum d2 (fun j => ((M i j - rsum k (fun t => (mget Rops U i t * nth t Sg 0 * mget Rops V' t j)%R))^2)%R))
  = rsum (p - k) (fun t => ((nth (k + t) Sg 0)^2)%R).
Proof. exact randomized_liftT_model_partial. Qed.
Print Assumptions C05_randomized_liftT_partial.

(* --- svd_flip keeps orthonormality for ANY numbers of U columns / V rows (padding of the sign vector with ones) --- *)
Theorem C05_flip_orthonormal_gen : forall (U V : list (list R)) (ub : bool) (U' V' : list (list R)) (n : nat),
  svd_flip Rops U V ub = (U', V') ->
  orthonormal_cols (length U) (ncols U) (mget Rops U) -> orthonormal_rows (length V) n (mget Rops V) ->
  orthonormal_cols (length U) (ncols U) (mget Rops U') /\ orthonormal_rows (length V) n (mget Rops V').
Proof. exact flip_orthonormal_gen. Qed.
Print Assumptions C05_flip_orthonormal_gen.

(* --- end to end through svd_interface(method = truncated_svd) for EVERY n_eigenvecs (None, 0, > min(shape), > max(shape)) --- *)
Theorem C05_interface_truncated_e2e_gen : forall (orc : list (list R) -> bool -> triple R) (funs : fname -> nat -> list (list R) -> triple R)
    d1 d2 (Ml : list (list R)) n flip ub iters sq eps U Sg V,
  (forall f, svd_contract d1 d2 (mget Rops Ml) f (orc Ml f)) ->
  (forall c X, funs FTruncated c X = truncated_svd (orc X) d1 d2 n) -> 1 <= d1 ->
  svd_interface Rops funs MTruncated d2 Ml n flip ub None None iters sq eps = Ok (U, Sg, V) ->
  let k := n_kept d1 d2 n in
  let So := snd (fst (orc Ml (full_flag d1 d2 n))) in
  Sg = firstn k So /\ nonneg_list Sg /\ nonincreasing Sg /\
  orthonormal_cols d1 (Nat.min k d1) (mget Rops U) /\ orthonormal_rows (Nat.min k d2) d2 (mget Rops V) /\
  rsum d1 (fun i => rsum d2 (fun j => ((mget Rops Ml i j - recon U Sg V i j)^2)%R))
    = rsum (Nat.min d1 d2 - k) (fun t => ((nth (k + t) So 0)^2)%R).
Proof. exact interface_truncated_e2e_gen. Qed.
Print Assumptions C05_interface_truncated_e2e_gen.

(* (round 5: the former C05_interface_best_approx_partial, which had the Eckart-Young-Mirsky inequality as a premise, is replaced
   by the full theorems C05_eckart_young / C05_interface_best_approx* at the end of this file) *)

(* --- mask imputation: one step is matrix * mask + (U @ St @ V) * (1 - mask) entrywise; observed entries never change;
       svd_interface under a mask returns the sign-resolved truncated SVD of the LAST imputed matrix --- *)
Theorem C05_impute_spec : forall d1 d2 (M mask U : list (list R)) (Sg : list R) (V : list (list R)),
  rect d1 d2 M -> rect d1 d2 mask -> length U = d1 ->
  rect d1 d2 (impute Rops d2 M mask U Sg V) /\
  forall i j, i < d1 -> j < d2 ->
    mget Rops (impute Rops d2 M mask U Sg V) i j
    = (mget Rops M i j * mget Rops mask i j + mget Rops (lowrank d2 U Sg V) i j * (1 - mget Rops mask i j))%R.
Proof. exact impute_spec. Qed.
Print Assumptions C05_impute_spec.

Theorem C05_mask_loop_spec : forall d1 d2 (svd_fun : nat -> list (list R) -> triple R) (mask : list (list R)),
  rect d1 d2 mask ->
  (forall c X, rect d1 d2 X -> length (fst (fst (svd_fun c X))) = d1) ->
  forall iters call M t, rect d1 d2 M -> length (fst (fst t)) = d1 ->
  let '(M', t') := mask_loop Rops svd_fun d2 mask iters call M t in
  rect d1 d2 M' /\
  (forall i j, i < d1 -> j < d2 -> mget Rops mask i j = 1%R -> mget Rops M' i j = mget Rops M i j) /\
  (0 < iters -> t' = svd_fun (call + iters - 1) M').
Proof. exact mask_loop_spec. Qed.
Print Assumptions C05_mask_loop_spec.

Theorem C05_interface_masked_e2e : forall (orc : nat -> list (list R) -> bool -> triple R) (funs : fname -> nat -> list (list R) -> triple R)
    d1 d2 (Ml mask : list (list R)) r flip ub iters sq eps U Sg V,
  rect d1 d2 Ml -> rect d1 d2 mask ->
  (forall c X, rect d1 d2 X -> forall f, svd_contract d1 d2 (mget Rops X) f (orc c X f)) ->
  (forall c X, funs FTruncated c X = truncated_svd (orc c X) d1 d2 (Some r)) ->
  1 <= r <= Nat.min d1 d2 -> 1 <= iters ->
  svd_interface Rops funs MTruncated d2 Ml (Some r) flip ub None (Some mask) iters sq eps = Ok (U, Sg, V) ->
  exists Mlast c,
    rect d1 d2 Mlast /\
    (forall i j, i < d1 -> j < d2 -> mget Rops mask i j = 1%R -> mget Rops Mlast i j = mget Rops Ml i j) /\
    Sg = firstn r (snd (fst (orc c Mlast false))) /\ nonneg_list Sg /\ nonincreasing Sg /\
    orthonormal_cols d1 r (mget Rops U) /\ orthonormal_rows r d2 (mget Rops V) /\
    rsum d1 (fun i => rsum d2 (fun j => ((mget Rops Mlast i j - recon U Sg V i j)^2)%R))
      = rsum (Nat.min d1 d2 - r) (fun t => ((nth (r + t) (snd (fst (orc c Mlast false))) 0)^2)%R).
Proof. exact interface_masked_e2e. Qed.
Print Assumptions C05_interface_masked_e2e.

(* --- the model's functions factor through the named decision functions of Proofs/SvdDecisions.v (full_matrices switch,
       slice bounds, branch conditions, n_dims); on every run the harness translates the corresponding expressions of
       tensorly/tenalg/svd.py from the Python ast and proves them equal to these decision functions --- *)
Theorem C05_truncated_svd_factored : forall (A : Type) (oracle : bool -> triple A) d1 d2 n,
  truncated_svd oracle d1 d2 n =
  let '(k, mn, _) := svd_checks d1 d2 n in
  let '(b1, b2, b3) := dec_trunc_bounds k in
  let '(U, Sg, V) := oracle (dec_full k mn) in (map (firstn b1) U, firstn b2 Sg, firstn b3 V).
Proof. exact @truncated_svd_factored. Qed.
Print Assumptions C05_truncated_svd_factored.

Theorem C05_randomized_branch_factored : forall (F : Type) (Op : fops F) svd qr G (M : list (list F)) d1 d2 n n_over n_iter,
  randomized_svd Op svd qr G M d1 d2 n n_over n_iter =
  let '(k, mn, mx) := svd_checks d1 d2 n in
  let n_dims := dec_rand_ndims k n_over mx in
  if dec_rand_transposed d1 d2 k mn n_dims then
    let Mt := transp Op d2 M in
    let Q := range_finder Op qr Mt d1 G n_iter in
    let c := ncols Q in
    let Mred := transp Op d1 (mmul Op d1 (transp Op c Q) Mt) in
    let '(U, Sg, V) := truncated_svd (svd Mred) d1 c (Some k) in
    (U, Sg, mmul Op d2 V (transp Op c Q))
  else
    let Q := range_finder Op qr M d2 G n_iter in
    let c := ncols Q in
    let Mred := mmul Op d2 (transp Op c Q) M in
    let '(U, Sg, V) := truncated_svd (svd Mred) c d2 (Some k) in
    (mmul Op (ncols U) Q U, Sg, V).
Proof. exact @randomized_svd_factored. Qed.
Print Assumptions C05_randomized_branch_factored.

Theorem C05_symeig_svd_factored : forall (F : Type) (Op : fops F) eigh sq eps (M : list (list F)) d1 d2 n,
  symeig_svd Op eigh sq eps M d1 d2 n =
  let '(k, _, _) := svd_checks d1 d2 n in
  let Mt := transp Op d2 M in
  let '(U, Sg, V) :=
    if dec_symeig_tall d1 d2 then
      let '(lam, W) := eigh (mmul Op d1 M Mt) in
      let Sg := map (fun x => sq (clip_lo Op eps x)) lam in
      (W, Sg, mmul Op d1 Mt (div_cols Op W Sg))
    else
      let '(lam, W) := eigh (mmul Op d2 Mt M) in
      let Sg := map (fun x => sq (clip_lo Op eps x)) lam in
      (div_cols Op (mmul Op d2 M W) Sg, Sg, W) in
  let c := if dec_symeig_tall d1 d2 then d1 else d2 in
  let '(b1, b2, b3) := dec_symeig_bounds d1 d2 k in
  (map (firstn b1) (map (@rev F) U), firstn b2 (rev Sg), firstn b3 (rev (transp Op c V))).
Proof. exact @symeig_svd_factored. Qed.
Print Assumptions C05_symeig_svd_factored.

(* ================= round 4 (review r1) ================= *)
(* --- the SVD contract is satisfiable for BOTH values of full_matrices with different answers (2 x 1 and 1 x 2 matrices with
       their exact SVDs), and the hypotheses of the end-to-end theorems are discharged jointly on them, whatever functions
       stand behind the other method names; last Example: the conclusion of C05_interface_truncated_e2e_gen on the instance --- *)
Example C05_contract_satisfiable :
  (forall f, svd_contract 2 1 (mget Rops Mtall) f (orc_tall Mtall f)) /\ (forall f, svd_contract 1 2 (mget Rops Mwide) f (orc_wide Mwide f)) /\
  orc_tall Mtall true <> orc_tall Mtall false /\ orc_wide Mwide true <> orc_wide Mwide false.
Proof. exact (conj contract_tall (conj contract_wide answers_differ)). Qed.

Example C05_e2e_hyps_tall : forall (sy ra us : nat -> list (list R) -> triple R) (sq : R -> R) (eps : R),
  let funs n := svd_funs (fun _ X => truncated_svd (orc_tall X) 2 1 n) sy ra us in
  (forall f, svd_contract 2 1 (mget Rops Mtall) f (orc_tall Mtall f)) /\
  (forall n c X, funs n FTruncated c X = truncated_svd (orc_tall X) 2 1 n) /\ 1 <= 2 /\ 1 <= 1 <= Nat.min 2 1 /\
  svd_interface Rops (funs None) MTruncated 1 Mtall None false true None None 0 sq eps = Ok ([[1; 0]; [0; 1]], [2], [[1]])%R /\
  svd_interface Rops (funs (Some 1)) MTruncated 1 Mtall (Some 1) false true None None 0 sq eps = Ok ([[1]; [0]], [2], [[1]])%R.
Proof. exact e2e_hyps_tall. Qed.

Example C05_e2e_hyps_wide : forall (sy ra us : nat -> list (list R) -> triple R) (sq : R -> R) (eps : R),
  let funs n := svd_funs (fun _ X => truncated_svd (orc_wide X) 1 2 n) sy ra us in
  (forall f, svd_contract 1 2 (mget Rops Mwide) f (orc_wide Mwide f)) /\
  (forall n c X, funs n FTruncated c X = truncated_svd (orc_wide X) 1 2 n) /\ 1 <= 1 /\
  svd_interface Rops (funs None) MTruncated 2 Mwide None false true None None 0 sq eps = Ok ([[1]], [2], [[1; 0]; [0; 1]])%R.
Proof. exact e2e_hyps_wide. Qed.

Example C05_e2e_gen_on_tall : forall (sy ra us : nat -> list (list R) -> triple R) (sq : R -> R) (eps : R),
  orthonormal_cols 2 2 (mget Rops [[1; 0]; [0; 1]]%R) /\ orthonormal_rows 1 1 (mget Rops [[1%R]]) /\
  rsum 2 (fun i => rsum 1 (fun j => ((mget Rops Mtall i j - recon [[1; 0]; [0; 1]] [2] [[1]] i j)^2)%R)) = 0%R.
Proof. exact e2e_gen_on_tall. Qed.

(* --- output shapes of symeig_svd for every shape and n_eigenvecs, given only the shapes of eigh's answer --- *)
Theorem C05_symeig_shapes : forall (eigh : list (list R) -> list R * list (list R)) (sq : R -> R) eps (M : list (list R)) d1 d2 n,
  rect d1 d2 M ->
  (forall G, let d := if d2 <? d1 then d1 else d2 in length (fst (eigh G)) = d /\ rect d d (snd (eigh G))) ->
  let k := n_kept d1 d2 n in
  shape3 (symeig_svd Rops eigh sq eps M d1 d2 n) d1 (Nat.min d1 k) (Nat.min (Nat.min d1 d2) k) (Nat.min d2 k) d2.
Proof. exact symeig_shapes. Qed.
Print Assumptions C05_symeig_shapes.

(* ================= round 5 ================= *)
(* --- the Eckart-Young-Mirsky inequality (Frobenius norm), PROVED (Proofs/SvdEckartYoung.v: Gram-Schmidt by induction over the
       columns, projection identity, Bessel twice, weighted top-k inequality; no library, no premise): for any answer meeting the
       thin SVD contract for M, every matrix B = X Y of rank <= k is at least as far from M as the discarded singular values --- *)
Theorem C05_eckart_young : forall (d1 d2 : nat) (Mf : nat -> nat -> R) (s : list R) (U V : list (list R)),
  svd_contract d1 d2 Mf false (U, s, V) ->
  forall k B, rank_le d1 d2 k B ->
  (rsum (Nat.min d1 d2 - k) (fun t => ((nth (k + t) s 0)^2)%R) <= frob2 d1 d2 (fun i j => (Mf i j - B i j)%R))%R.
Proof. exact eckart_young_contract. Qed.
Print Assumptions C05_eckart_young.

(* function-level form: any decomposition M = sum_{t<p} u_t s_t v_t^T with orthonormal u_t, v_t and s >= 0 non-increasing *)
Theorem C05_eckart_young_fn : forall m n p k (M U V B : nat -> nat -> R) (s : nat -> R),
  orthonormal_cols m p U -> orthonormal_rows p n V ->
  (forall t, t < p -> (0 <= s t)%R) ->
  (forall i j, i <= j -> j < p -> (s j <= s i)%R) ->
  (forall i j, i < m -> j < n -> M i j = rsum p (fun t => (U i t * s t * V t j)%R)) ->
  (exists X Y : nat -> nat -> R, forall i j, i < m -> j < n -> B i j = rsum k (fun t => (X i t * Y t j)%R)) ->
  (rsum (p - k) (fun t => ((s (k + t)%nat)^2)%R) <= rsum m (fun i => rsum n (fun j => ((M i j - B i j)^2)%R)))%R.
Proof. exact eckart_young_fn. Qed.
Print Assumptions C05_eckart_young_fn.

(* --- "its product is a best approximation of that rank", FULL: the triple returned by svd_interface(method = truncated_svd)
       has rank <= n_eigenvecs and no matrix of rank <= n_eigenvecs is closer to M in Frobenius norm --- *)
Theorem C05_interface_best_approx : forall (orc : list (list R) -> bool -> triple R) (funs : fname -> nat -> list (list R) -> triple R)
    d1 d2 (Ml : list (list R)) r flip ub iters sq eps U Sg V,
  (forall f, svd_contract d1 d2 (mget Rops Ml) f (orc Ml f)) ->
  (forall c X, funs FTruncated c X = truncated_svd (orc X) d1 d2 (Some r)) -> 1 <= r <= Nat.min d1 d2 ->
  svd_interface Rops funs MTruncated d2 Ml (Some r) flip ub None None iters sq eps = Ok (U, Sg, V) ->
  rank_le d1 d2 r (recon U Sg V) /\
  forall B, rank_le d1 d2 r B ->
    (frob2 d1 d2 (fun i j => (mget Rops Ml i j - recon U Sg V i j)%R) <= frob2 d1 d2 (fun i j => (mget Rops Ml i j - B i j)%R))%R.
Proof. exact interface_best_approx. Qed.
Print Assumptions C05_interface_best_approx.

(* every n_eigenvecs (None, 0, > min(shape), > max(shape)); k = the clamped request *)
Theorem C05_interface_best_approx_gen : forall (orc : list (list R) -> bool -> triple R) (funs : fname -> nat -> list (list R) -> triple R)
    d1 d2 (Ml : list (list R)) n flip ub iters sq eps U Sg V,
  (forall f, svd_contract d1 d2 (mget Rops Ml) f (orc Ml f)) ->
  (forall c X, funs FTruncated c X = truncated_svd (orc X) d1 d2 n) -> 1 <= d1 ->
  svd_interface Rops funs MTruncated d2 Ml n flip ub None None iters sq eps = Ok (U, Sg, V) ->
  let k := n_kept d1 d2 n in
  length Sg = Nat.min k (Nat.min d1 d2) /\ rank_le d1 d2 (length Sg) (recon U Sg V) /\
  forall B, rank_le d1 d2 k B ->
    (frob2 d1 d2 (fun i j => (mget Rops Ml i j - recon U Sg V i j)%R) <= frob2 d1 d2 (fun i j => (mget Rops Ml i j - B i j)%R))%R.
Proof. exact interface_best_approx_gen. Qed.
Print Assumptions C05_interface_best_approx_gen.

(* with a mask: best rank-<=r approximation of the LAST imputed matrix (which agrees with the input on the observed entries) *)
Theorem C05_interface_masked_best_approx : forall (orc : nat -> list (list R) -> bool -> triple R)
    (funs : fname -> nat -> list (list R) -> triple R) d1 d2 (Ml mask : list (list R)) r flip ub iters sq eps U Sg V,
  rect d1 d2 Ml -> rect d1 d2 mask ->
  (forall c X, rect d1 d2 X -> forall f, svd_contract d1 d2 (mget Rops X) f (orc c X f)) ->
  (forall c X, funs FTruncated c X = truncated_svd (orc c X) d1 d2 (Some r)) ->
  1 <= r <= Nat.min d1 d2 -> 1 <= iters ->
  svd_interface Rops funs MTruncated d2 Ml (Some r) flip ub None (Some mask) iters sq eps = Ok (U, Sg, V) ->
  exists Mlast : list (list R),
    rect d1 d2 Mlast /\
    (forall i j, i < d1 -> j < d2 -> mget Rops mask i j = 1%R -> mget Rops Mlast i j = mget Rops Ml i j) /\
    rank_le d1 d2 r (recon U Sg V) /\
    forall B, rank_le d1 d2 r B ->
      (frob2 d1 d2 (fun i j => (mget Rops Mlast i j - recon U Sg V i j)%R) <= frob2 d1 d2 (fun i j => (mget Rops Mlast i j - B i j)%R))%R.
Proof. exact interface_masked_best_approx. Qed.
Print Assumptions C05_interface_masked_best_approx.

(* --- randomized_svd of the model END TO END, both branches (range finder output Q, reduced matrix by mmul / transp, inner
       truncated_svd of LAPACK's answer on the reduced matrix, lifting).  PARTIAL: "Q covers the range of M" (M = Q (Q^T M), resp.
       M = (M Q) Q^T) is a hypothesis - it is what n_eigenvecs + n_oversamples >= rank buys with probability 1 over the Gaussian
       draw; C05_range_finder_covers derives it (with Q's shape and orthonormality) from the reduced-QR contract of the LAST
       tl.qr answer and the statement that the last sketch A @ P spans the columns of A.  Conclusions: output shapes, S = prefix of
       LAPACK's S on the reduced matrix (>= 0, non-increasing), orthonormal factors, error = discarded squared singular values,
       and (by Eckart-Young) no matrix of rank <= n_eigenvecs is closer --- *)
Theorem C05_randomized_svd_direct_partial : forall (svd : list (list R) -> bool -> triple R) (qr : nat -> list (list R) -> list (list R))
    (G M : list (list R)) d1 d2 n n_over n_iter c U Sg V,
  rect d1 d2 M -> 1 <= d1 ->
  let k := n_kept d1 d2 n in
  dec_rand_transposed d1 d2 k (Nat.min d1 d2) (dec_rand_ndims k n_over (Nat.max d1 d2)) = false ->
  let Q := range_finder Rops qr M d2 G n_iter in
  rect d1 c Q -> orthonormal_cols d1 c (mget Rops Q) -> covers d1 d2 c (mget Rops M) (mget Rops Q) ->
  let Mred := mmul Rops d2 (transp Rops c Q) M in
  (forall f, svd_contract c d2 (mget Rops Mred) f (svd Mred f)) ->
  randomized_svd Rops svd qr G M d1 d2 n n_over n_iter = (U, Sg, V) ->
  let kk := Nat.min k (Nat.max c d2) in
  let So := snd (fst (svd Mred (Nat.min c d2 <? kk))) in
  shape3 (U, Sg, V) d1 (Nat.min kk c) (Nat.min kk (Nat.min c d2)) (Nat.min kk d2) d2 /\
  Sg = firstn kk So /\ nonneg_list Sg /\ nonincreasing Sg /\
  orthonormal_cols d1 (Nat.min kk c) (mget Rops U) /\ orthonormal_rows (Nat.min kk d2) d2 (mget Rops V) /\
  frob2 d1 d2 (fun i j => (mget Rops M i j - recon U Sg V i j)%R) = rsum (Nat.min c d2 - kk) (fun t => ((nth (kk + t) So 0)^2)%R) /\
  (forall B, rank_le d1 d2 k B ->
     (frob2 d1 d2 (fun i j => (mget Rops M i j - recon U Sg V i j)%R) <= frob2 d1 d2 (fun i j => (mget Rops M i j - B i j)%R))%R).
Proof. exact randomized_svd_direct_partial. Qed.
Print Assumptions C05_randomized_svd_direct_partial.

Theorem C05_randomized_svd_transposed_partial : forall (svd : list (list R) -> bool -> triple R) (qr : nat -> list (list R) -> list (list R))
    (G M : list (list R)) d1 d2 n n_over n_iter c U Sg V,
  rect d1 d2 M -> 1 <= d2 ->
  let k := n_kept d1 d2 n in
  dec_rand_transposed d1 d2 k (Nat.min d1 d2) (dec_rand_ndims k n_over (Nat.max d1 d2)) = true ->
  let Q := range_finder Rops qr (transp Rops d2 M) d1 G n_iter in
  rect d2 c Q -> orthonormal_cols d2 c (mget Rops Q) -> coversT d1 d2 c (mget Rops M) (mget Rops Q) ->
  let Mred := transp Rops d1 (mmul Rops d1 (transp Rops c Q) (transp Rops d2 M)) in
  (forall f, svd_contract d1 c (mget Rops Mred) f (svd Mred f)) ->
  randomized_svd Rops svd qr G M d1 d2 n n_over n_iter = (U, Sg, V) ->
  let kk := Nat.min k (Nat.max d1 c) in
  let So := snd (fst (svd Mred (Nat.min d1 c <? kk))) in
  shape3 (U, Sg, V) d1 (Nat.min kk d1) (Nat.min kk (Nat.min d1 c)) (Nat.min kk c) d2 /\
  Sg = firstn kk So /\ nonneg_list Sg /\ nonincreasing Sg /\
  orthonormal_cols d1 (Nat.min kk d1) (mget Rops U) /\ orthonormal_rows (Nat.min kk c) d2 (mget Rops V) /\
  frob2 d1 d2 (fun i j => (mget Rops M i j - recon U Sg V i j)%R) = rsum (Nat.min d1 c - kk) (fun t => ((nth (kk + t) So 0)^2)%R) /\
  (forall B, rank_le d1 d2 k B ->
     (frob2 d1 d2 (fun i j => (mget Rops M i j - recon U Sg V i j)%R) <= frob2 d1 d2 (fun i j => (mget Rops M i j - B i j)%R))%R).
Proof. exact randomized_svd_transposed_partial. Qed.
Print Assumptions C05_randomized_svd_transposed_partial.

(* FULL: the range finder's result is the Q factor of the last tl.qr call (by induction over the power iterations); if that one
   answer meets the reduced-QR contract qr_ok (shape d1 x min(d1,w), orthonormal columns, X = Q (Q^T X)) and the last sketch
   A @ P spans the columns of A, then Q has the three properties assumed above *)
Theorem C05_range_finder_covers : forall (qr : nat -> list (list R) -> list (list R)) (A : list (list R)) d1 d2 G n_iter,
  rect d1 d2 A ->
  let idx := fst (final_test qr A d2 G n_iter) in
  let P := snd (final_test qr A d2 G n_iter) in
  let w := ncols P in
  qr_ok d1 w (mmul Rops w A P) (qr idx (mmul Rops w A P)) ->
  spans d1 d2 w (mget Rops A) (mget Rops (mmul Rops w A P)) ->
  let Q := range_finder Rops qr A d2 G n_iter in
  let c := Nat.min d1 w in
  rect d1 c Q /\ orthonormal_cols d1 c (mget Rops Q) /\ covers d1 d2 c (mget Rops A) (mget Rops Q).
Proof. exact range_finder_covers. Qed.
Print Assumptions C05_range_finder_covers.

Theorem C05_range_finder_last : forall (qr : nat -> list (list R) -> list (list R)) (A : list (list R)) cA G n_iter,
  let '(idx, P) := final_test qr A cA G n_iter in
  range_finder Rops qr A cA G n_iter = qr idx (mmul Rops (ncols P) A P).
Proof. exact range_finder_last. Qed.
Print Assumptions C05_range_finder_last.

Theorem C05_covers_transp : forall d1 d2 c (M : list (list R)) (Qf : nat -> nat -> R),
  covers d2 d1 c (mget Rops (transp Rops d2 M)) Qf -> coversT d1 d2 c (mget Rops M) Qf.
Proof. exact covers_transp. Qed.
Print Assumptions C05_covers_transp.

(* all hypotheses of C05_randomized_svd_direct_partial and of C05_range_finder_covers hold jointly on a 2 x 1 instance *)
Example C05_randomized_hyps_satisfiable :
  rect 2 1 Mx /\ 1 <= 2 /\
  dec_rand_transposed 2 1 (n_kept 2 1 (Some 1)) (Nat.min 2 1) (dec_rand_ndims (n_kept 2 1 (Some 1)) 0 (Nat.max 2 1)) = false /\
  let Q := range_finder Rops qrx Mx 1 Gx 0 in
  rect 2 1 Q /\ orthonormal_cols 2 1 (mget Rops Q) /\ covers 2 1 1 (mget Rops Mx) (mget Rops Q) /\
  (forall f, svd_contract 1 1 (mget Rops (mmul Rops 1 (transp Rops 1 Q) Mx)) f (svdx (mmul Rops 1 (transp Rops 1 Q) Mx) f)) /\
  qr_ok 2 1 (mmul Rops 1 Mx Gx) (qrx 0 (mmul Rops 1 Mx Gx)) /\
  spans 2 1 1 (mget Rops Mx) (mget Rops (mmul Rops 1 Mx Gx)).
Proof. exact randomized_hyps_satisfiable. Qed.

(* --- svd_interface for ANY back end the dispatch table selects (truncated_svd, symeig_svd, randomized_svd, a user callable), no
       mask / non_negative: if the selected function's answer on the input has orthonormal columns / rows, the interface returns
       the same singular values, orthonormal factors, entrywise the same product U diag(S) V, and with flip_sign the deciding
       vectors are sign-canonical (the entry of largest magnitude of every column of U, resp. row of V, is non-negative and
       dominates) --- *)
Theorem C05_interface_generic : forall (funs : fname -> nat -> list (list R) -> triple R) meth fn d1 d2 Ml n flip ub iters sq eps
    U0 S0 V0 U S V pu pv,
  dispatch meth = Some fn -> funs fn 0 Ml = (U0, S0, V0) ->
  rect d1 pu U0 -> rect pv d2 V0 -> 1 <= d1 -> length S0 <= pu -> length S0 <= pv ->
  orthonormal_cols d1 pu (mget Rops U0) -> orthonormal_rows pv d2 (mget Rops V0) ->
  svd_interface Rops funs meth d2 Ml n flip ub None None iters sq eps = Ok (U, S, V) ->
  S = S0 /\ orthonormal_cols d1 pu (mget Rops U) /\ orthonormal_rows pv d2 (mget Rops V) /\
  (forall i j, recon U S V i j = recon U0 S0 V0 i j) /\
  (flip = true -> ub = true -> forall t, t < pu ->
     exists imax, imax < d1 /\ forall i, (Rabs (mget Rops U i t) <= mget Rops U imax t)%R) /\
  (flip = true -> ub = false -> 1 <= d2 -> forall t, t < pv ->
     exists jmax, forall j, (Rabs (mget Rops V t j) <= mget Rops V t jmax)%R).
Proof. exact interface_generic. Qed.
Print Assumptions C05_interface_generic.

(* --- svd_interface(method = 'randomized_svd') end to end, both branches, any flip_sign setting: composition of the dispatch,
       randomized_svd of the model and svd_flip.  PARTIAL for the same reason as C05_randomized_svd_*_partial (range covering) --- *)
Theorem C05_interface_randomized_direct_partial : forall (svd : list (list R) -> bool -> triple R) (qr : nat -> list (list R) -> list (list R))
    (funs : fname -> nat -> list (list R) -> triple R) (G M : list (list R)) d1 d2 n n_over n_iter c flip ub iters sq eps U Sg V,
  rect d1 d2 M -> 1 <= d1 ->
  let k := n_kept d1 d2 n in
  dec_rand_transposed d1 d2 k (Nat.min d1 d2) (dec_rand_ndims k n_over (Nat.max d1 d2)) = false ->
  let Q := range_finder Rops qr M d2 G n_iter in
  rect d1 c Q -> orthonormal_cols d1 c (mget Rops Q) -> covers d1 d2 c (mget Rops M) (mget Rops Q) ->
  let Mred := mmul Rops d2 (transp Rops c Q) M in
  (forall f, svd_contract c d2 (mget Rops Mred) f (svd Mred f)) ->
  (forall cl X, funs FRandomized cl X = randomized_svd Rops svd qr G X d1 d2 n n_over n_iter) ->
  svd_interface Rops funs MRandomized d2 M n flip ub None None iters sq eps = Ok (U, Sg, V) ->
  let kk := Nat.min k (Nat.max c d2) in
  let So := snd (fst (svd Mred (Nat.min c d2 <? kk))) in
  Sg = firstn kk So /\ nonneg_list Sg /\ nonincreasing Sg /\
  orthonormal_cols d1 (Nat.min kk c) (mget Rops U) /\ orthonormal_rows (Nat.min kk d2) d2 (mget Rops V) /\
  frob2 d1 d2 (fun i j => (mget Rops M i j - recon U Sg V i j)%R) = rsum (Nat.min c d2 - kk) (fun t => ((nth (kk + t) So 0)^2)%R) /\
  (forall B, rank_le d1 d2 k B ->
     (frob2 d1 d2 (fun i j => (mget Rops M i j - recon U Sg V i j)%R) <= frob2 d1 d2 (fun i j => (mget Rops M i j - B i j)%R))%R) /\
  (flip = true -> ub = true -> forall t, t < Nat.min kk c ->
     exists imax, imax < d1 /\ forall i, (Rabs (mget Rops U i t) <= mget Rops U imax t)%R).
Proof. exact interface_randomized_direct_partial. Qed.
Print Assumptions C05_interface_randomized_direct_partial.

Theorem C05_interface_randomized_transposed_partial : forall (svd : list (list R) -> bool -> triple R) (qr : nat -> list (list R) -> list (list R))
    (funs : fname -> nat -> list (list R) -> triple R) (G M : list (list R)) d1 d2 n n_over n_iter c flip ub iters sq eps U Sg V,
  rect d1 d2 M -> 1 <= d1 -> 1 <= d2 ->
  let k := n_kept d1 d2 n in
  dec_rand_transposed d1 d2 k (Nat.min d1 d2) (dec_rand_ndims k n_over (Nat.max d1 d2)) = true ->
  let Q := range_finder Rops qr (transp Rops d2 M) d1 G n_iter in
  rect d2 c Q -> orthonormal_cols d2 c (mget Rops Q) -> coversT d1 d2 c (mget Rops M) (mget Rops Q) ->
  let Mred := transp Rops d1 (mmul Rops d1 (transp Rops c Q) (transp Rops d2 M)) in
  (forall f, svd_contract d1 c (mget Rops Mred) f (svd Mred f)) ->
  (forall cl X, funs FRandomized cl X = randomized_svd Rops svd qr G X d1 d2 n n_over n_iter) ->
  svd_interface Rops funs MRandomized d2 M n flip ub None None iters sq eps = Ok (U, Sg, V) ->
  let kk := Nat.min k (Nat.max d1 c) in
  let So := snd (fst (svd Mred (Nat.min d1 c <? kk))) in
  Sg = firstn kk So /\ nonneg_list Sg /\ nonincreasing Sg /\
  orthonormal_cols d1 (Nat.min kk d1) (mget Rops U) /\ orthonormal_rows (Nat.min kk c) d2 (mget Rops V) /\
  frob2 d1 d2 (fun i j => (mget Rops M i j - recon U Sg V i j)%R) = rsum (Nat.min d1 c - kk) (fun t => ((nth (kk + t) So 0)^2)%R) /\
  (forall B, rank_le d1 d2 k B ->
     (frob2 d1 d2 (fun i j => (mget Rops M i j - recon U Sg V i j)%R) <= frob2 d1 d2 (fun i j => (mget Rops M i j - B i j)%R))%R) /\
  (flip = true -> ub = true -> forall t, t < Nat.min kk d1 ->
     exists imax, imax < d1 /\ forall i, (Rabs (mget Rops U i t) <= mget Rops U imax t)%R).
Proof. exact interface_randomized_transposed_partial. Qed.
Print Assumptions C05_interface_randomized_transposed_partial.

(* --- svd_interface(method = 'symeig_svd') end to end (FULL): every shape (tall branch on M M^T, wide / square on M^T M), clamped
       n_eigenvecs <= min(shape), any flip; eigh is any function with the output shapes (d,), (d, d) whose answer on the Gram matrix
       the code builds meets eigh_contract2 and whose kept eigenvalues exceed eps: S = sqrt of the leading eigenvalues (positive),
       orthonormal factors, squared error = sum of the discarded eigenvalues, sign-canonical columns of U --- *)
Theorem C05_interface_symeig_e2e : forall (eigh : list (list R) -> list R * list (list R)) (funs : fname -> nat -> list (list R) -> triple R)
    epsd (M : list (list R)) d1 d2 n lam W flip ub iters sq eps U Sg V,
  rect d1 d2 M -> 1 <= d1 ->
  let d := if d2 <? d1 then d1 else d2 in
  let Gm := if d2 <? d1 then mmul Rops d1 M (transp Rops d2 M) else mmul Rops d2 (transp Rops d2 M) M in
  (forall G0, length (fst (eigh G0)) = d /\ rect d d (snd (eigh G0))) ->
  eigh Gm = (lam, W) -> eigh_contract2 d Gm lam W ->
  let k := n_kept d1 d2 n in
  k <= Nat.min d1 d2 ->
  (forall t, t < k -> (0 <= epsd < nth (d - 1 - t) lam 0)%R) ->
  (forall cl X, funs FSymeig cl X = symeig_svd Rops eigh sqrt epsd X d1 d2 n) ->
  svd_interface Rops funs MSymeig d2 M n flip ub None None iters sq eps = Ok (U, Sg, V) ->
  length Sg = k /\
  (forall t, t < k -> nth t Sg 0%R = sqrt (nth (d - 1 - t) lam 0%R) /\ (0 < nth t Sg 0)%R) /\
  orthonormal_cols d1 k (mget Rops U) /\ orthonormal_rows k d2 (mget Rops V) /\
  frob2 d1 d2 (fun i j => (mget Rops M i j - recon U Sg V i j)%R) = rsum (d - k) (fun t => nth (d - 1 - (k + t)) lam 0%R) /\
  (flip = true -> ub = true -> forall t, t < k -> exists imax, imax < d1 /\ forall i, (Rabs (mget Rops U i t) <= mget Rops U imax t)%R).
Proof. exact interface_symeig_e2e. Qed.
Print Assumptions C05_interface_symeig_e2e.

(* --- the non_negative option at the level of svd_interface (FULL): EVERY method name / back end incl. a callable (the function
       table is arbitrary), every mask setting, every flip setting, every input matrix: both returned factors are entrywise
       non-negative; sq stands for sqrt (only sq >= 0 is used), eps for the machine epsilon (only eps >= 0 is used) --- *)
Theorem C05_interface_nonneg : forall (funs : fname -> nat -> list (list R) -> triple R) meth d2 Ml n flip ub ty mask iters (sq : R -> R) eps U S V,
  (forall t, (0 <= sq t)%R) -> (0 <= eps)%R ->
  svd_interface Rops funs meth d2 Ml n flip ub (Some ty) mask iters sq eps = Ok (U, S, V) ->
  nonneg_mat U /\ nonneg_mat V.
Proof. exact interface_nonneg. Qed.
Print Assumptions C05_interface_nonneg.

(* --- svd_interface = dispatch, then an interpreter folded over the TRACE of post-processing steps (back-end call, mask loop iff a
       mask and n_eigenvecs are given, sign flip iff flip_sign, NNDSVD iff non_negative), in this order.  On every run the harness
       re-derives the trace (statement order and guards) from the Python ast of svd_interface and proves it equal to
       interface_trace, and the guard of the non_negative step equal to nn_truthy --- *)
Theorem C05_interface_traced : forall (F : Type) (Op : fops F) funs meth d2 (M : list (list F)) n flip ub nn mask iters sq eps,
  svd_interface Op funs meth d2 M n flip ub nn mask iters sq eps =
  match dispatch meth with
  | None => Err
  | Some f =>
    Ok (snd (fold_left (run_step Op (funs f) d2 (match mask with Some m => m | None => [] end) iters ub
                                 (match nn with Some ty => ty | None => NNDSVD end) sq eps)
                       (interface_trace (is_some mask) (is_some n) flip (is_some nn)) (M, ([], [], []))))
  end.
Proof. exact @svd_interface_traced. Qed.
Print Assumptions C05_interface_traced.

(* --- with a mask, ANY back end the dispatch table selects (FULL, by induction over the imputation loop through C05_mask_loop_spec):
       if on every d1 x d2 matrix the selected function returns factors with orthonormal columns / rows, the result is the
       sign-resolved answer of that function on the LAST imputed matrix, which agrees with the input on every observed entry --- *)
Theorem C05_interface_masked_generic : forall (funs : fname -> nat -> list (list R) -> triple R) meth fn d1 d2 (Ml mask : list (list R)) r flip ub
    iters sq eps U S V pu pv,
  dispatch meth = Some fn -> rect d1 d2 Ml -> rect d1 d2 mask -> 1 <= d1 -> 1 <= iters ->
  (forall c X, rect d1 d2 X ->
     let '(U0, S0, V0) := funs fn c X in
     rect d1 pu U0 /\ rect pv d2 V0 /\ length S0 <= pu /\ length S0 <= pv /\
     orthonormal_cols d1 pu (mget Rops U0) /\ orthonormal_rows pv d2 (mget Rops V0)) ->
  svd_interface Rops funs meth d2 Ml (Some r) flip ub None (Some mask) iters sq eps = Ok (U, S, V) ->
  exists Mlast c U0 S0 V0,
    rect d1 d2 Mlast /\
    (forall i j, i < d1 -> j < d2 -> mget Rops mask i j = 1%R -> mget Rops Mlast i j = mget Rops Ml i j) /\
    funs fn c Mlast = (U0, S0, V0) /\
    S = S0 /\ orthonormal_cols d1 pu (mget Rops U) /\ orthonormal_rows pv d2 (mget Rops V) /\
    (forall i j, recon U S V i j = recon U0 S0 V0 i j) /\
    (flip = true -> ub = true -> forall t, t < pu ->
       exists imax, imax < d1 /\ forall i, (Rabs (mget Rops U i t) <= mget Rops U imax t)%R).
Proof. exact interface_masked_generic. Qed.
Print Assumptions C05_interface_masked_generic.

(* --- Eckart-Young for an ORTHOGONAL (not normalised) decomposition M = sum_t a_t v_t^T with a_a . a_b = lam_a [a = b], v_t
       orthonormal, lam non-increasing, zero values allowed (FULL; reduces to C05_eckart_young_fn on the prefix of positive lam) --- *)
Theorem C05_eckart_young_orth : forall m n p k (M A V B : nat -> nat -> R) (lam : nat -> R),
  (forall a b, a < p -> b < p -> rsum m (fun i => (A i a * A i b)%R) = if Nat.eqb a b then lam a else 0%R) ->
  orthonormal_rows p n V ->
  (forall i j, i <= j -> j < p -> (lam j <= lam i)%R) ->
  (forall i j, i < m -> j < n -> M i j = rsum p (fun t => (A i t * V t j)%R)) ->
  (exists X Y : nat -> nat -> R, forall i j, i < m -> j < n -> B i j = rsum k (fun t => (X i t * Y t j)%R)) ->
  (rsum (p - k) (fun t => lam (k + t)%nat) <= rsum m (fun i => rsum n (fun j => ((M i j - B i j)^2)%R)))%R.
Proof. exact eckart_young_orth. Qed.
Print Assumptions C05_eckart_young_orth.

(* --- symeig_svd returns a BEST approximation of its rank (FULL): both branches, every n_eigenvecs; eigh any function whose answer on
       the Gram matrix the code builds meets eigh_contract2 with ascending eigenvalues (numpy's order), kept eigenvalues above eps;
       p = min(min(shape), clamped n_eigenvecs) = the number of returned singular values --- *)
Theorem C05_symeig_wide_best : forall (eigh : list (list R) -> list R * list (list R)) eps (M : list (list R)) d1 d2 n lam W,
  d1 <= d2 -> rect d1 d2 M ->
  eigh (mmul Rops d2 (transp Rops d2 M) M) = (lam, W) ->
  eigh_contract2 d2 (mmul Rops d2 (transp Rops d2 M) M) lam W -> ascending lam ->
  let p := Nat.min (Nat.min d1 d2) (n_kept d1 d2 n) in
  (forall t, t < p -> (0 <= eps < nth (d2 - 1 - t) lam 0)%R) ->
  let '(U, Sg, V) := symeig_svd Rops eigh sqrt eps M d1 d2 n in
  forall B, rank_le d1 d2 p B ->
    (frob2 d1 d2 (fun i j => (mget Rops M i j - recon U Sg V i j)%R) <= frob2 d1 d2 (fun i j => (mget Rops M i j - B i j)%R))%R.
Proof. exact symeig_wide_best. Qed.
Print Assumptions C05_symeig_wide_best.

Theorem C05_symeig_tall_best : forall (eigh : list (list R) -> list R * list (list R)) eps (M : list (list R)) d1 d2 n lam W,
  d2 < d1 -> rect d1 d2 M ->
  eigh (mmul Rops d1 M (transp Rops d2 M)) = (lam, W) ->
  eigh_contract2 d1 (mmul Rops d1 M (transp Rops d2 M)) lam W -> ascending lam ->
  let p := Nat.min (Nat.min d1 d2) (n_kept d1 d2 n) in
  (forall t, t < p -> (0 <= eps < nth (d1 - 1 - t) lam 0)%R) ->
  let '(U, Sg, V) := symeig_svd Rops eigh sqrt eps M d1 d2 n in
  forall B, rank_le d1 d2 p B ->
    (frob2 d1 d2 (fun i j => (mget Rops M i j - recon U Sg V i j)%R) <= frob2 d1 d2 (fun i j => (mget Rops M i j - B i j)%R))%R.
Proof. exact symeig_tall_best. Qed.
Print Assumptions C05_symeig_tall_best.

(* through svd_interface(method = 'symeig_svd'), any flip, clamped n_eigenvecs <= min(shape) *)
Theorem C05_interface_symeig_best : forall (eigh : list (list R) -> list R * list (list R)) (funs : fname -> nat -> list (list R) -> triple R)
    epsd (M : list (list R)) d1 d2 n lam W flip ub iters sq eps U Sg V,
  rect d1 d2 M -> 1 <= d1 ->
  let d := if d2 <? d1 then d1 else d2 in
  let Gm := if d2 <? d1 then mmul Rops d1 M (transp Rops d2 M) else mmul Rops d2 (transp Rops d2 M) M in
  (forall G0, length (fst (eigh G0)) = d /\ rect d d (snd (eigh G0))) ->
  eigh Gm = (lam, W) -> eigh_contract2 d Gm lam W -> ascending lam ->
  let k := n_kept d1 d2 n in
  k <= Nat.min d1 d2 ->
  (forall t, t < k -> (0 <= epsd < nth (d - 1 - t) lam 0)%R) ->
  (forall cl X, funs FSymeig cl X = symeig_svd Rops eigh sqrt epsd X d1 d2 n) ->
  svd_interface Rops funs MSymeig d2 M n flip ub None None iters sq eps = Ok (U, Sg, V) ->
  rank_le d1 d2 k (recon U Sg V) /\
  forall B, rank_le d1 d2 k B ->
    (frob2 d1 d2 (fun i j => (mget Rops M i j - recon U Sg V i j)%R) <= frob2 d1 d2 (fun i j => (mget Rops M i j - B i j)%R))%R.
Proof. exact interface_symeig_best. Qed.
Print Assumptions C05_interface_symeig_best.

(* all hypotheses of C05_interface_symeig_e2e / C05_interface_symeig_best hold jointly on M = [[2]] (Gram matrix [[4]], eps = 1) *)
Example C05_symeig_interface_hyps_satisfiable : forall (tr ra us : nat -> list (list R) -> triple R),
  let eigh := fun _ : list (list R) => ([4], [[1]])%R in
  let M := [[2]]%R in
  let funs := svd_funs tr (fun _ X => symeig_svd Rops eigh sqrt 1%R X 1 1 (Some 1)) ra us in
  rect 1 1 M /\ 1 <= 1 /\
  (forall G0, length (fst (eigh G0)) = 1 /\ rect 1 1 (snd (eigh G0))) /\
  eigh (mmul Rops 1 (transp Rops 1 M) M) = ([4], [[1]])%R /\
  eigh_contract2 1 (mmul Rops 1 (transp Rops 1 M) M) [4]%R [[1]]%R /\ ascending [4]%R /\
  n_kept 1 1 (Some 1) <= Nat.min 1 1 /\
  (forall t, t < n_kept 1 1 (Some 1) -> (0 <= 1 < nth (1 - 1 - t) [4] 0)%R) /\
  (forall cl X, funs FSymeig cl X = symeig_svd Rops eigh sqrt 1%R X 1 1 (Some 1)).
Proof. exact symeig_interface_hyps_satisfiable. Qed.

(* --- randomized_svd, direct branch, with the hypotheses pushed down to the oracles (PARTIAL only in the spanning statement): the LAST
       tl.qr answer meets the reduced-QR contract, the last sketch M @ P spans the columns of M, LAPACK's contract holds for its
       answer on the reduced matrix: then S >= 0 non-increasing, orthonormal factors, and no matrix of rank <= the clamped
       n_eigenvecs is closer to M than the returned product --- *)
Theorem C05_randomized_svd_direct_from_sketch_partial : forall (svd : list (list R) -> bool -> triple R) (qr : nat -> list (list R) -> list (list R))
    (G M : list (list R)) d1 d2 n n_over n_iter U Sg V,
  rect d1 d2 M -> 1 <= d1 ->
  let k := n_kept d1 d2 n in
  dec_rand_transposed d1 d2 k (Nat.min d1 d2) (dec_rand_ndims k n_over (Nat.max d1 d2)) = false ->
  let idx := fst (final_test qr M d2 G n_iter) in
  let P := snd (final_test qr M d2 G n_iter) in
  let w := ncols P in
  qr_ok d1 w (mmul Rops w M P) (qr idx (mmul Rops w M P)) ->
  spans d1 d2 w (mget Rops M) (mget Rops (mmul Rops w M P)) ->
  let c := Nat.min d1 w in
  let Q := range_finder Rops qr M d2 G n_iter in
  let Mred := mmul Rops d2 (transp Rops c Q) M in
  (forall f, svd_contract c d2 (mget Rops Mred) f (svd Mred f)) ->
  randomized_svd Rops svd qr G M d1 d2 n n_over n_iter = (U, Sg, V) ->
  let kk := Nat.min k (Nat.max c d2) in
  nonneg_list Sg /\ nonincreasing Sg /\
  orthonormal_cols d1 (Nat.min kk c) (mget Rops U) /\ orthonormal_rows (Nat.min kk d2) d2 (mget Rops V) /\
  (forall B, rank_le d1 d2 k B ->
     (frob2 d1 d2 (fun i j => (mget Rops M i j - recon U Sg V i j)%R) <= frob2 d1 d2 (fun i j => (mget Rops M i j - B i j)%R))%R).
Proof. exact randomized_svd_direct_from_sketch_partial. Qed.
Print Assumptions C05_randomized_svd_direct_from_sketch_partial.

(* ================= round 5, repo commits d995974 / ca31a67 (complex-aware symeig_svd and svd_flip) ================= *)
(* --- the complex-aware model of svd_flip (Model/SvdConj.v: deciding factor times conj(phases), other factor times the phases) IS the
       real model for real scalars (conjugation = identity, phase = np.sign), for every ordered-field record: all svd_flip / interface
       theorems above are therefore statements about the code after ca31a67 --- *)
Theorem C05_flip_conj_real : forall (F : Type) (Op : fops F) (U V : list (list F)) (ub : bool),
  svd_flip_conj (f0 Op) (f1 Op) (fmul Op) (fun x => x) (fsign Op) (fun a b => fltb Op (fabs Op a) (fabs Op b)) U V ub
  = svd_flip Op U V ub.
Proof. exact @flip_conj_real. Qed.
Print Assumptions C05_flip_conj_real.

(* --- over ANY commutative ring with a conjugation cj (complex numbers, Gaussian rationals, ...; function level, sums = Base/BigSum.v):
       multiplying the deciding factor by conj(g_t) and the other factor by g_t leaves the product sum_t U[i,t] s_t V[t,j] unchanged
       whenever conj(g_t) g_t = 1 (unit phases), for the U-based and the V-based decision; and the deciding entry becomes its own
       magnitude when phase / mag are tied by x conj(phase x) = mag x (np.sign and abs on complex numbers) --- *)
Theorem C05_conj_flip_product_u : forall (K : Type) (rO rI : K) (radd rmul rsub : K -> K -> K) (ropp : K -> K),
  ring_theory rO rI radd rmul rsub ropp (@eq K) ->
  forall (cj : K -> K) (U V : nat -> nat -> K) (g s : nat -> K) (p : nat),
  (forall t, t < p -> rmul (cj (g t)) (g t) = rI) ->
  forall i j, bigsum K rO radd p (fun t => rmul (rmul (rmul (U i t) (cj (g t))) (s t)) (rmul (V t j) (g t)))
            = bigsum K rO radd p (fun t => rmul (rmul (U i t) (s t)) (V t j)).
Proof. exact conj_flip_product_u. Qed.
Print Assumptions C05_conj_flip_product_u.

Theorem C05_conj_flip_product_v : forall (K : Type) (rO rI : K) (radd rmul rsub : K -> K -> K) (ropp : K -> K),
  ring_theory rO rI radd rmul rsub ropp (@eq K) ->
  forall (cj : K -> K) (U V : nat -> nat -> K) (g s : nat -> K) (p : nat),
  (forall t, t < p -> rmul (cj (g t)) (g t) = rI) ->
  forall i j, bigsum K rO radd p (fun t => rmul (rmul (rmul (U i t) (g t)) (s t)) (rmul (V t j) (cj (g t))))
            = bigsum K rO radd p (fun t => rmul (rmul (U i t) (s t)) (V t j)).
Proof. exact conj_flip_product_v. Qed.
Print Assumptions C05_conj_flip_product_v.

Theorem C05_conj_flip_deciding : forall (K : Type) (rmul : K -> K -> K) (cj phase mag : K -> K) (U : nat -> nat -> K) (imax t : nat),
  (forall x, rmul x (cj (phase x)) = mag x) ->
  rmul (U imax t) (cj (phase (U imax t))) = mag (U imax t).
Proof. exact conj_flip_deciding. Qed.
Print Assumptions C05_conj_flip_deciding.

(* the hypothesis `conj(g) g = 1` is satisfiable (here: integers, trivial conjugation, g = -1) *)
Example C05_conj_flip_hyp_satisfiable : forall t : nat, t < 3 -> ((fun x : BinNums.Z => x) ((fun _ : nat => (-1)%Z) t) * (fun _ : nat => (-1)%Z) t = 1)%Z.
Proof. intros t _. reflexivity. Qed.

(* ================= round 6 ================= *)
(* --- the singular values are determined by the matrix (FULL, from Eckart-Young + the truncation error identity): any two
       decompositions M = sum_t u_t s_t v_t^T with orthonormal u_t, v_t and sorted non-negative s have the same s.  Hence the S
       returned by svd_interface is the prefix of the S of EVERY singular value decomposition of the input: "equal to the true
       leading singular values" without reference to LAPACK --- *)
Theorem C05_singular_values_unique_fn : forall m n p (M U V U' V' : nat -> nat -> R) (s s' : nat -> R),
  orthonormal_cols m p U -> orthonormal_rows p n V ->
  (forall t, t < p -> (0 <= s t)%R) -> (forall i j, i <= j -> j < p -> (s j <= s i)%R) ->
  (forall i j, i < m -> j < n -> M i j = rsum p (fun t => (U i t * s t * V t j)%R)) ->
  orthonormal_cols m p U' -> orthonormal_rows p n V' ->
  (forall t, t < p -> (0 <= s' t)%R) -> (forall i j, i <= j -> j < p -> (s' j <= s' i)%R) ->
  (forall i j, i < m -> j < n -> M i j = rsum p (fun t => (U' i t * s' t * V' t j)%R)) ->
  forall t, t < p -> s t = s' t.
Proof. exact singular_values_unique_fn. Qed.
Print Assumptions C05_singular_values_unique_fn.

Theorem C05_singular_values_unique : forall d1 d2 (Mf : nat -> nat -> R) (U V U' V' : list (list R)) (s s' : list R),
  svd_contract d1 d2 Mf false (U, s, V) -> svd_contract d1 d2 Mf false (U', s', V') -> s = s'.
Proof. exact singular_values_unique. Qed.
Print Assumptions C05_singular_values_unique.

Theorem C05_interface_S_true : forall (orc : list (list R) -> bool -> triple R) (funs : fname -> nat -> list (list R) -> triple R)
    d1 d2 (Ml : list (list R)) r flip ub iters sq eps U S V,
  (forall f, svd_contract d1 d2 (mget Rops Ml) f (orc Ml f)) ->
  (forall c X, funs FTruncated c X = truncated_svd (orc X) d1 d2 (Some r)) -> 1 <= r <= Nat.min d1 d2 ->
  svd_interface Rops funs MTruncated d2 Ml (Some r) flip ub None None iters sq eps = Ok (U, S, V) ->
  forall Ux Sx Vx, svd_contract d1 d2 (mget Rops Ml) false (Ux, Sx, Vx) -> S = firstn r Sx.
Proof. exact interface_S_true. Qed.
Print Assumptions C05_interface_S_true.

(* --- complex scalars in the EXECUTABLE model: Model/SvdComplex.v instantiates the conjugate-aware, scalar-polymorphic functions of
       Model/SvdConj.v (svd_flip_conj, symeig_svd_conj, svd_interface_flip) at the Gaussian rationals; the correspondence evaluates
       them inside Coq on complex requests.  For the identity conjugation the polymorphic functions ARE the real model --- *)
Theorem C05_symeig_conj_real : forall (F : Type) (Op : fops F) eigh sq eps (M : list (list F)) d1 d2 n,
  symeig_svd_conj Op (fun x => x) eigh sq eps M d1 d2 n = symeig_svd Op eigh sq eps M d1 d2 n.
Proof. exact @symeig_conj_real. Qed.
Print Assumptions C05_symeig_conj_real.

Theorem C05_interface_flip_real : forall (F : Type) (Op : fops F) funs meth d2 (M : list (list F)) n flip ub iters sq eps,
  svd_interface_flip (svd_flip Op) funs meth M flip ub = svd_interface Op funs meth d2 M n flip ub None None iters sq eps.
Proof. exact @interface_flip_real. Qed.
Print Assumptions C05_interface_flip_real.

(* --- argument validation (Model/SvdValidate.v): exactly which requests raise - an unknown method name, a non_negative value other
       than None / False / True / 'nndsvd' / 'nndsvda', or a non-matrix handed to a built-in method (svd_checks' ndim test; a callable
       is not validated by tensorly) --- *)
Theorem C05_svd_checks_nd_spec : forall shape n, (exists t, svd_checks_nd shape n = Ok t) <-> length shape = 2.
Proof. exact svd_checks_nd_spec. Qed.
Print Assumptions C05_svd_checks_nd_spec.

Theorem C05_request_rejected_spec : forall shape meth nn,
  request_rejected shape meth nn = true <->
  meth = MUnknown \/ nn = NRother \/ (meth <> MCallable /\ length shape <> 2).
Proof. exact request_rejected_spec. Qed.
Print Assumptions C05_request_rejected_spec.

(* --- keyword arguments: svd_interface consults the back ends only at the request's own **kwargs and n_eigenvecs, on every call incl.
       those inside the mask loop (two back-end tables that agree there give the same result); truncated_svd and symeig_svd ignore
       the keyword arguments, randomized_svd reads exactly n_oversamples, n_iter and the draw of random_state --- *)
Theorem C05_interface_kw_forwarded : forall (KW : Type) (backends backends' : fname -> KW -> option nat -> nat -> list (list R) -> triple R) (kw : KW)
    meth d2 Ml n flip ub nn mask iters sq eps,
  (forall f c X, backends f kw n c X = backends' f kw n c X) ->
  svd_interface_kw Rops backends kw meth d2 Ml n flip ub nn mask iters sq eps
  = svd_interface_kw Rops backends' kw meth d2 Ml n flip ub nn mask iters sq eps.
Proof. exact @interface_kw_forwarded. Qed.
Print Assumptions C05_interface_kw_forwarded.

Theorem C05_builtin_kwargs : forall (svd : list (list R) -> bool -> triple R) eigh qr user sq eps d1 d2 (kw kw' : rkw R) n c X,
  builtin_backends Rops svd eigh qr user sq eps d1 d2 FTruncated kw n c X = builtin_backends Rops svd eigh qr user sq eps d1 d2 FTruncated kw' n c X /\
  builtin_backends Rops svd eigh qr user sq eps d1 d2 FSymeig kw n c X = builtin_backends Rops svd eigh qr user sq eps d1 d2 FSymeig kw' n c X /\
  builtin_backends Rops svd eigh qr user sq eps d1 d2 FRandomized kw n c X
    = randomized_svd Rops svd qr (kw_draw kw) X d1 d2 n (kw_n_oversamples kw) (kw_n_iter kw).
Proof. exact builtin_kwargs. Qed.
Print Assumptions C05_builtin_kwargs.

(* --- masked end-to-end statements for the other two methods, and the non_negative step --- *)
(* symeig_svd under a mask (FULL): if on EVERY d1 x d2 matrix eigh's answer on the Gram matrix meets eigh_contract2 with the kept
   eigenvalues above eps, the result is the sign-resolved symeig SVD of the LAST imputed matrix (which agrees with the input on the
   observed entries): S = sqrt of its leading eigenvalues, orthonormal factors, error = its discarded eigenvalues *)
Theorem C05_interface_masked_symeig_e2e : forall (eigh : list (list R) -> list R * list (list R)) (funs : fname -> nat -> list (list R) -> triple R)
    epsd (Ml mask : list (list R)) d1 d2 r flip ub iters sq eps U Sg V,
  rect d1 d2 Ml -> rect d1 d2 mask -> 1 <= d1 -> 1 <= iters -> r <= Nat.min d1 d2 ->
  let d := if d2 <? d1 then d1 else d2 in
  (forall G0, length (fst (eigh G0)) = d /\ rect d d (snd (eigh G0))) ->
  (forall X, rect d1 d2 X ->
     eigh_contract2 d (gram_of d1 d2 X) (fst (eigh (gram_of d1 d2 X))) (snd (eigh (gram_of d1 d2 X))) /\
     forall t, t < r -> (0 <= epsd < nth (d - 1 - t) (fst (eigh (gram_of d1 d2 X))) 0)%R) ->
  (forall cl X, funs FSymeig cl X = symeig_svd Rops eigh sqrt epsd X d1 d2 (Some r)) ->
  svd_interface Rops funs MSymeig d2 Ml (Some r) flip ub None (Some mask) iters sq eps = Ok (U, Sg, V) ->
  exists Mlast,
    rect d1 d2 Mlast /\
    (forall i j, i < d1 -> j < d2 -> mget Rops mask i j = 1%R -> mget Rops Mlast i j = mget Rops Ml i j) /\
    let lam := fst (eigh (gram_of d1 d2 Mlast)) in
    length Sg = r /\
    (forall t, t < r -> nth t Sg 0%R = sqrt (nth (d - 1 - t) lam 0%R) /\ (0 < nth t Sg 0)%R) /\
    orthonormal_cols d1 r (mget Rops U) /\ orthonormal_rows r d2 (mget Rops V) /\
    frob2 d1 d2 (fun i j => (mget Rops Mlast i j - recon U Sg V i j)%R) = rsum (d - r) (fun t => nth (d - 1 - (r + t)) lam 0%R).
Proof. exact interface_masked_symeig_e2e. Qed.
Print Assumptions C05_interface_masked_symeig_e2e.

(* randomized_svd under a mask, non-transposed branch (PARTIAL: the range finder's Q must cover the range of every imputed matrix) *)
Theorem C05_interface_masked_randomized_direct_partial : forall (svd : list (list R) -> bool -> triple R) (qr : nat -> list (list R) -> list (list R))
    (funs : fname -> nat -> list (list R) -> triple R) (G Ml mask : list (list R)) d1 d2 r n_over n_iter c flip ub iters sq eps U Sg V,
  rect d1 d2 Ml -> rect d1 d2 mask -> 1 <= d1 -> 1 <= iters ->
  let k := n_kept d1 d2 (Some r) in
  dec_rand_transposed d1 d2 k (Nat.min d1 d2) (dec_rand_ndims k n_over (Nat.max d1 d2)) = false ->
  (forall X, rect d1 d2 X ->
     let Q := range_finder Rops qr X d2 G n_iter in
     rect d1 c Q /\ orthonormal_cols d1 c (mget Rops Q) /\ covers d1 d2 c (mget Rops X) (mget Rops Q) /\
     forall f, svd_contract c d2 (mget Rops (mmul Rops d2 (transp Rops c Q) X)) f (svd (mmul Rops d2 (transp Rops c Q) X) f)) ->
  (forall cl X, funs FRandomized cl X = randomized_svd Rops svd qr G X d1 d2 (Some r) n_over n_iter) ->
  svd_interface Rops funs MRandomized d2 Ml (Some r) flip ub None (Some mask) iters sq eps = Ok (U, Sg, V) ->
  let kk := Nat.min k (Nat.max c d2) in
  exists Mlast,
    rect d1 d2 Mlast /\
    (forall i j, i < d1 -> j < d2 -> mget Rops mask i j = 1%R -> mget Rops Mlast i j = mget Rops Ml i j) /\
    nonneg_list Sg /\ nonincreasing Sg /\
    orthonormal_cols d1 (Nat.min kk c) (mget Rops U) /\ orthonormal_rows (Nat.min kk d2) d2 (mget Rops V) /\
    (forall B, rank_le d1 d2 k B ->
       (frob2 d1 d2 (fun i j => (mget Rops Mlast i j - recon U Sg V i j)%R) <= frob2 d1 d2 (fun i j => (mget Rops Mlast i j - B i j)%R))%R).
Proof. exact interface_masked_randomized_direct_partial. Qed.
Print Assumptions C05_interface_masked_randomized_direct_partial.

(* the non_negative step never touches the singular values (every method, mask, flip) *)
Theorem C05_interface_nn_same_S : forall (funs : fname -> nat -> list (list R) -> triple R) meth d2 Ml n flip ub ty mask iters sq eps U S V U' S' V',
  svd_interface Rops funs meth d2 Ml n flip ub (Some ty) mask iters sq eps = Ok (U, S, V) ->
  svd_interface Rops funs meth d2 Ml n flip ub None mask iters sq eps = Ok (U', S', V') -> S = S'.
Proof. exact interface_nn_same_S. Qed.
Print Assumptions C05_interface_nn_same_S.

(* the S statement for EVERY n_eigenvecs (LAPACK's full_matrices=True answer carries the same singular values as any thin decomposition) *)
Theorem C05_interface_S_true_gen : forall (orc : list (list R) -> bool -> triple R) (funs : fname -> nat -> list (list R) -> triple R)
    d1 d2 (Ml : list (list R)) n flip ub iters sq eps U S V,
  (forall f, svd_contract d1 d2 (mget Rops Ml) f (orc Ml f)) ->
  (forall c X, funs FTruncated c X = truncated_svd (orc X) d1 d2 n) -> 1 <= d1 ->
  svd_interface Rops funs MTruncated d2 Ml n flip ub None None iters sq eps = Ok (U, S, V) ->
  forall Ux Sx Vx, svd_contract d1 d2 (mget Rops Ml) false (Ux, Sx, Vx) -> S = firstn (n_kept d1 d2 n) Sx.
Proof. exact interface_S_true_gen. Qed.
Print Assumptions C05_interface_S_true_gen.

(* randomized_svd under a mask, transposed branch (PARTIAL, range covering for every imputed matrix) *)
Theorem C05_interface_masked_randomized_transposed_partial : forall (svd : list (list R) -> bool -> triple R) (qr : nat -> list (list R) -> list (list R))
    (funs : fname -> nat -> list (list R) -> triple R) (G Ml mask : list (list R)) d1 d2 r n_over n_iter c flip ub iters sq eps U Sg V,
  rect d1 d2 Ml -> rect d1 d2 mask -> 1 <= d1 -> 1 <= d2 -> 1 <= iters ->
  let k := n_kept d1 d2 (Some r) in
  dec_rand_transposed d1 d2 k (Nat.min d1 d2) (dec_rand_ndims k n_over (Nat.max d1 d2)) = true ->
  (forall X, rect d1 d2 X ->
     let Q := range_finder Rops qr (transp Rops d2 X) d1 G n_iter in
     let Mred := transp Rops d1 (mmul Rops d1 (transp Rops c Q) (transp Rops d2 X)) in
     rect d2 c Q /\ orthonormal_cols d2 c (mget Rops Q) /\ coversT d1 d2 c (mget Rops X) (mget Rops Q) /\
     forall f, svd_contract d1 c (mget Rops Mred) f (svd Mred f)) ->
  (forall cl X, funs FRandomized cl X = randomized_svd Rops svd qr G X d1 d2 (Some r) n_over n_iter) ->
  svd_interface Rops funs MRandomized d2 Ml (Some r) flip ub None (Some mask) iters sq eps = Ok (U, Sg, V) ->
  let kk := Nat.min k (Nat.max d1 c) in
  exists Mlast,
    rect d1 d2 Mlast /\
    (forall i j, i < d1 -> j < d2 -> mget Rops mask i j = 1%R -> mget Rops Mlast i j = mget Rops Ml i j) /\
    nonneg_list Sg /\ nonincreasing Sg /\
    orthonormal_cols d1 (Nat.min kk d1) (mget Rops U) /\ orthonormal_rows (Nat.min kk c) d2 (mget Rops V) /\
    (forall B, rank_le d1 d2 k B ->
       (frob2 d1 d2 (fun i j => (mget Rops Mlast i j - recon U Sg V i j)%R) <= frob2 d1 d2 (fun i j => (mget Rops Mlast i j - B i j)%R))%R).
Proof. exact interface_masked_randomized_transposed_partial. Qed.
Print Assumptions C05_interface_masked_randomized_transposed_partial.

(* two decompositions with different numbers of terms p <= p': the common singular values agree and the extra ones vanish (FULL) *)
Theorem C05_singular_values_unique_fn2 : forall m n p p' (M U V U' V' : nat -> nat -> R) (s s' : nat -> R),
  p <= p' ->
  orthonormal_cols m p U -> orthonormal_rows p n V ->
  (forall t, t < p -> (0 <= s t)%R) -> (forall i j, i <= j -> j < p -> (s j <= s i)%R) ->
  (forall i j, i < m -> j < n -> M i j = rsum p (fun t => (U i t * s t * V t j)%R)) ->
  orthonormal_cols m p' U' -> orthonormal_rows p' n V' ->
  (forall t, t < p' -> (0 <= s' t)%R) -> (forall i j, i <= j -> j < p' -> (s' j <= s' i)%R) ->
  (forall i j, i < m -> j < n -> M i j = rsum p' (fun t => (U' i t * s' t * V' t j)%R)) ->
  (forall t, t < p -> s t = s' t) /\ (forall t, p <= t -> t < p' -> s' t = 0%R).
Proof. exact singular_values_unique_fn2. Qed.
Print Assumptions C05_singular_values_unique_fn2.

(* randomized_svd, non-transposed branch, range covered (PARTIAL in that hypothesis only): the returned singular values are the leading
   singular values of EVERY singular value decomposition of M - "the randomized method meets this whenever the requested rank plus
   oversampling covers the matrix rank", for the clause "equal to the true leading singular values" *)
Theorem C05_randomized_S_true_partial : forall (svd : list (list R) -> bool -> triple R) (qr : nat -> list (list R) -> list (list R))
    (G M : list (list R)) d1 d2 n n_over n_iter c U Sg V,
  rect d1 d2 M -> 1 <= d1 -> c <= d1 ->
  let k := n_kept d1 d2 n in
  dec_rand_transposed d1 d2 k (Nat.min d1 d2) (dec_rand_ndims k n_over (Nat.max d1 d2)) = false ->
  let Q := range_finder Rops qr M d2 G n_iter in
  rect d1 c Q -> orthonormal_cols d1 c (mget Rops Q) -> covers d1 d2 c (mget Rops M) (mget Rops Q) ->
  let Mred := mmul Rops d2 (transp Rops c Q) M in
  (forall f, svd_contract c d2 (mget Rops Mred) f (svd Mred f)) ->
  randomized_svd Rops svd qr G M d1 d2 n n_over n_iter = (U, Sg, V) ->
  forall Ux Sx Vx, svd_contract d1 d2 (mget Rops M) false (Ux, Sx, Vx) ->
  forall t, t < length Sg -> nth t Sg 0%R = nth t Sx 0%R.
Proof. exact randomized_S_true. Qed.
Print Assumptions C05_randomized_S_true_partial.

(* an orthogonal, not normalised decomposition M = sum_t a_t v_t^T (a_a . a_b = lam_a [a = b], lam non-increasing) determines the squared
   singular values: lam_t = s_t^2 for every singular value decomposition of M (FULL; both Eckart-Young forms + both error identities) *)
Theorem C05_orth_singular_values : forall m n p p' (M A V U' V' : nat -> nat -> R) (lam s' : nat -> R),
  (forall a b, a < p -> b < p -> rsum m (fun i => (A i a * A i b)%R) = if Nat.eqb a b then lam a else 0%R) ->
  orthonormal_rows p n V ->
  (forall i j, i <= j -> j < p -> (lam j <= lam i)%R) ->
  (forall i j, i < m -> j < n -> M i j = rsum p (fun t => (A i t * V t j)%R)) ->
  orthonormal_cols m p' U' -> orthonormal_rows p' n V' ->
  (forall t, t < p' -> (0 <= s' t)%R) -> (forall i j, i <= j -> j < p' -> (s' j <= s' i)%R) ->
  (forall i j, i < m -> j < n -> M i j = rsum p' (fun t => (U' i t * s' t * V' t j)%R)) ->
  forall t, t < p -> t < p' -> ((s' t)^2 = lam t)%R.
Proof. exact orth_singular_values. Qed.
Print Assumptions C05_orth_singular_values.

(* symeig_svd (FULL, both branches, every n_eigenvecs; eigh_contract2 with ascending eigenvalues, kept eigenvalues above eps): the returned
   singular values are the leading singular values of EVERY singular value decomposition of M *)
Theorem C05_symeig_wide_S_true : forall (eigh : list (list R) -> list R * list (list R)) eps (M : list (list R)) d1 d2 n lam W,
  d1 <= d2 -> rect d1 d2 M ->
  eigh (mmul Rops d2 (transp Rops d2 M) M) = (lam, W) ->
  eigh_contract2 d2 (mmul Rops d2 (transp Rops d2 M) M) lam W -> ascending lam ->
  let p := Nat.min (Nat.min d1 d2) (n_kept d1 d2 n) in
  (forall t, t < p -> (0 <= eps < nth (d2 - 1 - t) lam 0)%R) ->
  let '(U, Sg, V) := symeig_svd Rops eigh sqrt eps M d1 d2 n in
  forall Ux Sx Vx, svd_contract d1 d2 (mget Rops M) false (Ux, Sx, Vx) -> forall t, t < p -> nth t Sg 0%R = nth t Sx 0%R.
Proof. exact symeig_wide_S_true. Qed.
Print Assumptions C05_symeig_wide_S_true.

Theorem C05_symeig_tall_S_true : forall (eigh : list (list R) -> list R * list (list R)) eps (M : list (list R)) d1 d2 n lam W,
  d2 < d1 -> rect d1 d2 M ->
  eigh (mmul Rops d1 M (transp Rops d2 M)) = (lam, W) ->
  eigh_contract2 d1 (mmul Rops d1 M (transp Rops d2 M)) lam W -> ascending lam ->
  let p := Nat.min (Nat.min d1 d2) (n_kept d1 d2 n) in
  (forall t, t < p -> (0 <= eps < nth (d1 - 1 - t) lam 0)%R) ->
  let '(U, Sg, V) := symeig_svd Rops eigh sqrt eps M d1 d2 n in
  forall Ux Sx Vx, svd_contract d1 d2 (mget Rops M) false (Ux, Sx, Vx) -> forall t, t < p -> nth t Sg 0%R = nth t Sx 0%R.
Proof. exact symeig_tall_S_true. Qed.
Print Assumptions C05_symeig_tall_S_true.

(* the executable Gaussian-rational model at work: U = [[i]], V = [[1]], U-based decision: phase i, U' = i conj(i) = 1, V' = 1 i = i,
   so U' V' = i = U V and the deciding entry became real positive *)
Example C05_complex_flip_example :
  svd_flip_c (fun q => q) [[(0, 1)%Q]] [[(1, 0)%Q]] true = ([[(1, 0)%Q]], [[(0, 1)%Q]]).
Proof. vm_compute. reflexivity. Qed.

(* ================= ROUND 7 ================= *)
(* randomized_svd, TRANSPOSED branch (range finder on M^T, V' = V @ Q^T), rows of M covered by Q (PARTIAL in that hypothesis only): the
   returned singular values are the leading singular values of EVERY singular value decomposition of M (mirror of C05_randomized_S_true_partial) *)
Theorem C05_randomized_S_true_transposed_partial : forall (svd : list (list R) -> bool -> triple R) (qr : nat -> list (list R) -> list (list R))
    (G M : list (list R)) d1 d2 n n_over n_iter c U Sg V,
  rect d1 d2 M -> 1 <= d2 -> c <= d2 ->
  let k := n_kept d1 d2 n in
  dec_rand_transposed d1 d2 k (Nat.min d1 d2) (dec_rand_ndims k n_over (Nat.max d1 d2)) = true ->
  let Q := range_finder Rops qr (transp Rops d2 M) d1 G n_iter in
  rect d2 c Q -> orthonormal_cols d2 c (mget Rops Q) -> coversT d1 d2 c (mget Rops M) (mget Rops Q) ->
  let Mred := transp Rops d1 (mmul Rops d1 (transp Rops c Q) (transp Rops d2 M)) in
  (forall f, svd_contract d1 c (mget Rops Mred) f (svd Mred f)) ->
  randomized_svd Rops svd qr G M d1 d2 n n_over n_iter = (U, Sg, V) ->
  forall Ux Sx Vx, svd_contract d1 d2 (mget Rops M) false (Ux, Sx, Vx) ->
  forall t, t < length Sg -> nth t Sg 0%R = nth t Sx 0%R.
Proof. exact randomized_S_true_transposed. Qed.
Print Assumptions C05_randomized_S_true_transposed_partial.

(* --- COMPLEX SCALARS, C = R x R (a complex matrix = real part, imaginary part).  The three real theorems (error identity, Eckart-Young-Mirsky,
       uniqueness of the singular values) transported through the multiplicative real embedding [[A, -B], [B, A]] (Proofs/SvdComplexR.v).
       herm_cols / herm_rows: Hermitian orthonormality; cprod_re / cprod_im: real and imaginary part of sum_t U[i,t] s_t V[t,j]; FULL --- *)
Theorem C05_complex_trunc_error : forall m n p (Mr Mi Ur Ui Vr Vi : nat -> nat -> R) (s : nat -> R),
  herm_cols m p Ur Ui -> herm_rows p n Vr Vi ->
  (forall i j, i < m -> j < n -> Mr i j = cprod_re p Ur Ui Vr Vi s i j) ->
  (forall i j, i < m -> j < n -> Mi i j = cprod_im p Ur Ui Vr Vi s i j) ->
  forall k, k <= p ->
  cfrob2 m n (fun i j => (Mr i j - cprod_re k Ur Ui Vr Vi s i j)%R) (fun i j => (Mi i j - cprod_im k Ur Ui Vr Vi s i j)%R)
  = rsum (p - k) (fun t => ((s (k + t)%nat)^2)%R).
Proof. exact complex_trunc_error. Qed.
Print Assumptions C05_complex_trunc_error.

Theorem C05_complex_eckart_young : forall m n p (Mr Mi Ur Ui Vr Vi : nat -> nat -> R) (s : nat -> R),
  herm_cols m p Ur Ui -> herm_rows p n Vr Vi ->
  (forall i j, i < m -> j < n -> Mr i j = cprod_re p Ur Ui Vr Vi s i j) ->
  (forall i j, i < m -> j < n -> Mi i j = cprod_im p Ur Ui Vr Vi s i j) ->
  (forall t, t < p -> (0 <= s t)%R) -> (forall i j, i <= j -> j < p -> (s j <= s i)%R) ->
  forall k (Br Bi Xr Xi Yr Yi : nat -> nat -> R),
  (forall i j, i < m -> j < n -> Br i j = cprod_re k Xr Xi Yr Yi (fun _ => 1%R) i j) ->
  (forall i j, i < m -> j < n -> Bi i j = cprod_im k Xr Xi Yr Yi (fun _ => 1%R) i j) ->
  (rsum (p - k) (fun t => ((s (k + t)%nat)^2)%R) <= cfrob2 m n (fun i j => (Mr i j - Br i j)%R) (fun i j => (Mi i j - Bi i j)%R))%R.
Proof. exact complex_eckart_young. Qed.
Print Assumptions C05_complex_eckart_young.

Theorem C05_complex_singular_values_unique : forall m n p (Mr Mi Ur Ui Vr Vi : nat -> nat -> R) (s : nat -> R),
  herm_cols m p Ur Ui -> herm_rows p n Vr Vi ->
  (forall i j, i < m -> j < n -> Mr i j = cprod_re p Ur Ui Vr Vi s i j) ->
  (forall i j, i < m -> j < n -> Mi i j = cprod_im p Ur Ui Vr Vi s i j) ->
  (forall t, t < p -> (0 <= s t)%R) -> (forall i j, i <= j -> j < p -> (s j <= s i)%R) ->
  forall (Ur' Ui' Vr' Vi' : nat -> nat -> R) (s' : nat -> R),
  herm_cols m p Ur' Ui' -> herm_rows p n Vr' Vi' ->
  (forall t, t < p -> (0 <= s' t)%R) -> (forall i j, i <= j -> j < p -> (s' j <= s' i)%R) ->
  (forall i j, i < m -> j < n -> Mr i j = cprod_re p Ur' Ui' Vr' Vi' s' i j) ->
  (forall i j, i < m -> j < n -> Mi i j = cprod_im p Ur' Ui' Vr' Vi' s' i j) ->
  forall t, t < p -> s t = s' t.
Proof. exact complex_singular_values_unique. Qed.
Print Assumptions C05_complex_singular_values_unique.

(* truncated_svd OF THE MODEL (polymorphic in the scalar type; the complex correspondence runs this very function) on complex scalars, for LAPACK
   answers meeting the complex SVD contract csvd_contract, 0 <= n_eigenvecs <= min(shape): documented shapes, S = the leading values (real,
   non-negative, non-increasing), Hermitian-orthonormal factors, squared error = the discarded squared singular values, and no complex matrix
   of rank <= n_eigenvecs is closer to M (FULL) *)
Theorem C05_complex_truncated_best : forall (oracle : bool -> triple CR) d1 d2 (Mr Mi : nat -> nat -> R) r,
  (forall f, csvd_contract d1 d2 Mr Mi f (oracle f)) -> r <= Nat.min d1 d2 ->
  let So := snd (fst (oracle false)) in
  let '(U, Sg, V) := truncated_svd oracle d1 d2 (Some r) in
  let Er := fun i j => (Mr i j - cprod_re r (cre U) (cim U) (cre V) (cim V) (sre Sg) i j)%R in
  let Ei := fun i j => (Mi i j - cprod_im r (cre U) (cim U) (cre V) (cim V) (sre Sg) i j)%R in
  shape3 (U, Sg, V) d1 r r r d2 /\ Sg = firstn r So /\
  (forall t, t < r -> snd (nth t Sg (0%R, 0%R)) = 0%R /\ (0 <= sre Sg t)%R) /\
  (forall i j, i <= j -> j < r -> (sre Sg j <= sre Sg i)%R) /\
  herm_cols d1 r (cre U) (cim U) /\ herm_rows r d2 (cre V) (cim V) /\
  cfrob2 d1 d2 Er Ei = rsum (Nat.min d1 d2 - r) (fun t => ((sre So (r + t)%nat)^2)%R) /\
  (forall Br Bi, crank_le d1 d2 r Br Bi ->
     (cfrob2 d1 d2 Er Ei <= cfrob2 d1 d2 (fun i j => (Mr i j - Br i j)%R) (fun i j => (Mi i j - Bi i j)%R))%R).
Proof. exact complex_truncated_best. Qed.
Print Assumptions C05_complex_truncated_best.

Theorem C05_complex_truncated_S_true : forall (oracle : bool -> triple CR) d1 d2 (Mr Mi : nat -> nat -> R) r Ux Sx Vx,
  (forall f, csvd_contract d1 d2 Mr Mi f (oracle f)) -> r <= Nat.min d1 d2 ->
  csvd_contract d1 d2 Mr Mi false (Ux, Sx, Vx) ->
  forall t, t < r -> sre (snd (fst (truncated_svd oracle d1 d2 (Some r)))) t = sre Sx t.
Proof. exact complex_truncated_S_true. Qed.
Print Assumptions C05_complex_truncated_S_true.

Example C05_complex_contract_satisfiable : forall f,
  csvd_contract 1 1 (fun _ _ => 0%R) (fun _ _ => 2%R) f ([[(0%R, 1%R)]], [(2%R, 0%R)], [[(1%R, 0%R)]]).
Proof. exact complex_contract_witness. Qed.

(* phase resolution over C (svd_flip as of ca31a67), function level: columns of U times conj(g_t), rows of V times g_t, |g_t| = 1: the product and
   the Hermitian orthonormality of both factors are kept (FULL; the list-level model Model/SvdConj.v is tied to it by the correspondence only) *)
Theorem C05_complex_phase_product : forall p (Ur Ui Vr Vi : nat -> nat -> R) (gr gi : nat -> R),
  (forall t, t < p -> ((gr t)^2 + (gi t)^2 = 1)%R) ->
  forall (s : nat -> R) i j,
  cprod_re p (Ur' Ur Ui gr gi) (Ui' Ur Ui gr gi) (Vr' Vr Vi gr gi) (Vi' Vr Vi gr gi) s i j = cprod_re p Ur Ui Vr Vi s i j /\
  cprod_im p (Ur' Ur Ui gr gi) (Ui' Ur Ui gr gi) (Vr' Vr Vi gr gi) (Vi' Vr Vi gr gi) s i j = cprod_im p Ur Ui Vr Vi s i j.
Proof. exact phase_product. Qed.
Print Assumptions C05_complex_phase_product.

Theorem C05_complex_phase_orthonormal : forall m n p (Ur Ui Vr Vi : nat -> nat -> R) (gr gi : nat -> R),
  (forall t, t < p -> ((gr t)^2 + (gi t)^2 = 1)%R) ->
  (herm_cols m p Ur Ui -> herm_cols m p (Ur' Ur Ui gr gi) (Ui' Ur Ui gr gi)) /\
  (herm_rows p n Vr Vi -> herm_rows p n (Vr' Vr Vi gr gi) (Vi' Vr Vi gr gi)).
Proof. intros m n p Ur Ui Vr Vi gr gi H. split; [exact (phase_herm_cols m p Ur Ui gr gi H) | exact (phase_herm_rows n p Vr Vi gr gi H)]. Qed.
Print Assumptions C05_complex_phase_orthonormal.

(* --- DECISION LOGIC TIE, round 7 (Proofs/SvdDecisions2.v; these are definitional / short inductions): the model functions factor through the
       named decision functions that the harness re-derives from the Python ast on every run and proves equal (generated goals):
       make_svd_non_negative's per-column choice (skip / positive parts / negative parts), loop range and final chain; svd_flip's padding of the
       sign vector; the shape of St and the number of diagonal entries in the imputation step; and (generated function, proved equal to
       range_finder_conj by induction over n_iter on every run) the tl.qr call sequence of randomized_range_finder --- *)
Theorem C05_nn_pair_factored : forall (F : Type) (Op : fops F) (sq : F -> F) j s (x y : list F),
  nn_pair Op sq j s x y = match j with 0 => nn_lead Op sq s x y | _ => nn_body Op sq s x y end.
Proof. exact @nn_pair_factored. Qed.
Print Assumptions C05_nn_pair_factored.

Theorem C05_make_nn_factored : forall (F : Type) (Op : fops F) (sq : F -> F) eps (M U : list (list F)) Sg V ty,
  make_svd_non_negative Op sq eps M U Sg V ty =
  let c := ncols U in let r := length V in let q := snd (dec_nn_range c r) in
  let pairs := map (fun j => nn_pair Op sq j (nth j Sg (f0 Op)) (col Op j U) (nth j V [])) (seq 0 q) in
  let Wt := map fst pairs ++ repeat (repeat (f0 Op) (length U)) (c - q) in
  let H := map snd pairs ++ map (fun row => map (fun _ => f0 Op) row) (skipn q V) in
  let W := cols_of Op (length U) Wt in
  match dec_nn_final ty with
  | FinSoft => (soft_thr Op eps W, soft_thr Op eps H)
  | FinFill => let avg := fabs Op (fmean Op M) in (fill_avg Op eps avg W, fill_avg Op eps avg H)
  end.
Proof. exact @make_nn_factored. Qed.
Print Assumptions C05_make_nn_factored.

Theorem C05_nn_pairs_factored : forall (F : Type) (g : nat -> list F * list F) cu rv,
  1 <= Nat.min cu rv ->
  let '(lo, hi) := dec_nn_range cu rv in
  map g (seq 0 (Nat.min cu rv)) = g 0 :: map g (seq lo (hi - lo)).
Proof. exact @nn_pairs_factored. Qed.
Print Assumptions C05_nn_pairs_factored.

Theorem C05_fit_factored : forall (F : Type) (Op : fops F) n (l : list F),
  fit Op n l = let '(pad, b) := dec_flip_pad (length l) n in firstn b (l ++ repeat (f1 Op) pad).
Proof. exact @fit_factored. Qed.
Print Assumptions C05_fit_factored.

Theorem C05_impute_factored : forall (F : Type) (Op : fops F) d2 (M mask U : list (list F)) Sg V iters,
  impute Op d2 M mask U Sg V =
  let '(_, r, c, l) := dec_mask_st iters (ncols U) (length V) (length Sg) in
  let St := st_matrix_l Op r c l Sg in
  let R := mmul Op d2 (mmul Op (length V) U St) V in
  mzip (fadd Op) (mzip (fmul Op) M mask) (mzip (fun x m => fmul Op x (fsub Op (f1 Op) m)) R mask).
Proof. exact @impute_factored. Qed.
Print Assumptions C05_impute_factored.

(* the conjugate-aware randomized_svd / the mask-aware flip-parametric interface (executed at the Gaussian rationals by the complex
   correspondence) ARE the real model for the identity conjugation / the real flip; the scalar-generic final_test_g evaluated by the per-run
   sketch check IS final_test of C05_range_finder_covers at Rops *)
Theorem C05_randomized_conj_real : forall (F : Type) (Op : fops F) svd qr G (M : list (list F)) d1 d2 n n_over n_iter,
  randomized_svd_conj Op (fun x => x) svd qr G M d1 d2 n n_over n_iter = randomized_svd Op svd qr G M d1 d2 n n_over n_iter.
Proof. exact @randomized_conj_real. Qed.
Print Assumptions C05_randomized_conj_real.

Theorem C05_interface_cmask_real : forall (F : Type) (Op : fops F) funs meth d2 (M : list (list F)) n flip ub mask iters sq eps,
  svd_interface_cmask Op (svd_flip Op) funs meth d2 M n flip ub mask iters = svd_interface Op funs meth d2 M n flip ub None mask iters sq eps.
Proof. exact @interface_cmask_real. Qed.
Print Assumptions C05_interface_cmask_real.

Theorem C05_final_test_g_real : forall qr A cA G n_iter, final_test_g Rops qr A cA G n_iter = final_test qr A cA G n_iter.
Proof. exact final_test_g_real. Qed.
Print Assumptions C05_final_test_g_real.

(* --- COMPLEX svd_flip, LIST LEVEL (Proofs/SvdComplexFlip.v): Model/SvdConj.v svd_flip_conj - the function the complex correspondence executes -
       instantiated at complex multiplication / conjugation over R, for ANY phase function ph (np.sign) and magnitude comparison lt (argmax of
       abs): if every computed phase has unit modulus (no deciding entry is zero) then, for both decisions and any numbers of U columns /
       V rows (padding by ones), Hermitian orthonormality of both factors and the product over any common prefix are kept (FULL under that
       hypothesis, which is the complex form of the hypothesis of C05_flip_product) --- *)
Theorem C05_complex_flip_model : forall (ph : CR -> CR) (lt : CR -> CR -> bool) d1 c r d2 (U V : list (list CR)),
  rect d1 c U -> rect r d2 V -> 1 <= d1 -> forall ub : bool,
  let sg := if ub then csigns_u c0R ph lt U else csigns_v c0R ph lt V in
  (forall t, t < length sg -> unit_mod (nth t sg c0R)) ->
  let '(U2, V2) := flipR ph lt U V ub in
  (herm_cols d1 c (cre U) (cim U) -> herm_cols d1 c (cre U2) (cim U2)) /\
  (herm_rows r d2 (cre V) (cim V) -> herm_rows r d2 (cre V2) (cim V2)) /\
  (forall p (s : nat -> R) i j, p <= Nat.min c r -> i < d1 -> j < d2 ->
     cprod_re p (cre U2) (cim U2) (cre V2) (cim V2) s i j = cprod_re p (cre U) (cim U) (cre V) (cim V) s i j /\
     cprod_im p (cre U2) (cim U2) (cre V2) (cim V2) s i j = cprod_im p (cre U) (cim U) (cre V) (cim V) s i j).
Proof. exact complex_flip_model. Qed.
Print Assumptions C05_complex_flip_model.

Example C05_complex_flip_hyp_satisfiable :
  let sg := csigns_u c0R (fun z : CR => z) (fun _ _ => false) [[(0%R, 1%R)]] in
  forall t, t < length sg -> unit_mod (nth t sg c0R).
Proof. exact complex_flip_hyp_witness. Qed.

(* --- END TO END over C (FULL under the unit-phase hypothesis): svd_interface(method = truncated_svd) of the model on a complex matrix, any flip
       setting, 1 <= n_eigenvecs <= min(shape), LAPACK's answer meeting the complex SVD contract on the very matrix handed to the interface: the
       returned S is the prefix of LAPACK's (real, >= 0, non-increasing), both factors are Hermitian-orthonormal, the squared error is the sum of
       the discarded squared singular values and no complex matrix of rank <= n_eigenvecs is closer.  svd_interface_flip with the real flip IS
       svd_interface (C05_interface_flip_real). --- *)
Theorem C05_complex_interface_truncated_e2e : forall (ph : CR -> CR) (lt : CR -> CR -> bool) (oracle : bool -> triple CR)
    (funs : fname -> nat -> list (list CR) -> triple CR) d1 d2 (Ml : list (list CR)) r (flip ub : bool) U S V,
  (forall f, csvd_contract d1 d2 (cre Ml) (cim Ml) f (oracle f)) ->
  funs FTruncated 0 Ml = truncated_svd oracle d1 d2 (Some r) -> 1 <= r <= Nat.min d1 d2 ->
  (flip = true ->
   let t0 := truncated_svd oracle d1 d2 (Some r) in
   let sg := if ub then csigns_u c0R ph lt (fst (fst t0)) else csigns_v c0R ph lt (snd t0) in
   forall t, t < length sg -> unit_mod (nth t sg c0R)) ->
  svd_interface_flip (flipR ph lt) funs MTruncated Ml flip ub = Ok (U, S, V) ->
  let So := snd (fst (oracle false)) in
  let Er := fun i j => (cre Ml i j - cprod_re r (cre U) (cim U) (cre V) (cim V) (sre S) i j)%R in
  let Ei := fun i j => (cim Ml i j - cprod_im r (cre U) (cim U) (cre V) (cim V) (sre S) i j)%R in
  S = firstn r So /\
  (forall t, t < r -> snd (nth t S (0%R, 0%R)) = 0%R /\ (0 <= sre S t)%R) /\
  (forall i j, i <= j -> j < r -> (sre S j <= sre S i)%R) /\
  herm_cols d1 r (cre U) (cim U) /\ herm_rows r d2 (cre V) (cim V) /\
  cfrob2 d1 d2 Er Ei = rsum (Nat.min d1 d2 - r) (fun t => ((sre So (r + t)%nat)^2)%R) /\
  (forall Br Bi, crank_le d1 d2 r Br Bi ->
     (cfrob2 d1 d2 Er Ei <= cfrob2 d1 d2 (fun i j => (cre Ml i j - Br i j)%R) (fun i j => (cim Ml i j - Bi i j)%R))%R).
Proof. exact complex_interface_truncated_e2e. Qed.
Print Assumptions C05_complex_interface_truncated_e2e.

(* the unit-phase hypothesis DERIVED from the orthonormality of the deciding vectors when ph is np.sign on complex numbers (sign_like: unit modulus
   for every non-zero argument) and lt the magnitude comparison behind argmax(abs(.)) (abs_lt): a vector of norm 1 has a non-zero entry and the
   deciding entry has the largest magnitude (FULL) - and with it the end-to-end statement over C without any hypothesis on the phases *)
Theorem C05_complex_signs_unit : forall (ph : CR -> CR) (lt : CR -> CR -> bool), sign_like ph -> abs_lt lt ->
  (forall d1 c (U : list (list CR)), rect d1 c U -> 1 <= d1 -> herm_cols d1 c (cre U) (cim U) ->
     let sg := csigns_u c0R ph lt U in forall t, t < length sg -> unit_mod (nth t sg c0R)) /\
  (forall r d2 (V : list (list CR)), rect r d2 V -> herm_rows r d2 (cre V) (cim V) ->
     let sg := csigns_v c0R ph lt V in forall t, t < length sg -> unit_mod (nth t sg c0R)).
Proof. intros ph lt PH LT. split; [exact (signs_u_unit ph lt PH LT) | exact (signs_v_unit ph lt PH LT)]. Qed.
Print Assumptions C05_complex_signs_unit.

Theorem C05_complex_interface_truncated_e2e_sign : forall (ph : CR -> CR) (lt : CR -> CR -> bool) (oracle : bool -> triple CR)
    (funs : fname -> nat -> list (list CR) -> triple CR) d1 d2 (Ml : list (list CR)) r (flip ub : bool) U S V,
  sign_like ph -> abs_lt lt ->
  (forall f, csvd_contract d1 d2 (cre Ml) (cim Ml) f (oracle f)) ->
  funs FTruncated 0 Ml = truncated_svd oracle d1 d2 (Some r) -> 1 <= r <= Nat.min d1 d2 ->
  svd_interface_flip (flipR ph lt) funs MTruncated Ml flip ub = Ok (U, S, V) ->
  let So := snd (fst (oracle false)) in
  let Er := fun i j => (cre Ml i j - cprod_re r (cre U) (cim U) (cre V) (cim V) (sre S) i j)%R in
  let Ei := fun i j => (cim Ml i j - cprod_im r (cre U) (cim U) (cre V) (cim V) (sre S) i j)%R in
  S = firstn r So /\
  (forall t, t < r -> snd (nth t S (0%R, 0%R)) = 0%R /\ (0 <= sre S t)%R) /\
  (forall i j, i <= j -> j < r -> (sre S j <= sre S i)%R) /\
  herm_cols d1 r (cre U) (cim U) /\ herm_rows r d2 (cre V) (cim V) /\
  cfrob2 d1 d2 Er Ei = rsum (Nat.min d1 d2 - r) (fun t => ((sre So (r + t)%nat)^2)%R) /\
  (forall Br Bi, crank_le d1 d2 r Br Bi ->
     (cfrob2 d1 d2 Er Ei <= cfrob2 d1 d2 (fun i j => (cre Ml i j - Br i j)%R) (fun i j => (cim Ml i j - Bi i j)%R))%R).
Proof. exact complex_interface_truncated_e2e_sign. Qed.
Print Assumptions C05_complex_interface_truncated_e2e_sign.

Example C05_sign_like_abs_lt_satisfiable :
  sign_like (fun z => ((fst z / sqrt (norm2 z))%R, (snd z / sqrt (norm2 z))%R)) /\
  abs_lt (fun a b => if Rlt_dec (norm2 a) (norm2 b) then true else false).
Proof. exact sign_like_abs_lt_witness. Qed.

(* --- randomized_svd over C, the lifting step U' = Q @ U at function level (PARTIAL exactly as over R: `M = Q B`, i.e. Q covers the range of M with
       B = Q^H M, is a hypothesis): if Q has Hermitian-orthonormal columns and the reduced matrix B has the complex SVD U diag(s) V, then (Q U, s, V)
       is a complex SVD of M; hence the error identity of every truncation, best approximation among the complex matrices of rank <= k, and s = the
       singular values of EVERY complex SVD of M.  Transported from C05_randomized_lift_partial through the real embedding; not tied to the
       list-level randomized_svd_conj beyond the correspondence. --- *)
Theorem C05_complex_randomized_lift_partial : forall m n c p (Mr Mi Qr Qi Br Bi Ur Ui Vr Vi : nat -> nat -> R) (s : nat -> R),
  herm_cols m c Qr Qi ->
  (forall i j, i < m -> j < n -> Mr i j = cprod_re c Qr Qi Br Bi (fun _ => 1%R) i j) ->
  (forall i j, i < m -> j < n -> Mi i j = cprod_im c Qr Qi Br Bi (fun _ => 1%R) i j) ->
  herm_cols c p Ur Ui -> herm_rows p n Vr Vi ->
  (forall a j, a < c -> j < n -> Br a j = cprod_re p Ur Ui Vr Vi s a j) ->
  (forall a j, a < c -> j < n -> Bi a j = cprod_im p Ur Ui Vr Vi s a j) ->
  herm_cols m p (QUr c Qr Qi Ur Ui) (QUi c Qr Qi Ur Ui) /\
  (forall i j, i < m -> j < n ->
     Mr i j = cprod_re p (QUr c Qr Qi Ur Ui) (QUi c Qr Qi Ur Ui) Vr Vi s i j /\
     Mi i j = cprod_im p (QUr c Qr Qi Ur Ui) (QUi c Qr Qi Ur Ui) Vr Vi s i j).
Proof. exact complex_randomized_lift. Qed.
Print Assumptions C05_complex_randomized_lift_partial.

Theorem C05_complex_randomized_lift_best_partial : forall m n c p (Mr Mi Qr Qi Br Bi Ur Ui Vr Vi : nat -> nat -> R) (s : nat -> R),
  herm_cols m c Qr Qi ->
  (forall i j, i < m -> j < n -> Mr i j = cprod_re c Qr Qi Br Bi (fun _ => 1%R) i j) ->
  (forall i j, i < m -> j < n -> Mi i j = cprod_im c Qr Qi Br Bi (fun _ => 1%R) i j) ->
  herm_cols c p Ur Ui -> herm_rows p n Vr Vi ->
  (forall a j, a < c -> j < n -> Br a j = cprod_re p Ur Ui Vr Vi s a j) ->
  (forall a j, a < c -> j < n -> Bi a j = cprod_im p Ur Ui Vr Vi s a j) ->
  (forall t, t < p -> (0 <= s t)%R) -> (forall i j, i <= j -> j < p -> (s j <= s i)%R) ->
  forall k, k <= p ->
  let Wr := QUr c Qr Qi Ur Ui in let Wi := QUi c Qr Qi Ur Ui in
  cfrob2 m n (fun i j => (Mr i j - cprod_re k Wr Wi Vr Vi s i j)%R) (fun i j => (Mi i j - cprod_im k Wr Wi Vr Vi s i j)%R)
  = rsum (p - k) (fun t => ((s (k + t)%nat)^2)%R) /\
  (forall Xr Xi Yr Yi Cr Ci : nat -> nat -> R,
     (forall i j, i < m -> j < n -> Cr i j = cprod_re k Xr Xi Yr Yi (fun _ => 1%R) i j) ->
     (forall i j, i < m -> j < n -> Ci i j = cprod_im k Xr Xi Yr Yi (fun _ => 1%R) i j) ->
     (rsum (p - k) (fun t => ((s (k + t)%nat)^2)%R) <= cfrob2 m n (fun i j => (Mr i j - Cr i j)%R) (fun i j => (Mi i j - Ci i j)%R))%R) /\
  (forall (Ur' Ui' Vr' Vi' : nat -> nat -> R) (s' : nat -> R),
     herm_cols m p Ur' Ui' -> herm_rows p n Vr' Vi' ->
     (forall t, t < p -> (0 <= s' t)%R) -> (forall i j, i <= j -> j < p -> (s' j <= s' i)%R) ->
     (forall i j, i < m -> j < n -> Mr i j = cprod_re p Ur' Ui' Vr' Vi' s' i j) ->
     (forall i j, i < m -> j < n -> Mi i j = cprod_im p Ur' Ui' Vr' Vi' s' i j) ->
     forall t, t < p -> s t = s' t).
Proof. exact complex_randomized_lift_best. Qed.
Print Assumptions C05_complex_randomized_lift_best_partial.

(* --- the SIGN CONVENTION over C, list level (FULL): with ph = np.sign on complex numbers (sign_like: unit modulus, sign_exact: z * conj(ph z) = |z|,
       both for non-zero z) and lt the magnitude comparison, after the U-based flip every column of U - after the V-based flip every row of V -
       of a Hermitian-orthonormal factor has an entry that is REAL, POSITIVE and of largest magnitude in that column / row ("the largest-magnitude
       entry of each deciding vector is positive"); with C05_complex_flip_model + C05_complex_signs_unit: without changing the product --- *)
Theorem C05_complex_flip_u_sign : forall (ph : CR -> CR) (lt : CR -> CR -> bool), sign_like ph -> sign_exact ph -> abs_lt lt ->
  forall d1 c r d2 (U V : list (list CR)),
  rect d1 c U -> rect r d2 V -> 1 <= d1 -> herm_cols d1 c (cre U) (cim U) ->
  let '(U2, _) := flipR ph lt U V true in
  forall t, t < c -> exists i, i < d1 /\ cim U2 i t = 0%R /\ (0 < cre U2 i t)%R /\
    forall i', i' < d1 -> ((cre U2 i' t)^2 + (cim U2 i' t)^2 <= (cre U2 i t)^2)%R.
Proof. exact complex_flip_u_sign. Qed.
Print Assumptions C05_complex_flip_u_sign.

Theorem C05_complex_flip_v_sign : forall (ph : CR -> CR) (lt : CR -> CR -> bool), sign_like ph -> sign_exact ph -> abs_lt lt ->
  forall d1 c r d2 (U V : list (list CR)),
  rect d1 c U -> rect r d2 V -> 1 <= d1 -> 1 <= d2 -> herm_rows r d2 (cre V) (cim V) ->
  let '(_, V2) := flipR ph lt U V false in
  forall t, t < r -> exists j, j < d2 /\ cim V2 t j = 0%R /\ (0 < cre V2 t j)%R /\
    forall j', j' < d2 -> ((cre V2 t j')^2 + (cim V2 t j')^2 <= (cre V2 t j)^2)%R.
Proof. exact complex_flip_v_sign. Qed.
Print Assumptions C05_complex_flip_v_sign.

Example C05_sign_exact_satisfiable : sign_exact (fun z => ((fst z / sqrt (norm2 z))%R, (snd z / sqrt (norm2 z))%R)).
Proof. exact sign_exact_witness. Qed.

(* truncated_svd of the model on complex scalars for EVERY n_eigenvecs (None, 0, > min(shape), > max(shape)); k = the clamped request, f = the
   full_matrices value the code chooses, p = min(k, min(shape)) = the number of returned singular values (FULL) *)
Theorem C05_complex_truncated_best_gen : forall (oracle : bool -> triple CR) d1 d2 (Mr Mi : nat -> nat -> R) n,
  (forall f, csvd_contract d1 d2 Mr Mi f (oracle f)) ->
  let k := n_kept d1 d2 n in
  let f := full_flag d1 d2 n in
  let mn := Nat.min d1 d2 in
  let So := snd (fst (oracle f)) in
  let p := Nat.min k mn in
  let '(U, Sg, V) := truncated_svd oracle d1 d2 n in
  let Er := fun i j => (Mr i j - cprod_re p (cre U) (cim U) (cre V) (cim V) (sre Sg) i j)%R in
  let Ei := fun i j => (Mi i j - cprod_im p (cre U) (cim U) (cre V) (cim V) (sre Sg) i j)%R in
  Sg = firstn k So /\ length Sg = p /\
  herm_cols d1 (Nat.min k (if f then d1 else mn)) (cre U) (cim U) /\
  herm_rows (Nat.min k (if f then d2 else mn)) d2 (cre V) (cim V) /\
  cfrob2 d1 d2 Er Ei = rsum (mn - p) (fun t => ((sre So (p + t)%nat)^2)%R) /\
  (forall Br Bi, crank_le d1 d2 k Br Bi ->
     (cfrob2 d1 d2 Er Ei <= cfrob2 d1 d2 (fun i j => (Mr i j - Br i j)%R) (fun i j => (Mi i j - Bi i j)%R))%R).
Proof. exact complex_truncated_best_gen. Qed.
Print Assumptions C05_complex_truncated_best_gen.

(* END TO END over C for EVERY n_eigenvecs (None, 0, > min(shape), > max(shape)), d1 >= 1, any flip setting, ph = np.sign, lt = magnitude comparison (FULL) *)
Theorem C05_complex_interface_truncated_e2e_gen : forall (ph : CR -> CR) (lt : CR -> CR -> bool) (oracle : bool -> triple CR)
    (funs : fname -> nat -> list (list CR) -> triple CR) d1 d2 (Ml : list (list CR)) n (flip ub : bool) U S V,
  sign_like ph -> abs_lt lt ->
  (forall f, csvd_contract d1 d2 (cre Ml) (cim Ml) f (oracle f)) ->
  funs FTruncated 0 Ml = truncated_svd oracle d1 d2 n -> 1 <= d1 ->
  svd_interface_flip (flipR ph lt) funs MTruncated Ml flip ub = Ok (U, S, V) ->
  let k := n_kept d1 d2 n in
  let mn := Nat.min d1 d2 in
  let So := snd (fst (oracle (full_flag d1 d2 n))) in
  let p := Nat.min k mn in
  let Er := fun i j => (cre Ml i j - cprod_re p (cre U) (cim U) (cre V) (cim V) (sre S) i j)%R in
  let Ei := fun i j => (cim Ml i j - cprod_im p (cre U) (cim U) (cre V) (cim V) (sre S) i j)%R in
  S = firstn k So /\ length S = p /\
  herm_cols d1 (Nat.min k d1) (cre U) (cim U) /\ herm_rows (Nat.min k d2) d2 (cre V) (cim V) /\
  cfrob2 d1 d2 Er Ei = rsum (mn - p) (fun t => ((sre So (p + t)%nat)^2)%R) /\
  (forall Br Bi, crank_le d1 d2 k Br Bi ->
     (cfrob2 d1 d2 Er Ei <= cfrob2 d1 d2 (fun i j => (cre Ml i j - Br i j)%R) (fun i j => (cim Ml i j - Bi i j)%R))%R).
Proof. exact complex_interface_truncated_e2e_gen. Qed.
Print Assumptions C05_complex_interface_truncated_e2e_gen.

(* ROUND 8.  The ROLES inside svd_flip (which factor decides, the argmax axis and the way the winners are picked, which factor is multiplied by
   conj(signs) and which by the padded signs, the orientation of the two products) as a decision function re-derived from the Python ast on
   every run (harness tie svd_flip_roles): the conjugate-aware model is flip_by_roles at dec_flip_roles, for every scalar type (FULL). *)
Theorem C05_flip_roles_factored : forall (K : Type) (k0 k1 : K) (kmul : K -> K -> K) (cj phase : K -> K) (absltb : K -> K -> bool)
    (U V : list (list K)) (ub : bool),
  svd_flip_conj k0 k1 kmul cj phase absltb U V ub = flip_by_roles k0 k1 kmul cj phase absltb (dec_flip_roles ub) U V.
Proof. exact @svd_flip_conj_roles. Qed.
Print Assumptions C05_flip_roles_factored.

(* non-vacuity of the tie: another role assignment (the conjugate on the other factor) is a different function *)
Example C05_flip_roles_matter :
  let kmul := fun a b : Z * Z => ((fst a * fst b - snd a * snd b)%Z, (fst a * snd b + snd a * fst b)%Z) in
  let cj := fun a : Z * Z => (fst a, (- snd a)%Z) in
  let U := [[(0, 1)%Z]] in let V := [[(1, 0)%Z]] in
  flip_by_roles (0, 0)%Z (1, 0)%Z kmul cj (fun z => z) (fun _ _ => false) (FacU, 0, FacU, FacV, ByCols, ByRows) U V
  <> flip_by_roles (0, 0)%Z (1, 0)%Z kmul cj (fun z => z) (fun _ _ => false) (FacU, 0, FacV, FacU, ByCols, ByRows) U V.
Proof. exact roles_matter. Qed.

(* The mask-imputation loop over ANY scalar structure (FULL): the invariant of Model/Svd.v mask_loop needs a single algebraic fact,
   x * 1 + r * (1 - 1) = x - every imputed matrix is d1 x d2 and keeps the entries where the mask is 1, and after >= 1 passes the returned
   triple is the back end's answer on the LAST imputed matrix (the real-number C05 mask theorems are the instance Rops). *)
Theorem C05_mask_loop_generic : forall (F : Type) (Op : fops F),
  (forall x r, fadd Op (fmul Op x (f1 Op)) (fmul Op r (fsub Op (f1 Op) (f1 Op))) = x) ->
  forall d1 d2 (svd_fun : nat -> list (list F) -> triple F) mask,
  rect d1 d2 mask ->
  (forall c X, rect d1 d2 X -> length (fst (fst (svd_fun c X))) = d1) ->
  forall iters call M t, rect d1 d2 M -> length (fst (fst t)) = d1 ->
  let '(M', t') := mask_loop Op svd_fun d2 mask iters call M t in
  rect d1 d2 M' /\
  (forall i j, i < d1 -> j < d2 -> mget Op mask i j = f1 Op -> mget Op M' i j = mget Op M i j) /\
  (0 < iters -> t' = svd_fun (call + iters - 1) M').
Proof. exact @mask_loop_spec_g. Qed.
Print Assumptions C05_mask_loop_generic.

(* svd_interface WITH A MASK on a COMPLEX matrix, end to end (FULL; method truncated_svd, 1 <= n_eigenvecs <= min(shape), >= 1 imputation pass, any
   flip setting, ph = np.sign, lt = magnitude comparison, LAPACK's answer meeting the complex SVD contract on every matrix it is handed): the
   model's svd_interface_cmask at the complex scalars C = R x R (CopsR) with the conjugate-aware flip returns the sign-resolved truncated SVD of
   the LAST imputed matrix Mlast - S = leading singular values of LAPACK's answer on Mlast, real, non-negative, non-increasing; Hermitian-
   orthonormal U columns / V rows; error = discarded squared singular values; best approximation of rank <= r - and Mlast agrees with the
   input on every observed entry (mask = 1 + 0i). *)
Theorem C05_complex_interface_masked_e2e : forall (ph : CR -> CR) (lt : CR -> CR -> bool) (orc : nat -> list (list CR) -> bool -> triple CR)
    (funs : fname -> nat -> list (list CR) -> triple CR) d1 d2 (Ml mask : list (list CR)) r (flip ub : bool) iters U S V,
  sign_like ph -> abs_lt lt ->
  rect d1 d2 Ml -> rect d1 d2 mask ->
  (forall c X, rect d1 d2 X -> forall f, csvd_contract d1 d2 (cre X) (cim X) f (orc c X f)) ->
  (forall c X, funs FTruncated c X = truncated_svd (orc c X) d1 d2 (Some r)) ->
  1 <= r <= Nat.min d1 d2 -> 1 <= iters ->
  svd_interface_cmask CopsR (flipR ph lt) funs MTruncated d2 Ml (Some r) flip ub (Some mask) iters = Ok (U, S, V) ->
  exists Mlast c,
    rect d1 d2 Mlast /\
    (forall i j, i < d1 -> j < d2 -> cre mask i j = 1%R -> cim mask i j = 0%R ->
       cre Mlast i j = cre Ml i j /\ cim Mlast i j = cim Ml i j) /\
    let So := snd (fst (orc c Mlast false)) in
    let Er := fun i j => (cre Mlast i j - cprod_re r (cre U) (cim U) (cre V) (cim V) (sre S) i j)%R in
    let Ei := fun i j => (cim Mlast i j - cprod_im r (cre U) (cim U) (cre V) (cim V) (sre S) i j)%R in
    S = firstn r So /\
    (forall t, t < r -> snd (nth t S (0%R, 0%R)) = 0%R /\ (0 <= sre S t)%R) /\
    (forall i j, i <= j -> j < r -> (sre S j <= sre S i)%R) /\
    herm_cols d1 r (cre U) (cim U) /\ herm_rows r d2 (cre V) (cim V) /\
    cfrob2 d1 d2 Er Ei = rsum (Nat.min d1 d2 - r) (fun t => ((sre So (r + t)%nat)^2)%R) /\
    (forall Br Bi, crank_le d1 d2 r Br Bi ->
       (cfrob2 d1 d2 Er Ei <= cfrob2 d1 d2 (fun i j => (cre Mlast i j - Br i j)%R) (fun i j => (cim Mlast i j - Bi i j)%R))%R).
Proof. exact complex_interface_masked_e2e. Qed.
Print Assumptions C05_complex_interface_masked_e2e.

(* non-vacuity: a 1 x 1 request [[2i]], fully observed, two imputation passes, with the exact SVD [[z]] = [[z / |z|]] diag(|z|) [[1]] as LAPACK's answer
   on EVERY 1 x 1 matrix (orc11), np.sign and the magnitude comparison: every hypothesis of C05_complex_interface_masked_e2e holds *)
Example C05_complex_masked_hyps_satisfiable :
  let ph := fun z : CR => ((fst z / sqrt (norm2 z))%R, (snd z / sqrt (norm2 z))%R) in
  let lt := fun a b : CR => if Rlt_dec (norm2 a) (norm2 b) then true else false in
  let funs := fun (_ : fname) (_ : nat) X => truncated_svd (orc11 X) 1 1 (Some 1) in
  let Ml := [[(0%R, 2%R)]] in let mask := [[c1R]] in
  sign_like ph /\ abs_lt lt /\ rect 1 1 Ml /\ rect 1 1 mask /\
  (forall (c : nat) X, rect 1 1 X -> forall f, csvd_contract 1 1 (cre X) (cim X) f (orc11 X f)) /\
  (forall c X, funs FTruncated c X = truncated_svd (orc11 X) 1 1 (Some 1)) /\ 1 <= 1 <= Nat.min 1 1 /\ 1 <= 2 /\
  exists U S V, svd_interface_cmask CopsR (flipR ph lt) funs MTruncated 1 Ml (Some 1) true true (Some mask) 2 = Ok (U, S, V).
Proof. exact complex_masked_hyps_satisfiable. Qed.

(* Output shapes of the conjugate-aware symeig_svd (Model/SvdConj.v symeig_svd_conj, the code as of d995974) for EVERY scalar type, conjugation,
   square-root function, eps and eigh answer of the right shape - in particular complex input (FULL): U : d1 x min(d1, k), S : min(d1, d2, k),
   V : min(d2, k) x d2 for every shape and every n_eigenvecs incl. None, 0 and > max(shape) (k = the clamped request) *)
Theorem C05_symeig_conj_shapes : forall (F : Type) (Op : fops F) (cj : F -> F) (eigh : list (list F) -> list F * list (list F)) (sq : F -> F) eps
    (M : list (list F)) d1 d2 n,
  rect d1 d2 M ->
  (forall G, let d := if d2 <? d1 then d1 else d2 in length (fst (eigh G)) = d /\ rect d d (snd (eigh G))) ->
  let k := n_kept d1 d2 n in
  shape3 (symeig_svd_conj Op cj eigh sq eps M d1 d2 n) d1 (Nat.min d1 k) (Nat.min (Nat.min d1 d2) k) (Nat.min d2 k) d2.
Proof. exact @symeig_conj_shapes. Qed.
Print Assumptions C05_symeig_conj_shapes.

Example C05_symeig_conj_shapes_hyps_satisfiable :
  let eigh := fun _ : list (list (nat * nat)) => ([(0, 0); (0, 0)], [[(1, 0); (0, 0)]; [(0, 0); (1, 0)]]) in
  rect 2 1 [[(1, 0)]; [(0, 1)]] /\
  (forall G, let d := if 1 <? 2 then 2 else 1 in length (fst (eigh G)) = d /\ rect d d (snd (eigh G))).
Proof. exact symeig_conj_shapes_witness. Qed.

(* The model's LIST-BASED matrix product at the complex scalars (mmul CopsR) computes the complex sums (FULL): real and imaginary part of
   every entry of X @ Y are sum_t (Xr Yr - Xi Yi) and sum_t (Xr Yi + Xi Yr) *)
Theorem C05_complex_mmul_entries : forall n (X Y : list (list CR)) i j m, i < length X -> j < n ->
  length (nth i X []) = m -> length Y = m ->
  cre (mmul CopsR n X Y) i j = cprod_re m (cre X) (cim X) (cre Y) (cim Y) (fun _ => 1%R) i j /\
  cim (mmul CopsR n X Y) i j = cprod_im m (cre X) (cim X) (cre Y) (cim Y) (fun _ => 1%R) i j.
Proof. exact cmg_mmul. Qed.
Print Assumptions C05_complex_mmul_entries.

Example C05_complex_mmul_example :
  cre (mmul CopsR 1 [[(0%R, 1%R)]] [[(0%R, 1%R)]]) 0 0 = (-1)%R /\ cim (mmul CopsR 1 [[(0%R, 1%R)]] [[(0%R, 1%R)]]) 0 0 = 0%R.
Proof. exact cmg_mmul_example. Qed.

(* randomized_svd over C, the lifting step U' = Q @ U AS COMPUTED BY THE MODEL (mmul CopsR on lists) - PARTIAL exactly as C05_randomized_lift_partial
   over R: `M = Q B` (the range finder's Q covers the range of M, B = Q^H M) is the named hypothesis: (Q @ U, S, V) has Hermitian-orthonormal
   columns, reproduces M, every truncation to k <= p terms has error = the discarded squared singular values and no matrix of rank <= k is closer *)
Theorem C05_complex_randomized_lift_model_partial : forall d1 d2 c p k (Qm U V : list (list CR)) (Sg : list CR) (Mr Mi Br Bi : nat -> nat -> R),
  length Qm = d1 -> (forall i, i < d1 -> length (nth i Qm []) = c) -> length U = c ->
  herm_cols d1 c (cre Qm) (cim Qm) ->
  (forall i j, i < d1 -> j < d2 -> Mr i j = cprod_re c (cre Qm) (cim Qm) Br Bi (fun _ => 1%R) i j) ->
  (forall i j, i < d1 -> j < d2 -> Mi i j = cprod_im c (cre Qm) (cim Qm) Br Bi (fun _ => 1%R) i j) ->
  herm_cols c p (cre U) (cim U) -> herm_rows p d2 (cre V) (cim V) ->
  (forall a j, a < c -> j < d2 -> Br a j = cprod_re p (cre U) (cim U) (cre V) (cim V) (sre Sg) a j) ->
  (forall a j, a < c -> j < d2 -> Bi a j = cprod_im p (cre U) (cim U) (cre V) (cim V) (sre Sg) a j) ->
  (forall t, t < p -> (0 <= sre Sg t)%R) -> (forall i j, i <= j -> j < p -> (sre Sg j <= sre Sg i)%R) ->
  k <= p ->
  let U' := mmul CopsR p Qm U in
  herm_cols d1 p (cre U') (cim U') /\
  (forall i j, i < d1 -> j < d2 ->
     Mr i j = cprod_re p (cre U') (cim U') (cre V) (cim V) (sre Sg) i j /\ Mi i j = cprod_im p (cre U') (cim U') (cre V) (cim V) (sre Sg) i j) /\
  cfrob2 d1 d2 (fun i j => (Mr i j - cprod_re k (cre U') (cim U') (cre V) (cim V) (sre Sg) i j)%R)
               (fun i j => (Mi i j - cprod_im k (cre U') (cim U') (cre V) (cim V) (sre Sg) i j)%R)
  = rsum (p - k) (fun t => ((sre Sg (k + t)%nat)^2)%R) /\
  (forall Xr Xi Yr Yi Cr Ci : nat -> nat -> R,
     (forall i j, i < d1 -> j < d2 -> Cr i j = cprod_re k Xr Xi Yr Yi (fun _ => 1%R) i j) ->
     (forall i j, i < d1 -> j < d2 -> Ci i j = cprod_im k Xr Xi Yr Yi (fun _ => 1%R) i j) ->
     (rsum (p - k) (fun t => ((sre Sg (k + t)%nat)^2)%R) <= cfrob2 d1 d2 (fun i j => (Mr i j - Cr i j)%R) (fun i j => (Mi i j - Ci i j)%R))%R).
Proof. exact complex_randomized_lift_model_partial. Qed.
Print Assumptions C05_complex_randomized_lift_model_partial.

Example C05_complex_lift_model_hyps_satisfiable :
  let Qm := [[(0%R, 1%R)]] in let U := [[(1%R, 0%R)]] in let V := [[(1%R, 0%R)]] in let Sg := [(2%R, 0%R)] in
  let Mr := fun _ _ : nat => 0%R in let Mi := fun _ _ : nat => 2%R in let Br := fun _ _ : nat => 2%R in let Bi := fun _ _ : nat => 0%R in
  length Qm = 1 /\ (forall i, i < 1 -> length (nth i Qm []) = 1) /\ length U = 1 /\
  herm_cols 1 1 (cre Qm) (cim Qm) /\
  (forall i j, i < 1 -> j < 1 -> Mr i j = cprod_re 1 (cre Qm) (cim Qm) Br Bi (fun _ => 1%R) i j) /\
  (forall i j, i < 1 -> j < 1 -> Mi i j = cprod_im 1 (cre Qm) (cim Qm) Br Bi (fun _ => 1%R) i j) /\
  herm_cols 1 1 (cre U) (cim U) /\ herm_rows 1 1 (cre V) (cim V) /\
  (forall a j, a < 1 -> j < 1 -> Br a j = cprod_re 1 (cre U) (cim U) (cre V) (cim V) (sre Sg) a j) /\
  (forall a j, a < 1 -> j < 1 -> Bi a j = cprod_im 1 (cre U) (cim U) (cre V) (cim V) (sre Sg) a j) /\
  (forall t, t < 1 -> (0 <= sre Sg t)%R) /\ (forall i j, i <= j -> j < 1 -> (sre Sg j <= sre Sg i)%R) /\ 1 <= 1.
Proof. exact complex_lift_model_hyps_witness. Qed.
