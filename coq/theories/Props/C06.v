(* C06 -- property theorems only.  Ring regime: every statement holds over EVERY commutative ring
   (carrier F with the operations of an `fops` record satisfying ring_theory; instances: Z, R),
   for every order / shape / rank / weights / factors, with no size bound.
   Layout: (1) identities (shortcut = residual from scratch: CP, HOOI, PARAFAC2, tensor ring, masks); (2) loop skeletons (which iterate a
   value belongs to: CP state machine, PARAFAC2 with line search, one-value-per-iteration loops) with refutations of the orderings used
   before the repairs; (3) values over the reals (sqrt / abs / division) and the normalisations (cp_normalize, tucker_normalize: transcribed,
   and as executed models with a validated tape of column norms); (4) round 5: error_calc on data with its own branch selection, EVERY
   entry of the returned lists, loop x algebra for HOOI / tensor ring / PARAFAC2 / non-negative Tucker; (5) non-vacuity Examples;
   (6) round 7: the parafac loop ON DATA with weights, normalisation and line search; constrained_parafac and HALS iterations on data;
   the semantic checker of tensor_ring_als's axis bookkeeping; (7) round 8: the sub-chain tensor of tensor_ring_als built ON DATA by successive
   tensordot calls is the index-level chain product (first universal step of "data-level pipeline = index-level residual"). *)
From Coq Require Import List Arith ZArith Reals Bool Ring Lia Lra.
From TLV Require Import Base.Shape Base.PyList Base.Tensor Base.BigSum Base.Ops Model.Errors Model.ErrorsR
     Proofs.ErrorsProofs Proofs.ErrorsSkeleton Proofs.ErrorsSkeletonCP Proofs.ErrorsP2 Proofs.ErrorsTR Proofs.ErrorsReal Proofs.ErrorsLoops Proofs.ErrorsNormalizeR
     Proofs.ErrorsDataLoop Proofs.ErrorsDataLoopR Proofs.ErrorsTRData.
Import ListNotations.

(* squared-error expansion over an arbitrary index space:  sum (X - Y)^2 = sum X^2 + sum Y^2 - 2 sum X Y *)
Theorem C06_sq_expansion : forall (F : Type) (Op : fops F),
  ring_theory (f0 Op) (f1 Op) (fadd Op) (fmul Op) (fsub Op) (fopp Op) (@eq F) ->
  forall (s : list nat) (X Y : list nat -> F),
  dist2 Op s X Y = fsub Op (fadd Op (normsq Op s X) (normsq Op s Y)) (fmul Op (two Op) (inner Op s X Y)).
Proof. exact @sq_expansion. Qed.
Print Assumptions C06_sq_expansion.

(* <X, [[w; A_0..A_{N-1}]]> = sum(sum(MTTKRP_n * A_n, axis=0) * v)  for every order, every mode n,
   the MTTKRP carrying weights u with u_r v_r = w_r (error_calc / HALS: u = w, v = 1; constrained CP: u = 1, v = w) *)
Theorem C06_inner_product_mttkrp : forall (F : Type) (Op : fops F),
  ring_theory (f0 Op) (f1 Op) (fadd Op) (fmul Op) (fsub Op) (fopp Op) (@eq F) ->
  forall (s : list nat) (X : list nat -> F) (R : nat) (w u v : nat -> F) (cols : nat -> list (nat -> F)) (n : nat),
  n < length s -> (forall r, r < R -> length (cols r) = length s) -> (forall r, r < R -> fmul Op (u r) (v r) = w r) ->
  inner Op s X (cp_entry Op R w cols) = iprod Op s R (mttkrp Op s X u cols n) v cols n.
Proof. exact @inner_mttkrp. Qed.
Print Assumptions C06_inner_product_mttkrp.

(* cp_norm^2 is the squared norm of the reconstruction *)
Theorem C06_cp_normsq : forall (F : Type) (Op : fops F),
  ring_theory (f0 Op) (f1 Op) (fadd Op) (fmul Op) (fsub Op) (fopp Op) (@eq F) ->
  forall (s : list nat) (R : nat) (w : nat -> F) (cols : nat -> list (nat -> F)),
  (forall r, r < R -> length (cols r) = length s) ->
  normsq Op s (cp_entry Op R w cols) = cp_normsq Op s R w cols.
Proof. exact @cp_normsq_correct. Qed.
Print Assumptions C06_cp_normsq.

(* the quantity under error_calc's sqrt(abs(.)) IS the squared residual recomputed from scratch *)
Theorem C06_error_calc_shortcut : forall (F : Type) (Op : fops F),
  ring_theory (f0 Op) (f1 Op) (fadd Op) (fmul Op) (fsub Op) (fopp Op) (@eq F) ->
  forall (s : list nat) (X : list nat -> F) (R : nat) (w u v : nat -> F) (cols : nat -> list (nat -> F)) (n : nat),
  n < length s -> (forall r, r < R -> length (cols r) = length s) -> (forall r, r < R -> fmul Op (u r) (v r) = w r) ->
  err2_fast Op s X R w u v cols n = err2_true Op s X R w cols.
Proof. exact @err2_fast_correct. Qed.
Print Assumptions C06_error_calc_shortcut.

(* the MTTKRP of mode n may be computed BEFORE factor n is overwritten: it does not read factor n *)
Theorem C06_mttkrp_ignores_own_mode : forall (F : Type) (Op : fops F)
  (s : list nat) (X : list nat -> F) (u : nat -> F) (cols cols' : nat -> list (nat -> F)) (n i r : nat),
  length (cols r) = length (cols' r) ->
  (forall k, k <> n -> nth k (cols r) (fun _ => f0 Op) = nth k (cols' r) (fun _ => f0 Op)) ->
  mttkrp Op s X u cols n i r = mttkrp Op s X u cols' n i r.
Proof. exact @mttkrp_ignores_own_mode. Qed.
Print Assumptions C06_mttkrp_ignores_own_mode.

(* HOOI: || X - G x_k U_k ||^2 = ||X||^2 - ||G||^2 for column-orthonormal factors and G = X x_k U_k^T, every order *)
Theorem C06_hooi_error_identity : forall (F : Type) (Op : fops F),
  ring_theory (f0 Op) (f1 Op) (fadd Op) (fmul Op) (fsub Op) (fopp Op) (@eq F) ->
  forall (s rs : list nat) (X G : list nat -> F) (us : list (nat -> nat -> F)),
  orthonormal Op s rs us -> (forall j, inb rs j -> G j = project Op s X us j) ->
  dist2 Op s X (tucker_entry Op rs G us) = hooi_err2 Op s rs X G.
Proof. exact @hooi_error_identity. Qed.
Print Assumptions C06_hooi_error_identity.

(* loop skeleton: for EVERY decision sequence (oracle) every reported / callback value is the error of the
   iterate it is emitted in, and the last reported value is the error of the returned iterate *)
Theorem C06_skeleton_reports_belong_to_their_state : forall (B E T : Type) (repr : blocks B -> T) (errT : T -> E)
  (fast : blocks B -> nat * blocks B -> nat -> E) (explicit : blocks B -> E) (Orc : oracle B) (C : config),
  (forall cur k snap, (forall j, j <> k -> snap j = cur j) -> fast cur (k, snap) k = errT (repr cur)) ->
  (forall st, explicit st = errT (repr st)) ->
  (forall st, repr (normalized Orc st) = repr st) ->
  well_formed C ->
  forall (n : nat) (init : blocks B),
  let l := run fast explicit Orc C n init in
  Forall (good_event B E T repr errT) (trace l) /\
  last_report_ok B E T repr errT l /\
  last (trace l) EBreak = EReturn (cur l).
Proof. exact @skeleton_sound. Qed.
Print Assumptions C06_skeleton_reports_belong_to_their_state.

(* the two historical orderings are NOT sound: the same skeleton with the report of line-search iterations
   switched off (the behaviour before fix 4551953), resp. with the normalisation moved in front of the error
   computation, reports a value that is not the error of the returned iterate *)
Theorem C06_skeleton_without_linesearch_report_refuted :
  exists (Orc : oracle nat) (C : config) (n : nat) (init : blocks nat),
    report_linesearch C = false /\
    ~ last_report_ok nat nat nat toy_repr (fun x => x) (run toy_fast toy_explicit Orc C n init).
Proof. exact skeleton_linesearch_refuted. Qed.
Print Assumptions C06_skeleton_without_linesearch_report_refuted.

Theorem C06_skeleton_normalize_before_error_refuted :
  exists (Orc : oracle nat) (C : config) (n : nat) (init : blocks nat),
    norm_before_error C = true /\
    ~ Forall (good_event nat nat nat toy_repr (fun x => x)) (trace (run toy_fast toy_explicit Orc C n init)).
Proof. exact skeleton_normalize_before_refuted. Qed.
Print Assumptions C06_skeleton_normalize_before_error_refuted.

(* cp_normalize, ring form: rescaling the columns of every factor and letting the weights absorb the scales does not
   change any entry of the represented tensor (every order, shape, rank) *)
Theorem C06_cp_rescaling_preserves_tensor : forall (F : Type) (Op : fops F),
  ring_theory (f0 Op) (f1 Op) (fadd Op) (fmul Op) (fsub Op) (fopp Op) (@eq F) ->
  forall (s : list nat) (R : nat) (w w' : nat -> F) (cols cols' : nat -> list (nat -> F)) (ds : nat -> list F),
  (forall r, r < R -> length (cols r) = length s) ->
  (forall r, r < R -> scaled Op s (cols r) (cols' r) (ds r)) ->
  (forall r, r < R -> w' r = fmul Op (w r) (prodF Op (ds r))) ->
  forall idx, inb s idx -> cp_entry Op R w' cols' idx = cp_entry Op R w cols idx.
Proof. exact @cp_entry_rescale. Qed.
Print Assumptions C06_cp_rescaling_preserves_tensor.

(* skeleton + algebra composed: over every commutative ring, for every order / shape / data tensor / rank, every update
   rule, line-search behaviour and stopping sequence (oracle), every normalisation that is a rescaling, and both ways of
   carrying the weights (in the MTTKRP: parafac, MU, HALS;  outside: constrained_parafac):  every value the MTTKRP shortcut
   (or the explicit residual of a line-search / callback step) reports along the loop IS the squared residual, recomputed
   from scratch, of the iterate it is reported with, and the last reported value is that of the returned iterate.
   Hypotheses on the configuration: the remembered MTTKRP is paired with the LAST UPDATED mode, which is a mode of the tensor. *)
Theorem C06_cp_loop_reports_true_errors : forall (F : Type) (Op : fops F),
  ring_theory (f0 Op) (f1 Op) (fadd Op) (fmul Op) (fsub Op) (fopp Op) (@eq F) ->
  forall (s : list nat) (X : list nat -> F) (R : nat) (weighted_mttkrp : bool) (Orc : oracle blk) (C : config),
  (forall st, rescaling Op s R st (normalized Orc st)) ->
  well_formed C -> last (modes C) 0 < length s ->
  forall (n : nat) (init : blocks blk),
  let l := run (cp_fast Op s X R weighted_mttkrp) (cp_err2 Op s X R) Orc C n init in
  Forall (good_event blk F F (cp_err2 Op s X R) (fun e => e)) (trace l) /\
  last_report_ok blk F F (cp_err2 Op s X R) (fun e => e) l /\
  last (trace l) EBreak = EReturn (cur l).
Proof. exact @cp_loop_reports_true_errors. Qed.
Print Assumptions C06_cp_loop_reports_true_errors.

(* PARAFAC2: the slice-wise expansion of _parafac2_reconstruction_error (norm_X^2 - 2 sum_i tr(B_i^T X_i C) + sum_i
   sum((B_i^T B_i) * C^T C)) is the squared residual sum_i || X_i - B_i C^T ||^2 from scratch, B_i = (P_i B) * A[i];
   any number of slices of any heights, any rank, projections NOT assumed orthonormal; both ways of forming B_i^T X_i *)
Theorem C06_parafac2_error_identity : forall (F : Type) (Op : fops F),
  ring_theory (f0 Op) (f1 Op) (fadd Op) (fmul Op) (fsub Op) (fopp Op) (@eq F) ->
  forall (I K Rk : nat) (J : nat -> nat) (X P : nat -> nat -> nat -> F) (A Bm C : nat -> nat -> F),
  p2_err2_fast Op I K Rk J X P A Bm C (p2_tmp Op Rk J X P A Bm) = p2_err2_true Op I K Rk J X P A Bm C /\
  p2_err2_fast Op I K Rk J X P A Bm C (p2_tmp_proj Op Rk J X P A Bm) = p2_err2_true Op I K Rk J X P A Bm C.
Proof. intros F Op Rth I K Rk J X P A Bm C. split; [apply p2_err2_fast_correct | apply p2_err2_fast_proj_correct]; exact Rth. Qed.
Print Assumptions C06_parafac2_error_identity.

(* PARAFAC2 loop with Bro's line search (the code since fix 0080ddd): for EVERY oracle (updates, jumps, accept / reject
   decisions, stops, any normalisation that keeps the error), with or without line search / normalisation and for every number
   of iterations >= 1, the last reported value is the error of the returned iterate *)
Theorem C06_parafac2_skeleton_last_report : forall (St E : Type) (err : St -> E) (Or : p2oracle St) (ls normalize : bool),
  (forall st, err (p2_norm Or st) = err st) ->
  forall (n : nat) (init : St), 0 < n ->
  p2_last_ok err (p2_loop err Or ls normalize false n 0 init []).
Proof. exact @p2_skeleton_sound. Qed.
Print Assumptions C06_parafac2_skeleton_last_report.
(* ... and one value per executed iteration is recorded, line-search iterations included *)
Theorem C06_parafac2_skeleton_one_value_per_iteration : forall (St E : Type) (err : St -> E) (Or : p2oracle St) (ls normalize : bool),
  (forall it, p2_stop Or it = false) -> forall (n it : nat) (cur : St) (errs : list E),
  length (snd (p2_loop err Or ls normalize false n it cur errs)) = length errs + n.
Proof. exact @p2_loop_length. Qed.
Print Assumptions C06_parafac2_skeleton_one_value_per_iteration.
(* the behaviour before the fix (legacy = true) is NOT sound: a rejected jump leaves the previous iterate's error *)
Theorem C06_parafac2_skeleton_legacy_refuted :
  exists (Or : p2oracle nat) (n : nat) (init : nat),
    (forall st, p2_norm Or st = st) /\ (0 < n) /\
    ~ p2_last_ok (fun st : nat => st) (p2_loop (fun st => st) Or true false true n 0 init []).
Proof. exact p2_skeleton_legacy_refuted. Qed.
Print Assumptions C06_parafac2_skeleton_legacy_refuted.

(* the explicit residual under a 0/1 mask (error_calc; tucker / partial_tucker since fix 587bdbd): || X' - L ||^2 with
   X' = X*m + L*(1-m) is the squared residual on the observed entries; every order / shape, every 0/1-valued mask *)
Theorem C06_masked_residual_is_observed_residual : forall (F : Type) (Op : fops F),
  ring_theory (f0 Op) (f1 Op) (fadd Op) (fmul Op) (fsub Op) (fopp Op) (@eq F) ->
  forall (X m : tensor F) (L : list nat -> F),
  (forall idx, inb (shape X) idx -> fmul Op (tfun Op m idx) (tfun Op m idx) = tfun Op m idx) ->
  fst (err_explicit Op X L None (Some m)) =
  Fsum_idx Op (shape X) (fun idx => fmul Op (tfun Op m idx) (sq Op (fsub Op (tfun Op X idx) (L idx)))).
Proof. exact @masked_residual_is_observed_residual. Qed.
Print Assumptions C06_masked_residual_is_observed_residual.
(* the formula masked HOOI used BEFORE fix 587bdbd (norm of the original tensor against the core of the re-imputed one) is
   neither the residual w.r.t. the imputed tensor the core was computed from nor the residual w.r.t. the original tensor *)
Theorem C06_hooi_masked_legacy_formula_refuted :
  exists (s rs : list nat) (X X' G : list nat -> Z) (us : list (nat -> nat -> Z)),
    orthonormal Zops s rs us /\ (forall j, inb rs j -> G j = project Zops s X' us j) /\
    hooi_err2 Zops s rs X G <> dist2 Zops s X' (tucker_entry Zops rs G us) /\
    hooi_err2 Zops s rs X G <> dist2 Zops s X (tucker_entry Zops rs G us).
Proof. exact hooi_masked_legacy_formula_refuted. Qed.
Print Assumptions C06_hooi_masked_legacy_formula_refuted.

(* tensor-ring ALS: the quantity tensor_ring_als reports, the residual || design_mat . sol - X_(d)^T || of the LAST least-squares
   sub-problem of the sweep, is the residual of the tensor ring whose core d was rebuilt from sol (cyclicity of the trace):
   entry-wise and summed; every order, every mode d, all bond dimensions (ring closure r_N = r_0) *)
Theorem C06_tr_als_prediction_is_ring_entry : forall (F : Type) (Op : fops F),
  ring_theory (f0 Op) (f1 Op) (fadd Op) (fmul Op) (fsub Op) (fopp Op) (@eq F) ->
  forall (r0 : nat) (cores : list (@core F)) (d : nat) (idx' : list nat) (i : nat),
  d < length cores -> length idx' = length cores - 1 ->
  endbond r0 (map (fun c => (fst c, fun a b => snd c a 0 b)) cores) = r0 ->
  ls_prediction Op r0 cores d idx' i = tr_entry Op r0 cores (insert_at d i idx').
Proof. exact @ls_prediction_is_tr_entry. Qed.
Print Assumptions C06_tr_als_prediction_is_ring_entry.
Theorem C06_tr_als_residual_is_ring_error : forall (F : Type) (Op : fops F),
  ring_theory (f0 Op) (f1 Op) (fadd Op) (fmul Op) (fsub Op) (fopp Op) (@eq F) ->
  forall (s : list nat) (X : list nat -> F) (r0 : nat) (cores : list (@core F)) (d : nat),
  length cores = length s -> d < length s ->
  endbond r0 (map (fun c => (fst c, fun a b => snd c a 0 b)) cores) = r0 ->
  ls_residual2 Op s X r0 cores d = dist2 Op s (tr_entry Op r0 cores) X.
Proof. exact @ls_residual_is_tr_error. Qed.
Print Assumptions C06_tr_als_residual_is_ring_error.

(* parafac's callback BEFORE the loop under mask + sparsity: since fix 835cf01 the pair handed over is the one the error was
   computed for (true by definition of the model: an Example); with the sparse component of the UN-imputed tensor (the behaviour before the fix) the two differ *)
Example C06_callback0_consistent_by_definition : forall (F : Type) (Op : fops F) (X L m : tensor F) (card : nat),
  cb0_reported Op X L m card = cb0_error_of_handed Op false X L m card.
Proof. exact @cb0_consistent. Qed.
Theorem C06_callback0_legacy_refuted :
  exists (X L m : tensor Z) (card : nat),
    fst (cb0_reported Zops X L m card) <> fst (cb0_error_of_handed Zops true X L m card).
Proof. exact cb0_mask_sparse_legacy_refuted. Qed.
Print Assumptions C06_callback0_legacy_refuted.

(* pairing the remembered MTTKRP with a factor other than the one of the last updated mode (the HALS defect repaired by b2515f1)
   is not sound: the hypothesis pair_with = last updated mode of C06_skeleton_reports_belong_to_their_state is needed *)
Theorem C06_skeleton_wrong_pairing_refuted :
  exists (Orc : oracle nat) (C : config) (n : nat) (init : blocks nat),
    pair_with C <> last (modes C) 0 /\ norm_before_error C = false /\ report_linesearch C = true /\
    ~ last_report_ok nat nat nat toy_repr (fun x => x) (run toy_fast toy_explicit Orc C n init).
Proof. exact skeleton_wrong_pairing_refuted. Qed.
Print Assumptions C06_skeleton_wrong_pairing_refuted.

(* ---- the reported VALUES over the reals: sqrt, abs and the division by the norm inside the model.  reported q nx = sqrt(|q|)/sqrt(nx)
   is what the shortcuts return (q = quantity under the sqrt, nx = ||X||^2); rel_error d2 nx = sqrt(d2)/sqrt(nx).
   The values are meaningful for ||X|| > 0 only: for the zero tensor Coq's total division gives 0 on both sides, the code NaN. *)
Theorem C06_error_calc_reported_value : forall (s : list nat) (X : list nat -> R) (Rk : nat) (w u v : nat -> R) (cols : nat -> list (nat -> R)) (n : nat),
  n < length s -> (forall r, r < Rk -> length (cols r) = length s) -> (forall r, r < Rk -> (u r * v r)%R = w r) ->
  reported (err2_fast Rops s X Rk w u v cols n) (normsq Rops s X)
  = rel_error (dist2 Rops s X (cp_entry Rops Rk w cols)) (normsq Rops s X).
Proof. exact error_calc_reported_value. Qed.
Print Assumptions C06_error_calc_reported_value.
Theorem C06_hooi_reported_value : forall (s rs : list nat) (X G : list nat -> R) (us : list (nat -> nat -> R)),
  orthonormal Rops s rs us -> (forall j, inb rs j -> G j = project Rops s X us j) ->
  reported (hooi_err2 Rops s rs X G) (normsq Rops s X) = rel_error (dist2 Rops s X (tucker_entry Rops rs G us)) (normsq Rops s X).
Proof. exact hooi_reported_value. Qed.
Print Assumptions C06_hooi_reported_value.
Theorem C06_parafac2_reported_value : forall (I K Rk : nat) (J : nat -> nat) (X P : nat -> nat -> nat -> R) (A Bm C : nat -> nat -> R),
  reported (p2_err2_fast Rops I K Rk J X P A Bm C (p2_tmp_proj Rops Rk J X P A Bm)) (p2_normX Rops I K J X)
  = rel_error (p2_err2_true Rops I K Rk J X P A Bm C) (p2_normX Rops I K J X).
Proof. exact parafac2_reported_value. Qed.
Print Assumptions C06_parafac2_reported_value.
(* immediate remark (Example): CMTF, documented squared form: norm(X - cp)**2 + norm(Y - cp_Y)**2 is the sum of the two squared residuals *)
Example C06_cmtf_squared_form_remark : forall (sX sY : list nat) (X LX Y LY : list nat -> R),
  cmtf_reported sX sY X LX Y LY = (dist2 Rops sX X LX + dist2 Rops sY Y LY)%R.
Proof. exact cmtf_reported_value. Qed.
(* the square of the relative error is the ratio the correspondence compares, and the value is never negative *)
Theorem C06_rel_error_square : forall d2 nx : R, (0 <= d2)%R -> (0 < nx)%R -> (rel_error d2 nx * rel_error d2 nx)%R = (d2 / nx)%R.
Proof. exact rel_error_sq. Qed.
Print Assumptions C06_rel_error_square.
(* immediate remarks (Examples, not counted as property theorems): the abs under the square root keeps its argument non-negative whatever the rounding perturbation; without it (PARAFAC2
   before b590c64) an exact fit and a negative perturbation leave a negative argument (NaN in floating point) *)
Example C06_abs_guard_remark : forall q delta : R, sqrt_arg_ok (Rabs (q + delta)).
Proof. exact abs_guard_total. Qed.
Example C06_unguarded_sqrt_remark : exists q delta : R, (0 <= q)%R /\ (Rabs delta <= 1 / 1000000)%R /\ ~ sqrt_arg_ok (q + delta).
Proof. exact unguarded_sqrt_refuted. Qed.

(* cp_normalize transcribed step by step over the reals (tensorly/cp_tensor.py: factor 0 absorbs the incoming weights and the weights
   restart from ones; then every factor is divided by its column norms, zero norms replaced by 1, and the weights are multiplied by
   the norms) keeps the squared residual of the represented CP tensor, for EVERY state: zero columns, zero and negative incoming
   weights included (where the absorption step is not a rescaling); hence the composed loop theorem holds with the REAL
   normalisation and no hypothesis about it *)
Theorem C06_cp_normalize_preserves_error : forall (s : list nat) (X : list nat -> R) (Rk : nat) (st : blocks (@blk R)),
  0 < length s -> cp_err2 Rops s X Rk (cp_normalize_R s st) = cp_err2 Rops s X Rk st.
Proof. exact cp_normalize_preserves_error. Qed.
Print Assumptions C06_cp_normalize_preserves_error.
Theorem C06_cp_loop_reports_true_errors_with_cp_normalize : forall (s : list nat) (X : list nat -> R) (Rk : nat) (weighted_mttkrp : bool)
  (Orc : oracle (@blk R)) (C : config),
  (forall st, normalized Orc st = cp_normalize_R s st) ->
  well_formed C -> last (modes C) 0 < length s ->
  forall (n : nat) (init : blocks blk),
  let l := run (cp_fast Rops s X Rk weighted_mttkrp) (cp_err2 Rops s X Rk) Orc C n init in
  Forall (good_event blk R R (cp_err2 Rops s X Rk) (fun e => e)) (trace l) /\
  last_report_ok blk R R (cp_err2 Rops s X Rk) (fun e => e) l /\
  last (trace l) EBreak = EReturn (cur l).
Proof. exact cp_loop_reports_true_errors_R. Qed.
Print Assumptions C06_cp_loop_reports_true_errors_with_cp_normalize.

(* ---- loops that record one error value per iteration and normalise the iterate afterwards, also on the exits (CMTF since d036ea5, the
   non-negative Tucker variants, HOOI with its shortcut value, randomised
   CP since 28121fa): for every oracle (updates, convergence stops, callback stops) the last recorded value is the error of the returned iterate,
   provided the value is recorded before the callback may stop the run OR the callback never stops it *)
Theorem C06_explicit_loop_last_report : forall (St E : Type) (err : St -> E) (Or : soracle St) (record_before_callback normalize : bool),
  (forall st, err (s_norm Or st) = err st) ->
  record_before_callback = true \/ (forall it, s_cb_stop Or it = false) ->
  forall (n : nat) (init : St), 0 < n -> s_last_ok St E err (s_loop err Or record_before_callback normalize n 0 init []).
Proof. exact s_loop_sound. Qed.
Print Assumptions C06_explicit_loop_last_report.
(* recording AFTER the callback (randomised_parafac before fix 28121fa) is not sound: a callback stop leaves the previous iterate's error *)
Theorem C06_randomised_callback_stop_legacy_refuted :
  exists (Or : soracle nat) (n : nat) (init : nat), 0 < n /\ ~ s_last_ok nat nat (fun st => st) (s_loop (fun st : nat => st) Or false true n 0 init []).
Proof. exact s_loop_callback_stop_refuted. Qed.
Print Assumptions C06_randomised_callback_stop_legacy_refuted.

(* ---- round 5 ---- *)
(* the EXECUTED model of cp_normalize (Model/Errors.v:cp_normalize_F, the column norms handed in as an answer tape, run against the code by
   Corr/C06.v:KNormalize which validates the tape by squaring) coincides with the transcription over the reals for every tape of
   non-negative numbers whose squares are the column sums of squares, hence keeps the squared residual of the represented CP tensor:
   every order >= 1, shape, rank, state (zero columns, zero / negative incoming weights included) *)
Theorem C06_cp_normalize_model_is_transcription : forall (s : list nat) (st : blocks (@blk R)) (sc : nat -> nat -> R),
  (forall k r, k < length s -> (0 <= sc k r)%R /\ (sc k r * sc k r)%R = colsq Rops s (absorb_weights_F Rops s st) k r) ->
  forall k i r, cp_normalize_F Rops s sc st k i r = cp_normalize_R s st k i r.
Proof. exact cp_normalize_F_is_cp_normalize_R. Qed.
Print Assumptions C06_cp_normalize_model_is_transcription.
Theorem C06_cp_normalize_tape_preserves_error : forall (s : list nat) (X : list nat -> R) (Rk : nat) (st : blocks (@blk R)) (sc : nat -> nat -> R),
  0 < length s ->
  (forall k r, k < length s -> (0 <= sc k r)%R /\ (sc k r * sc k r)%R = colsq Rops s (absorb_weights_F Rops s st) k r) ->
  cp_err2 Rops s X Rk (cp_normalize_F Rops s sc st) = cp_err2 Rops s X Rk st.
Proof. exact cp_normalize_tape_preserves_error. Qed.
Print Assumptions C06_cp_normalize_tape_preserves_error.
(* non-vacuity: for every state the real column norms are such a tape *)
Example C06_cp_normalize_tape_exists : forall (s : list nat) (st : blocks (@blk R)),
  forall k r, k < length s -> (0 <= colnorm s (absorb_weights s st) k r)%R /\
    (colnorm s (absorb_weights s st) k r * colnorm s (absorb_weights s st) k r)%R = colsq Rops s (absorb_weights_F Rops s st) k r.
Proof. exact colnorm_good_tape. Qed.

(* tucker_normalize, ring form (non-negative Tucker variants with normalize_factors=True normalise AFTER recording the error): rescaling
   the columns of every factor and letting the core absorb the scales changes no entry of the represented tensor, hence not the
   squared residual; every commutative ring, order, shape, multilinear rank *)
Theorem C06_tucker_rescaling_preserves_tensor : forall (F : Type) (Op : fops F),
  ring_theory (f0 Op) (f1 Op) (fadd Op) (fmul Op) (fsub Op) (fopp Op) (@eq F) ->
  forall (s rs : list nat) (G G' : list nat -> F) (us us' : list (nat -> nat -> F)) (ds : list (nat -> F)),
  tscaled Op s rs us us' ds -> (forall j, inb rs j -> G' j = fmul Op (G j) (proddl Op ds j)) ->
  forall idx, inb s idx -> tucker_entry Op rs G' us' idx = tucker_entry Op rs G us idx.
Proof. exact @tucker_entry_rescale. Qed.
Print Assumptions C06_tucker_rescaling_preserves_tensor.
(* ... and the EXECUTED model of tucker_normalize (tucker_normalize_core / tucker_normalize_factors with a validated tape of column norms,
   run against the code by Corr/C06.v:KTuckerNormalize) over the reals keeps the squared residual, zero columns included *)
Theorem C06_tucker_normalize_tape_preserves_error : forall (s rs : list nat) (X G : list nat -> R) (st : blocks (@blk R)) (sc : nat -> nat -> R),
  length rs = length s ->
  (forall k a, k < length s -> (0 <= sc k a)%R /\ (sc k a * sc k a)%R = colsq Rops s st k a) ->
  dist2 Rops s X (tucker_entry Rops rs (tucker_normalize_core Rops (length s) sc G) (tucker_us (length s) (tucker_normalize_factors Rops sc st)))
  = dist2 Rops s X (tucker_entry Rops rs G (tucker_us (length s) st)).
Proof. exact tucker_normalize_tape_preserves_error. Qed.
Print Assumptions C06_tucker_normalize_tape_preserves_error.
Example C06_tucker_normalize_tape_exists : forall (s : list nat) (st : blocks (@blk R)),
  forall k a, k < length s -> (0 <= colnorm s st k a)%R /\ (colnorm s st k a * colnorm s st k a)%R = colsq Rops s st k a.
Proof. exact colnorm_good_tucker_tape. Qed.
(* a sign flip of one factor column absorbed by the core is a Tucker rescaling over Z: 2x1 factor (1, 2) = (-1) * (-1, -2) *)
Example C06_tucker_rescaling_nonvacuous :
  let u : nat -> nat -> Z := fun i _ => match i with 0%nat => 1%Z | _ => 2%Z end in
  let u' : nat -> nat -> Z := fun i _ => match i with 0%nat => (-1)%Z | _ => (-2)%Z end in
  tscaled Zops [2] [1] [u] [u'] [fun _ => (-1)%Z] /\
  tucker_entry Zops [1] (fun _ => (-3)%Z) [u'] [1] = tucker_entry Zops [1] (fun _ => 3%Z) [u] [1].
Proof.
  cbv zeta. split; [|vm_compute; reflexivity]. cbn. split; [|exact I].
  intros i a Hi Ha. destruct i as [|[|i]]; [reflexivity | reflexivity | lia].
Qed.

(* error_calc on DATA with its own branch selection (Model/Errors.v:error_calc_model, run against the code by Corr/C06.v:KErrCalcFull): whichever
   branch it takes - mask given, no MTTKRP handed over, sparsity, or the MTTKRP shortcut - it returns the explicit squared residual (of the
   imputed tensor, minus the sparse component) and the squared norm it is relative to, as soon as the matrix handed over IS the MTTKRP of
   the last mode for the current weights / factors; every order >= 1, shape, rank *)
Theorem C06_error_calc_every_branch : forall (F : Type) (Op : fops F),
  ring_theory (f0 Op) (f1 Op) (fadd Op) (fmul Op) (fsub Op) (fopp Op) (@eq F) ->
  forall (X : tensor F) (R : nat) (w : option (list F)) (fs : list (tensor F)) (card : option nat) (mask M : option (tensor F)),
  0 < length (shape X) -> length fs = length (shape X) ->
  (forall Mt, M = Some Mt -> forall i r, i < nth (length (shape X) - 1) (shape X) 0 -> r < R ->
     get (f0 Op) Mt [i; r] = mttkrp Op (shape X) (tfun Op X) (wfun Op w) (colsT Op fs) (length (shape X) - 1) i r) ->
  error_calc_model Op X R w fs card mask M
  = err_explicit Op X (cp_tensor_entry Op R w fs) (sparse_of Op X (cp_tensor_entry Op R w fs) card mask) mask.
Proof. exact @error_calc_every_branch. Qed.
Print Assumptions C06_error_calc_every_branch.
(* the executed shortcut with the model's own MTTKRP equals the executed residual from scratch, for all data (what KCPfast re-checks per instance) *)
Theorem C06_shortcut_on_data : forall (F : Type) (Op : fops F),
  ring_theory (f0 Op) (f1 Op) (fadd Op) (fmul Op) (fsub Op) (fopp Op) (@eq F) ->
  forall (X : tensor F) (R : nat) (w : option (list F)) (fs : list (tensor F)) (n : nat),
  n < length (shape X) -> length fs = length (shape X) ->
  err_shortcut Op X R w fs n = err_cp_true Op X R w fs None None.
Proof. exact @err_shortcut_is_true. Qed.
Print Assumptions C06_shortcut_on_data.
(* non-vacuity: the 2x3x2 instance of C06_shortcut_nonvacuous with its true MTTKRP of the last mode handed over: shortcut branch, value 296;
   with a mask the explicit branch is taken *)
Example C06_error_calc_every_branch_nonvacuous :
  let X := mk [2;3;2] [1;2;3;4;5;6;7;8;9;10;11;12]%Z in
  let fs := [mk [2;2] [1;0;1;1]%Z; mk [3;2] [1;2;0;1;1;1]%Z; mk [2;2] [1;1;2;0]%Z] in
  let w := Some [2;3]%Z in
  let Mt := tabulate [2;2] (fun ir => mttkrp Zops [2;3;2] (tfun Zops X) (wfun Zops w) (colsT Zops fs) 2 (nth 0 ir 0) (nth 1 ir 0)) in
  fst (error_calc_model Zops X 2 w fs None None (Some Mt)) = 296%Z /\
  fst (error_calc_model Zops X 2 w fs None None None) = 296%Z /\
  fst (error_calc_model Zops X 2 w fs (Some 2) (Some (mk [2;3;2] [1;1;1;1;1;1;1;1;1;1;1;0]%Z)) (Some Mt)) = 60%Z.
Proof. vm_compute. repeat split. Qed.

(* EVERY entry of the returned list, not only the last: entry j of the list a run of n iterations returns is the error of the iterate
   RETURNED by the same run cut after j+1 iterations (same oracle, same start), i.e. of the iterate of its iteration.  For the loops
   with one recorded value per iteration (either record / callback ordering, every stop pattern, normalisation after recording) ... *)
Theorem C06_explicit_loop_every_entry : forall (St E : Type) (err : St -> E) (Or : soracle St) (record_before_callback normalize : bool),
  (forall st, err (s_norm Or st) = err st) ->
  forall (n : nat) (init : St) (j : nat), j < length (snd (s_loop err Or record_before_callback normalize n 0 init [])) ->
  nth_error (snd (s_loop err Or record_before_callback normalize n 0 init [])) j
  = Some (err (fst (s_loop err Or record_before_callback normalize (S j) 0 init []))).
Proof. exact s_loop_every_entry. Qed.
Print Assumptions C06_explicit_loop_every_entry.
(* ... and for the PARAFAC2 loop with Bro's line search (accepted and rejected jumps, normalisation, convergence stops) *)
Theorem C06_parafac2_skeleton_every_entry : forall (St E : Type) (err : St -> E) (Or : p2oracle St) (ls normalize : bool),
  (forall st, err (p2_norm Or st) = err st) ->
  forall (n : nat) (init : St) (j : nat), j < length (snd (p2_loop err Or ls normalize false n 0 init [])) ->
  nth_error (snd (p2_loop err Or ls normalize false n 0 init [])) j
  = Some (err (fst (p2_loop err Or ls normalize false (S j) 0 init []))).
Proof. exact p2_loop_every_entry. Qed.
Print Assumptions C06_parafac2_skeleton_every_entry.
Example C06_every_entry_nonvacuous :
  snd (s_loop (fun st : nat => st) toy_s true true 5 0 0 []) = [fst (s_loop (fun st : nat => st) toy_s true true 1 0 0 []);
                                                               fst (s_loop (fun st : nat => st) toy_s true true 2 0 0 [])] /\
  nth_error (snd (p2_loop (fun st : nat => st) toy_p2 true false false 9 0 0 [])) 6
  = Some (fst (p2_loop (fun st : nat => st) toy_p2 true false false 7 0 0 [])).
Proof. vm_compute. split; reflexivity. Qed.

(* ---- loop skeleton x algebra for the algorithms that report a shortcut value inside a one-value-per-iteration loop (round 5) ----
   HOOI (tucker / partial_tucker without mask; iterate = the factor matrices, core recomputed as X x U^T, reported quantity
   norm^2 - norm(core)^2): for EVERY oracle whose updates return column-orthonormal factors (the SVD contract), every stop pattern and
   either record / callback ordering, EVERY recorded value is the squared residual, from scratch, of the Tucker tensor returned by the run
   cut after that iteration; every commutative ring, order, shape, multilinear rank *)
Theorem C06_hooi_loop_reports_true_errors : forall (F : Type) (Op : fops F),
  ring_theory (f0 Op) (f1 Op) (fadd Op) (fmul Op) (fsub Op) (fopp Op) (@eq F) ->
  forall (s rs : list nat) (X : list nat -> F)
         (upd : nat -> list (nat -> nat -> F) -> list (nat -> nat -> F)) (stop cb_stop : nat -> bool) (record_before_callback : bool),
  (forall it us, orthonormal Op s rs (upd it us)) ->
  let Or := mkS upd stop cb_stop (fun us => us) in
  forall n init j, j < length (snd (s_loop (hooi_fast Op s rs X) Or record_before_callback false n 0 init [])) ->
  nth_error (snd (s_loop (hooi_fast Op s rs X) Or record_before_callback false n 0 init [])) j
  = Some (dist2 Op s X (tucker_entry Op rs (project Op s X (fst (s_loop (hooi_fast Op s rs X) Or record_before_callback false (S j) 0 init [])))
                                      (fst (s_loop (hooi_fast Op s rs X) Or record_before_callback false (S j) 0 init [])))).
Proof. exact @hooi_loop_reports_true_errors. Qed.
Print Assumptions C06_hooi_loop_reports_true_errors.
(* tensor-ring ALS (iterate = the cores; reported quantity = squared residual of the least-squares sub-problem of the last mode): for EVERY
   oracle whose updates keep the number of cores and the ring closure, every recorded value is the squared residual of the ring of its iteration *)
Theorem C06_tr_loop_reports_true_errors : forall (F : Type) (Op : fops F),
  ring_theory (f0 Op) (f1 Op) (fadd Op) (fmul Op) (fsub Op) (fopp Op) (@eq F) ->
  forall (s : list nat) (X : list nat -> F) (r0 : nat)
         (upd : nat -> list (@core F) -> list (@core F)) (stop cb_stop : nat -> bool) (record_before_callback : bool),
  0 < length s ->
  (forall it cores, length (upd it cores) = length s /\ endbond r0 (map (fun c => (fst c, fun a b => snd c a 0 b)) (upd it cores)) = r0) ->
  let Or := mkS upd stop cb_stop (fun c => c) in
  let fast := fun cores => ls_residual2 Op s X r0 cores (length s - 1) in
  forall n init j, j < length (snd (s_loop fast Or record_before_callback false n 0 init [])) ->
  nth_error (snd (s_loop fast Or record_before_callback false n 0 init [])) j
  = Some (dist2 Op s (tr_entry Op r0 (fst (s_loop fast Or record_before_callback false (S j) 0 init []))) X).
Proof. exact @tr_loop_reports_true_errors. Qed.
Print Assumptions C06_tr_loop_reports_true_errors.
(* PARAFAC2 (iterate = (projections, A * weights, B, C); reported quantity = the slice-wise expansion): for EVERY oracle (updates, line-search
   jumps with accept / reject decisions, stops, any normalisation that keeps the value of the expansion) every recorded value is
   sum_i || X_i - B_i C^T ||^2, from scratch, of the iterate returned by the run cut after that iteration; no hypothesis on the projections *)
Theorem C06_parafac2_loop_reports_true_errors : forall (F : Type) (Op : fops F),
  ring_theory (f0 Op) (f1 Op) (fadd Op) (fmul Op) (fsub Op) (fopp Op) (@eq F) ->
  forall (I K Rk : nat) (J : nat -> nat) (X : nat -> nat -> nat -> F) (Or : p2oracle (p2_state (F := F))) (ls normalize : bool),
  (forall st, p2_fast_of Op I K Rk J X (p2_norm Or st) = p2_fast_of Op I K Rk J X st) ->
  forall n init j, j < length (snd (p2_loop (p2_fast_of Op I K Rk J X) Or ls normalize false n 0 init [])) ->
  nth_error (snd (p2_loop (p2_fast_of Op I K Rk J X) Or ls normalize false n 0 init [])) j
  = Some (p2_true_of Op I K Rk J X (fst (p2_loop (p2_fast_of Op I K Rk J X) Or ls normalize false (S j) 0 init []))).
Proof. exact @p2_loop_reports_true_errors. Qed.
Print Assumptions C06_parafac2_loop_reports_true_errors.
(* the instrumented PARAFAC2 loop that Corr/C06.v:KP2Events compares event by event with real runs (projections, inner update, error
   computations, cp_normalize) IS the loop of the theorems above: erasing its events gives p2_loop, for every oracle *)
Theorem C06_parafac2_instrumented_loop_is_loop : forall (St E : Type) (err : St -> E) (Or : p2oracle St) (ls normalize : bool)
  (n it : nat) (cur : St) (errs : list E) (tr : list nat),
  fst (p2_loop_tr err Or ls normalize n it cur errs tr) = p2_loop err Or ls normalize false n it cur errs.
Proof. exact @p2_loop_tr_erase. Qed.
Print Assumptions C06_parafac2_instrumented_loop_is_loop.
Example C06_parafac2_events_nonvacuous : p2_events true true 7 =
  [5; 10; 1; 2; 5; 10; 1; 2; 5; 10; 1; 2; 5; 10; 1; 2; 5; 10; 1; 2; 5; 10; 1; 2; 5; 10; 2; 5; 2; 1].
Proof. vm_compute. reflexivity. Qed.
(* the normalisation hypothesis of the PARAFAC2 loop theorems in ring form: rescaling the columns of B and C with A * weights absorbing the
   scales (what cp_normalize does to (weights, [A, B, C]) as seen by the error computation) keeps the residual from scratch and the slice-wise
   expansion; any number / heights of slices, any rank, any projections *)
Theorem C06_parafac2_rescaling_preserves_error : forall (F : Type) (Op : fops F),
  ring_theory (f0 Op) (f1 Op) (fadd Op) (fmul Op) (fsub Op) (fopp Op) (@eq F) ->
  forall (I K Rk : nat) (J : nat -> nat) (X P : nat -> nat -> nat -> F) (A A' Bm Bm' C C' : nat -> nat -> F) (db dc : nat -> F),
  (forall q r, Bm q r = fmul Op (db r) (Bm' q r)) -> (forall k r, C k r = fmul Op (dc r) (C' k r)) ->
  (forall i r, A' i r = fmul Op (A i r) (fmul Op (db r) (dc r))) ->
  p2_err2_true Op I K Rk J X P A' Bm' C' = p2_err2_true Op I K Rk J X P A Bm C /\
  p2_err2_fast Op I K Rk J X P A' Bm' C' (p2_tmp_proj Op Rk J X P A' Bm') = p2_err2_fast Op I K Rk J X P A Bm C (p2_tmp_proj Op Rk J X P A Bm).
Proof. exact @p2_rescale_both. Qed.
Print Assumptions C06_parafac2_rescaling_preserves_error.
(* ... and with the normalisation hypothesis discharged (C06_parafac2_rescaling_preserves_error inside the loop): for every oracle whose
   normalisation keeps the projections and rescales the columns of B and C with A * weights absorbing the scales *)
Theorem C06_parafac2_loop_reports_true_errors_with_rescaling : forall (F : Type) (Op : fops F),
  ring_theory (f0 Op) (f1 Op) (fadd Op) (fmul Op) (fsub Op) (fopp Op) (@eq F) ->
  forall (I K Rk : nat) (J : nat -> nat) (X : nat -> nat -> nat -> F) (Or : p2oracle (p2_state (F := F))) (ls normalize : bool),
  (forall st, p2_rescaled Op st (p2_norm Or st)) ->
  forall n init j, j < length (snd (p2_loop (p2_fast_of Op I K Rk J X) Or ls normalize false n 0 init [])) ->
  nth_error (snd (p2_loop (p2_fast_of Op I K Rk J X) Or ls normalize false n 0 init [])) j
  = Some (p2_true_of Op I K Rk J X (fst (p2_loop (p2_fast_of Op I K Rk J X) Or ls normalize false (S j) 0 init []))).
Proof. exact @p2_loop_reports_true_errors_rescaling. Qed.
Print Assumptions C06_parafac2_loop_reports_true_errors_with_rescaling.
(* non-vacuity: the identity normalisation and a sign flip of column 0 of B absorbed by A are such rescalings (over Z) *)
Example C06_parafac2_rescaled_nonvacuous :
  forall (P : nat -> nat -> nat -> Z) (A Bm C : nat -> nat -> Z),
  p2_rescaled Zops (P, A, Bm, C) (P, A, Bm, C) /\
  p2_rescaled Zops (P, A, Bm, C) (P, (fun i r => (A i r * ((if Nat.eqb r 0 then -1 else 1) * 1))%Z), (fun q r => ((if Nat.eqb r 0 then -1 else 1) * Bm q r)%Z), C).
Proof.
  intros P A Bm C. split; (split; [reflexivity|]).
  - exists (fun _ => 1%Z), (fun _ => 1%Z). repeat split; intros; cbv [fmul Zops]; ring.
  - exists (fun r => if Nat.eqb r 0 then (-1)%Z else 1%Z), (fun _ => 1%Z). repeat split; intros; cbv [fmul Zops]; destruct (Nat.eqb r 0); ring.
Qed.
(* non-negative Tucker variants with normalize_factors=True (explicit residual recorded, then tucker_normalize, also on the exits), over the reals
   with the transcribed tucker_normalize (column norms, zero norms replaced by 1, core multiplied by the norms): for EVERY update rule, stop
   pattern, record / callback ordering, with or without normalisation, every recorded value is the squared residual of the iterate returned by
   the run cut after that iteration; no hypothesis about the normalisation is left *)
Theorem C06_tucker_loop_reports_true_errors_with_tucker_normalize : forall (s rs : list nat) (X : list nat -> R)
  (upd : nat -> tk_state -> tk_state) (stop cb_stop : nat -> bool) (record_before_callback normalize : bool),
  length rs = length s ->
  let Or := mkS upd stop cb_stop (tucker_normalize_R s) in
  forall n init j, j < length (snd (s_loop (tk_err2 s rs X) Or record_before_callback normalize n 0 init [])) ->
  nth_error (snd (s_loop (tk_err2 s rs X) Or record_before_callback normalize n 0 init [])) j
  = Some (tk_err2 s rs X (fst (s_loop (tk_err2 s rs X) Or record_before_callback normalize (S j) 0 init []))).
Proof. exact tucker_loop_reports_true_errors_R. Qed.
Print Assumptions C06_tucker_loop_reports_true_errors_with_tucker_normalize.
(* non-vacuity: an oracle that returns the signed permutation factors of C06_hooi_nonvacuous satisfies the HOOI hypothesis; 3 iterations record
   [10; 10; 10] = the residual from scratch.  The cores of C06_tr_nonvacuous satisfy the closure hypothesis. *)
Example C06_composed_loops_nonvacuous :
  let us := matsT Zops [mk [2;2] [0;1;-1;0]%Z; mk [2;1] [0;1]%Z] in
  let X := tfun Zops (mk [2;2] [1;2;3;4]%Z) in
  let Or := mkS (fun _ _ => us) (fun _ => false) (fun _ => false) (fun u => u) in
  (forall (it : nat) (u : list (nat -> nat -> Z)), orthonormal Zops [2;2] [2;1] ((fun _ _ => us) it u)) /\
  snd (s_loop (hooi_fast Zops [2;2] [2;1] X) Or true false 3 0 [] []) = [10; 10; 10]%Z /\
  hooi_true Zops [2;2] [2;1] X us = 10%Z /\
  (let cores := map (core_of Zops) [mk [2;2;1] [1;2;0;1]%Z; mk [1;2;2] [1;0;2;1]%Z; mk [2;2;2] [1;0;0;1;1;1;0;2]%Z] in
   length cores = 3 /\ endbond 2 (map (fun c => (fst c, fun a b => snd c a 0 b)) cores) = 2).
Proof.
  cbv zeta. split; [|split; [vm_compute; reflexivity | split; [vm_compute; reflexivity | split; vm_compute; reflexivity]]].
  intros _ _. simpl. repeat split; intros a b Ha Hb;
    repeat (destruct a as [|a]; [|try lia]); repeat (destruct b as [|b]; [|try lia]); try lia; vm_compute; reflexivity.
Qed.

(* ---- round 6 ----
   error_calc composed with the sweep ON DATA: one iteration of parafac (for mode in modes_list: MTTKRP of the current factors, factors[mode] =
   solve(...); then error_calc with the remembered MTTKRP).  For EVERY solve oracle the remembered matrix is the MTTKRP of the last updated
   mode for the UPDATED factors (computed before that factor is overwritten, and not reading it), so the hypothesis of
   C06_error_calc_every_branch is established by the sweep itself: the value is the explicit squared residual of the updated factors.
   Every order >= 1, shape, rank, modes list ending with the last mode (or empty: all modes fixed) *)
Theorem C06_parafac_iteration_on_data_reports_true_error : forall (F : Type) (Op : fops F),
  ring_theory (f0 Op) (f1 Op) (fadd Op) (fmul Op) (fsub Op) (fopp Op) (@eq F) ->
  forall (solve : nat -> tensor F -> list (tensor F) -> tensor F) (X : tensor F) (R : nat) (w : option (list F)) (card : option nat)
         (ms : list nat) (fs : list (tensor F)),
  0 < length (shape X) -> length fs = length (shape X) -> (ms = [] \/ last ms 0 = length (shape X) - 1) ->
  parafac_iteration_error Op solve X R w card ms fs
  = (let fs' := fst (data_sweep Op solve X R w ms fs None) in
     err_explicit Op X (cp_tensor_entry Op R w fs') (sparse_of Op X (cp_tensor_entry Op R w fs') card None) None).
Proof. exact @parafac_iteration_reports_true_error. Qed.
Print Assumptions C06_parafac_iteration_on_data_reports_true_error.
(* ... iterated: every entry of the list of a run on data is the explicit squared residual (minus the sparse component when sparsity is set; and the
   squared norm) of the factors at the end of its iteration, and the returned factors are those of the last iteration *)
Theorem C06_parafac_loop_on_data_reports_true_errors : forall (F : Type) (Op : fops F),
  ring_theory (f0 Op) (f1 Op) (fadd Op) (fmul Op) (fsub Op) (fopp Op) (@eq F) ->
  forall (solve : nat -> nat -> tensor F -> list (tensor F) -> tensor F) (X : tensor F) (R : nat) (w : option (list F)) (card : option nat) (ms : list nat),
  0 < length (shape X) -> (ms = [] \/ last ms 0 = length (shape X) - 1) ->
  forall n it fs errs, length fs = length (shape X) ->
  snd (parafac_data_loop Op solve X R w card ms n it fs errs)
  = errs ++ map (fun fs_j => err_explicit Op X (cp_tensor_entry Op R w fs_j) (sparse_of Op X (cp_tensor_entry Op R w fs_j) card None) None)
                (parafac_data_states Op solve X R w ms n it fs) /\
  fst (parafac_data_loop Op solve X R w card ms n it fs errs) = last (parafac_data_states Op solve X R w ms n it fs) fs.
Proof. exact @parafac_data_loop_reports_true_errors. Qed.
Print Assumptions C06_parafac_loop_on_data_reports_true_errors.
(* the CP loop under a 0/1 mask (optionally with sparsity): error_calc reads the tensor it is given only through its observed entries, and the
   imputed tensor it hands on has the observed entries of the original data; so although the loop carries an imputed tensor from iteration to
   iteration, EVERY recorded value is what error_calc computes from the ORIGINAL data for the factors of that iteration (explicit residual of
   the data imputed with that iterate's reconstruction, minus the sparse component - by C06_masked_residual_is_observed_residual the residual
   on the observed entries); for every update rule *)
Theorem C06_error_calc_mask_reads_observed_only : forall (F : Type) (Op : fops F)
  (Xc X0 m : tensor F) (R : nat) (w : option (list F)) (fs : list (tensor F)) (card : option nat) (M : option (tensor F)),
  agree_observed Op Xc X0 m ->
  error_calc_model Op Xc R w fs card (Some m) M = error_calc_model Op X0 R w fs card (Some m) M.
Proof. exact @error_calc_mask_reads_observed_only. Qed.
Print Assumptions C06_error_calc_mask_reads_observed_only.
Theorem C06_masked_loop_reports_errors_of_original_data : forall (F : Type) (Op : fops F),
  ring_theory (f0 Op) (f1 Op) (fadd Op) (fmul Op) (fsub Op) (fopp Op) (@eq F) ->
  forall (upd : nat -> list (tensor F) -> tensor F -> list (tensor F)) (X0 m : tensor F) (R : nat) (w : option (list F)) (card : option nat),
  (forall idx, inb (shape X0) idx -> fmul Op (tfun Op m idx) (tfun Op m idx) = tfun Op m idx) ->
  forall n it fs Xc errs, agree_observed Op Xc X0 m ->
  snd (masked_loop Op upd m R w card n it fs Xc errs)
  = errs ++ map (fun fs_j => error_calc_model Op X0 R w fs_j card (Some m) None) (masked_states Op upd m R w n it fs Xc) /\
  fst (masked_loop Op upd m R w card n it fs Xc errs) = last (masked_states Op upd m R w n it fs Xc) fs.
Proof. exact @masked_loop_reports_errors_of_original_data. Qed.
Print Assumptions C06_masked_loop_reports_errors_of_original_data.
(* CMTF (squared form) and randomised CP as skeletons: one explicit value per iteration, recorded before the convergence test / the callback
   may stop the run; for every update rule and stop pattern every recorded value belongs to the iterate of its iteration, the last to the returned one *)
Theorem C06_cmtf_loop_reports_true_errors : forall (F : Type) (Op : fops F) (X Y : tensor F) (R : nat)
  (upd : nat -> list (tensor F) * tensor F -> list (tensor F) * tensor F) (stop : nat -> bool),
  let Or := mkS upd stop (fun _ => false) (fun st => st) in
  forall n init j, j < length (snd (s_loop (cmtf_err2 Op X Y R) Or true false n 0 init [])) ->
  nth_error (snd (s_loop (cmtf_err2 Op X Y R) Or true false n 0 init [])) j
  = Some (cmtf_err2 Op X Y R (fst (s_loop (cmtf_err2 Op X Y R) Or true false (S j) 0 init []))).
Proof. exact @cmtf_loop_reports_true_errors. Qed.
Print Assumptions C06_cmtf_loop_reports_true_errors.
Theorem C06_randomised_loop_reports_true_errors : forall (F : Type) (Op : fops F) (X : tensor F) (R : nat)
  (upd : nat -> option (list F) * list (tensor F) -> option (list F) * list (tensor F)) (stop cb_stop : nat -> bool),
  let Or := mkS upd stop cb_stop (fun st => st) in
  forall n init j, j < length (snd (s_loop (cp_explicit_err2 Op X R) Or true false n 0 init [])) ->
  nth_error (snd (s_loop (cp_explicit_err2 Op X R) Or true false n 0 init [])) j
  = Some (cp_explicit_err2 Op X R (fst (s_loop (cp_explicit_err2 Op X R) Or true false (S j) 0 init []))) /\
  s_last_ok _ _ (cp_explicit_err2 Op X R) (s_loop (cp_explicit_err2 Op X R) Or true false (S n) 0 init []).
Proof. exact @randomised_loop_reports_true_errors. Qed.
Print Assumptions C06_randomised_loop_reports_true_errors.
(* the finiteness clause as far as it can be stated over R: in exact arithmetic the quantity under each shortcut's square root is a squared
   residual, hence non-negative - the square root is defined even without the abs, the reported value is a non-negative real and, for
   ||X|| > 0, a quotient with non-zero denominator.  A negative argument / NaN can therefore only come from ROUNDING (a perturbation delta of
   the exact argument: the abs keeps the argument non-negative, and delta = 0 gives the exact relative error) or from ||X|| = 0. *)
Theorem C06_error_calc_argument_nonnegative : forall (s : list nat) (X : list nat -> R) (Rk : nat) (w u v : nat -> R) (cols : nat -> list (nat -> R)) (n : nat),
  n < length s -> (forall r, r < Rk -> length (cols r) = length s) -> (forall r, r < Rk -> (u r * v r)%R = w r) ->
  (0 < normsq Rops s X)%R -> finite_report (err2_fast Rops s X Rk w u v cols n) (normsq Rops s X).
Proof. exact error_calc_argument_nonneg. Qed.
Print Assumptions C06_error_calc_argument_nonnegative.
Theorem C06_hooi_argument_nonnegative : forall (s rs : list nat) (X G : list nat -> R) (us : list (nat -> nat -> R)),
  orthonormal Rops s rs us -> (forall j, inb rs j -> G j = project Rops s X us j) ->
  (0 < normsq Rops s X)%R -> finite_report (hooi_err2 Rops s rs X G) (normsq Rops s X).
Proof. exact hooi_argument_nonneg. Qed.
Print Assumptions C06_hooi_argument_nonnegative.
Theorem C06_parafac2_argument_nonnegative : forall (I K Rk : nat) (J : nat -> nat) (X P : nat -> nat -> nat -> R) (A Bm C : nat -> nat -> R),
  (0 < p2_normX Rops I K J X)%R ->
  finite_report (p2_err2_fast Rops I K Rk J X P A Bm C (p2_tmp_proj Rops Rk J X P A Bm)) (p2_normX Rops I K J X).
Proof. exact parafac2_argument_nonneg. Qed.
Print Assumptions C06_parafac2_argument_nonnegative.
Theorem C06_tr_and_explicit_arguments_nonnegative : forall (s : list nat) (X L : list nat -> R) (r0 : nat) (cores : list (@core R)) (d : nat),
  (0 < normsq Rops s X)%R ->
  finite_report (ls_residual2 Rops s X r0 cores d) (normsq Rops s X) /\ finite_report (dist2 Rops s X L) (normsq Rops s X).
Proof. exact tr_and_explicit_arguments_nonneg. Qed.
Print Assumptions C06_tr_and_explicit_arguments_nonnegative.
Theorem C06_rounding_is_the_only_source_of_nan : forall q nx delta : R, (0 <= q)%R -> (0 < nx)%R ->
  sqrt_arg_ok (Rabs (q + delta)) /\ (delta = 0%R -> reported (q + delta) nx = rel_error q nx) /\
  ((q + delta < 0)%R -> ~ sqrt_arg_ok (q + delta)).
Proof. exact rounding_is_the_only_source. Qed.
Print Assumptions C06_rounding_is_the_only_source_of_nan.
(* tensor_ring_als, the axis bookkeeping of the design matrix transcribed (Model/Errors.v: subchain_axes, tr_idx; regenerated from the source and
   re-checked on every run by harness/props/C06_ast.py): transposing the sub-chain tensor (axes: bond r_{dim+1}, modes dim+1 .. dim-1 cyclically, bond
   r_dim) by tr_idx puts the modes in INCREASING order - the row order of matricize(tensor, [n != dim], [dim]) - followed by r_dim and r_{dim+1}, the
   row-major pair that also indexes the rows of `sol` before it is reshaped into the core: (design_mat @ sol)[idx', i] =
   sum_{a,b} subchain[b, idx', a] core[a, i, b], the ls_prediction of C06_tr_als_prediction_is_ring_entry.  Every order N, every mode dim < N *)
Theorem C06_tr_idx_sorts_modes : forall N dim : nat, dim < N ->
  permute_axes (subchain_axes N dim) (tr_idx N dim) = map AMode (remove_nth dim (seq 0 N)) ++ [ABond dim; ABond (dim + 1)] /\
  length (tr_idx N dim) = N + 1.
Proof. exact tr_idx_sorts_and_length. Qed.
Print Assumptions C06_tr_idx_sorts_modes.
Example C06_tr_idx_nonvacuous : tr_idx 4 1 = [3; 1; 2; 4; 0] /\ permute_axes (subchain_axes 4 1) (tr_idx 4 1) = [AMode 0; AMode 2; AMode 3; ABond 1; ABond 2].
Proof. vm_compute. split; reflexivity. Qed.
(* non-vacuity: finite_report holds on the 1-entry instance of C06_reported_nonvacuous; a sweep on data over Z with a constant solve oracle *)
Example C06_round6_nonvacuous :
  finite_report 4 9 /\
  (let X := mk [2;3;2] [1;2;3;4;5;6;7;8;9;10;11;12]%Z in
   let fs := [mk [2;2] [1;0;1;1]%Z; mk [3;2] [1;2;0;1;1;1]%Z; mk [2;2] [1;1;2;0]%Z] in
   let solve := fun (m : nat) (_ : tensor Z) (cur : list (tensor Z)) => nth m fs (mk [] []) in
   fst (parafac_iteration_error Zops solve X 2 (Some [2;3]%Z) None [0;1;2] [mk [2;2] [0;0;0;0]%Z; mk [3;2] [1;1;1;1;1;1]%Z; mk [2;2] [5;5;5;5]%Z]) = 296%Z).
Proof. split; [apply finite_report_of_nonneg; lra | vm_compute; reflexivity]. Qed.

(* ---- round 7 ----
   The parafac loop ON DATA with weights, end-of-iteration normalisation and line search (Model/Errors.v:fl_loop; no mask): state =
   (weights, factors); each iteration takes the line-search snapshot on even iterations, sweeps the modes with the MTTKRP of the
   current weights / factors (arbitrary solve oracle), then either calls error_calc with the remembered MTTKRP, or - on a line-search
   iteration - evaluates the candidate of an arbitrary extrapolation oracle explicitly and keeps it if an arbitrary acceptance oracle
   (seeing the candidate's value and the history) says so, else falls back to error_calc with the remembered MTTKRP; the value is
   recorded; an arbitrary stop oracle (seeing the history) may end the run; the state is normalised (arbitrary oracle) at the end of
   the iteration, also on the exits.  For EVERY such oracle family EVERY recorded value is the explicit squared residual (minus the
   sparse component the model computes itself when sparsity is set; and the squared norm) of the state it was computed for, and the
   returned state is the last end-of-iteration state.  Hypotheses on shapes only: the extrapolation and the normalisation keep one
   factor per mode. *)
Theorem C06_parafac_full_loop_on_data_reports_true_errors : forall (F : Type) (Op : fops F),
  ring_theory (f0 Op) (f1 Op) (fadd Op) (fmul Op) (fsub Op) (fopp Op) (@eq F) ->
  forall (Or : @floracle F) (X : tensor F) (R : nat) (card : option nat) (ms : list nat) (linesearch normalize : bool),
  0 < length (shape X) -> (ms = [] \/ last ms 0 = length (shape X) - 1) ->
  (forall it a b, fl_wf X a -> fl_wf X b -> fl_wf X (fl_jump Or it a b)) ->
  (normalize = true -> forall st, fl_wf X st -> fl_wf X (fl_norm Or st)) ->
  forall n it st snap errs, fl_wf X st -> fl_wf X snap ->
  snd (fl_loop Op Or X R card ms linesearch normalize n it st snap errs)
  = errs ++ map (fl_true_err Op X R card) (fl_states Op Or X R card ms linesearch normalize false n it st snap errs) /\
  fst (fl_loop Op Or X R card ms linesearch normalize n it st snap errs)
  = last (fl_states Op Or X R card ms linesearch normalize true n it st snap errs) st /\
  length (fl_states Op Or X R card ms linesearch normalize true n it st snap errs)
  = length (fl_states Op Or X R card ms linesearch normalize false n it st snap errs).
Proof. exact @fl_loop_reports_true_errors. Qed.
Print Assumptions C06_parafac_full_loop_on_data_reports_true_errors.
(* ... and when the normalisation keeps every in-range entry of the represented tensor, each value is ALSO the explicit residual of the
   state at the END of its iteration: entry j of the list is the error of the state a run stopped after iteration j returns *)
Theorem C06_parafac_full_loop_reports_errors_of_returned_states : forall (F : Type) (Op : fops F),
  ring_theory (f0 Op) (f1 Op) (fadd Op) (fmul Op) (fsub Op) (fopp Op) (@eq F) ->
  forall (Or : @floracle F) (X : tensor F) (R : nat) (card : option nat) (ms : list nat) (linesearch normalize : bool),
  0 < length (shape X) -> (ms = [] \/ last ms 0 = length (shape X) - 1) ->
  (forall it a b, fl_wf X a -> fl_wf X b -> fl_wf X (fl_jump Or it a b)) ->
  (normalize = true -> forall st, fl_wf X st -> fl_wf X (fl_norm Or st)) ->
  (normalize = true -> forall st, fl_wf X st -> same_tensor Op X R (fl_norm Or st) st) ->
  forall n it st snap errs, fl_wf X st -> fl_wf X snap ->
  snd (fl_loop Op Or X R card ms linesearch normalize n it st snap errs)
  = errs ++ map (fl_true_err Op X R card) (fl_states Op Or X R card ms linesearch normalize true n it st snap errs) /\
  fst (fl_loop Op Or X R card ms linesearch normalize n it st snap errs)
  = last (fl_states Op Or X R card ms linesearch normalize true n it st snap errs) st.
Proof. exact @fl_loop_reports_errors_of_returned_states. Qed.
Print Assumptions C06_parafac_full_loop_reports_errors_of_returned_states.
(* cp_normalize on (weights, factors) GIVEN AS DATA over the reals - the step-by-step transcription of C06_cp_normalize_preserves_error
   between blocks_of and data_of_blocks - keeps one factor per mode and EVERY in-range entry of the represented tensor (zero columns,
   zero and negative incoming weights included) *)
Theorem C06_cp_normalize_on_data_keeps_every_entry : forall (X : tensor R) (Rk : nat) (st : @cpstate R),
  (0 < length (shape X))%nat -> length (snd st) = length (shape X) ->
  length (snd (cp_normalize_data_R (shape X) Rk st)) = length (shape X) /\
  forall idx, inb (shape X) idx ->
    cp_tensor_entry Rops Rk (fst (cp_normalize_data_R (shape X) Rk st)) (snd (cp_normalize_data_R (shape X) Rk st)) idx
    = cp_tensor_entry Rops Rk (fst st) (snd st) idx.
Proof. exact cp_normalize_data_R_same_tensor. Qed.
Print Assumptions C06_cp_normalize_on_data_keeps_every_entry.
(* the composition: the data-level loop over the reals whose normalisation IS the transcribed cp_normalize and whose extrapolation IS the
   transcribed rule last + (current - last) * jump (any jump sequence): no hypothesis about normalisation or extrapolation is left *)
Theorem C06_parafac_full_loop_with_cp_normalize : forall (Orc : @floracle R) (X : tensor R) (Rk : nat) (card : option nat) (ms : list nat)
        (linesearch normalize : bool),
  (0 < length (shape X))%nat -> (ms = [] \/ last ms 0%nat = (length (shape X) - 1)%nat) ->
  (exists jumps : nat -> R, fl_jump Orc = fun it => ls_extrapolate Rops (jumps it)) ->
  fl_norm Orc = cp_normalize_data_R (shape X) Rk ->
  forall n it st snap errs, length (snd st) = length (shape X) -> length (snd snap) = length (shape X) ->
  snd (fl_loop Rops Orc X Rk card ms linesearch normalize n it st snap errs)
  = errs ++ map (fl_true_err Rops X Rk card) (fl_states Rops Orc X Rk card ms linesearch normalize true n it st snap errs) /\
  fst (fl_loop Rops Orc X Rk card ms linesearch normalize n it st snap errs)
  = last (fl_states Rops Orc X Rk card ms linesearch normalize true n it st snap errs) st.
Proof. exact fl_loop_reports_true_errors_with_cp_normalize. Qed.
Print Assumptions C06_parafac_full_loop_with_cp_normalize.
(* constrained_parafac on data: the MTTKRP carries NO weights, the weights multiply the column sums (u = 1, v = w); for every admm
   oracle the inline shortcut after the sweep is the explicit squared residual of the updated factors, and iterated with any stop
   oracle every recorded value belongs to the factors at the end of its iteration, the returned factors being the last ones *)
Theorem C06_constrained_iteration_on_data_reports_true_error : forall (F : Type) (Op : fops F),
  ring_theory (f0 Op) (f1 Op) (fadd Op) (fmul Op) (fsub Op) (fopp Op) (@eq F) ->
  forall (solve : nat -> tensor F -> list (tensor F) -> tensor F) (X : tensor F) (R : nat) (w : option (list F)) (ms : list nat) (fs : list (tensor F)),
  0 < length (shape X) -> length fs = length (shape X) -> (ms = [] \/ last ms 0 = length (shape X) - 1) ->
  constrained_iteration_error Op solve X R w ms fs = err_cp_true Op X R w (fst (data_sweep Op solve X R None ms fs None)) None None.
Proof. exact @constrained_iteration_reports_true_error. Qed.
Print Assumptions C06_constrained_iteration_on_data_reports_true_error.
Theorem C06_constrained_loop_on_data_reports_true_errors : forall (F : Type) (Op : fops F),
  ring_theory (f0 Op) (f1 Op) (fadd Op) (fmul Op) (fsub Op) (fopp Op) (@eq F) ->
  forall (solve : nat -> nat -> tensor F -> list (tensor F) -> tensor F) (stop : nat -> list (F * F) -> bool)
         (X : tensor F) (R : nat) (w : option (list F)) (ms : list nat),
  0 < length (shape X) -> (ms = [] \/ last ms 0 = length (shape X) - 1) ->
  forall n it fs errs, length fs = length (shape X) ->
  snd (constrained_data_loop Op solve stop X R w ms n it fs errs)
  = errs ++ map (fun fs_j => err_cp_true Op X R w fs_j None None) (constrained_data_states Op solve stop X R w ms n it fs errs) /\
  fst (constrained_data_loop Op solve stop X R w ms n it fs errs) = last (constrained_data_states Op solve stop X R w ms n it fs errs) fs.
Proof. exact @constrained_data_loop_reports_true_errors. Qed.
Print Assumptions C06_constrained_loop_on_data_reports_true_errors.
(* non_negative_parafac_hals on data (no normalisation inside the sweep): the weighted MTTKRP of the last UPDATED mode paired with that
   mode's factor - any modes list whose last entry is a mode of the tensor, e.g. the last mode fixed *)
Theorem C06_hals_iteration_on_data_reports_true_error : forall (F : Type) (Op : fops F),
  ring_theory (f0 Op) (f1 Op) (fadd Op) (fmul Op) (fsub Op) (fopp Op) (@eq F) ->
  forall (solve : nat -> tensor F -> list (tensor F) -> tensor F) (X : tensor F) (R : nat) (w : option (list F)) (ms : list nat) (fs : list (tensor F)),
  length fs = length (shape X) -> (ms = [] \/ last ms 0 < length (shape X)) ->
  hals_iteration_error Op solve X R w ms fs = err_cp_true Op X R w (fst (data_sweep Op solve X R w ms fs None)) None None.
Proof. exact @hals_iteration_reports_true_error. Qed.
Print Assumptions C06_hals_iteration_on_data_reports_true_error.
(* the sweep with cp_normalize INSIDE it, on data (non_negative_parafac, non_negative_parafac_hals with normalize_factors=True): after every
   updated mode but the last the state is normalised by an arbitrary oracle (of the mode and the state) that keeps one factor per mode;
   nothing is normalised after the last updated mode, so the remembered MTTKRP - computed from the weights / factors of that moment -
   is the MTTKRP of the last updated mode for the final state and the shortcut paired with that mode's factor is the explicit squared
   residual of the final state; every update oracle, any modes list whose last entry is a mode *)
Theorem C06_sweep_with_normalisation_on_data_reports_true_error : forall (F : Type) (Op : fops F),
  ring_theory (f0 Op) (f1 Op) (fadd Op) (fmul Op) (fsub Op) (fopp Op) (@eq F) ->
  forall (solve : nat -> tensor F -> list (tensor F) -> tensor F) (norm : nat -> @cpstate F -> @cpstate F) (normalize : bool) (X : tensor F) (R : nat),
  (normalize = true -> forall m st, length (snd st) = length (shape X) -> length (snd (norm m st)) = length (shape X)) ->
  forall ms st, length (snd st) = length (shape X) -> (ms = [] \/ last ms 0 < length (shape X)) ->
  norm_sweep_error Op solve norm normalize X R ms st
  = (let st' := fst (norm_sweep Op solve norm normalize X R ms st None) in err_cp_true Op X R (fst st') (snd st') None None).
Proof. exact @norm_sweep_reports_true_error. Qed.
Print Assumptions C06_sweep_with_normalisation_on_data_reports_true_error.
(* the semantic checker of tensor_ring_als's axis bookkeeping is sound: when it answers true for the pieces read off the source (cores
   of the sub-chain, transposition, row modes, rank indices of the two reshapes, transposition of the solution), the transposed
   sub-chain has the axes [row modes of the unfolded tensor] ++ [the bonds in the order the solution is reshaped with] and the reshaped,
   transposed solution has the axes of core dim (bonds modulo N).  The ast tie evaluates it on the regenerated pieces for the orders
   2..7; the universal statement about the present form of tr_idx is C06_tr_idx_sorts_modes *)
Theorem C06_tr_bookkeeping_checker_sound : forall N dim chain row_modes tr_perm cols sol_rows sol_perm,
  tr_bookkeeping_ok N dim chain row_modes tr_perm cols sol_rows sol_perm = true ->
  permute_axes (chain_axes N chain) tr_perm = map AMode row_modes ++ map (bond N) cols /\
  permute_axes (map (bond N) sol_rows ++ [AMode dim]) sol_perm = [bond N dim; AMode dim; bond N (dim + 1)] /\
  map (bond N) cols = map (bond N) sol_rows /\ adjacent N chain = true.
Proof. exact tr_bookkeeping_ok_sound. Qed.
Print Assumptions C06_tr_bookkeeping_checker_sound.
(* ... and the model's own pieces (the cores (dim+j) mod N for j = 1..N-1, the rows [n != dim] in increasing order, tr_idx, the rank indices
   [dim; dim+1] in both reshapes, the transposition [0; 2; 1]) pass the checker for EVERY order N >= 2 and every mode: with the soundness
   theorem this is the universal statement of the bookkeeping with bonds taken modulo N, the transposition of the solution included *)
Theorem C06_tr_bookkeeping_model_passes_checker : forall N dim, 2 <= N -> dim < N -> tr_bookkeeping_model_ok N dim = true.
Proof. exact tr_bookkeeping_model_ok_all. Qed.
Print Assumptions C06_tr_bookkeeping_model_passes_checker.
(* randomised_parafac's gating (Model/Errors.v:r_loop): the error is recomputed under one gate, recorded under a second and handed to the
   callback under a third.  As soon as the value is recomputed in every iteration in which it is recorded or handed over (in the code:
   compute = max_stagnation or tol or callback given; record = max_stagnation or tol), for EVERY oracle of updates, callback stops and
   convergence / stagnation stops every recorded value and every (iterate, value) pair the callback receives inside the loop is the
   error of the iterate of its iteration, and the returned iterate is the last one - in particular with tol = 0 and max_stagnation = 0,
   where nothing is recorded and only the callback asks for the error.  The ast tie re-proves the two implications for the gates read
   off the current source. *)
Theorem C06_randomised_gating_values_true : forall (St E : Type) (err : St -> E) (Or : roracle St E) (compute record cb : bool),
  (record = true -> compute = true) -> (cb = true -> compute = true) ->
  forall n it cur e0 errs cbs,
  let r := r_loop St E err Or compute record cb n it cur e0 errs cbs in
  let sts := r_states St E err Or compute record cb n it cur e0 errs in
  snd (fst r) = errs ++ (if record then map err sts else []) /\
  snd r = cbs ++ (if cb then map (fun s => (s, err s)) sts else []) /\
  fst (fst r) = last sts cur.
Proof. exact r_loop_values_true. Qed.
Print Assumptions C06_randomised_gating_values_true.
(* the hypothesis matters: with the error recomputed only when it is recorded (and nothing recorded) every in-loop callback receives the
   value computed before the loop *)
Theorem C06_randomised_stale_gate_refuted :
  snd (r_loop nat nat (fun st => st) toy_r false false true 3 0 0 0 [] []) = [(1, 0); (2, 0); (3, 0)] /\
  snd (r_loop nat nat (fun st => st) toy_r true false true 3 0 0 0 [] []) = [(1, 1); (2, 2); (3, 3)].
Proof. exact r_loop_stale_gate_refuted. Qed.
Print Assumptions C06_randomised_stale_gate_refuted.
(* non-vacuity of round 7: a 2x2 integer matrix, rank 1, 7 iterations with line search on: the solve oracle answers the MTTKRP itself,
   the extrapolation is the transcribed rule with jump 2 and is accepted at iteration 6 - the hypotheses of the loop theorem hold
   (ls_extrapolate keeps one factor per mode), 7 values are recorded, they are the explicit residuals of the end-of-iteration states,
   and the accepted jump makes the returned state differ from the one returned when the jump is rejected; the model's own pieces of
   the tensor-ring bookkeeping pass the checker for the orders 2..7; a constrained / HALS iteration computes *)
Example C06_round7_nonvacuous :
  let X := mk [2;2] [1;2;3;4]%Z in
  let st : @cpstate Z := (Some [1%Z], [mk [2;1] [1;1]%Z; mk [2;1] [1;2]%Z]) in
  let orc := fun acc : bool => @mkFL Z (fun _ _ M _ => M) (fun _ => ls_extrapolate Zops 2%Z) (fun _ _ _ => acc) (fun s => s) (fun _ _ => false) in
  (forall acc it a b, fl_wf X a -> fl_wf X b -> fl_wf X (fl_jump (orc acc) it a b)) /\
  length (snd (fl_loop Zops (orc true) X 1 None [0;1] true false 7 0 st st [])) = 7 /\
  snd (fl_loop Zops (orc true) X 1 None [0;1] true false 7 0 st st [])
  = map (fl_true_err Zops X 1 None) (fl_states Zops (orc true) X 1 None [0;1] true false true 7 0 st st []) /\
  fst (fl_loop Zops (orc true) X 1 None [0;1] true false 7 0 st st []) <> fst (fl_loop Zops (orc false) X 1 None [0;1] true false 7 0 st st []) /\
  forallb (fun N => forallb (fun dim => tr_bookkeeping_model_ok N dim) (seq 0 N)) (seq 2 6) = true /\
  (let fs := [mk [2;1] [1;1]%Z; mk [2;1] [1;2]%Z] in
   fst (constrained_iteration_error Zops (fun _ M _ => M) X 1 (Some [2%Z]) [0;1] fs) = fst (err_cp_true Zops X 1 (Some [2%Z]) (fst (data_sweep Zops (fun _ M _ => M) X 1 None [0;1] fs None)) None None) /\
   fst (hals_iteration_error Zops (fun _ M _ => M) X 1 (Some [2%Z]) [1;0] fs) = fst (err_cp_true Zops X 1 (Some [2%Z]) (fst (data_sweep Zops (fun _ M _ => M) X 1 (Some [2%Z]) [1;0] fs None)) None None) /\
   (let nrm := fun (_ : nat) (s : @cpstate Z) => (Some [(-3)%Z], snd s) in
    let st' := fst (norm_sweep Zops (fun _ M _ => M) nrm true X 1 [0;1] (Some [2%Z], fs) None) in
    fst st' = Some [(-3)%Z] /\ fst (norm_sweep_error Zops (fun _ M _ => M) nrm true X 1 [0;1] (Some [2%Z], fs)) = fst (err_cp_true Zops X 1 (fst st') (snd st') None None))).
Proof.
  cbv zeta. split; [intros acc it a b Ha Hb; cbn [fl_jump]; now apply ls_extrapolate_wf|].
  split; [vm_compute; reflexivity|]. split; [vm_compute; reflexivity|].
  split; [vm_compute; intros H; discriminate H|]. split; [exact tr_bookkeeping_model_ok_sample|]. split; [vm_compute; reflexivity|]. split; [vm_compute; reflexivity|].
  split; vm_compute; reflexivity.
Qed.

(* ---- non-vacuity: the hypotheses are satisfiable and the model computes *)
Example C06_ring_Z : ring_theory (f0 Zops) (f1 Zops) (fadd Zops) (fmul Zops) (fsub Zops) (fopp Zops) (@eq Z).
Proof. exact Zth. Qed.
Example C06_ring_R : ring_theory (f0 Rops) (f1 Rops) (fadd Rops) (fmul Rops) (fsub Rops) (fopp Rops) (@eq R).
Proof. exact RTheory. Qed.
(* a 2x3x2 integer tensor, rank 2, non-unit weights: shortcut (MTTKRP of the last mode) = residual from scratch = 296 *)
Example C06_shortcut_nonvacuous :
  let X := mk [2;3;2] [1;2;3;4;5;6;7;8;9;10;11;12]%Z in
  let fs := [mk [2;2] [1;0;1;1]%Z; mk [3;2] [1;2;0;1;1;1]%Z; mk [2;2] [1;1;2;0]%Z] in
  let w := Some [2;3]%Z in
  fst (err_shortcut Zops X 2 w fs 2) = fst (err_cp_true Zops X 2 w fs None None) /\
  fst (err_shortcut Zops X 2 w fs 2) = 296%Z /\ fst (err_shortcut Zops X 2 w fs 0) = 296%Z.
Proof. vm_compute. repeat split. Qed.
(* orthonormal integer factors (signed permutation matrices) satisfy the HOOI hypotheses *)
Example C06_hooi_nonvacuous :
  let s := [2;2] in let rs := [2;1] in
  let us := matsT Zops [mk [2;2] [0;1;-1;0]%Z; mk [2;1] [0;1]%Z] in
  let X := tfun Zops (mk [2;2] [1;2;3;4]%Z) in
  orthonormal Zops s rs us /\
  hooi_err2 Zops s rs X (project Zops s X us) = 10%Z /\
  dist2 Zops s X (tucker_entry Zops rs (project Zops s X us) us) = 10%Z.
Proof.
  cbv zeta. split; [| split; vm_compute; reflexivity].
  simpl. repeat split; intros a b Ha Hb;
    repeat (destruct a as [|a]; [|try lia]); repeat (destruct b as [|b]; [|try lia]); try lia; vm_compute; reflexivity.
Qed.

(* the composed theorem is not vacuous: a sign-flipping "normalisation" on Z is a rescaling, and a concrete run of the
   skeleton over Z (2x2 data, rank 1, line search + callback + normalisation) reports the residuals of its iterates *)
Example C06_cp_loop_nonvacuous :
  let s := [2;2] in let X := tfun Zops (mk [2;2] [1;2;3;4]%Z) in
  let flip : blocks (@blk Z) -> blocks (@blk Z) := fun st k i r => if (k =? 0) || (k =? 2) then (- st k i r)%Z else st k i r in
  let Orc := mkOracle (fun it m st i r => (Z.of_nat (it + m + i) + 1)%Z) flip (fun it _ st => st) (fun _ => true) (fun _ => false) (fun _ => false) in
  let C := mkConfig [0;1] 1 true false false true true true in
  let init : blocks (@blk Z) := fun _ _ _ => 1%Z in
  (forall st, rescaling Zops s 1 st (normalized Orc st)) /\ well_formed C /\
  errs (run (cp_fast Zops s X 1 true) (cp_err2 Zops s X 1) Orc C 2 init) = [7; 549]%Z.
Proof.
  cbv zeta. split; [|split; [repeat split; discriminate | vm_compute; reflexivity]].
  intros st. exists (fun _ => [-1; 1]%Z). split; intros r Hr.
  - cbn. repeat split; intros i _; match goal with |- context [st ?a ?b ?c] => destruct (st a b c) end; reflexivity.
  - unfold w_of. cbn. rewrite Z.mul_comm. cbn. reflexivity.
Qed.
(* PARAFAC2 identity on a concrete instance over Z: 2 slices of heights 2 and 3, rank 2, non-orthonormal projections *)
Example C06_parafac2_nonvacuous :
  let slices := [mk [2;2] [1;2;3;4]%Z; mk [3;2] [1;0;2;1;0;3]%Z] in
  let Ps := [mk [2;2] [1;1;0;1]%Z; mk [3;2] [1;0;0;1;1;1]%Z] in
  let A := mk [2;2] [1;2;1;1]%Z in let B := mk [2;2] [1;0;1;1]%Z in let C := mk [2;2] [1;1;0;1]%Z in
  p2_all Zops slices (Some [2;1]%Z) A B C Ps = (61, 61, 61, 45)%Z.
Proof. vm_compute. reflexivity. Qed.

(* tensor ring on a concrete instance over Z: order 3, bonds (2,1,2,2): sub-problem residual (mode 2) = ring residual *)
Example C06_tr_nonvacuous :
  let X := mk [2;2;2] [1;2;3;4;5;6;7;8]%Z in
  let cores := [mk [2;2;1] [1;2;0;1]%Z; mk [1;2;2] [1;0;2;1]%Z; mk [2;2;2] [1;0;0;1;1;1;0;2]%Z] in
  endbond 2 (map (fun c => (fst c, fun a b => snd c a 0 b)) (map (core_of Zops) cores)) = 2 /\
  let '(ls, t, nx) := tr_all Zops X cores in ls = t /\ nx = 204%Z.
Proof. vm_compute. repeat split. Qed.

(* a 0/1 mask satisfies the hypothesis of C06_masked_residual_is_observed_residual; the masked residual counts the observed entries only *)
Example C06_masked_nonvacuous :
  let X := mk [4] [1;2;3;4]%Z in let m := mk [4] [1;0;1;1]%Z in let L := tfun Zops (mk [4] [0;5;1;1]%Z) in
  (forall idx, inb (shape X) idx -> fmul Zops (tfun Zops m idx) (tfun Zops m idx) = tfun Zops m idx) /\
  fst (err_explicit Zops X L None (Some m)) = 14%Z.
Proof.
  cbv zeta. split; [|vm_compute; reflexivity].
  intros [|i [|j idx]] H; simpl in H; try tauto. destruct H as [H _].
  do 4 (destruct i as [|i]; [vm_compute; reflexivity|]). lia.
Qed.
(* the PARAFAC2 skeleton on a toy oracle that rejects every jump: 7 iterations, 7 values, the last one belongs to the returned
   iterate; with the behaviour before the fix: 6 values, the last one belongs to the iterate of iteration 6 *)
Example C06_parafac2_skeleton_nonvacuous :
  p2_loop (fun st : nat => st) toy_p2 true false false 7 0 0 [] = (7, [1; 2; 3; 4; 5; 6; 7]) /\
  p2_loop (fun st : nat => st) toy_p2 true false true 7 0 0 [] = (7, [1; 2; 3; 4; 5; 6]).
Proof. exact p2_skeleton_nonvacuous. Qed.

(* the reported-value theorems are not vacuous: a 1-entry "tensor" 3 approximated by the rank-1 CP value 1: reported = 2/3 *)
Example C06_reported_nonvacuous : reported 4 9 = (2 / 3)%R /\ rel_error 4 9 = (2 / 3)%R.
Proof.
  unfold reported, rel_error. rewrite Rabs_pos_eq by lra.
  replace 4%R with (2 * 2)%R by ring. replace 9%R with (3 * 3)%R by ring. rewrite !sqrt_square by lra. split; reflexivity.
Qed.
Example C06_explicit_loop_nonvacuous :
  s_loop (fun st : nat => st) toy_s true true 5 0 0 [] = (2, [1; 2]) /\ s_loop (fun st : nat => st) toy_s false true 5 0 0 [] = (2, [1]).
Proof. exact s_loop_nonvacuous. Qed.

(* the transcription of cp_normalize computes: a column (3, 4) has norm 5 *)
Example C06_colnorm_nonvacuous : colnorm [2%nat] (fun _ i _ => match i with 0%nat => 3%R | _ => 4%R end) 0 0 = 5%R.
Proof. exact colnorm_3_4. Qed.

(* the absorption step of cp_normalize matters for non-positive incoming weights: weight -2, factor-0 column (3, 4): the weights restart
   from 1 and factor 0 becomes (-6, -8) before the column normalisation (weight 10, column (-3/5, -4/5) afterwards) *)
Example C06_cp_normalize_negative_weight :
  let st : blocks (@blk R) := fun k i _ => match k with 0%nat => (match i with 0%nat => 3%R | _ => 4%R end) | 1%nat => 1%R | _ => (-2)%R end in
  w_of [2%nat; 1%nat] (absorb_weights [2%nat; 1%nat] st) 0%nat = 1%R /\
  absorb_weights [2%nat; 1%nat] st 0%nat 0%nat 0%nat = (-6)%R /\ absorb_weights [2%nat; 1%nat] st 0%nat 1%nat 0%nat = (-8)%R.
Proof. exact cp_normalize_negative_weight. Qed.

(* round 8 -- tensor_ring_als ON DATA, first universal step towards "tr_residual2_data = ls_residual2" (which the correspondence checks per
   instance, kind KTRData): the design matrix of Model/Errors.v:tr_design_data is the transposed, reshaped SUB-CHAIN tensor, and that tensor
   - built as in _tr_als.py by  subchain = tr_decomp[(dim+1) % N]; for j in 2..N-1: subchain = tensordot(subchain, tr_decomp[(dim+j) % N], axes=1)
   - has shape (r_0, n_1 .. n_{N-1}, r_end) and, at every in-bounds index (a, j_1 .. j_{N-1}, b), the entry
   chain (slices_at cores [j_1 .. j_{N-1}]) a b, the matrix-chain product the trace-cyclicity theorems (C06_tr_als_residual_is_ring_error) are
   about: for EVERY commutative ring, every number of cores N >= 2, every mode dim and all mode / bond dimensions whose consecutive bonds
   match (`bonds`).  NOT covered here: the transposition by tr_idx, the two reshapes and the matmul (checked per instance by KTRData). *)
Theorem C06_tr_subchain_on_data_is_chain_product : forall (F : Type) (Op : fops F),
  ring_theory (f0 Op) (f1 Op) (fadd Op) (fmul Op) (fsub Op) (fopp Op) (@eq F) ->
  forall (cores : list (tensor F)) (dim r0 rend : nat) (ms : list nat),
  2 <= length cores ->
  bonds r0 (tr_chain_cores cores dim) ms rend ->
  tr_design_data Op cores dim =
    (let subT := transpose (f0 Op) (tr_idx (length cores) dim) (tr_subchain_data Op cores dim) in
     let cols := nth 0 (shape (nth dim cores (mk [] []))) 0 * nth 2 (shape (nth dim cores (mk [] []))) 0 in
     reshape [prod (shape subT) / cols; cols] subT) /\
  shape (tr_subchain_data Op cores dim) = r0 :: ms ++ [rend] /\
  forall a js b, inb (r0 :: ms ++ [rend]) (a :: js ++ [b]) ->
    get (f0 Op) (tr_subchain_data Op cores dim) (a :: js ++ [b]) = chain Op (slices_at (cores_of Op (tr_chain_cores cores dim)) js) a b.
Proof.
  intros F Op Rth cores dim r0 rend ms HN Hb. split; [apply tr_design_data_uses_subchain |].
  exact (tr_subchain_data_is_chain Op Rth cores dim r0 rend ms HN Hb).
Qed.
Print Assumptions C06_tr_subchain_on_data_is_chain_product.
(* non-vacuity: three integer cores of shapes (2,3,2), (2,2,2), (2,4,2), mode 0: the hypotheses hold and an in-bounds index exists; the entry
   computed on data and the chain product agree on it (both sides evaluated) *)
Example C06_tr_subchain_nonvacuous :
  let cores := [tabulate [2; 3; 2] (fun idx => Z.of_nat (1 + ravel [2; 3; 2] idx)); tabulate [2; 2; 2] (fun idx => Z.sub (Z.of_nat (ravel [2; 2; 2] idx)) 3%Z);
                tabulate [2; 4; 2] (fun idx => Z.of_nat (2 * ravel [2; 4; 2] idx))] in
  2 <= length cores /\ bonds 2 (tr_chain_cores cores 0) [2; 4] 2 /\ inb (2 :: [2; 4] ++ [2]) (1 :: [1; 3] ++ [0]) /\
  get (f0 Zops) (tr_subchain_data Zops cores 0) (1 :: [1; 3] ++ [0]) = chain Zops (slices_at (cores_of Zops (tr_chain_cores cores 0)) [1; 3]) 1 0 /\
  get (f0 Zops) (tr_subchain_data Zops cores 0) (1 :: [1; 3] ++ [0]) <> 0%Z.
Proof.
  cbv zeta. split; [cbn; lia |]. split; [cbn; eexists; split; [reflexivity |]; eexists; split; [reflexivity |]; reflexivity |].
  split; [cbn; lia |]. split; [vm_compute; reflexivity | vm_compute; discriminate].
Qed.
