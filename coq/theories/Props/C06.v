(* C06 -- property theorems only.  Ring regime: every statement holds over EVERY commutative ring
   (carrier F with the operations of an `fops` record satisfying ring_theory; instances: Z, R),
   for every order / shape / rank / weights / factors, with no size bound. *)
From Coq Require Import List Arith ZArith Reals Bool Ring Lia.
From TLV Require Import Base.Shape Base.PyList Base.Tensor Base.BigSum Base.Ops Model.Errors
     Proofs.ErrorsProofs Proofs.ErrorsSkeleton.
Import ListNotations.

(* squared-error expansion over an arbitrary index space:  sum (X - Y)^2 = sum X^2 + sum Y^2 - 2 sum X Y *)
Theorem C06_sq_expansion : forall (F : Type) (Op : fops F),
  ring_theory (f0 Op) (f1 Op) (fadd Op) (fmul Op) (fsub Op) (fopp Op) (@eq F) ->
  forall (s : list nat) (X Y : list nat -> F),
  dist2 Op s X Y = fsub Op (fadd Op (normsq Op s X) (normsq Op s Y)) (fmul Op (two Op) (inner Op s X Y)).
Proof. exact @sq_expansion. Qed.
Print Assumptions C06_sq_expansion.

(* <X, [[w; A_0..A_{N-1}]]> = sum(sum(MTTKRP_n * A_n, axis=0) * v)  for every order, every mode n,
   the MTTKRP carrying weights u with u_r v_r = w_r (error_calc / HALS: u = w, v = 1; constrained CP: u = 1, v = w) *)
Theorem C06_inner_product_mttkrp : forall (F : Type) (Op : fops F),
  ring_theory (f0 Op) (f1 Op) (fadd Op) (fmul Op) (fsub Op) (fopp Op) (@eq F) ->
  forall (s : list nat) (X : list nat -> F) (R : nat) (w u v : nat -> F) (cols : nat -> list (nat -> F)) (n : nat),
  n < length s -> (forall r, r < R -> length (cols r) = length s) -> (forall r, r < R -> fmul Op (u r) (v r) = w r) ->
  inner Op s X (cp_entry Op R w cols) = iprod Op s R (mttkrp Op s X u cols n) v cols n.
Proof. exact @inner_mttkrp. Qed.
Print Assumptions C06_inner_product_mttkrp.

(* cp_norm^2 is the squared norm of the reconstruction *)
Theorem C06_cp_normsq : forall (F : Type) (Op : fops F),
  ring_theory (f0 Op) (f1 Op) (fadd Op) (fmul Op) (fsub Op) (fopp Op) (@eq F) ->
  forall (s : list nat) (R : nat) (w : nat -> F) (cols : nat -> list (nat -> F)),
  (forall r, r < R -> length (cols r) = length s) ->
  normsq Op s (cp_entry Op R w cols) = cp_normsq Op s R w cols.
Proof. exact @cp_normsq_correct. Qed.
Print Assumptions C06_cp_normsq.

(* the quantity under error_calc's sqrt(abs(.)) IS the squared residual recomputed from scratch *)
Theorem C06_error_calc_shortcut : forall (F : Type) (Op : fops F),
  ring_theory (f0 Op) (f1 Op) (fadd Op) (fmul Op) (fsub Op) (fopp Op) (@eq F) ->
  forall (s : list nat) (X : list nat -> F) (R : nat) (w u v : nat -> F) (cols : nat -> list (nat -> F)) (n : nat),
  n < length s -> (forall r, r < R -> length (cols r) = length s) -> (forall r, r < R -> fmul Op (u r) (v r) = w r) ->
  err2_fast Op s X R w u v cols n = err2_true Op s X R w cols.
Proof. exact @err2_fast_correct. Qed.
Print Assumptions C06_error_calc_shortcut.

(* the MTTKRP of mode n may be computed BEFORE factor n is overwritten: it does not read factor n *)
Theorem C06_mttkrp_ignores_own_mode : forall (F : Type) (Op : fops F)
  (s : list nat) (X : list nat -> F) (u : nat -> F) (cols cols' : nat -> list (nat -> F)) (n i r : nat),
  length (cols r) = length (cols' r) ->
  (forall k, k <> n -> nth k (cols r) (fun _ => f0 Op) = nth k (cols' r) (fun _ => f0 Op)) ->
  mttkrp Op s X u cols n i r = mttkrp Op s X u cols' n i r.
Proof. exact @mttkrp_ignores_own_mode. Qed.
Print Assumptions C06_mttkrp_ignores_own_mode.

(* HOOI: || X - G x_k U_k ||^2 = ||X||^2 - ||G||^2 for column-orthonormal factors and G = X x_k U_k^T, every order *)
Theorem C06_hooi_error_identity : forall (F : Type) (Op : fops F),
  ring_theory (f0 Op) (f1 Op) (fadd Op) (fmul Op) (fsub Op) (fopp Op) (@eq F) ->
  forall (s rs : list nat) (X G : list nat -> F) (us : list (nat -> nat -> F)),
  orthonormal Op s rs us -> (forall j, inb rs j -> G j = project Op s X us j) ->
  dist2 Op s X (tucker_entry Op rs G us) = hooi_err2 Op s rs X G.
Proof. exact @hooi_error_identity. Qed.
Print Assumptions C06_hooi_error_identity.

(* loop skeleton: for EVERY decision sequence (oracle) every reported / callback value is the error of the
   iterate it is emitted in, and the last reported value is the error of the returned iterate *)
Theorem C06_skeleton_reports_belong_to_their_state : forall (B E T : Type) (repr : blocks B -> T) (errT : T -> E)
  (fast : blocks B -> nat * blocks B -> nat -> E) (explicit : blocks B -> E) (Orc : oracle B) (C : config),
  (forall cur k snap, (forall j, j <> k -> snap j = cur j) -> fast cur (k, snap) k = errT (repr cur)) ->
  (forall st, explicit st = errT (repr st)) ->
  (forall st, repr (normalized Orc st) = repr st) ->
  well_formed C ->
  forall (n : nat) (init : blocks B),
  let l := run fast explicit Orc C n init in
  Forall (good_event B E T repr errT) (trace l) /\
  last_report_ok B E T repr errT l /\
  last (trace l) EBreak = EReturn (cur l).
Proof. exact @skeleton_sound. Qed.
Print Assumptions C06_skeleton_reports_belong_to_their_state.

(* the two historical orderings are NOT sound: the same skeleton with the report of line-search iterations
   switched off (the behaviour before fix 4551953), resp. with the normalisation moved in front of the error
   computation, reports a value that is not the error of the returned iterate *)
Theorem C06_skeleton_without_linesearch_report_refuted :
  exists (Orc : oracle nat) (C : config) (n : nat) (init : blocks nat),
    report_linesearch C = false /\
    ~ last_report_ok nat nat nat toy_repr (fun x => x) (run toy_fast toy_explicit Orc C n init).
Proof. exact skeleton_linesearch_refuted. Qed.
Print Assumptions C06_skeleton_without_linesearch_report_refuted.

Theorem C06_skeleton_normalize_before_error_refuted :
  exists (Orc : oracle nat) (C : config) (n : nat) (init : blocks nat),
    norm_before_error C = true /\
    ~ Forall (good_event nat nat nat toy_repr (fun x => x)) (trace (run toy_fast toy_explicit Orc C n init)).
Proof. exact skeleton_normalize_before_refuted. Qed.
Print Assumptions C06_skeleton_normalize_before_error_refuted.

(* ---- non-vacuity: the hypotheses are satisfiable and the model computes *)
Example C06_ring_Z : ring_theory (f0 Zops) (f1 Zops) (fadd Zops) (fmul Zops) (fsub Zops) (fopp Zops) (@eq Z).
Proof. exact Zth. Qed.
Example C06_ring_R : ring_theory (f0 Rops) (f1 Rops) (fadd Rops) (fmul Rops) (fsub Rops) (fopp Rops) (@eq R).
Proof. exact RTheory. Qed.
(* a 2x3x2 integer tensor, rank 2, non-unit weights: shortcut (MTTKRP of the last mode) = residual from scratch = 296 *)
Example C06_shortcut_nonvacuous :
  let X := mk [2;3;2] [1;2;3;4;5;6;7;8;9;10;11;12]%Z in
  let fs := [mk [2;2] [1;0;1;1]%Z; mk [3;2] [1;2;0;1;1;1]%Z; mk [2;2] [1;1;2;0]%Z] in
  let w := Some [2;3]%Z in
  fst (err_shortcut Zops X 2 w fs 2) = fst (err_cp_true Zops X 2 w fs None None) /\
  fst (err_shortcut Zops X 2 w fs 2) = 296%Z /\ fst (err_shortcut Zops X 2 w fs 0) = 296%Z.
Proof. vm_compute. repeat split. Qed.
(* orthonormal integer factors (signed permutation matrices) satisfy the HOOI hypotheses *)
Example C06_hooi_nonvacuous :
  let s := [2;2] in let rs := [2;1] in
  let us := matsT Zops [mk [2;2] [0;1;-1;0]%Z; mk [2;1] [0;1]%Z] in
  let X := tfun Zops (mk [2;2] [1;2;3;4]%Z) in
  orthonormal Zops s rs us /\
  hooi_err2 Zops s rs X (project Zops s X us) = 10%Z /\
  dist2 Zops s X (tucker_entry Zops rs (project Zops s X us) us) = 10%Z.
Proof.
  cbv zeta. split; [| split; vm_compute; reflexivity].
  simpl. repeat split; intros a b Ha Hb;
    repeat (destruct a as [|a]; [|try lia]); repeat (destruct b as [|b]; [|try lia]); try lia; vm_compute; reflexivity.
Qed.
