(* C07 -- property theorems only.  Statements are about the model of the exact block updates
   (Model/Descent.v) instantiated at the reals (Rops); the correspondence executes the same
   definitions at Qops on states captured from the implementation. *)
From Coq Require Import Reals List Arith Lia Lra QArith.
From TLV Require Import Base.Shape Base.PyList Base.Tensor Base.Ops Base.RSum Model.Descent
  Model.DescentReport Proofs.DescentProofs Proofs.DescentProofsHals Proofs.DescentProofsLink Proofs.DescentProofsOrth Proofs.DescentProofsNorm Proofs.DescentProofsNN Proofs.DescentProofsReg Proofs.DescentProofsTucker Proofs.DescentProofsCmtf Proofs.DescentProofsTkReg Proofs.DescentProofsTR Proofs.DescentProofsUnfold
  Proofs.DescentProofsSpec Proofs.DescentProofsSweeps Proofs.DescentProofsSweeps2 Proofs.DescentProofsReport Proofs.DescentProofsP2Tie Proofs.DescentProofsStatic Proofs.DescentProofsNNNorm
  Model.DescentModes Proofs.DescentProofsModes Proofs.DescentProofsR6 Model.DescentLoop Proofs.DescentProofsLoop Proofs.DescentProofsCmtf2 Proofs.DescentProofsR7.
Import ListNotations.
Open Scope R_scope.

(* (ii) Khatri-Rao Gram identity, all orders: the rows of the Khatri-Rao product of the factors other than k
   that belong to slice i of mode k have the Hadamard product of the Gram matrices as Gram matrix *)
Theorem C07_kr_gram_multi : forall (X : tensor R) (facs : list (list (list R))) (k : nat),
  (k < length (shape X))%nat -> (k < length facs)%nat ->
  forall i r t : nat, (i < nth k (shape X) 0)%nat ->
  rsum_idx (shape X) (fun idx => delta (nth k idx 0%nat) i * (cp_term_skip Rops facs k r idx * cp_term_skip Rops facs k t idx))
  = hadamard_grams Rops (shape X) facs k r t.
Proof. exact kr_gram_multi. Qed.
Print Assumptions C07_kr_gram_multi.

(* the same identity for two factors in its classical row-indexed form (k = i*J + j), over any commutative ring *)
Theorem C07_kr_gram_pair : forall (T : Type) (rO rI : T) (radd rmul rsub : T -> T -> T) (ropp : T -> T),
  ring_theory rO rI radd rmul rsub ropp eq ->
  forall (I J : nat) (A B : nat -> nat -> T) (r s : nat), J <> 0%nat ->
  gram2 T rO radd rmul (I * J) (kr2 T rmul J A B) r s = rmul (gram2 T rO radd rmul I A r s) (gram2 T rO radd rmul J B r s).
Proof. exact kr_gram_pair. Qed.
Print Assumptions C07_kr_gram_pair.

(* (i) CP-ALS block, all orders / ranks / weights (zero weights included) / ridge l2_reg >= 0:
   a factor x that satisfies the linear system the code solves,  x * [w (.) (Hadamard of Grams + l2_reg I) (.) w] = MTTKRP,
   minimises the block objective  ||X - [[w; A_0,..,x,..]]||^2 + l2_reg ||x diag(w)||^2  over ALL matrices z *)
Theorem C07_cp_block_minimises : forall (X : tensor R) (w : list R) (facs : list (list (list R))) (k : nat) (lam : R) (rank : nat),
  (k < length (shape X))%nat -> (k < length facs)%nat ->
  forall x z : list (list R), 0 <= lam ->
  (forall i r : nat, (i < nth k (shape X) 0)%nat -> (r < rank)%nat ->
     cp_cert_lhs Rops (shape X) w facs k lam rank x i r = cp_mttkrp Rops X w facs k i r) ->
  cp_obj Rops X w (set_nth k x facs) k lam rank <= cp_obj Rops X w (set_nth k z facs) k lam rank.
Proof. exact cp_block_minimises. Qed.
Print Assumptions C07_cp_block_minimises.

(* hence the block update does not increase the objective *)
Theorem C07_cp_block_descent : forall (X : tensor R) (w : list R) (lam : R) (rank : nat) (facs : list (list (list R))) (k : nat) (x : list (list R)),
  (k < length (shape X))%nat -> (k < length facs)%nat -> 0 <= lam ->
  (forall i r : nat, (i < nth k (shape X) 0)%nat -> (r < rank)%nat ->
     cp_cert_lhs Rops (shape X) w facs k lam rank x i r = cp_mttkrp Rops X w facs k i r) ->
  cp_obj Rops X w (set_nth k x facs) k lam rank <= cp_obj Rops X w facs k lam rank.
Proof. exact cp_block_descent. Qed.
Print Assumptions C07_cp_block_descent.

(* (iii) a sweep is a composition of blocks: for EVERY list of modes (any order, repetitions, fixed modes left out)
   the objective (with the ridge terms of all modes) after the sweep is not larger than before it; the linear solver is an
   oracle whose contract (the certificate) is only required at the states the sweep actually visits *)
Theorem C07_cp_sweep_descent : forall (X : tensor R) (w : list R) (lam : R) (rank : nat)
  (solve : list (list R) -> list (list R) -> list (list R)),
  0 <= lam -> forall (modes : list nat) (facs : list (list (list R))),
  sweep_ok X w lam rank solve modes facs ->
  cp_obj_all Rops X w (cp_sweep Rops solve X w lam rank modes facs) lam rank <= cp_obj_all Rops X w facs lam rank.
Proof. exact cp_sweep_descent. Qed.
Print Assumptions C07_cp_sweep_descent.

(* consequently the objective values after sweeps 0,1,2,... form a non-increasing sequence, for every run length *)
Theorem C07_cp_history_monotone : forall (X : tensor R) (w : list R) (lam : R) (rank : nat)
  (solve : list (list R) -> list (list R) -> list (list R)) (modes : list nat) (facs : list (list (list R))) (n : nat),
  0 <= lam ->
  run_ok (list (list (list R))) (cp_sweep Rops solve X w lam rank modes) (sweep_ok X w lam rank solve modes) n facs ->
  forall i j : nat, (i <= j)%nat -> (j <= n)%nat ->
  cp_obj_all Rops X w (Nat.iter j (cp_sweep Rops solve X w lam rank modes) facs) lam rank
  <= cp_obj_all Rops X w (Nat.iter i (cp_sweep Rops solve X w lam rank modes) facs) lam rank.
Proof. exact cp_history_monotone. Qed.
Print Assumptions C07_cp_history_monotone.

(* generic form used for every algorithm of the property: steps that descend under their side condition give
   non-increasing histories; an extrapolated (line-search) iterate is kept only if it beats the previous error *)
Theorem C07_history_monotone : forall (St : Type) (f : St -> R) (step : St -> St) (ok : St -> Prop),
  (forall s : St, ok s -> f (step s) <= f s) ->
  forall (n : nat) (s : St), run_ok St step ok n s ->
  forall i j : nat, (i <= j)%nat -> (j <= n)%nat -> f (Nat.iter j step s) <= f (Nat.iter i step s).
Proof. exact history_monotone. Qed.
Print Assumptions C07_history_monotone.

Theorem C07_linesearch_descent : forall (St : Type) (f : St -> R) (prev : R) (s_als s_jump : St),
  f s_als <= prev -> f (ls_choose St f prev s_als s_jump) <= prev.
Proof. exact linesearch_descent. Qed.
Print Assumptions C07_linesearch_descent.

(* (ii') HALS NNLS: for a symmetric G with non-negative diagonal, ridge >= 0, any l1, any epsilon, any right-hand side,
   any number of rows / columns: a pass of row updates (rows with G[k,k] = 0 skipped) keeps the iterate feasible
   (>= epsilon) and never increases  sum_c ( v_c' G v_c / 2 - b_c' v_c + l1 sum v_c + l2 |v_c|^2 ) *)
Theorem C07_hals_pass_descent : forall (G B : list (list R)) (l1 l2 eps : R) (rank ncols : nat),
  (forall i j : nat, mget Rops G i j = mget Rops G j i) ->
  (forall k : nat, 0 <= mget Rops G k k) -> 0 <= l2 ->
  forall V : list (list R), length V = rank -> feasible eps rank ncols V ->
  let V' := hals_pass Rops G B l1 l2 eps rank ncols V in
  length V' = rank /\ feasible eps rank ncols V' /\
  hals_obj Rops G B V' l1 l2 rank ncols <= hals_obj Rops G B V l1 l2 rank ncols.
Proof. exact hals_pass_descent. Qed.
Print Assumptions C07_hals_pass_descent.

Theorem C07_hals_history_monotone : forall (G B : list (list R)) (l1 l2 eps : R) (rank ncols : nat),
  (forall i j : nat, mget Rops G i j = mget Rops G j i) ->
  (forall k : nat, 0 <= mget Rops G k k) -> 0 <= l2 ->
  forall (V : list (list R)) (n : nat), length V = rank -> feasible eps rank ncols V ->
  hals_obj Rops G B (hals_iter Rops G B l1 l2 eps rank ncols (S n) V) l1 l2 rank ncols
  <= hals_obj Rops G B (hals_iter Rops G B l1 l2 eps rank ncols n V) l1 l2 rank ncols.
Proof. exact hals_history_monotone. Qed.
Print Assumptions C07_hals_history_monotone.

(* generic ridge least-squares block with several right-hand sides (tensor-ring ALS cores, regressor factors,
   coupled matrix-tensor blocks): a solution of the normal equations minimises the block objective *)
Theorem C07_ls_block_minimises : forall (A Y X Z : list (list R)) (lam : R) (m n p : nat), 0 <= lam ->
  (forall j c : nat, (j < n)%nat -> (c < p)%nat -> ls_normal_lhs Rops A Y X m n j c = lam * mget Rops X j c) ->
  ls_obj_m Rops A Y X lam m n p <= ls_obj_m Rops A Y Z lam m n p.
Proof. exact ls_block_minimises. Qed.
Print Assumptions C07_ls_block_minimises.

(* parafac(normalize_factors=True).  Replacing the weights and factor k so that every product weight * entry is kept leaves
   the squared error unchanged (all orders) ... *)
Theorem C07_cp_sqerr_reweight : forall (X : tensor R) (rank : nat) (w w' : list R) (facs : list (list (list R))) (k : nat) (A' : list (list R)),
  (k < length (shape X))%nat -> (k < length facs)%nat ->
  (forall i r : nat, (i < nth k (shape X) 0)%nat -> (r < rank)%nat ->
     vget Rops w' r * mget Rops A' i r = vget Rops w r * mget Rops (nth k facs nil) i r) ->
  cp_sqerr Rops X w' (set_nth k A' facs) rank = cp_sqerr Rops X w facs rank.
Proof. exact cp_sqerr_reweight. Qed.
Print Assumptions C07_cp_sqerr_reweight.

(* ... hence cp_normalize (weights absorbed into factor 0, then every mode rescaled by its column norms; contract on the
   norms handed in: divisor non-zero, equal to the multiplier except on an all-zero column whose multiplier is 0) does not change
   the objective, for every order, rank and state *)
Theorem C07_cp_normalize_invariant : forall (X : tensor R) (rank : nat) (norms : nat -> cpstate -> list R * list R) (st : list R * list mat),
  (0 < length (shape X))%nat -> length (snd st) = length (shape X) ->
  normalize_ok X rank norms (seq 0 (length (shape X))) (cp_absorb0 Rops (shape X) rank st) ->
  sq X rank (cp_normalize_m Rops (shape X) rank norms st) = sq X rank st.
Proof. exact cp_normalize_invariant. Qed.
Print Assumptions C07_cp_normalize_invariant.

(* one iteration 'blocks with the current weights, then cp_normalize' does not increase ||X - [[w; A..]]||^2 (l2_reg = 0),
   and the objective values after 0,1,2,... such iterations are non-increasing *)
Theorem C07_cp_sweep_norm_descent : forall (X : tensor R) (rank : nat) (norms : nat -> cpstate -> list R * list R)
  (solve : list (list R) -> list (list R) -> list (list R)) (modes : list nat) (st : cpstate),
  sweep_norm_ok X rank norms solve modes st ->
  sq X rank (cp_sweep_norm Rops solve X 0 rank norms modes st) <= sq X rank st.
Proof. exact cp_sweep_norm_descent. Qed.
Print Assumptions C07_cp_sweep_norm_descent.

Theorem C07_cp_norm_history_monotone : forall (X : tensor R) (rank : nat) (norms : nat -> cpstate -> list R * list R)
  (solve : list (list R) -> list (list R) -> list (list R)) (modes : list nat) (st : cpstate) (n : nat),
  run_ok cpstate (cp_sweep_norm Rops solve X 0 rank norms modes) (sweep_norm_ok X rank norms solve modes) n st ->
  forall i j : nat, (i <= j)%nat -> (j <= n)%nat ->
  sq X rank (Nat.iter j (cp_sweep_norm Rops solve X 0 rank norms modes) st) <= sq X rank (Nat.iter i (cp_sweep_norm Rops solve X 0 rank norms modes) st).
Proof. exact cp_norm_history_monotone. Qed.
Print Assumptions C07_cp_norm_history_monotone.

(* (ii'') HALS non-negative CP (non_negative_parafac_hals): the block objective IS the HALS objective.  For every order, rank,
   weights and factor A of mode k:  ||X - [[w; ..A..]]||^2 / 2 + l1 sum(A) + l2 ||A||^2
   = ||X||^2 / 2 + hals_obj(G, B, A') with G = w (.) Hadamard of Grams (.) w and B = MTTKRP' (what the code passes to hals_nnls) *)
Theorem C07_cp_pen_obj_is_hals : forall (X : tensor R) (w : list R) (facs : list (list (list R))) (k rank : nat) (l1 l2 : R),
  (k < length (shape X))%nat -> (k < length facs)%nat ->
  forall A : list (list R),
  cp_pen_obj Rops X w (set_nth k A facs) k l1 l2 rank
  = rsum (prod (shape X)) (fun o => (nth o (data X) 0)^2) / 2
    + hals_obj Rops (cp_G_mat Rops (shape X) w facs k 0 rank) (cp_hals_B Rops X w facs k rank)
               (mat_T Rops (nth k (shape X) 0%nat) rank A) l1 l2 rank (nth k (shape X) 0%nat).
Proof. exact cp_pen_obj_is_hals. Qed.
Print Assumptions C07_cp_pen_obj_is_hals.

(* hence ANY number n of HALS passes on mode k, started from the current factor (entries >= epsilon), never increases
   ||X - [[w; A..]]||^2 / 2 + l1 sum(A_k) + l2 ||A_k||^2 : no hypothesis on the other factors or the weights
   (symmetry and non-negative diagonal of the system are proved, zero diagonal entries are skipped by the pass) *)
Theorem C07_cp_hals_block_descent : forall (X : tensor R) (w : list R) (facs : list (list (list R))) (k rank : nat) (l1 l2 eps : R) (n : nat),
  (k < length (shape X))%nat -> (k < length facs)%nat -> 0 <= l2 ->
  (forall i r : nat, (i < nth k (shape X) 0)%nat -> (r < rank)%nat -> eps <= mget Rops (nth k facs []) i r) ->
  cp_pen_obj Rops X w (cp_hals_block Rops X w rank l1 l2 eps n facs k) k l1 l2 rank <= cp_pen_obj Rops X w facs k l1 l2 rank.
Proof. intros X w facs k rank l1 l2 eps n Hk Hf. exact (cp_hals_block_descent X w facs k rank l1 l2 Hk Hf eps n). Qed.
Print Assumptions C07_cp_hals_block_descent.

(* whole sweeps of non_negative_parafac_hals: ANY list of blocks, each an exact solve (unconstrained mode, no sparsity on it)
   or n HALS passes (non-negative mode, its own sparsity coefficient); side conditions (solve certificate / entries >= epsilon)
   only at the visited states.  The sweep never increases  ||X - [[w; A..]]||^2 / 2 + sum_j sparsity_j * sum(A_j),
   and the values after 0,1,2,... sweeps are non-increasing *)
Theorem C07_nn_sweep_descent : forall (X : tensor R) (w : list R) (rank : nat) (l1s : list R) (eps : R)
  (solve : list (list R) -> list (list R) -> list (list R)) (blocks : list (nat * blockkind)) (facs : list (list (list R))),
  nn_sweep_ok X w rank l1s eps solve blocks facs ->
  nn_obj Rops X w (nn_sweep Rops solve X w rank l1s eps blocks facs) l1s rank <= nn_obj Rops X w facs l1s rank.
Proof. exact nn_sweep_descent. Qed.
Print Assumptions C07_nn_sweep_descent.

Theorem C07_nn_history_monotone : forall (X : tensor R) (w : list R) (rank : nat) (l1s : list R) (eps : R)
  (solve : list (list R) -> list (list R) -> list (list R)) (blocks : list (nat * blockkind)) (facs : list (list (list R))) (n : nat),
  run_ok (list (list (list R))) (nn_sweep Rops solve X w rank l1s eps blocks) (nn_sweep_ok X w rank l1s eps solve blocks) n facs ->
  forall i j : nat, (i <= j)%nat -> (j <= n)%nat ->
  nn_obj Rops X w (Nat.iter j (nn_sweep Rops solve X w rank l1s eps blocks) facs) l1s rank
  <= nn_obj Rops X w (Nat.iter i (nn_sweep Rops solve X w rank l1s eps blocks) facs) l1s rank.
Proof. exact nn_history_monotone. Qed.
Print Assumptions C07_nn_history_monotone.

(* HOOI (partial_tucker) and PARAFAC2 (_compute_projections): the algebra for matrices with orthonormal columns; in the _partial
   theorems the optimality of the SVD answer is a NAMED HYPOTHESIS (Ky Fan's maximum principle / orthogonal Procrustes).  Round 5 proves
   both principles from spectral certificates (C07_ky_fan_bound, C07_procrustes_bound below): the _partial theorems are kept, the
   certificate versions C07_hooi_block_descent, C07_hooi_unfolding_block_descent, C07_parafac2_projection_descent supersede them. *)
Theorem C07_hooi_residual : forall (m r p : nat) (U Y : fmat), orthonormal m r U ->
  frob2 m p (msub Y (mmul r U (mmul m (mT U) Y))) = frob2 m p Y - frob2 r p (mmul m (mT U) Y).
Proof. exact hooi_residual. Qed.
Print Assumptions C07_hooi_residual.

Theorem C07_hooi_block_descent_partial : forall (m r p : nat) (Uold Unew Y : fmat),
  orthonormal m r Uold -> orthonormal m r Unew ->
  (forall W : fmat, orthonormal m r W -> frob2 r p (mmul m (mT W) Y) <= frob2 r p (mmul m (mT Unew) Y)) ->
  frob2 m p (msub Y (mmul r Unew (mmul m (mT Unew) Y))) <= frob2 m p (msub Y (mmul r Uold (mmul m (mT Uold) Y))).
Proof. exact hooi_block_descent_partial. Qed.
Print Assumptions C07_hooi_block_descent_partial.

Theorem C07_parafac2_residual : forall (J R' K : nat) (P X M : fmat), orthonormal J R' P ->
  frob2 J K (msub X (mmul R' P M)) = frob2 J K X - 2 * minner J R' P (mmul K X (mT M)) + frob2 R' K M.
Proof. exact parafac2_residual. Qed.
Print Assumptions C07_parafac2_residual.

Theorem C07_parafac2_projection_descent_partial : forall (J R' K : nat) (Pold Pnew X M : fmat),
  orthonormal J R' Pold -> orthonormal J R' Pnew ->
  (forall W : fmat, orthonormal J R' W -> minner J R' W (mmul K X (mT M)) <= minner J R' Pnew (mmul K X (mT M))) ->
  frob2 J K (msub X (mmul R' Pnew M)) <= frob2 J K (msub X (mmul R' Pold M)).
Proof. exact parafac2_projection_descent_partial. Qed.
Print Assumptions C07_parafac2_projection_descent_partial.

(* ridge ALS of the CP regressor (scalar responses).  The prediction <X_s, [[w; W..]]> is linear in the factor being updated,
   with the MTTKRP of the sample as coefficients (all orders): the block's design matrix consists of flattened MTTKRPs ... *)
Theorem C07_cp_inner_linear : forall (X : tensor R) (w : list R) (facs : list (list (list R))) (k rank : nat) (A : list (list R)),
  (k < length (shape X))%nat -> (k < length facs)%nat ->
  cp_inner Rops X w (set_nth k A facs) rank
  = rsum (nth k (shape X) 0%nat) (fun i => rsum rank (fun r => mget Rops A i r * cp_mttkrp Rops X w facs k i r)).
Proof. exact cp_inner_linear. Qed.
Print Assumptions C07_cp_inner_linear.

(* ... hence a factor satisfying the block's normal equations (what tl.solve(phi'phi + reg I, phi'y) certifies) minimises
   ||y - predictions||^2 + reg ||W_k||_F^2 over ALL matrices, for every number of samples, order, rank >= 1 and reg >= 0 *)
Theorem C07_cpreg_block_minimises : forall (Xsl : list (tensor R)) (ysl : list R) (sh : list nat) (w : list R) (facs : list (list (list R)))
  (k rank : nat) (reg : R) (A Z : list (list R)),
  (forall X : tensor R, In X Xsl -> shape X = sh) -> (k < length sh)%nat -> (k < length facs)%nat -> (0 < rank)%nat -> 0 <= reg ->
  (forall i r : nat, (i < nth k sh 0)%nat -> (r < rank)%nat ->
     cpreg_normal_lhs Rops Xsl ysl w facs k rank A i r = reg * mget Rops A i r) ->
  cpreg_obj Rops Xsl ysl w (set_nth k A facs) k (nth k sh 0%nat) rank reg
  <= cpreg_obj Rops Xsl ysl w (set_nth k Z facs) k (nth k sh 0%nat) rank reg.
Proof. exact cpreg_block_minimises_l. Qed.
Print Assumptions C07_cpreg_block_minimises.

(* Tucker objective, all orders and mode subsets (an undecomposed mode carries the identity): if every factor has orthonormal
   columns then  ||X - core x_k U_k||^2 = ||X||^2 - ||core||^2  for  core = X x_k U_k'  (the Kronecker product of matrices with
   orthonormal columns has orthonormal columns) - this is the error formula partial_tucker reports *)
Theorem C07_tucker_residual : forall (X : tensor R) (rs : list nat) (Us : list (list (list R))),
  orth_all (shape X) rs Us ->
  tk_hooi_obj Rops X rs Us = rsum (prod (shape X)) (fun o => (nth o (data X) 0)^2) - tk_core_norm2 Rops X rs Us.
Proof. exact tucker_residual. Qed.
Print Assumptions C07_tucker_residual.

(* HOOI block on the Tucker objective itself.  NAMED HYPOTHESIS (Ky Fan's maximum principle for the leading left singular vectors
   of the mode-k unfolding of X x_{j<>k} U_j', stated on the core): the new factor maximises the norm of the core among the
   replacements of factor k by matrices with orthonormal columns *)
Theorem C07_hooi_tucker_block_descent_partial : forall (X : tensor R) (rs : list nat) (Us : list (list (list R))) (k : nat) (Unew : list (list R)),
  orth_all (shape X) rs Us -> orth_all (shape X) rs (set_nth k Unew Us) ->
  (forall Wk : list (list R), orth_all (shape X) rs (set_nth k Wk Us) ->
      tk_core_norm2 Rops X rs (set_nth k Wk Us) <= tk_core_norm2 Rops X rs (set_nth k Unew Us)) ->
  tk_hooi_obj Rops X rs (set_nth k Unew Us) <= tk_hooi_obj Rops X rs Us.
Proof. exact hooi_tucker_block_descent_partial. Qed.
Print Assumptions C07_hooi_tucker_block_descent_partial.

(* the mode-k unfolding behind a HOOI block: as a function of factor k the squared norm of the core is ||W' Y_k||_F^2, Y_k being the
   mode-k unfolding of X x_{j<>k} U_j' (the matrix partial_tucker hands to the SVD), for every order / mode / ranks ... *)
Theorem C07_core_norm_unfolding : forall (X : tensor R) (rs : list nat) (Us : list (list (list R))) (k : nat),
  (k < length (shape X))%nat -> length rs = length (shape X) -> (k < length Us)%nat ->
  forall W : list (list R),
  tk_core_norm2 Rops X rs (set_nth k W Us)
  = frob2 (nth k rs 0%nat) (prod (set_nth k 1%nat rs)) (mmul (nth k (shape X) 0%nat) (mT (mget Rops W)) (unfold_k X rs Us k)).
Proof. exact core_norm_unfolding. Qed.
Print Assumptions C07_core_norm_unfolding.

(* ... so the HOOI block does not increase the Tucker objective ||X - core x U||^2, the ONLY hypothesis left being Ky Fan's maximum
   principle for that unfolding matrix (the leading left singular vectors maximise ||W' Y_k||_F over orthonormal W) *)
Theorem C07_hooi_unfolding_block_descent_partial : forall (X : tensor R) (rs : list nat) (Us : list (list (list R))) (k : nat) (Unew : list (list R)),
  (k < length (shape X))%nat -> length rs = length (shape X) -> (k < length Us)%nat ->
  orth_all (shape X) rs Us -> orth_all (shape X) rs (set_nth k Unew Us) ->
  (forall W : fmat, orthonormal (nth k (shape X) 0%nat) (nth k rs 0%nat) W ->
     frob2 (nth k rs 0%nat) (prod (set_nth k 1%nat rs)) (mmul (nth k (shape X) 0%nat) (mT W) (unfold_k X rs Us k))
     <= frob2 (nth k rs 0%nat) (prod (set_nth k 1%nat rs)) (mmul (nth k (shape X) 0%nat) (mT (mget Rops Unew)) (unfold_k X rs Us k))) ->
  tk_hooi_obj Rops X rs (set_nth k Unew Us) <= tk_hooi_obj Rops X rs Us.
Proof. exact hooi_unfolding_block_descent_partial. Qed.
Print Assumptions C07_hooi_unfolding_block_descent_partial.

(* coupled block of coupled_matrix_tensor_3d_factorization (every order of X): a factor of the coupled mode satisfying the normal
   equations  A (w (.) Hadamard of Grams (.) w + V'V) = MTTKRP + Y V  of the stacked least-squares problem minimises
   ||X - [[w; A, ..]]||^2 + ||Y - A V'||^2 over ALL matrices (the system is proved symmetric positive semidefinite) *)
Theorem C07_cmtf_coupled_block_minimises : forall (X : tensor R) (Y : list (list R)) (w : list R) (facs : list (list (list R)))
  (V : list (list R)) (q rank : nat),
  (0 < length (shape X))%nat -> (0 < length facs)%nat ->
  forall x z : list (list R), (0 < nth 0 (shape X) 0)%nat ->
  (forall i r : nat, (i < nth 0 (shape X) 0)%nat -> (r < rank)%nat ->
     cmtf_cert_lhs Rops (shape X) w facs V q rank x i r = cmtf_M Rops X Y w facs V q i r) ->
  cmtf_obj Rops X Y w (set_nth 0 x facs) V q rank <= cmtf_obj Rops X Y w (set_nth 0 z facs) V q rank.
Proof. exact cmtf_coupled_block_minimises. Qed.
Print Assumptions C07_cmtf_coupled_block_minimises.

(* ridge ALS of the Tucker regressor (scalar responses).  The prediction <X_s, G x_k W_k> is linear in the core, with the projected
   sample X_s x_k W_k' as coefficients, and linear in every factor, the coefficient of W_k[i,b] being the prediction with the unit
   matrix E_ib in place of W_k (all orders) ... *)
Theorem C07_tk_inner_core_linear : forall (X : tensor R) (rs : list nat) (core : list R) (Us : list (list (list R))),
  tk_inner Rops X rs core Us = rsum (prod rs) (fun q => nth q core 0 * tk_core_at Rops X Us (unravel rs q)).
Proof. exact tk_inner_core_linear. Qed.
Print Assumptions C07_tk_inner_core_linear.

Theorem C07_tk_inner_fac_linear : forall (X : tensor R) (rs : list nat) (core : list R) (Us : list (list (list R))) (k : nat) (A : list (list R)),
  (k < length (shape X))%nat -> length rs = length (shape X) -> (k < length Us)%nat ->
  tk_inner Rops X rs core (set_nth k A Us)
  = rsum (nth k (shape X) 0%nat) (fun i => rsum (nth k rs 0%nat) (fun b => mget Rops A i b * tkreg_coef Rops X rs core Us k i b)).
Proof. exact tk_inner_fac_linear. Qed.
Print Assumptions C07_tk_inner_fac_linear.

(* ... hence a core / a factor satisfying the normal equations of its block minimises  ||y - predictions||^2 + reg ||G||^2  resp.
   ||y - predictions||^2 + reg ||W_k||_F^2  over ALL cores / matrices (any number of samples, order, ranks >= 1, reg >= 0) *)
Theorem C07_tkreg_core_block_minimises : forall (Xsl : list (tensor R)) (ysl : list R) (rs : list nat) (Us : list (list (list R))) (reg : R) (G Z : list R),
  0 <= reg ->
  (forall q : nat, (q < prod rs)%nat -> tkreg_core_normal_lhs Rops Xsl ysl rs G Us q = reg * nth q G 0) ->
  tkreg_obj_core Rops Xsl ysl rs G Us reg <= tkreg_obj_core Rops Xsl ysl rs Z Us reg.
Proof. exact tkreg_core_block_minimises. Qed.
Print Assumptions C07_tkreg_core_block_minimises.

Theorem C07_tkreg_fac_block_minimises : forall (Xsl : list (tensor R)) (ysl : list R) (sh rs : list nat) (G : list R) (Us : list (list (list R)))
  (k : nat) (reg : R) (A Z : list (list R)),
  (forall X : tensor R, In X Xsl -> shape X = sh) -> (k < length sh)%nat -> length rs = length sh -> (k < length Us)%nat ->
  (0 < nth k rs 0)%nat -> 0 <= reg ->
  (forall i b : nat, (i < nth k sh 0)%nat -> (b < nth k rs 0)%nat ->
     tkreg_fac_normal_lhs Rops Xsl ysl rs G Us k A i b = reg * mget Rops A i b) ->
  tkreg_obj_fac Rops Xsl ysl rs G (set_nth k A Us) k (nth k sh 0%nat) reg
  <= tkreg_obj_fac Rops Xsl ysl rs G (set_nth k Z Us) k (nth k sh 0%nat) reg.
Proof. exact tkreg_fac_block_minimises. Qed.
Print Assumptions C07_tkreg_fac_block_minimises.

(* tensor-ring ALS.  The design matrix of a block is DERIVED: by cyclicity of the trace the entry of a well-formed ring
   (bond ranks of consecutive cores agree, the last with the first) is  sum_{a,b} G_dim[a, i_dim, b] * Sub[b, a]  with Sub the product
   of the cores dim+1, .., n, 1, .., dim-1, so the block objective with the sub-chain design matrix IS the true squared error ... *)
Theorem C07_tr_block_obj_is_sqerr : forall (X : tensor R) (pre post : list (tensor R)),
  length (shape X) = S (length (pre ++ post)) ->
  forall G C : tensor R,
  let r1 := nth 0 (shape (nth 0 (pre ++ C :: post) (mk [] []))) 0%nat in
  chain_ok r1 pre (nth 0 (shape C) 0%nat) -> chain_ok (nth 2 (shape C) 0%nat) post r1 -> (0 < nth 2 (shape C) 0)%nat ->
  tr_block_obj Rops X (pre ++ G :: post) (length pre) C = tr_sqerr Rops X (pre ++ C :: post).
Proof. exact tr_block_obj_is_sqerr. Qed.
Print Assumptions C07_tr_block_obj_is_sqerr.

(* ... a core satisfying the normal equations of that design matrix minimises the block objective over all cores of the same bond
   ranks (any order, sizes, ranks; least squares separable over the slices of the updated mode) ... *)
Theorem C07_tr_block_minimises : forall (X : tensor R) (cs : list (tensor R)) (dim : nat) (G Z : tensor R),
  (dim < length (shape X))%nat ->
  nth 0 (shape Z) 0%nat = nth 0 (shape G) 0%nat -> nth 2 (shape Z) 0%nat = nth 2 (shape G) 0%nat ->
  (forall i j : nat, (i < nth dim (shape X) 0)%nat -> (j < nth 0 (shape G) 0 * nth 2 (shape G) 0)%nat ->
     tr_normal_lhs Rops X cs dim G i j = 0) ->
  tr_block_obj Rops X cs dim G <= tr_block_obj Rops X cs dim Z.
Proof. exact tr_block_minimises. Qed.
Print Assumptions C07_tr_block_minimises.

(* ... hence the block update never increases ||X - TR(cores)||^2 *)
Theorem C07_tr_block_descent : forall (X : tensor R) (pre post : list (tensor R)),
  length (shape X) = S (length (pre ++ post)) ->
  forall G G' : tensor R,
  let r1 := nth 0 (shape (nth 0 (pre ++ G :: post) (mk [] []))) 0%nat in
  let r1' := nth 0 (shape (nth 0 (pre ++ G' :: post) (mk [] []))) 0%nat in
  chain_ok r1 pre (nth 0 (shape G) 0%nat) -> chain_ok (nth 2 (shape G) 0%nat) post r1 ->
  chain_ok r1' pre (nth 0 (shape G') 0%nat) -> chain_ok (nth 2 (shape G') 0%nat) post r1' ->
  nth 0 (shape G') 0%nat = nth 0 (shape G) 0%nat -> nth 2 (shape G') 0%nat = nth 2 (shape G) 0%nat -> (0 < nth 2 (shape G) 0)%nat ->
  (forall i j : nat, (i < nth (length pre) (shape X) 0)%nat -> (j < nth 0 (shape G') 0 * nth 2 (shape G') 0)%nat ->
     tr_normal_lhs Rops X (pre ++ G :: post) (length pre) G' i j = 0) ->
  tr_sqerr Rops X (pre ++ G' :: post) <= tr_sqerr Rops X (pre ++ G :: post).
Proof. exact tr_block_descent. Qed.
Print Assumptions C07_tr_block_descent.


(* ================= round 5: Ky Fan / Procrustes proved from certificates; sweeps, histories and REPORTED errors ================= *)

(* Ky Fan's maximum principle PROVED from a spectral certificate: (Q, lam) is a full eigen-decomposition of Y Y' handed in as DATA
   (Q'Q = QQ' = I, Q'YY'Q = diag(lam), lam non-increasing - a contract the harness checks on the recorded answer of an independent LAPACK
   call); then ||W'Y||_F^2 <= lam_0 + .. + lam_{r-1} for EVERY W with orthonormal columns, any sizes *)
Theorem C07_ky_fan_bound : forall (m r p : nat) (Y Q : fmat) (lam : nat -> R), orthonormal m m Q -> orthonormal m m (mT Q) -> (forall i j : nat, (i < m)%nat -> (j < m)%nat -> rsum p (fun c : nat => mmul m (mT Q) Y i c * mmul m (mT Q) Y j c) = delta i j * lam i) -> (forall i j : nat, (i <= j)%nat -> (j < m)%nat -> lam j <= lam i) -> (r <= m)%nat -> forall W : fmat, orthonormal m r W -> frob2 r p (mmul m (mT W) Y) <= rsum r lam.
Proof. exact ky_fan_bound. Qed.
Print Assumptions C07_ky_fan_bound.

(* hence the matrix-level HOOI block WITHOUT the Ky Fan hypothesis: the new factor only has to ATTAIN the sum of the leading
   eigenvalues (checked per run on the SVD answer the implementation used) *)
Theorem C07_hooi_block_descent : forall (m r p : nat) (Uold Unew Y Q : fmat) (lam : nat -> R), (r <= m)%nat -> orthonormal m m Q -> orthonormal m m (mT Q) -> (forall i j : nat, (i < m)%nat -> (j < m)%nat -> rsum p (fun c : nat => mmul m (mT Q) Y i c * mmul m (mT Q) Y j c) = delta i j * lam i) -> (forall i j : nat, (i <= j)%nat -> (j < m)%nat -> lam j <= lam i) -> orthonormal m r Uold -> orthonormal m r Unew -> rsum r lam <= frob2 r p (mmul m (mT Unew) Y) -> frob2 m p (msub Y (mmul r Unew (mmul m (mT Unew) Y))) <= frob2 m p (msub Y (mmul r Uold (mmul m (mT Uold) Y))).
Proof. exact hooi_block_descent_cert. Qed.
Print Assumptions C07_hooi_block_descent.

(* orthogonal Procrustes bound PROVED from a thin-SVD certificate Z = A diag(sg) B' (unit columns of A, B'B = I, sg >= 0):
   <W, Z> <= sum(sg) for EVERY W with orthonormal columns *)
Theorem C07_procrustes_bound : forall (J R' : nat) (Z A B : fmat) (sg : nat -> R), (forall k : nat, (k < R')%nat -> rsum J (fun i : nat => A i k * A i k) = 1) -> orthonormal R' R' B -> (forall k : nat, (k < R')%nat -> 0 <= sg k) -> (forall i j : nat, (i < J)%nat -> (j < R')%nat -> Z i j = rsum R' (fun k : nat => A i k * sg k * B j k)) -> forall W : fmat, orthonormal J R' W -> minner J R' W Z <= rsum R' sg.
Proof. exact procrustes_bound. Qed.
Print Assumptions C07_procrustes_bound.

(* hence the PARAFAC2 projection block WITHOUT the Procrustes hypothesis: the new projection only has to attain the nuclear norm of X M' *)
Theorem C07_parafac2_projection_descent : forall (J R' K : nat) (Pold Pnew X M A B : fmat) (sg : nat -> R), (forall k : nat, (k < R')%nat -> rsum J (fun i : nat => A i k * A i k) = 1) -> orthonormal R' R' B -> (forall k : nat, (k < R')%nat -> 0 <= sg k) -> (forall i j : nat, (i < J)%nat -> (j < R')%nat -> mmul K X (mT M) i j = rsum R' (fun k : nat => A i k * sg k * B j k)) -> orthonormal J R' Pold -> orthonormal J R' Pnew -> rsum R' sg <= minner J R' Pnew (mmul K X (mT M)) -> frob2 J K (msub X (mmul R' Pnew M)) <= frob2 J K (msub X (mmul R' Pold M)).
Proof. exact parafac2_projection_descent_cert. Qed.
Print Assumptions C07_parafac2_projection_descent.

(* HOOI block on the Tucker objective itself (all orders, mode subsets), Ky Fan proved: spectral certificate of the unfolding Y_k Y_k' + attained value *)
Theorem C07_hooi_unfolding_block_descent : forall (X : tensor R) (rs : list nat) (Us : list (list (list R))) (k : nat) (Unew : list (list R)) (Q : fmat) (lam : nat -> R), (k < length (shape X))%nat -> length rs = length (shape X) -> (k < length Us)%nat -> (nth k rs 0 <= nth k (shape X) 0)%nat -> orth_all (shape X) rs Us -> orth_all (shape X) rs (set_nth k Unew Us) -> spectral_cert (nth k (shape X) 0%nat) (prod (set_nth k 1%nat rs)) (unfold_k X rs Us k) Q lam -> rsum (nth k rs 0%nat) lam <= frob2 (nth k rs 0%nat) (prod (set_nth k 1%nat rs)) (mmul (nth k (shape X) 0%nat) (mT (mget Rops Unew)) (unfold_k X rs Us k)) -> tk_hooi_obj Rops X rs (set_nth k Unew Us) <= tk_hooi_obj Rops X rs Us.
Proof. exact hooi_unfolding_block_descent_cert. Qed.
Print Assumptions C07_hooi_unfolding_block_descent.

(* HOOI sweeps (any list of modes; the SVD is an oracle whose contract - orthonormal columns, spectral certificate, attained value - is
   required at the visited states only) never increase ||X - core x U||^2, the objective values after 0,1,2,.. sweeps are non-increasing, and so
   are the errors partial_tucker REPORTS, sqrt(| ||X||^2 - ||core||^2 |) / ||X|| *)
Theorem C07_hooi_sweep_descent : forall (X : tensor R) (rs : list nat) (svd : list (list (list R)) -> nat -> list (list R)) (modes : list nat) (Us : list (list (list R))), hooi_sweep_ok X rs svd modes Us -> tk_hooi_obj Rops X rs (hooi_sweep svd modes Us) <= tk_hooi_obj Rops X rs Us.
Proof. exact hooi_sweep_descent. Qed.
Print Assumptions C07_hooi_sweep_descent.
Theorem C07_hooi_history_monotone : forall (X : tensor R) (rs : list nat) (svd : list (list (list R)) -> nat -> list (list R)) (modes : list nat) (Us : list (list (list R))) (n : nat), run_ok (list (list (list R))) (hooi_sweep svd modes) (hooi_sweep_ok X rs svd modes) n Us -> forall i j : nat, (i <= j)%nat -> (j <= n)%nat -> tk_hooi_obj Rops X rs (Nat.iter j (hooi_sweep svd modes) Us) <= tk_hooi_obj Rops X rs (Nat.iter i (hooi_sweep svd modes) Us).
Proof. exact hooi_history_monotone. Qed.
Print Assumptions C07_hooi_history_monotone.
Theorem C07_hooi_reported_monotone : forall (X : tensor R) (rs : list nat) (svd : list (list (list R)) -> nat -> list (list R)) (modes : list nat) (Us : list (list (list R))) (n : nat), run_ok (list (list (list R))) (hooi_sweep svd modes) (hooi_sweep_ok X rs svd modes) n Us -> (forall i : nat, (i <= n)%nat -> orth_all (shape X) rs (Nat.iter i (hooi_sweep svd modes) Us)) -> forall i j : nat, (i <= j)%nat -> (j <= n)%nat -> tk_reported X rs (Nat.iter j (hooi_sweep svd modes) Us) <= tk_reported X rs (Nat.iter i (hooi_sweep svd modes) Us).
Proof. exact hooi_reported_monotone. Qed.
Print Assumptions C07_hooi_reported_monotone.

(* tensor-ring ALS sweeps (any list of block indices; the least-squares solver is an oracle: bond ranks kept, normal equations of the MODEL's
   sub-chain design matrix at the visited states): ||X - TR(cores)||^2, its history and the reported relative errors are non-increasing *)
Theorem C07_tr_sweep_descent : forall (X : tensor R) (lsq : list (tensor R) -> nat -> tensor R) (dims : list nat) (cs : list (tensor R)), tr_sweep_ok X lsq dims cs -> tr_sqerr Rops X (tr_sweep lsq dims cs) <= tr_sqerr Rops X cs.
Proof. exact tr_sweep_descent. Qed.
Print Assumptions C07_tr_sweep_descent.
Theorem C07_tr_history_monotone : forall (X : tensor R) (lsq : list (tensor R) -> nat -> tensor R) (dims : list nat) (cs : list (tensor R)) (n : nat), run_ok (list (tensor R)) (tr_sweep lsq dims) (tr_sweep_ok X lsq dims) n cs -> forall i j : nat, (i <= j)%nat -> (j <= n)%nat -> tr_sqerr Rops X (Nat.iter j (tr_sweep lsq dims) cs) <= tr_sqerr Rops X (Nat.iter i (tr_sweep lsq dims) cs).
Proof. exact tr_history_monotone. Qed.
Print Assumptions C07_tr_history_monotone.
Theorem C07_tr_reported_monotone : forall (X : tensor R) (lsq : list (tensor R) -> nat -> tensor R) (dims : list nat) (cs : list (tensor R)) (n : nat), run_ok (list (tensor R)) (tr_sweep lsq dims) (tr_sweep_ok X lsq dims) n cs -> forall i j : nat, (i <= j)%nat -> (j <= n)%nat -> rel_err (normsq X) (tr_sqerr Rops X (Nat.iter j (tr_sweep lsq dims) cs)) <= rel_err (normsq X) (tr_sqerr Rops X (Nat.iter i (tr_sweep lsq dims) cs)).
Proof. exact tr_reported_monotone. Qed.
Print Assumptions C07_tr_reported_monotone.

(* ALS sweep followed by the accept/reject decision of a line search (generic): whatever the extrapolation proposes, the error after the
   iteration is not above the error before it; histories *)
Theorem C07_ls_step_descent : forall (St : Type) (f : St -> R) (sweep : St -> St) (jump : St -> St -> St) (ok : St -> Prop), (forall s : St, ok s -> f (sweep s) <= f s) -> forall s : St, ok s -> f (ls_step St f sweep jump s) <= f s.
Proof. exact ls_step_descent. Qed.
Print Assumptions C07_ls_step_descent.
Theorem C07_ls_history_monotone : forall (St : Type) (f : St -> R) (sweep : St -> St) (jump : St -> St -> St) (ok : St -> Prop), (forall s : St, ok s -> f (sweep s) <= f s) -> forall (n : nat) (s : St), run_ok St (ls_step St f sweep jump) ok n s -> forall i j : nat, (i <= j)%nat -> (j <= n)%nat -> f (Nat.iter j (ls_step St f sweep jump) s) <= f (Nat.iter i (ls_step St f sweep jump) s).
Proof. exact ls_history_monotone. Qed.
Print Assumptions C07_ls_history_monotone.

(* instantiated with the CP-ALS sweep: iterations of parafac(linesearch=True) on the REPORTED relative error sqrt(||X-[[w;A..]]||^2)/||X||
   (l2_reg = 0; the jump function is arbitrary), and plain CP-ALS runs on the reported relative error *)
Theorem C07_cp_ls_history_monotone : forall (X : tensor R) (w : list R) (rank : nat) (solve : list (list R) -> list (list R) -> list (list R)) (modes : list nat) (jump : list (list (list R)) -> list (list (list R)) -> list (list (list R))) (facs : list (list (list R))) (n : nat), run_ok (list (list (list R))) (cp_ls_iter X w rank solve modes jump) (sweep_ok X w 0 rank solve modes) n facs -> forall i j : nat, (i <= j)%nat -> (j <= n)%nat -> cp_rel_err X w rank (Nat.iter j (cp_ls_iter X w rank solve modes jump) facs) <= cp_rel_err X w rank (Nat.iter i (cp_ls_iter X w rank solve modes jump) facs).
Proof. exact cp_ls_history_monotone. Qed.
Print Assumptions C07_cp_ls_history_monotone.
Theorem C07_cp_reported_monotone : forall (X : tensor R) (w : list R) (rank : nat) (solve : list (list R) -> list (list R) -> list (list R)) (modes : list nat) (facs : list mat) (n : nat), run_ok (list mat) (cp_sweep Rops solve X w 0 rank modes) (sweep_ok X w 0 rank solve modes) n facs -> forall i j : nat, (i <= j)%nat -> (j <= n)%nat -> cp_rel_err X w rank (Nat.iter j (cp_sweep Rops solve X w 0 rank modes) facs) <= cp_rel_err X w rank (Nat.iter i (cp_sweep Rops solve X w 0 rank modes) facs).
Proof. exact cp_reported_monotone. Qed.
Print Assumptions C07_cp_reported_monotone.

(* the reported relative error sqrt(|objective|)/sqrt(||X||^2) is monotone in a non-negative objective *)
Theorem C07_rel_err_monotone : forall normsq a b : R, 0 <= a -> a <= b -> rel_err normsq a <= rel_err normsq b.
Proof. exact rel_err_monotone. Qed.
Print Assumptions C07_rel_err_monotone.

(* what parafac computes as its unnormalised squared error, ||X||^2 + cp_norm^2 - 2 iprod with cp_norm^2 from the Hadamard product of the Grams
   and iprod from the MTTKRP of the last updated mode, IS ||X - [[w; A..]]||^2 (every order, rank, weights, mode; also with l2_reg) *)
Theorem C07_cp_reported_is_sqerr : forall (X : tensor R) (w : list R) (facs : list (list (list R))) (k rank : nat), (k < length (shape X))%nat -> (k < length facs)%nat -> cp_err2_reported Rops X w facs k rank = cp_sqerr Rops X w facs rank.
Proof. exact cp_reported_is_sqerr. Qed.
Print Assumptions C07_cp_reported_is_sqerr.

(* one iteration of coupled_matrix_tensor_3d_factorization (V block, uncoupled CP blocks in any order, coupled block; every order of X; the
   solvers are oracles with their normal equations / solve certificates at the visited states) never increases
   ||X - [[w;A,..]]||^2 + ||Y - A V'||^2 - the quantity the function REPORTS - and its history is non-increasing *)
Theorem C07_cmtf_iter_descent : forall (X : tensor R) (Y : list (list R)) (w : list R) (q rank : nat) (lsV : list (list (list R)) -> list (list R) -> list (list R)) (solve : list (list R) -> list (list R) -> list (list R)) (lsA : list (list (list R)) -> list (list R) -> list (list R)) (modes : list nat)  (st : cmtf_state), cmtf_iter_ok X Y w q rank lsV solve lsA modes st -> cmtf_f X Y w q rank (cmtf_iter X w rank lsV solve lsA modes st) <= cmtf_f X Y w q rank st.
Proof. exact cmtf_iter_descent. Qed.
Print Assumptions C07_cmtf_iter_descent.
Theorem C07_cmtf_history_monotone : forall (X : tensor R) (Y : list (list R)) (w : list R) (q rank : nat) (lsV : list (list (list R)) -> list (list R) -> list (list R)) (solve : list (list R) -> list (list R) -> list (list R)) (lsA : list (list (list R)) -> list (list R) -> list (list R)) (modes : list nat)  (st : cmtf_state) (n : nat), run_ok cmtf_state (cmtf_iter X w rank lsV solve lsA modes) (cmtf_iter_ok X Y w q rank lsV solve lsA modes) n st -> forall i j : nat, (i <= j)%nat -> (j <= n)%nat -> cmtf_f X Y w q rank (Nat.iter j (cmtf_iter X w rank lsV solve lsA modes) st) <= cmtf_f X Y w q rank (Nat.iter i (cmtf_iter X w rank lsV solve lsA modes) st).
Proof. exact cmtf_history_monotone. Qed.
Print Assumptions C07_cmtf_history_monotone.

(* CP regressor (scalar responses): whole sweeps of the ridge ALS over any list of modes never increase
   ||y - predictions||^2 + reg * sum_j ||W_j||_F^2 ; histories *)
Theorem C07_cpreg_sweep_descent : forall (Xsl : list (tensor R)) (ysl : list R) (sh : list nat) (w : list R) (rank : nat) (reg : R) (slv : list (list (list R)) -> nat -> list (list R)), 0 <= reg -> forall (modes : list nat) (facs : list (list (list R))), cpreg_sweep_ok Xsl ysl sh w rank reg slv modes facs -> cpreg_obj_all Xsl ysl sh w rank reg (cpreg_sweep slv modes facs) <= cpreg_obj_all Xsl ysl sh w rank reg facs.
Proof. exact cpreg_sweep_descent. Qed.
Print Assumptions C07_cpreg_sweep_descent.
Theorem C07_cpreg_history_monotone : forall (Xsl : list (tensor R)) (ysl : list R) (sh : list nat) (w : list R) (rank : nat) (reg : R) (slv : list (list (list R)) -> nat -> list (list R)), 0 <= reg -> forall (modes : list nat) (facs : list (list (list R))) (n : nat), run_ok (list (list (list R))) (cpreg_sweep slv modes) (cpreg_sweep_ok Xsl ysl sh w rank reg slv modes) n facs -> forall i j : nat, (i <= j)%nat -> (j <= n)%nat -> cpreg_obj_all Xsl ysl sh w rank reg (Nat.iter j (cpreg_sweep slv modes) facs) <= cpreg_obj_all Xsl ysl sh w rank reg (Nat.iter i (cpreg_sweep slv modes) facs).
Proof. exact cpreg_history_monotone. Qed.
Print Assumptions C07_cpreg_history_monotone.

(* PARAFAC2 coupling: for a projection with orthonormal columns ||X - P M||^2 = ||X||^2 - ||P'X||^2 + ||P'X - M||^2, so with the projections
   fixed the CP step on the PROJECTED slices changes the PARAFAC2 objective by exactly what it changes its own *)
Theorem C07_parafac2_pythagoras : forall (J R' K : nat) (P X M : fmat), orthonormal J R' P -> frob2 J K (msub X (mmul R' P M)) = frob2 J K X - frob2 R' K (mmul J (mT P) X) + frob2 R' K (msub (mmul J (mT P) X) M).
Proof. exact parafac2_pythagoras. Qed.
Print Assumptions C07_parafac2_pythagoras.

(* one PARAFAC2 iteration (new projections with the Procrustes optimality proved from per-slice thin-SVD certificates, then any inner step that
   does not increase the error of the projected tensor, e.g. CP-ALS / HALS sweeps by C07_cp_sweep_descent / C07_nn_sweep_descent) never increases
   sum_i ||X_i - P_i B diag(a_i) C'||^2 ; histories; reported relative errors with and without line search (slices of different row counts allowed) *)
Theorem C07_parafac2_iter_descent : forall (I : nat) (J : nat -> nat) (R' K : nat) (X : nat -> fmat) (Th : Type) (Mof proj : Th -> nat -> fmat) (cpstep : (nat -> fmat) -> Th -> Th) (st : p2_state Th), p2_iter_ok I J R' K X Th Mof proj cpstep st -> p2_obj I J R' K X Th Mof (p2_iter Th proj cpstep st) <= p2_obj I J R' K X Th Mof st.
Proof. exact p2_iter_descent. Qed.
Print Assumptions C07_parafac2_iter_descent.
Theorem C07_parafac2_history_monotone : forall (I : nat) (J : nat -> nat) (R' K : nat) (X : nat -> fmat) (Th : Type) (Mof proj : Th -> nat -> fmat) (cpstep : (nat -> fmat) -> Th -> Th) (st : p2_state Th) (n : nat), run_ok (p2_state Th) (p2_iter Th proj cpstep) (p2_iter_ok I J R' K X Th Mof proj cpstep) n st -> forall i j : nat, (i <= j)%nat -> (j <= n)%nat -> p2_obj I J R' K X Th Mof (Nat.iter j (p2_iter Th proj cpstep) st) <= p2_obj I J R' K X Th Mof (Nat.iter i (p2_iter Th proj cpstep) st).
Proof. exact p2_history_monotone. Qed.
Print Assumptions C07_parafac2_history_monotone.
Theorem C07_parafac2_ls_history_monotone : forall (I : nat) (J : nat -> nat) (R' K : nat) (X : nat -> fmat) (Th : Type) (Mof proj : Th -> nat -> fmat) (cpstep : (nat -> fmat) -> Th -> Th)  (normX2 : R) (jump : p2_state Th -> p2_state Th -> p2_state Th) (st : p2_state Th) (n : nat), run_ok (p2_state Th) (ls_step (p2_state Th) (p2_rel_err I J R' K X Th Mof normX2) (p2_iter Th proj cpstep) jump) (p2_iter_ok I J R' K X Th Mof proj cpstep) n st -> forall i j : nat, (i <= j)%nat -> (j <= n)%nat -> p2_rel_err I J R' K X Th Mof normX2 (Nat.iter j (ls_step (p2_state Th) (p2_rel_err I J R' K X Th Mof normX2) (p2_iter Th proj cpstep) jump) st) <= p2_rel_err I J R' K X Th Mof normX2 (Nat.iter i (ls_step (p2_state Th) (p2_rel_err I J R' K X Th Mof normX2) (p2_iter Th proj cpstep) jump) st).
Proof. exact p2_ls_history_monotone. Qed.
Print Assumptions C07_parafac2_ls_history_monotone.
Theorem C07_parafac2_reported_monotone : forall (I : nat) (J : nat -> nat) (R' K : nat) (X : nat -> fmat) (Th : Type) (Mof proj : Th -> nat -> fmat) (cpstep : (nat -> fmat) -> Th -> Th)  (normX2 : R) (st : p2_state Th) (n : nat), run_ok (p2_state Th) (p2_iter Th proj cpstep) (p2_iter_ok I J R' K X Th Mof proj cpstep) n st -> forall i j : nat, (i <= j)%nat -> (j <= n)%nat -> p2_rel_err I J R' K X Th Mof normX2 (Nat.iter j (p2_iter Th proj cpstep) st) <= p2_rel_err I J R' K X Th Mof normX2 (Nat.iter i (p2_iter Th proj cpstep) st).
Proof. exact p2_reported_monotone. Qed.
Print Assumptions C07_parafac2_reported_monotone.


(* Tucker regressor (scalar responses): iterations of the ridge ALS (any list of blocks, Some k = factor k, None = the core) never increase
   ||y - predictions||^2 + reg * (||G||^2 + sum_j ||W_j||_F^2) ; histories *)
Theorem C07_tkreg_sweep_descent : forall (Xsl : list (tensor R)) (ysl : list R) (sh rs : list nat) (reg : R) (slvF : list R -> list (list (list R)) -> nat -> list (list R))
  (slvG : list R -> list (list (list R)) -> list R), 0 <= reg ->
  forall (bs : list (option nat)) (st : tkreg_state),
  tkreg_sweep_ok Xsl ysl sh rs reg slvF slvG bs st -> tkreg_obj_all Xsl ysl sh rs reg (tkreg_sweep slvF slvG bs st) <= tkreg_obj_all Xsl ysl sh rs reg st.
Proof. exact tkreg_sweep_descent. Qed.
Print Assumptions C07_tkreg_sweep_descent.
Theorem C07_tkreg_history_monotone : forall (Xsl : list (tensor R)) (ysl : list R) (sh rs : list nat) (reg : R) (slvF : list R -> list (list (list R)) -> nat -> list (list R))
  (slvG : list R -> list (list (list R)) -> list R), 0 <= reg ->
  forall (bs : list (option nat)) (st : tkreg_state) (n : nat),
  run_ok tkreg_state (tkreg_sweep slvF slvG bs) (tkreg_sweep_ok Xsl ysl sh rs reg slvF slvG bs) n st ->
  forall i j : nat, (i <= j)%nat -> (j <= n)%nat ->
  tkreg_obj_all Xsl ysl sh rs reg (Nat.iter j (tkreg_sweep slvF slvG bs) st) <= tkreg_obj_all Xsl ysl sh rs reg (Nat.iter i (tkreg_sweep slvF slvG bs) st).
Proof. exact tkreg_history_monotone. Qed.
Print Assumptions C07_tkreg_history_monotone.


(* PARAFAC2's inner step: the error of the projected slices IS the CP objective of the third-order tensor whose frontal slices they are
   (entry (i,j,c) at offset (i R + j) K + c; cp_slice w facs rank i = B diag(w . a_i) C'), so CP-ALS sweeps on that tensor satisfy the
   inner-step hypothesis of C07_parafac2_iter_descent under the solve certificate alone *)
Theorem C07_cp_sqerr_slices : forall (T : tensor R) (I Rr K : nat) (w : list R) (facs : list (list (list R))) (rank : nat),
  shape T = [I; Rr; K] ->
  cp_sqerr Rops T w facs rank = rsum I (fun i => frob2 Rr K (msub (slice3 Rr K T i) (cp_slice w facs rank i))).
Proof. exact cp_sqerr_slices. Qed.
Print Assumptions C07_cp_sqerr_slices.
Theorem C07_parafac2_inner_step_from_cp : forall (T : tensor R) (I Rr K : nat) (w : list R) (rank : nat)
  (solve : list (list R) -> list (list R) -> list (list R)) (modes : list nat) (facs : list (list (list R))),
  shape T = [I; Rr; K] -> sweep_ok T w 0 rank solve modes facs ->
  rsum I (fun i => frob2 Rr K (msub (slice3 Rr K T i) (cp_slice w (cp_sweep Rops solve T w 0 rank modes facs) rank i)))
  <= rsum I (fun i => frob2 Rr K (msub (slice3 Rr K T i) (cp_slice w facs rank i))).
Proof. exact p2_inner_step_from_cp. Qed.
Print Assumptions C07_parafac2_inner_step_from_cp.


(* reference forms of the reported-error formulas, linked to the model once; on every run harness/props/C07_ast.py regenerates the formulas
   from the current Python sources and coqc re-checks these links against the regenerated terms (corr:C07-static) *)
Theorem C07_static_cp_reported : forall (X : tensor R) (w : list R) (facs : list (list (list R))) (k rank : nat),
  (k < length (shape X))%nat -> (k < length facs)%nat ->
  static_cp_err (sqrt (tnormsq Rops X)) (sqrt (cp_norm2_gram Rops (shape X) w facs rank)) (cp_iprod Rops X w facs k rank) / sqrt (tnormsq Rops X)
  = cp_rel_err X w rank facs.
Proof. exact static_cp_reported. Qed.
Print Assumptions C07_static_cp_reported.
Theorem C07_static_tk_reported : forall (X : tensor R) (rs : list nat) (Us : list (list (list R))),
  static_tk_err (sqrt (normsq X)) (sqrt (tk_core_norm2 Rops X rs Us)) = tk_reported X rs Us.
Proof. exact static_tk_reported. Qed.
Print Assumptions C07_static_tk_reported.


(* non_negative_parafac_hals(normalize_factors=True) renormalises INSIDE the sweep (after every block but the last; the flag of a block):
   without sparsity such sweeps - any list of (mode, solve | n HALS passes, renormalise?) - never increase ||X - [[w; A..]]||^2; histories *)
Theorem C07_nn_norm_sweep_descent : forall (X : tensor R) (rank : nat) (eps : R) (l1s : list R) (solve : list (list R) -> list (list R) -> list (list R))
  (norms : nat -> cpstate -> list R * list R), (forall j : nat, nth j l1s 0 = 0) ->
  forall (bs : list (nat * blockkind * bool)) (st : cpstate),
  nnn_sweep_ok X rank eps l1s solve norms bs st -> sq X rank (nnn_sweep X rank eps l1s solve norms bs st) <= sq X rank st.
Proof. exact nnn_sweep_descent. Qed.
Print Assumptions C07_nn_norm_sweep_descent.
Theorem C07_nn_norm_history_monotone : forall (X : tensor R) (rank : nat) (eps : R) (l1s : list R) (solve : list (list R) -> list (list R) -> list (list R))
  (norms : nat -> cpstate -> list R * list R), (forall j : nat, nth j l1s 0 = 0) ->
  forall (bs : list (nat * blockkind * bool)) (st : cpstate) (n : nat),
  run_ok cpstate (nnn_sweep X rank eps l1s solve norms bs) (nnn_sweep_ok X rank eps l1s solve norms bs) n st ->
  forall i j : nat, (i <= j)%nat -> (j <= n)%nat ->
  sq X rank (Nat.iter j (nnn_sweep X rank eps l1s solve norms bs) st) <= sq X rank (Nat.iter i (nnn_sweep X rank eps l1s solve norms bs) st).
Proof. exact nnn_history_monotone. Qed.
Print Assumptions C07_nn_norm_history_monotone.


(* option parsing of fixed_modes (Model/DescentModes.v, executed by the correspondence on the modes the implementation's first sweep updates):
   every updated mode is a mode of the tensor (the side condition k < order of the block theorems), the list is increasing, and for parafac its
   LAST entry is the last mode - the MTTKRP left over from a sweep is the one error_calc contracts with factors[-1] (C07_cp_reported_is_sqerr, k = n-1) *)
Theorem C07_cp_modes_lt : forall (n : nat) (fixed : list nat) (m : nat), In m (cp_modes_list n fixed) -> (m < n)%nat.
Proof. exact cp_modes_lt. Qed.
Print Assumptions C07_cp_modes_lt.
Theorem C07_cp_modes_last : forall (n : nat) (fixed : list nat), (0 < n)%nat -> last (cp_modes_list n fixed) 0%nat = (n - 1)%nat.
Proof. exact cp_modes_last. Qed.
Print Assumptions C07_cp_modes_last.
Theorem C07_cp_modes_increasing : forall (n : nat) (fixed : list nat) (i j : nat), (i < j)%nat -> (j < length (cp_modes_list n fixed))%nat ->
  (nth i (cp_modes_list n fixed) 0 < nth j (cp_modes_list n fixed) 0)%nat.
Proof. exact cp_modes_increasing. Qed.
Print Assumptions C07_cp_modes_increasing.
Theorem C07_nn_modes_lt : forall (n : nat) (fixed : list nat) (m : nat), In m (nn_modes_list n fixed) -> (m < n)%nat.
Proof. exact nn_modes_lt. Qed.
Print Assumptions C07_nn_modes_lt.


(* ================= round 6 ================= *)
(* HOOI from ANY initial factors (init='random'): one sweep over the decomposed modes makes every factor orthonormal (the SVD oracle's answers
   have orthonormal columns; undecomposed modes carry a matrix with orthonormal columns), so the errors reported after sweeps 1, 2, .. are
   non-increasing; the certificate contract is needed from the state after sweep 1 on *)
Theorem C07_hooi_first_sweep_orth : forall (X : tensor R) (rs : list nat) (svd : list (list (list R)) -> nat -> list (list R)) (modes : list nat),
  length rs = length (shape X) ->
  (forall (Us : list (list (list R))) (k : nat), In k modes -> orthonormal (nth k (shape X) 0%nat) (nth k rs 0%nat) (mget Rops (svd Us k))) ->
  forall Us0 : list (list (list R)), length Us0 = length (shape X) ->
  (forall k : nat, (k < length (shape X))%nat -> In k modes \/ okmode X rs Us0 k) -> orth_all (shape X) rs (hooi_sweep svd modes Us0).
Proof. exact hooi_first_sweep_orth. Qed.
Print Assumptions C07_hooi_first_sweep_orth.
Theorem C07_hooi_reported_monotone_any_init : forall (X : tensor R) (rs : list nat) (svd : list (list (list R)) -> nat -> list (list R)) (modes : list nat),
  length rs = length (shape X) ->
  (forall (Us : list (list (list R))) (k : nat), In k modes -> orthonormal (nth k (shape X) 0%nat) (nth k rs 0%nat) (mget Rops (svd Us k))) ->
  forall (Us0 : list (list (list R))) (n : nat), length Us0 = length (shape X) ->
  (forall k : nat, (k < length (shape X))%nat -> In k modes \/ okmode X rs Us0 k) ->
  run_ok (list (list (list R))) (hooi_sweep svd modes) (hooi_sweep_ok X rs svd modes) n (hooi_sweep svd modes Us0) ->
  forall i j : nat, (1 <= i)%nat -> (i <= j)%nat -> (j <= S n)%nat ->
  tk_reported X rs (Nat.iter j (hooi_sweep svd modes) Us0) <= tk_reported X rs (Nat.iter i (hooi_sweep svd modes) Us0).
Proof. exact hooi_reported_monotone_any_init. Qed.
Print Assumptions C07_hooi_reported_monotone_any_init.

(* ================= round 7 ================= *)
(* coupled_matrix_tensor_3d_factorization: EVERY update of an iteration is an exact minimiser of the coupled objective
   ||X - [[w;A_0,..]]||^2 + ||Y - A_0 V'||^2 over its own block: the matrix part V = lstsq(A_0, Y)' (normal equations A_0'(Y - A_0 V') = 0),
   the uncoupled modes k <> 0 (solve certificate of the CP system; the matrix part only sees factor 0); the coupled block is
   C07_cmtf_coupled_block_minimises *)
Theorem C07_cmtf_V_block_minimises : forall (X : tensor R) (Y : list (list R)) (w : list R) (q rank : nat) (facs : list (list (list R))) (V Z : list (list R)),
  cmtf_V_normal X Y q rank (nth 0 facs []) V -> cmtf_obj Rops X Y w facs V q rank <= cmtf_obj Rops X Y w facs Z q rank.
Proof. exact cmtf_V_block_minimises_obj. Qed.
Print Assumptions C07_cmtf_V_block_minimises.
Theorem C07_cmtf_uncoupled_block_minimises : forall (X : tensor R) (Y : list (list R)) (w : list R) (q rank : nat) (facs : list (list (list R))) (V : list (list R))
  (k : nat) (x z : list (list R)), k <> 0%nat -> (k < length (shape X))%nat -> (k < length facs)%nat ->
  (forall i r : nat, (i < nth k (shape X) 0)%nat -> (r < rank)%nat -> cp_cert_lhs Rops (shape X) w facs k 0 rank x i r = cp_mttkrp Rops X w facs k i r) ->
  cmtf_obj Rops X Y w (set_nth k x facs) V q rank <= cmtf_obj Rops X Y w (set_nth k z facs) V q rank.
Proof. exact cmtf_uncoupled_block_minimises. Qed.
Print Assumptions C07_cmtf_uncoupled_block_minimises.

(* FROM THE FIRST SWEEP TO TERMINATION: the outer loop `for it in range(n_iter_max): s = sweep s; history.append(report s); if stop(it, history): break`
   (Model/DescentLoop.v) for ANY stopping rule and ANY reported quantity: it returns the state after m sweeps, 1 <= m <= n_iter_max (if n_iter_max >= 1),
   with the reports of the iterates m, .., 1 as history; m is the FIRST iteration at which the rule fires (or n_iter_max) *)
Theorem C07_loop_spec : forall (St V : Type) (step : St -> St) (report : St -> V) (stop : nat -> list V -> bool) (n : nat) (s : St),
  exists m : nat, (m <= n)%nat /\ ((0 < n)%nat -> (0 < m)%nat) /\
  run_loop St V step report stop n s = (Nat.iter m step s, reports St V step report m s) /\
  (forall i : nat, (S i < m)%nat -> stop i (reports St V step report (S i) s) = false) /\
  ((m < n)%nat -> stop (m - 1)%nat (reports St V step report m s) = true).
Proof. exact run_loop_spec. Qed.
Print Assumptions C07_loop_spec.
(* the loop replayed on a tape holding the recorded reports (what the correspondence executes on the implementation's history, with the stopping rule of
   the algorithm) stops after the same number of iterations, with the same history, and the state the real loop returns is the iterate of that index *)
Theorem C07_loop_tape_replay : forall (St V : Type) (step : St -> St) (report : St -> V) (stop : nat -> list V -> bool) (n : nat) (s : St) (tape : list V) (d : V),
  (forall i : nat, (1 <= i <= n)%nat -> nth (i - 1) tape d = report (Nat.iter i step s)) ->
  let r := run_loop nat V S (fun i => nth (i - 1) tape d) stop n 0%nat in
  fst r = length (snd (run_loop St V step report stop n s)) /\ snd r = snd (run_loop St V step report stop n s) /\
  fst (run_loop St V step report stop n s) = Nat.iter (fst r) step s.
Proof. exact tape_replay. Qed.
Print Assumptions C07_loop_tape_replay.
(* if every sweep descends at the visited states, the state the loop RETURNS is not worse than the initial one, whatever the stopping rule, and the
   visited states form a non-increasing sequence *)
Theorem C07_loop_final_descent : forall (St V : Type) (step : St -> St) (report : St -> V) (stop : nat -> list V -> bool) (f : St -> R) (ok : St -> Prop),
  (forall s : St, ok s -> f (step s) <= f s) -> forall (n : nat) (s : St), run_ok St step ok n s -> f (fst (run_loop St V step report stop n s)) <= f s.
Proof. exact loop_final_descent. Qed.
Print Assumptions C07_loop_final_descent.
Theorem C07_loop_visited_monotone : forall (St V : Type) (step : St -> St) (report : St -> V) (stop : nat -> list V -> bool) (f : St -> R) (ok : St -> Prop),
  (forall s : St, ok s -> f (step s) <= f s) -> forall (n : nat) (s : St), run_ok St step ok n s ->
  exists m : nat, (m <= n)%nat /\ ((0 < n)%nat -> (0 < m)%nat) /\ fst (run_loop St V step report stop n s) = Nat.iter m step s /\
  length (snd (run_loop St V step report stop n s)) = m /\ forall i j : nat, (i <= j)%nat -> (j <= m)%nat -> f (Nat.iter j step s) <= f (Nat.iter i step s).
Proof. exact loop_visited_monotone. Qed.
Print Assumptions C07_loop_visited_monotone.
(* the RECORDED history (newest first) of a loop whose reported quantity descends with every sweep: every entry <= every older entry <= the initial value *)
Theorem C07_loop_history_nonincreasing : forall (St : Type) (step : St -> St) (report : St -> R) (stop : nat -> list R -> bool) (ok : St -> Prop),
  (forall s : St, ok s -> report (step s) <= report s) -> forall (n : nat) (s : St), run_ok St step ok n s ->
  let h := snd (run_loop St R step report stop n s) in
  (forall i j : nat, (i <= j)%nat -> (j < length h)%nat -> nth i h 0 <= nth j h 0) /\ (forall i : nat, (i < length h)%nat -> nth i h 0 <= report s).
Proof. exact loop_history_nonincreasing. Qed.
Print Assumptions C07_loop_history_nonincreasing.

(* CPRegressor.fit / TuckerRegressor.fit END TO END (scalar responses): the weights the fit returns - whatever its stopping rule, which looks at the norms of
   the weight tensor, decides - have a ridge objective not above the one of the initial weights (the rule of the code is regressor_stop, Model/DescentLoop.v;
   the theorem holds for every rule and every recorded quantity) *)
Theorem C07_cpreg_fit_descent : forall (Xsl : list (tensor R)) (ysl : list R) (sh : list nat) (w : list R) (rank : nat) (reg : R)
  (slv : list (list (list R)) -> nat -> list (list R)) (V : Type) (report : list (list (list R)) -> V) (stop : nat -> list V -> bool),
  0 <= reg -> forall (modes : list nat) (facs : list (list (list R))) (n : nat),
  run_ok (list (list (list R))) (cpreg_sweep slv modes) (cpreg_sweep_ok Xsl ysl sh w rank reg slv modes) n facs ->
  cpreg_obj_all Xsl ysl sh w rank reg (fst (run_loop (list (list (list R))) V (cpreg_sweep slv modes) report stop n facs)) <= cpreg_obj_all Xsl ysl sh w rank reg facs.
Proof. exact cpreg_fit_descent. Qed.
Print Assumptions C07_cpreg_fit_descent.
Theorem C07_tkreg_fit_descent : forall (Xsl : list (tensor R)) (ysl : list R) (sh rs : list nat) (reg : R)
  (slvF : list R -> list (list (list R)) -> nat -> list (list R)) (slvG : list R -> list (list (list R)) -> list R)
  (V : Type) (report : tkreg_state -> V) (stop : nat -> list V -> bool),
  0 <= reg -> forall (bs : list (option nat)) (st : tkreg_state) (n : nat),
  run_ok tkreg_state (tkreg_sweep slvF slvG bs) (tkreg_sweep_ok Xsl ysl sh rs reg slvF slvG bs) n st ->
  tkreg_obj_all Xsl ysl sh rs reg (fst (run_loop tkreg_state V (tkreg_sweep slvF slvG bs) report stop n st)) <= tkreg_obj_all Xsl ysl sh rs reg st.
Proof. exact tkreg_fit_descent. Qed.
Print Assumptions C07_tkreg_fit_descent.

(* the LIST OF ERRORS the decompositions return (newest first), under any stopping rule: parafac with or without line search (l2_reg = 0), CMTF,
   tensor_ring_als, PARAFAC2 with or without line search *)
Theorem C07_cp_loop_reported_nonincreasing : forall (X : tensor R) (w : list R) (rank : nat) (solve : list (list R) -> list (list R) -> list (list R)) (modes : list nat)
  (jump : list (list (list R)) -> list (list (list R)) -> list (list (list R))) (stop : nat -> list R -> bool) (facs : list (list (list R))) (n : nat),
  run_ok (list (list (list R))) (cp_ls_iter X w rank solve modes jump) (sweep_ok X w 0 rank solve modes) n facs ->
  let h := snd (run_loop (list (list (list R))) R (cp_ls_iter X w rank solve modes jump) (cp_rel_err X w rank) stop n facs) in
  (forall i j : nat, (i <= j)%nat -> (j < length h)%nat -> nth i h 0 <= nth j h 0) /\ (forall i : nat, (i < length h)%nat -> nth i h 0 <= cp_rel_err X w rank facs).
Proof. exact cp_loop_reported_nonincreasing. Qed.
Print Assumptions C07_cp_loop_reported_nonincreasing.
Theorem C07_cmtf_loop_reported_nonincreasing : forall (X : tensor R) (Y : list (list R)) (w : list R) (q rank : nat)
  (lsV : list (list (list R)) -> list (list R) -> list (list R)) (solve : list (list R) -> list (list R) -> list (list R))
  (lsA : list (list (list R)) -> list (list R) -> list (list R)) (modes : list nat) (stop : nat -> list R -> bool) (st : cmtf_state) (n : nat),
  run_ok cmtf_state (cmtf_iter X w rank lsV solve lsA modes) (cmtf_iter_ok X Y w q rank lsV solve lsA modes) n st ->
  let h := snd (run_loop cmtf_state R (cmtf_iter X w rank lsV solve lsA modes) (cmtf_f X Y w q rank) stop n st) in
  (forall i j : nat, (i <= j)%nat -> (j < length h)%nat -> nth i h 0 <= nth j h 0) /\ (forall i : nat, (i < length h)%nat -> nth i h 0 <= cmtf_f X Y w q rank st).
Proof. exact cmtf_loop_reported_nonincreasing. Qed.
Print Assumptions C07_cmtf_loop_reported_nonincreasing.
Theorem C07_tr_loop_reported_nonincreasing : forall (X : tensor R) (lsq : list (tensor R) -> nat -> tensor R) (dims : list nat) (stop : nat -> list R -> bool)
  (cs : list (tensor R)) (n : nat), run_ok (list (tensor R)) (tr_sweep lsq dims) (tr_sweep_ok X lsq dims) n cs ->
  let h := snd (run_loop (list (tensor R)) R (tr_sweep lsq dims) (fun c => rel_err (normsq X) (tr_sqerr Rops X c)) stop n cs) in
  (forall i j : nat, (i <= j)%nat -> (j < length h)%nat -> nth i h 0 <= nth j h 0) /\
  (forall i : nat, (i < length h)%nat -> nth i h 0 <= rel_err (normsq X) (tr_sqerr Rops X cs)).
Proof. exact tr_loop_reported_nonincreasing. Qed.
Print Assumptions C07_tr_loop_reported_nonincreasing.
Theorem C07_parafac2_loop_reported_nonincreasing : forall (I : nat) (J : nat -> nat) (R' K : nat) (X : nat -> fmat) (Th : Type) (Mof proj : Th -> nat -> fmat)
  (cpstep : (nat -> fmat) -> Th -> Th) (normX2 : R) (jump : p2_state Th -> p2_state Th -> p2_state Th) (stop : nat -> list R -> bool) (st : p2_state Th) (n : nat),
  run_ok (p2_state Th) (ls_step (p2_state Th) (p2_rel_err I J R' K X Th Mof normX2) (p2_iter Th proj cpstep) jump) (p2_iter_ok I J R' K X Th Mof proj cpstep) n st ->
  let h := snd (run_loop (p2_state Th) R (ls_step (p2_state Th) (p2_rel_err I J R' K X Th Mof normX2) (p2_iter Th proj cpstep) jump) (p2_rel_err I J R' K X Th Mof normX2) stop n st) in
  (forall i j : nat, (i <= j)%nat -> (j < length h)%nat -> nth i h 0 <= nth j h 0) /\ (forall i : nat, (i < length h)%nat -> nth i h 0 <= p2_rel_err I J R' K X Th Mof normX2 st).
Proof. exact p2_loop_reported_nonincreasing. Qed.
Print Assumptions C07_parafac2_loop_reported_nonincreasing.

(* tucker / partial_tucker: the list of errors partial_tucker returns, under any stopping rule (factors with orthonormal columns at the visited states: init='svd',
   or every state after the first sweep for any init by C07_hooi_first_sweep_orth) *)
Theorem C07_hooi_loop_reported_nonincreasing : forall (X : tensor R) (rs : list nat) (svd : list (list (list R)) -> nat -> list (list R)) (modes : list nat)
  (stop : nat -> list R -> bool) (Us : list (list (list R))) (n : nat),
  run_ok (list (list (list R))) (hooi_sweep svd modes)
    (fun U => hooi_sweep_ok X rs svd modes U /\ orth_all (shape X) rs U /\ orth_all (shape X) rs (hooi_sweep svd modes U)) n Us ->
  let h := snd (run_loop (list (list (list R))) R (hooi_sweep svd modes) (tk_reported X rs) stop n Us) in
  (forall i j : nat, (i <= j)%nat -> (j < length h)%nat -> nth i h 0 <= nth j h 0) /\ (forall i : nat, (i < length h)%nat -> nth i h 0 <= tk_reported X rs Us).
Proof. exact hooi_loop_reported_nonincreasing. Qed.
Print Assumptions C07_hooi_loop_reported_nonincreasing.
(* the stopping tests of the model's rules read as propositions over R: the target against which the tests regenerated from the Python sources are re-checked on
   every run (corr:C07-static, Stop.v: regenerated test <-> stop_prop (kind of the model's rule), first iteration and tolerance guard equal the model's) *)
Theorem C07_stop_test_spec : forall (k : stop_kind) (tol a b f : R), stop_test Rops k tol a b f = true <-> stop_prop k tol a b f.
Proof. exact stop_test_spec. Qed.
Print Assumptions C07_stop_test_spec.

(* PARAFAC2 with nn_modes: the inner step is non_negative_parafac_hals (no sparsity) on the tensor of projected slices; its sweeps (exact solves on the unconstrained
   modes, n HALS passes on the non-negative ones) satisfy the inner-step hypothesis of C07_parafac2_iter_descent under their own contract at the visited states *)
Theorem C07_parafac2_inner_step_from_nn : forall (T : tensor R) (I Rr K : nat) (w : list R) (rank : nat) (l1s : list R) (eps : R)
  (solve : list (list R) -> list (list R) -> list (list R)) (blocks : list (nat * blockkind)) (facs : list (list (list R))),
  shape T = [I; Rr; K] -> (forall j : nat, nth j l1s 0 = 0) -> nn_sweep_ok T w rank l1s eps solve blocks facs ->
  rsum I (fun i => frob2 Rr K (msub (slice3 Rr K T i) (cp_slice w (nn_sweep Rops solve T w rank l1s eps blocks facs) rank i)))
  <= rsum I (fun i => frob2 Rr K (msub (slice3 Rr K T i) (cp_slice w facs rank i))).
Proof. exact p2_inner_step_from_nn. Qed.
Print Assumptions C07_parafac2_inner_step_from_nn.
(* hals_nnls END TO END: passes under ANY stopping rule on any recorded quantity (the code: squared norm of the update of a pass below tol times its first value,
   hals_stop in Model/DescentLoop.v): the returned iterate is feasible and its objective is not above the initial one; no contract at visited states is needed *)
Theorem C07_hals_loop_descent : forall (G B : list (list R)) (l1 l2 eps : R) (rank ncols : nat),
  (forall i j : nat, mget Rops G i j = mget Rops G j i) -> (forall k : nat, 0 <= mget Rops G k k) -> 0 <= l2 ->
  forall (V0 : Type) (report : list (list R) -> V0) (stop : nat -> list V0 -> bool) (n : nat) (V : list (list R)),
  length V = rank -> feasible eps rank ncols V ->
  let Vf := fst (run_loop (list (list R)) V0 (hals_pass Rops G B l1 l2 eps rank ncols) report stop n V) in
  length Vf = rank /\ feasible eps rank ncols Vf /\ hals_obj Rops G B Vf l1 l2 rank ncols <= hals_obj Rops G B V l1 l2 rank ncols.
Proof. exact hals_loop_descent. Qed.
Print Assumptions C07_hals_loop_descent.

(* PENALTIES.  What the blocks solve exactly, and what therefore descends, is the PENALISED objective: C07_cp_sweep_descent / C07_cp_history_monotone
   (||X-[[w;A..]]||^2 + l2_reg sum_j ||A_j diag w||^2) and C07_nn_sweep_descent / C07_nn_history_monotone (||X-[[w;A..]]||^2/2 + sum_j sparsity_j sum(A_j)).
   The algorithms REPORT the unpenalised reconstruction error, which is then NOT monotone: blocks that satisfy their contract, lower the
   penalised objective and raise the squared error (so the property's clause on reported errors holds only without penalties: known class
   penalised_reported_error); and with sparsity the in-sweep renormalisation of nn-HALS can raise the penalised objective itself *)
Theorem C07_cp_l2_reported_refuted :
  exists (X : tensor R) (w : list R) (facs : list (list (list R))) (k : nat) (lam : R) (rank : nat) (x : list (list R)),
    0 < lam /\ (k < length (shape X))%nat /\ (k < length facs)%nat /\
    (forall i r : nat, (i < nth k (shape X) 0)%nat -> (r < rank)%nat -> cp_cert_lhs Rops (shape X) w facs k lam rank x i r = cp_mttkrp Rops X w facs k i r) /\
    cp_obj Rops X w (set_nth k x facs) k lam rank < cp_obj Rops X w facs k lam rank /\ cp_sqerr Rops X w facs rank < cp_sqerr Rops X w (set_nth k x facs) rank.
Proof. exact cp_l2_reported_refuted. Qed.
Print Assumptions C07_cp_l2_reported_refuted.
Theorem C07_nn_sparsity_reported_refuted :
  exists (X : tensor Q) (w : list Q) (facs : list (list (list Q))) (l1s : list Q) (rank : nat),
    let facs' := nn_block Qops (fun _ _ : list (list Q) => []) X w rank l1s 0%Q facs (0%nat, BHals 1) in
    facs' = [[[1 # 2]]; [[1%Q]]] /\
    Qlt_bool' (nn_obj Qops X w facs' l1s rank) (nn_obj Qops X w facs l1s rank) = true /\
    Qlt_bool' (cp_sqerr Qops X w facs rank) (cp_sqerr Qops X w facs' rank) = true.
Proof. exact nn_sparsity_reported_refuted. Qed.
Print Assumptions C07_nn_sparsity_reported_refuted.
Theorem C07_nn_norm_sparsity_refuted :
  exists (X : tensor R) (st : cpstate) (l1s : list R) (rank : nat) (norms : nat -> cpstate -> list R * list R),
    let st' := cp_normalize_m Rops (shape X) rank norms st in
    cp_sqerr Rops X (fst st') (snd st') rank = cp_sqerr Rops X (fst st) (snd st) rank /\
    nn_obj Rops X (fst st) (snd st) l1s rank < nn_obj Rops X (fst st') (snd st') l1s rank.
Proof. exact nn_norm_sparsity_refuted. Qed.
Print Assumptions C07_nn_norm_sparsity_refuted.

(* with l2_reg AND normalize_factors the renormalisation changes the ridge terms: no penalised objective descends across iterations *)
Theorem C07_cp_l2_norm_refuted :
  exists (X : tensor R) (st : cpstate) (lam : R) (rank : nat) (norms : nat -> cpstate -> list R * list R),
    let st' := cp_normalize_m Rops (shape X) rank norms st in
    0 < lam /\
    cp_sqerr Rops X (fst st') (snd st') rank = cp_sqerr Rops X (fst st) (snd st) rank /\
    cp_obj_all Rops X (fst st) (snd st) lam rank < cp_obj_all Rops X (fst st') (snd st') lam rank.
Proof. exact cp_l2_norm_refuted. Qed.
Print Assumptions C07_cp_l2_norm_refuted.

(* ---------- non-vacuity: the hypotheses of the theorems above are satisfiable (and the descent can be strict) ---------- *)
Example C07_cp_nonvacuous :
  let X := mk [2;2]%nat [1;2;3;4] in let w := [1] in let facs := [[[1];[1]]; [[1];[2]]] in
  let x := [[1];[11/5]] in
  (0 < length (shape X))%nat /\ (0 < length facs)%nat /\
  (forall i r : nat, (i < nth 0 (shape X) 0)%nat -> (r < 1)%nat ->
     cp_cert_lhs Rops (shape X) w facs 0 0 1 x i r = cp_mttkrp Rops X w facs 0 i r) /\
  cp_obj Rops X w (set_nth 0 x facs) 0 0 1 < cp_obj Rops X w facs 0 0 1.
Proof.
  cbv zeta. split; [simpl; lia|]. split; [simpl; lia|]. split.
  - intros i r Hi Hr. simpl in Hi. assert (r = 0%nat) by lia; subst r.
    destruct i as [|[|i]]; [| |lia]; vm_compute; field.
  - vm_compute. lra.
Qed.

Example C07_sweep_nonvacuous :
  let X := mk [2;2]%nat [1;2;3;4] in let w := [1] in let facs := [[[1];[1]]; [[1];[2]]] in
  let solve := fun _ _ : list (list R) => [[1];[11/5]] in
  sweep_ok X w 0 1 solve [0%nat] facs /\ run_ok _ (cp_sweep Rops solve X w 0 1 [0%nat]) (sweep_ok X w 0 1 solve [0%nat]) 1 facs.
Proof.
  cbv zeta.
  assert (H : sweep_ok (mk [2;2]%nat [1;2;3;4]) [1] 0 1 (fun _ _ : list (list R) => [[1];[11/5]]) [0%nat] [[[1];[1]]; [[1];[2]]]).
  { split; [|exact I]. split; [simpl; lia|]. split; [simpl; lia|].
    intros i r Hi Hr. simpl in Hi. assert (r = 0%nat) by lia; subst r.
    destruct i as [|[|i]]; [| |lia]; vm_compute; field. }
  split; [exact H|]. intros i Hi. assert (i = 0%nat) by lia; subst i. exact H.
Qed.

Example C07_hals_nonvacuous :
  let G := [[2;1];[1;2]] in let V := [[1;1];[1;1]] in
  (forall i j : nat, mget Rops G i j = mget Rops G j i) /\ (forall k : nat, 0 <= mget Rops G k k) /\
  length V = 2%nat /\ feasible 0 2 2 V.
Proof.
  cbv zeta. repeat split.
  - intros i j. destruct i as [|[|[|i]]]; destruct j as [|[|[|j]]]; reflexivity.
  - intros k. destruct k as [|[|k]]; vm_compute; try lra. destruct k; lra.
  - intros k c Hk Hc. destruct k as [|[|k]]; destruct c as [|[|c]]; try lia; vm_compute; lra.
Qed.

Example C07_ls_nonvacuous :
  forall j c : nat, (j < 1)%nat -> (c < 1)%nat ->
  ls_normal_lhs Rops [[1];[1]] [[1];[3]] [[2]] 2 1 j c = 0 * mget Rops [[2]] j c.
Proof. intros j c Hj Hc. assert (j = 0%nat) by lia. assert (c = 0%nat) by lia. subst. vm_compute. ring. Qed.

Example C07_cp_hals_nonvacuous :
  let X := mk [2;2]%nat [1;2;3;4] in let facs := [[[1];[1]]; [[1];[2]]] in
  (0 < length (shape X))%nat /\ (0 < length facs)%nat /\
  (forall i r : nat, (i < nth 0 (shape X) 0)%nat -> (r < 1)%nat -> 0 <= mget Rops (nth 0 facs []) i r).
Proof.
  cbv zeta. split; [simpl; lia|]. split; [simpl; lia|].
  intros i r Hi Hr. simpl in Hi. assert (r = 0%nat) by lia; subst r. destruct i as [|[|i]]; [| |lia]; vm_compute; lra.
Qed.

(* orthonormal columns / Ky Fan / Procrustes hypotheses are satisfiable: U = first unit vector of R^2, Y = X = (1, 0)' *)
Example C07_orth_nonvacuous :
  orthonormal 2 1 e1 /\
  (forall W : fmat, orthonormal 2 1 W -> frob2 1 1 (mmul 2 (mT W) e1) <= frob2 1 1 (mmul 2 (mT e1) e1)) /\
  (forall W : fmat, orthonormal 2 1 W -> minner 2 1 W (mmul 1 e1 (mT e1)) <= minner 2 1 e1 (mmul 1 e1 (mT e1))).
Proof.
  split; [|split].
  - intros a b Ha Hb. assert (a = 0%nat) by lia. assert (b = 0%nat) by lia. subst. vm_compute. ring.
  - intros W HW. specialize (HW 0%nat 0%nat ltac:(lia) ltac:(lia)). unfold delta in HW. simpl in HW.
    unfold frob2, mmul, mT, e1. simpl. nra.
  - intros W HW. specialize (HW 0%nat 0%nat ltac:(lia) ltac:(lia)). unfold delta in HW. simpl in HW.
    unfold minner, mmul, mT, e1. simpl. nra.
Qed.

(* the contract on the norms is satisfiable (constant norm 2 for every column of every mode) *)
Example C07_normalize_nonvacuous :
  let X := mk [2;2]%nat [1;2;3;4] in let st := ([1], [[[1];[1]]; [[1];[2]]]) in
  normalize_ok X 1 (fun _ _ => ([2], [2])) (seq 0 (length (shape X))) (cp_absorb0 Rops (shape X) 1 st).
Proof.
  cbv zeta. cbn [shape length seq normalize_ok fst snd].
  assert (H : forall k (s0 : cpstate), scales_ok (mk [2;2]%nat [1;2;3;4]) 1 [2] [2] k s0).
  { intros k s0 r Hr. assert (r = 0%nat) by lia; subst r. cbn [nth]. split; [lra | left; reflexivity]. }
  split; [simpl; lia|]. split; [apply H|]. split; [simpl; lia|]. split; [apply H | exact I].
Qed.

Example C07_nn_sweep_nonvacuous :
  let X := mk [2;2]%nat [1;2;3;4] in let facs := [[[1];[1]]; [[1];[2]]] in
  nn_sweep_ok X [1] 1 [0;0] 0 (fun _ _ : list (list R) => []) [(0%nat, BHals 2)] facs.
Proof.
  cbv zeta. split; [|exact I]. split; [simpl; lia|]. split; [simpl; lia|].
  intros i r Hi Hr. simpl in Hi. assert (r = 0%nat) by lia; subst r. destruct i as [|[|i]]; [| |lia]; vm_compute; lra.
Qed.

(* one sample X = [1;2], response 5, reg 0, W = ([3]) on the single mode of size 2 ... the normal equations are satisfiable *)
Example C07_cpreg_nonvacuous :
  let Xs := [mk [2]%nat [1;2]] in let A := [[1];[2]] in
  forall i r : nat, (i < 2)%nat -> (r < 1)%nat ->
  cpreg_normal_lhs Rops Xs [5] [1] [[[0];[0]]] 0 1 A i r = 0 * mget Rops A i r.
Proof.
  cbv zeta. intros i r Hi Hr. assert (r = 0%nat) by lia; subst r. destruct i as [|[|i]]; [| |lia]; vm_compute; ring.
Qed.

(* orth_all is satisfiable (2 x 2 tensor, first unit vectors as factors); the normal equations of the coupled block too *)
Example C07_tucker_nonvacuous : orth_all [2;2]%nat [1;1]%nat [[[1];[0]]; [[1];[0]]].
Proof.
  assert (H : orthonormal 2 1 (mget Rops [[1];[0]])).
  { intros a b Ha Hb. assert (a = 0%nat) by lia. assert (b = 0%nat) by lia. subst. vm_compute. ring. }
  simpl. repeat split; exact H.
Qed.
Example C07_cmtf_nonvacuous :
  let X := mk [2;1]%nat [2;4] in let facs := [[[0];[0]]; [[1]]] in
  forall i r : nat, (i < 2)%nat -> (r < 1)%nat ->
  cmtf_cert_lhs Rops (shape X) [1] facs [[1]] 1 1 [[3/2];[3]] i r = cmtf_M Rops X [[1];[2]] [1] facs [[1]] 1 i r.
Proof.
  cbv zeta. intros i r Hi Hr. assert (r = 0%nat) by lia; subst r. destruct i as [|[|i]]; [| |lia]; vm_compute; field.
Qed.

(* one sample X = [1;2] with response 5, reg 0, factor W = (1;2)' of rank 1: the core G = [1] satisfies the core block's normal equations *)
Example C07_tkreg_nonvacuous :
  forall q : nat, (q < prod [1]%nat)%nat ->
  tkreg_core_normal_lhs Rops [mk [2]%nat [1;2]] [5] [1]%nat [1] [[[1];[2]]] q = 0 * nth q [1] 0.
Proof. intros q Hq. simpl in Hq. assert (q = 0%nat) by lia; subst q. vm_compute. ring. Qed.

(* a well-formed ring of two 1 x 2 x 1 cores: the chain conditions are satisfiable *)
Example C07_tr_nonvacuous :
  let G := mk [1;2;1]%nat [1;2] in
  chain_ok 1 [] (nth 0 (shape G) 0%nat) /\ chain_ok (nth 2 (shape G) 0%nat) [G] 1 /\ (0 < nth 2 (shape G) 0)%nat.
Proof. cbv zeta. simpl. repeat split; lia. Qed.

(* round 5: the spectral certificate (Y = first unit vector of R^2, Q = I, lam = (1, 0)) and the thin-SVD certificate
   (Z = first unit vector, A = Z, sg = (1), B = (1)) are satisfiable, and the unit vector attains both optimal values *)
Example C07_spectral_nonvacuous :
  let Q := (fun i j : nat => if Nat.eqb i j then 1 else 0) : fmat in let lam := fun i : nat => match i with O => 1 | _ => 0 end in
  spectral_cert 2 1 e1 Q lam /\ orthonormal 2 1 e1 /\ rsum 1 lam <= frob2 1 1 (mmul 2 (mT e1) e1).
Proof.
  cbv zeta. split; [|split].
  - unfold spectral_cert. repeat split.
    + intros a b Ha Hb. destruct a as [|[|a]]; destruct b as [|[|b]]; try lia; vm_compute; ring.
    + intros a b Ha Hb. destruct a as [|[|a]]; destruct b as [|[|b]]; try lia; vm_compute; ring.
    + intros i j Hi Hj. destruct i as [|[|i]]; destruct j as [|[|j]]; try lia; vm_compute; ring.
    + intros i j Hij Hj. destruct i as [|[|i]]; destruct j as [|[|j]]; try lia; lra.
  - intros a b Ha Hb. assert (a = 0%nat) by lia. assert (b = 0%nat) by lia. subst. vm_compute. ring.
  - vm_compute. lra.
Qed.

Example C07_procrustes_nonvacuous :
  let B := (fun _ _ : nat => 1) : fmat in let sg := fun _ : nat => 1 in
  (forall k : nat, (k < 1)%nat -> rsum 2 (fun i => e1 i k * e1 i k) = 1) /\ orthonormal 1 1 B /\ (forall k : nat, (k < 1)%nat -> 0 <= sg k) /\
  (forall i j : nat, (i < 2)%nat -> (j < 1)%nat -> e1 i j = rsum 1 (fun k => e1 i k * sg k * B j k)) /\
  orthonormal 2 1 e1 /\ rsum 1 sg <= minner 2 1 e1 e1.
Proof.
  cbv zeta. repeat split.
  - intros k Hk. assert (k = 0%nat) by lia; subst. vm_compute. ring.
  - intros a b Ha Hb. assert (a = 0%nat) by lia. assert (b = 0%nat) by lia. subst. vm_compute. ring.
  - intros; lra.
  - intros i j Hi Hj. assert (j = 0%nat) by lia; subst. destruct i as [|[|i]]; try lia; vm_compute; ring.
  - intros a b Ha Hb. assert (a = 0%nat) by lia. assert (b = 0%nat) by lia. subst. vm_compute. ring.
  - vm_compute. lra.
Qed.

(* a HOOI block at tensor level: X = e1 (x) e1 (2 x 2), ranks (1, 1), factors e1, e1; the oracle answers e1: the contract of
   C07_hooi_sweep_descent holds at this state, so sweeps / runs of any length over mode 0 are covered *)
Example C07_hooi_sweep_nonvacuous :
  let X := mk [2;2]%nat [1;0;0;0] in let Us := [[[1];[0]]; [[1];[0]]] in
  hooi_sweep_ok X [1;1]%nat (fun _ _ => [[1];[0]]) [0%nat] Us.
Proof.
  cbv zeta.
  assert (H : orthonormal 2 1 (mget Rops [[1];[0]])).
  { intros a b Ha Hb. assert (a = 0%nat) by lia. assert (b = 0%nat) by lia. subst. vm_compute. ring. }
  split; [|exact I]. unfold hooi_block_ok, hooi_block. cbn [shape length nth set_nth].
  split; [lia|]. split; [reflexivity|]. split; [lia|]. split; [lia|].
  split; [simpl; repeat split; exact H|]. split; [simpl; repeat split; exact H|].
  exists (fun i j : nat => if Nat.eqb i j then 1 else 0), (fun i : nat => match i with O => 1 | _ => 0 end).
  split.
  - unfold spectral_cert. repeat split.
    + intros a b Ha Hb. destruct a as [|[|a]]; destruct b as [|[|b]]; try lia; vm_compute; ring.
    + intros a b Ha Hb. destruct a as [|[|a]]; destruct b as [|[|b]]; try lia; vm_compute; ring.
    + intros i j Hi Hj. destruct i as [|[|i]]; destruct j as [|[|j]]; try lia; vm_compute; ring.
    + intros i j Hij Hj. destruct i as [|[|i]]; destruct j as [|[|j]]; try lia; lra.
  - vm_compute. lra.
Qed.

(* line search: with an arbitrary jump the composite step is defined and descends whenever the sweep does (trivial state space) *)
Example C07_ls_step_nonvacuous : ls_step R (fun x => x) (fun x => x / 2) (fun _ a => a - 1) 4 = 1.
Proof. unfold ls_step, ls_choose. destruct (Rlt_dec (4 / 2 - 1) 4); lra. Qed.

(* review r2 1.3: the remaining hypotheses are satisfiable.  Tensor ring of two 1 x 2 x 1 cores fitting X = (1,2)' (1,2) exactly: the new core
   satisfies the normal equations of the block (old core arbitrary) *)
Example C07_tr_block_nonvacuous :
  let X := mk [2;2]%nat [1;2;2;4] in let G := mk [1;2;1]%nat [1;2] in let G0 := mk [1;2;1]%nat [0;0] in
  forall i j : nat, (i < 2)%nat -> (j < 1 * 1)%nat -> tr_normal_lhs Rops X ([] ++ G0 :: [G]) 0 G i j = 0.
Proof.
  cbv zeta. intros i j Hi Hj. assert (j = 0%nat) by lia; subst j. destruct i as [|[|i]]; [| |lia]; vm_compute; ring.
Qed.

(* Tucker regressor, factor block: one sample X = [1;2] with response 5, core [1]: the factor (1;2)' predicts 5 exactly and satisfies the normal equations *)
Example C07_tkreg_fac_nonvacuous :
  let A := [[1];[2]] in
  forall i b : nat, (i < 2)%nat -> (b < 1)%nat ->
  tkreg_fac_normal_lhs Rops [mk [2]%nat [1;2]] [5] [1]%nat [1] [[[0];[0]]] 0 A i b = 0 * mget Rops A i b.
Proof.
  cbv zeta. intros i b Hi Hb. assert (b = 0%nat) by lia; subst b. destruct i as [|[|i]]; [| |lia]; vm_compute; ring.
Qed.

(* parafac(normalize_factors=True): the contract of one iteration 'sweep then cp_normalize' is satisfiable *)
Example C07_sweep_norm_nonvacuous :
  let X := mk [2;2]%nat [1;2;3;4] in let st := ([1], [[[1];[1]]; [[1];[2]]]) in
  let solve := fun _ _ : list (list R) => [[1];[11/5]] in
  sweep_norm_ok X 1 (fun _ _ => ([2], [2])) solve [0%nat] st.
Proof.
  cbv zeta. unfold sweep_norm_ok. cbn [shape length fst snd].
  split; [lia|]. split; [reflexivity|]. split.
  - split; [|exact I]. split; [simpl; lia|]. split; [simpl; lia|].
    intros i r Hi Hr. simpl in Hi. assert (r = 0%nat) by lia; subst r.
    destruct i as [|[|i]]; [| |lia]; vm_compute; field.
  - cbn [seq normalize_ok fst snd].
    assert (H : forall k (s0 : cpstate), scales_ok (mk [2;2]%nat [1;2;3;4]) 1 [2] [2] k s0).
    { intros k s0 r Hr. assert (r = 0%nat) by lia; subst r. cbn [nth]. split; [lra | left; reflexivity]. }
    split; [simpl; lia|]. split; [apply H|]. split; [simpl; lia|]. split; [apply H | exact I].
Qed.

(* in-sweep renormalisation of non_negative_parafac_hals: one HALS block on mode 0 followed by cp_normalize (constant norms 2) satisfies the contract *)
Example C07_nn_norm_nonvacuous :
  let X := mk [2;2]%nat [1;2;3;4] in let st := ([1], [[[1];[1]]; [[1];[2]]]) in
  nnn_sweep_ok X 1 0 [0;0] (fun _ _ : list (list R) => []) (fun _ _ => ([2], [2])) [((0%nat, BHals 1), true)] st.
Proof.
  cbv zeta. split; [|exact I]. unfold nnn_block_ok. cbn [fst snd]. split.
  - split; [simpl; lia|]. split; [simpl; lia|].
    intros i r Hi Hr. simpl in Hi. assert (r = 0%nat) by lia; subst r. destruct i as [|[|i]]; [| |lia]; vm_compute; lra.
  - intros _. cbn [shape length]. split; [lia|]. split; [reflexivity|].
    cbn [seq normalize_ok fst snd].
    assert (H : forall k (s0 : cpstate), scales_ok (mk [2;2]%nat [1;2;3;4]) 1 [2] [2] k s0).
    { intros k s0 r Hr. assert (r = 0%nat) by lia; subst r. cbn [nth]. split; [lra | left; reflexivity]. }
    split; [simpl; lia|]. split; [apply H|]. split; [simpl; lia|]. split; [apply H | exact I].
Qed.

(* fixed_modes = [2; 0] on a third-order tensor: the last mode cannot be fixed, modes 1 and 2 are updated; [1; 2; 0] fixes everything *)
Example C07_modes_example : cp_modes_list 3 [2; 0]%nat = [1; 2]%nat /\ cp_all_fixed 3 [1; 2; 0]%nat = true /\ nn_modes_list 3 [2; 0]%nat = [1]%nat.
Proof. repeat split; reflexivity. Qed.

(* round 6: the hypotheses of the HOOI result (C07_hooi_unfolding_block_descent / C07_hooi_sweep_descent: orthonormal factors before and after,
   spectral certificate of the unfolding, attained value) discharged JOINTLY on a concrete 2 x 2 x 2 instance over R, with STRICT descent:
   X[0,0,0] = 3, X[1,0,0] = 4, X[1,1,1] = 1, ranks (1,1,1), factors e1, e1, e1; the unfolding of mode 0 is Y = (3, 4)', Y Y' = [[9,12],[12,16]]
   = Q diag(25, 0) Q' with Q = [[3/5, -4/5], [4/5, 3/5]]; the oracle answers (3/5, 4/5)'; the Tucker objective drops from 17 to 1 *)
Example C07_hooi_222_nonvacuous :
  let X := mk [2;2;2]%nat [3;0;0;0;4;0;0;1] in let Us := [[[1];[0]]; [[1];[0]]; [[1];[0]]] in
  let svd := fun (_ : list (list (list R))) (_ : nat) => [[3/5];[4/5]] in
  hooi_sweep_ok X [1;1;1]%nat svd [0%nat] Us /\
  tk_hooi_obj Rops X [1;1;1]%nat (hooi_sweep svd [0%nat] Us) < tk_hooi_obj Rops X [1;1;1]%nat Us.
Proof.
  cbv zeta.
  assert (H : orthonormal 2 1 (mget Rops [[1];[0]])).
  { intros a b Ha Hb. assert (a = 0%nat) by lia. assert (b = 0%nat) by lia. subst. vm_compute. ring. }
  assert (H' : orthonormal 2 1 (mget Rops [[3/5];[4/5]])).
  { intros a b Ha Hb. assert (a = 0%nat) by lia. assert (b = 0%nat) by lia. subst. vm_compute. field. }
  split.
  - split; [|exact I]. unfold hooi_block_ok, hooi_block. cbn [shape length nth set_nth].
    split; [lia|]. split; [reflexivity|]. split; [lia|]. split; [lia|].
    split; [simpl; repeat split; exact H|]. split; [simpl; repeat split; first [exact H' | exact H]|].
    exists (fun i j : nat => match i, j with O, O => 3/5 | O, S O => -4/5 | S O, O => 4/5 | S O, S O => 3/5 | _, _ => 0 end),
           (fun i : nat => match i with O => 25 | _ => 0 end).
    split.
    + unfold spectral_cert. repeat split.
      * intros a b Ha Hb. destruct a as [|[|a]]; destruct b as [|[|b]]; try lia; vm_compute; field.
      * intros a b Ha Hb. destruct a as [|[|a]]; destruct b as [|[|b]]; try lia; vm_compute; field.
      * intros i j Hi Hj. destruct i as [|[|i]]; destruct j as [|[|j]]; try lia; vm_compute; field.
      * intros i j Hij Hj. destruct i as [|[|i]]; destruct j as [|[|j]]; try lia; lra.
    + vm_compute. lra.
  - vm_compute. lra.
Qed.

(* round 7: the loop with the stopping rules of the code is executable (exact rationals): the regressors' rule `it > 1 and |a-b|/a <= tol` fires at the
   fourth iteration on the recorded norms 1, 2, 2.1, 2.11, 2.111 with tol = 1/100, parafac's `it >= 1 and |b-a| < tol` at the fifth; tol = 0 switches parafac's
   test off (n_iter_max iterations).  And the hypotheses of C07_loop_final_descent / C07_loop_history_nonincreasing are satisfiable with a rule that fires:
   halving a non-negative number, stop as soon as the newest value is below 1: from 8 the loop returns 1/2 after 4 of 10 iterations *)
Example C07_loop_rules_nonvacuous :
  tape_iters Qops (rule_of Qops 5 false (1#100)) 10 [1#1; 2#1; 21#10; 211#100; 2111#1000]%Q = 4%nat /\
  tape_iters Qops (rule_of Qops 0 true (1#100)) 10 [1#1; 2#1; 21#10; 211#100; 2111#1000]%Q = 5%nat /\
  tape_iters Qops (rule_of Qops 0 true 0%Q) 5 [1#1; 2#1; 21#10; 211#100; 2111#1000]%Q = 5%nat /\
  tape_iters Qops (rule_of Qops 4 false (1#10)) 10 [4#1; 2#1; 19#10; 18#10]%Q = 3%nat /\
  tape_iters Qops (rule_of Qops 6 false (1#10)) 10 [4#1; 2#1; 1#2; 3#10; 1#10]%Q = 4%nat.
Proof. vm_compute. repeat split; reflexivity. Qed.
Example C07_loop_nonvacuous :
  let step := fun x : R => x / 2 in let ok := fun x : R => 0 <= x in
  (forall s : R, ok s -> step s <= s) /\ run_ok R step ok 10 8 /\
  (exists m : nat, (m <= 10)%nat /\ (0 < m)%nat /\ fst (run_loop R R step (fun x => x) (fun _ h => match h with a :: _ => if Rlt_dec a 1 then true else false | [] => false end) 10 8) = Nat.iter m step 8).
Proof.
  cbv zeta. split; [intros s Hs; lra|]. split.
  - intros i _. induction i as [|i IH]; simpl; lra.
  - destruct (C07_loop_spec R R (fun x : R => x / 2) (fun x => x) (fun _ h => match h with a :: _ => if Rlt_dec a 1 then true else false | [] => false end) 10 8)
      as (m & Hm & Hp & Hl & _). exists m. rewrite Hl. repeat split; [exact Hm | apply Hp; lia].
Qed.
