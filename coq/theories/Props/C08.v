(* C08 -- property theorems only.  Statements are about the structural model of the decompositions
   (Model/Structure.v: rank validators, shape flow, loop skeleton of the CP drivers) and, over R, about
   matrices given as functions nat -> nat -> R with explicit dimensions (Proofs/StructureProofsR.v).
   `_partial` = holds under the named extra hypothesis; `_refuted` = witnesses that the hypothesis is needed
   (here: for the control flow before the repairs 3de556b / fe25b5c, kept as regression witnesses). *)
From Coq Require Import List Arith ZArith QArith Reals Bool Lia.
From TLV Require Import Base.Shape Base.Tensor Base.RSum Model.Structure Proofs.StructureProofs Proofs.StructureProofsR.
Import ListNotations.
Local Open Scope nat_scope.

(* ================================================================== shapes and ranks (nat logic) *)

(* validate_tt_rank: whatever the specification (int, list, fraction / 'same'; rounding; constant_rank;
   allow_overparametrization) an accepted rank has n+1 entries and boundary ranks 1 *)
Theorem C08_validate_tt_rank_boundary : forall shape spec constant rd ao c r, shape <> [] ->
  validate_tt_rank shape spec constant rd ao c = Ok r ->
  length r = S (length shape) /\ hd 0 r = 1 /\ last r 0 = 1.
Proof. exact validate_tt_rank_boundary. Qed.
Print Assumptions C08_validate_tt_rank_boundary.
Example C08_validate_tt_rank_boundary_ex :
  validate_tt_rank [3; 4; 5] (RFrac (1 # 2)) false RRound false (7 # 10) = Ok [1; 2; 3; 1].
Proof. vm_compute. reflexivity. Qed.

(* tensor_train: one order-3 core per mode, core k = (r_k, I_k, r_k+1), boundary ranks 1, achieved ranks bounded by
   the validated request -- for every order (induction over the list of modes) *)
Theorem C08_tensor_train_structure : forall shape spec c cores,
  tensor_train shape spec c = Ok cores ->
  exists requested, validate_tt_rank shape spec false RRound true c = Ok requested /\
  let rs := core_ranks cores in
  length cores = length shape /\ core_modes cores = shape /\
  length rs = S (length shape) /\ hd 0 rs = 1 /\ last rs 0 = 1 /\
  (forall k, k < length shape -> nth k cores [] = [nth k rs 0; nth k shape 0; nth (S k) rs 0]) /\
  (forall k, k <= length shape -> nth k rs 0 <= nth k requested 0).
Proof. exact tensor_train_structure. Qed.
Print Assumptions C08_tensor_train_structure.
Example C08_tensor_train_structure_ex : tensor_train [2; 3; 4] (RInt 5) 0 = Ok [[1; 2; 2]; [2; 3; 4]; [4; 4; 1]].
Proof. vm_compute. reflexivity. Qed.

(* validate_tr_rank: n+1 entries, first = last *)
Theorem C08_validate_tr_rank_boundary : forall shape spec rd r, validate_tr_rank shape spec rd = Ok r ->
  length r = S (length shape) /\ hd 0 r = last r 0.
Proof. exact validate_tr_rank_boundary. Qed.
Print Assumptions C08_validate_tr_rank_boundary.

(* tensor_ring, any start mode: one core per mode in the ORIGINAL mode order, consecutive cores share a rank and the
   ring closes (last rank = first rank) *)
Theorem C08_tensor_ring_structure : forall shape spec mode cores, tensor_ring shape spec mode = Ok cores ->
  length cores = length shape /\ core_modes cores = shape /\ cyc_chain cores /\
  nth 2 (last cores []) 0 = nth 0 (hd [] cores) 0.
Proof. exact tensor_ring_structure. Qed.
Print Assumptions C08_tensor_ring_structure.
Example C08_tensor_ring_structure_ex : tensor_ring [4; 3; 2] (RList [2; 1; 3; 2]) 1 = Ok [[2; 4; 1]; [1; 3; 3]; [3; 2; 2]].
Proof. vm_compute. reflexivity. Qed.

(* tucker / HOOI: factor k is I_k x c_k, the core is c_0 x ... x c_N-1 with c_k = min(requested_k, I_k) whenever the
   factors come from an SVD (every case except random init with zero iterations, where c_k = requested_k) *)
Theorem C08_tucker_structure : forall shape spec c ri n out, tucker shape spec c ri n = Ok out ->
  exists requested core factors, validate_tucker_rank shape spec RRound c = Ok requested /\ out = core :: factors /\
  length core = length shape /\ length factors = length shape /\
  (forall k, k < length shape -> nth k factors [] = [nth k shape 0; nth k core 0]) /\
  (ri && (n =? 0) = false -> forall k, k < length shape -> nth k core 0 = Nat.min (nth k requested 0) (nth k shape 0)) /\
  (ri && (n =? 0) = true -> core = requested).
Proof. exact tucker_structure. Qed.
Print Assumptions C08_tucker_structure.
Example C08_tucker_structure_ex : tucker [2; 5] (RList [4; 3]) 0 false 1 = Ok [[2; 3]; [2; 2]; [5; 3]].
Proof. vm_compute. reflexivity. Qed.
(* U[:, :r] of the truncated SVD of an s x p unfolding has min r s columns, whatever p is *)
Theorem C08_svd_shapes_cols : forall s p r, fst (fst (svd_shapes s p r)) = Nat.min r s.
Proof. exact svd_shapes_cols. Qed.
Print Assumptions C08_svd_shapes_cols.

(* parafac / non_negative_parafac / non_negative_parafac_hals: weights (r), factor k is I_k x r, r the validated rank *)
Theorem C08_parafac_structure : forall shape spec out, parafac shape spec = Ok out ->
  exists r, validate_cp_rank shape spec RRound = Ok r /\ out = [r] :: map (fun s => [s; r]) shape.
Proof. exact parafac_structure. Qed.
Print Assumptions C08_parafac_structure.

(* ================================================================== the normalisation contract (loop skeleton) *)
(* St: any state space; sweep: one ALS / MU / HALS sweep; normalise: cp_normalize; decisions: per executed sweep
   (callback asked to stop, convergence test fired) -- every history is a decision sequence; n: the iteration cap *)

(* normalize_factors = True => the returned state is normalised: for every cap (0 and 1 included), every decision
   sequence (cap exit, convergence exit, callback stop), every kind of initialisation, all modes fixed or not *)
Theorem C08_cp_normalised : forall (St : Type) (sweep normalise : St -> St) (Normalised : St -> Prop),
  (forall s, Normalised (normalise s)) ->
  forall tol_set ik all_fixed n decisions s0,
  Normalised (cp_run St sweep normalise true tol_set ik all_fixed n decisions s0).
Proof. exact cp_run_normalised. Qed.
Print Assumptions C08_cp_normalised.
(* normalize_factors = False => the weights are all ones, on every path *)
Theorem C08_cp_unit_weights : forall (St : Type) (sweep normalise : St -> St) (UnitWeights : St -> Prop),
  (forall s, UnitWeights s -> UnitWeights (sweep s)) ->
  forall tol_set ik all_fixed n decisions s0,
  UnitWeights s0 -> UnitWeights (cp_run St sweep normalise false tol_set ik all_fixed n decisions s0).
Proof. exact cp_run_unit_weights. Qed.
Print Assumptions C08_cp_unit_weights.
(* non-vacuity: a state space on which a sweep really destroys normalisation *)
Example C08_cp_normalised_ex : forall tol_set ik all_fixed n decisions, ghost_run true tol_set ik all_fixed n decisions = true.
Proof. exact ghost_normalised. Qed.

(* the instance compared with the implementation on every run (event traces of factor updates and cp_normalize calls) *)
Theorem C08_trace_ends_normalised : forall d tol_set ik n_modes fixed n decisions,
  ends_normalised (trace_run d true tol_set ik n_modes fixed n decisions) = true.
Proof. exact trace_run_ends_normalised. Qed.
Print Assumptions C08_trace_ends_normalised.
Theorem C08_trace_never_normalises : forall d tol_set ik n_modes fixed n decisions,
  any_normalise (trace_run d false tol_set ik n_modes fixed n decisions) = false.
Proof. exact trace_run_never_normalises. Qed.
Print Assumptions C08_trace_never_normalises.
Example C08_trace_ex : trace_run NnMu true true InitSvd 3 [0] 2 [(false, false); (false, true)]
                       = [EvN; EvU 1; EvN; EvU 2; EvN; EvU 1; EvN; EvU 2; EvN].
Proof. vm_compute. reflexivity. Qed.

(* regression witnesses.  Before 3de556b a user initialisation was returned as it came when no sweep ran, and a callback
   stop returned the un-normalised iterate; on all other paths that control flow was right and equals the present one.
   Before fe25b5c the convergence exit returned un-normalised factors. *)
Theorem C08_old_flow_normalised_partial : forall (St : Type) (sweep normalise : St -> St) (Normalised : St -> Prop),
  (forall s, Normalised (normalise s)) ->
  forall tol_set ik all_fixed n decisions s0,
  no_callback_stop decisions -> ik <> InitUser \/ (0 < n /\ all_fixed = false) ->
  Normalised (cp_run_old St sweep normalise true tol_set ik all_fixed n decisions s0).
Proof. exact cp_run_old_normalised. Qed.
Print Assumptions C08_old_flow_normalised_partial.
Theorem C08_old_flow_refuted :
  (forall tol_set decisions, ghost_run_old true tol_set InitUser false 0 decisions = false) /\
  (forall tol_set n decisions, ghost_run_old true tol_set InitUser true n decisions = false) /\
  (forall tol_set ik n decisions, ghost_run_old true tol_set ik false (S n) ((true, false) :: decisions) = false) /\
  ghost_run_pinned true true 2 [false; true] = false.
Proof. exact (conj ghost_old_user_cap0 (conj ghost_old_user_all_fixed (conj ghost_old_callback_stop ghost_pinned_break))). Qed.
Print Assumptions C08_old_flow_refuted.
Theorem C08_repair_changes_nothing_else : forall (St : Type) (sweep normalise : St -> St) nf tol_set ik all_fixed n decisions s0,
  no_callback_stop decisions -> ik <> InitUser ->
  cp_run St sweep normalise nf tol_set ik all_fixed n decisions s0 = cp_run_old St sweep normalise nf tol_set ik all_fixed n decisions s0.
Proof. exact cp_run_same. Qed.
Print Assumptions C08_repair_changes_nothing_else.

(* ================================================================== canonical form over R *)
Local Open Scope R_scope.

(* Tucker / TT: U[:, :r] (any injective selection of columns) of a matrix with orthonormal columns has orthonormal columns *)
Theorem C08_orthonormal_cols_select : forall m k k' (M : nat -> nat -> R) (sel : nat -> nat),
  orthonormal_cols m k M ->
  (forall a, (a < k')%nat -> (sel a < k)%nat) ->
  (forall a b, (a < k')%nat -> (b < k')%nat -> sel a = sel b -> a = b) ->
  orthonormal_cols m k' (fun i a => M i (sel a)).
Proof. exact orthonormal_cols_select. Qed.
Print Assumptions C08_orthonormal_cols_select.
Theorem C08_orthonormal_cols_truncate : forall m k r (M : nat -> nat -> R),
  orthonormal_cols m k M -> (r <= k)%nat -> orthonormal_cols m r M.
Proof. exact orthonormal_cols_truncate. Qed.
Print Assumptions C08_orthonormal_cols_truncate.

(* PARAFAC2: the projection (U Vh)^T built from U (r x k) and Vh (k x n) with orthonormal rows has orthonormal
   columns, hence every evolving factor P_i B has the cross product B^T B *)
Theorem C08_projection_orthonormal : forall r k n (U Vh : nat -> nat -> R),
  orthonormal_rows r k U -> orthonormal_rows k n Vh -> orthonormal_cols n r (mtranspose (mmul k U Vh)).
Proof. exact projection_orthonormal. Qed.
Print Assumptions C08_projection_orthonormal.
Theorem C08_parafac2_cross_product : forall n r (P B : nat -> nat -> R) a b, orthonormal_cols n r P ->
  rsum n (fun j => mmul r P B j a * mmul r P B j b) = rsum r (fun l => B l a * B l b).
Proof. exact parafac2_cross_product. Qed.
Print Assumptions C08_parafac2_cross_product.

(* TT-SVD: the core obtained by reshaping U (rk*I x r, orthonormal columns) to (rk, I, r) is left-orthogonal *)
Theorem C08_tt_core_left_orthogonal : forall rk I r (U : nat -> nat -> R), orthonormal_cols (rk * I) r U ->
  forall b b', (b < r)%nat -> (b' < r)%nat ->
  rsum rk (fun a => rsum I (fun i => core_of I U a i b * core_of I U a i b')) = delta b b'.
Proof. exact tt_core_left_orthogonal. Qed.
Print Assumptions C08_tt_core_left_orthogonal.

(* one factor of cp_normalize: non-zero columns get unit norm, the scale (the column norm) times the normalised
   column gives the column back, zero columns stay zero with scale 0 *)
Theorem C08_normalise_factor_unit : forall I f r, colnorm2 I f r <> 0 -> colnorm2 I (normalise_factor I f) r = 1.
Proof. exact normalise_factor_unit. Qed.
Print Assumptions C08_normalise_factor_unit.
Theorem C08_normalise_factor_represents : forall I f r i, (i < I)%nat -> normalise_factor I f i r * scale_of I f r = f i r.
Proof. exact normalise_factor_represents. Qed.
Print Assumptions C08_normalise_factor_represents.
