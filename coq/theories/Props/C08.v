(* C08 -- property theorems only (placeholder while the proofs are being written). *)
From Coq Require Import List Arith.
From TLV Require Import Base.Shape Base.Tensor Model.Structure.
Import ListNotations.
