(* C08 -- property theorems only.  Statements are about
   - the structural model of the decompositions (Model/Structure.v: rank validators, shape flow, loop skeletons of the CP / nn-Tucker /
     PARAFAC2 drivers with respect to normalisation) and the HOOI skeleton of tucker / partial_tucker (Model/StructureHooi.v),
   - over an arbitrary commutative ring with conjugation (Proofs/StructureConj.v; R and C = R x R are instances): the Tucker canonical form
     for real and complex data -- unitary factors, core = projection with the CONJUGATE transpose, for tensors of every order,
   - over R, matrices given as functions nat -> nat -> R with explicit dimensions (Proofs/StructureProofsR.v, StructureNormR.v),
   - (round 8) the shape flow of the loops of tensor_ring_als (Model/StructureTrAls.v: cyclic sub-chain contraction, design-matrix reshape, least-squares
     solve; needs the closed rank list) and of coupled_matrix_tensor_3d_factorization (Model/StructureCmtf.v), for every cap and stopping path.
   `_partial` = holds under the named extra hypothesis; `_refuted` = witnesses that the hypothesis is needed (here only for control flows
   before repairs in /repo, named `_old_` / `before_<commit>`, kept as regression witnesses). *)
From Coq Require Import List Arith ZArith QArith Reals Bool Lia.
From TLV Require Import Base.Shape Base.Tensor Base.RSum Model.Structure Proofs.StructureProofs Proofs.StructureProofs2
  Proofs.StructureProofs3 Proofs.StructureProofs4 Proofs.StructureProofsQ Proofs.StructureProofsR Proofs.StructureNormR
  Base.BigSum Proofs.StructureConj Proofs.StructureConjR Proofs.StructureConjCompose Proofs.StructureTTConj Model.StructureWeights Proofs.StructureWeightsProofs Proofs.StructureP2Proofs Model.StructureHooi Proofs.StructureProofs5 Proofs.StructureHooiProofs Proofs.StructureHooiConj Model.StructureRanks Proofs.StructureRanksProofs.
From TLV Require Import Model.StructureQ.
Import ListNotations.
Local Open Scope nat_scope.

(* ================================================================== shapes and ranks (nat logic) *)

(* validate_tt_rank: whatever the specification (int, list, fraction / 'same'; rounding; constant_rank;
   allow_overparametrization) an accepted rank has n+1 entries and boundary ranks 1 *)
Theorem C08_validate_tt_rank_boundary : forall shape spec constant rd ao c r, shape <> [] ->
  validate_tt_rank shape spec constant rd ao c = Ok r ->
  length r = S (length shape) /\ hd 0 r = 1 /\ last r 0 = 1.
Proof. exact validate_tt_rank_boundary. Qed.
Print Assumptions C08_validate_tt_rank_boundary.
Example C08_validate_tt_rank_boundary_ex :
  validate_tt_rank [3; 4; 5] (RFrac (1 # 2)) false RRound false (7 # 10) = Ok [1; 2; 3; 1].
Proof. vm_compute. reflexivity. Qed.

(* tensor_train: one order-3 core per mode, core k = (r_k, I_k, r_k+1), boundary ranks 1, achieved ranks bounded by
   the validated request -- for every order (induction over the list of modes) *)
Theorem C08_tensor_train_structure : forall shape spec c cores,
  tensor_train shape spec c = Ok cores ->
  exists requested, validate_tt_rank shape spec false RRound true c = Ok requested /\
  let rs := core_ranks cores in
  length cores = length shape /\ core_modes cores = shape /\
  length rs = S (length shape) /\ hd 0 rs = 1 /\ last rs 0 = 1 /\
  (forall k, k < length shape -> nth k cores [] = [nth k rs 0; nth k shape 0; nth (S k) rs 0]) /\
  (forall k, k <= length shape -> nth k rs 0 <= nth k requested 0).
Proof. exact tensor_train_structure. Qed.
Print Assumptions C08_tensor_train_structure.
Example C08_tensor_train_structure_ex : tensor_train [2; 3; 4] (RInt 5) 0 = Ok [[1; 2; 2]; [2; 3; 4]; [4; 4; 1]].
Proof. vm_compute. reflexivity. Qed.

(* validate_tr_rank: n+1 entries, first = last *)
Theorem C08_validate_tr_rank_boundary : forall shape spec rd r, validate_tr_rank shape spec rd = Ok r ->
  length r = S (length shape) /\ hd 0 r = last r 0.
Proof. exact validate_tr_rank_boundary. Qed.
Print Assumptions C08_validate_tr_rank_boundary.

(* tensor_ring, any start mode: one core per mode in the ORIGINAL mode order, consecutive cores share a rank and the
   ring closes (last rank = first rank) *)
Theorem C08_tensor_ring_structure : forall shape spec mode cores, tensor_ring shape spec mode = Ok cores ->
  length cores = length shape /\ core_modes cores = shape /\ cyc_chain cores /\
  nth 2 (last cores []) 0 = nth 0 (hd [] cores) 0.
Proof. exact tensor_ring_structure. Qed.
Print Assumptions C08_tensor_ring_structure.
Example C08_tensor_ring_structure_ex : tensor_ring [4; 3; 2] (RList [2; 1; 3; 2]) 1 = Ok [[2; 4; 1]; [1; 3; 3]; [3; 2; 2]].
Proof. vm_compute. reflexivity. Qed.

(* tucker / HOOI: factor k is I_k x c_k, the core is c_0 x ... x c_N-1 with c_k = min(requested_k, I_k) whenever the
   factors come from an SVD (every case except random init with zero iterations, where c_k = requested_k) *)
Theorem C08_tucker_structure : forall shape spec c ri n out, tucker shape spec c ri n = Ok out ->
  exists requested core factors, validate_tucker_rank shape spec RRound c = Ok requested /\ out = core :: factors /\
  length core = length shape /\ length factors = length shape /\
  (forall k, k < length shape -> nth k factors [] = [nth k shape 0; nth k core 0]) /\
  (ri && (n =? 0) = false -> forall k, k < length shape -> nth k core 0 = Nat.min (nth k requested 0) (nth k shape 0)) /\
  (ri && (n =? 0) = true -> core = requested).
Proof. exact tucker_structure. Qed.
Print Assumptions C08_tucker_structure.
Example C08_tucker_structure_ex : tucker [2; 5] (RList [4; 3]) 0 false 1 = Ok [[2; 3]; [2; 2]; [5; 3]].
Proof. vm_compute. reflexivity. Qed.
(* U[:, :r] of the truncated SVD of an s x p unfolding has min r s columns, whatever p is *)
Theorem C08_svd_shapes_cols : forall s p r, fst (fst (svd_shapes s p r)) = Nat.min r s.
Proof. exact svd_shapes_cols. Qed.
Print Assumptions C08_svd_shapes_cols.

(* parafac / non_negative_parafac / non_negative_parafac_hals: weights (r), factor k is I_k x r, r the validated rank.
   DEFINITIONAL: the model of these drivers' shapes is this statement; it is tied to the code by the exact correspondence only.
   The same holds for C08_cmtf_structure, C08_tensor_ring_als_structure, C08_parafac2_structure, C08_tucker_structure,
   C08_tucker_fixed_structure (the TT / TT-matrix / TR theorems are inductions over the clipping recursion and the rotation). *)
Theorem C08_parafac_structure : forall shape spec out, parafac shape spec = Ok out ->
  exists r, validate_cp_rank shape spec RRound = Ok r /\ out = [r] :: map (fun s => [s; r]) shape.
Proof. exact parafac_structure. Qed.
Print Assumptions C08_parafac_structure.

(* tensor_train: when the validated request needs no clipping, the TT ranks are exactly the request *)
Theorem C08_tensor_train_exact_ranks : forall shape spec c cores requested,
  tensor_train shape spec c = Ok cores -> validate_tt_rank shape spec false RRound true c = Ok requested ->
  (forall k, S k < length shape ->
     nth (S k) requested 0 <= Nat.min (nth k requested 0 * nth k shape 0) (prod (skipn (S k) shape))) ->
  core_ranks cores = requested.
Proof. exact tensor_train_exact_ranks. Qed.
Print Assumptions C08_tensor_train_exact_ranks.
Example C08_tensor_train_exact_ranks_ex : tensor_train [3; 4; 5] (RList [1; 2; 3; 1]) 0 = Ok [[1; 3; 2]; [2; 4; 3]; [3; 5; 1]].
Proof. vm_compute. reflexivity. Qed.
(* ... and the no-clipping hypothesis holds for this request *)
Example C08_tensor_train_exact_ranks_hyp_ex : forall k, S k < length [3; 4; 5] ->
  nth (S k) [1; 2; 3; 1] 0 <= Nat.min (nth k [1; 2; 3; 1] 0 * nth k [3; 4; 5] 0) (prod (skipn (S k) [3; 4; 5])).
Proof. intros k Hk. simpl in Hk. destruct k as [|[|k]]; [vm_compute; lia | vm_compute; lia | lia]. Qed.

(* validate_tt_rank(allow_overparametrization=False) predicts exactly the TT ranks that tensor_train achieves (after 03a63dd) *)
Theorem C08_tensor_train_ranks_predicted : forall shape spec c cores r,
  tensor_train shape spec c = Ok cores -> validate_tt_rank shape spec false RRound false c = Ok r -> core_ranks cores = r.
Proof. exact tensor_train_ranks_predicted. Qed.
Print Assumptions C08_tensor_train_ranks_predicted.

(* tensor_train_matrix: n cores of order 4, core k = (r_k, in_k, out_k, r_k+1), boundary ranks 1 *)
Theorem C08_tensor_train_matrix_structure : forall tshape spec c out, tensor_train_matrix tshape spec c = Ok out ->
  let n := length tshape / 2 in
  length tshape = 2 * n /\ 1 <= n /\ length out = n /\
  exists rs, length rs = S n /\ hd 0 rs = 1 /\ last rs 0 = 1 /\
  forall k, k < n -> nth k out [] = [nth k rs 0; nth k tshape 0; nth (n + k) tshape 0; nth (S k) rs 0].
Proof. exact tensor_train_matrix_structure. Qed.
Print Assumptions C08_tensor_train_matrix_structure.
Example C08_tensor_train_matrix_structure_ex : tensor_train_matrix [2; 3; 3; 2] (RInt 4) 0 = Ok [[1; 2; 3; 4]; [4; 3; 2; 1]].
Proof. vm_compute. reflexivity. Qed.

(* tensor_ring, any start mode: the core computed first (the one of the start mode) has exactly the requested ranks *)
Theorem C08_tensor_ring_first_core : forall shape spec mode cores rank,
  tensor_ring shape spec mode = Ok cores -> validate_tr_rank shape spec RRound = Ok rank ->
  nth mode cores [] = [nth mode rank 0; nth mode shape 0; nth (S mode) rank 0].
Proof. exact tensor_ring_first_core. Qed.
Print Assumptions C08_tensor_ring_first_core.

(* tensor_ring, any start mode: EVERY core's left rank is bounded by the validated request at its own position and every
   right rank by the request at the next position (cyclically: the request has first = last) *)
Theorem C08_tensor_ring_ranks_le : forall shape spec mode cores rank,
  tensor_ring shape spec mode = Ok cores -> validate_tr_rank shape spec RRound = Ok rank ->
  Forall2 le (map (fun c => nth 0 c 0) cores) (removelast rank) /\ Forall2 le (map (fun c => nth 2 c 0) cores) (tl rank).
Proof. exact tensor_ring_ranks_le. Qed.
Print Assumptions C08_tensor_ring_ranks_le.

(* tensor_ring_als: core k = (rank_k, I_k, rank_k+1) with the validated ranks, first rank = last rank *)
Theorem C08_tensor_ring_als_structure : forall shape spec out, tensor_ring_als shape spec = Ok out ->
  exists rank, validate_tr_rank shape spec RRound = Ok rank /\
  length rank = S (length shape) /\ hd 0 rank = last rank 0 /\ length out = length shape /\
  forall k, k < length shape -> nth k out [] = [nth k rank 0; nth k shape 0; nth (S k) rank 0].
Proof. exact tensor_ring_als_structure. Qed.
Print Assumptions C08_tensor_ring_als_structure.

(* parafac2: weights (r), A (I x r), B (r x r), C (K x r) and ONE projection (J_i x r) per slice *)
Theorem C08_parafac2_structure : forall slices r out, parafac2 slices r = Ok out ->
  exists projections, out = [r] :: [length slices; r] :: [r; r] :: [snd (hd (0, 0) slices); r] :: projections /\
  length projections = length slices /\
  (forall i, i < length slices -> nth i projections [] = [fst (nth i slices (0, 0)); r]) /\
  r <= snd (hd (0, 0) slices).
Proof. exact parafac2_structure. Qed.
Print Assumptions C08_parafac2_structure.
Example C08_parafac2_structure_ex : parafac2 [(4, 3); (5, 3)] 2 = Ok [[2]; [2; 2]; [2; 2]; [3; 2]; [4; 2]; [5; 2]].
Proof. vm_compute. reflexivity. Qed.

(* CMTF: the CP tensor of the order-3 tensor and the CP tensor of the coupled matrix share the rank and the first mode *)
Theorem C08_cmtf_structure : forall shape3 m spec out, cmtf shape3 m spec = Ok out ->
  exists r, validate_cp_rank shape3 spec RRound = Ok r /\
  out = ([r] :: map (fun s => [s; r]) shape3) ++ [[r]; [hd 0 shape3; r]; [m; r]].
Proof. exact cmtf_structure. Qed.
Print Assumptions C08_cmtf_structure.

(* validate_tucker_rank: one rank per mode (int and fraction / 'same'), fractions never give a rank below 1 *)
Theorem C08_validate_tucker_rank_length : forall shape spec rd c r, validate_tucker_rank shape spec rd c = Ok r ->
  match spec with RList l => r = l | _ => length r = length shape end.
Proof. exact validate_tucker_rank_length. Qed.
Print Assumptions C08_validate_tucker_rank_length.
Theorem C08_validate_tucker_rank_frac_pos : forall shape q rd c r, validate_tucker_rank shape (RFrac q) rd c = Ok r ->
  Forall (fun x => 1 <= x) r.
Proof. exact validate_tucker_rank_frac_pos. Qed.
Print Assumptions C08_validate_tucker_rank_frac_pos.

(* tucker with fixed factors (after 86b5335): factor m is I_m x rank_m for a fixed mode (the user's factor), I_m x min(rank_m, I_m)
   for an updated one, and the core has exactly these sizes *)
Theorem C08_tucker_fixed_structure : forall shape rank fixed out, tucker_fixed shape rank fixed = Ok out ->
  exists core factors, out = core :: factors /\ length core = length shape /\ length factors = length shape /\
  forall m, m < length shape -> nth m factors [] = [nth m shape 0; nth m core 0] /\
    nth m core 0 = if memb m fixed then nth m rank 0 else Nat.min (nth m rank 0) (nth m shape 0).
Proof. exact tucker_fixed_structure. Qed.
Print Assumptions C08_tucker_fixed_structure.
Example C08_tucker_fixed_ex : tucker_fixed [4; 5; 6] [2; 3; 4] [0] = Ok [[2; 3; 4]; [4; 2]; [5; 3]; [6; 4]].
Proof. reflexivity. Qed.
(* partial_tucker on a list of modes (any order, any subset): factor j is I_m x min(rank_j, I_m) for m = modes_j, the core keeps the size of
   the unlisted modes and, for distinct listed modes, has the factor's number of columns on the listed ones (induction over the listed modes) *)
Theorem C08_partial_tucker_structure : forall shape rank modes out, partial_tucker shape rank modes = Ok out ->
  exists core factors, out = core :: factors /\ length core = length shape /\ length factors = length modes /\ length rank = length modes /\
  (forall j, j < length modes -> nth j modes 0 < length shape /\
     nth j factors [] = [nth (nth j modes 0) shape 0; Nat.min (nth j rank 0) (nth (nth j modes 0) shape 0)]) /\
  (forall m, m < length shape -> ~ In m modes -> nth m core 0 = nth m shape 0) /\
  (NoDup modes -> forall j, j < length modes -> nth (nth j modes 0) core 0 = Nat.min (nth j rank 0) (nth (nth j modes 0) shape 0)).
Proof. exact partial_tucker_structure. Qed.
Print Assumptions C08_partial_tucker_structure.
(* rank=None ("the decomposition will preserve the original size"): the core has the shape of the tensor, every factor is square *)
Theorem C08_partial_tucker_rank_none : forall shape modes out, NoDup modes -> partial_tucker_spec shape None modes = Ok out ->
  exists core factors, out = core :: factors /\ core = shape /\
  forall j, j < length modes -> nth j factors [] = [nth (nth j modes 0) shape 0; nth (nth j modes 0) shape 0].
Proof. exact partial_tucker_none. Qed.
Print Assumptions C08_partial_tucker_rank_none.
(* partial_tucker(init='random', n_iter_max=0) (after 7b9d0bb): the drawn core and factors are returned; the core has the tensor's shape with
   rank_j at position modes_j (not clipped), factor j is I_m x rank_j *)
Theorem C08_partial_tucker_random0_structure : forall shape rank modes out, partial_tucker_random0 shape rank modes = Ok out ->
  exists core factors, out = core :: factors /\ length core = length shape /\ length factors = length modes /\
  (forall j, j < length modes -> nth j factors [] = [nth (nth j modes 0) shape 0; nth j rank 0]) /\
  (forall m, m < length shape -> ~ In m modes -> nth m core 0 = nth m shape 0) /\
  (NoDup modes -> forall j, j < length modes -> nth (nth j modes 0) core 0 = nth j rank 0).
Proof. exact partial_tucker_random0_structure. Qed.
Print Assumptions C08_partial_tucker_random0_structure.
(* regression witness: before 7b9d0bb the random core had one axis per LISTED mode (shape (3,4,2), modes [1]: core (4) instead of (3,4,2)) *)
Example C08_before_7b9d0bb_random_core_ex :
  partial_tucker_random0_old [3; 4; 2] [4] [1] = Ok [[4]; [4; 4]] /\ partial_tucker_random0 [3; 4; 2] [4] [1] = Ok [[3; 4; 2]; [4; 4]] /\
  partial_tucker_random0_old [3; 4] [2; 3] [1; 0] = Ok [[2; 3]; [4; 2]; [3; 3]] /\ partial_tucker_random0 [3; 4] [2; 3] [1; 0] = Ok [[3; 2]; [4; 2]; [3; 3]].
Proof. exact partial_tucker_random0_old_witness. Qed.
Example C08_partial_tucker_spec_ex : partial_tucker_spec [3; 4; 2] (Some (RInt 3)) [2; 0] = Ok [[3; 4; 2]; [2; 2]; [3; 3]] /\
  partial_tucker_spec [3; 4; 2] None [1] = Ok [[3; 4; 2]; [4; 4]] /\ partial_tucker_spec [3; 4; 2] (Some (RList [5; 1])) [1; 2] = Ok [[3; 4; 1]; [4; 4]; [2; 1]].
Proof. exact partial_tucker_spec_ex. Qed.
(* regression witnesses: before 86b5335 the ranks of the updated modes were read at the wrong positions of the rank list; the
   shapes were the requested ones only for equal ranks or trailing fixed modes *)
Theorem C08_tucker_fixed_old_constant_rank_partial : forall shape r fixed,
  tucker_fixed_old shape (repeat r (length shape)) fixed = tucker_fixed shape (repeat r (length shape)) fixed.
Proof. exact tucker_fixed_constant_rank. Qed.
Print Assumptions C08_tucker_fixed_old_constant_rank_partial.
Theorem C08_tucker_fixed_old_trailing_partial : forall shape rank fixed k,
  (forall i, i < length shape -> (memb i fixed = true <-> k <= i)) ->
  tucker_fixed_old shape rank fixed = tucker_fixed shape rank fixed.
Proof. exact tucker_fixed_trailing. Qed.
Print Assumptions C08_tucker_fixed_old_trailing_partial.
(* the hypothesis is satisfiable (last mode of [4;5;6] fixed, k = 2) together with ranks that differ between modes *)
Example C08_tucker_fixed_old_trailing_ex :
  (forall i, i < length [4; 5; 6] -> (memb i [2] = true <-> 2 <= i)) /\
  tucker_fixed_old [4; 5; 6] [2; 3; 4] [2] = Ok [[2; 3; 4]; [4; 2]; [5; 3]; [6; 4]].
Proof. exact tucker_fixed_trailing_ex. Qed.
Theorem C08_tucker_fixed_old_refuted :
  tucker_fixed_old [4; 5; 6] [2; 3; 4] [0] = Ok [[2; 2; 3]; [4; 2]; [5; 2]; [6; 3]] /\
  tucker_fixed [4; 5; 6] [2; 3; 4] [0] = Ok [[2; 3; 4]; [4; 2]; [5; 3]; [6; 4]].
Proof. exact tucker_fixed_misaligned. Qed.
Print Assumptions C08_tucker_fixed_old_refuted.

(* correctness of the rounding model of the rank validators: np.round on an exact rational is within 1/2 and even on ties
   (this characterises round-half-to-even); floor / ceil; rounding_fun(sqrt(x)) decided by integer square roots *)
Theorem C08_round_half_even_spec : forall x : Q, let z := round_half_even x in
  ((inject_Z z - (1 # 2) <= x)%Q /\ (x <= inject_Z z + (1 # 2))%Q) /\
  ((x == inject_Z z - (1 # 2))%Q \/ (x == inject_Z z + (1 # 2))%Q -> Z.even z = true).
Proof. exact round_half_even_spec. Qed.
Print Assumptions C08_round_half_even_spec.
Theorem C08_qround_floor_ceil_spec : forall x : Q,
  ((inject_Z (qround RFloor x) <= x)%Q /\ (x < inject_Z (qround RFloor x) + 1)%Q) /\
  ((inject_Z (qround RCeil x) - 1 < x)%Q /\ (x <= inject_Z (qround RCeil x))%Q).
Proof. exact (fun x => conj (qround_floor_spec x) (qround_ceil_spec x)). Qed.
Print Assumptions C08_qround_floor_ceil_spec.
Theorem C08_sqrt_round_floor_spec : forall x : Q, (0 <= Qnum x)%Z -> let n := sqrt_round RFloor x in
  (0 <= n /\ n * n * Zpos (Qden x) <= Qnum x /\ Qnum x < (n + 1) * (n + 1) * Zpos (Qden x))%Z.
Proof. exact sqrt_round_floor_spec. Qed.
Print Assumptions C08_sqrt_round_floor_spec.
Theorem C08_sqrt_round_ceil_spec : forall x : Q, (0 < Qnum x)%Z -> let m := sqrt_round RCeil x in
  ((m - 1) * (m - 1) * Zpos (Qden x) < Qnum x /\ Qnum x <= m * m * Zpos (Qden x))%Z.
Proof. exact sqrt_round_ceil_spec. Qed.
Print Assumptions C08_sqrt_round_ceil_spec.
Theorem C08_sqrt_round_round_spec : forall x : Q, (0 <= Qnum x)%Z -> let r := sqrt_round RRound x in
  (0 <= r /\ 4 * Qnum x <= (2 * r + 1) * (2 * r + 1) * Zpos (Qden x) /\
  (1 <= r -> (2 * r - 1) * (2 * r - 1) * Zpos (Qden x) <= 4 * Qnum x) /\
  ((4 * Qnum x = (2 * r + 1) * (2 * r + 1) * Zpos (Qden x) \/ (1 <= r /\ 4 * Qnum x = (2 * r - 1) * (2 * r - 1) * Zpos (Qden x))) -> Z.even r = true))%Z.
Proof. exact sqrt_round_round_spec. Qed.
Print Assumptions C08_sqrt_round_round_spec.
Example C08_round_ex : round_half_even (5 # 2) = 2%Z /\ round_half_even (7 # 2) = 4%Z /\ sqrt_round RRound (9 # 4) = 2%Z /\ sqrt_round RCeil (2 # 1) = 2%Z.
Proof. vm_compute. repeat split. Qed.

(* ================================================================== the normalisation contract (loop skeleton) *)
(* St: any state space; sweep: one ALS / MU / HALS sweep; normalise: cp_normalize; decisions: per executed sweep
   (callback asked to stop, convergence test fired) -- every history is a decision sequence; n: the iteration cap *)

(* normalize_factors = True => the returned state is normalised: for every cap (0 and 1 included), every decision
   sequence (cap exit, convergence exit, callback stop), every kind of initialisation, all modes fixed or not *)
Theorem C08_cp_normalised : forall (St : Type) (sweep normalise : St -> St) (Normalised : St -> Prop),
  (forall s, Normalised (normalise s)) ->
  forall tol_set ik all_fixed n decisions s0,
  Normalised (cp_run St sweep normalise true tol_set ik all_fixed n decisions s0).
Proof. exact cp_run_normalised. Qed.
Print Assumptions C08_cp_normalised.
(* normalize_factors = False => the weights are all ones, on every path *)
Theorem C08_cp_unit_weights : forall (St : Type) (sweep normalise : St -> St) (UnitWeights : St -> Prop),
  (forall s, UnitWeights s -> UnitWeights (sweep s)) ->
  forall tol_set ik all_fixed n decisions s0,
  UnitWeights s0 -> UnitWeights (cp_run St sweep normalise false tol_set ik all_fixed n decisions s0).
Proof. exact cp_run_unit_weights. Qed.
Print Assumptions C08_cp_unit_weights.
(* the same with the two facts made concrete rather than assumed: on a state (weights, factors), a sweep that only returns new
   factors (arbitrary function upd of the current weights and factors) leaves the weights of the initialisation untouched on every
   path; that the initialisation has weights all ones, also for a user CP tensor with non-unit weights, is C08_init_user_weights_absorbed.
   (That the code's sweeps never assign the weights when normalize_factors is False is tied to the code by the per-run predicate
   "weights all ones" and the trace observable "cp_normalize never applied", not proved.) *)
Theorem C08_cp_run_keeps_weights : forall (W F : Type) (upd : W -> F -> F) (normalise : W * F -> W * F) tol_set ik all_fixed n decisions w0 f0,
  fst (cp_run (W * F) (sweep_pair W F upd) normalise false tol_set ik all_fixed n decisions (w0, f0)) = w0.
Proof. exact cp_run_keeps_weights. Qed.
Print Assumptions C08_cp_run_keeps_weights.
(* "otherwise the CP weights are all ones" as a statement about a PROGRAM: the harness extracts from the current source of each CP driver (ast) every
   statement that assigns a weights-valued variable (copy, line-search extrapolation a + (b - a) * jump, ones, cp_normalize with / without the
   `if normalize_factors` guard) and Coq evaluates wprog_ok on it.  For every program satisfying wprog_ok, EVERY execution (any sequence of its
   statements, whatever the control flow, any jump values) with normalize_factors = False that starts from weights all ones ends with every weights-valued
   variable all ones -- over any commutative ring.  (That initialize_cp delivers weights all ones is C08_init_user_weights_absorbed + the per-run predicate.) *)
Theorem C08_wprog_unit_weights : forall (K : Type) (k0 k1 : K) (kadd kmul ksub : K -> K -> K) (kopp : K -> K),
  ring_theory k0 k1 kadd kmul ksub kopp eq -> forall (normalise : (nat -> K) -> nat -> K) prog, wprog_ok prog = true ->
  forall trace st st', (forall s j, In (s, j) trace -> In s prog) -> all_ones K k1 st ->
  wexec K k1 kadd kmul ksub normalise false trace st = Some st' -> all_ones K k1 st'.
Proof. exact wprog_unit_weights. Qed.
Print Assumptions C08_wprog_unit_weights.
Example C08_wprog_sharp_ex : wprog_ok [WNormalize false] = false /\
  (match wexec Z 1%Z Z.add Z.mul Z.sub (fun w r => (2 * w r)%Z) false [(WNormalize false, 0%Z)] (fun v => if v =? 0 then Some (fun _ => 1%Z) else None) with
   | Some st => match st 0 with Some w => w 0 | None => 0%Z end | None => 0%Z end = 2%Z) /\
  wprog_ok [WAssign 1 (WVar 0); WAssign 2 (WAffine 1 0); WAssign 0 (WVar 2); WNormalize true] = true.
Proof. exact wprog_sharp. Qed.
(* non-vacuity: a state space on which a sweep really destroys normalisation *)
Example C08_cp_normalised_ex : forall tol_set ik all_fixed n decisions, ghost_run true tol_set ik all_fixed n decisions = true.
Proof. exact ghost_normalised. Qed.

(* both named stopping paths exist in the skeleton and differ: with the convergence test never firing (or tol = 0) the
   run is exactly n sweeps; with the test firing as soon as it is evaluated (iteration 1) it is exactly two sweeps *)
Theorem C08_cp_cap_exit : forall (St : Type) (sweep normalise : St -> St) nf tol_set n it decisions s,
  Forall (fun d => fst d = false /\ snd d = false) decisions ->
  cp_loop St sweep normalise nf tol_set it n decisions s = steps St sweep normalise n nf s.
Proof. exact cp_loop_cap_exit. Qed.
Print Assumptions C08_cp_cap_exit.
Theorem C08_cp_tol_unset : forall (St : Type) (sweep normalise : St -> St) nf n it decisions s,
  no_callback_stop decisions ->
  cp_loop St sweep normalise nf false it n decisions s = steps St sweep normalise n nf s.
Proof. exact cp_loop_tol_unset. Qed.
Print Assumptions C08_cp_tol_unset.
Theorem C08_cp_convergence_exit : forall (St : Type) (sweep normalise : St -> St) nf n d0 decisions s, fst d0 = false ->
  fst (hd (false, false) decisions) = false -> snd (hd (false, false) decisions) = true ->
  cp_loop St sweep normalise nf true 0 (S (S n)) (d0 :: decisions) s = step St sweep normalise nf (step St sweep normalise nf s).
Proof. exact cp_loop_convergence_exit. Qed.
Print Assumptions C08_cp_convergence_exit.

(* the instance compared with the implementation on every run (event traces of factor updates and cp_normalize calls) *)
Theorem C08_trace_ends_normalised : forall d tol_set ik n_modes fixed n decisions,
  ends_normalised (trace_run d true tol_set ik n_modes fixed n decisions) = true.
Proof. exact trace_run_ends_normalised. Qed.
Print Assumptions C08_trace_ends_normalised.
Theorem C08_trace_never_normalises : forall d tol_set ik n_modes fixed n decisions,
  any_normalise (trace_run d false tol_set ik n_modes fixed n decisions) = false.
Proof. exact trace_run_never_normalises. Qed.
Print Assumptions C08_trace_never_normalises.
Example C08_trace_ex : trace_run NnMu true true InitSvd 3 [0] 2 [(false, false); (false, true)]
                       = [EvN; EvU 1; EvN; EvU 2; EvN; EvU 1; EvN; EvU 2; EvN].
Proof. vm_compute. reflexivity. Qed.

(* regression witnesses.  Before 3de556b a user initialisation was returned as it came when no sweep ran, and a callback
   stop returned the un-normalised iterate; on all other paths that control flow was right and equals the present one.
   Before fe25b5c the convergence exit returned un-normalised factors. *)
Theorem C08_old_flow_normalised_partial : forall (St : Type) (sweep normalise : St -> St) (Normalised : St -> Prop),
  (forall s, Normalised (normalise s)) ->
  forall tol_set ik all_fixed n decisions s0,
  no_callback_stop decisions -> ik <> InitUser \/ (0 < n /\ all_fixed = false) ->
  Normalised (cp_run_old St sweep normalise true tol_set ik all_fixed n decisions s0).
Proof. exact cp_run_old_normalised. Qed.
Print Assumptions C08_old_flow_normalised_partial.
Theorem C08_old_flow_refuted :
  (forall tol_set decisions, ghost_run_old true tol_set InitUser false 0 decisions = false) /\
  (forall tol_set n decisions, ghost_run_old true tol_set InitUser true n decisions = false) /\
  (forall tol_set ik n decisions, ghost_run_old true tol_set ik false (S n) ((true, false) :: decisions) = false).
Proof. exact (conj ghost_old_user_cap0 (conj ghost_old_user_all_fixed ghost_old_callback_stop)). Qed.
Print Assumptions C08_old_flow_refuted.
(* the control flow before fe25b5c (cp_loop_pinned): convergence exit at iteration 1 of a run with cap 2 *)
Theorem C08_before_fe25b5c_convergence_exit_refuted : ghost_run_pinned true true 2 [false; true] = false.
Proof. exact ghost_pinned_break. Qed.
Print Assumptions C08_before_fe25b5c_convergence_exit_refuted.
Theorem C08_repair_changes_nothing_else : forall (St : Type) (sweep normalise : St -> St) nf tol_set ik all_fixed n decisions s0,
  no_callback_stop decisions -> ik <> InitUser ->
  cp_run St sweep normalise nf tol_set ik all_fixed n decisions s0 = cp_run_old St sweep normalise nf tol_set ik all_fixed n decisions s0.
Proof. exact cp_run_same. Qed.
Print Assumptions C08_repair_changes_nothing_else.

(* ---- the drivers whose scale goes to the core (non_negative_tucker, non_negative_tucker_hals) and parafac2 (after 1c1a684):
   normalize_factors = True => the returned state is normalised, for every cap (0 included) and every decision sequence *)
Theorem C08_nn_tucker_normalised : forall (St : Type) (sweep normalise : St -> St) (Normalised : St -> Prop),
  (forall s, Normalised (normalise s)) ->
  forall tol_set n decisions s0, Normalised (nt_run St sweep normalise true tol_set n decisions s0).
Proof. exact nt_run_normalised. Qed.
Print Assumptions C08_nn_tucker_normalised.
Theorem C08_parafac2_normalised : forall (St : Type) (sweep normalise : St -> St) (Normalised : St -> Prop),
  (forall s, Normalised (normalise s)) ->
  forall tol_set n decisions s0, Normalised (p2_run St sweep normalise true tol_set n decisions s0).
Proof. exact p2_run_normalised. Qed.
Print Assumptions C08_parafac2_normalised.
Theorem C08_trace2_ends_normalised : forall d tol_set n decisions, ends_normalised (trace_run2 d true tol_set n decisions) = true.
Proof. exact trace_run2_ends_normalised. Qed.
Print Assumptions C08_trace2_ends_normalised.
Example C08_trace2_ex : trace_run2 NnTuckerHals true true 5 [true; true; true; true; true] = [EvN; EvU 0; EvN; EvU 0; EvN; EvU 0; EvN].
Proof. vm_compute. reflexivity. Qed.
(* regression witnesses: before 1c1a684 the contract held only when at least one sweep ran and (Tucker drivers) the run did
   not leave through the convergence break *)
Theorem C08_nn_tucker_old_flow_partial : forall (St : Type) (sweep normalise : St -> St) (Normalised : St -> Prop),
  (forall s, Normalised (normalise s)) ->
  forall tol_set n decisions s0, no_convergence_exit tol_set decisions -> 0 < n ->
  Normalised (nt_run_old St sweep normalise true tol_set n decisions s0).
Proof. exact nt_run_old_normalised. Qed.
Print Assumptions C08_nn_tucker_old_flow_partial.
Theorem C08_parafac2_old_flow_partial : forall (St : Type) (sweep normalise : St -> St) (Normalised : St -> Prop),
  (forall s, Normalised (normalise s)) ->
  forall tol_set n decisions s0, 0 < n ->
  Normalised (p2_run_old St sweep normalise true tol_set n decisions s0).
Proof. exact p2_run_old_normalised. Qed.
Print Assumptions C08_parafac2_old_flow_partial.
Theorem C08_nn_tucker_parafac2_old_flow_refuted :
  (forall tol_set decisions, ghost_nt_old tol_set 0 decisions = false) /\
  (forall n, ghost_nt_old true (S (S (S n))) [false; false; true] = false) /\
  (forall tol_set decisions, ghost_p2_old tol_set 0 decisions = false).
Proof. exact (conj ghost_nt_old_cap0 (conj ghost_nt_old_convergence ghost_p2_old_cap0)). Qed.
Print Assumptions C08_nn_tucker_parafac2_old_flow_refuted.

(* ---- parafac2 end to end over the OUTER loop with respect to the projections (Model/StructureHooi.v p2o_run: SVD / random / user initialisation,
   non-negativity clipping of a built-in initialisation, absorption of the weights, _compute_projections, the CP updates, the line search -- every
   second sweep from iteration 6 on, its jump accepted or rejected --, normalisation, convergence exit).  For every cap and every sequence of
   (line-search, convergence) decisions: if the SVD initialisation is used, or a sweep runs, or the initial projections had the property, the returned
   projections have it, provided _compute_projections establishes it and the other operations do not assign the projections *)
Theorem C08_parafac2_outer_loop : forall (St : Type) (svd_init clip compute_proj absorb updates jump normalise : St -> St) (discard : St -> St -> St)
  (ProjOrth : St -> Prop), (forall s, ProjOrth (compute_proj s)) -> (forall s, ProjOrth s -> ProjOrth (updates s)) ->
  (forall s, ProjOrth s -> ProjOrth (normalise s)) -> (forall s, ProjOrth s -> ProjOrth (clip s)) -> (forall t s, ProjOrth s -> ProjOrth (discard t s)) ->
  forall ik nn nf tol_set ls n decisions s0, ik = InitSvd \/ 0 < n \/ ProjOrth s0 ->
  ProjOrth (p2o_run St svd_init clip compute_proj absorb updates jump normalise discard ik nn nf tol_set ls n decisions s0).
Proof. exact p2o_run_orth. Qed.
Print Assumptions C08_parafac2_outer_loop.
(* the instance compared with the implementation's _compute_projections calls on every run: the returned projections are some call's output *)
Theorem C08_parafac2_trace_from_call : forall ik nn nf tol_set ls n decisions, ik = InitSvd \/ 0 < n ->
  1 <= snd (p2o_trace ik nn nf tol_set ls n decisions).
Proof. exact p2o_trace_from_call. Qed.
Print Assumptions C08_parafac2_trace_from_call.
Example C08_parafac2_trace_ex : p2o_trace InitSvd false true true true 9 (repeat (false, false) 6 ++ [(false, false); (false, false); (true, false)]) = (12, 12) /\
  p2o_trace InitRandom false false true true 7 (repeat (false, false) 7) = (8, 7) /\ p2o_trace InitRandom false false false false 0 [] = (0, 0).
Proof. exact p2o_trace_ex. Qed.

(* ---- the loop skeleton as data.  The harness reads a description of each driver's loop off the CURRENT source (ast walk) and Coq
   evaluates desc_ok on it on every run; the contract is proved for EVERY description satisfying desc_ok, every cap and every
   decision sequence, and the hypothesis is sharp (a description failing it has an un-normalised run). *)
Theorem C08_gen_run_normalised : forall (St : Type) (sweep normalise : St -> St) (Normalised : St -> Prop),
  (forall s, Normalised (normalise s)) ->
  forall d tol_set n decisions s0, desc_ok d = true ->
  Normalised (gen_run St sweep normalise d true tol_set n decisions s0).
Proof. exact gen_run_normalised. Qed.
Print Assumptions C08_gen_run_normalised.
Theorem C08_desc_ok_sharp : forall d, desc_ok d = false ->
  ghost_gen d 0 [] = false \/ ghost_gen d 1 [(true, false)] = false \/
  ghost_gen d (S (S (conv_first d))) (repeat (false, false) (conv_first d) ++ [(false, true)]) = false \/ ghost_gen d 1 [] = false.
Proof. exact desc_ok_sharp. Qed.
Print Assumptions C08_desc_ok_sharp.
Theorem C08_skeletons_are_instances : forall (St : Type) (sweep normalise : St -> St) nf tol_set fuel it s,
  (forall decisions, cp_loop St sweep normalise nf tol_set it fuel decisions s = gen_loop St sweep normalise cp_desc nf tol_set it fuel decisions s) /\
  (forall decisions, nt_loop St sweep normalise nf tol_set it fuel decisions s = gen_loop St sweep normalise nt_desc nf tol_set it fuel (lift decisions) s) /\
  (forall decisions, p2_loop St sweep normalise nf tol_set it fuel decisions s = gen_loop St sweep normalise p2_desc nf tol_set it fuel (lift decisions) s).
Proof.
  exact (fun St sweep normalise nf tol_set fuel it s =>
    conj (fun ds => cp_loop_is_gen St sweep normalise nf tol_set fuel it ds s)
   (conj (fun ds => nt_loop_is_gen St sweep normalise nf tol_set fuel it ds s)
         (fun ds => p2_loop_is_gen St sweep normalise nf tol_set fuel it ds s))).
Qed.
Print Assumptions C08_skeletons_are_instances.
Example C08_desc_ex : desc_ok cp_desc = true /\ desc_ok nt_desc = true /\ desc_ok p2_desc = true /\
  desc_ok (mkDesc false false true false true 1) = false.      (* parafac before 3de556b, as the extractor reads it *)
Proof. repeat split. Qed.

(* ---- the exact rational checkers evaluated on the implementation's outputs: what a `true` answer means *)
Theorem C08_orth_ok_sound : forall k M tol, orth_ok k M tol = true ->
  forall a b, a < k -> b < k -> (Qabs.Qabs (gram_entry k M a b - qdelta a b) <= tol)%Q.
Proof. exact orth_ok_sound. Qed.
Print Assumptions C08_orth_ok_sound.
Theorem C08_projection_ok_sound : forall shape ranks X core fs tol, projection_ok shape ranks X core fs tol = true ->
  length core = prod ranks /\
  forall j, j < prod ranks -> (Qabs.Qabs (project_entry shape ranks X fs j - nth j core 0%Q) <= tol)%Q.
Proof. exact projection_ok_sound. Qed.
Print Assumptions C08_projection_ok_sound.

(* the same for complex data over the Gaussian rationals: M^H M = I and core = X x_k U_k^H (conjugate transpose), real and
   imaginary parts within the tolerance *)
Theorem C08_corth_ok_sound : forall k M tol, corth_ok k M tol = true ->
  forall a b, a < k -> b < k ->
  (Qabs.Qabs (fst (csub (cgram_entry k M a b) (cdelta a b))) <= tol)%Q /\ (Qabs.Qabs (snd (csub (cgram_entry k M a b) (cdelta a b))) <= tol)%Q.
Proof. exact corth_ok_sound. Qed.
Print Assumptions C08_corth_ok_sound.
Theorem C08_cprojection_ok_sound : forall shape ranks X core fs tol, cprojection_ok shape ranks X core fs tol = true ->
  length core = prod ranks /\
  forall j, j < prod ranks ->
    (Qabs.Qabs (fst (csub (cproject_entry shape ranks X fs j) (nth j core c0))) <= tol)%Q /\
    (Qabs.Qabs (snd (csub (cproject_entry shape ranks X fs j) (nth j core c0))) <= tol)%Q.
Proof. exact cprojection_ok_sound. Qed.
Print Assumptions C08_cprojection_ok_sound.
Example C08_cproject_conj_ex : cproject_entry [1] [1] [(0, 1)%Q] [[(0, 1)%Q]] 0 = (1, 0)%Q.   (* i * conj(i) = 1, not i * i = -1 *)
Proof. exact cproject_conj_ex. Qed.

(* ================================================================== Tucker canonical form over a ring with conjugation *)
(* K: any commutative ring (ring_theory) with a conjugation conj (is_conj: additive, multiplicative, involutive).  Real data: K = R,
   conj = id; complex data: K = C = R x R (Examples below).  A factor U (m x k) has unitary columns when U^H U = I_k
   (sum_i conj(U i a) * U i b = delta a b).  Tensors of EVERY order are functions list nat -> K; for a list of factors fs (mode k:
   shape_k x ranks_k):   trec ranks fs G = G x_0 U_0 x_1 U_1 ...      (tucker_to_tensor)
                         tproj shape fs X = X x_0 U_0^H x_1 U_1^H ... (multi_mode_dot(X, factors, transpose=True): CONJUGATE transpose)
   unitary_all shape ranks fs: every factor has unitary columns.  All proofs are inductions over the list of modes. *)

(* U[:, :r] and any injective selection of columns of a matrix with unitary columns has unitary columns (HOOI keeps the leading
   rank_k left singular vectors; truncated_svd truncates to min(rank_k, I_k) columns) *)
Theorem C08_unitary_cols_truncate : forall (K : Type) (k0 k1 : K) (kadd kmul : K -> K -> K) (conj : K -> K) m k r U,
  unitary_cols K k0 k1 kadd kmul conj m k U -> r <= k -> unitary_cols K k0 k1 kadd kmul conj m r U.
Proof. exact unitary_cols_truncate. Qed.
Print Assumptions C08_unitary_cols_truncate.
Theorem C08_unitary_cols_select : forall (K : Type) (k0 k1 : K) (kadd kmul : K -> K -> K) (conj : K -> K) m k k' U (sel : nat -> nat),
  unitary_cols K k0 k1 kadd kmul conj m k U -> (forall a, a < k' -> sel a < k) ->
  (forall a b, a < k' -> b < k' -> sel a = sel b -> a = b) -> unitary_cols K k0 k1 kadd kmul conj m k' (fun i a => U i (sel a)).
Proof. exact unitary_cols_select. Qed.
Print Assumptions C08_unitary_cols_select.
(* the identity (what partial_tucker leaves on the modes it does not decompose) has unitary columns *)
Theorem C08_unitary_identity : forall (K : Type) (k0 k1 : K) (kadd kmul ksub : K -> K -> K) (kopp : K -> K),
  ring_theory k0 k1 kadd kmul ksub kopp eq -> forall conj, is_conj kadd kmul conj ->
  forall d, unitary_cols K k0 k1 kadd kmul conj d d (kdelta K k0 k1).
Proof. exact unitary_identity_b. Qed.
Print Assumptions C08_unitary_identity.

(* TT-SVD and the middle cores of TR-SVD on real or complex data: the core reshaped from U[:, :r] (U with unitary columns) is left-unitary;
   TR-SVD first core: its mode unfolding has unitary columns *)
Theorem C08_tt_core_left_unitary : forall (K : Type) (k0 k1 : K) (kadd kmul ksub : K -> K -> K) (kopp : K -> K),
  ring_theory k0 k1 kadd kmul ksub kopp eq -> forall (conj : K -> K) rk I k r U, unitary_cols K k0 k1 kadd kmul conj (rk * I) k U -> r <= k ->
  forall b b', b < r -> b' < r ->
  bigsum K k0 kadd rk (fun a => bigsum K k0 kadd I (fun i => kmul (conj (kcore_of K I U a i b)) (kcore_of K I U a i b'))) = kdelta K k0 k1 b b'.
Proof. exact tt_core_left_unitary. Qed.
Print Assumptions C08_tt_core_left_unitary.
Theorem C08_tr_first_core_unitary : forall (K : Type) (k0 k1 : K) (kadd kmul ksub : K -> K -> K) (kopp : K -> K),
  ring_theory k0 k1 kadd kmul ksub kopp eq -> forall (conj : K -> K) I r0 r1 U, unitary_cols K k0 k1 kadd kmul conj I (r0 * r1) U ->
  forall a b a' b', a < r0 -> b < r1 -> a' < r0 -> b' < r1 ->
  bigsum K k0 kadd I (fun i => kmul (conj (ktr_first_core K r1 U a i b)) (ktr_first_core K r1 U a' i b')) = kmul (kdelta K k0 k1 a a') (kdelta K k0 k1 b b').
Proof. exact tr_first_core_unitary. Qed.
Print Assumptions C08_tr_first_core_unitary.

(* ---- the loops of tensor_train / tensor_ring / tensor_train_matrix on concrete data over a ring with conjugation (Proofs/StructureTTConj.v): the SVD
   is a pair of arbitrary functions (U, S V) with the contract "the first r columns of U are orthonormal"; everything else is the code's arithmetic.
   ONE theorem per decomposition about the loop model; the model's SVD calls (sizes, requested ranks) are compared with the implementation's on every run. *)
(* tensor_train: the core shapes are those of the shape model (hence one core per mode, boundary ranks 1, TT ranks = validate_tt_rank without
   over-parametrisation) and every core but the last is left-unitary *)
Theorem C08_tensor_train_result_canonical : forall (K : Type) (k0 k1 : K) (kadd kmul ksub : K -> K -> K) (kopp : K -> K),
  ring_theory k0 k1 kadd kmul ksub kopp eq -> forall (conj : K -> K) (svdU svdSV : nat -> nat -> (nat -> nat -> K) -> nat -> nat -> nat -> K),
  (forall n_row n_col M r, r <= Nat.min n_row n_col -> unitary_cols K k0 k1 kadd kmul conj n_row r (svdU n_row n_col M r)) ->
  forall shape spec c X cores, tensor_train_K K svdU svdSV shape spec c X = Ok cores ->
  tensor_train shape spec c = Ok (map (cshape K) cores) /\
  (let rs := core_ranks (map (cshape K) cores) in
   length cores = length shape /\ core_modes (map (cshape K) cores) = shape /\ hd 0 rs = 1 /\ last rs 0 = 1 /\
   (forall r, validate_tt_rank shape spec false RRound false c = Ok r -> rs = r)) /\
  (forall k, S k < length cores -> left_unitary K k0 k1 kadd kmul conj (nth k cores (mkCore K 0 0 0 (fun _ _ _ => k0)))).
Proof. exact tensor_train_K_canonical. Qed.
Print Assumptions C08_tensor_train_result_canonical.
Example C08_svd_contract_ex : forall (K : Type) (k0 k1 : K) (kadd kmul ksub : K -> K -> K) (kopp : K -> K),
  ring_theory k0 k1 kadd kmul ksub kopp eq -> forall conj, is_conj kadd kmul conj ->
  forall n_row n_col (M : nat -> nat -> K) r, r <= Nat.min n_row n_col -> unitary_cols K k0 k1 kadd kmul conj n_row r (kdelta K k0 k1).
Proof. exact svd_contract_satisfiable. Qed.
(* tensor_ring (cores in computation order, i.e. starting at `mode`): shapes of the shape model, the first core has exactly the requested ranks, the last
   core's right rank is the first core's left rank, the first core's mode unfolding has unitary columns, the middle cores are left-unitary *)
Theorem C08_tensor_ring_result_canonical : forall (K : Type) (k0 k1 : K) (kadd kmul ksub : K -> K -> K) (kopp : K -> K),
  ring_theory k0 k1 kadd kmul ksub kopp eq -> forall (conj : K -> K) (svdU svdSV : nat -> nat -> (nat -> nat -> K) -> nat -> nat -> nat -> K),
  (forall n_row n_col M r, r <= Nat.min n_row n_col -> unitary_cols K k0 k1 kadd kmul conj n_row r (svdU n_row n_col M r)) ->
  forall shape rank X cores, tr_cores_K K svdU svdSV shape rank X = Ok cores ->
  let d := mkCore K 0 0 0 (fun _ _ _ => k0) in
  tr_cores shape rank = Ok (map (cshape K) cores) /\ length cores = length shape /\
  cshape K (hd d cores) = [hd 0 rank; hd 0 shape; nth 1 rank 0] /\ c_r1 K (last cores d) = c_r0 K (hd d cores) /\
  first_core_unitary K k0 k1 kadd kmul conj (hd d cores) /\
  (forall k, 1 <= k -> S k < length cores -> left_unitary K k0 k1 kadd kmul conj (nth k cores d)).
Proof. exact tr_cores_K_canonical. Qed.
Print Assumptions C08_tensor_ring_result_canonical.
(* tensor_train_matrix: tensor_train of the tensor with input / output modes merged pairwise, cores split back to (r_k, I_k, O_k, r_k+1) *)
Theorem C08_tensor_train_matrix_result_canonical : forall (K : Type) (k0 k1 : K) (kadd kmul ksub : K -> K -> K) (kopp : K -> K),
  ring_theory k0 k1 kadd kmul ksub kopp eq -> forall (conj : K -> K) (svdU svdSV : nat -> nat -> (nat -> nat -> K) -> nat -> nat -> nat -> K),
  (forall n_row n_col M r, r <= Nat.min n_row n_col -> unitary_cols K k0 k1 kadd kmul conj n_row r (svdU n_row n_col M r)) ->
  forall tshape spec c X cores, tensor_train_matrix_K K svdU svdSV tshape spec c X = Ok cores ->
  let n := length tshape / 2 in
  tensor_train_matrix tshape spec c = Ok (map split_core (combine (map (cshape K) cores) (combine (firstn n tshape) (skipn n tshape)))) /\
  (forall k, S k < length cores -> left_unitary K k0 k1 kadd kmul conj (nth k cores (mkCore K 0 0 0 (fun _ _ _ => k0)))).
Proof. exact tensor_train_matrix_K_canonical. Qed.
Print Assumptions C08_tensor_train_matrix_result_canonical.

(* for factors with unitary columns the projection is a LEFT INVERSE of the reconstruction: a core is recovered from the tensor it
   represents by X x_k U_k^H -- so "core = projection of the data onto the factors" determines the core (every order) *)
Theorem C08_tucker_core_left_inverse : forall (K : Type) (k0 k1 : K) (kadd kmul ksub : K -> K -> K) (kopp : K -> K),
  ring_theory k0 k1 kadd kmul ksub kopp eq -> forall (conj : K -> K) shape ranks fs,
  unitary_all K k0 k1 kadd kmul conj shape ranks fs -> forall G jdx, inb ranks jdx ->
  tproj K k0 k1 kadd kmul conj shape fs (trec K k0 k1 kadd kmul ranks fs G) jdx = G jdx.
Proof. exact tproj_trec. Qed.
Print Assumptions C08_tucker_core_left_inverse.
(* the projection with the CONJUGATE transpose is the adjoint of the reconstruction: <trec H, X> = <H, tproj X> (arbitrary factors) *)
Theorem C08_tucker_projection_adjoint : forall (K : Type) (k0 k1 : K) (kadd kmul ksub : K -> K -> K) (kopp : K -> K),
  ring_theory k0 k1 kadd kmul ksub kopp eq -> forall conj, is_conj kadd kmul conj -> forall shape ranks fs H X,
  tinner K k0 kadd kmul conj shape (trec K k0 k1 kadd kmul ranks fs H) X =
  tinner K k0 kadd kmul conj ranks H (tproj K k0 k1 kadd kmul conj shape fs X).
Proof. exact adjoint_b. Qed.
Print Assumptions C08_tucker_projection_adjoint.
(* the factors do not affect the norm of the reconstructed tensor (the comment in partial_tucker, as a theorem) *)
Theorem C08_tucker_reconstruction_isometry : forall (K : Type) (k0 k1 : K) (kadd kmul ksub : K -> K -> K) (kopp : K -> K),
  ring_theory k0 k1 kadd kmul ksub kopp eq -> forall conj, is_conj kadd kmul conj -> forall shape ranks fs G G',
  unitary_all K k0 k1 kadd kmul conj shape ranks fs ->
  tinner K k0 kadd kmul conj shape (trec K k0 k1 kadd kmul ranks fs G) (trec K k0 k1 kadd kmul ranks fs G') = tinner K k0 kadd kmul conj ranks G G'.
Proof. exact isometry_b. Qed.
Print Assumptions C08_tucker_reconstruction_isometry.
(* core = projection of the data  =>  the residual X - trec core is orthogonal to EVERY tensor the factors can represent (the normal
   equations of the least-squares problem min_G |X - trec G|: the returned core is the optimal one for the returned factors) *)
Theorem C08_tucker_residual_orthogonal : forall (K : Type) (k0 k1 : K) (kadd kmul ksub : K -> K -> K) (kopp : K -> K),
  ring_theory k0 k1 kadd kmul ksub kopp eq -> forall conj, is_conj kadd kmul conj -> forall shape ranks fs X H,
  unitary_all K k0 k1 kadd kmul conj shape ranks fs ->
  tinner K k0 kadd kmul conj shape (trec K k0 k1 kadd kmul ranks fs H)
         (tsub K ksub X (trec K k0 k1 kadd kmul ranks fs (tproj K k0 k1 kadd kmul conj shape fs X))) = k0.
Proof. exact residual_orthogonal_b. Qed.
Print Assumptions C08_tucker_residual_orthogonal.
(* <X,X> = <core,core> + <residual,residual>: the identity behind partial_tucker's rec_error = sqrt(|X|^2 - |core|^2) / |X| *)
Theorem C08_tucker_pythagoras : forall (K : Type) (k0 k1 : K) (kadd kmul ksub : K -> K -> K) (kopp : K -> K),
  ring_theory k0 k1 kadd kmul ksub kopp eq -> forall conj, is_conj kadd kmul conj -> forall shape ranks fs X,
  unitary_all K k0 k1 kadd kmul conj shape ranks fs ->
  let core := tproj K k0 k1 kadd kmul conj shape fs X in
  let resid := tsub K ksub X (trec K k0 k1 kadd kmul ranks fs core) in
  tinner K k0 kadd kmul conj shape X X = kadd (tinner K k0 kadd kmul conj ranks core core) (tinner K k0 kadd kmul conj shape resid resid).
Proof. exact pythagoras_b. Qed.
Print Assumptions C08_tucker_pythagoras.
(* two successive projections compose, mode by mode: (X x_k A_k^H) x_k B_k^H = X x_k (A_k B_k)^H for every order.  tucker(fixed_factors=...)
   projects onto the updated modes inside partial_tucker (identity on the fixed modes) and then onto the fixed factors (identity elsewhere);
   a product with the identity gives the factor back, so together that is the projection onto ALL returned factors *)
Theorem C08_projection_compose : forall (K : Type) (k0 k1 : K) (kadd kmul ksub : K -> K -> K) (kopp : K -> K),
  ring_theory k0 k1 kadd kmul ksub kopp eq -> forall conj : K -> K,
  (forall a b, conj (kadd a b) = kadd (conj a) (conj b)) -> (forall a b, conj (kmul a b) = kmul (conj a) (conj b)) ->
  forall (s1 mid : list nat) (As Bs : list (nat -> nat -> K)) (X : tens K) (ldx : list nat),
  length As = length mid -> length Bs = length mid -> length s1 = length mid -> length ldx = length mid ->
  tproj K k0 k1 kadd kmul conj mid Bs (tproj K k0 k1 kadd kmul conj s1 As X) ldx = tproj K k0 k1 kadd kmul conj s1 (compose K k0 kadd kmul mid As Bs) X ldx.
Proof. exact tproj_compose. Qed.
Print Assumptions C08_projection_compose.
Theorem C08_compose_identity : forall (K : Type) (k0 k1 : K) (kadd kmul ksub : K -> K -> K) (kopp : K -> K),
  ring_theory k0 k1 kadd kmul ksub kopp eq -> forall d (A : nat -> nat -> K) i l,
  (l < d -> kmmul K k0 kadd kmul d A (kdelta K k0 k1) i l = A i l) /\ (i < d -> kmmul K k0 kadd kmul d (kdelta K k0 k1) A i l = A i l).
Proof. exact (fun K k0 k1 kadd kmul ksub kopp Kth d A i l => conj (kmmul_id_r K k0 k1 kadd kmul ksub kopp Kth d A i l) (kmmul_id_l K k0 k1 kadd kmul ksub kopp Kth d A i l)). Qed.
Print Assumptions C08_compose_identity.
(* non-vacuity: R (conj = id) and C = R x R are rings with conjugation; on C the conjugation is not the identity (i * conj i = 1,
   i * i = -1); (3/5, 4i/5) is a 2 x 1 complex factor with a unitary column that is NOT orthonormal for the unconjugated product *)
Example C08_conj_rings_ex : is_conj Rplus Rmult (fun x : R => x) /\
  ring_theory cx0 cx1 cxadd cxmul cxsub cxopp (@eq Cx) /\ is_conj cxadd cxmul cxconj /\
  (cxconj cxi <> cxi /\ cxmul (cxconj cxi) cxi = cx1 /\ cxmul cxi cxi = cxopp cx1).
Proof. exact (conj R_is_conj (conj Cx_ring (conj Cx_is_conj cxi_facts))). Qed.
Example C08_unitary_complex_ex : unitary_all Cx cx0 cx1 cxadd cxmul cxconj [2] [1] [Uex] /\
  bigsum Cx cx0 cxadd 2 (fun i => cxmul (Uex i 0) (Uex i 0)) <> cx1.
Proof. exact (conj Uex_unitary Uex_not_bilinear_orthonormal). Qed.
(* symeig_svd (after d995974): the matrix handed to eigh is the Gram matrix M M^H, which is Hermitian for EVERY M over a ring with
   conjugation (eigh's precondition; the eigen-decomposition itself is LAPACK's and not modelled) *)
Theorem C08_symeig_gram_hermitian : forall (K : Type) (k0 k1 : K) (kadd kmul ksub : K -> K -> K) (kopp : K -> K),
  ring_theory k0 k1 kadd kmul ksub kopp eq -> forall conj, is_conj kadd kmul conj -> forall n (M : nat -> nat -> K) a b,
  bigsum K k0 kadd n (fun j => kmul (M a j) (conj (M b j))) = conj (bigsum K k0 kadd n (fun j => kmul (M b j) (conj (M a j)))).
Proof. exact gram_hermitian_b. Qed.
Print Assumptions C08_symeig_gram_hermitian.
(* regression witness: before d995974 the code formed M M^T with the PLAIN transpose; for M = (1, i) that matrix is 0 while M M^H = 2
   (for real entries the two coincide) -- tucker / partial_tucker(init='svd', svd='symeig_svd', n_iter_max=0) returned non-orthonormal factors *)
Example C08_before_d995974_symeig_gram_ex : (exists M : nat -> nat -> Cx, gramT 2 M 0 0 = cx0 /\ gramH 2 M 0 0 = (2%R, 0%R)) /\
  (forall n (M : nat -> nat -> Cx), (forall a j, snd (M a j) = 0%R) -> forall a b, gramT n M a b = gramH n M a b).
Proof. exact (conj symeig_gram_refuted symeig_gram_real). Qed.
Example C08_unitary_real_ex : unitary_all R 0%R 1%R Rplus Rmult (fun x => x) [2] [1] [Urex].
Proof. exact Urex_unitary. Qed.

(* ================================================================== tucker / partial_tucker: the HOOI loop skeleton *)
(* St: any state space (tensor, core, factors); svd_init: the SVD initialisation; update i: factors[i] <- U of an SVD; project: core <-
   multi_mode_dot(tensor, factors, transpose=True); impute / recon: the mask steps; decisions: the convergence test's answers (one per
   executed sweep) -- every history is a decision sequence; n: the iteration cap; k: the number of listed modes.  The model's call log
   (hooi_trace) is compared with the implementation's on every run. *)

(* whenever the SVD initialisation is used or at least one sweep runs, the returned core is the output of the projection: for every
   cap, every decision sequence (cap exit, convergence exit), with or without a mask *)
Theorem C08_hooi_core_projected : forall (St : Type) (svd_init impute project recon : St -> St) (update : nat -> St -> St) (CoreProj : St -> Prop),
  (forall s, CoreProj (project s)) -> (forall s, CoreProj s -> CoreProj (recon s)) ->
  forall ik k mask tol_set n decisions s0, ik = InitSvd \/ 0 < n ->
  CoreProj (hooi_run St svd_init impute project recon update ik k mask tol_set n decisions s0).
Proof. exact hooi_run_core_projected. Qed.
Print Assumptions C08_hooi_core_projected.
(* ... and every listed position holds an SVD output (induction over the listed modes for the sweep, over the cap for the loop) *)
Theorem C08_hooi_factors_from_svd : forall (St : Type) (svd_init impute project recon : St -> St) (update : nat -> St -> St) (FromSvd : nat -> St -> Prop),
  (forall i s, FromSvd i (update i s)) -> (forall i j s, FromSvd j s -> FromSvd j (update i s)) ->
  (forall j s, FromSvd j s -> FromSvd j (project s)) -> (forall j s, FromSvd j s -> FromSvd j (recon s)) ->
  forall ik k mask tol_set n decisions s0, (forall i s, i < k -> FromSvd i (svd_init s)) -> ik = InitSvd \/ 0 < n ->
  forall i, i < k -> FromSvd i (hooi_run St svd_init impute project recon update ik k mask tol_set n decisions s0).
Proof. exact hooi_run_factors_from_svd. Qed.
Print Assumptions C08_hooi_factors_from_svd.
(* the hypothesis is needed: a random / user initialisation with n_iter_max = 0 is returned as it is (the core is what was drawn / given) *)
Theorem C08_hooi_no_sweep_returns_init : forall (St : Type) (svd_init impute project recon : St -> St) (update : nat -> St -> St)
  ik k mask tol_set decisions s0, ik <> InitSvd -> hooi_run St svd_init impute project recon update ik k mask tol_set 0 decisions s0 = s0.
Proof. exact hooi_run_no_sweep. Qed.
Print Assumptions C08_hooi_no_sweep_returns_init.
(* tol falsy: exactly n_iter_max sweeps *)
Theorem C08_hooi_tol_unset : forall (St : Type) (impute project recon : St -> St) (update : nat -> St -> St) fuel k mask it decisions s,
  hooi_loop St impute project recon update k mask false it fuel decisions s =
  Nat.iter fuel (fun s0 => when St mask recon (project (hooi_sweep St update k (when St mask impute s0)))) s.
Proof. exact hooi_loop_tol_unset. Qed.
Print Assumptions C08_hooi_tol_unset.
(* tucker(fixed_factors=...): with a mode left to update and at least one sweep the returned core went through both projections *)
Theorem C08_tucker_fixed_core_projected : forall (St : Type) (svd_init impute project recon : St -> St) (update : nat -> St -> St) (CoreProj : St -> Prop),
  (forall s, CoreProj (project s)) -> (forall s, CoreProj s -> CoreProj (recon s)) ->
  forall (absorb_fixed project_fixed : St -> St) (FullProj : St -> Prop), (forall s, CoreProj s -> FullProj (project_fixed s)) ->
  forall n_modes n_fixed mask tol_set n decisions s0, n_fixed < n_modes -> 0 < n ->
  FullProj (tucker_fixed_run St svd_init impute project recon update absorb_fixed project_fixed n_modes n_fixed mask tol_set n decisions s0).
Proof. exact tucker_fixed_core_projected. Qed.
Print Assumptions C08_tucker_fixed_core_projected.
Theorem C08_tucker_all_fixed_returns_init : forall (St : Type) (svd_init impute project recon : St -> St) (update : nat -> St -> St)
  (absorb_fixed project_fixed : St -> St) n_modes n_fixed mask tol_set n decisions s0, n_modes <= n_fixed ->
  tucker_fixed_run St svd_init impute project recon update absorb_fixed project_fixed n_modes n_fixed mask tol_set n decisions s0 = s0.
Proof. exact tucker_all_fixed. Qed.
Print Assumptions C08_tucker_all_fixed_returns_init.
(* ---- the loop of partial_tucker as data.  The harness translates the CURRENT source of the loop (ast) into a list of statement kinds and
   Coq evaluates prog_ok on it on every run; the contract is proved for EVERY program satisfying prog_ok (the core is clean at every exit of
   the body: no break and no end of body between a factor sweep / imputation and the next full projection), and the hand-written skeleton is
   the program hooi_prog.  Example C08_prog_ok_ex: programs failing prog_ok with an un-projected run. *)
Theorem C08_prog_run_core_projected : forall (St : Type) (svd_init impute project recon : St -> St) (update : nat -> St -> St) (CoreProj : St -> Prop),
  (forall s, CoreProj (project s)) -> (forall s, CoreProj s -> CoreProj (recon s)) ->
  forall p ik k mask tol_set n decisions s0, prog_ok p = true -> ik = InitSvd \/ 0 < n ->
  CoreProj (prog_run St svd_init impute project recon update p ik k mask tol_set n decisions s0).
Proof. exact prog_run_core_projected. Qed.
Print Assumptions C08_prog_run_core_projected.
Theorem C08_hooi_is_prog : forall (St : Type) (svd_init impute project recon : St -> St) (update : nat -> St -> St) ik k mask tol_set n decisions s0,
  hooi_run St svd_init impute project recon update ik k mask tol_set n decisions s0 =
  prog_run St svd_init impute project recon update hooi_prog ik k mask tol_set n decisions s0.
Proof. exact hooi_run_is_prog. Qed.
Print Assumptions C08_hooi_is_prog.
Example C08_prog_ok_ex : prog_ok hooi_prog = true /\
  prog_ok (mkHprog true [SImpute; SProject; SSweep; SRecon; SBreakTest 2 true]) = false /\
  ghost_prog (mkHprog true [SImpute; SProject; SSweep; SRecon; SBreakTest 2 true]) InitSvd 1 [] = false /\
  prog_ok (mkHprog true [SImpute; SSweep; SBreakTest 2 true; SProject; SRecon]) = false /\
  ghost_prog (mkHprog true [SImpute; SSweep; SBreakTest 2 true; SProject; SRecon]) InitSvd 3 [false; false; true] = false /\
  prog_ok (mkHprog false [SImpute; SSweep; SProject; SRecon; SBreakTest 2 true]) = false /\
  ghost_prog (mkHprog false [SImpute; SSweep; SProject; SRecon; SBreakTest 2 true]) InitSvd 0 [] = false.
Proof. exact prog_ok_examples. Qed.
(* the instance compared with the implementation on every run (call log of svd_interface / multi_mode_dot) *)
Theorem C08_hooi_trace_ends_projected : forall ik k mask tol_set n decisions, ik = InitSvd \/ 0 < n ->
  ends_projected (hooi_trace ik k mask tol_set n decisions) = true.
Proof. exact hooi_trace_ends_projected. Qed.
Print Assumptions C08_hooi_trace_ends_projected.
Theorem C08_hooi_trace_factors_from_svd : forall ik k mask tol_set n decisions, ik = InitSvd \/ 0 < n ->
  factors_from_svd k (hooi_trace ik k mask tol_set n decisions) = true.
Proof. exact hooi_trace_factors_from_svd. Qed.
Print Assumptions C08_hooi_trace_factors_from_svd.
Theorem C08_hooi_trace_no_sweep : forall ik k mask tol_set decisions, ik <> InitSvd ->
  hooi_trace ik k mask tol_set 0 decisions = [] /\ ends_projected (hooi_trace ik k mask tol_set 0 decisions) = false.
Proof. exact hooi_trace_no_sweep. Qed.
Print Assumptions C08_hooi_trace_no_sweep.
(* non-vacuity: a state space on which a factor update really destroys "the core is the projection" *)
Example C08_hooi_ghost_ex : (forall ik k mask tol_set n decisions, ik = InitSvd \/ 0 < n -> ghost_hooi ik k mask tol_set n decisions = true) /\
  (forall ik k mask tol_set decisions, ik <> InitSvd -> ghost_hooi ik k mask tol_set 0 decisions = false).
Proof. exact (conj ghost_hooi_projected ghost_hooi_no_sweep). Qed.
Example C08_hooi_trace_ex : map code (hooi_trace InitSvd 2 false true 5 [false; false; true]) =
  [100; 101; 2;  10; 100; 11; 101; 2;  10; 100; 11; 101; 2;  10; 100; 11; 101; 2].
Proof. exact hooi_trace_ex. Qed.

(* HOOI on concrete tensors over a ring with conjugation: svd0 / svdU stand for the LAPACK calls (any functions whose result has unitary
   columns of the right shape: the SVD contract), imp for the mask imputation (any function).  For every cap, decision sequence, mask
   setting and initialisation kind (user / random initialisations: at least one sweep and one factor per mode): the returned factors
   have unitary columns, the returned core is X x_k U_k^H for the RETURNED factors (X: the data, when there is no mask) *)
Theorem C08_hooi_result_canonical : forall (K : Type) (k0 k1 : K) (kadd kmul : K -> K -> K) (conj : K -> K) (shape ranks : list nat),
  length ranks = length shape ->
  forall (svd0 : nat -> tens K -> nat -> nat -> K) (svdU : nat -> tens K -> list (nat -> nat -> K) -> nat -> nat -> K),
  (forall i X, i < length shape -> unitary_cols K k0 k1 kadd kmul conj (nth i shape 0) (nth i ranks 0) (svd0 i X)) ->
  (forall i X fs, i < length shape -> unitary_cols K k0 k1 kadd kmul conj (nth i shape 0) (nth i ranks 0) (svdU i X fs)) ->
  forall (imp : tens K -> tens K -> list (nat -> nat -> K) -> tens K) ik mask tol_set n decisions X G0 fs0,
  ik = InitSvd \/ (0 < n /\ length fs0 = length shape) ->
  let '(X', G', fs') := hooi_K K k0 k1 kadd kmul conj shape svd0 svdU imp ik mask tol_set n decisions X G0 fs0 in
  unitary_all K k0 k1 kadd kmul conj shape ranks fs' /\
  (forall jdx, G' jdx = tproj K k0 k1 kadd kmul conj shape fs' X' jdx) /\ (mask = false -> X' = X).
Proof. exact hooi_K_canonical. Qed.
Print Assumptions C08_hooi_result_canonical.
Example C08_hooi_result_canonical_ex : forall i, i < length [2] -> unitary_cols Cx cx0 cx1 cxadd cxmul cxconj (nth i [2] 0) (nth i [1] 0) Uex.
Proof. exact Uex_contract. Qed.
(* ... hence the residual of the result is orthogonal to everything its factors can represent and the error identity of the code holds *)
Theorem C08_hooi_result_optimal_core : forall (K : Type) (k0 k1 : K) (kadd kmul ksub : K -> K -> K) (kopp : K -> K),
  ring_theory k0 k1 kadd kmul ksub kopp eq -> forall conj, is_conj kadd kmul conj -> forall (shape ranks : list nat),
  length ranks = length shape ->
  forall (svd0 : nat -> tens K -> nat -> nat -> K) (svdU : nat -> tens K -> list (nat -> nat -> K) -> nat -> nat -> K),
  (forall i X, i < length shape -> unitary_cols K k0 k1 kadd kmul conj (nth i shape 0) (nth i ranks 0) (svd0 i X)) ->
  (forall i X fs, i < length shape -> unitary_cols K k0 k1 kadd kmul conj (nth i shape 0) (nth i ranks 0) (svdU i X fs)) ->
  forall (imp : tens K -> tens K -> list (nat -> nat -> K) -> tens K) ik mask tol_set n decisions X G0 fs0 H,
  ik = InitSvd \/ (0 < n /\ length fs0 = length shape) ->
  let '(X', G', fs') := hooi_K K k0 k1 kadd kmul conj shape svd0 svdU imp ik mask tol_set n decisions X G0 fs0 in
  tinner K k0 kadd kmul conj shape (trec K k0 k1 kadd kmul ranks fs' H) (tsub K ksub X' (trec K k0 k1 kadd kmul ranks fs' G')) = k0 /\
  tinner K k0 kadd kmul conj shape X' X' =
    kadd (tinner K k0 kadd kmul conj ranks G' G')
         (tinner K k0 kadd kmul conj shape (tsub K ksub X' (trec K k0 k1 kadd kmul ranks fs' G')) (tsub K ksub X' (trec K k0 k1 kadd kmul ranks fs' G'))).
Proof. exact hooi_K_residual_orthogonal. Qed.
Print Assumptions C08_hooi_result_optimal_core.

(* ================================================================== canonical form over R *)
Local Open Scope R_scope.

(* Tucker / TT: U[:, :r] (any injective selection of columns) of a matrix with orthonormal columns has orthonormal columns *)
Theorem C08_orthonormal_cols_select : forall m k k' (M : nat -> nat -> R) (sel : nat -> nat),
  orthonormal_cols m k M ->
  (forall a, (a < k')%nat -> (sel a < k)%nat) ->
  (forall a b, (a < k')%nat -> (b < k')%nat -> sel a = sel b -> a = b) ->
  orthonormal_cols m k' (fun i a => M i (sel a)).
Proof. exact orthonormal_cols_select. Qed.
Print Assumptions C08_orthonormal_cols_select.
Theorem C08_orthonormal_cols_truncate : forall m k r (M : nat -> nat -> R),
  orthonormal_cols m k M -> (r <= k)%nat -> orthonormal_cols m r M.
Proof. exact orthonormal_cols_truncate. Qed.
Print Assumptions C08_orthonormal_cols_truncate.

(* PARAFAC2: the projection (U Vh)^T built from U (r x k) and Vh (k x n) with orthonormal rows has orthonormal
   columns, hence every evolving factor P_i B has the cross product B^T B *)
Theorem C08_projection_orthonormal : forall r k n (U Vh : nat -> nat -> R),
  orthonormal_rows r k U -> orthonormal_rows k n Vh -> orthonormal_cols n r (mtranspose (mmul k U Vh)).
Proof. exact projection_orthonormal. Qed.
Print Assumptions C08_projection_orthonormal.
Theorem C08_parafac2_cross_product : forall n r (P B : nat -> nat -> R) a b, orthonormal_cols n r P ->
  rsum n (fun j => mmul r P B j a * mmul r P B j b) = rsum r (fun l => B l a * B l b).
Proof. exact parafac2_cross_product. Qed.
Print Assumptions C08_parafac2_cross_product.

(* TT-SVD: the core obtained by reshaping U (rk*I x r, orthonormal columns) to (rk, I, r) is left-orthogonal *)
Theorem C08_tt_core_left_orthogonal : forall rk I r (U : nat -> nat -> R), orthonormal_cols (rk * I) r U ->
  forall b b', (b < r)%nat -> (b' < r)%nat ->
  rsum rk (fun a => rsum I (fun i => core_of I U a i b * core_of I U a i b')) = delta b b'.
Proof. exact tt_core_left_orthogonal. Qed.
Print Assumptions C08_tt_core_left_orthogonal.

(* the same with the truncation to r <= k columns that precedes the reshape (TT-SVD and the middle cores of TR-SVD) *)
Theorem C08_tt_svd_core_left_orthogonal : forall rk I k r (U : nat -> nat -> R), orthonormal_cols (rk * I) k U -> (r <= k)%nat ->
  forall b b', (b < r)%nat -> (b' < r)%nat ->
  rsum rk (fun a => rsum I (fun i => core_of I U a i b * core_of I U a i b')) = delta b b'.
Proof. exact tt_svd_core_left_orthogonal. Qed.
Print Assumptions C08_tt_svd_core_left_orthogonal.
(* TR-SVD, first core: factor[a, i, b] = U[i, a r1 + b]; its mode unfolding (I x r0 r1) has orthonormal columns *)
Theorem C08_tr_first_core_orthonormal : forall I r0 r1 (U : nat -> nat -> R), orthonormal_cols I (r0 * r1) U ->
  forall a b a' b', (a < r0)%nat -> (b < r1)%nat -> (a' < r0)%nat -> (b' < r1)%nat ->
  rsum I (fun i => tr_first_core r1 U a i b * tr_first_core r1 U a' i b') = delta a a' * delta b b'.
Proof. exact tr_first_core_orthonormal. Qed.
Print Assumptions C08_tr_first_core_orthonormal.

(* one factor of cp_normalize: non-zero columns get unit norm, the scale (the column norm) times the normalised
   column gives the column back, zero columns stay zero with scale 0 *)
Theorem C08_normalise_factor_unit : forall I f r, colnorm2 I f r <> 0 -> colnorm2 I (normalise_factor I f) r = 1.
Proof. exact normalise_factor_unit. Qed.
Print Assumptions C08_normalise_factor_unit.
Theorem C08_normalise_factor_represents : forall I f r i, (i < I)%nat -> normalise_factor I f i r * scale_of I f r = f i r.
Proof. exact normalise_factor_represents. Qed.
Print Assumptions C08_normalise_factor_represents.

(* cp_normalize on a whole CP tensor (weights w, factors fs with their numbers of rows): the scale is carried by the
   weights -- every rank-one term of every entry of the represented tensor is unchanged -- and every returned column has
   unit norm unless it is a zero column, whose component then has weight 0; weights are non-negative; shapes are kept *)
Theorem C08_cp_normalize_represents : forall w fs idx r, fs <> [] -> in_bounds fs idx ->
  let '(w', fs') := cp_normalize w fs in cp_entry_term w' fs' idx r = cp_entry_term w fs idx r.
Proof. exact cp_normalize_represents. Qed.
Print Assumptions C08_cp_normalize_represents.
Theorem C08_cp_normalize_unit_columns : forall w fs r f', In f' (snd (cp_normalize w fs)) ->
  colnorm2 (rows f') (ent f') r = 1 \/
  ((forall i, (i < rows f')%nat -> ent f' i r = 0) /\ fst (cp_normalize w fs) r = 0).
Proof. exact cp_normalize_unit_columns. Qed.
Print Assumptions C08_cp_normalize_unit_columns.
Theorem C08_cp_normalize_weights_nonneg : forall w fs r, 0 <= fst (cp_normalize w fs) r.
Proof. exact cp_normalize_weights_nonneg. Qed.
Print Assumptions C08_cp_normalize_weights_nonneg.
Theorem C08_cp_normalize_shapes : forall w fs, map rows (snd (cp_normalize w fs)) = map rows fs.
Proof. exact cp_normalize_shapes. Qed.
Print Assumptions C08_cp_normalize_shapes.

(* tucker_normalize: the scale goes to the core -- every term core[j] * prod_k U_k[i_k, j_k] of every entry is unchanged --
   and every returned factor column has unit norm or is zero *)
Theorem C08_tucker_normalize_represents : forall core fs idx jdx, in_bounds fs idx -> length jdx = length fs ->
  let '(core', fs') := tucker_normalize core fs in core' jdx * tterm fs' idx jdx = core jdx * tterm fs idx jdx.
Proof. exact tucker_normalize_represents. Qed.
Print Assumptions C08_tucker_normalize_represents.
Theorem C08_tucker_normalize_unit_columns : forall core fs j f', In f' (snd (tucker_normalize core fs)) ->
  colnorm2 (rows f') (ent f') j = 1 \/ (forall i, (i < rows f')%nat -> ent f' i j = 0).
Proof. exact tucker_normalize_unit_columns. Qed.
Print Assumptions C08_tucker_normalize_unit_columns.

(* initialize_cp with a user CP tensor (weights w, possibly non-unit, e.g. the result of a normalised run fed back): the weights are
   pulled into factor k (the last factor; the last updated one in non_negative_parafac_hals with a fixed last mode) and replaced by
   ones -- the result has weights all ones, the same factor shapes and represents the same tensor *)
Theorem C08_init_user_weights_absorbed : forall k w fs idx r, (k < length fs)%nat -> in_bounds fs idx ->
  cp_entry_term ones_w (absorb_at k w fs) idx r = cp_entry_term w fs idx r.
Proof. exact init_user_weights_absorbed. Qed.
Print Assumptions C08_init_user_weights_absorbed.
Theorem C08_absorb_at_shapes : forall k w fs, map rows (absorb_at k w fs) = map rows fs.
Proof. exact absorb_at_shapes. Qed.
Print Assumptions C08_absorb_at_shapes.

(* PARAFAC2 end to end over R: F = the CP factors, svdU / svdVh the SVD pair inside _compute_projections for slice i (any functions with orthonormal
   rows: the SVD contract), every other operation an arbitrary function.  For every cap and decision sequence the result has ONE projection per slice,
   each with orthonormal columns, and the evolving factors B_i = P_i B share the cross product B^T B *)
Theorem C08_parafac2_result_canonical : forall (F : Type) (getB : F -> nat -> nat -> R) (r : nat) (Js : list nat) (svdU svdVh : nat -> F -> nat -> nat -> R),
  (forall i f, (i < length Js)%nat -> orthonormal_rows r r (svdU i f)) ->
  (forall i f, (i < length Js)%nat -> orthonormal_rows r (nth i Js 0%nat) (svdVh i f)) ->
  forall (f_svd_init f_clip f_absorb f_jump f_normalise : F -> F) (f_updates_p : F -> list (nat -> nat -> R) -> F)
    ik nn nf tol_set ls n decisions f0 P0,
  ik = InitSvd \/ (0 < n)%nat \/ ProjOrthR F r Js (f0, P0) ->
  let res := parafac2_R F r Js svdU svdVh f_svd_init f_clip f_absorb f_jump f_normalise f_updates_p ik nn nf tol_set ls n decisions f0 P0 in
  let B := getB (fst res) in
  length (snd res) = length Js /\
  (forall i, (i < length Js)%nat -> orthonormal_cols (nth i Js 0%nat) r (nth i (snd res) zmatR)) /\
  (forall i a b, (i < length Js)%nat ->
     rsum (nth i Js 0%nat) (fun j => mmul r (nth i (snd res) zmatR) B j a * mmul r (nth i (snd res) zmatR) B j b) = rsum r (fun l => B l a * B l b)).
Proof. exact parafac2_R_canonical. Qed.
Print Assumptions C08_parafac2_result_canonical.

(* ================================================================== round 7: the rank validators, second part (Model/StructureRanks.v) *)
Local Open Scope nat_scope.
(* validate_tucker_rank(fixed_modes = fm) with a fraction / 'same', as coded (the fixed modes are popped in descending order and re-inserted in
   ascending order): for EVERY duplicate-free list of valid modes IN ANY ORDER the call is accepted exactly when brentq's bracket has a sign
   change, the result has one rank per mode, a fixed mode keeps the size of the tensor (the documented rank[i] = tensor_shape[i]), and removing
   the fixed positions from the result leaves exactly the ranks rounded from the free sizes, in order, each >= 1 *)
Theorem C08_validate_tucker_rank_fixed_modes : forall shape q rd fm c, NoDup fm -> (forall m, In m fm -> m < length shape) ->
  exists r P free,
    validate_tucker_rank_fm shape (RFrac q) rd (Some fm) c = (if brentq_bracket_ok (tucker_residual_fm shape P free q) q then Ok r else Err) /\
    length r = length shape /\ (forall m, In m fm -> nth m r 0 = nth m shape 0) /\
    pop_modes (sort_desc fm) shape [] = Ok (P, free) /\ length free + length fm = length shape /\
    pop_modes (sort_desc fm) r [] = Ok (P, frac_ranks rd c (map n2q free)) /\
    Forall (fun x => 1 <= x) (frac_ranks rd c (map n2q free)).
Proof. exact validate_tucker_rank_fm_frac. Qed.
Print Assumptions C08_validate_tucker_rank_fixed_modes.
Example C08_validate_tucker_rank_fixed_modes_ex :
  validate_tucker_rank_fm [24; 10; 10] (RFrac (1 # 2)) RFloor (Some [0]) (5637 # 10000) = Ok [24; 5; 5] /\
  validate_tucker_rank_fm [3; 4; 5; 6] (RFrac 1) RRound (Some [3; 1]) (3 # 4) = Ok [2; 4; 4; 6] /\
  validate_tucker_rank_fm [3; 4] (RFrac (1 # 2)) RRound (Some [1; 0]) 0 = Err /\          (* every mode fixed, q < 1: no sign change *)
  validate_tucker_rank_fm [3; 4] (RFrac 1) RRound (Some [2]) 0 = Err.                      (* pop beyond the end *)
Proof. vm_compute. repeat split. Qed.
(* brentq's bracket [0, max(q, 1)]: with at least one free mode and q >= 0 the function changes sign (f(0) = -q P <= 0 <= f(max(q, 1))), so the
   call is ACCEPTED for every duplicate-free list of valid modes that leaves a mode free, in any order (with every mode fixed it need not be:
   third line of the Example above) *)
Theorem C08_brentq_bracket_free : forall shape fixed free q, length fixed < length shape -> (0 <= q)%Q ->
  brentq_bracket_ok (tucker_residual_fm shape fixed free q) q = true.
Proof. exact brentq_bracket_free. Qed.
Print Assumptions C08_brentq_bracket_free.
Theorem C08_validate_tucker_rank_fixed_modes_accepted : forall shape q rd fm c, NoDup fm -> (forall m, In m fm -> m < length shape) ->
  length fm < length shape -> (0 <= q)%Q ->
  exists r, validate_tucker_rank_fm shape (RFrac q) rd (Some fm) c = Ok r /\ length r = length shape /\
            (forall m, In m fm -> nth m r 0 = nth m shape 0).
Proof. exact validate_tucker_rank_fm_accepted. Qed.
Print Assumptions C08_validate_tucker_rank_fixed_modes_accepted.
(* an int rank with fixed modes: a fixed mode keeps its size, the others get the int *)
Theorem C08_validate_tucker_rank_fixed_modes_int : forall shape r0 rd fm c r, validate_tucker_rank_fm shape (RInt r0) rd (Some fm) c = Ok r ->
  length r = length shape /\ forall i, i < length shape -> nth i r 0 = if Structure.memb i fm then nth i shape 0 else r0.
Proof. exact validate_tucker_rank_fm_int. Qed.
Print Assumptions C08_validate_tucker_rank_fixed_modes_int.
Theorem C08_validate_tucker_rank_fm_none : forall shape spec rd c, validate_tucker_rank_fm shape spec rd None c = validate_tucker_rank shape spec rd c.
Proof. exact validate_tucker_rank_fm_none. Qed.
Print Assumptions C08_validate_tucker_rank_fm_none.
(* sorted(fixed_modes, reverse=True) *)
Theorem C08_sort_desc_spec : forall l, Permutation.Permutation l (sort_desc l) /\ (NoDup l -> Sorted.StronglySorted (fun a b => b < a) (sort_desc l)).
Proof. exact (fun l => conj (sort_desc_perm l) (sort_desc_sdesc l)). Qed.
Print Assumptions C08_sort_desc_spec.

(* WHAT A FRACTIONAL RANK IS A FRACTION OF.  Tucker (no fixed modes): at the rational ranks c * I_k the parameter count (core + factors) minus
   the requested q * prod(shape) IS the function whose root the code asks brentq for -- for every c: a root reproduces the requested
   fraction exactly, an approximate root misses it by its residual (which Corr.C08.oracle_ok bounds by 1e-9 * prod(shape) on every run) *)
Theorem C08_tucker_fraction_identity : forall shape q c,
  (tucker_params shape (scaled c (map n2q shape)) - q * n2q (prod shape) == tucker_residual shape q c)%Q.
Proof. exact tucker_fraction_identity. Qed.
Print Assumptions C08_tucker_fraction_identity.
(* with fixed modes the equation AS CODED counts a fixed factor as size^2 * x although its size does not depend on x: rounding DOWN can then
   exceed the requested fraction (24 x 10 x 10, mode 0 fixed, half the parameters = 1200: the ranks (24, 5, 5) have 1276) -- an observation
   about the code, reported; the model follows the code *)
Example C08_fixed_modes_fraction_as_coded_ex :
  validate_tucker_rank_fm [24; 10; 10] (RFrac (1 # 2)) RFloor (Some [0]) (5637 # 10000) = Ok [24; 5; 5] /\
  Qle (Qabs.Qabs (tucker_residual_fm [24; 10; 10] [(0, 24)] [10; 10] (1 # 2)%Q (5637 # 10000)%Q)) (1 # 2)%Q /\
  Qeq (tucker_params [24; 10; 10] (map n2q [24; 5; 5])) 1276%Q /\ Qeq (Qmult (1 # 2)%Q (n2q (prod [24; 10; 10]))) 1200%Q.
Proof. vm_compute. repeat split; discriminate. Qed.
(* TT of order >= 3 with proportional ranks (constant_rank = False): at the rational ranks (1, c a_1, ..., c a_N-1, 1), a_k the averaged neighbouring
   sizes, the parameter count minus the requested q * prod(shape) IS the quadratic whose root the code takes -- for every c (induction over the
   cores; the rounding to integers is C08_round_half_even_spec / C08_qround_floor_ceil_spec).  For a matrix (order 2) the code solves a DIFFERENT
   equation (a = a_1^2 I_1) and warns about the 'trivial case': the Example shows the two differ *)
Theorem C08_tt_fraction_identity : forall shape q c, 3 <= length shape ->
  (tt_params shape (1%Q :: scaled c (avg_dims shape) ++ [1%Q]) - q * n2q (prod shape) == tt_residual (tt_quadratic shape q) c)%Q.
Proof. exact tt_fraction_identity. Qed.
Print Assumptions C08_tt_fraction_identity.
(* constant_rank = True (ranks (1, r, ..., r, 1); the code rejects fractions for order <= 2): count minus request IS the constant-rank quadratic *)
Theorem C08_tt_fraction_identity_const : forall shape q r, 2 <= length shape ->
  (tt_params shape (1%Q :: repeat r (length shape - 1) ++ [1%Q]) - q * n2q (prod shape) == tt_residual (tt_quadratic_const shape q) r)%Q.
Proof. exact tt_fraction_identity_const. Qed.
Print Assumptions C08_tt_fraction_identity_const.
Example C08_tt_order2_equation_differs_ex :
  Qeq (Qminus (tt_params [4; 6] (1%Q :: scaled (1 # 5)%Q (avg_dims [4; 6]) ++ [1%Q])) (Qmult (1 # 2)%Q (n2q (prod [4; 6])))) (-2 # 1)%Q /\
  Qeq (tt_residual (tt_quadratic [4; 6] (1 # 2)%Q) (1 # 5)%Q) (2 # 1)%Q.
Proof. vm_compute. split; reflexivity. Qed.
(* WITHIN BOUNDS: brentq returns a point of its bracket [0, max(q, 1)], i.e. 0 <= c <= 1 for a fraction q <= 1 / 'same'; then every Tucker rank
   max(rounding_fun(c I_k), 1) lies between 1 and I_k, for every rounding mode (the harness's bisection root is in the bracket by construction) *)
Theorem C08_validate_tucker_rank_frac_le : forall shape q rd c r, validate_tucker_rank shape (RFrac q) rd c = Ok r ->
  (0 <= c)%Q -> (c <= 1)%Q -> Forall (fun s => 1 <= s) shape ->
  length r = length shape /\ forall k, k < length shape -> 1 <= nth k r 0 <= nth k shape 0.
Proof. exact validate_tucker_rank_frac_le. Qed.
Print Assumptions C08_validate_tucker_rank_frac_le.
Example C08_validate_tucker_rank_frac_le_ex : validate_tucker_rank [3; 4; 5] (RFrac 1) RCeil (7 # 10) = Ok [3; 3; 4].
Proof. vm_compute. reflexivity. Qed.
(* CP: the rank chosen for a fraction q >= 0 reproduces q * prod(shape) parameters to within one rank-one term (sum(shape) parameters): 'floor'
   never exceeds the request and one more term would, 'ceil' reaches it and one term less would not, 'round' is within half a term *)
Theorem C08_validate_cp_rank_fraction : forall shape q rd r, (0 <= q)%Q -> validate_cp_rank shape (RFrac q) rd = Ok r ->
  let target := (q * n2q (prod shape))%Q in let term := n2q (sum_list shape) in
  (0 < term)%Q /\
  match rd with
  | RFloor => (cp_params shape (n2q r) <= target)%Q /\ (target < cp_params shape (n2q r) + term)%Q
  | RCeil => (cp_params shape (n2q r) - term < target)%Q /\ (target <= cp_params shape (n2q r))%Q
  | RRound => (cp_params shape (n2q r) - term * (1 # 2) <= target)%Q /\ (target <= cp_params shape (n2q r) + term * (1 # 2))%Q
  end.
Proof. exact validate_cp_rank_fraction. Qed.
Print Assumptions C08_validate_cp_rank_fraction.
Example C08_validate_cp_rank_fraction_ex : validate_cp_rank [3; 4; 5] (RFrac (1 # 2)) RFloor = Ok 2 /\ validate_cp_rank [3; 4; 5] (RFrac (1 # 2)) RCeil = Ok 3.
Proof. vm_compute. split; reflexivity. Qed.
(* TR: the constant rank r chosen for a fraction q >= 0 (r^2 * sum(shape) parameters, C08_tt_params_const): 'floor' r^2 sum <= q prod < (r+1)^2 sum,
   'ceil' (r-1)^2 sum < q prod <= r^2 sum, 'round' (2r-1)^2 sum <= 4 q prod <= (2r+1)^2 sum *)
Theorem C08_tt_params_const : forall shape r, (tt_params shape (repeat r (S (length shape))) == r * r * n2q (sum_list shape))%Q.
Proof. exact tt_params_const. Qed.
Print Assumptions C08_tt_params_const.
Theorem C08_validate_tr_rank_fraction : forall shape q rd rk, (0 <= q)%Q -> validate_tr_rank shape (RFrac q) rd = Ok rk ->
  exists r : nat, rk = repeat r (S (length shape)) /\
  let target := (q * n2q (prod shape))%Q in let params (z : Q) := tt_params shape (repeat z (S (length shape))) in
  match rd with
  | RFloor => (params (n2q r) <= target)%Q /\ (target < params (n2q r + 1))%Q
  | RCeil => (0 < target)%Q -> (params (n2q r - 1) < target)%Q /\ (target <= params (n2q r))%Q
  | RRound => (1 <= r -> (params (2 * n2q r - 1) <= 4 * target)%Q) /\ (4 * target <= params (2 * n2q r + 1))%Q
  end.
Proof. exact validate_tr_rank_fraction. Qed.
Print Assumptions C08_validate_tr_rank_fraction.
Example C08_validate_tr_rank_fraction_ex : validate_tr_rank [3; 4; 5] (RFrac 1) RRound = Ok [2; 2; 2; 2] /\ validate_tr_rank [3; 4; 5] (RFrac 1) RCeil = Ok [3; 3; 3; 3].
Proof. vm_compute. split; reflexivity. Qed.

(* ================================================================== round 7: the SVD contract of the HOOI theorems discharged from LAPACK's contract *)
From TLV Require Import Base.Ops Model.Svd Proofs.SvdProofs Proofs.SvdWitness Proofs.SvdSymeigFull Proofs.StructureSvdBridge.
From Coq Require Import RealField.
Local Open Scope nat_scope.
(* (read-only import of C05's model of svd_interface / truncated_svd and of its theorem interface_truncated_e2e_gen.)  One call
   svd_interface(M, n_eigenvecs = r, method = 'truncated_svd', flip_sign = flip) on a d1 x d2 matrix, through C05's model of the clamping, the
   full_matrices choice, the slicing and svd_flip: if LAPACK's answers tl.svd(M, full_matrices = f) meet LAPACK's contract (orthonormal factors
   of the documented shapes reproducing M), the returned U has min(r, d1) orthonormal columns -- what C08_hooi_result_canonical assumes *)
Theorem C08_svd_interface_truncated_unitary : forall (orc : list (list R) -> bool -> triple R) (flip ub : bool) (d1 d2 r : nat) (M : list (list R)),
  1 <= d1 -> (forall f, svd_contract d1 d2 (mget Rops M) f (orc M f)) ->
  unitary_cols R 0%R 1%R Rplus Rmult (fun x => x) d1 (Nat.min r d1) (svd_interface_U orc flip ub d1 d2 r M).
Proof. exact svd_interface_U_unitary. Qed.
Print Assumptions C08_svd_interface_truncated_unitary.
(* HOOI (tucker / partial_tucker, method = 'truncated_svd') under LAPACK's contract ONLY: for every cap, decision sequence, mask setting and
   initialisation kind the returned factors are orthonormal with min(rank_i, I_i) columns (the shape model's clipping) and the returned core is
   the projection of the (imputed) data onto the RETURNED factors.  unf0 / unfU: the matrices handed to svd_interface (arbitrary functions of
   the state: the orthonormality of U does not depend on them); LAPACK's contract is assumed on exactly these matrices *)
Theorem C08_hooi_lapack_canonical : forall shape ranks : list nat, length ranks = length shape -> (forall i, i < length shape -> 1 <= nth i shape 0) ->
  forall (orc : list (list R) -> bool -> triple R) (flip ub : bool)
         (unf0 : nat -> tens R -> list (list R)) (cols0 : nat -> tens R -> nat)
         (unfU : nat -> tens R -> list (nat -> nat -> R) -> list (list R)) (colsU : nat -> tens R -> list (nat -> nat -> R) -> nat),
  (forall i X f, i < length shape -> svd_contract (nth i shape 0) (cols0 i X) (mget Rops (unf0 i X)) f (orc (unf0 i X) f)) ->
  (forall i X fs f, i < length shape -> svd_contract (nth i shape 0) (colsU i X fs) (mget Rops (unfU i X fs)) f (orc (unfU i X fs) f)) ->
  forall (imp : tens R -> tens R -> list (nat -> nat -> R) -> tens R) ik mask tol_set n decisions X G0 fs0,
  ik = InitSvd \/ (0 < n /\ length fs0 = length shape) ->
  let '(X', G', fs') := hooi_K R 0%R 1%R Rplus Rmult (fun x => x) shape (lsvd0 shape ranks orc flip ub unf0 cols0) (lsvdU shape ranks orc flip ub unfU colsU)
                                imp ik mask tol_set n decisions X G0 fs0 in
  unitary_all R 0%R 1%R Rplus Rmult (fun x => x) shape (clipped shape ranks) fs' /\
  (forall jdx, G' jdx = tproj R 0%R 1%R Rplus Rmult (fun x => x) shape fs' X' jdx) /\ (mask = false -> X' = X).
Proof. exact hooi_lapack_canonical. Qed.
Print Assumptions C08_hooi_lapack_canonical.
(* non-vacuity: LAPACK's contract is satisfiable on the matrices of a run (C05's witness, the 2 x 1 matrix (2, 0)^T with its two LAPACK answers) *)
Example C08_hooi_lapack_hyps_ex : forall i (X : tens R) f, i < length [2] -> svd_contract (nth i [2] 0) 1 (mget Rops Mtall) f (orc_tall Mtall f).
Proof. exact bridge_hyps_ex. Qed.

(* method = 'symeig_svd' (eigh of the Gram matrix; C05's theorem interface_symeig_e2e): one call returns a U with min(r, d1) orthonormal columns when
   the symmetric eigensolver's answer on the Gram matrix the code builds meets its contract (W orthogonal, G W = W diag(lam)) and the kept
   eigenvalues exceed the clip (symeig_call_ok: exactly the hypotheses of C05's theorem; rank-deficient input is a documented limitation) *)
Theorem C08_svd_interface_symeig_unitary : forall (eigh : list (list R) -> list R * list (list R)) (epsd : R) (flip ub : bool) (d1 d2 r : nat) (M : list (list R)),
  symeig_call_ok eigh epsd d1 d2 r M ->
  unitary_cols R 0%R 1%R Rplus Rmult (fun x => x) d1 (Nat.min r d1) (svd_interface_symeig_U eigh epsd flip ub d1 d2 r M).
Proof. exact svd_interface_symeig_U_unitary. Qed.
Print Assumptions C08_svd_interface_symeig_unitary.
(* HOOI whose SVD calls go through method = 'symeig_svd': orthonormal factors with min(rank_i, I_i) columns, core = projection onto the returned
   factors (in the present code only the initialisation of tucker / partial_tucker honours svd=...; the sweep uses the default method) *)
Theorem C08_hooi_symeig_canonical : forall shape ranks : list nat, length ranks = length shape ->
  forall (eigh : list (list R) -> list R * list (list R)) (epsd : R) (flip ub : bool)
         (unf0 : nat -> tens R -> list (list R)) (cols0 : nat -> tens R -> nat)
         (unfU : nat -> tens R -> list (nat -> nat -> R) -> list (list R)) (colsU : nat -> tens R -> list (nat -> nat -> R) -> nat),
  (forall i X, i < length shape -> symeig_call_ok eigh epsd (nth i shape 0) (cols0 i X) (nth i ranks 0) (unf0 i X)) ->
  (forall i X fs, i < length shape -> symeig_call_ok eigh epsd (nth i shape 0) (colsU i X fs) (nth i ranks 0) (unfU i X fs)) ->
  forall (imp : tens R -> tens R -> list (nat -> nat -> R) -> tens R) ik mask tol_set n decisions X G0 fs0,
  ik = InitSvd \/ (0 < n /\ length fs0 = length shape) ->
  let '(X', G', fs') := hooi_K R 0%R 1%R Rplus Rmult (fun x => x) shape (ssvd0 shape ranks eigh epsd flip ub unf0 cols0) (ssvdU shape ranks eigh epsd flip ub unfU colsU)
                                imp ik mask tol_set n decisions X G0 fs0 in
  unitary_all R 0%R 1%R Rplus Rmult (fun x => x) shape (clipped shape ranks) fs' /\
  (forall jdx, G' jdx = tproj R 0%R 1%R Rplus Rmult (fun x => x) shape fs' X' jdx) /\ (mask = false -> X' = X).
Proof. exact hooi_symeig_canonical. Qed.
Print Assumptions C08_hooi_symeig_canonical.
Example C08_symeig_call_ok_ex : symeig_call_ok (fun _ => ([4%R], [[1%R]])) 1%R 1 1 1 [[2%R]].
Proof. exact symeig_call_ok_ex. Qed.

(* TT-SVD / TR-SVD with svd_interface(method = 'truncated_svd') as the SVD of the loop models of Proofs/StructureTTConj.v.  `_partial`: the contract of
   those loop theorems quantifies over EVERY matrix, so the hypothesis here is LAPACK's contract on every matrix = the existence of a singular value
   decomposition, a classical result in no installed library (named hypothesis; no non-vacuity Example can be given for it).  Under it: the core
   shapes are those of the shape model and all TT cores but the last are left-orthogonal; the first TR core has orthonormal mode unfolding columns
   and the middle ones are left-orthogonal -- from LAPACK's contract through C05's model of svd_interface, no separate orthonormality assumption *)
Theorem C08_tensor_train_lapack_partial : forall (orc : list (list R) -> bool -> triple R) (flip ub : bool),
  (forall d1 d2 (Ml : list (list R)) f, svd_contract d1 d2 (mget Rops Ml) f (orc Ml f)) ->
  forall (svdSV : nat -> nat -> (nat -> nat -> R) -> nat -> nat -> nat -> R) shape spec c X cores,
  tensor_train_K R (tsvdU orc flip ub) svdSV shape spec c X = Ok cores ->
  tensor_train shape spec c = Ok (map (cshape R) cores) /\
  (forall k, S k < length cores -> left_unitary R 0%R 1%R Rplus Rmult (fun x => x) (nth k cores (mkCore R 0 0 0 (fun _ _ _ => 0%R)))).
Proof. exact tensor_train_lapack_partial. Qed.
Print Assumptions C08_tensor_train_lapack_partial.
Theorem C08_tensor_ring_lapack_partial : forall (orc : list (list R) -> bool -> triple R) (flip ub : bool),
  (forall d1 d2 (Ml : list (list R)) f, svd_contract d1 d2 (mget Rops Ml) f (orc Ml f)) ->
  forall (svdSV : nat -> nat -> (nat -> nat -> R) -> nat -> nat -> nat -> R) shape rank X cores,
  tr_cores_K R (tsvdU orc flip ub) svdSV shape rank X = Ok cores ->
  tr_cores shape rank = Ok (map (cshape R) cores) /\
  first_core_unitary R 0%R 1%R Rplus Rmult (fun x => x) (hd (mkCore R 0 0 0 (fun _ _ _ => 0%R)) cores) /\
  (forall k, 1 <= k -> S k < length cores -> left_unitary R 0%R 1%R Rplus Rmult (fun x => x) (nth k cores (mkCore R 0 0 0 (fun _ _ _ => 0%R)))).
Proof. exact tensor_ring_lapack_partial. Qed.
Print Assumptions C08_tensor_ring_lapack_partial.

(* ================================================================== round 7: the initial CP weights (initialize_cp as a set of paths) *)
(* the clause "otherwise the CP weights are all ones" needs the INITIAL weights to be ones (C08_wprog_unit_weights starts from them): for every
   set of paths accepted by ipaths_ok (every path ends with a freshly built CP tensor -- weights None / random_cp(normalise_factors=False) --
   followed only by factor updates and normalisations inside `if normalize_factors`), every path returns weights all ones when
   normalize_factors is False, whatever weights the caller's initialisation carried and whatever cp_normalize does.  On every run the harness
   enumerates the paths of the CURRENT source of initialize_cp (ast; fail closed) and Coq evaluates ipaths_ok on them.  That
   CPTensor((None, factors)) and random_cp(normalise_factors=False) deliver weights of ones is the library's constructor contract (tested per run) *)
Theorem C08_ipaths_unit_weights : forall (K : Type) (k1 : K) (normalise : (nat -> K) -> nat -> K) ps, ipaths_ok ps = true ->
  forall p users, In p ps -> exists w', iexec K k1 normalise false p users None = Some w' /\ forall r, w' r = k1.
Proof. exact ipaths_unit_weights. Qed.
Print Assumptions C08_ipaths_unit_weights.
Example C08_ipaths_sharp_ex : ipaths_ok [[IUser]] = false /\ ipaths_ok [[IFresh; INormalize false]] = false /\
  ipaths_ok [[IFresh; IFactors; INormalize true]; [IUser; IFresh; INormalize true]] = true /\
  (match iexec Z 1%Z (fun w r => (2 * w r)%Z) false [IFresh; INormalize false] [] None with Some w => w 0 | None => 0%Z end = 2%Z) /\
  (match iexec Z 1%Z (fun w r => (2 * w r)%Z) false [IUser] [fun _ => 5%Z] None with Some w => w 0 | None => 0%Z end = 5%Z).
Proof. exact ipaths_sharp. Qed.

(* ================================================================== round 8: the loop of tensor_ring_als at the level of shapes *)
(* Model/StructureTrAls.v transcribes one ALS update as coded: the sub-chain tr_decomp[(dim+1) % n] ... tr_decomp[(dim+n-1) % n] contracted with
   tensordot(axes=1), the transposition tr_idx, reshape(-1, rank[dim] * rank[dim+1]), the least-squares solve against the unfolding and the reshape of
   the solution into the new core; every step fails where NumPy would raise (bond sizes, divisibility of the reshape, row counts).  For EVERY order
   >= 2, rank specification accepted by validate_tr_rank with positive ranks, iteration cap and stopping path (callback stop, convergence from
   iteration 1, cap; the decisions are universally quantified): no step fails and the returned cores are (rank_k, I_k, rank_k+1) with the validated,
   CLOSED rank list - the closing (first rank = last rank) is what the proof of the sub-chain contraction uses, and on an open chain the update fails
   (Example).  The shapes are the ones of the older one-line model tensor_ring_als (C08_tensor_ring_als_structure), now derived from the loop. *)
From TLV Require Import Base.PyList Model.StructureTrAls Proofs.StructureTrAlsProofs.
Local Open Scope nat_scope.
Theorem C08_tensor_ring_als_loop_structure : forall shape spec tol_pos n_iter_max decisions rank,
  2 <= length shape -> validate_tr_rank shape spec RRound = Ok rank -> Forall (fun r => 0 < r) rank ->
  tr_als_run shape spec tol_pos n_iter_max decisions = Ok (trals_cores shape rank) /\
  tensor_ring_als shape spec = Ok (trals_cores shape rank) /\
  hd 0 rank = last rank 0 /\
  forall k, k < length shape -> nth k (trals_cores shape rank) [] = [nth k rank 0; nth k shape 0; nth (S k) rank 0].
Proof. exact tr_als_run_structure. Qed.
Print Assumptions C08_tensor_ring_als_loop_structure.
(* the least-squares systems of one sweep: core d is the solution of a (product of the other mode sizes) x (rank_d * rank_d+1) system with I_d
   right-hand sides, for every d (the harness compares these with the logged lstsq calls of the first sweep of a run) *)
Theorem C08_tensor_ring_als_sweep_systems : forall shape spec rank,
  2 <= length shape -> validate_tr_rank shape spec RRound = Ok rank -> Forall (fun r => 0 < r) rank ->
  tr_als_sweep_log shape rank (seq 0 (length shape)) (trals_cores shape rank) =
  Ok (map (fun d => ([prod (remove_nth d shape); nth d rank 0 * nth (S d) rank 0], [prod (remove_nth d shape); nth d shape 0])) (seq 0 (length shape))).
Proof. exact tr_als_sweep_systems. Qed.
Print Assumptions C08_tensor_ring_als_sweep_systems.
Example C08_tensor_ring_als_loop_ex :
  tr_als_run [2; 3; 4] (RList [2; 3; 5; 2]) true 3 [(false, false); (false, true)] = Ok [[2; 2; 3]; [3; 3; 5]; [5; 4; 2]] /\
  tr_als_update [2; 3; 4] [2; 3; 5; 3] (trals_cores [2; 3; 4] [2; 3; 5; 3]) 0 = Err /\
  tr_als_sweep_log [2; 3] [2; 3; 2] [0; 1] (trals_cores [2; 3] [2; 3; 2]) = Ok [([3; 6], [3; 2]); ([2; 6], [2; 3])].
Proof. vm_compute. repeat split; reflexivity. Qed.

(* ================================================================== round 8: the loop of coupled_matrix_tensor_3d_factorization at the level of shapes *)
(* Model/StructureCmtf.v transcribes one sweep as coded: V from lstsq(A, matrix), then for ii = 2, 1, 0 the Khatri-Rao product of the other factors,
   for ii = 0 stacked on V and the unfolding extended by the matrix, and the least-squares solve; every step fails where NumPy would raise.  For every
   third-order shape, matrix width, rank specification accepted by validate_cp_rank, iteration cap >= 1 and stopping path: no step fails, the factor
   shapes I_k x r are invariant and the result is the structure of the one-line model cmtf (C08_cmtf_structure), now derived from the loop; the matrix
   part's first factor is the tensor part's (same I_0 x r).  With n_iter_max = 0 the code never binds V: the call raises (model: Err; reported, the
   harness does not generate this case for the loop comparison) *)
From TLV Require Import Model.StructureCmtf Proofs.StructureCmtfProofs.
Local Open Scope nat_scope.
Theorem C08_cmtf_loop_structure : forall I0 I1 I2 m spec n_iter_max decisions r,
  validate_cp_rank [I0; I1; I2] spec RRound = Ok r -> 1 <= n_iter_max ->
  cmtf_run [I0; I1; I2] m spec n_iter_max decisions = Ok (cp_shapes [I0; I1; I2] r ++ cp_shapes [I0; m] r) /\
  cmtf [I0; I1; I2] m spec = Ok (cp_shapes [I0; I1; I2] r ++ cp_shapes [I0; m] r).
Proof. exact cmtf_run_structure. Qed.
Print Assumptions C08_cmtf_loop_structure.
(* the four least-squares systems of a sweep: V from an I_0 x r system with m right-hand sides; factor 2 / 1 from (I_0 I_1) / (I_0 I_2) x r systems; the
   coupled factor 0 from an (I_1 I_2 + m) x r system with I_0 right-hand sides (tensor unfolding and matrix side by side) *)
Theorem C08_cmtf_sweep_systems : forall I0 I1 I2 m r, cmtf_sweep [I0; I1; I2] [I0; m] [[I0; r]; [I1; r]; [I2; r]] =
  Ok ([([I0; r], [I0; m]); ([I0 * (I1 * 1); r], [I0 * (I1 * 1); I2]); ([I0 * (I2 * 1); r], [I0 * (I2 * 1); I1]);
       ([I1 * (I2 * 1) + m; r], [I1 * (I2 * 1) + m; I0])], [m; r], [[I0; r]; [I1; r]; [I2; r]]).
Proof. exact cmtf_sweep_ok. Qed.
Print Assumptions C08_cmtf_sweep_systems.
Example C08_cmtf_loop_ex : cmtf_run [3; 4; 5] 6 (RInt 2) 2 [false; true] = Ok [[2]; [3; 2]; [4; 2]; [5; 2]; [2]; [3; 2]; [6; 2]] /\
  cmtf_sweep [3; 4; 5] [2; 6] [[3; 2]; [4; 2]; [5; 2]] = Err.
Proof. exact cmtf_run_ex. Qed.
