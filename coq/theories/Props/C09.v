(* C09 -- property theorems only.  Statements are about the model of the SVD-based decompositions
   (Model/SvdDecomp.v); the SVD oracle `svd` is universally quantified, what is assumed about its
   answers is the explicit per-run contract (step_ok / loop_ok / tt_ok ...). *)
From Coq Require Import List Arith ZArith Ring Lia Reals.
From TLV Require Import Base.Shape Base.PyList Base.Tensor Base.Ops Model.SvdDecomp Proofs.SvdDecompProofs.
Import ListNotations.

(* exactness of one TT-SVD step, over every commutative ring: truncating + sign-flipping a
   factorisation U diag(S) Vh = M whose discarded singular values are zero still multiplies back to M *)
Theorem C09_svd_step_exact : forall (F : Type) (Op : fops F),
  ring_theory (f0 Op) (f1 Op) (fadd Op) (fmul Op) (fsub Op) (fopp Op) (@eq F) ->
  forall (M : tensor F) (m n r : nat) (a : svdans),
  step_ok Op M m n r a -> fact_exact Op M m n r (svd_interface Op a r).
Proof. exact @svd_interface_exact. Qed.
Print Assumptions C09_svd_step_exact.

(* exactness of the sequential-SVD loop shared by tensor_train and tensor_ring, all orders,
   all rank requests, by induction over the modes *)
Theorem C09_chain_loop_exact : forall (F : Type) (Op : fops F),
  ring_theory (f0 Op) (f1 Op) (fadd Op) (fmul Op) (fsub Op) (fopp Op) (@eq F) ->
  forall (svd : nat -> tensor F -> svdans) (sizes : list nat) (k : nat) (ranks : list nat) (rk r0 : nat)
         (W : list F) (cores : list (tensor F)),
  loop_ok Op svd k sizes ranks rk r0 W ->
  chain_loop Op svd k sizes ranks rk r0 W = Ok cores ->
  forall a idx c, a < rk -> inb sizes idx -> c < r0 ->
    chain Op cores a idx c = nth ((a * prod sizes + ravel sizes idx) * r0 + c) W (f0 Op).
Proof. exact @chain_loop_exact. Qed.
Print Assumptions C09_chain_loop_exact.

(* tensor_train reproduces every entry of the input when every truncation of the run kept all
   non-zero singular values *)
Theorem C09_tensor_train_exact : forall (F : Type) (Op : fops F),
  ring_theory (f0 Op) (f1 Op) (fadd Op) (fmul Op) (fsub Op) (fopp Op) (@eq F) ->
  forall (svd : nat -> tensor F -> svdans) (X : tensor F) (rank : rank_spec) (cores : list (tensor F)),
  tt_ok Op svd X rank -> tensor_train Op svd X rank = Ok cores ->
  forall idx, inb (shape X) idx -> tt_entry Op cores idx = get (f0 Op) X idx.
Proof. exact @tensor_train_exact. Qed.
Print Assumptions C09_tensor_train_exact.

(* non-vacuity (ring version): a rank-1 2x2 matrix, request (1,1,1): the run truncates 2 -> 1 singular
   triplets, the contract holds and the model returns the exact factors *)
Example C09_nonvacuous_tt :
  let X := mk [2; 2] [2; 0; 0; 0]%Z in
  let svd := fun (_ : nat) (_ : tensor Z) => (mk [2; 2] [1; 0; 0; 1]%Z, [2; 0]%Z, mk [2; 2] [1; 0; 0; 1]%Z) in
  ring_theory (f0 Zops) (f1 Zops) (fadd Zops) (fmul Zops) (fsub Zops) (fopp Zops) (@eq Z) /\
  tt_ok Zops svd X (inr [1; 1; 1]) /\
  tensor_train Zops svd X (inr [1; 1; 1]) = Ok [mk [1; 2; 1] [1; 0]%Z; mk [1; 2; 1] [2; 0]%Z].
Proof.
  cbv zeta. split; [exact InitialRing.Zth|]. split; [|vm_compute; reflexivity].
  unfold tt_ok. cbn [validate_tt_rank ndim shape length Nat.add Nat.eqb hd last andb tl].
  unfold loop_ok. cbn [loop_pred]. cbv zeta. split; [|vm_compute; exact I].
  exists 2. repeat split; try (vm_compute; lia).
  - intros i c Hi Hc. destruct i as [|[|i]]; destruct c as [|[|c]]; try lia; vm_compute; reflexivity.
  - intros l H1 H2. assert (l = 1) by (vm_compute in H1; lia). subst. reflexivity.
  - vm_compute. repeat constructor.
Qed.
