(* C09 -- property theorems only.  Statements are about the model of the SVD-based decompositions
   (Model/SvdDecomp.v); the SVD oracle `svd` is universally quantified, what is assumed about its
   answers is the explicit per-run contract (step_ok / loop_ok / tt_ok ...). *)
From Coq Require Import List Arith ZArith Ring Lia Reals.
From TLV Require Import Base.Shape Base.PyList Base.Tensor Base.Ops Model.Base Model.SvdDecomp Model.SvdDecompRingReq Proofs.SvdDecompProofs
     Proofs.SvdDecompProofsR Proofs.SvdDecompTucker Proofs.SvdDecompTuckerFull Proofs.SvdDecompTuckerR
     Proofs.SvdDecompRing Proofs.SvdDecompRingR Proofs.SvdDecompPyth Proofs.SvdDecompError
     Proofs.SvdDecompTails Proofs.SvdDecompErrorR Proofs.SvdDecompTTM
     Proofs.SvdDecompHooi Proofs.SvdDecompHooiR Proofs.SvdDecompRanks
     Proofs.SvdDecompTuckerErr Proofs.SvdDecompTuckerBound Proofs.SvdDecompHosvdBound
     Proofs.SvdDecompPartial Proofs.SvdDecompTuckerGen Proofs.SvdDecompRingErr Proofs.SvdDecompTTMErr
     Proofs.SvdDecompValidate Proofs.SvdDecompRingPartial Proofs.SvdDecompRingErrR
     Proofs.SvdDecompRankCond Model.SvdDecompSymeig Proofs.SvdDecompSymeig Proofs.SvdDecompSymeigRing Proofs.SvdDecompSymeigEig Model.SvdDecompRand Proofs.SvdDecompRand Proofs.SvdDecompEckartYoung Proofs.SvdDecompTTUpper Proofs.SvdDecompMethodsTucker Proofs.SvdDecompTTRank Proofs.SvdDecompTTMRank Proofs.SvdDecompTuckerRank Proofs.SvdDecompHooiBound Proofs.SvdDecompRingRank Proofs.SvdDecompTuckerSemi Proofs.SvdDecompTuckerSemiEx Proofs.SvdDecompSymeigWide Proofs.SvdDecompRingUpper Proofs.SvdDecompRingCuts Proofs.SvdDecompRingRanks Proofs.SvdDecompRingEx Proofs.SvdDecompTTMBounds Proofs.SvdDecompRingRequested Proofs.SvdDecompErrorGen Proofs.SvdDecompErrorMethods Proofs.SvdDecompRingErrGen.
Import ListNotations.

(* exactness of one TT-SVD step, over every commutative ring: truncating + sign-flipping a
   factorisation U diag(S) Vh = M whose discarded singular values are zero still multiplies back to M *)
Theorem C09_svd_step_exact : forall (F : Type) (Op : fops F),
  ring_theory (f0 Op) (f1 Op) (fadd Op) (fmul Op) (fsub Op) (fopp Op) (@eq F) ->
  forall (M : tensor F) (m n r : nat) (a : svdans),
  step_ok Op M m n r a -> fact_exact Op M m n r (svd_interface Op a r).
Proof. exact @svd_interface_exact. Qed.
Print Assumptions C09_svd_step_exact.

(* exactness of the sequential-SVD loop shared by tensor_train and tensor_ring, all orders,
   all rank requests, by induction over the modes *)
Theorem C09_chain_loop_exact : forall (F : Type) (Op : fops F),
  ring_theory (f0 Op) (f1 Op) (fadd Op) (fmul Op) (fsub Op) (fopp Op) (@eq F) ->
  forall (svd : nat -> tensor F -> svdans) (sizes : list nat) (k : nat) (ranks : list nat) (rk r0 : nat)
         (W : list F) (cores : list (tensor F)),
  loop_ok Op svd k sizes ranks rk r0 W ->
  chain_loop Op svd k sizes ranks rk r0 W = Ok cores ->
  forall a idx c, a < rk -> inb sizes idx -> c < r0 ->
    chain Op cores a idx c = nth ((a * prod sizes + ravel sizes idx) * r0 + c) W (f0 Op).
Proof. exact @chain_loop_exact. Qed.
Print Assumptions C09_chain_loop_exact.

(* tensor_train reproduces every entry of the input when every truncation of the run kept all
   non-zero singular values *)
Theorem C09_tensor_train_exact : forall (F : Type) (Op : fops F),
  ring_theory (f0 Op) (f1 Op) (fadd Op) (fmul Op) (fsub Op) (fopp Op) (@eq F) ->
  forall (svd : nat -> tensor F -> svdans) (X : tensor F) (rank : rank_spec) (cores : list (tensor F)),
  tt_ok Op svd X rank -> tensor_train Op svd X rank = Ok cores ->
  forall idx, inb (shape X) idx -> tt_entry Op cores idx = get (f0 Op) X idx.
Proof. exact @tensor_train_exact. Qed.
Print Assumptions C09_tensor_train_exact.

(* non-vacuity (ring version): a rank-1 2x2 matrix, request (1,1,1): the run truncates 2 -> 1 singular
   triplets, the contract holds and the model returns the exact factors *)
Example C09_nonvacuous_tt :
  let X := mk [2; 2] [2; 0; 0; 0]%Z in
  let svd := fun (_ : nat) (_ : tensor Z) => (mk [2; 2] [1; 0; 0; 1]%Z, [2; 0]%Z, mk [2; 2] [1; 0; 0; 1]%Z) in
  ring_theory (f0 Zops) (f1 Zops) (fadd Zops) (fmul Zops) (fsub Zops) (fopp Zops) (@eq Z) /\
  tt_ok Zops svd X (inr [1; 1; 1]) /\
  tensor_train Zops svd X (inr [1; 1; 1]) = Ok [mk [1; 2; 1] [1; 0]%Z; mk [1; 2; 1] [2; 0]%Z].
Proof.
  cbv zeta. split; [exact InitialRing.Zth|]. split; [|vm_compute; reflexivity].
  unfold tt_ok. cbn [validate_tt_rank ndim shape length Nat.add Nat.eqb hd last andb tl].
  unfold loop_ok. cbn [loop_pred]. cbv zeta. split; [|vm_compute; exact I].
  exists 2.
  change (Nat.min (1 * 2) (Nat.min (prod [2] * 1) (hd 1 [1; 1]))) with 1.
  change (prod [2] * 1) with 2. change (1 * 2) with 2.
  split; [lia|]. split; [reflexivity|]. split; [reflexivity|]. split.
  { intros i c Hi Hc.
    assert (Ei : i = 0 \/ i = 1) by lia. assert (Ec : c = 0 \/ c = 1) by lia.
    destruct Ei as [-> | ->]; destruct Ec as [-> | ->]; vm_compute; reflexivity. }
  split.
  { intros l H1 H2. assert (l = 1) by lia. subst. reflexivity. }
  split; [simpl; lia|].
  vm_compute. repeat constructor.
Qed.

(* over the reals the plain SVD contract (orthonormal columns of U, U diag(S) Vh = M, discarded singular
   values zero) implies the ring-level contract: the sign multipliers of svd_flip square to one *)
Theorem C09_svd_contract_step_ok : forall (M : tensor R) (m n r : nat) (a : svdans),
  svd_contract M m n r a -> step_ok Rops M m n r a.
Proof. exact svd_contract_step_ok. Qed.
Print Assumptions C09_svd_contract_step_ok.

(* tensor_train over R, any oracle whose answers in this run meet the plain SVD contract and whose
   truncations discard only zero singular values: every entry of the input is reproduced *)
Theorem C09_tensor_train_exact_R : forall (svd : nat -> tensor R -> svdans) (X : tensor R) (rank : rank_spec)
    (cores : list (tensor R)),
  tt_contract svd X rank -> tensor_train Rops svd X rank = Ok cores ->
  forall idx, inb (shape X) idx -> tt_entry Rops cores idx = get 0%R X idx.
Proof. exact tensor_train_exact_R. Qed.
Print Assumptions C09_tensor_train_exact_R.

(* Tucker / HOSVD, one mode, every commutative ring, every order: if U has orthonormal columns and the
   mode-k fibres of X are combinations of them, then (X x_k U^T) x_k U = X *)
Theorem C09_mode_projector_exact : forall (F : Type) (Op : fops F),
  ring_theory (f0 Op) (f1 Op) (fadd Op) (fmul Op) (fsub Op) (fopp Op) (@eq F) ->
  forall (X U : tensor F) (k r : nat) (c : nat -> list nat -> F),
  wf X -> k < ndim X -> shape U = [nth k (shape X) 0; r] ->
  orthonormal_cols Op U (nth k (shape X) 0) r -> mode_span Op X U k r c ->
  exists Y, mode_dot Op X U k true = Ok Y /\ shape Y = set_nth k r (shape X) /\
            (forall idx l, inb (shape X) idx -> l < r -> g Op Y (set_nth k l idx) = c l (remove_nth k idx)) /\
            mode_dot Op Y U k false = Ok X.
Proof. exact @mode_projector_exact. Qed.
Print Assumptions C09_mode_projector_exact.

(* tensor_ring: the rotated rank request (source after fix e10d22b) lists bond (mode + j) mod n at position j *)
Theorem C09_tr_rotate_rank_correct : forall n mode rk, length rk = n + 1 -> mode < n ->
  tr_rotate_rank n mode rk = tr_rotate_rank_spec n mode rk.
Proof. exact tr_rotate_rank_correct. Qed.
Print Assumptions C09_tr_rotate_rank_correct.

(* the rule before fix e10d22b (rank[mode:] + rank[:mode]) is NOT that rotation for start mode >= 2 *)
Theorem C09_tr_old_rotation_refuted :
  exists n mode rk, length rk = n + 1 /\ mode < n /\ nth 0 rk 0 = nth n rk 0 /\
    firstn n (tr_rotate_rank_old mode rk) <> firstn n (tr_rotate_rank_spec n mode rk).
Proof. exact tr_old_rotation_refuted. Qed.
Print Assumptions C09_tr_old_rotation_refuted.

(* Tucker, all modes at once, every commutative ring, every order: if every factor has orthonormal columns
   spanning the corresponding mode fibres of X, the core projection followed by the reconstruction
   (both as computed by multi_mode_dot) returns X; induction over the factor list + commutation of
   n-mode products along different modes *)
Theorem C09_tucker_roundtrip : forall (F : Type) (Op : fops F),
  ring_theory (f0 Op) (f1 Op) (fadd Op) (fmul Op) (fsub Op) (fopp Op) (@eq F) ->
  forall (fs : list (tensor F)) (k : nat) (X : tensor F),
  wf X -> k + length fs <= ndim X -> factors_span Op X fs k ->
  exists core, multi_mode_dot Op X fs k None true = Ok core /\ multi_mode_dot Op core fs k None false = Ok X.
Proof. exact @tucker_roundtrip. Qed.
Print Assumptions C09_tucker_roundtrip.

(* the model of tucker(init="svd", tol=0), any number of HOOI sweeps, any oracle: if the returned factors
   fit X then tucker_to_tensor of the returned (core, factors) is X *)
Theorem C09_tucker_exact_of_factors : forall (F : Type) (Op : fops F),
  ring_theory (f0 Op) (f1 Op) (fadd Op) (fmul Op) (fsub Op) (fopp Op) (@eq F) ->
  forall (svd : nat -> tensor F -> svdans) (X : tensor F) (rank : rank_spec) (n_iter : nat)
         (core : tensor F) (fs : list (tensor F)),
  wf X -> tucker Op svd X rank n_iter = Ok (core, fs) -> length fs <= ndim X -> factors_span Op X fs 0 ->
  tucker_to_tensor Op core fs = Ok X.
Proof. exact @tucker_exact_of_factors. Qed.
Print Assumptions C09_tucker_exact_of_factors.

(* HOSVD (tucker with n_iter_max = 0) over R, every order: if every SVD call of initialize_tucker meets the
   plain SVD contract and discards only zero singular values, the decomposition reconstructs X exactly *)
Theorem C09_hosvd_exact_R : forall (svd : nat -> tensor R -> svdans) (X : tensor R) (rank : rank_spec)
    (core : tensor R) (fs : list (tensor R)),
  wf X -> 0 < prod (shape X) ->
  hosvd_contract svd X (validate_tucker_rank (ndim X) rank) 0 0 ->
  tucker Rops svd X rank 0 = Ok (core, fs) ->
  tucker_to_tensor Rops core fs = Ok X.
Proof. exact hosvd_exact_R. Qed.
Print Assumptions C09_hosvd_exact_R.

(* non-vacuity: a rank-(1,1) 2x2 matrix with its leading singular vectors *)
Example C09_nonvacuous_tucker :
  let X := mk [2; 2] [3; 0; 0; 0]%Z in
  let U := mk [2; 1] [1; 0]%Z in
  wf X /\ factors_span Zops X [U; U] 0 /\
  multi_mode_dot Zops X [U; U] 0 None true = Ok (mk [1; 1] [3%Z]) /\
  tucker_to_tensor Zops (mk [1; 1] [3%Z]) [U; U] = Ok X.
Proof.
  cbv zeta. split; [reflexivity|]. split; [|split; vm_compute; reflexivity].
  cbn [factors_span]. split; [|split; [|exact I]].
  - exists 1, (fun _ ridx => if Nat.eqb (nth 0 ridx 0) 0 then 3%Z else 0%Z). split; [reflexivity|]. split.
    + apply orthonormal_semi. intros j l Hj Hl. assert (j = 0) by lia. assert (l = 0) by lia. subst. vm_compute. reflexivity.
    + intros idx Hidx. destruct idx as [|i [|j [|? ?]]]; simpl in Hidx; try tauto.
      destruct Hidx as (Hi & Hj & _).
      assert (Ei : i = 0 \/ i = 1) by lia. assert (Ej : j = 0 \/ j = 1) by lia.
      destruct Ei as [-> | ->]; destruct Ej as [-> | ->]; vm_compute; reflexivity.
  - exists 1, (fun _ ridx => if Nat.eqb (nth 0 ridx 0) 0 then 3%Z else 0%Z). split; [reflexivity|]. split.
    + apply orthonormal_semi. intros j l Hj Hl. assert (j = 0) by lia. assert (l = 0) by lia. subst. vm_compute. reflexivity.
    + intros idx Hidx. destruct idx as [|i [|j [|? ?]]]; simpl in Hidx; try tauto.
      destruct Hidx as (Hi & Hj & _).
      assert (Ei : i = 0 \/ i = 1) by lia. assert (Ej : j = 0 \/ j = 1) by lia.
      destruct Ei as [-> | ->]; destruct Ej as [-> | ->]; vm_compute; reflexivity.
Qed.

(* tensor ring: cyclicity of the trace of a chain of cores whose bonds match (every commutative ring) *)
Theorem C09_tr_entry_rotate : forall (F : Type) (Op : fops F),
  ring_theory (f0 Op) (f1 Op) (fadd Op) (fmul Op) (fsub Op) (fopp Op) (@eq F) ->
  forall (A B : list (tensor F)) (l m : nat) (iA iB : list nat),
  A <> [] -> B <> [] -> bonds l A m -> bonds m B l -> length iA = length A -> length iB = length B ->
  tr_entry Op (B ++ A) (iB ++ iA) = tr_entry Op (A ++ B) (iA ++ iB).
Proof. exact @tr_entry_rotate. Qed.
Print Assumptions C09_tr_entry_rotate.

(* tensor_ring, every order, every start mode, every rank request, every commutative ring: when no SVD call
   of the run discards a non-zero singular value (tr_ok: the first call with its rank[0]*rank[1] triplets and
   every call of the sequential loop), the ring contraction of the returned cores is the input, entry by entry *)
Theorem C09_tensor_ring_exact : forall (F : Type) (Op : fops F),
  ring_theory (f0 Op) (f1 Op) (fadd Op) (fmul Op) (fsub Op) (fopp Op) (@eq F) ->
  forall (svd : nat -> tensor F -> svdans) (X : tensor F) (rank : rank_spec) (mode : nat) (cores : list (tensor F)),
  tr_ok Op svd X rank mode -> tensor_ring Op svd X rank mode = Ok cores ->
  forall idx, inb (shape X) idx -> tr_entry Op cores idx = get (f0 Op) X idx.
Proof. exact @tensor_ring_exact. Qed.
Print Assumptions C09_tensor_ring_exact.

(* the same over R under the plain SVD contract *)
Theorem C09_tensor_ring_exact_R : forall (svd : nat -> tensor R -> svdans) (X : tensor R) (rank : rank_spec)
    (mode : nat) (cores : list (tensor R)),
  tr_contract svd X rank mode -> tensor_ring Rops svd X rank mode = Ok cores ->
  forall idx, inb (shape X) idx -> tr_entry Rops cores idx = get 0%R X idx.
Proof. exact tensor_ring_exact_R. Qed.
Print Assumptions C09_tensor_ring_exact_R.

(* non-vacuity: start mode 1 on a rank-1 2x2 matrix, request (1,1,1) *)
Example C09_nonvacuous_tr :
  let X := mk [2; 2] [2; 0; 0; 0]%Z in
  let svd := fun (_ : nat) (_ : tensor Z) => (mk [2; 2] [1; 0; 0; 1]%Z, [2; 0]%Z, mk [2; 2] [1; 0; 0; 1]%Z) in
  tr_ok Zops svd X (inr [1; 1; 1]) 1 /\
  tensor_ring Zops svd X (inr [1; 1; 1]) 1 = Ok [mk [1; 2; 1] [2; 0]%Z; mk [1; 2; 1] [1; 0]%Z].
Proof.
  cbv zeta. split; [|vm_compute; reflexivity].
  unfold tr_ok. cbv zeta. cbn [validate_tr_rank ndim shape length Nat.add Nat.eqb hd last andb].
  unfold tr_core_ok. cbv zeta. split; [|vm_compute; exact I].
  exists 2.
  change (hd 0 (shape (transpose (f0 Zops) (rotate 1 (seq 0 2)) (mk [2; 2] [2; 0; 0; 0]%Z)))) with 2.
  change (prod (tl (shape (transpose (f0 Zops) (rotate 1 (seq 0 2)) (mk [2; 2] [2; 0; 0; 0]%Z))))) with 2.
  change (nth 0 (tr_rotate_rank 2 1 [1; 1; 1]) 0 * nth 1 (tr_rotate_rank 2 1 [1; 1; 1]) 0) with 1.
  split; [lia|]. split; [reflexivity|]. split; [reflexivity|]. split.
  { intros i c Hi Hc.
    assert (Ei : i = 0 \/ i = 1) by lia. assert (Ec : c = 0 \/ c = 1) by lia.
    destruct Ei as [-> | ->]; destruct Ec as [-> | ->]; vm_compute; reflexivity. }
  split.
  { intros l H1 H2. assert (l = 1) by lia. subst. reflexivity. }
  split; [simpl; lia|].
  vm_compute. repeat constructor.
Qed.

(* the splitting of a truncation error (every commutative ring): for U with orthonormal columns,
   |M - U T|^2 = |M - U U^T M|^2 + |U^T M - T|^2  (sums of squares over all entries) *)
Theorem C09_truncation_error_split : forall (F : Type) (Op : fops F),
  ring_theory (f0 Op) (f1 Op) (fadd Op) (fmul Op) (fsub Op) (fopp Op) (@eq F) ->
  forall (m n r : nat) (U M T : nat -> nat -> F),
  orthonormal_fun Op U m r ->
  let Wp := fun b col => fsumn Op m (fun i => fmul Op (U i b) (M i col)) in
  fsumn Op m (fun i => fsumn Op n (fun col =>
     sq Op (fsub Op (M i col) (fsumn Op r (fun b => fmul Op (U i b) (T b col)))))) =
  fadd Op
    (fsumn Op m (fun i => fsumn Op n (fun col =>
       sq Op (fsub Op (M i col) (fsumn Op r (fun b => fmul Op (U i b) (Wp b col)))))))
    (fsumn Op r (fun b => fsumn Op n (fun col => sq Op (fsub Op (Wp b col) (T b col))))).
Proof. exact @pythagoras_mat. Qed.
Print Assumptions C09_truncation_error_split.

(* the TT-SVD error identity, every order, every rank request, every commutative ring, NO assumption on the
   discarded singular values: if every SVD answer of the run has orthonormal left singular vectors and
   multiplies back to its query (loop_orth), the squared error of the sequential-SVD loop equals the sum
   over the steps of the squared norms of what each truncation discards from its working unfolding *)
Theorem C09_chain_loop_error_identity : forall (F : Type) (Op : fops F),
  ring_theory (f0 Op) (f1 Op) (fadd Op) (fmul Op) (fsub Op) (fopp Op) (@eq F) ->
  forall (svd : nat -> tensor F -> svdans) (sizes : list nat) (k : nat) (ranks : list nat) (rk r0 : nat)
         (W : list F) (cores : list (tensor F)),
  loop_orth Op svd k sizes ranks rk r0 W ->
  chain_loop Op svd k sizes ranks rk r0 W = Ok cores ->
  err2 Op sizes rk r0 W cores = loop_discard Op svd k sizes ranks rk r0 W.
Proof. exact @chain_loop_error_identity. Qed.
Print Assumptions C09_chain_loop_error_identity.

Theorem C09_tensor_train_error_identity : forall (F : Type) (Op : fops F),
  ring_theory (f0 Op) (f1 Op) (fadd Op) (fmul Op) (fsub Op) (fopp Op) (@eq F) ->
  forall (svd : nat -> tensor F -> svdans) (X : tensor F) (rank : rank_spec) (cores : list (tensor F)),
  tt_orth Op svd X rank -> tensor_train Op svd X rank = Ok cores ->
  tt_err2 Op X cores = tt_discard Op svd X rank.
Proof. exact @tensor_train_error_identity. Qed.
Print Assumptions C09_tensor_train_error_identity.

(* non-vacuity with a genuine truncation: diag(2,1), request (1,1,1): error^2 = 1 = discarded sigma^2 *)
Example C09_nonvacuous_error_identity :
  let X := mk [2; 2] [2; 0; 0; 1]%Z in
  let svd := fun (_ : nat) (_ : tensor Z) => (mk [2; 2] [1; 0; 0; 1]%Z, [2; 1]%Z, mk [2; 2] [1; 0; 0; 1]%Z) in
  tt_orth Zops svd X (inr [1; 1; 1]) /\
  tensor_train Zops svd X (inr [1; 1; 1]) = Ok [mk [1; 2; 1] [1; 0]%Z; mk [1; 2; 1] [2; 0]%Z] /\
  tt_err2 Zops X [mk [1; 2; 1] [1; 0]%Z; mk [1; 2; 1] [2; 0]%Z] = 1%Z /\
  tt_discard Zops svd X (inr [1; 1; 1]) = 1%Z.
Proof.
  cbv zeta. split; [|repeat split; vm_compute; reflexivity].
  unfold tt_orth. cbn [validate_tt_rank ndim shape length Nat.add Nat.eqb hd last andb tl].
  unfold loop_orth. cbn [loop_pred]. cbv zeta. split; [|vm_compute; exact I].
  exists 2.
  change (Nat.min (1 * 2) (Nat.min (prod [2] * 1) (hd 1 [1; 1]))) with 1.
  change (prod [2] * 1) with 2. change (1 * 2) with 2.
  split; [lia|]. split; [reflexivity|]. split; [reflexivity|]. split.
  { intros j l Hj Hl.
    assert (Ej : j = 0 \/ j = 1) by lia. assert (El : l = 0 \/ l = 1) by lia.
    destruct Ej as [-> | ->]; destruct El as [-> | ->]; vm_compute; reflexivity. }
  split.
  { intros i c Hi Hc.
    assert (Ei : i = 0 \/ i = 1) by lia. assert (Ec : c = 0 \/ c = 1) by lia.
    destruct Ei as [-> | ->]; destruct Ec as [-> | ->]; vm_compute; reflexivity. }
  split; [simpl; lia|].
  vm_compute. repeat constructor.
Qed.

(* under the full SVD contract (orthonormal columns of U, orthonormal rows of Vh, U diag(S) Vh = query) the
   squared norm of what a truncation at r discards is the sum of the squared discarded singular values *)
Theorem C09_discarded_part_is_tail : forall (F : Type) (Op : fops F),
  ring_theory (f0 Op) (f1 Op) (fadd Op) (fmul Op) (fsub Op) (fopp Op) (@eq F) ->
  forall (M : tensor F) (m n r : nat) (U : tensor F) (Sv : list F) (V : tensor F),
  step_full Op M m n r (U, Sv, V) ->
  let '(U', S', V') := svd_interface Op (U, Sv, V) r in
  disc Op M U' S' V' m n r = tail2 Op r Sv.
Proof. exact @disc_tail. Qed.
Print Assumptions C09_discarded_part_is_tail.

(* tensor_train over R, every order and rank request, under the full SVD contract for every call of the run:
   squared error = sum over the steps of the discarded squared singular values of the working unfoldings *)
Theorem C09_tt_error_sigma_R : forall (svd : nat -> tensor R -> svdans) (X : tensor R) (rank : rank_spec)
    (cores : list (tensor R)),
  tt_full_R svd X rank -> tensor_train Rops svd X rank = Ok cores ->
  tt_err2 Rops X cores = Rsum (tt_tail_list svd X rank).
Proof. exact tt_error_sigma_R. Qed.
Print Assumptions C09_tt_error_sigma_R.

(* lower bound (full): the squared error is at least every single discarded tail of a working unfolding; the
   first working unfolding is the first sequential unfolding of X itself *)
Theorem C09_tt_error_lower_R : forall (svd : nat -> tensor R -> svdans) (X : tensor R) (rank : rank_spec)
    (cores : list (tensor R)),
  tt_full_R svd X rank -> tensor_train Rops svd X rank = Ok cores ->
  forall t, In t (tt_tail_list svd X rank) -> (t <= tt_err2 Rops X cores)%R.
Proof. exact tt_error_lower_R. Qed.
Print Assumptions C09_tt_error_lower_R.

(* upper bound (PARTIAL): given per-step bounds bs on the discarded tails of the working unfoldings, the squared
   error is at most their sum.  With bs = the discarded tails of the sequential unfoldings of X this is the
   root-sum-square bound of the property; that premise (tail of the k-th working unfolding <= tail of the k-th
   unfolding of X: Eckart-Young / interlacing for a projected matrix) is NOT proved here, it is the named
   hypothesis Forall2 Rle (tt_tail_list ...) bs *)
Theorem C09_tt_error_upper_partial : forall (svd : nat -> tensor R -> svdans) (X : tensor R) (rank : rank_spec)
    (cores : list (tensor R)) (bs : list R),
  tt_full_R svd X rank -> tensor_train Rops svd X rank = Ok cores ->
  Forall2 Rle (tt_tail_list svd X rank) bs ->
  (tt_err2 Rops X cores <= Rsum bs)%R.
Proof. exact tt_error_upper_partial_R. Qed.
Print Assumptions C09_tt_error_upper_partial.

(* tensor_train_matrix, every number of (input, output) mode pairs, every commutative ring: when no SVD call
   of the underlying TT-SVD (on the interleaved, pair-merged tensor) discards a non-zero singular value, the
   TT-matrix contraction of the returned 4-D cores is X[i_1..i_d, j_1..j_d] *)
Theorem C09_tensor_train_matrix_exact : forall (F : Type) (Op : fops F),
  ring_theory (f0 Op) (f1 Op) (fadd Op) (fmul Op) (fsub Op) (fopp Op) (@eq F) ->
  forall (svd : nat -> tensor F -> svdans) (X : tensor F) (rank : rank_spec) (cores : list (tensor F)),
  ttm_ok Op svd X rank -> tensor_train_matrix Op svd X rank = Ok cores ->
  forall is_ js, inb (firstn (ndim X / 2) (shape X)) is_ -> inb (skipn (ndim X / 2) (shape X)) js ->
  ttm_entry Op cores is_ js = get (f0 Op) X (is_ ++ js).
Proof. exact @tensor_train_matrix_exact. Qed.
Print Assumptions C09_tensor_train_matrix_exact.

Example C09_nonvacuous_ttm :
  let X := mk [2; 2; 1; 1] [2; 0; 0; 0]%Z in
  let svd := fun (_ : nat) (_ : tensor Z) => (mk [2; 2] [1; 0; 0; 1]%Z, [2; 0]%Z, mk [2; 2] [1; 0; 0; 1]%Z) in
  ttm_ok Zops svd X (inr [1; 1; 1]) /\
  tensor_train_matrix Zops svd X (inr [1; 1; 1]) = Ok [mk [1; 2; 1; 1] [1; 0]%Z; mk [1; 2; 1; 1] [2; 0]%Z].
Proof.
  cbv zeta. split; [|vm_compute; reflexivity].
  unfold ttm_ok. cbv zeta.
  change (Nat.eqb (ndim (mk [2; 2; 1; 1] [2; 0; 0; 0]%Z) / 2) 1) with false. cbv iota.
  match goal with |- tt_ok _ _ ?T _ => let T' := eval vm_compute in T in change T with T' end.
  unfold tt_ok. cbn [validate_tt_rank ndim shape length Nat.add Nat.eqb hd last andb tl].
  unfold loop_ok. cbn [loop_pred]. cbv zeta. split; [|vm_compute; exact I].
  exists 2.
  change (Nat.min (1 * 2) (Nat.min (prod [2] * 1) (hd 1 [1; 1]))) with 1.
  change (prod [2] * 1) with 2. change (1 * 2) with 2.
  split; [lia|]. split; [reflexivity|]. split; [reflexivity|]. split.
  { intros i c Hi Hc.
    assert (Ei : i = 0 \/ i = 1) by lia. assert (Ec : c = 0 \/ c = 1) by lia.
    destruct Ei as [-> | ->]; destruct Ec as [-> | ->]; vm_compute; reflexivity. }
  split.
  { intros l H1 H2. assert (l = 1) by lia. subst. reflexivity. }
  split; [simpl; lia|].
  vm_compute. repeat constructor.
Qed.

(* the invariant of one HOOI update (every commutative ring, every order): if all the other current factors fit
   X (orthonormal columns spanning the mode fibres) and the new factor fits the core approximation
   Y = X x_{j <> m} U_j^T, then it fits X *)
Theorem C09_hooi_update_fits : forall (F : Type) (Op : fops F),
  ring_theory (f0 Op) (f1 Op) (fadd Op) (fmul Op) (fsub Op) (fopp Op) (@eq F) ->
  forall (X : tensor F) (fs : list (tensor F)) (m : nat) (Y U' : tensor F),
  wf X -> m < ndim X -> length fs <= ndim X ->
  factors_span_sk Op (Some m) X fs 0 -> multi_mode_dot Op X fs 0 (Some m) true = Ok Y ->
  fitp Op Y U' m -> fitp Op X U' m.
Proof. exact @hooi_update_fits. Qed.
Print Assumptions C09_hooi_update_fits.

(* tucker(init="svd", tol=0) over R, every order, every rank request with rank <= number of singular triplets,
   ANY number of HOOI sweeps: if every SVD call of the initialisation and of the sweeps meets the plain SVD
   contract and discards only zero singular values, tucker_to_tensor of the result is X *)
Theorem C09_tucker_exact_R : forall (svd : nat -> tensor R -> svdans) (X : tensor R) (rank : rank_spec) (n_iter : nat)
    (core : tensor R) (fs : list (tensor R)),
  wf X -> 0 < prod (shape X) ->
  hosvd_contract svd X (validate_tucker_rank (ndim X) rank) 0 0 ->
  match hosvd_factors Rops svd X (validate_tucker_rank (ndim X) rank) 0 0 with
  | Ok fs0 => hooi_iter_contract svd X (validate_tucker_rank (ndim X) rank) n_iter (ndim X) fs0
  | Err => True
  end ->
  tucker Rops svd X rank n_iter = Ok (core, fs) ->
  tucker_to_tensor Rops core fs = Ok X.
Proof. exact tucker_exact_R. Qed.
Print Assumptions C09_tucker_exact_R.

(* the returned ranks respect the request (any carrier, any oracle, no contract needed): the right bond of every
   core computed by the sequential loop of tensor_train / tensor_ring is at most the requested rank *)
Theorem C09_chain_loop_ranks_respected : forall (F : Type) (Op : fops F) (svd : nat -> tensor F -> svdans)
    (sizes : list nat) (k : nat) (ranks : list nat) (rk r0 : nat) (W : list F) (cores : list (tensor F)),
  chain_loop Op svd k sizes ranks rk r0 W = Ok cores -> ranks_respected cores ranks.
Proof. exact @chain_loop_ranks_respected. Qed.
Print Assumptions C09_chain_loop_ranks_respected.

Theorem C09_tensor_train_ranks_respected : forall (F : Type) (Op : fops F) (svd : nat -> tensor F -> svdans)
    (X : tensor F) (rank : rank_spec) (cores : list (tensor F)),
  tensor_train Op svd X rank = Ok cores ->
  match validate_tt_rank (ndim X) rank with Ok rk => ranks_respected cores (tl rk) | Err => False end.
Proof. exact @tensor_train_ranks_respected. Qed.
Print Assumptions C09_tensor_train_ranks_respected.

(* Tucker error identity (every commutative ring, every order): whatever tucker() returns, if the returned factors
   have orthonormal columns (no spanning assumption: genuinely truncating) the squared reconstruction error is the
   sum over the modes of what the mode-k projector discards from the partially projected tensor *)
Theorem C09_tucker_error_identity : forall (F : Type) (Op : fops F),
  ring_theory (f0 Op) (f1 Op) (fadd Op) (fmul Op) (fsub Op) (fopp Op) (@eq F) ->
  forall (svd : nat -> tensor F -> svdans) (X : tensor F) (rank : rank_spec) (n_iter : nat)
         (core : tensor F) (fs : list (tensor F)),
  tucker Op svd X rank n_iter = Ok (core, fs) -> length fs <= ndim X -> factors_orth Op (shape X) fs 0 ->
  exists Xh, tucker_to_tensor Op core fs = Ok Xh /\ shape Xh = shape X /\
             terr2 Op X Xh = fsumlist Op (tucker_discard_list Op X fs 0).
Proof. exact @tucker_error_identity. Qed.
Print Assumptions C09_tucker_error_identity.

(* Tucker upper bound over R, any number of HOOI sweeps, any returned factors with orthonormal columns: the squared
   error is at most the sum over the modes of what the projector U_k U_k^T discards from X itself
   (error identity + Bessel's inequality for n-mode products + commutation along different modes) *)
Theorem C09_tucker_error_upper_R : forall (svd : nat -> tensor R -> svdans) (X : tensor R) (rank : rank_spec)
    (n_iter : nat) (core : tensor R) (fs : list (tensor R)),
  tucker Rops svd X rank n_iter = Ok (core, fs) -> length fs <= ndim X -> factors_orth Rops (shape X) fs 0 ->
  exists Xh, tucker_to_tensor Rops core fs = Ok Xh /\ shape Xh = shape X /\
             (terr2 Rops X Xh <= Rsum (resid_list X fs 0))%R.
Proof. exact tucker_error_upper_R. Qed.
Print Assumptions C09_tucker_error_upper_R.

(* HOSVD (tucker with n_iter_max = 0) over R, every order, under the full SVD contract for the mode unfoldings:
   squared error <= sum over the modes of the discarded squared singular values of the mode-k unfolding of X (the
   square of the root-sum-square bound of the property), and >= the discarded tail of the mode-0 unfolding *)
Theorem C09_hosvd_error_bounds_R : forall (svd : nat -> tensor R -> svdans) (X : tensor R) (rank : rank_spec)
    (core : tensor R) (fs : list (tensor R)),
  wf X -> 0 < prod (shape X) ->
  hosvd_full_contract svd X (validate_tucker_rank (ndim X) rank) 0 0 ->
  tucker Rops svd X rank 0 = Ok (core, fs) ->
  exists Xh, tucker_to_tensor Rops core fs = Ok Xh /\ shape Xh = shape X /\
             (terr2 Rops X Xh <= Rsum (hosvd_tail_list svd X (validate_tucker_rank (ndim X) rank) 0 0))%R /\
             (forall t, hd_error (hosvd_tail_list svd X (validate_tucker_rank (ndim X) rank) 0 0) = Some t ->
                        (t <= terr2 Rops X Xh)%R).
Proof. exact hosvd_error_bounds_R. Qed.
Print Assumptions C09_hosvd_error_bounds_R.

(* ---------------------------------------------------------------- round 3 *)
(* tensor ring error identity (ring; every order, start mode, rank request; no assumption on discarded singular values) *)
Theorem C09_tensor_ring_error_identity : forall (F : Type) (Op : fops F),
  ring_theory (f0 Op) (f1 Op) (fadd Op) (fmul Op) (fsub Op) (fopp Op) (@eq F) ->
  forall (svd : nat -> tensor F -> svdans) (X : tensor F) (rank : rank_spec) (mode : nat) (cores : list (tensor F)),
  tr_orth Op svd X rank mode -> tensor_ring Op svd X rank mode = Ok cores ->
  tr_err2 Op X cores = tr_discard Op svd X rank mode.
Proof. exact @tensor_ring_error_identity. Qed.
Print Assumptions C09_tensor_ring_error_identity.

(* tensor_train_matrix error identity (ring; any number of mode pairs) *)
Theorem C09_tensor_train_matrix_error_identity : forall (F : Type) (Op : fops F),
  ring_theory (f0 Op) (f1 Op) (fadd Op) (fmul Op) (fsub Op) (fopp Op) (@eq F) ->
  forall (svd : nat -> tensor F -> svdans) (X : tensor F) (rank : rank_spec) (cores : list (tensor F)),
  ttm_orth Op svd X rank -> tensor_train_matrix Op svd X rank = Ok cores ->
  ttm_err2 Op X cores = ttm_discard Op svd X rank.
Proof. exact @tensor_train_matrix_error_identity. Qed.
Print Assumptions C09_tensor_train_matrix_error_identity.

(* Tucker exactness over R with the U-side contract that also covers full_matrices answers (rank requests beyond
   the number of singular triplets / beyond the mode sizes), any number of HOOI sweeps *)
Theorem C09_svd_contract_contract_u : forall (M : tensor R) (m n r : nat) (a : svdans),
  svd_contract M m n r a -> svd_contract_u M m n r a.
Proof. exact svd_contract_contract_u. Qed.
Print Assumptions C09_svd_contract_contract_u.

Theorem C09_full_matrices_contract_u : forall (M : tensor R) (m n r : nat) (U : tensor R) (Sv : list R) (V : tensor R),
  m <= r -> shape U = [m; m] ->
  (forall j l, j < m -> l < m ->
     fsumn Rops m (fun i => (g Rops U [i; j] * g Rops U [i; l])%R) = if Nat.eqb j l then 1%R else 0%R) ->
  (exists w, forall i c, i < m -> c < n -> fsumn Rops m (fun l => (g Rops U [i; l] * w l c)%R) = g Rops M [i; c]) ->
  svd_contract_u M m n r (U, Sv, V).
Proof. exact full_matrices_contract_u. Qed.
Print Assumptions C09_full_matrices_contract_u.

Theorem C09_tucker_exact_gen_R : forall (svd : nat -> tensor R -> svdans) (X : tensor R) (rank : rank_spec) (n_iter : nat)
    (core : tensor R) (fs : list (tensor R)),
  wf X -> 0 < prod (shape X) ->
  hosvd_contract_u svd X (validate_tucker_rank (ndim X) rank) 0 0 ->
  match hosvd_factors Rops svd X (validate_tucker_rank (ndim X) rank) 0 0 with
  | Ok fs0 => hooi_iter_contract_u svd X (validate_tucker_rank (ndim X) rank) n_iter (ndim X) fs0
  | Err => True
  end ->
  tucker Rops svd X rank n_iter = Ok (core, fs) ->
  tucker_to_tensor Rops core fs = Ok X.
Proof. exact tucker_exact_gen_R. Qed.
Print Assumptions C09_tucker_exact_gen_R.

(* PARTIAL (Eckart-Young as the named hypothesis eckart_young_stmt): the squared error of whatever tucker() returns is
   at least the discarded tail of EVERY mode unfolding of X (at the number of columns of the returned factor) *)
Theorem C09_tucker_error_lower_partial : forall (svd : nat -> tensor R -> svdans),
  eckart_young_stmt ->
  forall (X : tensor R) (rank : rank_spec) (n_iter : nat) (core : tensor R) (fs : list (tensor R)) (Xh : tensor R)
         (k : nat) (Xk : tensor R) (r : nat) (a : svdans),
  wf X -> 0 < prod (shape X) -> k < ndim X ->
  tucker Rops svd X rank n_iter = Ok (core, fs) -> tucker_to_tensor Rops core fs = Ok Xh ->
  k < length fs -> shape (nth k fs (mk [] [])) = [nth k (shape X) 0; r] -> shape Xh = shape X ->
  unfold 0%R X k = Ok Xk ->
  svd_sorted_contract Xk (nth k (shape X) 0) (prod (remove_nth k (shape X))) r a ->
  (tail2 Rops r (snd3 a) <= terr2 Rops X Xh)%R.
Proof. exact tucker_error_lower_partial. Qed.
Print Assumptions C09_tucker_error_lower_partial.

(* PARTIAL (Eckart-Young): the squared TT-SVD error is at least the discarded tail of EVERY sequential unfolding of X
   (at the bond dimension actually returned); no contract on the run's own oracle is needed *)
Theorem C09_tt_error_lower_partial : forall (svd : nat -> tensor R -> svdans),
  eckart_young_stmt ->
  forall (X : tensor R) (rank : rank_spec) (cores : list (tensor R)) (k : nat) (aX : svdans),
  tensor_train Rops svd X rank = Ok cores -> 0 < k -> k < ndim X ->
  svd_sorted_contract (x_unfolding X k) (prod (firstn k (shape X))) (prod (skipn k (shape X)))
                    (nth 2 (shape (nth (k - 1) cores (mk [] []))) 0) aX ->
  (tail2 Rops (nth 2 (shape (nth (k - 1) cores (mk [] []))) 0%nat) (snd3 aX) <= tt_err2 Rops X cores)%R.
Proof. exact tt_error_lower_partial. Qed.
Print Assumptions C09_tt_error_lower_partial.

(* PARTIAL (named hypothesis working_tails_le_x_tails: step by step the discarded tail of the working unfolding is at most
   the discarded tail of the sequential unfolding of X, svdX being any SVD of those unfoldings): the literal upper bound
   of the property, squared *)
Theorem C09_tt_error_root_sum_square_partial : forall (svd svdX : nat -> tensor R -> svdans) (X : tensor R)
    (rank : rank_spec) (cores : list (tensor R)),
  tt_full_R svd X rank -> tensor_train Rops svd X rank = Ok cores ->
  working_tails_le_x_tails svd svdX X rank ->
  (tt_err2 Rops X cores <= Rsum (x_tail_list svd svdX X rank))%R.
Proof. exact tt_error_root_sum_square_partial. Qed.
Print Assumptions C09_tt_error_root_sum_square_partial.

(* validate_tt_rank(allow_overparametrization=False), documented to return the rank realisable by TT-SVD.
   FULL: whatever the oracle answers, tensor_train returns exactly the closed-form ranks realised_tt_rank
   (left factor = bond obtained at the previous step) *)
Theorem C09_tensor_train_realised_rank : forall (F : Type) (Op : fops F) (svd : nat -> tensor F -> svdans)
    (X : tensor F) (rank : rank_spec) (cores : list (tensor F)),
  tensor_train Op svd X rank = Ok cores ->
  match validate_tt_rank (ndim X) rank with
  | Ok rk => 1 :: right_bonds cores ++ [1] = realised_tt_rank (shape X) rk
  | Err => False
  end.
Proof. exact @tensor_train_realised_rank. Qed.
Print Assumptions C09_tensor_train_realised_rank.

(* FULL (code after fix 03a63dd, modelled with its accumulator list): validate_tt_rank(shape, rank,
   allow_overparametrization=False) is exactly the rank tensor_train realises, for every shape and every request of
   the right length (the pre-fix rule multiplied the REQUESTED left rank: shape (2,2,7), request (1,3,7,1) gave
   (1,2,6,1) where TT-SVD reaches (1,2,4,1); regression input in corpus/C09) *)
Theorem C09_validate_tt_rank_strict_realised : forall shape rank, length rank = length shape + 1 ->
  validate_tt_rank_strict_code shape rank = realised_tt_rank shape rank.
Proof. exact validate_tt_rank_strict_realised. Qed.
Print Assumptions C09_validate_tt_rank_strict_realised.

Example C09_nonvacuous_strict :
  validate_tt_rank_strict_code [2; 2; 7] [1; 3; 7; 1] = [1; 2; 4; 1] /\ realised_tt_rank [2; 2; 7] [1; 3; 7; 1] = [1; 2; 4; 1].
Proof. split; reflexivity. Qed.

(* tensor ring over R under the full SVD contract for every call: squared error = discarded squared singular values of the
   first unfolding (rank[0]*rank[1] kept) + those of the working unfoldings of the loop, and at least each of them *)
Theorem C09_tensor_ring_error_sigma_R : forall (svd : nat -> tensor R -> svdans) (X : tensor R) (rank : rank_spec)
    (mode : nat) (cores : list (tensor R)),
  tr_full_R svd X rank mode -> tensor_ring Rops svd X rank mode = Ok cores ->
  tr_err2 Rops X cores = Rsum (tr_tail_list svd X rank mode) /\
  (forall t, In t (tr_tail_list svd X rank mode) -> (t <= tr_err2 Rops X cores)%R).
Proof. exact tensor_ring_error_sigma_R. Qed.
Print Assumptions C09_tensor_ring_error_sigma_R.

(* PARTIAL (Eckart-Young, eckart_young_stmt): the returned cores close into a ring with closing bond l, and for every cut
   after b modes the squared error is at least the discarded tail, at l * (bond b) kept triplets, of the unfolding
   (modes 0..b-1 | modes b..n-1) of X; no contract on the run's own oracle *)
Theorem C09_tensor_ring_error_lower_partial : forall (svd : nat -> tensor R -> svdans),
  eckart_young_stmt ->
  forall (X : tensor R) (rank : rank_spec) (mode : nat) (cores : list (tensor R)),
  tensor_ring Rops svd X rank mode = Ok cores ->
  exists l, bonds l cores l /\
    forall b aX, 0 < b -> b < ndim X ->
      svd_sorted_contract (x_unfolding X b) (prod (firstn b (shape X))) (prod (skipn b (shape X)))
                        (l * nth 2 (shape (nth (b - 1) cores (mk [] []))) 0) aX ->
      (tail2 Rops (l * nth 2 (shape (nth (b - 1) cores (mk [] []))) 0%nat) (snd3 aX) <= tr_err2 Rops X cores)%R.
Proof. exact tensor_ring_error_lower_partial. Qed.
Print Assumptions C09_tensor_ring_error_lower_partial.

(* ---------------------------------------------------------------- round 4: the Eckart-Young hypothesis, repaired and shown satisfiable
   eckart_young_stmt now requires the singular values to be non-negative and non-increasing (svd_sorted_contract); without that
   clause it was false (M = diag(1,2), S = [1;2], r = 1) and the three _partial lower bounds above were vacuous.
   Proved instances of the statement (the hypothesis is satisfiable): nothing kept, everything kept, and a genuinely truncating
   diagonal case. *)
Theorem C09_eckart_young_rank0 : forall (M : tensor R) (m n : nat) (a : svdans),
  svd_sorted_contract M m n 0 a -> ey_for M m n 0 a.
Proof. exact eckart_young_rank0. Qed.
Print Assumptions C09_eckart_young_rank0.

Theorem C09_eckart_young_no_discard : forall (M : tensor R) (m n : nat) (a : svdans),
  svd_sorted_contract M m n (length (snd3 a)) a -> ey_for M m n (length (snd3 a)) a.
Proof. exact eckart_young_no_discard. Qed.
Print Assumptions C09_eckart_young_no_discard.

(* M = diag(2, 1), SVD (I, [2; 1], I), one triplet kept: the sorted contract holds and no p q^T is closer to M than 1 *)
Theorem C09_eckart_young_diag_instance : svd_sorted_contract ey_M 2 2 1 ey_a /\ ey_for ey_M 2 2 1 ey_a.
Proof. exact (conj ey_instance_contract ey_instance_holds). Qed.
Print Assumptions C09_eckart_young_diag_instance.

(* local forms (Eckart-Young assumed only for the one unfolding that is cut), for ANY cores with matching bonds *)
Theorem C09_tt_error_lower_local_partial : forall (X : tensor R) (cores : list (tensor R)) (k : nat) (aX : svdans),
  bonds 1 cores 1 -> length cores = ndim X -> 0 < k -> k < ndim X ->
  ey_for (x_unfolding X k) (prod (firstn k (shape X))) (prod (skipn k (shape X)))
         (nth 2 (shape (nth (k - 1) cores (mk [] []))) 0) aX ->
  (tail2 Rops (nth 2 (shape (nth (k - 1) cores (mk [] []))) 0%nat) (snd3 aX) <= tt_err2 Rops X cores)%R.
Proof. exact chain_cores_error_lower_local. Qed.
Print Assumptions C09_tt_error_lower_local_partial.

Theorem C09_tensor_ring_error_lower_local_partial : forall (X : tensor R) (cores : list (tensor R)) (l b : nat) (aX : svdans),
  bonds l cores l -> length cores = ndim X -> 0 < b -> b < ndim X ->
  ey_for (x_unfolding X b) (prod (firstn b (shape X))) (prod (skipn b (shape X)))
         (l * nth 2 (shape (nth (b - 1) cores (mk [] []))) 0) aX ->
  (tail2 Rops (l * nth 2 (shape (nth (b - 1) cores (mk [] []))) 0%nat) (snd3 aX) <= tr_err2 Rops X cores)%R.
Proof. exact ring_error_lower_local. Qed.
Print Assumptions C09_tensor_ring_error_lower_local_partial.

(* ALL hypotheses of the two local lower bounds discharged jointly on X = diag(2, 1) with the cores TT-SVD / TR-SVD return
   for the request (1,1,1): 1 <= error^2 *)
Example C09_nonvacuous_tt_lower :
  let cores := [mk [1; 2; 1] [1; 0]%R; mk [1; 2; 1] [2; 0]%R] in
  bonds 1 cores 1 /\ length cores = ndim ey_M /\
  svd_sorted_contract (x_unfolding ey_M 1) 2 2 1 ey_a /\
  ey_for (x_unfolding ey_M 1) (prod (firstn 1 (shape ey_M))) (prod (skipn 1 (shape ey_M)))
         (nth 2 (shape (nth (1 - 1) cores (mk [] []))) 0) ey_a /\
  (tail2 Rops 1 (snd3 ey_a) <= tt_err2 Rops ey_M cores)%R.
Proof. exact chain_cores_error_lower_nonvacuous. Qed.

Example C09_nonvacuous_ring_lower :
  let cores := [mk [1; 2; 1] [1; 0]%R; mk [1; 2; 1] [2; 0]%R] in
  bonds 1 cores 1 /\ length cores = ndim ey_M /\
  svd_sorted_contract (x_unfolding ey_M 1) 2 2 (1 * 1) ey_a /\
  (tail2 Rops (1 * 1) (snd3 ey_a) <= tr_err2 Rops ey_M cores)%R.
Proof. exact ring_error_lower_nonvacuous. Qed.

(* from the property's RANK CONDITION to the per-run contract (PARTIAL: Eckart-Young as named hypothesis): a matrix that
   factors through inner dimension r has only zero singular values beyond r, hence meets the exactness contract *)
Theorem C09_low_rank_svd_contract_partial : eckart_young_stmt ->
  forall (M : tensor R) (m n r : nat) (a : svdans),
  svd_sorted_contract M m n r a -> factors_through M m n r -> svd_contract M m n r a.
Proof. exact low_rank_svd_contract. Qed.
Print Assumptions C09_low_rank_svd_contract_partial.

(* HOSVD (tucker with n_iter_max = 0; all its SVD calls are on unfoldings of X itself) is exact whenever the requested ranks
   are at least the ranks of the mode unfoldings of X -- the property's own condition -- given Eckart-Young *)
Theorem C09_hosvd_exact_from_rank_condition_partial : eckart_young_stmt ->
  forall (svd : nat -> tensor R -> svdans) (X : tensor R) (rank : rank_spec) (core : tensor R) (fs : list (tensor R)),
  wf X -> 0 < prod (shape X) ->
  hosvd_rank_condition svd X (validate_tucker_rank (ndim X) rank) 0 0 ->
  tucker Rops svd X rank 0 = Ok (core, fs) ->
  tucker_to_tensor Rops core fs = Ok X.
Proof. exact hosvd_exact_from_rank_condition_partial. Qed.
Print Assumptions C09_hosvd_exact_from_rank_condition_partial.

(* ============================================================ svd = "symeig_svd" (Model/SvdDecompSymeig.v) ============ *)
(* the chain induction for the WEAKEST per-call contract: "the truncated, sign-flipped answer multiplies back to the query".
   Every commutative ring, every order, every rank request; covers SVD methods whose discarded singular values are not zero *)
Theorem C09_chain_loop_exact_gen : forall (F : Type) (Op : fops F),
  ring_theory (f0 Op) (f1 Op) (fadd Op) (fmul Op) (fsub Op) (fopp Op) (@eq F) ->
  forall (svd : nat -> tensor F -> svdans) (sizes : list nat) (k : nat) (ranks : list nat) (rk r0 : nat)
         (W : list F) (cores : list (tensor F)),
  loop_pred Op svd (fun M m n r a => fact_exact Op M m n r (svd_interface Op a r)) k sizes ranks rk r0 W ->
  chain_loop Op svd k sizes ranks rk r0 W = Ok cores ->
  forall a idx c, a < rk -> inb sizes idx -> c < r0 ->
    chain Op cores a idx c = nth ((a * prod sizes + ravel sizes idx) * r0 + c) W (f0 Op).
Proof. exact @chain_loop_exact_gen. Qed.
Print Assumptions C09_chain_loop_exact_gen.

Theorem C09_tensor_train_exact_gen : forall (F : Type) (Op : fops F),
  ring_theory (f0 Op) (f1 Op) (fadd Op) (fmul Op) (fsub Op) (fopp Op) (@eq F) ->
  forall (svd : nat -> tensor F -> svdans) (X : tensor F) (rank : rank_spec) (cores : list (tensor F)),
  tt_exact_calls Op svd X rank -> tensor_train Op svd X rank = Ok cores ->
  forall idx, inb (shape X) idx -> tt_entry Op cores idx = get (f0 Op) X idx.
Proof. exact @tensor_train_exact_gen. Qed.
Print Assumptions C09_tensor_train_exact_gen.

(* over R, svd_interface (truncation + u-based sign flip) keeps the truncated product WITHOUT any hypothesis on the columns
   of U: a kept column that is zero gets sign 0, and its term was zero anyway *)
Theorem C09_svd_interface_exact_terms_R : forall (M : tensor R) (m n r : nat) (a : svdans),
  terms_contract M m n r a -> fact_exact Rops M m n r (svd_interface Rops a r).
Proof. exact svd_interface_exact_terms. Qed.
Print Assumptions C09_svd_interface_exact_terms_R.

(* one symeig_svd call, branch dim_1 <= dim_2 (S, V = eigh(M^T M); U = (M V) / S): exact as soon as W W^T = I, the clipped
   square roots are non-zero and the discarded eigenvectors are null vectors of M; nothing is assumed on the KEPT ones *)
Theorem C09_symeig_step_exact_wide_R : forall (M W : tensor R) (s : list R) (m n r : nat),
  shape M = [m; n] -> shape W = [n; n] -> length s = n -> m <= n -> r <= m ->
  (forall l, l < n -> nth l s 0%R <> 0%R) ->
  (forall j c, j < n -> c < n -> fsumn Rops n (fun l => (g Rops W [j; l] * g Rops W [c; l])%R) = delta j c) ->
  (forall l i, l < n - r -> i < m -> fsumn Rops n (fun j => (g Rops M [i; j] * g Rops W [j; l])%R) = 0%R) ->
  fact_exact Rops M m n r (svd_interface Rops (symeig_ans Rops M W s) r).
Proof. exact symeig_step_exact_wide. Qed.
Print Assumptions C09_symeig_step_exact_wide_R.

(* branch dim_1 > dim_2 (S, U = eigh(M M^T); V = M^T (U / S)) *)
Theorem C09_symeig_step_exact_tall_R : forall (M W : tensor R) (s : list R) (m n r : nat),
  shape M = [m; n] -> shape W = [m; m] -> length s = m -> n < m -> r <= n ->
  (forall l, l < m -> nth l s 0%R <> 0%R) ->
  (forall i i', i < m -> i' < m -> fsumn Rops m (fun l => (g Rops W [i; l] * g Rops W [i'; l])%R) = delta i i') ->
  (forall l c, l < m - r -> c < n -> fsumn Rops m (fun i' => (g Rops M [i'; c] * g Rops W [i'; l])%R) = 0%R) ->
  fact_exact Rops M m n r (svd_interface Rops (symeig_ans Rops M W s) r).
Proof. exact symeig_step_exact_tall. Qed.
Print Assumptions C09_symeig_step_exact_tall_R.

(* the clip at eps > 0 is what makes the divisions of symeig_svd harmless *)
Theorem C09_symeig_clip_sqrt_nonzero : forall eps lam : R, (0 < eps)%R -> sqrt (clip_min Rops eps lam) <> 0%R.
Proof. exact clip_sqrt_nonzero. Qed.
Print Assumptions C09_symeig_clip_sqrt_nonzero.

(* both branches under the eigh-level contract symeig_call_ok (s = sqrt(clip(lambda, eps)), W orthogonal, discarded
   eigenvectors in the null space of the query) *)
Theorem C09_symeig_call_exact_R : forall (eps : R) (M : tensor R) (m n r : nat) (a : svdans),
  (0 < eps)%R -> symeig_call_ok eps M m n r a -> fact_exact Rops M m n r (svd_interface Rops a r).
Proof. exact symeig_call_ok_step_exact. Qed.
Print Assumptions C09_symeig_call_exact_R.

(* TT-SVD (hence TT-matrix) with svd="symeig_svd", every order and rank request: exact reconstruction when every call of the
   run meets the eigh-level contract *)
Theorem C09_tensor_train_symeig_exact_R : forall (svd : nat -> tensor R -> svdans) (eps : R), (0 < eps)%R ->
  forall (X : tensor R) (rank : rank_spec) (cores : list (tensor R)),
  tt_symeig_contract svd eps X rank -> tensor_train Rops svd X rank = Ok cores ->
  forall idx, inb (shape X) idx -> tt_entry Rops cores idx = get 0%R X idx.
Proof. exact tensor_train_symeig_exact_R. Qed.
Print Assumptions C09_tensor_train_symeig_exact_R.

(* slicing by the dimensions and then by n_eigenvecs (what the generic model does with the oracle's answer) is the return
   expression of symeig_svd: U[:, :min(dim_1, n)], S[:min(dim_1, dim_2, n)], V[:min(dim_2, n), :] *)
Theorem C09_symeig_truncation_eq : forall (F : Type) (Op : fops F) (M W : tensor F) (s : list F) (ne : nat),
  truncated_svd Op (symeig_ans Op M W s) ne = symeig_svd Op M W s ne.
Proof. exact @symeig_truncation_eq. Qed.
Print Assumptions C09_symeig_truncation_eq.

(* non-vacuity: the rank-1 query [[3,4],[6,8]] with its exact eigenvectors, truncated at the true rank (r = 1: a null vector
   is discarded) and with an OVER-REQUESTED rank (r = 2: the null vector is kept and divided by sqrt(eps)) *)
Example C09_nonvacuous_symeig_contract : forall (eps : R) (r : nat), (0 < eps)%R -> r = 1 \/ r = 2 ->
  symeig_call_ok eps exM 2 2 r (symeig_ans Rops exM exW (map (fun x => sqrt (clip_min Rops eps x)) exLam)).
Proof. exact symeig_contract_satisfiable. Qed.

Example C09_nonvacuous_symeig_over_requested : forall eps : R, (0 < eps)%R ->
  fact_exact Rops exM 2 2 2
    (svd_interface Rops (symeig_ans Rops exM exW (map (fun x => sqrt (clip_min Rops eps x)) exLam)) 2).
Proof. exact symeig_over_requested_exact. Qed.

(* tensor_ring, EVERY start mode, and tensor_train_matrix under the weakest per-call contract (any commutative ring) *)
Theorem C09_tensor_ring_exact_gen : forall (F : Type) (Op : fops F),
  ring_theory (f0 Op) (f1 Op) (fadd Op) (fmul Op) (fsub Op) (fopp Op) (@eq F) ->
  forall (svd : nat -> tensor F -> svdans) (X : tensor F) (rank : rank_spec) (mode : nat) (cores : list (tensor F)),
  tr_pred Op svd (step_exact Op) X rank mode -> tensor_ring Op svd X rank mode = Ok cores ->
  forall idx, inb (shape X) idx -> tr_entry Op cores idx = get (f0 Op) X idx.
Proof. exact @tensor_ring_exact_gen. Qed.
Print Assumptions C09_tensor_ring_exact_gen.

Theorem C09_tensor_train_matrix_exact_gen : forall (F : Type) (Op : fops F),
  ring_theory (f0 Op) (f1 Op) (fadd Op) (fmul Op) (fsub Op) (fopp Op) (@eq F) ->
  forall (svd : nat -> tensor F -> svdans) (X : tensor F) (rank : rank_spec) (cores : list (tensor F)),
  ttm_exact_calls Op svd X rank -> tensor_train_matrix Op svd X rank = Ok cores ->
  forall is_ js, inb (firstn (ndim X / 2) (shape X)) is_ -> inb (skipn (ndim X / 2) (shape X)) js ->
  ttm_entry Op cores is_ js = get (f0 Op) X (is_ ++ js).
Proof. exact @tensor_train_matrix_exact_gen. Qed.
Print Assumptions C09_tensor_train_matrix_exact_gen.

(* svd="symeig_svd": tensor_ring (every start mode) and tensor_train_matrix are exact when every eigh call of the run meets
   the eigh-level contract symeig_call_ok *)
Theorem C09_tensor_ring_symeig_exact_R : forall (svd : nat -> tensor R -> svdans) (eps : R), (0 < eps)%R ->
  forall (X : tensor R) (rank : rank_spec) (mode : nat) (cores : list (tensor R)),
  tr_pred Rops svd (symeig_call_ok eps) X rank mode -> tensor_ring Rops svd X rank mode = Ok cores ->
  forall idx, inb (shape X) idx -> tr_entry Rops cores idx = get 0%R X idx.
Proof. exact tensor_ring_symeig_exact_R. Qed.
Print Assumptions C09_tensor_ring_symeig_exact_R.

Theorem C09_tensor_train_matrix_symeig_exact_R : forall (svd : nat -> tensor R -> svdans) (eps : R), (0 < eps)%R ->
  forall (X : tensor R) (rank : rank_spec) (cores : list (tensor R)),
  ttm_symeig_contract svd eps X rank -> tensor_train_matrix Rops svd X rank = Ok cores ->
  forall is_ js, inb (firstn (ndim X / 2) (shape X)) is_ -> inb (skipn (ndim X / 2) (shape X)) js ->
  ttm_entry Rops cores is_ js = get 0%R X (is_ ++ js).
Proof. exact tensor_train_matrix_symeig_exact_R. Qed.
Print Assumptions C09_tensor_train_matrix_symeig_exact_R.

(* an eigenvector of the Gram matrix A^T A for the eigenvalue 0 is a null vector of A (|A w|^2 = w^T A^T A w) *)
Theorem C09_symeig_zero_eigenvalue_null : forall (A : nat -> nat -> R) (p q : nat) (w : nat -> R),
  (forall j, j < q -> fsumn Rops q (fun j' => (fsumn Rops p (fun i => A i j * A i j') * w j')%R) = 0%R) ->
  forall i, i < p -> fsumn Rops q (fun j => (A i j * w j)%R) = 0%R.
Proof. exact gram_null. Qed.
Print Assumptions C09_symeig_zero_eigenvalue_null.

(* one symeig_svd call under the LITERAL contract of eigh for the Gram matrix the model itself builds (W orthogonal,
   G W = W diag(lambda)), s = sqrt(clip(lambda, eps)), eps > 0, and "the discarded eigenvalues are zero" *)
Theorem C09_symeig_eigh_contract_exact_R : forall (eps : R) (M : tensor R) (m n r : nat) (a : svdans),
  (0 < eps)%R -> symeig_call_eig_ok eps M m n r a -> fact_exact Rops M m n r (svd_interface Rops a r).
Proof. exact symeig_call_eig_exact. Qed.
Print Assumptions C09_symeig_eigh_contract_exact_R.

Theorem C09_tensor_train_symeig_eigh_exact_R : forall (svd : nat -> tensor R -> svdans) (eps : R), (0 < eps)%R ->
  forall (X : tensor R) (rank : rank_spec) (cores : list (tensor R)),
  tt_symeig_eig_contract svd eps X rank -> tensor_train Rops svd X rank = Ok cores ->
  forall idx, inb (shape X) idx -> tt_entry Rops cores idx = get 0%R X idx.
Proof. exact tensor_train_symeig_eig_exact_R. Qed.
Print Assumptions C09_tensor_train_symeig_eigh_exact_R.

Example C09_nonvacuous_symeig_eigh_contract : forall (eps : R) (r : nat), (0 < eps)%R -> r = 1 \/ r = 2 ->
  symeig_call_eig_ok eps exM 2 2 r (symeig_ans Rops exM exW (map (fun x => sqrt (clip_min Rops eps x)) exLam)).
Proof. exact symeig_eig_contract_satisfiable. Qed.

(* ============================================================ svd = "randomized_svd" (Model/SvdDecompRand.v) ============ *)
(* one randomized_svd call (both branches of the code): exact when the range finder captured the range (Q Q^T M = M, resp.
   M Q Q^T = M) and the inner truncated SVD multiplies back to the reduced matrix; nothing else is assumed about the Gaussian
   test matrix, the QR oracle or Q *)
Theorem C09_randomized_call_exact_R : forall (M : tensor R) (m n r : nat) (a : svdans),
  rand_call_ok M m n r a -> fact_exact Rops M m n r (svd_interface Rops a r).
Proof. exact rand_call_ok_step_exact. Qed.
Print Assumptions C09_randomized_call_exact_R.

Theorem C09_tensor_train_randomized_exact_R : forall (svd : nat -> tensor R -> svdans)
  (X : tensor R) (rank : rank_spec) (cores : list (tensor R)),
  tt_rand_contract svd X rank -> tensor_train Rops svd X rank = Ok cores ->
  forall idx, inb (shape X) idx -> tt_entry Rops cores idx = get 0%R X idx.
Proof. exact tensor_train_randomized_exact_R. Qed.
Print Assumptions C09_tensor_train_randomized_exact_R.

Theorem C09_tensor_ring_randomized_exact_R : forall (svd : nat -> tensor R -> svdans)
  (X : tensor R) (rank : rank_spec) (mode : nat) (cores : list (tensor R)),
  tr_pred Rops svd rand_call_ok X rank mode -> tensor_ring Rops svd X rank mode = Ok cores ->
  forall idx, inb (shape X) idx -> tr_entry Rops cores idx = get 0%R X idx.
Proof. exact tensor_ring_randomized_exact_R. Qed.
Print Assumptions C09_tensor_ring_randomized_exact_R.

Example C09_nonvacuous_randomized_contract :
  rand_call_ok rxM 2 2 1 (randomized_svd Rops (fun _ _ => rxI) (fun _ => (rxI, [2; 0]%R, rxI)) rxM rxI 1 5 0).
Proof. exact rand_contract_satisfiable. Qed.

(* ============================================================ Eckart-Young is a theorem: the `_partial` lower bounds become FULL ===== *)
(* Eckart-Young-Mirsky in the Frobenius norm, in the form the C09 bounds use: for every SVD answer meeting the full contract with
   non-negative non-increasing singular values, no product P Q with inner dimension r is closer to M than the discarded tail.
   Adapter (Proofs/SvdDecompEckartYoung.v) from the function-level proof eckart_young_fn of Proofs/SvdEckartYoung.v (C05) *)
Theorem C09_eckart_young : forall (M : tensor R) (m n r : nat) (a : svdans),
  svd_sorted_contract M m n r a ->
  forall (P Q : nat -> nat -> R),
    (tail2 Rops r (snd3 a) <=
     fsumn Rops m (fun i => fsumn Rops n (fun c => sq Rops (g Rops M [i; c] - fsumn Rops r (fun b => P i b * Q b c)))))%R.
Proof. exact eckart_young_holds. Qed.
Print Assumptions C09_eckart_young.

(* FULL: whatever tucker() returns (any number of sweeps, any oracle for the run itself), the squared error is at least the
   discarded tail of EVERY mode unfolding of X at the number of columns of the returned factor *)
Theorem C09_tucker_error_lower : forall (svd : nat -> tensor R -> svdans)
         (X : tensor R) (rank : rank_spec) (n_iter : nat) (core : tensor R) (fs : list (tensor R)) (Xh : tensor R)
         (k : nat) (Xk : tensor R) (r : nat) (a : svdans),
  wf X -> 0 < prod (shape X) -> k < ndim X ->
  tucker Rops svd X rank n_iter = Ok (core, fs) -> tucker_to_tensor Rops core fs = Ok Xh ->
  k < length fs -> shape (nth k fs (mk [] [])) = [nth k (shape X) 0; r] -> shape Xh = shape X ->
  unfold 0%R X k = Ok Xk ->
  svd_sorted_contract Xk (nth k (shape X) 0) (prod (remove_nth k (shape X))) r a ->
  (tail2 Rops r (snd3 a) <= terr2 Rops X Xh)%R.
Proof. exact (fun svd => tucker_error_lower_partial svd eckart_young_holds). Qed.
Print Assumptions C09_tucker_error_lower.

(* FULL: the squared TT-SVD error is at least the discarded tail of EVERY sequential unfolding of X at the bond dimension returned *)
Theorem C09_tt_error_lower : forall (svd : nat -> tensor R -> svdans)
  (X : tensor R) (rank : rank_spec) (cores : list (tensor R)) (k : nat) (aX : svdans),
  tensor_train Rops svd X rank = Ok cores -> 0 < k -> k < ndim X ->
  svd_sorted_contract (x_unfolding X k) (prod (firstn k (shape X))) (prod (skipn k (shape X)))
                    (nth 2 (shape (nth (k - 1) cores (mk [] []))) 0) aX ->
  (tail2 Rops (nth 2 (shape (nth (k - 1) cores (mk [] []))) 0%nat) (snd3 aX) <= tt_err2 Rops X cores)%R.
Proof. exact (fun svd => tt_error_lower_partial svd eckart_young_holds). Qed.
Print Assumptions C09_tt_error_lower.

(* FULL: tensor_ring, every start mode: for every cut after b modes the squared error is at least the discarded tail, at
   l * (bond b) kept triplets, of the unfolding (modes 0..b-1 | modes b..n-1) of X *)
Theorem C09_tensor_ring_error_lower : forall (svd : nat -> tensor R -> svdans)
  (X : tensor R) (rank : rank_spec) (mode : nat) (cores : list (tensor R)),
  tensor_ring Rops svd X rank mode = Ok cores ->
  exists l, bonds l cores l /\
    forall b aX, 0 < b -> b < ndim X ->
      svd_sorted_contract (x_unfolding X b) (prod (firstn b (shape X))) (prod (skipn b (shape X)))
                        (l * nth 2 (shape (nth (b - 1) cores (mk [] []))) 0) aX ->
      (tail2 Rops (l * nth 2 (shape (nth (b - 1) cores (mk [] []))) 0%nat) (snd3 aX) <= tr_err2 Rops X cores)%R.
Proof. exact (fun svd => tensor_ring_error_lower_partial svd eckart_young_holds). Qed.
Print Assumptions C09_tensor_ring_error_lower.

(* FULL: from the property's RANK CONDITION to the per-run contract: a matrix that factors through inner dimension r has only
   zero singular values beyond r *)
Theorem C09_low_rank_svd_contract : forall (M : tensor R) (m n r : nat) (a : svdans),
  svd_sorted_contract M m n r a -> factors_through M m n r -> svd_contract M m n r a.
Proof. exact (low_rank_svd_contract eckart_young_holds). Qed.
Print Assumptions C09_low_rank_svd_contract.

(* FULL: HOSVD (tucker with n_iter_max = 0) is exact whenever the requested ranks are at least the ranks of the mode unfoldings
   of X -- the property's own condition *)
Theorem C09_hosvd_exact_from_rank_condition :
  forall (svd : nat -> tensor R -> svdans) (X : tensor R) (rank : rank_spec) (core : tensor R) (fs : list (tensor R)),
  wf X -> 0 < prod (shape X) ->
  hosvd_rank_condition svd X (validate_tucker_rank (ndim X) rank) 0 0 ->
  tucker Rops svd X rank 0 = Ok (core, fs) ->
  tucker_to_tensor Rops core fs = Ok X.
Proof. exact (hosvd_exact_from_rank_condition_partial eckart_young_holds). Qed.
Print Assumptions C09_hosvd_exact_from_rank_condition.

(* FULL local forms: ANY cores with matching bonds (not only those the algorithms return) *)
Theorem C09_tt_error_lower_local : forall (X : tensor R) (cores : list (tensor R)) (k : nat) (aX : svdans),
  bonds 1 cores 1 -> length cores = ndim X -> 0 < k -> k < ndim X ->
  svd_sorted_contract (x_unfolding X k) (prod (firstn k (shape X))) (prod (skipn k (shape X)))
         (nth 2 (shape (nth (k - 1) cores (mk [] []))) 0) aX ->
  (tail2 Rops (nth 2 (shape (nth (k - 1) cores (mk [] []))) 0%nat) (snd3 aX) <= tt_err2 Rops X cores)%R.
Proof. exact (fun X cores k aX Hb Hl H0 Hk Hc => chain_cores_error_lower_local X cores k aX Hb Hl H0 Hk (eckart_young_holds _ _ _ _ _ Hc)). Qed.
Print Assumptions C09_tt_error_lower_local.

Theorem C09_tensor_ring_error_lower_local : forall (X : tensor R) (cores : list (tensor R)) (l b : nat) (aX : svdans),
  bonds l cores l -> length cores = ndim X -> 0 < b -> b < ndim X ->
  svd_sorted_contract (x_unfolding X b) (prod (firstn b (shape X))) (prod (skipn b (shape X)))
         (l * nth 2 (shape (nth (b - 1) cores (mk [] []))) 0) aX ->
  (tail2 Rops (l * nth 2 (shape (nth (b - 1) cores (mk [] []))) 0%nat) (snd3 aX) <= tr_err2 Rops X cores)%R.
Proof. exact (fun X cores l b aX Hb Hl H0 Hk Hc => ring_error_lower_local X cores l b aX Hb Hl H0 Hk (eckart_young_holds _ _ _ _ _ Hc)). Qed.
Print Assumptions C09_tensor_ring_error_lower_local.

(* ============================================================ TT-SVD: the root-sum-square upper bound, FULL ================ *)
(* the former named hypothesis working_tails_le_x_tails is a theorem: step by step, the discarded tail of the working unfolding
   is at most the discarded tail of the corresponding sequential unfolding of X.  Premises: LAPACK's contract for the answers
   of the run (tt_sorted: orthonormal U / Vh, U diag(S) Vh = query, S non-negative non-increasing) and the full contract for the
   answers svdX gives for the unfoldings of X (x_contract_from).  Proof: invariant "working array = P^T X for a frame P with
   orthonormal columns" by induction over the loop, Eckart-Young (C09_eckart_young) + Bessel. *)
Theorem C09_working_tails_le_x_tails : forall (svd svdX : nat -> tensor R -> svdans) (X : tensor R) (rank : rank_spec),
  0 < prod (shape X) -> tt_sorted svd X rank ->
  x_contract_from svdX X 1 (tt_rank_list svd X rank) ->
  working_tails_le_x_tails svd svdX X rank.
Proof. exact working_tails_le_x_tails_holds. Qed.
Print Assumptions C09_working_tails_le_x_tails.

(* FULL: the literal upper bound of the property, squared: the TT-SVD error^2 is at most the sum over the sequential unfoldings
   of X of their discarded squared singular values (at the bonds the run realises); every order, every rank request *)
Theorem C09_tt_error_root_sum_square : forall (svd svdX : nat -> tensor R -> svdans) (X : tensor R) (rank : rank_spec)
  (cores : list (tensor R)),
  0 < prod (shape X) -> tt_sorted svd X rank ->
  x_contract_from svdX X 1 (tt_rank_list svd X rank) ->
  tensor_train Rops svd X rank = Ok cores ->
  (tt_err2 Rops X cores <= Rsum (x_tail_list svd svdX X rank))%R.
Proof. exact tt_error_root_sum_square. Qed.
Print Assumptions C09_tt_error_root_sum_square.

(* FULL: the first sentence of the property end to end for TT-SVD: if every sequential unfolding of X factors through the bond
   the run realises (rank of the unfolding <= bond), tensor_train reproduces X -- only LAPACK's plain contract is assumed for the
   answers of the run, nothing about what the truncations discard *)
Theorem C09_tensor_train_exact_from_rank_condition : forall (svd : nat -> tensor R -> svdans) (X : tensor R) (rank : rank_spec)
  (cores : list (tensor R)),
  0 < prod (shape X) -> tt_sorted svd X rank ->
  x_factors_from X 1 (tt_rank_list svd X rank) ->
  tensor_train Rops svd X rank = Ok cores ->
  forall idx, inb (shape X) idx -> tt_entry Rops cores idx = get 0%R X idx.
Proof. exact tensor_train_exact_from_rank_condition. Qed.
Print Assumptions C09_tensor_train_exact_from_rank_condition.

Example C09_nonvacuous_tt_upper :
  let svd := fun (_ : nat) (_ : tensor R) => ey_a in
  0 < prod (shape ey_M) /\ tt_sorted svd ey_M (inr [1; 1; 1]) /\
  x_contract_from svd ey_M 1 (tt_rank_list svd ey_M (inr [1; 1; 1])).
Proof. exact tt_upper_hypotheses_satisfiable. Qed.

Example C09_nonvacuous_tt_rank_condition :
  let svd := fun (_ : nat) (_ : tensor R) => rk1_a in
  0 < prod (shape rk1_M) /\ tt_sorted svd rk1_M (inr [1; 1; 1]) /\
  x_factors_from rk1_M 1 (tt_rank_list svd rk1_M (inr [1; 1; 1])).
Proof. exact tt_rank_condition_satisfiable. Qed.

(* ============================================================ tucker with svd = "randomized_svd" / "symeig_svd" ============ *)
(* one randomized_svd call (both branches) meets the U-side contract of C09_tucker_exact_gen_R: U = Q U_inner (resp. U_inner) has
   orthonormal columns spanning the columns of the query, given Q^T Q = I, range captured, inner SVD with orthonormal U reproducing
   the reduced matrix, discarded weights zero *)
Theorem C09_randomized_call_contract_u : forall (M : tensor R) (m n r : nat) (a : svdans),
  rand_call_u_ok M m n r a -> svd_contract_u M m n r a.
Proof. exact rand_call_u_ok_contract_u. Qed.
Print Assumptions C09_randomized_call_contract_u.

(* one symeig_svd call in the branch dim_1 > dim_2: U is eigh's orthogonal W (flipped); discarded eigenvectors null vectors of M^T *)
Theorem C09_symeig_tall_contract_u : forall (M : tensor R) (m n r : nat) (a : svdans),
  symeig_tall_u_ok M m n r a -> svd_contract_u M m n r a.
Proof. exact symeig_tall_u_ok_contract_u. Qed.
Print Assumptions C09_symeig_tall_contract_u.

(* tucker(init="svd", tol=0) whose initialisation calls are randomized_svd, symeig_svd on a tall unfolding, or plain SVD answers,
   followed by any number of HOOI sweeps (truncated_svd in the code), any rank request: exact reconstruction *)
Theorem C09_tucker_methods_exact_R : forall (svd : nat -> tensor R -> svdans) (X : tensor R) (rank : rank_spec) (n_iter : nat)
  (core : tensor R) (fs : list (tensor R)),
  wf X -> 0 < prod (shape X) ->
  hosvd_call_pred svd method_u_ok X (validate_tucker_rank (ndim X) rank) 0 0 ->
  match hosvd_factors Rops svd X (validate_tucker_rank (ndim X) rank) 0 0 with
  | Ok fs0 => hooi_iter_contract_u svd X (validate_tucker_rank (ndim X) rank) n_iter (ndim X) fs0
  | Err => True
  end ->
  tucker Rops svd X rank n_iter = Ok (core, fs) ->
  tucker_to_tensor Rops core fs = Ok X.
Proof. exact tucker_methods_exact_R. Qed.
Print Assumptions C09_tucker_methods_exact_R.

Example C09_nonvacuous_randomized_contract_u :
  rand_call_u_ok rxM 2 2 1 (randomized_svd Rops (fun _ _ => rxI) (fun _ => (rxI, [2; 0]%R, rxI)) rxM rxI 1 5 0).
Proof. exact rand_u_contract_satisfiable. Qed.

Example C09_nonvacuous_symeig_tall_contract_u : symeig_tall_u_ok tallM 2 1 1 (symeig_ans Rops tallM exW [1; 1]%R).
Proof. exact symeig_tall_u_satisfiable. Qed.

(* FULL, the property's first sentence for TT-SVD in its literal form: if for every bond k the k-th sequential unfolding of X has
   rank at most the REQUESTED rank of that bond (factors through it), then tensor_train reproduces X; only LAPACK's plain contract
   with sorted singular values is assumed for the answers of the run.  (The realised bonds min(previous bond * size, remaining
   size, request) are still large enough: X_(k+1) factors through rank(X_(k)) * n_k.) *)
Theorem C09_tensor_train_exact_requested_ranks : forall (svd : nat -> tensor R -> svdans) (X : tensor R) (rank : rank_spec)
  (cores : list (tensor R)),
  0 < prod (shape X) -> tt_sorted svd X rank ->
  (forall rk, validate_tt_rank (ndim X) rank = Ok rk -> requested_rank_condition X rk) ->
  tensor_train Rops svd X rank = Ok cores ->
  forall idx, inb (shape X) idx -> tt_entry Rops cores idx = get 0%R X idx.
Proof. exact tensor_train_exact_requested_ranks. Qed.
Print Assumptions C09_tensor_train_exact_requested_ranks.

Example C09_nonvacuous_requested_rank_condition : requested_rank_condition rk1_M [1; 1; 1].
Proof. exact requested_rank_condition_satisfiable. Qed.

(* FULL: the same for tensor_train_matrix, the rank condition being that of the interleaved, pair-merged tensor ttm_tensor X the
   function hands to TT-SVD (its k-th sequential unfolding is the (in_1 out_1 .. in_k out_k | rest) unfolding of the matrix);
   the derived per-run contract is C09_tt_contract_requested *)
Theorem C09_tt_contract_requested : forall (svd : nat -> tensor R -> svdans) (X : tensor R) (rank : rank_spec),
  0 < prod (shape X) -> tt_sorted svd X rank ->
  (forall rk, validate_tt_rank (ndim X) rank = Ok rk -> requested_rank_condition X rk) ->
  tt_contract svd X rank.
Proof. exact tt_contract_requested. Qed.
Print Assumptions C09_tt_contract_requested.

Theorem C09_tensor_train_matrix_exact_requested_ranks : forall (svd : nat -> tensor R -> svdans) (X : tensor R) (rank : rank_spec)
  (cores : list (tensor R)),
  0 < prod (shape (ttm_tensor X)) -> tt_sorted svd (ttm_tensor X) rank ->
  (forall rk, validate_tt_rank (ndim (ttm_tensor X)) rank = Ok rk -> requested_rank_condition (ttm_tensor X) rk) ->
  tensor_train_matrix Rops svd X rank = Ok cores ->
  forall is_ js, inb (firstn (ndim X / 2) (shape X)) is_ -> inb (skipn (ndim X / 2) (shape X)) js ->
  ttm_entry Rops cores is_ js = get 0%R X (is_ ++ js).
Proof. exact tensor_train_matrix_exact_requested_ranks. Qed.
Print Assumptions C09_tensor_train_matrix_exact_requested_ranks.

(* ============================================================ Tucker with HOOI sweeps from the rank condition, FULL ========== *)
(* the mode-m unfolding of a tensor factors through r  <=>  its mode-m fibres are combinations of r columns; n-mode products
   along the OTHER modes (the working tensor of a HOOI update) preserve that *)
Theorem C09_span_factors : forall (Y Ym A : tensor R) (m r : nat) (c : nat -> list nat -> R),
  wf Y -> m < ndim Y -> 0 < prod (shape Y) -> unfold 0%R Y m = Ok Ym ->
  mode_span Rops Y A m r c ->
  factors_through Ym (nth m (shape Y) 0) (prod (remove_nth m (shape Y))) r.
Proof. exact span_factors. Qed.
Print Assumptions C09_span_factors.

(* FULL, the property's first sentence end to end for Tucker: tucker(init="svd", tol=0) with ANY number of HOOI sweeps reproduces
   X whenever every mode unfolding of X has rank at most the requested rank of that mode (hosvd_rank_condition: LAPACK's sorted
   contract for the initialisation answers + the factorisations), LAPACK's sorted contract for the answers of the sweeps
   (hooi_iter_sorted; working tensors non-empty).  Nothing is assumed about what any truncation discards. *)
Theorem C09_tucker_exact_from_rank_condition : forall (svd : nat -> tensor R -> svdans) (X : tensor R) (rank : rank_spec)
  (n_iter : nat) (core : tensor R) (fs : list (tensor R)),
  wf X -> 0 < prod (shape X) ->
  hosvd_rank_condition svd X (validate_tucker_rank (ndim X) rank) 0 0 ->
  match hosvd_factors Rops svd X (validate_tucker_rank (ndim X) rank) 0 0 with
  | Ok fs0 => hooi_iter_sorted svd X (validate_tucker_rank (ndim X) rank) n_iter (ndim X) fs0
  | Err => True
  end ->
  tucker Rops svd X rank n_iter = Ok (core, fs) ->
  tucker_to_tensor Rops core fs = Ok X.
Proof. exact tucker_exact_from_rank_condition. Qed.
Print Assumptions C09_tucker_exact_from_rank_condition.

Example C09_nonvacuous_tucker_rank_condition :
  let svd := fun (_ : nat) (_ : tensor R) => rk1_a in
  wf rk1_M /\ 0 < prod (shape rk1_M) /\
  hosvd_rank_condition svd rk1_M (validate_tucker_rank (ndim rk1_M) (inr [1; 1])) 0 0.
Proof. exact tucker_rank_condition_satisfiable. Qed.

(* ============================================================ Tucker with HOOI sweeps: the root-sum-square bound, FULL ======= *)
(* for factors with orthonormal columns of the requested column counts, one HOOI update of mode m (U_m := leading left singular
   vectors of the working unfolding, LAPACK's sorted contract for that one answer) does not increase the squared error
   (error = |X|^2 - |core|^2; Eckart-Young) *)
Theorem C09_hooi_update_error : forall (X Y Ym : tensor R) (ranks : list nat) (fs : list (tensor R)) (m : nat) (a : svdans),
  wf X -> factors_ranked (shape X) ranks fs 0 -> length fs = ndim X -> m < ndim X ->
  multi_mode_dot Rops X fs 0 (Some m) true = Ok Y -> unfold 0%R Y m = Ok Ym -> 0 < prod (shape Y) ->
  svd_sorted_contract Ym (nth m (shape Y) 0) (prod (remove_nth m (shape Y))) (nth m ranks 0) a ->
  let U' := fst3 (svd_interface Rops a (nth m ranks 0)) in
  factors_ranked (shape X) ranks (set_nth m U' fs) 0 /\ (Err X (set_nth m U' fs) <= Err X fs)%R.
Proof. exact hooi_update_error. Qed.
Print Assumptions C09_hooi_update_error.

(* FULL: tucker(init="svd", tol=0) with ANY number of HOOI sweeps: squared error <= sum over the modes of the discarded squared
   singular values of the mode unfoldings of X -- the Tucker root-sum-square bound of the property, squared -- given the full SVD
   contract for the initialisation answers and LAPACK's sorted contract for the answers of the sweeps *)
Theorem C09_tucker_hooi_error_bound : forall (svd : nat -> tensor R -> svdans) (X : tensor R) (rank : rank_spec) (n_iter : nat)
  (core : tensor R) (fs : list (tensor R)),
  wf X -> 0 < prod (shape X) ->
  hosvd_full_contract svd X (validate_tucker_rank (ndim X) rank) 0 0 ->
  match hosvd_factors Rops svd X (validate_tucker_rank (ndim X) rank) 0 0 with
  | Ok fs0 => hooi_iter_sorted svd X (validate_tucker_rank (ndim X) rank) n_iter (ndim X) fs0
  | Err => True
  end ->
  tucker Rops svd X rank n_iter = Ok (core, fs) ->
  exists Xh, tucker_to_tensor Rops core fs = Ok Xh /\ shape Xh = shape X /\
             (terr2 Rops X Xh <= Rsum (hosvd_tail_list svd X (validate_tucker_rank (ndim X) rank) 0 0))%R.
Proof. exact tucker_hooi_error_bound. Qed.
Print Assumptions C09_tucker_hooi_error_bound.

Example C09_nonvacuous_hooi_bound :
  let svd := fun (_ : nat) (_ : tensor R) => ey_a in
  wf ey_M /\ 0 < prod (shape ey_M) /\
  hosvd_full_contract svd ey_M (validate_tucker_rank (ndim ey_M) (inr [1; 1])) 0 0.
Proof. exact hooi_bound_hypotheses_satisfiable. Qed.

Example C09_nonvacuous_ttm_rank_condition :
  let svd := fun (_ : nat) (_ : tensor R) => ttm_a in
  0 < prod (shape (ttm_tensor ttmX)) /\ tt_sorted svd (ttm_tensor ttmX) (inr [1; 1; 1]) /\
  requested_rank_condition (ttm_tensor ttmX) [1; 1; 1].
Proof. exact ttm_hypotheses_satisfiable. Qed.

(* ============================================================ tensor_ring: rank condition => exactness, end to end ============ *)
(* the sequential loop with a trailing bond r0, relative to ANY reference array Y (p x sizes... x r0) whose working array is P^T Y
   for a frame P with orthonormal columns: LAPACK's plain contract with sorted singular values + "the reference, viewed as
   (p n_1 ... n_k) x (n_{k+1} ... r0), has rank at most the bond realised at step k" => the per-run contract of every step
   (Eckart-Young for the working unfolding + the frame invariant; induction over the modes) *)
Theorem C09_loop_contract_from_rank_trailing_bond : forall (svd : nat -> tensor R -> svdans) (Yd : list R) (r0 : nat)
  (sizes : list nat) (k : nat) (ranks : list nat) (rk : nat) (W : list R) (P : nat -> nat -> R) (p : nat),
  0 < prod sizes * r0 ->
  frame_inv Yd p (prod sizes * r0) rk P W ->
  loop_pred Rops svd svd_sorted_contract k sizes ranks rk r0 W ->
  y_factors_from Yd r0 p sizes (loop_rank_list svd k sizes ranks rk r0 W) ->
  loop_contract svd k sizes ranks rk r0 W.
Proof. exact loop_contract_from_rank_gen. Qed.
Print Assumptions C09_loop_contract_from_rank_trailing_bond.

(* FULL, every start mode: if the first unfolding of the (rotated) input has rank <= rank[0] * rank[1] and the remainder of the
   first SVD, viewed as (r1 n_1 ... n_k) x (n_{k+1} ... n_{d-1} r0), has rank at most the bond realised at step k, tensor_ring
   reproduces X -- only LAPACK's plain contract (sorted singular values) is assumed for the answers of the run *)
Theorem C09_tensor_ring_exact_from_rank_condition : forall (svd : nat -> tensor R -> svdans) (X : tensor R) (rank : rank_spec)
  (mode : nat) (cores : list (tensor R)),
  tr_sorted svd X rank mode -> tr_rank_condition svd X rank mode ->
  tensor_ring Rops svd X rank mode = Ok cores ->
  forall idx, inb (shape X) idx -> tr_entry Rops cores idx = get 0%R X idx.
Proof. exact tensor_ring_exact_from_rank_condition. Qed.
Print Assumptions C09_tensor_ring_exact_from_rank_condition.

(* the remainder W1 of the first SVD consists of the r0 column blocks of U^T X_(0): if X viewed as (s0 m) x c has rank <= rho,
   W1 viewed as (r1 m) x (c r0) has rank <= rho r0 (hence <= any r >= rho r0) *)
Theorem C09_ring_remainder_rank : forall (Xd Wd : list R) (u : nat -> nat -> R) (s0 r0 r1 m c rho r : nat),
  0 < m -> 0 < c -> 0 < r0 ->
  (forall b j a, b < r1 -> j < m * c -> a < r0 ->
     nth ((b * (m * c) + j) * r0 + a) Wd 0%R = fsumn Rops s0 (fun i0 => (u i0 (a * r1 + b)%nat * nth (i0 * (m * c) + j)%nat Xd 0)%R)) ->
  rho * r0 <= r ->
  factors_through (mk [s0 * m; c] Xd) (s0 * m) c rho ->
  factors_through (mk [r1 * m; c * r0] Wd) (r1 * m) (c * r0) r.
Proof. exact ring_factors_step. Qed.
Print Assumptions C09_ring_remainder_rank.

(* FULL, every start mode, the condition on X ITSELF: the first unfolding of the (rotated) input has rank <= rank[0] * rank[1]
   and its k-th sequential unfolding (s0 n_1 ... n_k) x (n_{k+1} ... n_{d-1}) has a rank rho_k with rho_k * rank[0] <= the bond
   realised at step k (for rank[0] = 1 this is the TT-SVD condition) => tensor_ring reproduces X *)
Theorem C09_tensor_ring_exact_from_x_rank_condition : forall (svd : nat -> tensor R -> svdans) (X : tensor R) (rank : rank_spec)
  (mode : nat) (cores : list (tensor R)),
  tr_sorted svd X rank mode -> tr_x_rank_condition svd X rank mode ->
  tensor_ring Rops svd X rank mode = Ok cores ->
  forall idx, inb (shape X) idx -> tr_entry Rops cores idx = get 0%R X idx.
Proof. exact tensor_ring_exact_from_x_rank_condition. Qed.
Print Assumptions C09_tensor_ring_exact_from_x_rank_condition.

(* FULL, every start mode, the regime the check's generator calls "sufficient": the first unfolding has rank <= rank[0] * rank[1]
   (always the case when rank[0] * rank[1] = min(s0, n_col)) and no request of the loop clips below min(n_row, n_col) of its step
   (full_bonds, a condition on shapes and requests only) => tensor_ring reproduces X *)
Theorem C09_tensor_ring_exact_full_request : forall (svd : nat -> tensor R -> svdans) (X : tensor R) (rank : rank_spec)
  (mode : nat) (cores : list (tensor R)),
  tr_sorted svd X rank mode -> tr_full_request X rank mode ->
  tensor_ring Rops svd X rank mode = Ok cores ->
  forall idx, inb (shape X) idx -> tr_entry Rops cores idx = get 0%R X idx.
Proof. exact tensor_ring_exact_full_request. Qed.
Print Assumptions C09_tensor_ring_exact_full_request.

Example C09_nonvacuous_tr_rank_condition :
  let svd := fun (_ : nat) (_ : tensor R) => rk1_a in
  tr_sorted svd rk1_M (inr [1; 1; 1]) 0 /\ tr_x_rank_condition svd rk1_M (inr [1; 1; 1]) 0.
Proof. exact tr_rank_condition_satisfiable. Qed.

Example C09_nonvacuous_tr_full_request :
  let svd := fun (_ : nat) (_ : tensor R) => rk1_a in
  tr_sorted svd rk1_M (inr [1; 2; 1]) 0 /\ tr_full_request rk1_M (inr [1; 2; 1]) 0.
Proof. exact tr_full_request_satisfiable. Qed.

Example C09_nonvacuous_full_bonds : full_bonds [3; 2; 2] [6; 4; 2] 2 2.
Proof. exact full_bonds_instance. Qed.

(* ============================================================ Tucker with factors whose columns are orthonormal OR ZERO ============ *)
(* factors_span / fitp (premises of C09_tucker_roundtrip, C09_tucker_exact_of_factors, C09_hooi_update_fits) now ask only for
   semi_orthonormal_cols: every column of a factor is either zero or part of an orthonormal family.  One mode (any commutative
   ring): projecting on such a U and expanding again returns X when the mode-k fibres of X are combinations of its columns *)
Theorem C09_mode_projector_exact_semi : forall (F : Type) (Op : fops F),
  ring_theory (f0 Op) (f1 Op) (fadd Op) (fmul Op) (fsub Op) (fopp Op) (@eq F) ->
  forall (X U : tensor F) (k r : nat) (c : nat -> list nat -> F),
  wf X -> k < ndim X -> shape U = [nth k (shape X) 0; r] ->
  semi_orthonormal_cols Op U (nth k (shape X) 0) r -> mode_span Op X U k r c ->
  exists Y, mode_dot Op X U k true = Ok Y /\ shape Y = set_nth k r (shape X) /\ mode_dot Op Y U k false = Ok X.
Proof. exact @mode_projector_exact_semi. Qed.
Print Assumptions C09_mode_projector_exact_semi.

Theorem C09_orthonormal_is_semi : forall (F : Type) (Op : fops F) (U : tensor F) (m r : nat),
  orthonormal_cols Op U m r -> semi_orthonormal_cols Op U m r.
Proof. exact @orthonormal_semi. Qed.
Print Assumptions C09_orthonormal_is_semi.

(* non-vacuity in the NEW regime: a factor with a zero column (not orthonormal) round-trips X = diag(3, 0) *)
Example C09_nonvacuous_tucker_zero_column :
  wf semiX /\ factors_span Zops semiX [semiU; semiU] 0 /\ ~ orthonormal_cols Zops semiU 2 2 /\
  multi_mode_dot Zops semiX [semiU; semiU] 0 None true = Ok (mk [2; 2] [3; 0; 0; 0]%Z) /\
  tucker_to_tensor Zops (mk [2; 2] [3; 0; 0; 0]%Z) [semiU; semiU] = Ok semiX.
Proof. exact semi_roundtrip_instance. Qed.

(* the weakened U-side contract (zero columns allowed) is implied by the U-side contract, and a call meeting it yields a fitting factor *)
Theorem C09_svd_contract_u_su : forall (M : tensor R) (m n r : nat) (a : svdans),
  svd_contract_u M m n r a -> svd_contract_su M m n r a.
Proof. exact svd_contract_u_su. Qed.
Print Assumptions C09_svd_contract_u_su.

(* tucker(init="svd", tol=0), ANY number of sweeps, any rank request: the calls of the initialisation under the weakened contract,
   the calls of the sweeps (LAPACK's truncated SVD in the code) under the U-side contract => exact reconstruction *)
Theorem C09_tucker_exact_semi_R : forall (svd : nat -> tensor R -> svdans) (X : tensor R) (rank : rank_spec) (n_iter : nat)
  (core : tensor R) (fs : list (tensor R)),
  wf X -> 0 < prod (shape X) ->
  hosvd_contract_su svd X (validate_tucker_rank (ndim X) rank) 0 0 ->
  match hosvd_factors Rops svd X (validate_tucker_rank (ndim X) rank) 0 0 with
  | Ok fs0 => hooi_iter_contract_u svd X (validate_tucker_rank (ndim X) rank) n_iter (ndim X) fs0
  | Err => True
  end ->
  tucker Rops svd X rank n_iter = Ok (core, fs) ->
  tucker_to_tensor Rops core fs = Ok X.
Proof. exact tucker_exact_semi_R. Qed.
Print Assumptions C09_tucker_exact_semi_R.

(* svd="symeig_svd" on a WIDE unfolding (dim_1 <= dim_2: U = (M V) / S): under eigh's literal contract (W orthogonal,
   (M^T M) W = W diag(lambda)), s^2 = clip(lambda, eps) with every eigenvalue 0 or >= eps, discarded eigenvectors null vectors of M,
   the answer meets the weakened contract: columns of non-zero eigenvalues orthonormal, columns of zero eigenvalues exactly zero *)
Theorem C09_symeig_wide_contract_su : forall (eps : R) (M : tensor R) (m n r : nat) (a : svdans),
  (0 < eps)%R -> symeig_wide_ok eps M m n r a -> svd_contract_su M m n r a.
Proof. exact symeig_wide_ok_contract_su. Qed.
Print Assumptions C09_symeig_wide_contract_su.

(* tucker with ANY svd= method on EVERY shape of the mode unfoldings (closes the gap of C09_tucker_methods_exact_R) *)
Theorem C09_tucker_all_methods_exact_R : forall (svd : nat -> tensor R -> svdans) (eps : R), (0 < eps)%R ->
  forall (X : tensor R) (rank : rank_spec) (n_iter : nat) (core : tensor R) (fs : list (tensor R)),
  wf X -> 0 < prod (shape X) ->
  hosvd_call_pred svd (method_su_ok eps) X (validate_tucker_rank (ndim X) rank) 0 0 ->
  match hosvd_factors Rops svd X (validate_tucker_rank (ndim X) rank) 0 0 with
  | Ok fs0 => hooi_iter_contract_u svd X (validate_tucker_rank (ndim X) rank) n_iter (ndim X) fs0
  | Err => True
  end ->
  tucker Rops svd X rank n_iter = Ok (core, fs) ->
  tucker_to_tensor Rops core fs = Ok X.
Proof. exact tucker_all_methods_exact_R. Qed.
Print Assumptions C09_tucker_all_methods_exact_R.

Example C09_nonvacuous_symeig_wide : symeig_wide_ok (/ 4)%R wM 2 2 2 (symeig_ans Rops wM wW [(/ 2)%R; 1%R]).
Proof. exact symeig_wide_satisfiable. Qed.

(* ============================================================ tensor_ring: upper bound in terms of the spectrum of X ============ *)
(* one loop step: the working unfolding is (P (x) I)^T W1_[k] (frame P with orthonormal columns), W1 the remainder of the first SVD
   = the r0 column blocks of U^T X_(0) for the r0 * r1 orthonormal columns u of the first U; if rho * r0 <= r then the tail of the
   working unfolding at r kept triplets is at most the tail at rho kept triplets of X viewed as (s0 m n) x c
   (Eckart-Young for the working unfolding + Bessel for the frame + Bessel for the whole first U) *)
Theorem C09_ring_step_tail_le : forall (Xd Wd : list R) (u : nat -> nat -> R) (s0 r0 r1 m n c rk r rho : nat)
  (P : nat -> nat -> R) (W : list R) (aM aX : svdans),
  0 < m -> 0 < n -> 0 < c -> 0 < r0 ->
  orthonormal_fun Rops u s0 (r0 * r1) ->
  (forall b j a, b < r1 -> j < (m * n) * c -> a < r0 ->
     nth ((b * ((m * n) * c) + j) * r0 + a) Wd 0%R
     = fsumn Rops s0 (fun i0 => (u i0 (a * r1 + b)%nat * nth (i0 * ((m * n) * c) + j)%nat Xd 0)%R)) ->
  frame_inv Wd (r1 * m) (n * (c * r0)) rk P W ->
  svd_sorted_contract (mk [rk * n; c * r0] W) (rk * n) (c * r0) r aM ->
  svd_full_contract (mk [s0 * (m * n); c] Xd) (s0 * (m * n)) c rho aX ->
  rho * r0 <= r ->
  (tail2 Rops r (snd3 aM) <= tail2 Rops rho (snd3 aX))%R.
Proof. exact ring_step_tail_le. Qed.
Print Assumptions C09_ring_step_tail_le.

(* FULL, every start mode, every order and rank request: squared tensor-ring error <= discarded squared singular values of the first
   unfolding of the rotated input (rank[mode] * rank[mode+1] kept) + sum over its later sequential unfoldings of their discarded
   squared singular values at (realised bond) / rank[mode] kept triplets (integer division).  Premises: tr_sorted (LAPACK's contract
   with sorted singular values for every call of the run; nothing about what is discarded) and tr_x_contract (the answers svdX gives
   for those unfoldings of X meet the full contract).  For rank[mode] = 1 this is the TT-SVD root-sum-square bound. *)
Theorem C09_tensor_ring_error_upper : forall (svd svdX : nat -> tensor R -> svdans) (X : tensor R) (rank : rank_spec) (mode : nat)
  (cores : list (tensor R)),
  tr_sorted svd X rank mode -> tr_x_contract svd svdX X rank mode ->
  tensor_ring Rops svd X rank mode = Ok cores ->
  (tr_err2 Rops X cores <= Rsum (tr_x_tail_list svd svdX X rank mode))%R.
Proof. exact tensor_ring_error_upper. Qed.
Print Assumptions C09_tensor_ring_error_upper.

Example C09_nonvacuous_tr_upper :
  let svd := fun (_ : nat) (_ : tensor R) => ey_a in
  tr_sorted svd ey_M (inr [1; 1; 1]) 0 /\ tr_x_contract svd svd ey_M (inr [1; 1; 1]) 0.
Proof. exact tr_upper_hypotheses_satisfiable. Qed.

(* ============================================================ tensor_ring: the lower bound for EVERY cut of the ring ============ *)
(* the squared ring error is invariant under rotating the cores together with the modes (any commutative ring) *)
Theorem C09_tr_err2_rotate : forall (F : Type) (Op : fops F),
  ring_theory (f0 Op) (f1 Op) (fadd Op) (fmul Op) (fsub Op) (fopp Op) (@eq F) ->
  forall (X : tensor F) (fs : list (tensor F)) (l mode : nat),
  0 < mode -> mode < ndim X -> bonds l fs l -> length fs = ndim X ->
  tr_err2 Op X (lastn mode fs ++ firstn (ndim X - mode) fs)
  = tr_err2 Op (transpose (f0 Op) (rotate mode (seq 0 (ndim X))) X) fs.
Proof. exact @tr_err2_rotate. Qed.
Print Assumptions C09_tr_err2_rotate.

(* FULL, every start mode: for every cut of the ring with rows = modes a .. b-1 (0 < a < b <= order; a = 0 is
   C09_tensor_ring_error_lower) the squared error is at least the discarded tail, at (bond entering core a) * (bond leaving core b-1)
   kept triplets, of the unfolding of X whose rows are those modes (= the unfolding after b - a modes of X rotated by a) *)
Theorem C09_tensor_ring_error_lower_any_cut : forall (svd : nat -> tensor R -> svdans)
  (X : tensor R) (rank : rank_spec) (mode : nat) (cores : list (tensor R)),
  tensor_ring Rops svd X rank mode = Ok cores ->
  forall a b, 0 < a -> a < b -> b <= ndim X ->
  exists m, forall aX,
    let Xp := transpose 0%R (rotate a (seq 0 (ndim X))) X in
    let fs := skipn a cores ++ firstn a cores in
    let r := m * nth 2 (shape (nth (b - a - 1) fs (mk [] []))) 0 in
    svd_sorted_contract (x_unfolding Xp (b - a)) (prod (firstn (b - a) (shape Xp))) (prod (skipn (b - a) (shape Xp))) r aX ->
    (tail2 Rops r (snd3 aX) <= tr_err2 Rops X cores)%R.
Proof. exact tensor_ring_error_lower_any_cut. Qed.
Print Assumptions C09_tensor_ring_error_lower_any_cut.

Example C09_nonvacuous_ring_any_cut :
  let cores := [mk [1; 2; 1] [1%R; 0%R]; mk [1; 2; 1] [2%R; 0%R]] in
  let Xp := transpose 0%R (rotate 1 (seq 0 (ndim ey_M))) ey_M in
  length cores = ndim ey_M /\ bonds 1 (firstn 1 cores) 1 /\ bonds 1 (skipn 1 cores) 1 /\
  ey_for (x_unfolding Xp 1) (prod (firstn 1 (shape Xp))) (prod (skipn 1 (shape Xp))) 1 ey_a /\
  (tail2 Rops 1 (snd3 ey_a) <= tr_err2 Rops ey_M cores)%R.
Proof. exact ring_any_cut_nonvacuous. Qed.

(* the decidable form of the full-request premise, evaluated by the check (Corr/C09.v, kind KFullReq) on every tensor_ring input its
   generator labels "sufficient", implies the premise of C09_tensor_ring_exact_full_request *)
Theorem C09_tr_full_requestb_sound : forall (X : tensor R) (rank : rank_spec) (mode : nat),
  tr_full_requestb X rank mode = true -> tr_full_request X rank mode.
Proof. exact tr_full_requestb_sound. Qed.
Print Assumptions C09_tr_full_requestb_sound.

(* tensor_ring respects the requested ranks (any carrier, any oracle, every start mode; no contract): with the returned cores and the
   request rotated to the start mode, the first core has exactly the bonds (rank[mode], rank[mode+1]) - whose product is at most the
   smaller dimension of the first unfolding, otherwise the run is Err - and every later bond is at most its request
   (the hypothesis is satisfiable: C09_nonvacuous_tr is a run returning Ok) *)
Theorem C09_tensor_ring_ranks_respected : forall (F : Type) (Op : fops F) (svd : nat -> tensor F -> svdans)
  (X : tensor F) (rank : rank_spec) (mode : nat) (cores : list (tensor F)),
  tensor_ring Op svd X rank mode = Ok cores ->
  match validate_tr_rank (ndim X) rank with
  | Ok rk0 =>
    let n := ndim X in
    let rk := if Nat.eqb mode 0 then rk0 else tr_rotate_rank n mode rk0 in
    let shp := if Nat.eqb mode 0 then shape X else permute 0 (rotate mode (seq 0 n)) (shape X) in
    let fs := if Nat.eqb mode 0 then cores else rotate mode cores in
    exists G cs, fs = G :: cs /\ shape G = [nth 0 rk 0; hd 0 shp; nth 1 rk 0] /\ ranks_respected cs (skipn 2 rk) /\
                 nth 0 rk 0 * nth 1 rk 0 <= Nat.min (hd 0 shp) (prod (tl shp))
  | Err => False
  end.
Proof. exact @tensor_ring_ranks_respected. Qed.
Print Assumptions C09_tensor_ring_ranks_respected.

(* non-vacuity of C09_tensor_ring_exact_from_x_rank_condition at ORDER 3 with ring bond 2 and a genuine loop step (zero tensor) *)
Example C09_nonvacuous_tr_rank_condition_order3 :
  let svd := fun (_ : nat) (_ : tensor R) => zans in
  tr_sorted svd zX (inr [2; 1; 2; 2]) 0 /\ tr_x_rank_condition svd zX (inr [2; 1; 2; 2]) 0.
Proof. exact tr_rank_condition_order3_satisfiable. Qed.

(* tensor_ring returns EXACTLY the closed-form bonds (any carrier, any oracle, every start mode): with cores and request rotated to
   the start mode, the bonds after the first core are min(previous bond * size, remaining size * rank[mode], request) - the ring
   analogue of C09_tensor_train_realised_rank; transcribed as a Python predicate on every tensor_ring run *)
Theorem C09_tensor_ring_realised : forall (F : Type) (Op : fops F) (svd : nat -> tensor F -> svdans)
  (X : tensor F) (rank : rank_spec) (mode : nat) (cores : list (tensor F)),
  tensor_ring Op svd X rank mode = Ok cores ->
  match validate_tr_rank (ndim X) rank with
  | Ok rk0 =>
    let n := ndim X in
    let rk := if Nat.eqb mode 0 then rk0 else tr_rotate_rank n mode rk0 in
    let shp := if Nat.eqb mode 0 then shape X else permute 0 (rotate mode (seq 0 n)) (shape X) in
    let fs := if Nat.eqb mode 0 then cores else rotate mode cores in
    right_bonds (tl fs) = realised_body_r0 (nth 0 rk 0) (tl shp) (nth 1 rk 0) (skipn 2 rk)
  | Err => False
  end.
Proof. exact @tensor_ring_realised. Qed.
Print Assumptions C09_tensor_ring_realised.

Example C09_nonvacuous_realised_body_r0 : realised_body_r0 2 [3; 2; 2] 2 [6; 1; 2] = [6; 1].
Proof. exact realised_body_r0_instance. Qed.

(* ============================================================ tensor_train_matrix: quasi-optimality (round 8), FULL ========== *)
(* any commutative ring, any oracle: with more than one mode pair the run of tensor_train_matrix IS the run of tensor_train on the
   interleaved, pair-merged tensor T with every core split again, and its squared error is the TT-SVD error on T *)
Theorem C09_ttm_err2_tt_err2 : forall (F : Type) (Op : fops F),
  ring_theory (f0 Op) (f1 Op) (fadd Op) (fmul Op) (fsub Op) (fopp Op) (@eq F) ->
  forall (svd : nat -> tensor F -> svdans) (X : tensor F) (rank : rank_spec) (cores : list (tensor F)),
  ndim X / 2 <> 1 -> tensor_train_matrix Op svd X rank = Ok cores ->
  exists fs, tensor_train Op svd (ttm_T Op X) rank = Ok fs /\
             cores = ttm_split (firstn (ndim X / 2) (shape X)) (skipn (ndim X / 2) (shape X)) fs /\
             length fs = ndim X / 2 /\ ndim X = 2 * (ndim X / 2) /\
             ttm_err2 Op X cores = tt_err2 Op (ttm_T Op X) fs.
Proof. exact @ttm_err2_tt_err2. Qed.
Print Assumptions C09_ttm_err2_tt_err2.

(* upper bound: squared error <= sum over the sequential unfoldings of T of their discarded squared singular values at the bonds
   the run realises (svdX: LAPACK's plain contract for the unfoldings of T); a single mode pair is returned as it is *)
Theorem C09_tensor_train_matrix_error_upper : forall (svd svdX : nat -> tensor R -> svdans) (X : tensor R) (rank : rank_spec)
  (cores : list (tensor R)),
  0 < prod (shape (ttm_tensor X)) -> tt_sorted svd (ttm_tensor X) rank ->
  x_contract_from svdX (ttm_tensor X) 1 (tt_rank_list svd (ttm_tensor X) rank) ->
  tensor_train_matrix Rops svd X rank = Ok cores ->
  (ttm_err2 Rops X cores <= (if Nat.eqb (ndim X / 2) 1 then 0 else Rsum (x_tail_list svd svdX (ttm_tensor X) rank)))%R.
Proof. exact tensor_train_matrix_error_upper. Qed.
Print Assumptions C09_tensor_train_matrix_error_upper.

(* lower bound, every cut after k mode pairs, no contract on the run's own oracle: the squared error is at least the discarded tail
   of the k-th sequential unfolding of T at the bond the returned 4-D core k-1 really has (its last dimension) *)
Theorem C09_tensor_train_matrix_error_lower : forall (svd : nat -> tensor R -> svdans) (X : tensor R) (rank : rank_spec)
  (cores : list (tensor R)) (k : nat) (aX : svdans),
  tensor_train_matrix Rops svd X rank = Ok cores -> 0 < k -> k < ndim X / 2 ->
  svd_sorted_contract (x_unfolding (ttm_tensor X) k) (prod (firstn k (shape (ttm_tensor X))))
                      (prod (skipn k (shape (ttm_tensor X)))) (nth 3 (shape (nth (k - 1) cores (mk [] []))) 0) aX ->
  (tail2 Rops (nth 3 (shape (nth (k - 1) cores (mk [] []))) 0%nat) (snd3 aX) <= ttm_err2 Rops X cores)%R.
Proof. exact tensor_train_matrix_error_lower. Qed.
Print Assumptions C09_tensor_train_matrix_error_lower.

(* diag(2, 1) tensorised with mode pairs (2 x 1), (2 x 1), request (1,1,1): a genuine truncation meeting every hypothesis *)
Example C09_nonvacuous_ttm_bounds :
  let svd := fun (_ : nat) (_ : tensor R) => ey_a in
  ndim ttmB_X / 2 <> 1 /\ 0 < 1 < ndim ttmB_X / 2 /\
  0 < prod (shape (ttm_tensor ttmB_X)) /\ tt_sorted svd (ttm_tensor ttmB_X) (inr [1; 1; 1]) /\
  x_contract_from svd (ttm_tensor ttmB_X) 1 (tt_rank_list svd (ttm_tensor ttmB_X) (inr [1; 1; 1])) /\
  svd_sorted_contract (x_unfolding (ttm_tensor ttmB_X) 1) (prod (firstn 1 (shape (ttm_tensor ttmB_X))))
                      (prod (skipn 1 (shape (ttm_tensor ttmB_X)))) 1 ey_a.
Proof. exact ttm_bounds_hypotheses_satisfiable. Qed.

(* ============================================================ tensor_ring: the rank condition on the REQUESTED ranks (round 8), FULL == *)
(* tr_requested_condition mentions X and the validated request only (no oracle answer, no realised bond): the first unfolding of the
   (rotated) input has rank <= rank[0] * rank[1], and its k-th sequential unfolding (s0 n_1 ... n_k) x (n_{k+1} ... n_{d-1}) has a rank
   rho_k with rho_k * rank[0] <= the requested rank[k+1] (for rank[0] = 1: requested ranks >= ranks of the unfoldings, as for TT-SVD).
   Then -- LAPACK's plain contract with sorted singular values for the answers of the run -- tensor_ring reproduces X, every start mode *)
Theorem C09_ring_requested_to_realised : forall (svd : nat -> tensor R -> svdans) (Xp : tensor R) (rk : list nat),
  0 < prod (tl (shape Xp)) * nth 0 rk 0 ->
  tr_core_sorted svd Xp rk -> tr_core_requested_condition Xp rk -> tr_core_rank_condition svd Xp rk.
Proof. exact tr_core_rank_condition_from_requested. Qed.
Print Assumptions C09_ring_requested_to_realised.

Theorem C09_tensor_ring_exact_requested_ranks : forall (svd : nat -> tensor R -> svdans) (X : tensor R) (rank : rank_spec)
  (mode : nat) (cores : list (tensor R)),
  tr_sorted svd X rank mode -> tr_requested_condition X rank mode ->
  tensor_ring Rops svd X rank mode = Ok cores ->
  forall idx, inb (shape X) idx -> tr_entry Rops cores idx = get 0%R X idx.
Proof. exact tensor_ring_exact_requested_ranks. Qed.
Print Assumptions C09_tensor_ring_exact_requested_ranks.

Example C09_nonvacuous_tr_requested_order3 :
  let svd := fun (_ : nat) (_ : tensor R) => zans in
  tr_sorted svd zX (inr [2; 1; 2; 2]) 0 /\ tr_requested_condition zX (inr [2; 1; 2; 2]) 0.
Proof. exact tr_requested_condition_order3_satisfiable. Qed.

Example C09_nonvacuous_tr_requested_ones : tr_requested_condition onesX (inr [2; 1; 2; 2]) 0.
Proof. exact tr_requested_condition_ones. Qed.

(* the advertised TT-matrix ranks (any carrier, any oracle): with more than one mode pair tensor_train_matrix returns EXACTLY the
   closed-form TT-SVD bonds on the merged mode sizes in_k * out_k (never more than requested) *)
Theorem C09_tensor_train_matrix_realised_rank : forall (F : Type) (Op : fops F),
  ring_theory (f0 Op) (f1 Op) (fadd Op) (fmul Op) (fsub Op) (fopp Op) (@eq F) ->
  forall (svd : nat -> tensor F -> svdans) (X : tensor F) (rank : rank_spec) (cores : list (tensor F)),
  ndim X / 2 <> 1 -> tensor_train_matrix Op svd X rank = Ok cores ->
  match validate_tt_rank (ndim X / 2) rank with
  | Ok rk => 1 :: ttm_right_bonds cores ++ [1] =
             realised_tt_rank (zip2 Nat.mul (firstn (ndim X / 2) (shape X)) (skipn (ndim X / 2) (shape X))) rk
  | Err => False
  end.
Proof. exact @tensor_train_matrix_realised_rank. Qed.
Print Assumptions C09_tensor_train_matrix_realised_rank.

(* ============================================================ error identity under the weakest per-call contract (round 8) ===== *)
(* step_proj: the KEPT columns of U are orthonormal and U_kept^T M = diag(S_kept) V_kept; U and V may have different numbers of
   triplets, nothing is said about the discarded part, the answer need not multiply back to the query (an already truncated answer
   qualifies).  It is implied by the contract of C09_chain_loop_error_identity ... *)
Theorem C09_step_orth_step_proj : forall (F : Type) (Op : fops F),
  ring_theory (f0 Op) (f1 Op) (fadd Op) (fmul Op) (fsub Op) (fopp Op) (@eq F) ->
  forall (M : tensor F) (m n r : nat) (a : svdans), step_orth Op M m n r a -> step_proj Op M m n r a.
Proof. exact @step_orth_proj. Qed.
Print Assumptions C09_step_orth_step_proj.

(* ... and suffices for the TT-SVD error identity (every commutative ring, every order, every rank request, every oracle) *)
Theorem C09_chain_loop_error_identity_gen : forall (F : Type) (Op : fops F),
  ring_theory (f0 Op) (f1 Op) (fadd Op) (fmul Op) (fsub Op) (fopp Op) (@eq F) ->
  forall (svd : nat -> tensor F -> svdans) (sizes : list nat) (k : nat) (ranks : list nat) (rk r0 : nat)
         (W : list F) (cores : list (tensor F)),
  loop_proj Op svd k sizes ranks rk r0 W ->
  chain_loop Op svd k sizes ranks rk r0 W = Ok cores ->
  err2 Op sizes rk r0 W cores = loop_discard Op svd k sizes ranks rk r0 W.
Proof. exact @chain_loop_error_identity_gen. Qed.
Print Assumptions C09_chain_loop_error_identity_gen.

Theorem C09_tensor_train_error_identity_gen : forall (F : Type) (Op : fops F),
  ring_theory (f0 Op) (f1 Op) (fadd Op) (fmul Op) (fsub Op) (fopp Op) (@eq F) ->
  forall (svd : nat -> tensor F -> svdans) (X : tensor F) (rank : rank_spec) (cores : list (tensor F)),
  tt_proj Op svd X rank -> tensor_train Op svd X rank = Ok cores -> tt_err2 Op X cores = tt_discard Op svd X rank.
Proof. exact @tensor_train_error_identity_gen. Qed.
Print Assumptions C09_tensor_train_error_identity_gen.

(* one randomized_svd call of the model (both branches) meets step_proj: direct branch from Q^T Q = I and the inner SVD's kept triplets
   (NO range-capture hypothesis); transposed branch additionally (M Q) Q^T = M *)
Theorem C09_randomized_call_step_proj : forall (M : tensor R) (m n r : nat) (a : svdans),
  rand_call_proj_ok M m n r a -> step_proj Rops M m n r a.
Proof. exact rand_call_proj_ok_step_proj. Qed.
Print Assumptions C09_randomized_call_step_proj.

(* tensor_train(svd='randomized_svd'), every order / rank request: squared error = sum over the steps of |M_k - U_k diag(S_k) V_k|^2 *)
Theorem C09_tensor_train_randomized_error_identity : forall (svd : nat -> tensor R -> svdans) (X : tensor R) (rank : rank_spec)
  (cores : list (tensor R)),
  match validate_tt_rank (ndim X) rank with
  | Ok rk => loop_pred Rops svd rand_call_proj_ok 0 (shape X) (tl rk) 1 1 (data X)
  | Err => True
  end ->
  tensor_train Rops svd X rank = Ok cores -> tt_err2 Rops X cores = tt_discard Rops svd X rank.
Proof. exact tensor_train_randomized_error_identity. Qed.
Print Assumptions C09_tensor_train_randomized_error_identity.

(* one symeig_svd call in the branch dim_1 > dim_2 (U has dim_1 columns, V dim_2 < dim_1 rows) meets step_proj as soon as eigh's W has
   orthonormal columns and the clipped square roots are non-zero: no eigen-equation, nothing about the discarded part *)
Theorem C09_symeig_tall_step_proj : forall (M W : tensor R) (s : list R) (m n r : nat),
  shape M = [m; n] -> shape W = [m; m] -> length s = m -> n < m -> r <= n ->
  (forall l, l < m -> nth l s 0%R <> 0%R) ->
  (forall j l, j < m -> l < m -> fsumn Rops m (fun i => (get 0%R W [i; j] * get 0%R W [i; l])%R) = if Nat.eqb j l then 1%R else 0%R) ->
  step_proj Rops M m n r (symeig_ans Rops M W s).
Proof. exact symeig_tall_step_proj. Qed.
Print Assumptions C09_symeig_tall_step_proj.

(* non-vacuity: an ALREADY truncated answer for diag(2, 1) meets step_proj but not step_orth; the symeig answer for (3, 4)^T *)
Example C09_nonvacuous_step_proj_truncated :
  step_proj Rops ey_M 2 2 1 (projU, [2%R], projV) /\ ~ step_orth Rops ey_M 2 2 1 (projU, [2%R], projV).
Proof. exact step_proj_truncated_answer. Qed.

Example C09_nonvacuous_symeig_tall_step_proj : step_proj Rops tallM 2 1 1 (symeig_ans Rops tallM exW [1%R; 1%R]).
Proof. exact symeig_tall_step_proj_satisfiable. Qed.

(* tensor_ring, every start mode, any commutative ring: the error identity under step_proj for every call of the run (the older
   contract tr_orth implies tr_proj: C09_tr_orth_tr_proj) *)
Theorem C09_tensor_ring_error_identity_gen : forall (F : Type) (Op : fops F),
  ring_theory (f0 Op) (f1 Op) (fadd Op) (fmul Op) (fsub Op) (fopp Op) (@eq F) ->
  forall (svd : nat -> tensor F -> svdans) (X : tensor F) (rank : rank_spec) (mode : nat) (cores : list (tensor F)),
  tr_proj Op svd X rank mode -> tensor_ring Op svd X rank mode = Ok cores ->
  tr_err2 Op X cores = tr_discard Op svd X rank mode.
Proof. exact @tensor_ring_error_identity_gen. Qed.
Print Assumptions C09_tensor_ring_error_identity_gen.

Theorem C09_tr_orth_tr_proj : forall (F : Type) (Op : fops F),
  ring_theory (f0 Op) (f1 Op) (fadd Op) (fmul Op) (fsub Op) (fopp Op) (@eq F) ->
  forall (svd : nat -> tensor F -> svdans) (X : tensor F) (rank : rank_spec) (mode : nat),
  tr_orth Op svd X rank mode -> tr_proj Op svd X rank mode.
Proof. exact @tr_orth_proj. Qed.
Print Assumptions C09_tr_orth_tr_proj.

(* tensor_ring(svd='randomized_svd'), every start mode / order / request: squared error = sum over the calls of |M_k - U_k diag(S_k) V_k|^2 *)
Theorem C09_tensor_ring_randomized_error_identity : forall (svd : nat -> tensor R -> svdans) (X : tensor R) (rank : rank_spec)
  (mode : nat) (cores : list (tensor R)),
  tr_pred Rops svd rand_call_proj_ok X rank mode ->
  tensor_ring Rops svd X rank mode = Ok cores -> tr_err2 Rops X cores = tr_discard Rops svd X rank mode.
Proof. exact tensor_ring_randomized_error_identity. Qed.
Print Assumptions C09_tensor_ring_randomized_error_identity.
