(* C10 -- property theorems only.  Statements are about Model/Nonneg.v over R (Rops).  The data tensor, LAPACK, the
   stopping tests, the numbers of inner sweeps and the line-search decisions enter the iteration skeletons only as
   function arguments, and every theorem quantifies over ALL of them: the sign of the result does not depend on the
   data (signed tensors included), on the iteration caps or on when the loops stop.
   vnn v = every entry of the vector >= 0;  mnn M = every entry of the matrix >= 0;  vge eps v = every entry >= eps. *)
From Coq Require Import List Arith Bool Reals QArith ZArith Lra.
From TLV Require Import Base.Shape Base.PyList Base.Tensor Base.Ops Model.Nonneg Model.NonnegSign Model.NonnegFlow Model.NonnegOptions Proofs.NonnegProofs Proofs.NonnegProofs2 Proofs.NonnegSignProofs Proofs.NonnegFlowProofs Proofs.NonnegOptionsProofs Model.NonnegP2Ls Proofs.NonnegP2LsProofs Proofs.NonnegFlowPeelProofs Model.NonnegCcpSpec Proofs.NonnegCcpSpecProofs Proofs.NonnegRound7Proofs Model.NonnegMask Proofs.NonnegMaskProofs Model.NonnegP2Repair Proofs.NonnegP2RepairProofs.
Import ListNotations.
Open Scope R_scope.

(* ---- entry formulas *)
Theorem C10_clip_ge : forall eps x : R, eps <= clip_min Rops eps x.
Proof. exact clip_min_ge. Qed.
Print Assumptions C10_clip_ge.

Theorem C10_mu_entry_nonneg : forall eps x n d : R, 0 < eps -> 0 <= x -> 0 <= mu_entry Rops eps x n d.
Proof. exact mu_entry_nonneg. Qed.
Print Assumptions C10_mu_entry_nonneg.

Theorem C10_mu_entry_tucker_nonneg : forall eps x n d : R, 0 < eps -> 0 <= x -> 0 <= mu_entry_tk Rops eps x n d.
Proof. exact mu_entry_tk_nonneg. Qed.
Print Assumptions C10_mu_entry_tucker_nonneg.

Theorem C10_fista_projection_ge : forall eps x : R, eps <= where_lt Rops eps x.
Proof. exact where_lt_ge. Qed.
Print Assumptions C10_fista_projection_ge.

Theorem C10_normalise_sign : forall x s : R, 0 <= x -> 0 <= s -> 0 <= fdiv Rops x (nz Rops s).
Proof. exact div_nz_nonneg. Qed.
Print Assumptions C10_normalise_sign.

Theorem C10_euclidean_norm_nonneg : forall v : list R, 0 <= nrm2 v.
Proof. exact nrm2_nonneg. Qed.
Print Assumptions C10_euclidean_norm_nonneg.

(* ---- solvers/nnls.py *)
Theorem C10_hals_row_ge : forall (eps : R) (sp rg : option R) (UtM UtU V : list (list R)) (k : nat),
  feqb Rops (nth k (nth k UtU []) 0) 0 = false -> (k < length V)%nat ->
  vge eps (nth k (hals_row Rops eps sp rg UtM UtU V k) []).
Proof. exact hals_row_ge. Qed.
Print Assumptions C10_hals_row_ge.

Theorem C10_hals_sweep_ge : forall (eps : R) (sp rg : option R) (UtM UtU V : list (list R)) (k : nat),
  (k < length UtM)%nat -> (k < length V)%nat -> feqb Rops (nth k (nth k UtU []) 0) 0 = false ->
  vge eps (nth k (hals_sweep Rops eps sp rg UtM UtU V) []).
Proof. exact hals_sweep_ge. Qed.
Print Assumptions C10_hals_sweep_ge.

Theorem C10_hals_nnls_nonneg : forall (eps : R) (sp rg : option R) (UtM UtU V : list (list R)) (n : nat),
  0 <= eps -> mnn V -> mnn (hals_nnls Rops eps sp rg UtM UtU V n).
Proof. exact hals_nnls_nn. Qed.
Print Assumptions C10_hals_nnls_nonneg.

Theorem C10_fista_ge : forall (eps lr sp rg : R) (lin : list R -> list R) (UtM x betas : list R),
  betas <> [] -> vge eps (fista Rops eps lr sp rg true lin UtM x betas).
Proof. exact fista_ge. Qed.
Print Assumptions C10_fista_ge.

Theorem C10_fista_nonneg : forall (eps lr sp rg : R) (lin : list R -> list R) (UtM x betas : list R),
  0 <= eps -> vnn x -> vnn (fista Rops eps lr sp rg true lin UtM x betas).
Proof. exact fista_nn. Qed.
Print Assumptions C10_fista_nonneg.

(* (definitional: the abstract skeleton IS "every executed iteration ends with a clip"; the content is in the two theorems after it) *)
Theorem C10_active_set_nonneg : forall (support : nat -> list R -> list R) (x : list R) (n : nat),
  vnn x \/ (0 < n)%nat -> vnn (active_set Rops support x n).
Proof. exact (fun support x n H => match H with or_introl Hx => active_set_nn support x n Hx | or_intror Hn => active_set_ge support x n Hn end). Qed.
Print Assumptions C10_active_set_nonneg.

(* active_set_nnls transcribed statement by statement (passive-set solves = ANY function `solve`, possibly failing): whenever it returns,
   the result is entrywise >= 0 - from a non-negative start, or after at least one iteration from any start *)
Theorem C10_active_set_nnls_nonneg : forall (solve : list (list R) -> list R -> option (list R)) (Utm : list R) (UtU : list (list R)) (tol : R)
         (x0 : list R) (n_iter_max : nat) (out : list R),
  active_set_nnls Rops solve Utm UtU tol x0 n_iter_max = Some out -> vnn x0 \/ (0 < n_iter_max)%nat -> vnn out.
Proof. exact active_set_nnls_nonneg. Qed.
Print Assumptions C10_active_set_nnls_nonneg.

(* ... and that result is an instance of the abstract skeleton (the support vectors of that run, k <= n_iter_max executed iterations):
   C10_non_negative_tucker_hals, stated for EVERY support oracle and iteration count, therefore covers the transcribed control flow *)
Theorem C10_active_set_nnls_is_skeleton : forall (solve : list (list R) -> list R -> option (list R)) (Utm : list R) (UtU : list (list R)) (tol : R)
         (x0 : list R) (n_iter_max : nat) (out : list R),
  active_set_nnls Rops solve Utm UtU tol x0 n_iter_max = Some out ->
  exists (support : nat -> list R -> list R) (k : nat), (k <= n_iter_max)%nat /\ out = active_set Rops support x0 k.
Proof. exact active_set_nnls_is_skeleton. Qed.
Print Assumptions C10_active_set_nnls_is_skeleton.

(* ---- initialisations *)
Theorem C10_initialize_cp_feasible : forall (nrm : list R -> R), (forall v, 0 <= nrm v) ->
  forall (Rk : nat) (raw : list (list (list R))) (nm : bool),
  cp_inv (fun _ => True) (initialize_cp_nn Rops nrm Rk raw nm).
Proof. exact initialize_cp_nn_inv. Qed.
Print Assumptions C10_initialize_cp_feasible.

(* a user (weights, factors) initialisation: the weights go into the last factor, optional normalisation; entrywise
   non-negative weights and declared factors stay so *)
Theorem C10_initialize_cp_user_feasible : forall (nrm : list R -> R), (forall v, 0 <= nrm v) ->
  forall (D : nat -> Prop) (w : list R) (Fs : list (list (list R))) (nm : bool),
  vnn w -> (forall m, D m -> mnn (nth m Fs [])) -> cp_inv D (initialize_cp_user_norm Rops nrm w Fs nm).
Proof. exact initialize_cp_user_norm_inv. Qed.
Print Assumptions C10_initialize_cp_user_feasible.

(* non_negative_parafac_hals with a user start: weights into the last updated mode when the last mode is fixed (after 3d55b5c) *)
Theorem C10_initialize_cp_user_hals_feasible : forall (nrm : list R -> R), (forall v, 0 <= nrm v) ->
  forall (D : nat -> Prop) (w : list R) (Fs : list (list (list R))) (modes : list nat) (nm : bool),
  vnn w -> (forall m, D m -> mnn (nth m Fs [])) -> cp_inv D (initialize_cp_user_hals Rops nrm w Fs modes nm).
Proof. exact initialize_cp_user_hals_inv. Qed.
Print Assumptions C10_initialize_cp_user_hals_feasible.

Theorem C10_initialize_tucker_feasible : forall (core : tensor R) (raw : list (list (list R))),
  tk_inv (initialize_tucker_nn Rops core raw).
Proof. exact initialize_tucker_nn_inv. Qed.
Print Assumptions C10_initialize_tucker_feasible.

Theorem C10_initialize_constrained_feasible : forall (nn : list nat) (other : nat -> list (list R) -> list (list R)) (raw : list (list (list R))),
  forall m, In m nn -> mnn (nth m (initialize_ccp Rops nn other raw) []).
Proof. exact initialize_ccp_nonneg. Qed.
Print Assumptions C10_initialize_constrained_feasible.

(* ---- the decompositions: induction over outer iterations, modes, inner sweeps *)
Theorem C10_non_negative_parafac : forall (nrm : list R -> R), (forall v, 0 <= nrm v) ->
  forall (eps : R) (numf denf : nat -> @cp_state R -> nat -> list (list R)) (stop : nat -> @cp_state R -> bool)
         (normalize : bool) (modes : list nat) (n_iter_max : nat) (w : list R) (Fs : list (list (list R))),
  0 < eps -> vnn w -> Forall mnn Fs ->
  let out := non_negative_parafac Rops nrm eps numf denf stop normalize modes n_iter_max (w, Fs) in
  vnn (fst out) /\ Forall mnn (snd out).
Proof. exact non_negative_parafac_nonneg. Qed.
Print Assumptions C10_non_negative_parafac.

Theorem C10_non_negative_parafac_real : forall (T : tensor R) (eps : R) (stop : nat -> @cp_state R -> bool)
         (normalize : bool) (modes : list nat) (n_iter_max : nat) (w : list R) (Fs : list (list (list R))),
  0 < eps -> vnn w -> Forall mnn Fs ->
  let out := non_negative_parafac Rops nrm2 eps (fun _ => cp_mu_num Rops T) (fun _ => cp_mu_den Rops) stop normalize modes n_iter_max (w, Fs) in
  vnn (fst out) /\ Forall mnn (snd out).
Proof. exact non_negative_parafac_real. Qed.
Print Assumptions C10_non_negative_parafac_real.

Theorem C10_non_negative_parafac_hals : forall (nrm : list R -> R), (forall v, 0 <= nrm v) ->
  forall (utm utu : nat -> @cp_state R -> nat -> list (list R)) (solve : list (list R) -> list (list R) -> list (list R))
         (inner : nat -> @cp_state R -> nat -> nat) (stop : nat -> @cp_state R -> bool) (nn_modes : list nat) (sps : list (option R))
         (normalize : bool) (modes : list nat) (n_iter_max : nat) (w : list R) (Fs : list (list (list R))),
  vnn w -> (forall m, In m nn_modes -> mnn (nth m Fs [])) ->
  let out := non_negative_parafac_hals Rops nrm utm utu solve inner stop nn_modes sps normalize modes n_iter_max (w, Fs) in
  vnn (fst out) /\ forall m, In m nn_modes -> mnn (nth m (snd out) []).
Proof. exact non_negative_parafac_hals_nonneg. Qed.
Print Assumptions C10_non_negative_parafac_hals.

Theorem C10_non_negative_parafac_hals_real : forall (T : tensor R) (solve : list (list R) -> list (list R) -> list (list R))
         (inner : nat -> @cp_state R -> nat -> nat) (stop : nat -> @cp_state R -> bool) (nn_modes : list nat) (sps : list (option R))
         (normalize : bool) (modes : list nat) (n_iter_max : nat) (w : list R) (Fs : list (list (list R))),
  vnn w -> (forall m, In m nn_modes -> mnn (nth m Fs [])) ->
  let out := non_negative_parafac_hals Rops nrm2 (fun _ => cp_hals_utm Rops T) (fun _ => cp_hals_utu Rops) solve inner stop
               nn_modes sps normalize modes n_iter_max (w, Fs) in
  vnn (fst out) /\ forall m, In m nn_modes -> mnn (nth m (snd out) []).
Proof. exact non_negative_parafac_hals_real. Qed.
Print Assumptions C10_non_negative_parafac_hals_real.

Theorem C10_non_negative_tucker : forall (nrm : list R -> R), (forall v, 0 <= nrm v) ->
  forall (eps : R) (numf denf : nat -> @tk_state R -> nat -> list (list R)) (numc denc : nat -> @tk_state R -> list R)
         (stop : nat -> @tk_state R -> bool) (normalize : bool) (n_modes n_iter_max : nat) (core : tensor R) (Fs : list (list (list R))),
  0 < eps -> vnn (data core) -> Forall mnn Fs ->
  let out := non_negative_tucker Rops nrm eps numf denf numc denc stop normalize n_modes n_iter_max (core, Fs) in
  vnn (data (fst out)) /\ Forall mnn (snd out).
Proof. exact non_negative_tucker_nonneg. Qed.
Print Assumptions C10_non_negative_tucker.

Theorem C10_non_negative_tucker_real : forall (T : tensor R) (eps : R) (stop : nat -> @tk_state R -> bool)
         (normalize : bool) (n_modes n_iter_max : nat) (core : tensor R) (Fs : list (list (list R))),
  0 < eps -> vnn (data core) -> Forall mnn Fs ->
  let out := non_negative_tucker Rops nrm2 eps (fun _ => tk_mu_num Rops T) (fun _ => tk_mu_den Rops)
                                 (fun _ => tk_mu_numc Rops T) (fun _ => tk_mu_denc Rops) stop normalize n_modes n_iter_max (core, Fs) in
  vnn (data (fst out)) /\ Forall mnn (snd out).
Proof. exact non_negative_tucker_real. Qed.
Print Assumptions C10_non_negative_tucker_real.

Theorem C10_non_negative_tucker_hals : forall (nrm : list R -> R), (forall v, 0 <= nrm v) ->
  forall (alg : core_alg) (fista_eps : R) (utm utu : nat -> @tk_state R -> nat -> list (list R)) (inner : nat -> @tk_state R -> nat -> nat)
         (sps : list (option R)) (lr : nat -> @tk_state R -> R) (csp : R) (lin : nat -> @tk_state R -> list R -> list R)
         (cutm : nat -> @tk_state R -> list R) (betas : nat -> @tk_state R -> list R) (support : nat -> @tk_state R -> nat -> list R -> list R)
         (as_n : nat -> @tk_state R -> nat) (stop : nat -> @tk_state R -> bool) (normalize : bool) (modes : list nat) (n_iter_max : nat)
         (core : tensor R) (Fs : list (list (list R))),
  0 <= fista_eps -> vnn (data core) -> Forall mnn Fs ->
  let out := non_negative_tucker_hals Rops nrm alg fista_eps utm utu inner sps lr csp lin cutm betas support as_n stop normalize modes
               n_iter_max (core, Fs) in
  vnn (data (fst out)) /\ Forall mnn (snd out).
Proof. exact non_negative_tucker_hals_nonneg. Qed.
Print Assumptions C10_non_negative_tucker_hals.

Theorem C10_constrained_parafac : forall (nn_modes : list nat) (other : nat -> list (list R) -> list (list R))
         (split : nat -> @ccp_state R -> nat -> list (list R) -> list (list R) -> list (list R)) (inner : nat -> @ccp_state R -> nat -> nat)
         (stop : nat -> @ccp_state R -> bool) (modes : list nat) (n_iter_max : nat) (Fs Ds : list (list (list R))),
  (forall m, In m nn_modes -> mnn (nth m Fs [])) ->
  forall m, In m nn_modes -> mnn (nth m (fst (constrained_parafac Rops nn_modes other split inner stop modes n_iter_max (Fs, Ds))) []).
Proof. exact constrained_parafac_nonneg. Qed.
Print Assumptions C10_constrained_parafac.

(* ---- PARAFAC2: every declared mode (mode 1 = the B factor included), with or without line search, any jump, any
        acceptance pattern, any number of inner HALS-CP iterations, optional normalisation *)
Theorem C10_parafac2 : forall (nrm : list R -> R), (forall v, 0 <= nrm v) ->
  forall (utm utu : nat -> nat -> @cp_state R -> nat -> list (list R)) (solve : list (list R) -> list (list R) -> list (list R))
         (inner : nat -> nat -> @cp_state R -> nat -> nat) (istop : nat -> nat -> @cp_state R -> bool) (nn_modes : list nat)
         (n_iter_parafac : nat) (line : nat -> option R) (accept : nat -> @cp_state R -> bool) (normalize : bool)
         (stop : nat -> @cp_state R -> bool) (n_iter_max : nat) (w : list R) (Fs : list (list (list R))),
  vnn w -> (forall m, In m nn_modes -> mnn (nth m Fs [])) ->
  let out := parafac2 Rops nrm utm utu solve inner istop nn_modes n_iter_parafac line accept normalize stop n_iter_max (w, Fs) in
  vnn (fst out) /\ forall m, In m nn_modes -> mnn (nth m (snd out) []).
Proof. exact parafac2_nonneg. Qed.
Print Assumptions C10_parafac2.

(* ---- round 7: constrained_parafac with its RAW non_negative argument (Model/NonnegCcpSpec.v: the registration of validate_constraints - True / list of
        booleans / dictionary incl. negative keys and False values -, raw fixed_modes, user weights pulled into the last factor) *)
Theorem C10_constrained_parafac_entry : forall (other : nat -> list (list R) -> list (list R))
         (split : nat -> @ccp_state R -> nat -> list (list R) -> list (list R) -> list (list R)) (inner : nat -> @ccp_state R -> nat -> nat)
         (stop : nat -> @ccp_state R -> bool) (n : nat) (spec : nn_spec) (fixed : option (list nat)) (n_iter_max : nat) (w : list R) (Fs : list (list (list R))),
  vnn w -> (forall m, In m (registered n spec) -> mnn (nth m Fs [])) ->
  forall m, In m (registered n spec) -> mnn (nth m (fst (constrained_parafac_entry Rops other split inner stop n spec fixed n_iter_max w Fs)) []).
Proof. exact constrained_parafac_entry_nonneg. Qed.
Print Assumptions C10_constrained_parafac_entry.
(* every mode the caller declares (True: all; the truthy positions of a list; the dictionary keys stored with a truthy value) is registered, hence covered *)
Theorem C10_nn_spec_declared_registered : forall (n : nat) (spec : nn_spec), incl (declared n spec) (registered n spec).
Proof. exact declared_registered. Qed.
Print Assumptions C10_nn_spec_declared_registered.
Theorem C10_nn_spec_list : forall (n : nat) (l : list bool) (m : nat), In m (registered n (NSList l)) <-> (m < n)%nat /\ nth m l false = true.
Proof. exact registered_list. Qed.
Print Assumptions C10_nn_spec_list.
Theorem C10_nn_spec_dict : forall (n : nat) (l : list (Z * bool)) (m : nat), In m (declared n (NSDict l)) <-> exists k, In (k, true) l /\ m = py_index n k.
Proof. exact declared_dict. Qed.
Print Assumptions C10_nn_spec_dict.
(* a negative dictionary key -k (1 <= k <= n) declares mode n - k *)
Theorem C10_nn_spec_negative_key : forall (n k : nat), (0 < k <= n)%nat -> py_index n (- Z.of_nat k) = (n - k)%nat.
Proof. exact py_index_neg. Qed.
Print Assumptions C10_nn_spec_negative_key.

(* built-in initialisation, then constrained_parafac with the raw non_negative argument: no hypothesis on the start is left *)
Theorem C10_init_then_constrained_parafac_spec : forall (n : nat) (spec : nn_spec) (other : nat -> list (list R) -> list (list R)) (raw Ds : list (list (list R)))
         (split : nat -> @ccp_state R -> nat -> list (list R) -> list (list R) -> list (list R)) (inner : nat -> @ccp_state R -> nat -> nat)
         (stop : nat -> @ccp_state R -> bool) (fixed : option (list nat)) (n_iter_max : nat),
  forall m, In m (registered n spec) ->
    mnn (nth m (fst (constrained_parafac Rops (registered n spec) other split inner stop (modes_of n (unfix_last n (parse_fixed fixed))) n_iter_max
                                         (initialize_ccp Rops (registered n spec) other raw, Ds))) []).
Proof. exact init_then_constrained_parafac_spec. Qed.
Print Assumptions C10_init_then_constrained_parafac_spec.

(* ---- round 7: PARAFAC2 with a USER-SUPPLIED line-search object (a _BroThesisLineSearch instance is used as it is and clips on its OWN nn_modes,
        Model/NonnegP2Ls.v).  Genuine gap of the implementation (known finding parafac2_user_linesearch_own_nn_modes): an instance whose nn_modes lack a
        declared mode returns the unclipped extrapolation of that mode when a jump is accepted. *)
Theorem C10_parafac2_user_linesearch_refuted :
  exists utm utu solve inner istop,
    let init := ([1%Q], [[[1%Q]]; [[1%Q]]; [[1%Q]]]) in
    qneg (nth 0 (nth 0 (nth 0 (snd (parafac2_ls Qops (fun _ => 1%Q) utm utu solve inner istop [0; 2]%nat (@nil nat) 1 (fun _ => Some 3%Q) (fun _ _ => true)
                                     false (fun _ _ => false) 1 init)) []) []) 0%Q) /\
    nth 0 (nth 0 (nth 0 (snd (parafac2_ls Qops (fun _ => 1%Q) utm utu solve inner istop [0; 2]%nat [0; 2]%nat 1 (fun _ => Some 3%Q) (fun _ _ => true)
                                     false (fun _ _ => false) 1 init)) []) []) 1%Q = 0%Q.
Proof. exact parafac2_user_linesearch_witness. Qed.
Print Assumptions C10_parafac2_user_linesearch_refuted.
(* what does hold: an instance whose own nn_modes contain every declared mode (incl ..) keeps the weights and every declared mode feasible *)
Theorem C10_parafac2_user_linesearch_partial : forall (nrm : list R -> R), (forall v, 0 <= nrm v) ->
  forall (utm utu : nat -> nat -> @cp_state R -> nat -> list (list R)) (solve : list (list R) -> list (list R) -> list (list R))
         (inner : nat -> nat -> @cp_state R -> nat -> nat) (istop : nat -> nat -> @cp_state R -> bool) (nn_modes ls_nn_modes : list nat)
         (n_iter_parafac : nat) (line : nat -> option R) (accept : nat -> @cp_state R -> bool) (normalize : bool)
         (stop : nat -> @cp_state R -> bool) (n_iter_max : nat) (w : list R) (Fs : list (list (list R))),
  incl nn_modes ls_nn_modes -> vnn w -> (forall m, In m nn_modes -> mnn (nth m Fs [])) ->
  let out := parafac2_ls Rops nrm utm utu solve inner istop nn_modes ls_nn_modes n_iter_parafac line accept normalize stop n_iter_max (w, Fs) in
  vnn (fst out) /\ forall m, In m nn_modes -> mnn (nth m (snd out) []).
Proof. exact parafac2_ls_nonneg. Qed.
Print Assumptions C10_parafac2_user_linesearch_partial.
(* the same from the built-in initialisations (projected on the declared modes): ANY raw signed factors *)
Theorem C10_init_then_parafac2_user_linesearch : forall (nrm : list R -> R), (forall v, 0 <= nrm v) ->
  forall (nn_modes ls_nn_modes : list nat) (raw : list (list (list R))) (Rk : nat)
         (utm utu : nat -> nat -> @cp_state R -> nat -> list (list R)) (solve : list (list R) -> list (list R) -> list (list R))
         (inner : nat -> nat -> @cp_state R -> nat -> nat) (istop : nat -> nat -> @cp_state R -> bool)
         (n_iter_parafac : nat) (line : nat -> option R) (accept : nat -> @cp_state R -> bool) (normalize : bool) (stop : nat -> @cp_state R -> bool) (n_iter_max : nat),
  incl nn_modes ls_nn_modes ->
  let out := parafac2_ls Rops nrm utm utu solve inner istop nn_modes ls_nn_modes n_iter_parafac line accept normalize stop n_iter_max
               (repeat (f1 Rops) Rk, initialize_parafac2_nn Rops nn_modes raw) in
  vnn (fst out) /\ forall m, In m nn_modes -> mnn (nth m (snd out) []).
Proof. exact init_then_parafac2_ls. Qed.
Print Assumptions C10_init_then_parafac2_user_linesearch.
(* the decomposition's own line search (linesearch=True) is the instance ls_nn_modes = nn_modes: the model of C10_parafac2 *)
Theorem C10_parafac2_own_linesearch : forall (nrm : list R -> R) utm utu solve inner istop nn_modes n_iter_parafac line accept normalize stop n_iter_max init,
  parafac2_ls Rops nrm utm utu solve inner istop nn_modes nn_modes n_iter_parafac line accept normalize stop n_iter_max init
  = parafac2 Rops nrm utm utu solve inner istop nn_modes n_iter_parafac line accept normalize stop n_iter_max init.
Proof. exact (@parafac2_ls_same R Rops). Qed.
Print Assumptions C10_parafac2_own_linesearch.

(* ---- round 7: the "at least one iteration" rule of the flow translator: a loop known to run at least once is analysed as block { body; loop { body } };
        that block has exactly the runs of the loop in which the body is entered (sound and complete), and verdict 0 on the peeled program covers them *)
Theorem C10_flow_peel_exact : forall (c : cmd) (st : state) (o : outc) (st' : state),
  loop_once c st o st' <-> exec (CBlock (CSeq c (CLoop c))) st o st'.
Proof. intros; split; [apply peel_sound | apply peel_complete]. Qed.
Print Assumptions C10_flow_peel_exact.
Theorem C10_flow_peel_verdict_sound : forall (pre c post : cmd) (a0 : aenv),
  flow_verdict (CSeq pre (CSeq (CBlock (CSeq c (CLoop c))) post)) a0 = 0%nat ->
  forall st st1 st2 st' l, gamma a0 st -> exec pre st ONorm st1 -> loop_once c st1 ONorm st2 -> exec post st2 (ORet l) st' -> vnnR l.
Proof. exact peel_verdict_sound. Qed.
Print Assumptions C10_flow_peel_verdict_sound.

(* the built-in initialisations of parafac2 are projected on the declared modes *)
Theorem C10_initialize_parafac2_feasible : forall (nn_modes : list nat) (raw : list (list (list R))),
  forall m, In m nn_modes -> mnn (nth m (initialize_parafac2_nn Rops nn_modes raw) []).
Proof. exact initialize_parafac2_nn_nonneg. Qed.
Print Assumptions C10_initialize_parafac2_feasible.

(* ---- initialise, then decompose: "any built-in initialisation, any iteration count" as single statements -- for ANY raw (signed)
        SVD / random factors and core, no hypothesis on the start is left *)
Theorem C10_init_then_non_negative_parafac : forall (nrm : list R -> R), (forall v, 0 <= nrm v) ->
  forall (Rk : nat) (raw : list (list (list R))) (nm0 : bool) (eps : R) (numf denf : nat -> @cp_state R -> nat -> list (list R))
         (stop : nat -> @cp_state R -> bool) (normalize : bool) (modes : list nat) (n_iter_max : nat),
  0 < eps ->
  let out := non_negative_parafac Rops nrm eps numf denf stop normalize modes n_iter_max (initialize_cp_nn Rops nrm Rk raw nm0) in
  vnn (fst out) /\ Forall mnn (snd out).
Proof. exact init_then_non_negative_parafac. Qed.
Print Assumptions C10_init_then_non_negative_parafac.

Theorem C10_init_then_non_negative_parafac_hals : forall (nrm : list R -> R), (forall v, 0 <= nrm v) ->
  forall (Rk : nat) (raw : list (list (list R))) (nm0 : bool) (utm utu : nat -> @cp_state R -> nat -> list (list R))
         (solve : list (list R) -> list (list R) -> list (list R)) (inner : nat -> @cp_state R -> nat -> nat) (stop : nat -> @cp_state R -> bool)
         (nn_modes : list nat) (sps : list (option R)) (normalize : bool) (modes : list nat) (n_iter_max : nat),
  let out := non_negative_parafac_hals Rops nrm utm utu solve inner stop nn_modes sps normalize modes n_iter_max (initialize_cp_nn Rops nrm Rk raw nm0) in
  vnn (fst out) /\ forall m, In m nn_modes -> mnn (nth m (snd out) []).
Proof. exact init_then_non_negative_parafac_hals. Qed.
Print Assumptions C10_init_then_non_negative_parafac_hals.

Theorem C10_init_then_non_negative_tucker : forall (nrm : list R -> R), (forall v, 0 <= nrm v) ->
  forall (core : tensor R) (raw : list (list (list R))) (eps : R) (numf denf : nat -> @tk_state R -> nat -> list (list R))
         (numc denc : nat -> @tk_state R -> list R) (stop : nat -> @tk_state R -> bool) (normalize : bool) (n_modes n_iter_max : nat),
  0 < eps ->
  let out := non_negative_tucker Rops nrm eps numf denf numc denc stop normalize n_modes n_iter_max (initialize_tucker_nn Rops core raw) in
  vnn (data (fst out)) /\ Forall mnn (snd out).
Proof. exact init_then_non_negative_tucker. Qed.
Print Assumptions C10_init_then_non_negative_tucker.

Theorem C10_init_then_non_negative_tucker_hals : forall (nrm : list R -> R), (forall v, 0 <= nrm v) ->
  forall (core : tensor R) (raw : list (list (list R))) (alg : core_alg) (fista_eps : R)
         (utm utu : nat -> @tk_state R -> nat -> list (list R)) (inner : nat -> @tk_state R -> nat -> nat)
         (sps : list (option R)) (lr : nat -> @tk_state R -> R) (csp : R) (lin : nat -> @tk_state R -> list R -> list R)
         (cutm : nat -> @tk_state R -> list R) (betas : nat -> @tk_state R -> list R) (support : nat -> @tk_state R -> nat -> list R -> list R)
         (as_n : nat -> @tk_state R -> nat) (stop : nat -> @tk_state R -> bool) (normalize : bool) (modes : list nat) (n_iter_max : nat),
  0 <= fista_eps ->
  let out := non_negative_tucker_hals Rops nrm alg fista_eps utm utu inner sps lr csp lin cutm betas support as_n stop normalize modes
               n_iter_max (initialize_tucker_nn Rops core raw) in
  vnn (data (fst out)) /\ Forall mnn (snd out).
Proof. exact init_then_non_negative_tucker_hals. Qed.
Print Assumptions C10_init_then_non_negative_tucker_hals.

Theorem C10_init_then_constrained_parafac : forall (nn_modes : list nat) (other : nat -> list (list R) -> list (list R))
         (raw Ds : list (list (list R))) (split : nat -> @ccp_state R -> nat -> list (list R) -> list (list R) -> list (list R))
         (inner : nat -> @ccp_state R -> nat -> nat) (stop : nat -> @ccp_state R -> bool) (modes : list nat) (n_iter_max : nat),
  forall m, In m nn_modes ->
    mnn (nth m (fst (constrained_parafac Rops nn_modes other split inner stop modes n_iter_max (initialize_ccp Rops nn_modes other raw, Ds))) []).
Proof. exact init_then_constrained_parafac. Qed.
Print Assumptions C10_init_then_constrained_parafac.

Theorem C10_init_then_parafac2 : forall (nrm : list R -> R), (forall v, 0 <= nrm v) ->
  forall (nn_modes : list nat) (raw : list (list (list R))) (Rk : nat)
         (utm utu : nat -> nat -> @cp_state R -> nat -> list (list R)) (solve : list (list R) -> list (list R) -> list (list R))
         (inner : nat -> nat -> @cp_state R -> nat -> nat) (istop : nat -> nat -> @cp_state R -> bool)
         (n_iter_parafac : nat) (line : nat -> option R) (accept : nat -> @cp_state R -> bool) (normalize : bool)
         (stop : nat -> @cp_state R -> bool) (n_iter_max : nat),
  let out := parafac2 Rops nrm utm utu solve inner istop nn_modes n_iter_parafac line accept normalize stop n_iter_max
                      (repeat (f1 Rops) Rk, initialize_parafac2_nn Rops nn_modes raw) in
  vnn (fst out) /\ forall m, In m nn_modes -> mnn (nth m (snd out) []).
Proof. exact init_then_parafac2. Qed.
Print Assumptions C10_init_then_parafac2.

(* ---- corr:C10-static: the sign analysis run on every check on the bodies of non_negative_parafac, non_negative_parafac_hals,
        non_negative_tucker, non_negative_tucker_hals as regenerated from the CURRENT Python source (Model/NonnegSign.v).
        Values are bags of entries; `reach prog` = the assignments of the body executed in any order, any number of times (every control
        flow, iteration cap and stopping behaviour is an instance); calls of the solvers / normalisations / initialisers evaluate to the
        functions of Model/Nonneg.v. *)
(* every value an expression can take satisfies the sign the analysis computes for it *)
Theorem C10_sign_expression_sound : forall (a : aenv) (st : state), gamma a st -> forall (e : sx) (l : list R), ev st e l -> sat (asign a e) l.
Proof. exact asign_sound. Qed.
Print Assumptions C10_sign_expression_sound.

(* the call contracts are theorems about the model functions: hals_nnls (epsilon >= 0), fista (non_negative, epsilon >= 0), active_set_nnls
   (whenever it returns), cp_normalize, tucker_normalize, initialize_cp (built-in: abs; user: weights into the last factor), initialize_tucker (abs) *)
Theorem C10_sign_contracts_sound : forall (f : fn) (l0 l1 : list R), contract f l0 l1 -> vnn l0 -> vnn l1.
Proof. exact contract_sound. Qed.
Print Assumptions C10_sign_contracts_sound.

(* verdict 0 for a regenerated body => in EVERY state reachable from an initial state satisfying the assumptions on the parameters
   (a0: user initialisation entrywise >= 0, nothing about the data tensor), every value of the returned expression is entrywise >= 0 *)
Theorem C10_sign_analysis_sound : forall (prog : list stmt) (a0 : aenv) (ret : sx), sign_verdict prog a0 ret = 0%nat ->
  forall (st0 st : state) (l : list R), gamma a0 st0 -> reach prog st0 st -> ev st ret l -> vnn l.
Proof. exact sign_verdict_sound. Qed.
Print Assumptions C10_sign_analysis_sound.

(* ---- corr:C10-flow: the FLOW-SENSITIVE analysis (Model/NonnegFlow.v) on structured bodies: sequence, choice (if / try), loops with break, blocks
        (inlined closures, callees, methods), return; strong updates for assignments, weak ones for in-place updates; loop invariants are
        computed by iteration and CHECKED to be inductive.  Used for active_set_nnls, initialize_tucker, parafac2 (with its closure, the
        initialiser, non_negative_parafac_hals and the line-search method inlined) and constrained_parafac (initialiser, admm, proximal_operator inlined). *)
Theorem C10_flow_exec_sound : forall (fuel : nat) (c : cmd) (a : aenv) (st : state) (o : outc) (st' : state),
  gamma a st -> exec c st o st' -> okres (aexec fuel c a) o st'.
Proof. exact aexec_sound. Qed.
Print Assumptions C10_flow_exec_sound.

(* verdict 0 => every value the body can return, from any initial state satisfying the assumptions on the parameters, is entrywise >= 0 *)
Theorem C10_flow_analysis_sound : forall (c : cmd) (a0 : aenv), flow_verdict c a0 = 0%nat ->
  forall (st0 st : state) (l : list R), gamma a0 st0 -> exec c st0 (ORet l) st -> vnn l.
Proof. exact flow_verdict_sound. Qed.
Print Assumptions C10_flow_analysis_sound.

(* ---- the entry points as functions of their RAW options (Model/NonnegOptions.v): fixed_modes (None / list, the last mode dropped by
        non_negative_parafac and non_negative_tucker_hals), nn_modes ('all' / None / list), sparsity_coefficients (None / scalar / list, reset on
        fixed modes) are parsed by the model; executed against the implementation with the raw options (OMuCpE, OHalsCpE, OTkHalsE) *)
Theorem C10_modes_of_spec : forall (n : nat) (fixed : list nat) (m : nat), In m (modes_of n fixed) <-> (m < n)%nat /\ ~ In m fixed.
Proof. exact modes_of_spec. Qed.
Print Assumptions C10_modes_of_spec.

(* a fixed_modes list without repetitions never keeps the last mode fixed (list.remove drops ONE occurrence: see the Example below) *)
Theorem C10_last_mode_updated : forall (n : nat) (fixed : list nat), (0 < n)%nat -> NoDup fixed -> In (n - 1)%nat (modes_of n (unfix_last n fixed)).
Proof. exact last_mode_updated. Qed.
Print Assumptions C10_last_mode_updated.

Theorem C10_non_negative_parafac_entry : forall (nrm : list R -> R), (forall v, 0 <= nrm v) ->
  forall (eps : R) (numf denf : nat -> @cp_state R -> nat -> list (list R)) (stop : nat -> @cp_state R -> bool)
         (n : nat) (fixed : option (list nat)) (normalize : bool) (n_iter_max : nat) (w : list R) (Fs : list (list (list R))),
  0 < eps -> vnn w -> Forall mnn Fs ->
  let out := non_negative_parafac_entry Rops nrm eps numf denf stop n fixed normalize n_iter_max w Fs in
  vnn (fst out) /\ Forall mnn (snd out).
Proof. exact non_negative_parafac_entry_nonneg. Qed.
Print Assumptions C10_non_negative_parafac_entry.

Theorem C10_non_negative_parafac_hals_entry : forall (nrm : list R -> R), (forall v, 0 <= nrm v) ->
  forall (utm utu : nat -> @cp_state R -> nat -> list (list R)) (solve : list (list R) -> list (list R) -> list (list R))
         (inner : nat -> @cp_state R -> nat -> nat) (stop : nat -> @cp_state R -> bool)
         (n : nat) (fixed : option (list nat)) (nn : nn_opt) (sp : @sp_opt R) (normalize : bool) (n_iter_max : nat) (w : list R) (Fs : list (list (list R))),
  vnn w -> (forall m, In m (parse_nn_modes n nn) -> mnn (nth m Fs [])) ->
  let out := non_negative_parafac_hals_entry Rops nrm utm utu solve inner stop n fixed nn sp normalize n_iter_max w Fs in
  vnn (fst out) /\ forall m, In m (parse_nn_modes n nn) -> mnn (nth m (snd out) []).
Proof. exact non_negative_parafac_hals_entry_nonneg. Qed.
Print Assumptions C10_non_negative_parafac_hals_entry.

(* the default nn_modes='all': every factor of the order-n decomposition, whatever is fixed *)
Theorem C10_non_negative_parafac_hals_entry_all : forall (nrm : list R -> R), (forall v, 0 <= nrm v) ->
  forall (utm utu : nat -> @cp_state R -> nat -> list (list R)) (solve : list (list R) -> list (list R) -> list (list R))
         (inner : nat -> @cp_state R -> nat -> nat) (stop : nat -> @cp_state R -> bool)
         (n : nat) (fixed : option (list nat)) (sp : @sp_opt R) (normalize : bool) (n_iter_max : nat) (w : list R) (Fs : list (list (list R))),
  vnn w -> Forall mnn Fs ->
  let out := non_negative_parafac_hals_entry Rops nrm utm utu solve inner stop n fixed NNAll sp normalize n_iter_max w Fs in
  vnn (fst out) /\ forall m, (m < n)%nat -> mnn (nth m (snd out) []).
Proof. exact non_negative_parafac_hals_entry_all. Qed.
Print Assumptions C10_non_negative_parafac_hals_entry_all.

(* no hypothesis on the (core, factors) start: initialize_tucker(non_negative=True) takes absolute values of a user start as well *)
Theorem C10_non_negative_tucker_hals_entry : forall (nrm : list R -> R), (forall v, 0 <= nrm v) ->
  forall (alg : core_alg) (fista_eps : R) (utm utu : nat -> @tk_state R -> nat -> list (list R)) (inner : nat -> @tk_state R -> nat -> nat)
         (lr : nat -> @tk_state R -> R) (csp : R) (lin : nat -> @tk_state R -> list R -> list R)
         (cutm : nat -> @tk_state R -> list R) (betas : nat -> @tk_state R -> list R) (support : nat -> @tk_state R -> nat -> list R -> list R)
         (as_n : nat -> @tk_state R -> nat) (stop : nat -> @tk_state R -> bool)
         (n : nat) (fixed : option (list nat)) (sp : @sp_opt R) (normalize : bool) (n_iter_max : nat) (core : tensor R) (Fs : list (list (list R))),
  0 <= fista_eps ->
  let out := non_negative_tucker_hals_entry Rops nrm alg fista_eps utm utu inner lr csp lin cutm betas support as_n stop n fixed sp normalize n_iter_max core Fs in
  vnn (data (fst out)) /\ Forall mnn (snd out).
Proof. exact non_negative_tucker_hals_entry_nonneg. Qed.
Print Assumptions C10_non_negative_tucker_hals_entry.

(* ---- non-vacuity and sharpness *)
(* the hypotheses are satisfiable; the model computes on a signed tensor *)
Example C10_nonvacuous_hypotheses : 0 < 1 / 1000 /\ vnn [1] /\ Forall mnn [[[1]; [1]]; [[1]; [1]]].
Proof. unfold vnn, mnn, vnn. repeat split; repeat (apply Forall_cons || apply Forall_nil || lra). Qed.
Example C10_model_computes_on_signed_data :
  non_negative_parafac Qops (fun _ => 1%Q) (1 # 1000)%Q (fun _ => cp_mu_num Qops (mk [2; 2]%nat [1%Q; (-2)%Q; (-3)%Q; 4%Q])) (fun _ => cp_mu_den Qops)
      (fun _ _ => false) false [0; 1]%nat 1 ([1%Q], [[[1%Q]; [1%Q]]; [[1%Q]; [1%Q]]])
  = ([1%Q], [[[(1 # 2000)%Q]; [(1 # 2)%Q]]; [[(4000 # 1000001)%Q]; [(7996000 # 1000001)%Q]]]).
Proof. exact mu_signed_example. Qed.
(* the hypothesis on a USER start cannot be dropped (executed over Q on the same functions): a negative entry of a declared mode is
   returned as is for cap 0 and survives an iteration in which the HALS row update is skipped (zero Gram diagonal) *)
Example C10_parafac2_user_start_hypothesis_needed :
  exists utm utu solve inner istop,
    let init := ([1%Q], [[[1%Q]]; [[1%Q]]; [[(-1)%Q]]]) in
    qneg (nth 0 (nth 0 (nth 2 (snd (parafac2 Qops (fun _ => 1%Q) utm utu solve inner istop [0; 1; 2]%nat 1 (fun _ => None) (fun _ _ => false)
                                     false (fun _ _ => false) 1 init)) []) []) 0%Q) /\
    qneg (nth 0 (nth 0 (nth 2 (snd (parafac2 Qops (fun _ => 1%Q) utm utu solve inner istop [0; 1; 2]%nat 1 (fun _ => None) (fun _ _ => false)
                                     false (fun _ _ => false) 0 init)) []) []) 0%Q).
Proof. exact parafac2_signed_init_witness. Qed.
(* the theorems cannot be strengthened to undeclared modes *)
Example C10_undeclared_mode_unconstrained :
  exists utm utu solve inner,
    qneg (nth 0 (nth 0 (nth 1 (snd (non_negative_parafac_hals Qops (fun _ => 1%Q) utm utu solve inner (fun _ _ => false) [0]%nat
                                     [None; None] false [0; 1]%nat 1 ([1%Q], [[[1%Q]]; [[1%Q]]]))) []) []) 0%Q).
Proof. exact undeclared_mode_unconstrained_witness. Qed.
(* the analysis accepts a miniature multiplicative-update body and rejects it once the clip of the numerator is removed; the
   statement semantics is inhabited *)
Example C10_sign_analysis_accepts : sign_verdict (mini_mu true) mini_a0 (XPair (XVar 2%nat) (XVar 3%nat)) = 0%nat.
Proof. exact sign_verdict_accepts. Qed.
Example C10_sign_analysis_rejects : sign_verdict (mini_mu false) mini_a0 (XPair (XVar 2%nat) (XVar 3%nat)) = 2%nat.
Proof. exact sign_verdict_rejects. Qed.
Example C10_sign_semantics_inhabited : exists st, reach (mini_mu true) (fun _ => []) st /\ st 1%nat = [1].
Proof. exact reach_nonvacuous. Qed.
(* sharpness of NoDup in C10_last_mode_updated: fixed_modes = [2; 2] on an order-3 tensor keeps mode 2 fixed (list.remove drops one occurrence) *)
Example C10_repeated_fixed_mode_stays_fixed : unfix_last 3 [2; 2]%nat = [2]%nat /\ modes_of 3 (unfix_last 3 [2; 2]%nat) = [0; 1]%nat.
Proof. exact unfix_last_repeated. Qed.
(* flow sensitivity matters: x = clip(..); loop { x = x + data; x = clip(x, 0); maybe break }; return x is accepted by the flow-sensitive analysis,
   rejected when the first clip is missing, and rejected by the flow-insensitive analysis in any case; the semantics is inhabited *)
Example C10_flow_accepts : flow_verdict (mini_flow true) [SgPos] = 0%nat.
Proof. exact flow_accepts. Qed.
Example C10_flow_rejects : flow_verdict (mini_flow false) [SgPos] = 2%nat.
Proof. exact flow_rejects. Qed.
Example C10_flow_insensitive_rejects :
  sign_verdict [SAssign [0%nat] (XClip XNonneg XAny); SAssign [0%nat] (XAdd (XVar 0%nat) XAny); SAssign [0%nat] (XClip XNonneg (XVar 0%nat))]
               [SgPos] (XVar 0%nat) = 2%nat.
Proof. exact flow_insensitive_rejects. Qed.
Example C10_flow_semantics_inhabited : exists st l, exec (mini_flow true) (fun _ => []) (ORet l) st.
Proof. exact flow_exec_inhabited. Qed.
(* the peel rule decides: a miniature active-set body from a signed start is rejected as a plain loop, accepted once the loop runs at least once *)
Example C10_flow_peel_needed : flow_verdict (CSeq CSkip (CSeq (CLoop mini_body) (CReturn (XVar 0%nat)))) [SgAny] = 2%nat.
Proof. exact peel_rejected_without. Qed.
Example C10_flow_peel_accepts : flow_verdict (CSeq CSkip (CSeq (CBlock (CSeq mini_body (CLoop mini_body))) (CReturn (XVar 0%nat)))) [SgAny] = 0%nat.
Proof. exact peel_accepted_with. Qed.
(* what the parsing of the raw non_negative argument does on small instances *)
Example C10_nn_spec_examples :
  declared 3 (NSDict [((-1)%Z, true)]) = [2%nat] /\ registered 3 (NSDict [(0%Z, false); (1%Z, true)]) = [0%nat; 1%nat] /\
  declared 3 (NSDict [(0%Z, false); (1%Z, true)]) = [1%nat] /\ declared 3 (NSList [true]) = [0%nat] /\
  declared 3 (NSList [true; false; true]) = [0%nat; 2%nat] /\ declared 3 (NSBool false) = [] /\ declared 3 (NSDict []) = [] /\ declared 2 (NSBool true) = [0%nat; 1%nat].
Proof. exact spec_examples. Qed.

(* the order of the l1 shift and the projection in the HALS row update matters (the model follows the code: shift, then clip - C10_hals_row_ge holds for any sparsity
   coefficient); the other order leaves an entry on the bound at -sparsity / UtU[k, k] *)
Example C10_hals_shift_then_clip_order_matters :
  hals_row Qops 0%Q (Some (1 # 2)%Q) None [[(-1)%Q]] [[2%Q]] [[1%Q]] 0 = [[0%Q]] /\
  hals_row_shift_after Qops 0%Q (Some (1 # 2)%Q) None [[(-1)%Q]] [[2%Q]] [[1%Q]] 0 = [[(-1 # 4)%Q]] /\
  hals_row_shift_after Qops 0%Q None None [[(-1)%Q]] [[2%Q]] [[1%Q]] 0 = hals_row Qops 0%Q None None [[(-1)%Q]] [[2%Q]] [[1%Q]] 0.
Proof. exact hals_order_matters. Qed.

(* ---- round 8: two branches of the anchored code outside Model/Nonneg.v (Model/NonnegMask.v) *)
(* non_negative_parafac WITH A MASK: before every mode update the unobserved entries are replaced by the current reconstruction
   (tensor * mask + cp_to_tensor(..., mask = 1 - mask)); ANY tensor, ANY mask values, any iteration cap / stopping rule *)
Theorem C10_non_negative_parafac_masked : forall (T mask : tensor R) (eps : R) (stop : nat -> @cp_state R -> bool)
         (normalize : bool) (modes : list nat) (n_iter_max : nat) (w : list R) (Fs : list (list (list R))),
  0 < eps -> vnn w -> Forall mnn Fs ->
  let out := non_negative_parafac Rops nrm2 eps (fun _ => cp_mu_num_mask Rops T mask) (fun _ => cp_mu_den Rops) stop normalize modes n_iter_max (w, Fs) in
  vnn (fst out) /\ Forall mnn (snd out).
Proof. exact non_negative_parafac_masked_nonneg. Qed.
Print Assumptions C10_non_negative_parafac_masked.

(* the implementation overwrites `tensor` by the imputed tensor at every mode update; for a 0/1 mask imputing an imputed tensor equals imputing the original one, so the
   numerator oracle cp_mu_num_mask (a function of the ORIGINAL tensor and the current state) is what the code computes *)
Theorem C10_masked_imputation_idempotent : forall (T mask : tensor R) (st' st : @cp_state R),
  (forall p, (p < prod (shape T))%nat -> nth p (data mask) 0 = 0 \/ nth p (data mask) 0 = 1) ->
  impute Rops (impute Rops T mask st') mask st = impute Rops T mask st.
Proof. exact impute_idem. Qed.
Print Assumptions C10_masked_imputation_idempotent.

(* hals_nnls from ANY (signed) start: after at least one sweep every row with a non-zero diagonal entry of UtU is >= epsilon ... *)
Theorem C10_hals_nnls_ge : forall (eps : R) (sp rg : option R) (UtM UtU V : list (list R)) (n k : nat),
  (k < length UtM)%nat -> (k < length V)%nat -> feqb Rops (nth k (nth k UtU []) 0) 0 = false ->
  vge eps (nth k (hals_nnls Rops eps sp rg UtM UtU V (S n)) []).
Proof. exact hals_nnls_ge. Qed.
Print Assumptions C10_hals_nnls_ge.

(* ... in particular from the cold start (V=None), whatever tl.solve returned (S0) and although its scaling factor can be negative (Example below) *)
Theorem C10_hals_nnls_cold_start_ge : forall (eps : R) (sp rg : option R) (UtM UtU S0 : list (list R)) (n k : nat),
  (k < length UtM)%nat -> (k < length S0)%nat -> feqb Rops (nth k (nth k UtU []) 0) 0 = false ->
  vge eps (nth k (hals_nnls Rops eps sp rg UtM UtU (hals_cold_start Rops UtM UtU S0) (S n)) []).
Proof. exact hals_nnls_cold_ge. Qed.
Print Assumptions C10_hals_nnls_cold_start_ge.

Example C10_hals_cold_start_can_be_negative :
  hals_cold_start Qops [[(-17 # 10)%Q]; [(-21 # 10)%Q]] [[1%Q; (9 # 10)%Q]; [(9 # 10)%Q; 1%Q]] [[1%Q]; [(-3)%Q]] = [[(-17 # 10)%Q]; [0%Q]] /\
  hals_nnls Qops 0%Q None None [[(-17 # 10)%Q]; [(-21 # 10)%Q]] [[1%Q; (9 # 10)%Q]; [(9 # 10)%Q; 1%Q]] [[(-17 # 10)%Q]; [0%Q]] 1 = [[0%Q]; [0%Q]].
Proof. exact hals_cold_start_can_be_negative. Qed.
Example C10_masked_sweep_computes :
  let T := mk [2; 2]%nat [(-1)%Q; 2%Q; 3%Q; (-4)%Q] in let mask := mk [2; 2]%nat [1%Q; 0%Q; 1%Q; 1%Q] in
  data (impute Qops T mask ([1%Q], [[[1%Q]; [2%Q]]; [[1%Q]; [3%Q]]])) = [(-1)%Q; 3%Q; 3%Q; (-4)%Q].
Proof. exact masked_sweep_computes. Qed.

(* ---- round 8: candidate repair v2 of the known finding (parafac2 projects the factors returned by the caller's line search on the declared modes;
   Model/NonnegP2Repair.v).  Projecting a step clipped on ls_nn on the modes nn is a step clipped on ls_nn ++ nn ... *)
Theorem C10_line_step_then_clip : forall (nn ls_nn : list nat) (jump : R) (last cur : list (list (list R))),
  clip_modes Rops nn (line_step Rops ls_nn jump last cur) = line_step Rops (ls_nn ++ nn) jump last cur.
Proof. exact line_step_then_clip. Qed.
Print Assumptions C10_line_step_then_clip.
(* ... and the repaired run satisfies the FULL statement for ANY nn_modes of the caller's object (no `incl` hypothesis left) *)
Theorem C10_parafac2_user_linesearch_repaired : forall (nrm : list R -> R), (forall v, 0 <= nrm v) ->
  forall (utm utu : nat -> nat -> @cp_state R -> nat -> list (list R)) (solve : list (list R) -> list (list R) -> list (list R))
         (inner : nat -> nat -> @cp_state R -> nat -> nat) (istop : nat -> nat -> @cp_state R -> bool) (nn_modes ls_nn_modes : list nat)
         (n_iter_parafac : nat) (line : nat -> option R) (accept : nat -> @cp_state R -> bool) (normalize : bool)
         (stop : nat -> @cp_state R -> bool) (n_iter_max : nat) (w : list R) (Fs : list (list (list R))),
  vnn w -> (forall m, In m nn_modes -> mnn (nth m Fs [])) ->
  let out := parafac2_repaired Rops nrm utm utu solve inner istop nn_modes ls_nn_modes n_iter_parafac line accept normalize stop n_iter_max (w, Fs) in
  vnn (fst out) /\ forall m, In m nn_modes -> mnn (nth m (snd out) []).
Proof. exact parafac2_repaired_nonneg. Qed.
Print Assumptions C10_parafac2_user_linesearch_repaired.
