(* C11 -- property theorems only.  Statements are about Model/Constraints.v:
   validate_constraints (decision logic; dict keys are Python ints: z* definitions), proximal_operator (dispatch),
   admm and constrained_parafac (loop skeletons).  P = Python parameter values with truthiness `truthy`,
   M = factor matrices, op k p = the operator of constraint k with parameter p; least-squares steps and all stopping
   decisions are arbitrary functions (env), budgets are arbitrary naturals.
   zrequested n s m p: keyword value s asks for parameter p on mode m (a dict key addresses a mode as Python indexing
   does: `addresses`).  zwf_spec / zwf_specs: dict keys are distinct / keyword names are distinct (what Python guarantees).
   "The operator of kind k maps into the constraint set of k" enters the generic C11_returned_factor_feasible_partial as the
   hypothesis `forall k p v, feas k p (op k p v)`; for the operators of C12's model of tenalg/proximal.py (op_c12) that
   hypothesis is PROVED for six of the eight hard kinds (C11_operators_feasible; unimodality for any number of columns is
   proved in Proofs/ConstraintsProofsUni.v, C12 has it for one column under a hypothesis) and C11_returned_factor_feasible
   has no hypothesis left; normalize / normalized_sparsity keep side conditions on the operator's input (0/0 in the code).
   History: before fix c019b1a the scan compared raw dict keys and non_negative={2: ..}, l1_reg={-1: ..} on order 3 was
   accepted (the table theorems needed the hypothesis "keys >= 0" and had refutation witnesses); the model follows the
   repaired scan and the theorems hold for all int keys (Example C11_negative_key_alias_rejected).
   Round 8: the exact input class of the two `_partial` theorems (..._feasible_iff_..., ..._end_to_end_exact), admm's `order` left at None
   (fix a5b9e5b: mode 0; C11_admm_order_none_is_mode_0 etc.), the stopping rule with its comparisons as numbers (C11_stop_rule_numeric, ..._consequences), the documented
   class on which 'any initialisation' fails with the real operators and every budget (C11_user_init_fixed_mode_refuted). *)
From Coq Require Import List Arith Bool ZArith QArith Reals.
From TLV Require Import Base.PyList Base.Tensor.
From TLV Require Import Model.Constraints Proofs.ConstraintsProofs Proofs.ConstraintsProofsLoop Proofs.ConstraintsProofsKeys
  Proofs.ConstraintsProofsTotal.
From TLV Require Import Base.Ops Model.Prox Proofs.ProxProofsHard Proofs.ProxProofsMono.
From TLV Require Import Proofs.ProxProofsUni Proofs.ConstraintsProofsUni Proofs.ConstraintsProofsFeasible.
From TLV Require Import Model.ConstraintsOps Proofs.ConstraintsProofsStatic Proofs.ConstraintsProofsInit.
From TLV Require Import Model.ConstraintsStop Proofs.ConstraintsProofsStop Proofs.ConstraintsProofsClass Proofs.ConstraintsProofsRefute.
From TLV Require Import Model.ConstraintsNc Proofs.ConstraintsProofsNc Proofs.ConstraintsProofsExact.
Import ListNotations.
Close Scope R_scope. Close Scope Q_scope.

(* (i) decision logic at the real call site (the twelve keywords), every request: when the table exists, entry m is (k,p)
   iff keyword k requested p on m, and empty iff nobody requested anything on m *)
Theorem C11_table_iff_requested : forall (P : Type) (truthy : P -> bool) (n : nat) (f : kind -> @zspec P) (tab : @table P),
  zvalidate_table truthy n (zkeywords f) = Ok tab ->
  length tab = n /\
  (forall m k p, nth m tab None = Some (k, p) <-> zrequested truthy n (f k) m p) /\
  (forall m, nth m tab None = None <-> forall k p, ~ zrequested truthy n (f k) m p).
Proof. exact @zkeywords_table. Qed.
Print Assumptions C11_table_iff_requested.

(* ... and an error iff two keywords address one mode, or one dict names a mode twice (by two different keys), or a
   keyword addresses a mode that does not exist (a mode >= n, or a dict key below -n) *)
Theorem C11_reject_iff_double : forall (P : Type) (truthy : P -> bool) (n : nat) (f : kind -> @zspec P),
  (forall k, zwf_spec (f k)) ->
  (zvalidate_table truthy n (zkeywords f) = Err <->
   (exists k1 k2 m p1 p2, k1 <> k2 /\ zrequested truthy n (f k1) m p1 /\ zrequested truthy n (f k2) m p2) \/
   (exists k d key1 p1 key2 p2 m, f k = ZDict d /\ In (key1, p1) d /\ In (key2, p2) d /\ key1 <> key2 /\
                                  addresses n key1 m /\ addresses n key2 m) \/
   (exists k m p, zrequested truthy n (f k) m p /\ n <= m) \/
   (exists k d key p, f k = ZDict d /\ In (key, p) d /\ (key < - Z.of_nat n)%Z)).
Proof. exact @zkeywords_err_iff. Qed.
Print Assumptions C11_reject_iff_double.

(* the same two statements for any list of (name, value) pairs *)
Theorem C11_table_general : forall (P : Type) (truthy : P -> bool) (n : nat) (sp : list (kind * @zspec P)) (tab : @table P),
  zvalidate_table truthy n sp = Ok tab ->
  length tab = n /\
  (forall m k p, nth m tab None = Some (k, p) <-> exists s, In (k, s) sp /\ zrequested truthy n s m p) /\
  (forall m, nth m tab None = None <-> forall k s p, In (k, s) sp -> ~ zrequested truthy n s m p).
Proof. exact @zvalidate_table_ok. Qed.
Print Assumptions C11_table_general.

Theorem C11_reject_general : forall (P : Type) (truthy : P -> bool) (n : nat) (sp : list (kind * @zspec P)),
  zwf_specs sp ->
  (zvalidate_table truthy n sp = Err <-> zdouble truthy n sp \/ zself_alias n sp \/ zno_mode truthy n sp).
Proof. exact @zvalidate_table_err_iff. Qed.
Print Assumptions C11_reject_general.

(* what validate_constraints(..., order) returns *)
Theorem C11_validate_order : forall (P : Type) (truthy : P -> bool) (n : nat) (sp : list (kind * @zspec P)) (order : nat)
  (c : option (kind * P)),
  zvalidate truthy n sp order = Ok c ->
  order < n /\
  (forall k p, c = Some (k, p) <-> exists s, In (k, s) sp /\ zrequested truthy n s order p) /\
  (c = None <-> forall k s p, In (k, s) sp -> ~ zrequested truthy n s order p).
Proof. exact @zvalidate_spec. Qed.
Print Assumptions C11_validate_order.

(* int keys: inside [-n, n) the int-keyed definitions are the mode-keyed ones on the normalised keys; outside -> error *)
Theorem C11_int_keys_normalised : forall (P : Type) (truthy : P -> bool) (n : nat) (sp : list (kind * @zspec P)),
  in_range_specs n sp -> zvalidate_table truthy n sp = validate_table truthy n (norm_specs n sp).
Proof. exact @zvalidate_table_norm. Qed.
Print Assumptions C11_int_keys_normalised.

Theorem C11_key_outside_range_rejected : forall (P : Type) (truthy : P -> bool) (n : nat) (sp : list (kind * @zspec P)),
  bad_key n sp -> zvalidate_table truthy n sp = Err.
Proof. exact @zvalidate_table_bad. Qed.
Print Assumptions C11_key_outside_range_rejected.

(* (ii) admm returns the primal variable produced by the operator, for every inner budget >= 1 and every residual test; with an inner
   budget of 0 it returns its start - nothing is validated or projected (fix fe4edf7: `x_split = tl.transpose(x)` before the loop; before
   that fix the code raised UnboundLocalError there) *)
Theorem C11_admm_returns_operator_output : forall (M : Type) (msub madd : M -> M -> M) (R : M -> Prop) (n_iter : nat)
  (split : M -> M -> M) (conv : nat -> M -> M -> M -> bool) (prox : M -> res M) (x dual x' s d' : M),
  (forall v y, prox v = Ok y -> R y) ->
  admm msub madd n_iter split conv prox x dual = Ok (x', s, d') ->
  (0 < n_iter -> R x') /\ (n_iter = 0 -> x' = x /\ s = x /\ d' = dual).
Proof. exact @admm_range. Qed.
Print Assumptions C11_admm_returns_operator_output.

(* inner budget 0, whatever the outer budget, fixed modes and environment: the run returns the initialisation (the projected raw factors
   for 'svd' / 'random', the user's own factors for a user CP tensor) *)
Theorem C11_inner_budget_zero_returns_initialisation : forall (P M : Type) (dM : M) (op : kind -> P -> M -> M) (msub madd : M -> M -> M)
  (val : nat -> res (option (kind * P))) (E : env (M := M)) (n : nat) (i0 : init (M := M)) (fixed : list nat) (n_outer : nat) (zero : M) (fs : list M),
  constrained_cp dM op val msub madd E n i0 fixed n_outer 0 zero = Ok fs ->
  exists fs0, initialize op val i0 = Ok fs0 /\ length fs = length fs0 /\ forall m, nth m fs dM = nth m fs0 dM.
Proof. exact @cp_inner_zero. Qed.
Print Assumptions C11_inner_budget_zero_returns_initialisation.

(* (ii) skeleton of constrained_parafac: every validation function, outer/inner budget, environment, initialisation *)
Theorem C11_skeleton : forall (P M : Type) (dM : M) (op : kind -> P -> M -> M) (msub madd : M -> M -> M)
  (val : nat -> res (option (kind * P))) (E : env (M := M)) (n : nat) (i0 : init (M := M))
  (fixed : list nat) (n_outer n_inner : nat) (zero : M) (fs : list M),
  constrained_cp dM op val msub madd E n i0 fixed n_outer n_inner zero = Ok fs ->
  length fs = length (init_factors i0) /\
  (forall m, m < length fs ->
     init_computed i0 = true \/ (In m (modes_list n fixed) /\ 0 < n_outer /\ 0 < n_inner) ->
     in_range op val m (nth m fs dM)) /\
  (forall m, init_computed i0 = false -> ~ In m (modes_list n fixed) \/ n_outer = 0 \/ n_inner = 0 ->
     nth m fs dM = nth m (init_factors i0) dM).
Proof. exact @cp_skeleton. Qed.
Print Assumptions C11_skeleton.

(* "initial factors are passed through the proximal operator", exactly: with a computed initialisation (svd / random) the factor
   returned for a mode that no sweep updates (a fixed mode other than the last, or any mode with outer or inner budget 0) is prox_of c applied
   to the RAW initial factor of that very mode, c being the validated entry of the mode (so, by C11_validate_order, the operator of
   exactly the request made for it) *)
Theorem C11_untouched_mode_is_projected_initial_factor : forall (P M : Type) (truthy : P -> bool) (dM : M)
  (op : kind -> P -> M -> M) (msub madd : M -> M -> M) (n : nat) (sp : list (kind * @zspec P)) (E : env (M := M))
  (raw : list M) (fixed : list nat) (n_outer n_inner : nat) (zero : M) (fs : list M) (m : nat),
  constrained_cp dM op (zvalidate truthy n sp) msub madd E n (IComputed raw) fixed n_outer n_inner zero = Ok fs ->
  m < length raw -> ~ In m (modes_list n fixed) \/ n_outer = 0 \/ n_inner = 0 ->
  exists c, zvalidate truthy n sp m = Ok c /\ nth m fs dM = prox_of op c (nth m raw dM).
Proof. exact @zcp_computed_not_updated. Qed.
Print Assumptions C11_untouched_mode_is_projected_initial_factor.

(* non-vacuity on tags: op k p v = 100 + 10 p + v; raw factors 7, 8, 9; non_negative (p = 1) everywhere; mode 0 fixed, one sweep:
   mode 0 comes back as the operator applied to ITS raw factor (117), the updated modes as the operator applied to an iterate *)
Example C11_untouched_mode_example :
  let truthy := fun p : nat => negb (Nat.eqb p 0) in
  let sp := zkeywords (fun k => match k with KNonNeg => ZScalar 1 | _ => ZNone end) in
  let E := mkEnv (fun _ _ _ _ => 0) (fun _ _ _ _ _ _ => false) (fun _ _ _ => false) (fun _ _ => true) in
  constrained_cp 0 (fun _ p v => 100 + 10 * p + v) (zvalidate truthy 3 sp) (fun _ _ => 0) (fun _ _ => 0) E 3 (IComputed [7; 8; 9]) [0] 1 1 0
  = Ok [117; 110; 110] /\
  constrained_cp 0 (fun _ p v => 100 + 10 * p + v) (zvalidate truthy 3 sp) (fun _ _ => 0) (fun _ _ => 0) E 3 (IComputed [7; 8; 9]) [] 0 1 0
  = Ok [117; 118; 119].
Proof. split; vm_compute; reflexivity. Qed.

(* (i)+(ii), every request: the factor returned for a mode on which the user requested constraint k with parameter p
   is an output of the operator of k with p *)
Theorem C11_returned_factor_is_operator_output : forall (P : Type) (truthy : P -> bool) (M : Type) (dM : M)
  (op : kind -> P -> M -> M) (msub madd : M -> M -> M) (n : nat) (sp : list (kind * @zspec P)) (E : env (M := M))
  (i0 : init (M := M)) (fixed : list nat) (n_outer n_inner : nat) (zero : M) (fs : list M) (m : nat) (k : kind)
  (s : @zspec P) (p : P),
  constrained_cp dM op (zvalidate truthy n sp) msub madd E n i0 fixed n_outer n_inner zero = Ok fs ->
  m < length fs -> init_computed i0 = true \/ (In m (modes_list n fixed) /\ 0 < n_outer /\ 0 < n_inner) ->
  In (k, s) sp -> zrequested truthy n s m p ->
  exists v, nth m fs dM = op k p v.
Proof. exact @zcp_requested_in_range. Qed.
Print Assumptions C11_returned_factor_is_operator_output.

(* every mode: the returned factor is prox_of c v with c exactly the request made for the mode (None: the plain iterate) *)
Theorem C11_returned_factor_validated : forall (P : Type) (truthy : P -> bool) (M : Type) (dM : M)
  (op : kind -> P -> M -> M) (msub madd : M -> M -> M) (n : nat) (sp : list (kind * @zspec P)) (E : env (M := M))
  (i0 : init (M := M)) (fixed : list nat) (n_outer n_inner : nat) (zero : M) (fs : list M) (m : nat),
  constrained_cp dM op (zvalidate truthy n sp) msub madd E n i0 fixed n_outer n_inner zero = Ok fs ->
  m < length fs -> init_computed i0 = true \/ (In m (modes_list n fixed) /\ 0 < n_outer /\ 0 < n_inner) ->
  exists c v, nth m fs dM = prox_of op c v /\
    (forall k p, c = Some (k, p) <-> exists s, In (k, s) sp /\ zrequested truthy n s m p) /\
    (c = None <-> forall k s p, In (k, s) sp -> ~ zrequested truthy n s m p).
Proof. exact @zcp_validated. Qed.
Print Assumptions C11_returned_factor_validated.

(* ... hence feasible, GIVEN that every operator maps into its constraint set (hypothesis; C12's subject) *)
Theorem C11_returned_factor_feasible_partial : forall (P : Type) (truthy : P -> bool) (M : Type) (dM : M)
  (op : kind -> P -> M -> M) (msub madd : M -> M -> M) (feas : kind -> P -> M -> Prop) (n : nat) (sp : list (kind * @zspec P))
  (E : env (M := M)) (i0 : init (M := M)) (fixed : list nat) (n_outer n_inner : nat) (zero : M) (fs : list M) (m : nat)
  (k : kind) (s : @zspec P) (p : P),
  (forall k p v, feas k p (op k p v)) ->
  constrained_cp dM op (zvalidate truthy n sp) msub madd E n i0 fixed n_outer n_inner zero = Ok fs ->
  m < length fs -> init_computed i0 = true \/ (In m (modes_list n fixed) /\ 0 < n_outer /\ 0 < n_inner) ->
  In (k, s) sp -> zrequested truthy n s m p ->
  feas k p (nth m fs dM).
Proof. exact @zcp_feasible. Qed.
Print Assumptions C11_returned_factor_feasible_partial.

(* END TO END for the kinds whose operator C12 proves feasible (Proofs/ProxProofs*.v, model of tenalg/proximal.py over the reals):
   factors are matrices of reals given by their rows; op_c12 toR toN other = the C12 model operators for non_negative, simplex,
   monotonicity, hard_sparsity, normalized_sparsity, soft_sparsity, normalize (lifted with Prox.flatwise / Prox.colwise as in Corr/C12.v) and ARBITRARY
   operators `other` for the remaining kinds; toR / toN read a parameter as a real / a natural.  For every request, budget,
   environment and initialisation, a mode on which the kind was requested (computed initialisation, or updated at least once): *)
Theorem C11_non_negative_end_to_end : forall (P : Type) (truthy : P -> bool) (toR : P -> R) (toN : P -> nat)
  (other : kind -> P -> mat -> mat) (dM : mat) (msub madd : mat -> mat -> mat) (n : nat) (sp : list (kind * @zspec P))
  (E : env (M := mat)) (i0 : init (M := mat)) (fixed : list nat) (n_outer n_inner : nat) (zero : mat) (fs : list mat) (m : nat),
  constrained_cp dM (op_c12 toR toN other) (zvalidate truthy n sp) msub madd E n i0 fixed n_outer n_inner zero = Ok fs ->
  m < length fs -> init_computed i0 = true \/ (In m (modes_list n fixed) /\ 0 < n_outer /\ 0 < n_inner) ->
  forall (s : @zspec P) (p : P), In (KNonNeg, s) sp -> zrequested truthy n s m p ->
  Forall (fun a : R => (0 <= a)%R) (concat (nth m fs dM)).
Proof. exact @cp_nonneg. Qed.
Print Assumptions C11_non_negative_end_to_end.

(* at most k non-zero entries in the factor (the code thresholds the whole factor matrix; this implies <= k per column) *)
Theorem C11_hard_sparsity_end_to_end : forall (P : Type) (truthy : P -> bool) (toR : P -> R) (toN : P -> nat)
  (other : kind -> P -> mat -> mat) (dM : mat) (msub madd : mat -> mat -> mat) (n : nat) (sp : list (kind * @zspec P))
  (E : env (M := mat)) (i0 : init (M := mat)) (fixed : list nat) (n_outer n_inner : nat) (zero : mat) (fs : list mat) (m : nat),
  constrained_cp dM (op_c12 toR toN other) (zvalidate truthy n sp) msub madd E n i0 fixed n_outer n_inner zero = Ok fs ->
  m < length fs -> init_computed i0 = true \/ (In m (modes_list n fixed) /\ 0 < n_outer /\ 0 < n_inner) ->
  forall (s : @zspec P) (p : P), In (KHardSparsity, s) sp -> zrequested truthy n s m p ->
  nnzR (concat (nth m fs dM)) <= toN p.
Proof. exact @cp_hard_sparsity. Qed.
Print Assumptions C11_hard_sparsity_end_to_end.

(* the factor is the transpose of a RECTANGULAR list Z of columns (each as long as the factor has rows, so cols_of neither pads
   nor truncates: entry (i,j) of the factor is entry i of column j) that are >= 0 and sum to the parameter (parameter > 0) *)
Theorem C11_simplex_end_to_end : forall (P : Type) (truthy : P -> bool) (toR : P -> R) (toN : P -> nat)
  (other : kind -> P -> mat -> mat) (dM : mat) (msub madd : mat -> mat -> mat) (n : nat) (sp : list (kind * @zspec P))
  (E : env (M := mat)) (i0 : init (M := mat)) (fixed : list nat) (n_outer n_inner : nat) (zero : mat) (fs : list mat) (m : nat),
  constrained_cp dM (op_c12 toR toN other) (zvalidate truthy n sp) msub madd E n i0 fixed n_outer n_inner zero = Ok fs ->
  m < length fs -> init_computed i0 = true \/ (In m (modes_list n fixed) /\ 0 < n_outer /\ 0 < n_inner) ->
  forall (s : @zspec P) (p : P), In (KSimplex, s) sp -> zrequested truthy n s m p -> (0 < toR p)%R ->
  exists Z, nth m fs dM = cols_of Rops Z /\ Forall (fun z => length z = length (nth m fs dM)) Z /\
            Forall (fun z => Forall (fun a : R => (0 <= a)%R) z /\ lsum Rops z = toR p) Z.
Proof. exact @cp_simplex. Qed.
Print Assumptions C11_simplex_end_to_end.

(* the factor is the transpose of a rectangular list of non-decreasing columns *)
Theorem C11_monotonicity_end_to_end : forall (P : Type) (truthy : P -> bool) (toR : P -> R) (toN : P -> nat)
  (other : kind -> P -> mat -> mat) (dM : mat) (msub madd : mat -> mat -> mat) (n : nat) (sp : list (kind * @zspec P))
  (E : env (M := mat)) (i0 : init (M := mat)) (fixed : list nat) (n_outer n_inner : nat) (zero : mat) (fs : list mat) (m : nat),
  constrained_cp dM (op_c12 toR toN other) (zvalidate truthy n sp) msub madd E n i0 fixed n_outer n_inner zero = Ok fs ->
  m < length fs -> init_computed i0 = true \/ (In m (modes_list n fixed) /\ 0 < n_outer /\ 0 < n_inner) ->
  forall (s : @zspec P) (p : P), In (KMonotone, s) sp -> zrequested truthy n s m p ->
  exists Z, nth m fs dM = cols_of Rops Z /\ Forall (fun z => length z = length (nth m fs dM)) Z /\ Forall ndec Z.
Proof. exact @cp_monotone. Qed.
Print Assumptions C11_monotonicity_end_to_end.

(* l1 ball (soft_sparsity): the factor is the transpose of columns with l1 norm <= the parameter (parameter > 0).  The coded
   operator is not the projection inside the ball (C12_l1ball_refuted) but its output always lies in the ball: proved here
   from C12's simplex feasibility (Proofs/ConstraintsProofsFeasible.v: soft_sparsity_feasible) *)
Theorem C11_soft_sparsity_end_to_end : forall (P : Type) (truthy : P -> bool) (toR : P -> R) (toN : P -> nat)
  (other : kind -> P -> mat -> mat) (dM : mat) (msub madd : mat -> mat -> mat) (n : nat) (sp : list (kind * @zspec P))
  (E : env (M := mat)) (i0 : init (M := mat)) (fixed : list nat) (n_outer n_inner : nat) (zero : mat) (fs : list mat) (m : nat),
  constrained_cp dM (op_c12 toR toN other) (zvalidate truthy n sp) msub madd E n i0 fixed n_outer n_inner zero = Ok fs ->
  m < length fs -> init_computed i0 = true \/ (In m (modes_list n fixed) /\ 0 < n_outer /\ 0 < n_inner) ->
  forall (s : @zspec P) (p : P), In (KSoftSparsity, s) sp -> zrequested truthy n s m p -> (0 < toR p)%R ->
  exists Z, nth m fs dM = cols_of Rops Z /\ Forall (fun z => length z = length (nth m fs dM)) Z /\
            Forall (fun z => (l1n Rops z <= toR p)%R) Z.
Proof. exact @cp_soft_sparsity. Qed.
Print Assumptions C11_soft_sparsity_end_to_end.

(* unimodality: the factor is the transpose of a rectangular list of unimodal columns (each rises weakly up to some position and
   falls weakly from it on).  unimodality_prox couples the columns through a global fill value; the theorem holds for any number
   of columns, also when the selected index is not a flagged peak candidate (Example C11_unimodal_unflagged_index_selected) *)
Theorem C11_unimodality_end_to_end : forall (P : Type) (truthy : P -> bool) (toR : P -> R) (toN : P -> nat)
  (other : kind -> P -> mat -> mat) (dM : mat) (msub madd : mat -> mat -> mat) (n : nat) (sp : list (kind * @zspec P))
  (E : env (M := mat)) (i0 : init (M := mat)) (fixed : list nat) (n_outer n_inner : nat) (zero : mat) (fs : list mat) (m : nat),
  constrained_cp dM (op_c12 toR toN other) (zvalidate truthy n sp) msub madd E n i0 fixed n_outer n_inner zero = Ok fs ->
  m < length fs -> init_computed i0 = true \/ (In m (modes_list n fixed) /\ 0 < n_outer /\ 0 < n_inner) ->
  forall (s : @zspec P) (p : P), In (KUnimodal, s) sp -> zrequested truthy n s m p ->
  exists Z, nth m fs dM = cols_of Rops Z /\ Forall (fun z => length z = length (nth m fs dM)) Z /\ Forall unimodalP Z.
Proof. exact @cp_unimodal. Qed.
Print Assumptions C11_unimodality_end_to_end.

(* the operator itself, any matrix of columns: every output column is unimodal and as long as its input column *)
Theorem C11_unimodality_operator_feasible : forall cols : list (list R),
  Forall unimodalP (unimodality_cols Rops cols) /\
  map (@length R) (unimodality_cols Rops cols) = map (@length R) cols.
Proof. exact unimodality_cols_feasible. Qed.
Print Assumptions C11_unimodality_operator_feasible.

(* hard sparsity column-wise, as the property states it: every column of the returned factor has at most k non-zero entries *)
Theorem C11_hard_sparsity_columnwise : forall (P : Type) (truthy : P -> bool) (toR : P -> R) (toN : P -> nat)
  (other : kind -> P -> mat -> mat) (dM : mat) (msub madd : mat -> mat -> mat) (n : nat) (sp : list (kind * @zspec P))
  (E : env (M := mat)) (i0 : init (M := mat)) (fixed : list nat) (n_outer n_inner : nat) (zero : mat) (fs : list mat) (m : nat),
  constrained_cp dM (op_c12 toR toN other) (zvalidate truthy n sp) msub madd E n i0 fixed n_outer n_inner zero = Ok fs ->
  m < length fs -> init_computed i0 = true \/ (In m (modes_list n fixed) /\ 0 < n_outer /\ 0 < n_inner) ->
  forall (s : @zspec P) (p : P), In (KHardSparsity, s) sp -> zrequested truthy n s m p ->
  forall c, In c (cols_of Rops (nth m fs dM)) -> nnzR c <= toN p.
Proof. exact @cp_hard_sparsity_columns. Qed.
Print Assumptions C11_hard_sparsity_columnwise.

(* the hypothesis of C11_returned_factor_feasible_partial, PROVED for the operators of op_c12: feas_c12 k p is the constraint set
   of kind k (non_negative: entries >= 0; unimodality / monotonicity: rectangular transpose of unimodal / non-decreasing columns;
   simplex / soft_sparsity with parameter > 0: columns >= 0 summing to p / of l1 norm <= p; hard_sparsity: <= k non-zeros in the
   factor and in every column; `True` for normalize, normalized_sparsity and the four penalty kinds) *)
Theorem C11_operators_feasible : forall (P : Type) (toR : P -> R) (toN : P -> nat) (other : kind -> P -> mat -> mat)
  (k : kind) (p : P) (v : mat), feas_c12 toR toN k p (op_c12 toR toN other k p v).
Proof. exact @op_c12_feasible. Qed.
Print Assumptions C11_operators_feasible.

(* ... hence, with no hypothesis on the operators left: every request, kind, mode, budget, environment, initialisation *)
Theorem C11_returned_factor_feasible : forall (P : Type) (truthy : P -> bool) (toR : P -> R) (toN : P -> nat)
  (other : kind -> P -> mat -> mat) (dM : mat) (msub madd : mat -> mat -> mat) (n : nat) (sp : list (kind * @zspec P))
  (E : env (M := mat)) (i0 : init (M := mat)) (fixed : list nat) (n_outer n_inner : nat) (zero : mat) (fs : list mat) (m : nat),
  constrained_cp dM (op_c12 toR toN other) (zvalidate truthy n sp) msub madd E n i0 fixed n_outer n_inner zero = Ok fs ->
  m < length fs -> init_computed i0 = true \/ (In m (modes_list n fixed) /\ 0 < n_outer /\ 0 < n_inner) ->
  forall (k : kind) (s : @zspec P) (p : P), In (k, s) sp -> zrequested truthy n s m p ->
  feas_c12 toR toN k p (nth m fs dM).
Proof. exact @cp_feasible. Qed.
Print Assumptions C11_returned_factor_feasible.

(* the dispatch of proximal_operator as regenerated from the Python source on every run (a list of (kind, returned expression),
   Model/ConstraintsOps.v; corr:C11-static decides `dispatch_ok` on the table extracted from the current source): every accepted
   table denotes, kind by kind, exactly the operator family op_c12 of the theorems above (norm2 = sqrt of the sum of squares) ... *)
Theorem C11_dispatch_table_sound : forall (P : Type) (toR : P -> R) (toN : P -> nat) (other : kind -> P -> mat -> mat)
  (tbl : list (kind * dop)), dispatch_ok tbl = true ->
  forall k, exists f, op_of_table Rops norm2 toR toN other tbl k = Some f /\ forall p x, f p x = op_c12 toR toN other k p x.
Proof. exact @dispatch_table_sound. Qed.
Print Assumptions C11_dispatch_table_sound.

(* ... and therefore maps into the constraint set of every kind *)
Theorem C11_dispatch_table_feasible : forall (P : Type) (toR : P -> R) (toN : P -> nat) (other : kind -> P -> mat -> mat)
  (tbl : list (kind * dop)), dispatch_ok tbl = true ->
  forall k f, op_of_table Rops norm2 toR toN other tbl k = Some f -> forall p x, feas_c12 toR toN k p (f p x).
Proof. exact @dispatch_table_feasible. Qed.
Print Assumptions C11_dispatch_table_feasible.

(* non-vacuity: the table of the current code is accepted; passing decreasing=True to monotonicity_prox, dropping a branch, dropping
   the parameter of simplex_prox or calling another operator for simplex is not *)
Example C11_dispatch_examples :
  dispatch_ok dispatch_as_coded = true /\
  dispatch_ok (map (fun e => if kind_eqb (fst e) KMonotone then (KMonotone, DCall FMonotonicityProx [ATensor; AKwDecreasing true]) else e) dispatch_as_coded) = false /\
  dispatch_ok (tl dispatch_as_coded) = false /\
  dispatch_ok (map (fun e => if kind_eqb (fst e) KSimplex then (KSimplex, DCall FSimplexProx [ATensor]) else e) dispatch_as_coded) = false /\
  dispatch_ok (map (fun e => if kind_eqb (fst e) KSimplex then (KSimplex, DCall FSoftSparsityProx [ATensor; AParam]) else e) dispatch_as_coded) = false.
Proof. exact dispatch_examples. Qed.

(* max-normalisation: max |entry| of the factor = 1 (the code normalises the whole factor) whenever the operator's input v is
   a matrix proper (rect: every row as long as the first) and not zero (otherwise the code computes 0/0).
   _partial: the side conditions are on the operator's unknown input *)
Theorem C11_normalize_end_to_end_partial : forall (P : Type) (truthy : P -> bool) (toR : P -> R) (toN : P -> nat)
  (other : kind -> P -> mat -> mat) (dM : mat) (msub madd : mat -> mat -> mat) (n : nat) (sp : list (kind * @zspec P))
  (E : env (M := mat)) (i0 : init (M := mat)) (fixed : list nat) (n_outer n_inner : nat) (zero : mat) (fs : list mat) (m : nat),
  constrained_cp dM (op_c12 toR toN other) (zvalidate truthy n sp) msub madd E n i0 fixed n_outer n_inner zero = Ok fs ->
  m < length fs -> init_computed i0 = true \/ (In m (modes_list n fixed) /\ 0 < n_outer /\ 0 < n_inner) ->
  forall (s : @zspec P) (p : P), In (KNormalize, s) sp -> zrequested truthy n s m p ->
  exists v : mat, nth m fs dM = op_c12 toR toN other KNormalize p v /\
    (rect v -> (0 < maxabs Rops (concat v))%R -> maxabs Rops (concat (nth m fs dM)) = 1%R).
Proof. exact @cp_normalize_rect. Qed.
Print Assumptions C11_normalize_end_to_end_partial.

(* normalised sparsity: the factor is the operator's output on some v; whenever v is a matrix proper and its kept part is not zero
   (otherwise the code divides 0 by 0): unit l2 norm, at most k non-zeros in the factor and in every column.
   _partial: the two side conditions are on the operator's unknown input *)
Theorem C11_normalized_sparsity_end_to_end_partial : forall (P : Type) (truthy : P -> bool) (toR : P -> R) (toN : P -> nat)
  (other : kind -> P -> mat -> mat) (dM : mat) (msub madd : mat -> mat -> mat) (n : nat) (sp : list (kind * @zspec P))
  (E : env (M := mat)) (i0 : init (M := mat)) (fixed : list nat) (n_outer n_inner : nat) (zero : mat) (fs : list mat) (m : nat),
  constrained_cp dM (op_c12 toR toN other) (zvalidate truthy n sp) msub madd E n i0 fixed n_outer n_inner zero = Ok fs ->
  m < length fs -> init_computed i0 = true \/ (In m (modes_list n fixed) /\ 0 < n_outer /\ 0 < n_inner) ->
  forall (s : @zspec P) (p : P), In (KNormSparsity, s) sp -> zrequested truthy n s m p ->
  exists v : mat, nth m fs dM = op_c12 toR toN other KNormSparsity p v /\
    (rect v -> sumsq Rops (hard_thresholding Rops (toN p) (concat v)) <> 0%R ->
     sumsq Rops (concat (nth m fs dM)) = 1%R /\ nnzR (concat (nth m fs dM)) <= toN p /\
     forall c, In c (cols_of Rops (nth m fs dM)) -> nnzR c <= toN p).
Proof. exact @cp_normalized_sparsity_rect. Qed.
Print Assumptions C11_normalized_sparsity_end_to_end_partial.

(* THE EXACT CLASS of the two `_partial` theorems (round 8): their side conditions cannot be weakened.  On a matrix proper the output of
   max-normalisation has max |entry| = 1 IF AND ONLY IF the input is not zero, the output of normalised sparsity has unit l2 norm IF AND
   ONLY IF the kept part of the input is not zero; on the complementary class the real-arithmetic model returns the zero matrix (the code:
   0/0 = NaN) - so these two kinds leave their constraint set on exactly the input class of the known finding
   zero_operator_input_divides_0_by_0 and nowhere else. *)
Theorem C11_normalize_feasible_iff_input_nonzero : forall (P : Type) (toR : P -> R) (toN : P -> nat) (other : kind -> P -> mat -> mat) (p : P) (x : mat),
  rect x ->
  (maxabs Rops (concat (op_c12 toR toN other KNormalize p x)) = 1%R <-> (0 < maxabs Rops (concat x))%R) /\
  (maxabs Rops (concat x) = 0%R -> all_zero (concat (op_c12 toR toN other KNormalize p x))).
Proof. exact @op_normalize_exact. Qed.
Print Assumptions C11_normalize_feasible_iff_input_nonzero.

Theorem C11_normalized_sparsity_feasible_iff_kept_part_nonzero : forall (P : Type) (toR : P -> R) (toN : P -> nat) (other : kind -> P -> mat -> mat)
  (p : P) (x : mat),
  rect x ->
  (sumsq Rops (concat (op_c12 toR toN other KNormSparsity p x)) = 1%R <-> sumsq Rops (hard_thresholding Rops (toN p) (concat x)) <> 0%R) /\
  (sumsq Rops (hard_thresholding Rops (toN p) (concat x)) = 0%R -> all_zero (concat (op_c12 toR toN other KNormSparsity p x))).
Proof. exact @op_normalized_sparsity_exact. Qed.
Print Assumptions C11_normalized_sparsity_feasible_iff_kept_part_nonzero.

(* ... and end to end: the factor returned for a mode with the request is the operator's output on some v, and (v a matrix proper) it lies
   in the constraint set IF AND ONLY IF v (its kept part) is not zero *)
Theorem C11_normalize_end_to_end_exact : forall (P : Type) (truthy : P -> bool) (toR : P -> R) (toN : P -> nat)
  (other : kind -> P -> mat -> mat) (dM : mat) (msub madd : mat -> mat -> mat) (n : nat) (sp : list (kind * @zspec P))
  (E : env (M := mat)) (i0 : init (M := mat)) (fixed : list nat) (n_outer n_inner : nat) (zero : mat) (fs : list mat) (m : nat)
  (s : @zspec P) (p : P),
  constrained_cp dM (op_c12 toR toN other) (zvalidate truthy n sp) msub madd E n i0 fixed n_outer n_inner zero = Ok fs ->
  m < length fs -> init_computed i0 = true \/ (In m (modes_list n fixed) /\ 0 < n_outer /\ 0 < n_inner) ->
  In (KNormalize, s) sp -> zrequested truthy n s m p ->
  exists v : mat, nth m fs dM = op_c12 toR toN other KNormalize p v /\
    (rect v -> (maxabs Rops (concat (nth m fs dM)) = 1%R <-> (0 < maxabs Rops (concat v))%R)).
Proof. exact @cp_normalize_exact. Qed.
Print Assumptions C11_normalize_end_to_end_exact.

Theorem C11_normalized_sparsity_end_to_end_exact : forall (P : Type) (truthy : P -> bool) (toR : P -> R) (toN : P -> nat)
  (other : kind -> P -> mat -> mat) (dM : mat) (msub madd : mat -> mat -> mat) (n : nat) (sp : list (kind * @zspec P))
  (E : env (M := mat)) (i0 : init (M := mat)) (fixed : list nat) (n_outer n_inner : nat) (zero : mat) (fs : list mat) (m : nat)
  (s : @zspec P) (p : P),
  constrained_cp dM (op_c12 toR toN other) (zvalidate truthy n sp) msub madd E n i0 fixed n_outer n_inner zero = Ok fs ->
  m < length fs -> init_computed i0 = true \/ (In m (modes_list n fixed) /\ 0 < n_outer /\ 0 < n_inner) ->
  In (KNormSparsity, s) sp -> zrequested truthy n s m p ->
  exists v : mat, nth m fs dM = op_c12 toR toN other KNormSparsity p v /\
    (rect v -> (sumsq Rops (concat (nth m fs dM)) = 1%R <-> sumsq Rops (hard_thresholding Rops (toN p) (concat v)) <> 0%R)).
Proof. exact @cp_normalized_sparsity_exact. Qed.
Print Assumptions C11_normalized_sparsity_end_to_end_exact.

(* both sides of the two equivalences occur: a non-zero 1 x 1 input is a matrix proper with positive max |entry| / non-zero kept part,
   the zero input is a matrix proper with neither *)
Example C11_exact_class_nonvacuous :
  rect [[1%R]] /\ (0 < maxabs Rops (concat [[1%R]]))%R /\ sumsq Rops (hard_thresholding Rops 1 (concat [[1%R]])) <> 0%R /\
  rect [[0%R]] /\ maxabs Rops (concat [[0%R]]) = 0%R /\ sumsq Rops (hard_thresholding Rops 0 (concat [[1%R]])) = 0%R.
Proof. exact exact_class_nonvacuous. Qed.

(* ---------------------------------------------------------------------------------------------------------------------------------
   GENUINE DEFECTS of the property (round 6).  (1) max-normalisation and normalised sparsity divide 0 by 0 when the operator's input has a
   zero kept part; that input class is reachable from the decomposition: (i) / (ii) the zero tensor with init='svd' (the raw factor of mode 0
   is zero), (iii) normalized_sparsity={0: 0} on any data.  The run succeeds and the factor returned for mode 0 is NOT in the constraint set
   (the real-arithmetic model returns the zero matrix, the code NaN).  The restricted statements that hold are the two `_partial` theorems
   above.  Candidate repair: build/fix_candidates/C11_zero_input_normalisation.{diff,md}. *)
Theorem C11_zero_operator_input_refuted : forall (other : kind -> nat -> mat -> mat) (E : env (M := mat)) (msub madd : mat -> mat -> mat)
  (A : mat) (a b c d : R),
  let run := fun sp raw => constrained_cp [] (op_c12 INR (fun p => p) other) (zvalidate nat_truthy 3 sp) msub madd E 3 (IComputed raw) [] 0 1 [] in
  (exists fs, run (zkeywords (fun k => match k with KNormalize => ZScalar 1 | _ => ZNone end)) [Z22; A; A] = Ok fs /\
              maxabs Rops (concat (nth 0 fs [])) <> 1%R) /\
  (exists fs, run (zkeywords (fun k => match k with KNormSparsity => ZScalar 2 | _ => ZNone end)) [Z22; A; A] = Ok fs /\
              sumsq Rops (concat (nth 0 fs [])) <> 1%R) /\
  (exists fs, run (zkeywords (fun k => match k with KNormSparsity => ZDict [(0%Z, 0)] | _ => ZNone end)) [[[a; b]; [c; d]]; A; A] = Ok fs /\
              sumsq Rops (concat (nth 0 fs [])) <> 1%R).
Proof. exact cp_zero_input_refuted. Qed.
Print Assumptions C11_zero_operator_input_refuted.

(* (2) simplex / l1 ball with parameter 0 (reachable through a dict, which registers falsy values): the count of entries above their
   threshold is 0 and the Python index count - 1 wraps around; [3; 1] is mapped to [1; 0], [-3; 1] to [-1; 0], although the simplex of sum 0
   and the l1 ball of radius 0 are {0}.  Witness on C12's model of the coded algorithm at exact rationals; the statements that hold are
   C11_simplex_end_to_end / C11_soft_sparsity_end_to_end (parameter > 0).  Candidate repair: build/fix_candidates/C11_simplex_nonpositive_parameter.{diff,md}. *)
Theorem C11_nonpositive_simplex_parameter_refuted :
  simplex_prox Qops 0%Q [3; 1]%Q = [1; 0]%Q /\ simplex_count Qops (sort_desc Qops [3; 1]%Q) (simplex_thr Qops 0%Q (sort_desc Qops [3; 1]%Q)) = 0 /\
  soft_sparsity_prox Qops 0%Q [-3; 1]%Q = [-1; 0]%Q /\
  ~ (lsum Qops (simplex_prox Qops 0%Q [3; 1]%Q) == 0)%Q /\ ~ (l1n Qops (soft_sparsity_prox Qops 0%Q [-3; 1]%Q) <= 0)%Q.
Proof. exact nonpositive_simplex_refuted. Qed.
Print Assumptions C11_nonpositive_simplex_parameter_refuted.

(* a negative simplex / l1-ball parameter asks for an EMPTY constraint set: whatever is returned for such a request is infeasible
   (the code serves it silently in every form - a negative number is truthy; candidate repair: ValueError) *)
Theorem C11_negative_parameter_empty_set : forall p : R, (p < 0)%R ->
  (forall z, ~ (l1n Rops z <= p)%R) /\ (forall z, ~ (Forall (fun a : R => (0 <= a)%R) z /\ lsum Rops z = p)).
Proof. exact negative_parameter_empty_set. Qed.
Print Assumptions C11_negative_parameter_empty_set.

(* ---------------------------------------------------------------------------------------------------------------------------------
   The outer stopping rule AS WRITTEN (Model/ConstraintsStop.v: nothing is decided at iteration 0 or with a falsy tol_outer; the constraint
   error is looked at first; cvg_criterion 'abs_rec_error' / 'rec_error' / anything else -> TypeError) instead of an arbitrary boolean:
   every successful run of constrained_cp_c IS a run of constrained_cp (environment with_stop E S), whatever the criterion - so every
   theorem above of the form "constrained_cp ... = Ok fs -> ..." holds of it ... *)
Theorem C11_coded_stopping_rule_is_a_skeleton_run : forall (P M : Type) (dM : M) (op : kind -> P -> M -> M)
  (val : nat -> res (option (kind * P))) (msub madd : M -> M -> M) (E : env (M := M)) (S : stop_env (M := M)) (n : nat)
  (i0 : init (M := M)) (fixed : list nat) (n_outer n_inner : nat) (zero : M) (fs : list M),
  constrained_cp_c dM op val msub madd E S n i0 fixed n_outer n_inner zero = Ok fs ->
  constrained_cp dM op val msub madd (with_stop E S) n i0 fixed n_outer n_inner zero = Ok fs.
Proof. exact @cp_c_ok. Qed.
Print Assumptions C11_coded_stopping_rule_is_a_skeleton_run.

(* ... with a documented criterion the two coincide (no additional raise) ... *)
Theorem C11_known_criterion_never_raises : forall (P M : Type) (dM : M) (op : kind -> P -> M -> M)
  (val : nat -> res (option (kind * P))) (msub madd : M -> M -> M) (E : env (M := M)) (S : stop_env (M := M)) (n : nat)
  (i0 : init (M := M)) (fixed : list nat) (n_outer n_inner : nat) (zero : M),
  s_crit S <> CrUnknown ->
  constrained_cp_c dM op val msub madd E S n i0 fixed n_outer n_inner zero =
  constrained_cp dM op val msub madd (with_stop E S) n i0 fixed n_outer n_inner zero.
Proof. exact @cp_c_known. Qed.
Print Assumptions C11_known_criterion_never_raises.

(* ... and an unknown criterion raises (TypeError; not a validation error) exactly when it is reached: truthy tol_outer, two sweeps done,
   constraint error not below the tolerance; never at iteration 0, with a falsy tol_outer, or when the constraint error is small *)
Theorem C11_unknown_criterion_raises : forall (P M : Type) (dM : M) (op : kind -> P -> M -> M)
  (val : nat -> res (option (kind * P))) (msub madd : M -> M -> M) (E : env (M := M)) (S : stop_env (M := M)) (n inner : nat)
  (modes : list nat) (f : nat) (st st1 st2 : list M * list M),
  s_crit S = CrUnknown -> s_tol S = true ->
  sweep dM op val msub madd E inner 0 st modes = Ok st1 -> err_defined E n modes (fst st1) = true ->
  sweep dM op val msub madd E inner 1 st1 modes = Ok st2 -> err_defined E n modes (fst st2) = true ->
  s_cerr S 1 (fst st2) (snd st2) = false ->
  outer_loop_c dM op val msub madd E S n inner (Datatypes.S (Datatypes.S f)) 0 modes st = Err.
Proof. exact @unknown_criterion_raises. Qed.
Print Assumptions C11_unknown_criterion_raises.

Theorem C11_stop_rule_skips_criterion : forall (c : crit) (it : nat) (cerr a b : bool),
  (it = 0 -> stop_rule true c it cerr a b = Ok false) /\ stop_rule false c it cerr a b = Ok false /\
  (1 <= it -> stop_rule true c it true a b = Ok true).
Proof. exact stop_rule_skips_criterion. Qed.
Print Assumptions C11_stop_rule_skips_criterion.

(* non-vacuity on tags: an unknown criterion with three sweeps raises; with one sweep, a falsy tol_outer or a small constraint error it
   returns like a documented one *)
(* the three comparisons as NUMBERS (Model/ConstraintsStop.v stop_env_num, here at the reals; an instance of stop_env, so every theorem
   above holds of it): tol = tol_outer, cerr it = constraint_error after sweep it, err it = rec_errors[it] (arbitrary sequences).  The loop
   stops after sweep `it` IFF tol_outer is non-zero (`if tol_outer:` - a negative tolerance is truthy), it >= 1, and the constraint error
   is below the tolerance or else the criterion in force holds of rec_errors[-2] - rec_errors[-1]; it raises IFF tol_outer is non-zero,
   it >= 1, the constraint error is not below the tolerance and the criterion is unknown.  Correspondence: Corr.C11 CStopNum executes
   this rule at exact rationals on the sequences recorded in real runs and compares the number of sweeps. *)
Theorem C11_stop_rule_numeric : forall (M : Type) (tol : R) (c : crit) (cerr err : nat -> R) (it : nat) (fs du : list M),
  (stop_at (stop_env_num Rops tol c cerr err) it fs du = Ok true <->
   tol <> 0%R /\ 1 <= it /\
   ((cerr it < tol)%R \/ ((cerr it >= tol)%R /\
      ((c = CrAbsRecError /\ (Rabs (err (it - 1)%nat - err it) < tol)%R) \/ (c = CrRecError /\ (err (it - 1)%nat - err it < tol)%R))))) /\
  (stop_at (stop_env_num Rops tol c cerr err) it fs du = Err <-> tol <> 0%R /\ 1 <= it /\ (tol <= cerr it)%R /\ c = CrUnknown).
Proof. intros; split; [apply stop_num_true | apply stop_num_err]. Qed.
Print Assumptions C11_stop_rule_numeric.

(* two consequences of the rule as coded (behaviour worth knowing, not defects of C11): with 'rec_error' and a positive tolerance a sweep
   that does not decrease the reconstruction error ends the loop; with a negative tolerance 'abs_rec_error' never ends it *)
Theorem C11_stop_rule_numeric_consequences : forall (M : Type) (tol : R) (c : crit) (cerr err : nat -> R) (it : nat) (fs du : list M),
  (c = CrRecError -> (0 < tol)%R -> 1 <= it -> (err (it - 1)%nat <= err it)%R -> stop_at (stop_env_num Rops tol c cerr err) it fs du = Ok true) /\
  (c = CrAbsRecError -> (tol < 0)%R -> (0 <= cerr it)%R -> stop_at (stop_env_num Rops tol c cerr err) it fs du = Ok false).
Proof. intros; split; [apply rec_error_stops_on_increase | apply negative_tolerance_never_stops_abs]. Qed.
Print Assumptions C11_stop_rule_numeric_consequences.

Example C11_stopping_rule_examples :
  let truthy := fun p : nat => negb (Nat.eqb p 0) in
  let sp := zkeywords (fun k => match k with KNonNeg => ZScalar 1 | _ => ZNone end) in
  let E := mkEnv (fun _ _ _ _ => 0) (fun _ _ _ _ _ _ => false) (fun _ _ _ => false) (fun _ _ => true) in
  let S := fun tol c ce => mkStop tol c (fun _ _ _ => ce) (fun _ _ _ => false) (fun _ _ _ => false) in
  let run := fun tol c ce n_outer => constrained_cp_c 0 (fun _ p _ => 100 + p) (zvalidate truthy 3 sp) (fun _ _ => 0) (fun _ _ => 0) E (S tol c ce) 3
                                                      (IUser [7; 8; 9]) [] n_outer 1 0 in
  run true CrUnknown false 3 = Err /\ run true CrUnknown false 1 = Ok [101; 101; 101] /\ run false CrUnknown false 3 = Ok [101; 101; 101] /\
  run true CrUnknown true 3 = Ok [101; 101; 101] /\ run true CrRecError false 3 = Ok [101; 101; 101].
Proof. repeat split; vm_compute; reflexivity. Qed.

(* ---------------------------------------------------------------------------------------------------------------------------------
   The class API: ConstrainedCP(...) stores its arguments, fit_transform(tensor) calls constrained_parafac with them (each under its own
   name: corr:C11-static) and returns the decomposition it also keeps as `decomposition_`.  With the coded stopping rule: *)
Theorem C11_fit_transform_feasible : forall (P : Type) (truthy : P -> bool) (toR : P -> R) (toN : P -> nat)
  (other : kind -> P -> mat -> mat) (dM : mat) (msub madd : mat -> mat -> mat) (self : cp_object (P := P) (M := mat))
  (E : env (M := mat)) (n : nat) (zero : mat) (fs : list mat) (m : nat) (k : kind) (p : P),
  fit_transform truthy dM (op_c12 toR toN other) msub madd self E n zero = Ok fs ->
  m < length fs -> init_computed (o_init self) = true \/ (In m (modes_list n (o_fixed self)) /\ 0 < o_outer self /\ 0 < o_inner self) ->
  zrequested truthy n (o_specs self k) m p -> feas_c12 toR toN k p (nth m fs dM).
Proof. exact @fit_transform_feasible. Qed.
Print Assumptions C11_fit_transform_feasible.

Theorem C11_fit_transform_rejects_double : forall (P : Type) (truthy : P -> bool) (toR : P -> R) (toN : P -> nat)
  (other : kind -> P -> mat -> mat) (dM : mat) (msub madd : mat -> mat -> mat) (self : cp_object (P := P) (M := mat))
  (E : env (M := mat)) (n : nat) (zero : mat),
  zvalidate_table truthy n (zkeywords (o_specs self)) = Err ->
  fit_transform truthy dM (op_c12 toR toN other) msub madd self E n zero = Err.
Proof. exact @fit_transform_rejects. Qed.
Print Assumptions C11_fit_transform_rejects_double.

(* the `n_const is None` branches of proximal_operator / admm (never taken by constrained_parafac, which passes n_const = ndim(tensor):
   corr:C11-static): the keywords are not looked at - the tensor comes back unchanged, admm returns the unconstrained least-squares
   solution, and even two constraints on one mode are not rejected; with n_const = Some n the definitions are the model's *)
Theorem C11_n_const_none_ignores_request : forall (P M : Type) (truthy : P -> bool) (op : kind -> P -> M -> M) (msub madd : M -> M -> M)
  (sp : list (kind * @zspec P)) (order n_iter : nat) (split : M -> M -> M) (conv : nat -> M -> M -> M -> bool) (ls x dual : M),
  proximal_operator_nc truthy op None sp order x = Ok x /\
  (0 < n_iter -> admm_nc truthy op msub madd None sp order n_iter split conv ls x dual = Ok (ls, split x dual, dual)) /\
  (forall nc, admm_nc truthy op msub madd nc sp order 0 split conv ls x dual = Ok (x, x, dual)).
Proof. exact @n_const_none_ignores_request. Qed.
Print Assumptions C11_n_const_none_ignores_request.

Theorem C11_n_const_some_is_the_model : forall (P M : Type) (truthy : P -> bool) (op : kind -> P -> M -> M) (msub madd : M -> M -> M)
  (n : nat) (sp : list (kind * @zspec P)) (order n_iter : nat) (split : M -> M -> M) (conv : nat -> M -> M -> M -> bool) (ls x dual : M),
  proximal_operator_nc truthy op (Some n) sp order x = proximal_operator op (zvalidate truthy n sp) order x /\
  admm_nc truthy op msub madd (Some n) sp order n_iter split conv ls x dual =
  admm msub madd n_iter split conv (proximal_operator op (zvalidate truthy n sp) order) x dual.
Proof. exact @n_const_some_is_the_model. Qed.
Print Assumptions C11_n_const_some_is_the_model.

(* admm's own `order` parameter left at its default None (Model/ConstraintsNc.v admm_py; since fix a5b9e5b the code starts with
   `if order is None: order = 0`): the call is the call with order = 0 - with n_const = n the returned primal variable is the output of
   the operator validate_constraints selects for MODE 0 (the identity if mode 0 is unconstrained; inner budget >= 1), a request that
   validate_constraints rejects is rejected; proximal_operator with an explicit order=None raises when a number of constraints is given
   and returns its input when n_const is None.  constrained_parafac always passes the loop variable (corr:C11-static). *)
Theorem C11_admm_order_none_is_mode_0 : forall (P M : Type) (truthy : P -> bool) (op : kind -> P -> M -> M) (msub madd : M -> M -> M)
  (nc : option nat) (sp : list (kind * @zspec P)) (n_iter : nat) (split : M -> M -> M) (conv : nat -> M -> M -> M -> bool) (ls x dual : M),
  admm_py truthy op msub madd nc sp None n_iter split conv ls x dual = admm_py truthy op msub madd nc sp (Some 0) n_iter split conv ls x dual.
Proof. exact @admm_order_none_is_mode_0. Qed.
Print Assumptions C11_admm_order_none_is_mode_0.

Theorem C11_admm_order_none_applies_mode_0 : forall (P M : Type) (truthy : P -> bool) (op : kind -> P -> M -> M) (msub madd : M -> M -> M)
  (n : nat) (sp : list (kind * @zspec P)) (n_iter : nat) (split : M -> M -> M) (conv : nat -> M -> M -> M -> bool) (ls x dual x' s d' : M),
  admm_py truthy op msub madd (Some n) sp None n_iter split conv ls x dual = Ok (x', s, d') ->
  (0 < n_iter -> exists c v, zvalidate truthy n sp 0 = Ok c /\ x' = prox_of op c v) /\ (n_iter = 0 -> x' = x /\ s = x /\ d' = dual).
Proof. exact @admm_order_none_applies_mode_0. Qed.
Print Assumptions C11_admm_order_none_applies_mode_0.

Theorem C11_admm_order_none_rejects : forall (P M : Type) (truthy : P -> bool) (op : kind -> P -> M -> M) (msub madd : M -> M -> M)
  (n : nat) (sp : list (kind * @zspec P)) (n_iter : nat) (split : M -> M -> M) (conv : nat -> M -> M -> M -> bool) (ls x dual : M),
  zvalidate truthy n sp 0 = Err -> 0 < n_iter ->
  admm_py truthy op msub madd (Some n) sp None n_iter split conv ls x dual = Err.
Proof. exact @admm_order_none_rejects. Qed.
Print Assumptions C11_admm_order_none_rejects.

Theorem C11_proximal_operator_order_none : forall (P M : Type) (truthy : P -> bool) (op : kind -> P -> M -> M)
  (n : nat) (sp : list (kind * @zspec P)) (x : M),
  proximal_operator_py truthy op (Some n) sp None x = Err /\ proximal_operator_py truthy op None sp None x = Ok x /\
  forall o, proximal_operator_py truthy op (Some n) sp (Some o) x = proximal_operator_nc truthy op (Some n) sp o x.
Proof. exact @proximal_operator_order_none. Qed.
Print Assumptions C11_proximal_operator_order_none.

(* requests with two constraints on one mode are rejected by the decomposition, whatever the rest *)
Theorem C11_decomposition_rejects_double : forall (P : Type) (truthy : P -> bool) (M : Type) (dM : M)
  (op : kind -> P -> M -> M) (msub madd : M -> M -> M) (n : nat) (sp : list (kind * @zspec P)) (E : env (M := M))
  (i0 : init (M := M)) (fixed : list nat) (n_outer n_inner : nat) (zero : M),
  zwf_specs sp -> zdouble truthy n sp \/ zself_alias n sp \/ zno_mode truthy n sp ->
  constrained_cp dM op (zvalidate truthy n sp) msub madd E n i0 fixed n_outer n_inner zero = Err.
Proof. exact @zcp_rejects. Qed.
Print Assumptions C11_decomposition_rejects_double.

Theorem C11_success_implies_no_double : forall (P : Type) (truthy : P -> bool) (M : Type) (dM : M)
  (op : kind -> P -> M -> M) (msub madd : M -> M -> M) (n : nat) (sp : list (kind * @zspec P)) (E : env (M := M))
  (i0 : init (M := M)) (fixed : list nat) (n_outer n_inner : nat) (zero : M) (fs : list M),
  zwf_specs sp ->
  constrained_cp dM op (zvalidate truthy n sp) msub madd E n i0 fixed n_outer n_inner zero = Ok fs ->
  ~ zdouble truthy n sp /\ ~ zself_alias n sp /\ ~ zno_mode truthy n sp.
Proof. exact @zcp_ok_no_double. Qed.
Print Assumptions C11_success_implies_no_double.

(* conversely a request that validate_constraints accepts is not rejected by the decomposition when: order >= 1, exactly n initial
   factors (every inner budget: 0 returns the initialisation since fix fe4edf7), and - unless the outer budget is 0 - the last mode is updated (C11_last_mode_updated: always
   when fixed_modes has no repeated entry), whatever the environment ... *)
Theorem C11_valid_request_returns : forall (P : Type) (truthy : P -> bool) (M : Type) (dM : M)
  (op : kind -> P -> M -> M) (msub madd : M -> M -> M) (n : nat) (sp : list (kind * @zspec P)) (tab : @table P)
  (E : env (M := M)) (i0 : init (M := M)) (fixed : list nat) (n_outer n_inner : nat) (zero : M),
  zvalidate_table truthy n sp = Ok tab -> 0 < n -> length (init_factors i0) = n ->
  n_outer = 0 \/ In (n - 1) (modes_list n fixed) ->
  exists fs, constrained_cp dM op (zvalidate truthy n sp) msub madd E n i0 fixed n_outer n_inner zero = Ok fs.
Proof. exact @zcp_valid_request_returns. Qed.
Print Assumptions C11_valid_request_returns.

(* ... so, under these side conditions, the decomposition raises exactly on the requests that put two constraints on one mode /
   address no existing mode.  The raises OUTSIDE the side conditions are not validation errors (next three theorems). *)
Theorem C11_decomposition_rejects_iff : forall (P : Type) (truthy : P -> bool) (M : Type) (dM : M)
  (op : kind -> P -> M -> M) (msub madd : M -> M -> M) (n : nat) (sp : list (kind * @zspec P)) (E : env (M := M))
  (i0 : init (M := M)) (fixed : list nat) (n_outer n_inner : nat) (zero : M),
  zwf_specs sp -> 0 < n -> length (init_factors i0) = n -> n_outer = 0 \/ In (n - 1) (modes_list n fixed) ->
  (constrained_cp dM op (zvalidate truthy n sp) msub madd E n i0 fixed n_outer n_inner zero = Err <->
   zdouble truthy n sp \/ zself_alias n sp \/ zno_mode truthy n sp).
Proof. exact @zcp_err_iff. Qed.
Print Assumptions C11_decomposition_rejects_iff.

Theorem C11_last_mode_updated : forall (n : nat) (fixed : list nat),
  NoDup fixed -> 0 < n -> In (n - 1) (modes_list n fixed).
Proof. exact @modes_list_has_last. Qed.
Print Assumptions C11_last_mode_updated.

(* fixed_modes lists the last mode twice and every other mode (e.g. [0;1;2;2] on order 3): `remove` drops one occurrence, no
   mode is updated and the error computation reads an unbound `mttkrp` - the code raises UnboundLocalError, whatever the request *)
Theorem C11_no_mode_updated_raises : forall (P M : Type) (dM : M) (op : kind -> P -> M -> M) (msub madd : M -> M -> M)
  (val : nat -> res (option (kind * P))) (n : nat) (E : env (M := M)) (i0 : init (M := M)) (fixed : list nat)
  (n_outer n_inner : nat) (zero : M),
  modes_list n fixed = [] -> 0 < n_outer ->
  constrained_cp dM op val msub madd E n i0 fixed n_outer n_inner zero = Err.
Proof. exact @cp_no_mode_updated. Qed.
Print Assumptions C11_no_mode_updated_raises.

(* a user CP tensor whose number of factors is not the order raises as soon as a sweep is executed (shapes not aligned) *)
Theorem C11_wrong_factor_count_raises : forall (P M : Type) (dM : M) (op : kind -> P -> M -> M) (msub madd : M -> M -> M)
  (val : nat -> res (option (kind * P))) (n : nat) (E : env (M := M)) (ufs : list M) (fixed : list nat)
  (n_outer n_inner : nat) (zero : M),
  length ufs <> n -> 0 < n_outer ->
  constrained_cp dM op val msub madd E n (IUser ufs) fixed n_outer n_inner zero = Err.
Proof. exact @cp_wrong_factor_count. Qed.
Print Assumptions C11_wrong_factor_count_raises.

(* modes that are updated: every mode not listed as fixed (the last one is never fixed) *)
Theorem C11_free_modes_updated : forall (n : nat) (fixed : list nat) (m : nat),
  m < n -> ~ In m fixed -> In m (modes_list n fixed).
Proof. exact @modes_list_free. Qed.
Print Assumptions C11_free_modes_updated.

Theorem C11_fixed_modes_kept : forall (n : nat) (fixed : list nat) (m : nat),
  In m fixed -> m <> n - 1 -> ~ In m (modes_list n fixed).
Proof. exact @modes_list_fixed. Qed.
Print Assumptions C11_fixed_modes_kept.

(* non-vacuity: parameters are naturals (0 is falsy); non_negative by list on mode 0, l1_reg by dict on mode 2 (key -1),
   order 3: accepted, table as requested; adding simplex as a scalar: rejected *)
Example C11_nonvacuous_table :
  let truthy := fun p : nat => negb (Nat.eqb p 0) in
  let f := fun k => match k with
                    | KNonNeg => ZList [Some 1; None; Some 0]
                    | KL1 => ZDict [((-1)%Z, 7)]
                    | _ => ZNone end in
  (forall k, zwf_spec (f k)) /\
  zvalidate_table truthy 3 (zkeywords f) = Ok [Some (KNonNeg, 1); None; Some (KL1, 7)] /\
  zrequested truthy 3 (f KL1) 2 7.
Proof.
  cbv zeta. split; [|split].
  - intros k; destruct k; simpl; auto. repeat constructor. simpl; tauto.
  - vm_compute. reflexivity.
  - simpl. exists (-1)%Z. split; [left; reflexivity|]. right. split; reflexivity.
Qed.

Example C11_nonvacuous_reject :
  let truthy := fun p : nat => negb (Nat.eqb p 0) in
  let f := fun k => match k with
                    | KNonNeg => ZList [Some 1; None; Some 0]
                    | KSimplex => ZScalar 3
                    | _ => ZNone end in
  (forall k, zwf_spec (f k)) /\ zvalidate_table truthy 3 (zkeywords f) = Err /\
  KNonNeg <> KSimplex /\ zrequested truthy 3 (f KNonNeg) 0 1 /\ zrequested truthy 3 (f KSimplex) 0 3.
Proof.
  cbv zeta. split; [|split; [|split; [|split]]].
  - intros k; destruct k; simpl; auto.
  - vm_compute. reflexivity.
  - discriminate.
  - simpl. repeat split; auto with arith.
  - simpl. repeat split; auto with arith.
Qed.

(* the request that slipped through before fix c019b1a: non_negative by key 2, l1_reg by key -1, order 3 - both address the
   last mode; also one dict naming a mode twice, and a key below -n *)
Example C11_negative_key_alias_rejected :
  let truthy := fun p : nat => negb (Nat.eqb p 0) in
  zvalidate_table truthy 3 (zkeywords (fun k => match k with KNonNeg => ZDict [(2%Z, 1)] | KL1 => ZDict [((-1)%Z, 7)] | _ => ZNone end)) = Err /\
  zvalidate_table truthy 3 (zkeywords (fun k => match k with KL1 => ZDict [(2%Z, 1); ((-1)%Z, 7)] | _ => ZNone end)) = Err /\
  zvalidate_table truthy 3 (zkeywords (fun k => match k with KL1 => ZDict [((-4)%Z, 7)] | _ => ZNone end)) = Err /\
  zvalidate_table truthy 3 (zkeywords (fun k => match k with KNonNeg => ZDict [(0%Z, 1)] | KL1 => ZDict [((-1)%Z, 7)] | _ => ZNone end))
  = Ok [Some (KNonNeg, 1); None; Some (KL1, 7)].
Proof. repeat split; vm_compute; reflexivity. Qed.

(* non-vacuity of the skeleton: the model runs (tags as factors) and succeeds with budgets (2, 1) *)
Example C11_nonvacuous_skeleton :
  let truthy := fun p : nat => negb (Nat.eqb p 0) in
  let sp := zkeywords (fun k => match k with KNonNeg => ZDict [(1%Z, 1)] | _ => ZNone end) in
  let E := mkEnv (fun _ _ _ _ => 0) (fun _ _ _ _ _ _ => false) (fun _ _ _ => false) (fun _ _ => true) in
  constrained_cp 0 (fun _ p _ => 100 + p) (zvalidate truthy 3 sp) (fun _ _ => 0) (fun _ _ => 0) E 3 (IUser [7; 8; 9]) [0] 2 1 0
  = Ok [7; 101; 0].
Proof. vm_compute. reflexivity. Qed.

(* non-vacuity of the end-to-end theorems: with the C12 operators a run exists from 2 x 2 real factors for non_negative on mode 0
   (by key -3), hard_sparsity = 2 on mode 1 (by list) and unimodality on mode 2 (by key 2), order 3, any environment, budgets
   (2, 1); the hypotheses of C11_non_negative_end_to_end / C11_hard_sparsity_end_to_end / C11_unimodality_end_to_end /
   C11_returned_factor_feasible are then jointly satisfied and their conclusions hold of that run *)
Example C11_end_to_end_nonvacuous : forall (other : kind -> nat -> mat -> mat) (E : env (M := mat)),
  let truthy := fun p : nat => negb (Nat.eqb p 0) in
  let sp := zkeywords (fun k => match k with KNonNeg => ZDict [((-3)%Z, 1)] | KHardSparsity => ZList [None; Some 2]
                                           | KUnimodal => ZDict [(2%Z, 1)] | _ => ZNone end) in
  let A : mat := [[1; -2]; [3; 4]]%R in
  exists fs, constrained_cp [] (op_c12 INR (fun p => p) other) (zvalidate truthy 3 sp) (fun a _ => a) (fun a _ => a) E 3
                            (IComputed [A; A; A]) [] 2 1 [] = Ok fs /\
             Forall (fun a : R => (0 <= a)%R) (concat (nth 0 fs [])) /\ nnzR (concat (nth 1 fs [])) <= 2 /\
             (exists Z, nth 2 fs [] = cols_of Rops Z /\ Forall (fun z => length z = length (nth 2 fs [])) Z /\ Forall unimodalP Z) /\
             feas_c12 INR (fun p => p) KHardSparsity 2 (nth 1 fs []).
Proof.
  intros other E. cbv zeta.
  set (sp := zkeywords (fun k => match k with KNonNeg => ZDict [((-3)%Z, 1)] | KHardSparsity => ZList [None; Some 2]
                                            | KUnimodal => ZDict [(2%Z, 1)] | _ => ZNone end)).
  set (truthy := fun p : nat => negb (Nat.eqb p 0)).
  assert (T : zvalidate_table truthy 3 sp = Ok [Some (KNonNeg, 1); Some (KHardSparsity, 2); Some (KUnimodal, 1)]) by (vm_compute; reflexivity).
  destruct (@zcp_valid_request_returns nat truthy mat [] (op_c12 INR (fun p => p) other) (fun a _ => a) (fun a _ => a) 3 sp _ E
              (IComputed [[[1; -2]; [3; 4]]; [[1; -2]; [3; 4]]; [[1; -2]; [3; 4]]]%R) [] 2 1 [] T) as (fs & Hrun); auto.
  { right. vm_compute. auto. }
  exists fs. split; [exact Hrun|].
  pose proof (cp_skeleton _ _ _ _ _ _ _ _ _ _ _ _ _ Hrun) as (L & _). simpl in L.
  split; [|split; [|split]].
  - eapply (@cp_nonneg nat truthy INR (fun p => p) other) with (m := 0) (p := 1) (s := ZDict [((-3)%Z, 1)]); eauto; try (rewrite L; auto).
    + apply zkeywords_In. reflexivity.
    + simpl. exists (-3)%Z. split; [left; reflexivity|]. right. split; reflexivity.
  - eapply (@cp_hard_sparsity nat truthy INR (fun p => p) other) with (m := 1) (p := 2) (s := ZList [None; Some 2]); eauto; try (rewrite L; auto).
    + apply zkeywords_In. reflexivity.
    + simpl. auto.
  - eapply (@cp_unimodal nat truthy INR (fun p => p) other) with (m := 2) (p := 1) (s := ZDict [(2%Z, 1)]); eauto; try (rewrite L; auto).
    + apply zkeywords_In. reflexivity.
    + simpl. exists 2%Z. split; [left; reflexivity|]. left. split; reflexivity.
  - eapply (@cp_feasible nat truthy INR (fun p => p) other) with (m := 1) (k := KHardSparsity) (p := 2) (s := ZList [None; Some 2]); eauto; try (rewrite L; auto).
    + apply zkeywords_In. reflexivity.
    + simpl. auto.
Qed.

(* the case C12's single-column theorem excludes does occur: on the column [0; 1] the coded operator selects index 0, which is
   NOT a flagged peak candidate (its score ties with the fill value), and returns [0; 1/2] - unimodal, as
   C11_unimodality_operator_feasible says; on two columns the fill value of the first comes from the second *)
Example C11_unimodal_unflagged_index_selected :
  let v := [0; 1]%Q in
  let sc := uni_scores Qops v in
  nth (argmin Qops (uni_difference 0%Q sc)) (fst sc) true = false /\
  unimodality_cols Qops [v] = [[0; 1 # 2]%Q] /\
  unimodality_cols Qops [[0; 1]; [3; 1; 2]]%Q = [[0; 1]; [3; 3 # 2; 3 # 2]]%Q.
Proof. repeat split; vm_compute; reflexivity. Qed.

(* the scope limit of the property's headline clause, as an example (C11_skeleton, third clause): a user-supplied initial CP
   tensor is NOT passed through the operators; with outer budget 0 (or on a fixed mode) the user's factor comes back as it is,
   feasible or not.  Factors are tags: operator outputs are >= 100, the user's factors are 7, 8, 9; non_negative is requested on
   every mode.  (In the code the weights of the user's CP tensor are first multiplied into its last factor; IUser is the list
   after that absorption.) *)
Example C11_user_init_zero_budget_not_projected :
  let truthy := fun p : nat => negb (Nat.eqb p 0) in
  let sp := zkeywords (fun k => match k with KNonNeg => ZScalar 1 | _ => ZNone end) in
  let E := mkEnv (fun _ _ _ _ => 0) (fun _ _ _ _ _ _ => false) (fun _ _ _ => false) (fun _ _ => true) in
  constrained_cp 0 (fun _ p _ => 100 + p) (zvalidate truthy 3 sp) (fun _ _ => 0) (fun _ _ => 0) E 3 (IUser [7; 8; 9]) [] 0 1 0
  = Ok [7; 8; 9] /\
  constrained_cp 0 (fun _ p _ => 100 + p) (zvalidate truthy 3 sp) (fun _ _ => 0) (fun _ _ => 0) E 3 (IUser [7; 8; 9]) [0] 1 1 0
  = Ok [7; 101; 101] /\
  constrained_cp 0 (fun _ p _ => 100 + p) (zvalidate truthy 3 sp) (fun _ _ => 0) (fun _ _ => 0) E 3 (IUser [7; 8; 9]) [] 3 0 0
  = Ok [7; 8; 9] /\
  constrained_cp 0 (fun _ p _ => 100 + p) (zvalidate truthy 3 sp) (fun _ _ => 0) (fun _ _ => 0) E 3 (IComputed [7; 8; 9]) [] 3 0 0
  = Ok [101; 101; 101].
Proof. repeat split; vm_compute; reflexivity. Qed.

(* ... and the same class with the REAL operators, for EVERY outer budget, inner budget and environment (C11_..._refuted: the headline
   clause 'for any initialisation' fails on it): non_negative=True on every mode, a user CP tensor whose first factor has a negative entry,
   fixed_modes=[0] - the run succeeds and factor 0 comes back as supplied, not non-negative.  The statement that holds is C11_skeleton /
   C11_returned_factor_feasible (computed initialisation, or the mode is updated with outer budget >= 1). *)
Theorem C11_user_init_fixed_mode_refuted : forall (other : kind -> nat -> mat -> mat) (E : env (M := mat)) (msub madd : mat -> mat -> mat)
  (n_outer n_inner : nat),
  let sp := zkeywords (fun k => match k with KNonNeg => ZScalar 1 | _ => ZNone end) in
  let A : mat := [[-1; 2]; [3; 4]]%R in
  exists fs, constrained_cp [] (op_c12 INR (fun p => p) other) (zvalidate nat_truthy' 3 sp) msub madd E 3 (IUser [A; A; A]) [0] n_outer n_inner [] = Ok fs /\
             nth 0 fs [] = A /\ ~ Forall (fun a : R => (0 <= a)%R) (concat (nth 0 fs [])).
Proof. exact user_init_fixed_mode_refuted. Qed.
Print Assumptions C11_user_init_fixed_mode_refuted.

(* the l1 ball (soft_sparsity) on points that are already INSIDE the ball: the coded operator is not the identity there (C12's known,
   deliberately unfixed behaviour: it projects |v| onto the simplex of sum p, which moves inside points outwards) - but the output is
   still IN the ball, as C11_soft_sparsity_end_to_end states for every input: [1/4; 0] -> [5/8; 0], [1/4; -1/4] -> [1/2; -1/2] (on the
   sphere), radius 1; the zero vector stays *)
Example C11_l1_ball_inside_points_stay_feasible :
  soft_sparsity_prox Qops 1%Q [1 # 4; 0]%Q = [5 # 8; 0]%Q /\ (l1n Qops (soft_sparsity_prox Qops 1%Q [1 # 4; 0]%Q) <= 1)%Q /\
  soft_sparsity_prox Qops 1%Q [1 # 4; - (1 # 4)]%Q = [1 # 2; - (1 # 2)]%Q /\ (l1n Qops (soft_sparsity_prox Qops 1%Q [1 # 4; - (1 # 4)]%Q) == 1)%Q /\
  soft_sparsity_prox Qops 1%Q [0; 0]%Q = [0; 0]%Q.
Proof. repeat split; vm_compute; try reflexivity; intros H; discriminate H. Qed.

(* the two raises that are not validation errors, on tags: fixed_modes = [0;1;2;2] / a user CP tensor with two factors, order 3 *)
Example C11_corner_raises :
  let truthy := fun p : nat => negb (Nat.eqb p 0) in
  let sp := zkeywords (fun k => match k with KNonNeg => ZScalar 1 | _ => ZNone end) in
  let E := mkEnv (fun _ _ _ _ => 0) (fun _ _ _ _ _ _ => false) (fun _ _ _ => false) (fun _ _ => true) in
  modes_list 3 [0; 1; 2; 2] = [] /\
  constrained_cp 0 (fun _ p _ => 100 + p) (zvalidate truthy 3 sp) (fun _ _ => 0) (fun _ _ => 0) E 3 (IUser [7; 8; 9]) [0; 1; 2; 2] 1 1 0 = Err /\
  constrained_cp 0 (fun _ p _ => 100 + p) (zvalidate truthy 3 sp) (fun _ _ => 0) (fun _ _ => 0) E 3 (IUser [7; 8; 9]) [0; 1; 2; 2] 0 1 0 = Ok [7; 8; 9] /\
  constrained_cp 0 (fun _ p _ => 100 + p) (zvalidate truthy 3 sp) (fun _ _ => 0) (fun _ _ => 0) E 3 (IUser [7; 8]) [] 1 1 0 = Err /\
  constrained_cp 0 (fun _ p _ => 100 + p) (zvalidate truthy 3 sp) (fun _ _ => 0) (fun _ _ => 0) E 3 (IUser [7; 8]) [] 0 1 0 = Ok [7; 8].
Proof. repeat split; vm_compute; reflexivity. Qed.
