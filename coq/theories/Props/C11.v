(* C11 -- property theorems only.  Statements are about Model/Constraints.v:
   validate_constraints (decision logic), proximal_operator (dispatch), admm and constrained_parafac
   (loop skeletons).  P = Python parameter values with truthiness `truthy`, M = factor matrices,
   op k p = the operator of constraint k with parameter p; least-squares steps and all stopping
   decisions are arbitrary functions (env), budgets are arbitrary naturals. *)
From Coq Require Import List Arith Bool.
From TLV Require Import Base.PyList Base.Tensor Model.Constraints Proofs.ConstraintsProofs Proofs.ConstraintsProofsLoop.
Import ListNotations.

(* (i) decision logic at the real call site (the twelve keywords): table entry m = what the user requested on m *)
Theorem C11_table_iff_requested : forall (P : Type) (truthy : P -> bool) (n : nat) (f : kind -> @spec P) (tab : @table P),
  (forall k, wf_spec (f k)) -> validate_table truthy n (keywords f) = Ok tab ->
  length tab = n /\
  (forall m k p, nth m tab None = Some (k, p) <-> requested truthy n (f k) m p) /\
  (forall m, nth m tab None = None <-> forall k p, ~ requested truthy n (f k) m p).
Proof. exact @keywords_table. Qed.
Print Assumptions C11_table_iff_requested.

(* ... and an error iff two keywords address one mode (or a keyword addresses a mode that does not exist) *)
Theorem C11_reject_iff_double : forall (P : Type) (truthy : P -> bool) (n : nat) (f : kind -> @spec P),
  (forall k, wf_spec (f k)) ->
  (validate_table truthy n (keywords f) = Err <->
   (exists k1 k2 m p1 p2, k1 <> k2 /\ requested truthy n (f k1) m p1 /\ requested truthy n (f k2) m p2) \/
   (exists k m p, requested truthy n (f k) m p /\ n <= m)).
Proof. exact @keywords_err_iff. Qed.
Print Assumptions C11_reject_iff_double.

(* the same two statements for any list of (name, value) pairs with distinct names *)
Theorem C11_table_general : forall (P : Type) (truthy : P -> bool) (n : nat) (sp : list (kind * @spec P)) (tab : @table P),
  wf_specs sp -> validate_table truthy n sp = Ok tab ->
  length tab = n /\
  (forall m k p, nth m tab None = Some (k, p) <-> exists s, In (k, s) sp /\ requested truthy n s m p) /\
  (forall m, nth m tab None = None <-> forall k s p, In (k, s) sp -> ~ requested truthy n s m p).
Proof. exact @validate_table_ok. Qed.
Print Assumptions C11_table_general.

Theorem C11_reject_general : forall (P : Type) (truthy : P -> bool) (n : nat) (sp : list (kind * @spec P)),
  wf_specs sp -> (validate_table truthy n sp = Err <-> double truthy n sp \/ out_of_range truthy n sp).
Proof. exact @validate_table_err_iff. Qed.
Print Assumptions C11_reject_general.

(* what validate_constraints(..., order) returns *)
Theorem C11_validate_order : forall (P : Type) (truthy : P -> bool) (n : nat) (sp : list (kind * @spec P)) (order : nat)
  (c : option (kind * P)),
  wf_specs sp -> validate truthy n sp order = Ok c ->
  order < n /\
  (forall k p, c = Some (k, p) <-> exists s, In (k, s) sp /\ requested truthy n s order p) /\
  (c = None <-> forall k s p, In (k, s) sp -> ~ requested truthy n s order p).
Proof. exact @validate_spec. Qed.
Print Assumptions C11_validate_order.

(* (ii) admm returns the primal variable produced by the operator, for every budget and every residual test *)
Theorem C11_admm_returns_operator_output : forall (M : Type) (msub madd : M -> M -> M) (R : M -> Prop) (n_iter : nat)
  (split : M -> M -> M) (conv : nat -> M -> M -> M -> bool) (prox : M -> res M) (x dual x' s d' : M),
  (forall v y, prox v = Ok y -> R y) ->
  admm msub madd n_iter split conv prox x dual = Ok (x', s, d') -> R x' /\ 0 < n_iter.
Proof. exact @admm_range. Qed.
Print Assumptions C11_admm_returns_operator_output.

(* (ii) skeleton of constrained_parafac: every outer/inner budget, every environment, every initialisation *)
Theorem C11_skeleton : forall (P : Type) (truthy : P -> bool) (M : Type) (dM : M) (op : kind -> P -> M -> M)
  (msub madd : M -> M -> M) (n : nat) (sp : list (kind * @spec P)) (E : env (M := M)) (i0 : init (M := M))
  (fixed : list nat) (n_outer n_inner : nat) (zero : M) (fs : list M),
  constrained_cp truthy dM op msub madd E n sp i0 fixed n_outer n_inner zero = Ok fs ->
  length fs = length (init_factors i0) /\
  (forall m, m < length fs ->
     init_computed i0 = true \/ (In m (modes_list n fixed) /\ 0 < n_outer) ->
     in_range truthy op n sp m (nth m fs dM)) /\
  (forall m, init_computed i0 = false -> ~ In m (modes_list n fixed) \/ n_outer = 0 ->
     nth m fs dM = nth m (init_factors i0) dM).
Proof. exact @cp_skeleton. Qed.
Print Assumptions C11_skeleton.

(* (i)+(ii): the factor returned for a mode on which the user requested constraint k with parameter p
   is an output of the operator of k with p *)
Theorem C11_returned_factor_is_operator_output : forall (P : Type) (truthy : P -> bool) (M : Type) (dM : M)
  (op : kind -> P -> M -> M) (msub madd : M -> M -> M) (n : nat) (sp : list (kind * @spec P)) (E : env (M := M))
  (i0 : init (M := M)) (fixed : list nat) (n_outer n_inner : nat) (zero : M) (fs : list M) (m : nat) (k : kind)
  (s : @spec P) (p : P),
  wf_specs sp ->
  constrained_cp truthy dM op msub madd E n sp i0 fixed n_outer n_inner zero = Ok fs ->
  m < length fs -> init_computed i0 = true \/ (In m (modes_list n fixed) /\ 0 < n_outer) ->
  In (k, s) sp -> requested truthy n s m p ->
  exists v, nth m fs dM = op k p v.
Proof. exact @cp_requested_in_range. Qed.
Print Assumptions C11_returned_factor_is_operator_output.

(* requests with two constraints on one mode are rejected by the decomposition, whatever the rest *)
Theorem C11_decomposition_rejects_double : forall (P : Type) (truthy : P -> bool) (M : Type) (dM : M)
  (op : kind -> P -> M -> M) (msub madd : M -> M -> M) (n : nat) (sp : list (kind * @spec P)) (E : env (M := M))
  (i0 : init (M := M)) (fixed : list nat) (n_outer n_inner : nat) (zero : M),
  wf_specs sp -> double truthy n sp \/ out_of_range truthy n sp ->
  constrained_cp truthy dM op msub madd E n sp i0 fixed n_outer n_inner zero = Err.
Proof. exact @cp_rejects. Qed.
Print Assumptions C11_decomposition_rejects_double.

Theorem C11_success_implies_no_double : forall (P : Type) (truthy : P -> bool) (M : Type) (dM : M)
  (op : kind -> P -> M -> M) (msub madd : M -> M -> M) (n : nat) (sp : list (kind * @spec P)) (E : env (M := M))
  (i0 : init (M := M)) (fixed : list nat) (n_outer n_inner : nat) (zero : M) (fs : list M),
  wf_specs sp -> constrained_cp truthy dM op msub madd E n sp i0 fixed n_outer n_inner zero = Ok fs ->
  ~ double truthy n sp /\ ~ out_of_range truthy n sp.
Proof. exact @cp_ok_no_double. Qed.
Print Assumptions C11_success_implies_no_double.

(* modes that are updated: every mode not listed as fixed (the last one is never fixed) *)
Theorem C11_free_modes_updated : forall (n : nat) (fixed : list nat) (m : nat),
  m < n -> ~ In m fixed -> In m (modes_list n fixed).
Proof. exact @modes_list_free. Qed.
Print Assumptions C11_free_modes_updated.

Theorem C11_fixed_modes_kept : forall (n : nat) (fixed : list nat) (m : nat),
  In m fixed -> m <> n - 1 -> ~ In m (modes_list n fixed).
Proof. exact @modes_list_fixed. Qed.
Print Assumptions C11_fixed_modes_kept.

(* non-vacuity: parameters are naturals (0 is falsy); non_negative by list on mode 0, l1_reg by dict on mode 2,
   order 3: accepted, table as requested; adding simplex as a scalar: rejected *)
Example C11_nonvacuous_table :
  let truthy := fun p : nat => negb (Nat.eqb p 0) in
  let f := fun k => match k with
                    | KNonNeg => SList [Some 1; None; Some 0]
                    | KL1 => SDict [(2, 7)]
                    | _ => SNone end in
  (forall k, wf_spec (f k)) /\
  validate_table truthy 3 (keywords f) = Ok [Some (KNonNeg, 1); None; Some (KL1, 7)] /\
  requested truthy 3 (f KL1) 2 7.
Proof.
  cbv zeta. split; [|split].
  - intros k; destruct k; simpl; auto. repeat constructor. simpl; tauto.
  - vm_compute. reflexivity.
  - simpl. auto.
Qed.

Example C11_nonvacuous_reject :
  let truthy := fun p : nat => negb (Nat.eqb p 0) in
  let f := fun k => match k with
                    | KNonNeg => SList [Some 1; None; Some 0]
                    | KSimplex => SScalar 3
                    | _ => SNone end in
  (forall k, wf_spec (f k)) /\ validate_table truthy 3 (keywords f) = Err /\
  KNonNeg <> KSimplex /\ requested truthy 3 (f KNonNeg) 0 1 /\ requested truthy 3 (f KSimplex) 0 3.
Proof.
  cbv zeta. split; [|split; [|split; [|split]]].
  - intros k; destruct k; simpl; auto.
  - vm_compute. reflexivity.
  - discriminate.
  - simpl. repeat split; auto with arith.
  - simpl. repeat split; auto with arith.
Qed.

(* non-vacuity of the skeleton: the model runs (tags as factors) and succeeds with budgets (2, 1) *)
Example C11_nonvacuous_skeleton :
  let truthy := fun p : nat => negb (Nat.eqb p 0) in
  let sp := keywords (fun k => match k with KNonNeg => SDict [(1, 1)] | _ => SNone end) in
  let E := mkEnv (fun _ _ _ _ => 0) (fun _ _ _ _ _ _ => false) (fun _ _ _ => false) in
  constrained_cp truthy 0 (fun _ p _ => 100 + p) (fun _ _ => 0) (fun _ _ => 0) E 3 sp (IUser [7; 8; 9]) [0] 2 1 0
  = Ok [7; 101; 0].
Proof. vm_compute. reflexivity. Qed.
