(* C12 -- property theorems only.  Statements are about the model of tensorly/tenalg/proximal.py
   (Model/Prox.v) at the instance Rops (Coq reals = exact-arithmetic semantics), for every list length,
   every input and every parameter value in the stated range.  dist2 a b = |a - b|^2, l1n = l1 norm,
   sumsq = squared l2 norm, lsum = sum of the entries (Model/Prox.v, instantiated at R). *)
From Coq Require Import List Reals QArith Qreals Bool.
From TLV Require Import Base.Ops Model.Prox Proofs.ProxProofs Proofs.ProxProofsHard Proofs.ProxProofsRefute
  Proofs.ProxProofsSimplex Proofs.ProxProofsMono Proofs.ProxProofsIso Proofs.ProxTransfer
  Proofs.ProxProofsSmooth Proofs.ProxProofsFirm Proofs.ProxProofsNormSp Proofs.ProxProofsUni
  Base.Tensor Model.Constraints Proofs.ConstraintsProofsKeys Model.ProxDispatch Proofs.ProxProofsDispatch
  Proofs.ProxProofsMore Proofs.ProxProofsMatrix Proofs.ProxProofsRun Proofs.ProxRunTransfer
  Base.RSum Proofs.ProxProofsSvt Proofs.ProxProofsSvtList Proofs.ProxProofsFirm2 Proofs.ProxProofsRunIdem Proofs.ProxProofsRunFirm
  Proofs.ConstraintsProofsUni Proofs.ProxProofsIdem2 Proofs.ProxProofsSvtPerturb Proofs.ProxProofsSmoothNd
  Model.ProxSvtGap Proofs.ProxProofsSvtGap Proofs.ProxSvtGapTransfer Proofs.ProxProofsTapeCert Proofs.ProxProofsProcrustesGap
  Proofs.ProxProofsSvtFirmGap Proofs.ProxProofsProcrustesFeas Proofs.ProxProofsProcrustesFeasPerturb.
Import ListNotations.
Open Scope R_scope.

(* ---- non-negativity projection: feasible, nearest feasible point, idempotent, firmly non-expansive *)
Theorem C12_nonneg_feasible : forall v, Forall (fun x => 0 <= x) (non_negative Rops v).
Proof. exact nonneg_feasible. Qed.
Print Assumptions C12_nonneg_feasible.
Theorem C12_nonneg_optimal : forall v z, length z = length v -> Forall (fun x => 0 <= x) z ->
  dist2 Rops (non_negative Rops v) v <= dist2 Rops z v.
Proof. exact nonneg_optimal. Qed.
Print Assumptions C12_nonneg_optimal.
Theorem C12_nonneg_idempotent : forall v, non_negative Rops (non_negative Rops v) = non_negative Rops v.
Proof. exact nonneg_idempotent. Qed.
Print Assumptions C12_nonneg_idempotent.
Theorem C12_nonneg_firmly_nonexpansive : forall u v, length u = length v ->
  dist2 Rops (non_negative Rops u) (non_negative Rops v) <= dotd (non_negative Rops u) (non_negative Rops v) u v.
Proof. exact nonneg_firmly_nonexpansive. Qed.
Print Assumptions C12_nonneg_firmly_nonexpansive.

(* ---- soft thresholding is the exact minimiser of t*|x|_1 + |x - v|^2 / 2 (per coordinate, hence for vectors) *)
Theorem C12_soft1_optimal : forall t x z, 0 <= t ->
  t * Rabs (soft1 Rops t x) + (soft1 Rops t x - x) * (soft1 Rops t x - x) / 2 <= t * Rabs z + (z - x) * (z - x) / 2.
Proof. exact soft1_optimal. Qed.
Print Assumptions C12_soft1_optimal.
Theorem C12_soft_optimal : forall t, 0 <= t -> forall v z, length z = length v ->
  t * l1n Rops (soft_thresholding Rops t v) + dist2 Rops (soft_thresholding Rops t v) v / 2
  <= t * l1n Rops z + dist2 Rops z v / 2.
Proof. exact soft_optimal. Qed.
Print Assumptions C12_soft_optimal.
Theorem C12_soft_arr_optimal : forall ts v z, Forall (fun t => 0 <= t) ts -> length ts = length v -> length z = length v ->
  lsum Rops (map (fun tx => fst tx * Rabs (snd tx)) (combine ts (soft_thresholding_arr Rops ts v)))
    + dist2 Rops (soft_thresholding_arr Rops ts v) v / 2
  <= lsum Rops (map (fun tx => fst tx * Rabs (snd tx)) (combine ts z)) + dist2 Rops z v / 2.
Proof. exact soft_arr_optimal. Qed.
Print Assumptions C12_soft_arr_optimal.

(* ---- squared l2: v / (1 + 2t) minimises t*|x|^2 + |x - v|^2 / 2 *)
Theorem C12_l2sq_optimal : forall t, 0 <= t -> forall v z, length z = length v ->
  t * sumsq Rops (l2_square_prox Rops t v) + dist2 Rops (l2_square_prox Rops t v) v / 2
  <= t * sumsq Rops z + dist2 Rops z v / 2.
Proof. exact l2sq_optimal. Qed.
Print Assumptions C12_l2sq_optimal.

(* ---- l2 (block soft thresholding) minimises t*|x|_2 + |x - v|^2 / 2; the norm is Coq's sqrt *)
Theorem C12_l2_optimal : forall t v z, 0 <= t -> length z = length v ->
  let x := l2_prox_with Rops (sqrt (sumsq Rops v)) t v in
  t * sqrt (sumsq Rops x) + dist2 Rops x v / 2 <= t * sqrt (sumsq Rops z) + dist2 Rops z v / 2.
Proof. exact l2_optimal_sqrt. Qed.
Print Assumptions C12_l2_optimal.

(* ---- smoothness: every solution x of the coded tridiagonal system (the contract of tl.solve) minimises
   (t/2) * (x_0^2 + sum_i (x_i - x_{i+1})^2 + x_{n-1}^2) + |x - v|^2 / 2 *)
Theorem C12_smooth_optimal : forall t x v z, 0 <= t -> sm_apply Rops t 0 x = v -> length z = length x ->
  smooth_obj t x v <= smooth_obj t z v.
Proof. exact smooth_optimal. Qed.
Print Assumptions C12_smooth_optimal.

(* the model's executable elimination (forward sweep + back substitution) solves the coded system for EVERY right-hand side and
   t >= 0, the solution is unique, so any exact solver's answer is the model's answer and the minimiser *)
Theorem C12_smooth_solve_correct : forall t v, 0 <= t -> sm_apply Rops t 0 (smoothness_solve Rops t v) = v.
Proof. exact smoothness_solve_correct. Qed.
Print Assumptions C12_smooth_solve_correct.
Theorem C12_smooth_solve_optimal : forall t v z, 0 <= t -> length z = length v ->
  smooth_obj t (smoothness_solve Rops t v) v <= smooth_obj t z v.
Proof. exact smoothness_solve_optimal. Qed.
Print Assumptions C12_smooth_solve_optimal.
Theorem C12_smooth_solution_unique : forall t x x' v, 0 <= t -> sm_apply Rops t 0 x = v -> sm_apply Rops t 0 x' = v -> x = x'.
Proof. exact smooth_solution_unique. Qed.
Print Assumptions C12_smooth_solution_unique.

(* ---- hard thresholding: at most k non-zeros, a nearest vector with at most k non-zeros, idempotent;
   and the same for ANY output accepted by the relational checker valid_ht (tie-breaking free) *)
Theorem C12_hard_sparse : forall k v, (nnzR (hard_thresholding Rops k v) <= k)%nat.
Proof. exact hard_sparse. Qed.
Print Assumptions C12_hard_sparse.
Theorem C12_hard_nearest : forall k v z, length z = length v -> (nnzR z <= k)%nat ->
  dist2 Rops (hard_thresholding Rops k v) v <= dist2 Rops z v.
Proof. exact hard_nearest. Qed.
Print Assumptions C12_hard_nearest.
Theorem C12_hard_idempotent : forall k v,
  hard_thresholding Rops k (hard_thresholding Rops k v) = hard_thresholding Rops k v.
Proof. exact hard_idempotent. Qed.
Print Assumptions C12_hard_idempotent.
Theorem C12_valid_ht_nearest : forall k v x z, valid_ht Rops k v x = true -> length z = length v -> (nnzR z <= k)%nat ->
  dist2 Rops x v <= dist2 Rops z v.
Proof. exact valid_ht_nearest. Qed.
Print Assumptions C12_valid_ht_nearest.
Theorem C12_hard_valid : forall k v, valid_ht Rops k v (hard_thresholding Rops k v) = true.
Proof. exact hard_valid. Qed.
Print Assumptions C12_hard_valid.

(* ---- simplex projection: (a) any max(v - tau, 0) summing to p is the projection; (b) the CODED sort / cumulative-sum /
   count / threshold algorithm returns a feasible point, hence the projection, for every non-empty v and every p > 0;
   it is idempotent and firmly non-expansive *)
Theorem C12_simplex_characterisation : forall tau p v z,
  length z = length v -> Forall (fun t => 0 <= t) z -> lsum Rops z = p ->
  lsum Rops (map (fun x => relu Rops (x - tau)) v) = p ->
  dist2 Rops (map (fun x => relu Rops (x - tau)) v) v <= dist2 Rops z v.
Proof. exact simplex_characterisation. Qed.
Print Assumptions C12_simplex_characterisation.
Theorem C12_simplex_feasible : forall p v, 0 < p -> v <> [] ->
  Forall (fun x => 0 <= x) (simplex_prox Rops p v) /\ lsum Rops (simplex_prox Rops p v) = p.
Proof. exact simplex_feasible. Qed.
Print Assumptions C12_simplex_feasible.
Theorem C12_simplex_optimal : forall p v z, 0 < p -> v <> [] ->
  length z = length v -> Forall (fun t => 0 <= t) z -> lsum Rops z = p ->
  dist2 Rops (simplex_prox Rops p v) v <= dist2 Rops z v.
Proof. exact simplex_optimal. Qed.
Print Assumptions C12_simplex_optimal.
Theorem C12_simplex_idempotent : forall p v, 0 < p -> v <> [] ->
  simplex_prox Rops p (simplex_prox Rops p v) = simplex_prox Rops p v.
Proof. exact simplex_idempotent. Qed.
Print Assumptions C12_simplex_idempotent.
Theorem C12_simplex_firmly_nonexpansive : forall p u v, 0 < p -> u <> [] -> length u = length v ->
  dist2 Rops (simplex_prox Rops p u) (simplex_prox Rops p v) <= dotd (simplex_prox Rops p u) (simplex_prox Rops p v) u v.
Proof. exact simplex_firmly_nonexpansive. Qed.
Print Assumptions C12_simplex_firmly_nonexpansive.

(* ---- monotone regression (maximum of running means + backward minimum pass, as coded): for EVERY input the output is
   ordered, passes the KKT certificate iso_cert (x ordered, residual r = v - x with sum r = 0, all suffix sums of r <= 0,
   <r, x> = 0), and is therefore the least-squares non-decreasing (decreasing=True: non-increasing) fit; idempotent and
   firmly non-expansive.  (Proof: block structure of min_{l>=k} max_{i<=l} mean(v[i..l]), strong induction on the length.) *)
Theorem C12_monotone_feasible : forall v,
  ndec (monotonicity_prox Rops false v) /\ ndec (rev (monotonicity_prox Rops true v)) /\ 
  length (monotonicity_prox Rops false v) = length v /\ length (monotonicity_prox Rops true v) = length v.
Proof. exact monotone_feasible. Qed.
Print Assumptions C12_monotone_feasible.
Theorem C12_iso_cert_sound : forall v x, iso_cert Rops v x = true ->
  ndec x /\ forall z, length z = length v -> ndec z -> dist2 Rops x v <= dist2 Rops z v.
Proof. exact iso_cert_sound. Qed.
Print Assumptions C12_iso_cert_sound.
Theorem C12_monotone_cert : forall v, iso_cert Rops v (monotonicity_prox Rops false v) = true.
Proof. exact monotone_inc_cert. Qed.
Print Assumptions C12_monotone_cert.
Theorem C12_monotone_optimal : forall v z, length z = length v -> ndec z ->
  dist2 Rops (monotonicity_prox Rops false v) v <= dist2 Rops z v.
Proof. exact monotone_inc_optimal. Qed.
Print Assumptions C12_monotone_optimal.
Theorem C12_monotone_dec_optimal : forall v z, length z = length v -> ndec (rev z) ->
  dist2 Rops (monotonicity_prox Rops true v) v <= dist2 Rops z v.
Proof. exact monotone_dec_optimal. Qed.
Print Assumptions C12_monotone_dec_optimal.
Theorem C12_monotone_idempotent : forall d v,
  monotonicity_prox Rops d (monotonicity_prox Rops d v) = monotonicity_prox Rops d v.
Proof. exact monotone_idempotent. Qed.
Print Assumptions C12_monotone_idempotent.
Theorem C12_monotone_firmly_nonexpansive : forall u v, length u = length v ->
  dist2 Rops (monotonicity_prox Rops false u) (monotonicity_prox Rops false v)
  <= dotd (monotonicity_prox Rops false u) (monotonicity_prox Rops false v) u v.
Proof. exact monotone_inc_firmly_nonexpansive. Qed.
Print Assumptions C12_monotone_firmly_nonexpansive.

(* ---- normalised sparsity: at most k non-zeros and unit l2 norm whenever the kept part is non-zero
   (s = tl.norm(hard part), contract s*s = sum of squares) *)
Theorem C12_normalized_sparsity_feasible : forall s k v, 0 < s -> s * s = sumsq Rops (hard_thresholding Rops k v) ->
  sumsq Rops (normalized_sparsity_with Rops s k v) = 1 /\ (nnzR (normalized_sparsity_with Rops s k v) <= k)%nat.
Proof. exact normalized_sparsity_feasible. Qed.
Print Assumptions C12_normalized_sparsity_feasible.

Theorem C12_normalized_sparsity_nearest : forall s k v z, 0 < s -> s * s = sumsq Rops (hard_thresholding Rops k v) ->
  length z = length v -> (nnzR z <= k)%nat -> sumsq Rops z = 1 ->
  dist2 Rops (normalized_sparsity_with Rops s k v) v <= dist2 Rops z v.
Proof. exact normalized_sparsity_nearest. Qed.
Print Assumptions C12_normalized_sparsity_nearest.

(* ---- generic: an optimal projection onto a convex set is firmly non-expansive *)
Theorem C12_firmly_nonexpansive : forall n (C : list R -> Prop) (P : list R -> list R),
  convex_set n C ->
  (forall v, length v = n -> C (P v) /\ length (P v) = n /\ forall w, C w -> length w = n -> dist2 Rops (P v) v <= dist2 Rops w v) ->
  forall u v, length u = n -> length v = n -> dist2 Rops (P u) (P v) <= dotd (P u) (P v) u v.
Proof. exact firmly_nonexpansive. Qed.
Print Assumptions C12_firmly_nonexpansive.

(* ---- generic: the proximal operator of a convex function is firmly non-expansive; the penalised operators *)
Theorem C12_prox_firmly_nonexpansive : forall n (f : list R -> R) (P : list R -> list R),
  convex_fun n f ->
  (forall v, length v = n -> length (P v) = n /\ forall w, length w = n -> f (P v) + dist2 Rops (P v) v / 2 <= f w + dist2 Rops w v / 2) ->
  forall u v, length u = n -> length v = n -> dist2 Rops (P u) (P v) <= dotd (P u) (P v) u v.
Proof. exact prox_firmly_nonexpansive. Qed.
Print Assumptions C12_prox_firmly_nonexpansive.
Theorem C12_soft_firmly_nonexpansive : forall t u v, 0 <= t -> length u = length v ->
  dist2 Rops (soft_thresholding Rops t u) (soft_thresholding Rops t v)
  <= dotd (soft_thresholding Rops t u) (soft_thresholding Rops t v) u v.
Proof. exact soft_firmly_nonexpansive. Qed.
Print Assumptions C12_soft_firmly_nonexpansive.
Theorem C12_l2sq_firmly_nonexpansive : forall t u v, 0 <= t -> length u = length v ->
  dist2 Rops (l2_square_prox Rops t u) (l2_square_prox Rops t v)
  <= dotd (l2_square_prox Rops t u) (l2_square_prox Rops t v) u v.
Proof. exact l2sq_firmly_nonexpansive. Qed.
Print Assumptions C12_l2sq_firmly_nonexpansive.
Theorem C12_l2_firmly_nonexpansive : forall t u v, 0 <= t -> length u = length v ->
  let P := fun w => l2_prox_with Rops (sqrt (sumsq Rops w)) t w in
  dist2 Rops (P u) (P v) <= dotd (P u) (P v) u v.
Proof. exact l2_firmly_nonexpansive. Qed.
Print Assumptions C12_l2_firmly_nonexpansive.

(* ---- executed instance = proved instance: the model run at Q (exact rationals, what the correspondence evaluates and compares
   with the implementation) and mapped into R equals the model at R on the mapped inputs (Paramcoq free theorems); hence the
   theorems above hold for the computed values, e.g.: *)
Theorem C12_transfer_closed_forms :
  (forall v, map Q2R (non_negative Qops v) = non_negative Rops (map Q2R v)) /\
  (forall t v, map Q2R (soft_thresholding Qops t v) = soft_thresholding Rops (Q2R t) (map Q2R v)) /\
  (forall ts v, map Q2R (soft_thresholding_arr Qops ts v) = soft_thresholding_arr Rops (map Q2R ts) (map Q2R v)) /\
  (forall t v, map Q2R (l2_square_prox Qops t v) = l2_square_prox Rops (Q2R t) (map Q2R v)) /\
  (forall s t v, map Q2R (l2_prox_with Qops s t v) = l2_prox_with Rops (Q2R s) (Q2R t) (map Q2R v)) /\
  (forall t v, map Q2R (smoothness_solve Qops t v) = smoothness_solve Rops (Q2R t) (map Q2R v)) /\
  (forall t prev x, map Q2R (sm_apply Qops t prev x) = sm_apply Rops (Q2R t) (Q2R prev) (map Q2R x)) /\
  (forall v, map Q2R (normalize Qops v) = normalize Rops (map Q2R v)).
Proof. exact transfer_closed_forms. Qed.
Print Assumptions C12_transfer_closed_forms.
Theorem C12_transfer_projections :
  (forall p v, map Q2R (simplex_prox Qops p v) = simplex_prox Rops (Q2R p) (map Q2R v)) /\
  (forall p v, map Q2R (soft_sparsity_prox Qops p v) = soft_sparsity_prox Rops (Q2R p) (map Q2R v)) /\
  (forall d v, map Q2R (monotonicity_prox Qops d v) = monotonicity_prox Rops d (map Q2R v)) /\
  (forall k v, map Q2R (hard_thresholding Qops k v) = hard_thresholding Rops k (map Q2R v)) /\
  (forall s k v, map Q2R (normalized_sparsity_with Qops s k v) = normalized_sparsity_with Rops (Q2R s) k (map Q2R v)) /\
  (forall cols, map (map Q2R) (unimodality_cols Qops cols) = unimodality_cols Rops (map (map Q2R) cols)).
Proof. exact transfer_projections. Qed.
Print Assumptions C12_transfer_projections.
Theorem C12_simplex_exec_optimal : forall (p : Q) (v : list Q) (z : list R), 0 < Q2R p -> v <> [] ->
  length z = length v -> Forall (fun t => 0 <= t) z -> lsum Rops z = Q2R p ->
  Forall (fun x => 0 <= x) (map Q2R (simplex_prox Qops p v)) /\ lsum Rops (map Q2R (simplex_prox Qops p v)) = Q2R p /\
  dist2 Rops (map Q2R (simplex_prox Qops p v)) (map Q2R v) <= dist2 Rops z (map Q2R v).
Proof. exact simplex_exec_optimal. Qed.
Print Assumptions C12_simplex_exec_optimal.
Theorem C12_monotone_exec_optimal : forall (v : list Q) (z : list R), length z = length v -> ndec z ->
  ndec (map Q2R (monotonicity_prox Qops false v)) /\
  dist2 Rops (map Q2R (monotonicity_prox Qops false v)) (map Q2R v) <= dist2 Rops z (map Q2R v).
Proof. exact monotone_exec_optimal. Qed.
Print Assumptions C12_monotone_exec_optimal.
Theorem C12_hard_exec_nearest : forall (k : nat) (v : list Q) (z : list R), length z = length v -> (nnzR z <= k)%nat ->
  (nnzR (map Q2R (hard_thresholding Qops k v)) <= k)%nat /\
  dist2 Rops (map Q2R (hard_thresholding Qops k v)) (map Q2R v) <= dist2 Rops z (map Q2R v).
Proof. exact hard_exec_nearest. Qed.
Print Assumptions C12_hard_exec_nearest.

(* ---- proximal_operator's decision logic.  The authoritative model of validate_constraints is C11's Model/Constraints.v (zvalidate:
   truthiness, dict / list / scalar values, Python int keys incl. negative ones, the ValueError branches; theorem C11_validate_order).
   C12 only adds how the keywords a caller wrote are presented to it (Model/ProxDispatch.validate_kwargs) and proves that the order in
   which they are written is irrelevant; C12_dispatch_selected is C11's theorem at the instance the C12 correspondence executes. *)
Theorem C12_dispatch_order_irrelevant : forall n order (specs specs' : kwargs),
  NoDup (map fst specs) -> Permutation.Permutation specs specs' -> validate_kwargs n order specs = validate_kwargs n order specs'.
Proof. exact validate_kwargs_order_irrelevant. Qed.
Print Assumptions C12_dispatch_order_irrelevant.
Theorem C12_dispatch_selected : forall n order (specs : kwargs) c, validate_kwargs n order specs = Ok c ->
  (order < n)%nat /\
  (forall k p, c = Some (k, p) <-> exists s, In (k, s) (zkeywords (spec_of specs)) /\ zrequested qtruthy n s order p) /\
  (c = None <-> forall k s p, In (k, s) (zkeywords (spec_of specs)) -> ~ zrequested qtruthy n s order p).
Proof. exact validate_kwargs_spec. Qed.
Print Assumptions C12_dispatch_selected.

(* ---- further firmly non-expansive / idempotent instances *)
Theorem C12_smoothness_firmly_nonexpansive : forall t u v, 0 <= t -> length u = length v ->
  dist2 Rops (smoothness_solve Rops t u) (smoothness_solve Rops t v)
  <= dotd (smoothness_solve Rops t u) (smoothness_solve Rops t v) u v.
Proof. exact smoothness_firmly_nonexpansive. Qed.
Print Assumptions C12_smoothness_firmly_nonexpansive.
Theorem C12_monotone_dec_firmly_nonexpansive : forall u v, length u = length v ->
  dist2 Rops (monotonicity_prox Rops true u) (monotonicity_prox Rops true v)
  <= dotd (monotonicity_prox Rops true u) (monotonicity_prox Rops true v) u v.
Proof. exact monotone_dec_firmly_nonexpansive. Qed.
Print Assumptions C12_monotone_dec_firmly_nonexpansive.
Theorem C12_l1ball_outside_firmly_nonexpansive : forall p u v, 0 < p -> p <= l1n Rops u -> p <= l1n Rops v -> length u = length v ->
  dist2 Rops (soft_sparsity_prox Rops p u) (soft_sparsity_prox Rops p v)
  <= dotd (soft_sparsity_prox Rops p u) (soft_sparsity_prox Rops p v) u v.
Proof. exact l1ball_outside_firmly_nonexpansive. Qed.
Print Assumptions C12_l1ball_outside_firmly_nonexpansive.
Theorem C12_normalize_idempotent : forall v, 0 < maxabs Rops v -> normalize Rops (normalize Rops v) = normalize Rops v.
Proof. exact normalize_idempotent. Qed.
Print Assumptions C12_normalize_idempotent.
Theorem C12_normalized_sparsity_idempotent : forall s k v, 0 < s -> s * s = sumsq Rops (hard_thresholding Rops k v) ->
  normalized_sparsity_with Rops 1 k (normalized_sparsity_with Rops s k v) = normalized_sparsity_with Rops s k v.
Proof. exact normalized_sparsity_idempotent. Qed.
Print Assumptions C12_normalized_sparsity_idempotent.

Theorem C12_soft_arr_firmly_nonexpansive : forall ts u v, Forall (fun t => 0 <= t) ts -> length ts = length u -> length u = length v ->
  dist2 Rops (soft_thresholding_arr Rops ts u) (soft_thresholding_arr Rops ts v)
  <= dotd (soft_thresholding_arr Rops ts u) (soft_thresholding_arr Rops ts v) u v.
Proof. exact soft_arr_firmly_nonexpansive. Qed.
Print Assumptions C12_soft_arr_firmly_nonexpansive.
Theorem C12_l1ball_outside_idempotent : forall p v, 0 < p -> p <= l1n Rops v ->
  soft_sparsity_prox Rops p (soft_sparsity_prox Rops p v) = soft_sparsity_prox Rops p v.
Proof. exact l1ball_outside_idempotent. Qed.
Print Assumptions C12_l1ball_outside_idempotent.

(* ---- matrices: the code applies the operators column by column (colwise) or on the flattened tensor (flatwise); for a rectangular
   n x c matrix the columns of colwise f X are f of the columns of X and the flattening of flatwise f X is f of the flattening,
   so the per-vector theorems above hold column by column / on the flattening (e.g. C12_colwise_simplex) *)
Theorem C12_colwise_columns : forall n c (f : list R -> list R) X, (1 <= n)%nat -> (1 <= c)%nat -> rect n c X ->
  (forall col, length col = n -> length (f col) = n) ->
  cols_of Rops (colwise Rops f X) = map f (cols_of Rops X).
Proof. exact colwise_columns. Qed.
Print Assumptions C12_colwise_columns.
Theorem C12_colwise_simplex : forall n c p X, (1 <= n)%nat -> (1 <= c)%nat -> rect n c X -> 0 < p ->
  Forall (fun col => Forall (fun x => 0 <= x) col /\ lsum Rops col = p) (cols_of Rops (colwise Rops (simplex_prox Rops p) X)).
Proof. exact colwise_simplex. Qed.
Print Assumptions C12_colwise_simplex.
Theorem C12_flatwise_flat : forall n c (f : list R -> list R) X, (1 <= n)%nat -> (1 <= c)%nat -> rect n c X ->
  length (f (concat X)) = length (concat X) -> concat (flatwise f X) = f (concat X).
Proof. exact flatwise_flat. Qed.
Print Assumptions C12_flatwise_flat.
Theorem C12_smooth_exec_optimal : forall (t : Q) (v : list Q) (z : list R), 0 <= Q2R t -> length z = length v ->
  sm_apply Rops (Q2R t) 0 (map Q2R (smoothness_solve Qops t v)) = map Q2R v /\
  smooth_obj (Q2R t) (map Q2R (smoothness_solve Qops t v)) (map Q2R v) <= smooth_obj (Q2R t) z (map Q2R v).
Proof. exact smooth_exec_optimal. Qed.
Print Assumptions C12_smooth_exec_optimal.

(* ---- proximal_operator end to end (Model/ProxDispatch.proximal_operator: `if n_const is None`, validate_constraints, the twelve-way
   dispatch on the selected name, parameter passing incl. hard_sparsity's rank bound ceil(p), column-wise / flattened application):
   for a rectangular tensor the call returns the input (no constraint selected) or a tensor satisfying the feasibility + optimality
   statement of the selected operator (prox_spec, Proofs/ProxProofsRun.v: per column or on the flattening; unimodality: nothing);
   it raises exactly when validate_constraints raises; with n_const None it returns the tensor.  Which (kind, parameter) is selected
   is C12_dispatch_selected.  The same holds for the values the executed rational instance computes. *)
Theorem C12_proximal_operator_sound : forall n order specs aux nr nc X Y, (1 <= nr)%nat -> (1 <= nc)%nat -> rect nr nc X ->
  proximal_operator Rops Q2R (Some n) order specs aux X = Ok Y ->
  exists sel, validate_kwargs n order specs = Ok sel /\
    match sel with None => Y = X | Some (k, p) => prox_spec k (Q2R p) (rank_bound p) aux Y X end.
Proof. exact proximal_operator_sound. Qed.
Print Assumptions C12_proximal_operator_sound.
Theorem C12_proximal_operator_raises_iff : forall F (Op : fops F) conv n order specs aux X,
  proximal_operator Op conv (Some n) order specs aux X = Err <-> validate_kwargs n order specs = Err.
Proof. exact @proximal_operator_raises_iff. Qed.
Print Assumptions C12_proximal_operator_raises_iff.
Theorem C12_proximal_operator_no_const : forall F (Op : fops F) conv order specs aux X,
  proximal_operator Op conv None order specs aux X = Ok X.
Proof. exact @proximal_operator_no_const. Qed.
Print Assumptions C12_proximal_operator_no_const.
(* number of dimensions (Model/ProxDispatch.ndim_ok, proximal_operator_nd): monotonicity / unimodality (explicit validation) and simplex /
   soft_sparsity (shape unpacking) raise ValueError for more than two dimensions, the operators on the flattened tensor accept any number *)
Theorem C12_proximal_operator_ndim_le2 : forall F (Op : fops F) conv ndim n_const order specs aux X, (1 <= ndim <= 2)%nat ->
  proximal_operator_nd Op conv ndim n_const order specs aux X = proximal_operator Op conv n_const order specs aux X.
Proof. exact @proximal_operator_nd_le2. Qed.
Print Assumptions C12_proximal_operator_ndim_le2.
Theorem C12_proximal_operator_ndim_raises_iff : forall F (Op : fops F) conv ndim n_const order specs aux X,
  proximal_operator_nd Op conv ndim n_const order specs aux X = Err <->
  selected_pop conv n_const order specs aux = Err \/ exists o, selected_pop conv n_const order specs aux = Ok o /\ ndim_ok o ndim = false.
Proof. exact @proximal_operator_nd_raises_iff. Qed.
Print Assumptions C12_proximal_operator_ndim_raises_iff.
(* `order` as the Python int the caller wrote (selected_pop_z): mode `order` for 0 <= order < n_const, mode n_const + order for a negative
   order down to -n_const, and the call raises (IndexError) outside [-n_const, n_const) *)
Theorem C12_selected_order : forall F (conv : Q -> F) n (order : Z) specs aux,
  ((0 <= order < Z.of_nat n)%Z -> selected_pop_z conv (Some n) order specs aux = selected_pop conv (Some n) (Z.to_nat order) specs aux) /\
  ((- Z.of_nat n <= order < 0)%Z -> selected_pop_z conv (Some n) order specs aux = selected_pop conv (Some n) (Z.to_nat (order + Z.of_nat n)) specs aux) /\
  ((order < - Z.of_nat n \/ Z.of_nat n <= order)%Z -> selected_pop_z conv (Some n) order specs aux = Err).
Proof. exact @selected_pop_z_spec. Qed.
Print Assumptions C12_selected_order.
Theorem C12_proximal_operator_exec : forall n order specs aux X Y,
  proximal_operator Qops (fun q : Q => q) n order specs aux X = Ok Y ->
  proximal_operator Rops Q2R n order specs (Q2R aux) (map (map Q2R) X) = Ok (map (map Q2R) Y).
Proof. exact proximal_operator_exec. Qed.
Print Assumptions C12_proximal_operator_exec.
Theorem C12_proximal_operator_exec_sound : forall n order specs aux nr nc (X Y : list (list Q)), (1 <= nr)%nat -> (1 <= nc)%nat ->
  length X = nr -> Forall (fun r => length r = nc) X ->
  proximal_operator Qops (fun q : Q => q) (Some n) order specs aux X = Ok Y ->
  exists sel, validate_kwargs n order specs = Ok sel /\
    match sel with
    | None => Y = X
    | Some (k, p) => prox_spec k (Q2R p) (rank_bound p) (Q2R aux) (map (map Q2R) Y) (map (map Q2R) X)
    end.
Proof. exact proximal_operator_exec_sound. Qed.
Print Assumptions C12_proximal_operator_exec_sound.

(* idempotence end to end: for the projection kinds (non-negativity, simplex with p > 0, monotonicity, hard sparsity, max-normalisation of
   a non-zero tensor, the l1-ball operator when every column lies on or outside the ball - idem_side) calling proximal_operator again with
   the same keyword arguments on its own result returns that result *)
Theorem C12_prun_idempotent : forall o nr nc X, (1 <= nr)%nat -> (1 <= nc)%nat -> rect nr nc X -> idem_side o X ->
  prun Rops o (prun Rops o X) = prun Rops o X.
Proof. exact prun_idempotent. Qed.
Print Assumptions C12_prun_idempotent.
Theorem C12_proximal_operator_idempotent : forall n_const order specs aux nr nc X Y o, (1 <= nr)%nat -> (1 <= nc)%nat -> rect nr nc X ->
  selected_pop Q2R n_const order specs aux = Ok o -> idem_side o X ->
  proximal_operator Rops Q2R n_const order specs aux X = Ok Y -> proximal_operator Rops Q2R n_const order specs aux Y = Ok Y.
Proof. exact proximal_operator_idempotent. Qed.
Print Assumptions C12_proximal_operator_idempotent.

(* firm non-expansiveness end to end: for the convex kinds (non-negativity, l1 with t >= 0, squared l2 with t >= 0, simplex with p > 0,
   smoothness with t >= 0, monotonicity, identity - firm_side) and two rectangular tensors of the same shape,
   |P(X) - P(X')|^2 <= <P(X) - P(X'), X - X'> on the flattening, resp. column by column for the column-wise operators (firm_spec) *)
Theorem C12_prun_firmly_nonexpansive : forall o nr nc X X', (1 <= nr)%nat -> (1 <= nc)%nat -> rect nr nc X -> rect nr nc X' -> firm_side o ->
  firm_spec o nc (prun Rops o X) (prun Rops o X') X X'.
Proof. exact prun_firmly_nonexpansive. Qed.
Print Assumptions C12_prun_firmly_nonexpansive.

Theorem C12_prun_l2_firmly_nonexpansive : forall t nr nc X X', 0 <= t -> (1 <= nr)%nat -> (1 <= nc)%nat -> rect nr nc X -> rect nr nc X' ->
  firm_pair (concat (prun Rops (PL2 t (sqrt (sumsq Rops (concat X)))) X)) (concat (prun Rops (PL2 t (sqrt (sumsq Rops (concat X')))) X'))
            (concat X) (concat X').
Proof. exact prun_l2_firmly_nonexpansive. Qed.
Print Assumptions C12_prun_l2_firmly_nonexpansive.

(* ---- procrustes and svd_thresholding, from the exact contract of the SVD oracle (U: m x k with orthonormal columns, V: k x n with
   orthonormal rows, s >= 0, M = U diag(s) V entrywise; mfun A i j = entry (i, j) of the list-of-rows matrix A, frob = Frobenius inner
   product, fro2 = squared Frobenius distance, ocols r c A = "the c columns of the r x c matrix A are orthonormal").  No von Neumann
   trace inequality is assumed: the proofs go through Bessel's inequality for the singular vectors.
   procrustes (full): the model's output U V maximises <Q, M> over ALL matrices Q with orthonormal columns or orthonormal rows, is a
   nearest such matrix to M, is itself such a matrix when V (resp. U) is a square orthogonal matrix (tall / wide input), and equals M when M
   already is such a matrix (idempotence: all singular values are then 1, whatever decomposition the oracle returns).
   svd_thresholding (full): exact minimiser over all matrices with the nuclear norm in dual form (C12_svt_optimal below).
   svd_thresholding is firmly non-expansive (full: |X1 - X2|_F^2 <= <X1 - X2, M1 - M2> for two inputs, each with the oracle's decomposition). *)
Theorem C12_procrustes_max : forall (m n k : nat) (U : list (list R)) (s : list R) (V M : list (list R)),
  (1 <= k)%nat -> rect m k U -> length s = k -> rect k n V -> ocols m k (mfun U) -> ocols n k (fun j l => mfun V l j) ->
  Forall (fun x => 0 <= x) s -> (forall i j, (i < m)%nat -> (j < n)%nat -> mfun M i j = compose k (mfun U) (vfun s) (mfun V) i j) ->
  forall Q : nat -> nat -> R, ocols m n Q \/ ocols n m (fun j i => Q i j) ->
  frob m n Q (mfun M) <= frob m n (mfun (procrustes_with Rops U V)) (mfun M).
Proof. exact procrustes_list_max. Qed.
Print Assumptions C12_procrustes_max.
Theorem C12_procrustes_nearest : forall (m n k : nat) (U : list (list R)) (s : list R) (V M : list (list R)),
  (1 <= k)%nat -> rect m k U -> length s = k -> rect k n V -> ocols m k (mfun U) -> ocols n k (fun j l => mfun V l j) ->
  Forall (fun x => 0 <= x) s -> (forall i j, (i < m)%nat -> (j < n)%nat -> mfun M i j = compose k (mfun U) (vfun s) (mfun V) i j) ->
  forall Q : nat -> nat -> R, (ocols m n Q /\ n = k) \/ (ocols n m (fun j i => Q i j) /\ m = k) ->
  fro2 m n (mfun (procrustes_with Rops U V)) (mfun M) <= fro2 m n Q (mfun M).
Proof. exact procrustes_list_nearest_set. Qed.
Print Assumptions C12_procrustes_nearest.
Theorem C12_procrustes_feasible : forall (m n k : nat) (U V : list (list R)),
  (1 <= k)%nat -> rect m k U -> rect k n V -> ocols m k (mfun U) -> ocols n k (fun j l => mfun V l j) ->
  (ocols k n (mfun V) -> ocols m n (mfun (procrustes_with Rops U V))) /\
  (ocols k m (fun l i => mfun U i l) -> ocols n m (fun j i => mfun (procrustes_with Rops U V) i j)).
Proof. exact procrustes_list_feasible. Qed.
Print Assumptions C12_procrustes_feasible.
Theorem C12_procrustes_idempotent : forall (m n k : nat) (U : list (list R)) (s : list R) (V M : list (list R)),
  (1 <= k)%nat -> rect m k U -> length s = k -> rect k n V -> ocols m k (mfun U) -> ocols n k (fun j l => mfun V l j) ->
  Forall (fun x => 0 <= x) s -> (forall i j, (i < m)%nat -> (j < n)%nat -> mfun M i j = compose k (mfun U) (vfun s) (mfun V) i j) ->
  ocols m n (mfun M) \/ ocols n m (fun j i => mfun M i j) ->
  forall i j, (i < m)%nat -> (j < n)%nat -> mfun (procrustes_with Rops U V) i j = mfun M i j.
Proof. exact procrustes_list_fixed. Qed.
Print Assumptions C12_procrustes_idempotent.
Theorem C12_svt_firmly_nonexpansive : forall m n t k1 U1 s1 V1 M1 k2 U2 s2 V2 M2, 0 <= t ->
  (1 <= k1)%nat -> rect m k1 U1 -> length s1 = k1 -> rect k1 n V1 -> ocols m k1 (mfun U1) -> ocols n k1 (fun j l => mfun V1 l j) ->
  Forall (fun x => 0 <= x) s1 -> (forall i j, (i < m)%nat -> (j < n)%nat -> mfun M1 i j = compose k1 (mfun U1) (vfun s1) (mfun V1) i j) ->
  (1 <= k2)%nat -> rect m k2 U2 -> length s2 = k2 -> rect k2 n V2 -> ocols m k2 (mfun U2) -> ocols n k2 (fun j l => mfun V2 l j) ->
  Forall (fun x => 0 <= x) s2 -> (forall i j, (i < m)%nat -> (j < n)%nat -> mfun M2 i j = compose k2 (mfun U2) (vfun s2) (mfun V2) i j) ->
  let X1 := mfun (svd_thresholding_with Rops U1 s1 V1 t) in let X2 := mfun (svd_thresholding_with Rops U2 s2 V2 t) in
  frob m n (fun i j => X1 i j - X2 i j) (fun i j => X1 i j - X2 i j)
  <= frob m n (fun i j => X1 i j - X2 i j) (fun i j => mfun M1 i j - mfun M2 i j).
Proof. exact svt_list_firmly_nonexpansive. Qed.
Print Assumptions C12_svt_firmly_nonexpansive.
(* svd_thresholding is the exact minimiser of t |Z|_nuc + |Z - M|_F^2 / 2 over ALL matrices Z.  The nuclear norm is taken in its dual form
   (ProxProofsSvt.v): spec_le c W = the bilinear form of W is at most c on unit vectors (spectral norm <= c); nuc_le Z nu = <W, Z> <= nu for every
   W with spec_le 1 W (nu is an upper bound of the nuclear norm); is_nuc Z nu = moreover attained (nu IS the nuclear norm).  No decomposition of
   the competitor is assumed.  C12_svt_nuclear_norm: the value the objective uses for the output, sum soft_t(s), is its nuclear norm;
   C12_nuclear_norm_of_svd: for a matrix given with a decomposition satisfying the contract, sum s' is its nuclear norm, hence
   C12_svt_optimal_svd (the competitor's decomposition handed in as data, the status of every LAPACK answer here) is an instance. *)
Theorem C12_svt_optimal : forall (m n k : nat) (U : list (list R)) (s : list R) (V M : list (list R)),
  (1 <= k)%nat -> rect m k U -> length s = k -> rect k n V -> ocols m k (mfun U) -> ocols n k (fun j l => mfun V l j) ->
  Forall (fun x => 0 <= x) s -> (forall i j, (i < m)%nat -> (j < n)%nat -> mfun M i j = compose k (mfun U) (vfun s) (mfun V) i j) ->
  forall (t : R) (Z : nat -> nat -> R) (nu : R), 0 <= t -> nuc_le m n Z nu ->
  t * lsum Rops (soft_thresholding Rops t s) + fro2 m n (mfun (svd_thresholding_with Rops U s V t)) (mfun M) / 2
  <= t * nu + fro2 m n Z (mfun M) / 2.
Proof. exact svt_list_optimal_full. Qed.
Print Assumptions C12_svt_optimal.
Theorem C12_svt_nuclear_norm : forall (m n k : nat) (U : list (list R)) (s : list R) (V : list (list R)),
  (1 <= k)%nat -> rect m k U -> length s = k -> rect k n V -> ocols m k (mfun U) -> ocols n k (fun j l => mfun V l j) ->
  Forall (fun x => 0 <= x) s -> forall t, 0 <= t ->
  is_nuc m n (mfun (svd_thresholding_with Rops U s V t)) (lsum Rops (soft_thresholding Rops t s)).
Proof. exact svt_list_output_nuc. Qed.
Print Assumptions C12_svt_nuclear_norm.
Theorem C12_nuclear_norm_of_svd : forall (m n k : nat) (U V : nat -> nat -> R), ocols m k U -> ocols n k (fun j l => V l j) ->
  forall a : nat -> R, (forall l, (l < k)%nat -> 0 <= a l) -> is_nuc m n (compose k U a V) (rsum k a).
Proof. exact nuc_compose. Qed.
Print Assumptions C12_nuclear_norm_of_svd.
Theorem C12_svt_optimal_svd : forall (m n k : nat) (U : list (list R)) (s : list R) (V M : list (list R)),
  (1 <= k)%nat -> rect m k U -> length s = k -> rect k n V -> ocols m k (mfun U) -> ocols n k (fun j l => mfun V l j) ->
  Forall (fun x => 0 <= x) s -> (forall i j, (i < m)%nat -> (j < n)%nat -> mfun M i j = compose k (mfun U) (vfun s) (mfun V) i j) ->
  forall (t : R) (k' : nat) (U' : nat -> nat -> R) (s' : nat -> R) (V' : nat -> nat -> R), 0 <= t ->
  ocols m k' U' -> ocols n k' (fun j l => V' l j) -> (forall l, (l < k')%nat -> 0 <= s' l) ->
  t * lsum Rops (soft_thresholding Rops t s) + fro2 m n (mfun (svd_thresholding_with Rops U s V t)) (mfun M) / 2
  <= t * rsum k' s' + fro2 m n (compose k' U' s' V') (mfun M) / 2.
Proof. exact svt_list_optimal. Qed.
Print Assumptions C12_svt_optimal_svd.

(* ---- round 7: "projections are idempotent" for every projection of the property's list, end to end.
   l1-ball operator: a column on or outside the ball, or without a zero entry (then the first application lands on the sphere |x|_1 = p),
   is fixed by the second application; a column inside the ball WITH a zero entry is not (exact witness; same deliberately unfixed operator).
   normalised sparsity: the second call asks tl.norm again; under the contract of both tape values it returns the first result.
   unimodality_prox: P(P(v)) <> P(v) (exact witness).  C12_prun_idempotent_all / C12_proximal_operator_idempotent_all: the second call of
   proximal_operator with the same keyword arguments (o' = the operator selected for it; only the norm tape may differ) returns the first result
   for non-negativity, simplex (p > 0), monotonicity, hard sparsity, max-normalisation (non-zero tensor), normalised sparsity, the l1-ball operator
   (each column on / outside the ball or without zeros) and the identity. *)
Theorem C12_l1ball_nonzero_feasible : forall p v, 0 < p -> v <> [] -> Forall (fun b => b <> 0) v -> l1n Rops (soft_sparsity_prox Rops p v) = p.
Proof. exact l1ball_nonzero_feasible. Qed.
Print Assumptions C12_l1ball_nonzero_feasible.
Theorem C12_l1ball_idempotent : forall p v, 0 < p -> (p <= l1n Rops v \/ (v <> [] /\ Forall (fun b => b <> 0) v)) ->
  soft_sparsity_prox Rops p (soft_sparsity_prox Rops p v) = soft_sparsity_prox Rops p v.
Proof. exact l1ball_idempotent. Qed.
Print Assumptions C12_l1ball_idempotent.
Theorem C12_l1ball_idempotent_refuted : exists (p : Q) (v : list Q),
  Qle_bool (l1n Qops v) p = true /\
  (let P := soft_sparsity_prox Qops p in
   forallb (fun xy : Q * Q => Qeq_bool (fst xy) (snd xy)) (combine (P (P v)) (P v)) = false).
Proof. exact l1ball_idempotent_refuted. Qed.
Print Assumptions C12_l1ball_idempotent_refuted.
Theorem C12_unimodal_idempotent_refuted : exists (v : list Q),
  unimodalb Qops v = true /\
  (let P := fun w => hd [] (unimodality_cols Qops [w]) in
   forallb (fun xy : Q * Q => Qeq_bool (fst xy) (snd xy)) (combine (P (P v)) (P v)) = false).
Proof. exact unimodal_idempotent_refuted. Qed.
Print Assumptions C12_unimodal_idempotent_refuted.
Theorem C12_normalized_sparsity_idempotent_tape : forall s s' k v, 0 < s -> s * s = sumsq Rops (hard_thresholding Rops k v) ->
  0 < s' -> s' * s' = sumsq Rops (hard_thresholding Rops k (normalized_sparsity_with Rops s k v)) ->
  normalized_sparsity_with Rops s' k (normalized_sparsity_with Rops s k v) = normalized_sparsity_with Rops s k v.
Proof. exact normalized_sparsity_idempotent2. Qed.
Print Assumptions C12_normalized_sparsity_idempotent_tape.
Theorem C12_prun_idempotent_all : forall o o' nr nc X, (1 <= nr)%nat -> (1 <= nc)%nat -> rect nr nc X -> idem_side2 o o' X ->
  prun Rops o' (prun Rops o X) = prun Rops o X.
Proof. exact prun_idempotent2. Qed.
Print Assumptions C12_prun_idempotent_all.
Theorem C12_proximal_operator_idempotent_all : forall n_const order specs aux aux' nr nc X Y o o',
  (1 <= nr)%nat -> (1 <= nc)%nat -> rect nr nc X ->
  selected_pop Q2R n_const order specs aux = Ok o -> selected_pop Q2R n_const order specs aux' = Ok o' -> idem_side2 o o' X ->
  proximal_operator Rops Q2R n_const order specs aux X = Ok Y -> proximal_operator Rops Q2R n_const order specs aux' Y = Ok Y.
Proof. exact proximal_operator_idempotent2. Qed.
Print Assumptions C12_proximal_operator_idempotent_all.

(* ---- round 7: svd_thresholding WITHOUT the exact contract of the SVD oracle (Proofs/ProxProofsSvtPerturb.v; fro2f A B = |A - B|_F^2).
   C12_svt_certificate: for ANY X, M, any W in the spectral unit ball and t >= 0, every competitor Z has
     t <W, X> + |X - M|^2 / 2 - |M - X - t W|^2 / 2 <= t |Z|_nuc + |Z - M|^2 / 2   (a dual certificate bounds the suboptimality of X).
   C12_approx_bessel / C12_approx_spectral_bound: if the Gram matrix of the columns of U and of the rows of V is within e of the identity
     ENTRYWISE (aocols: the clause the per-run check decides on the recorded LAPACK answer with e = 1e-9) and k e < 1, then
     (1 - k e) U diag(g) V has spectral norm <= t for 0 <= g <= t.
   C12_svt_perturbed: hence, for X = U diag(sf) V and the certificate W = (1 - k e) U diag(w) V with ANY weights 0 <= w <= 1, the bound above
     holds; nothing is assumed about M (the reconstruction error of the tape enters through the residual |M - X - t W|).
   C12_approx_nuclear_bound: (1 + e) sum a is an upper bound of the nuclear norm of U diag(a) V, so the objective the code's X attains exceeds the
     minimum by at most  t ((1 + e) sum sf - <W, X>) + |M - X - t W|_F^2 / 2,  an expression in the tape alone.
   C12_svt_perturbed_exact: with the exact contract (e = 0, w = g / t) that expression is 0: the optimality theorem C12_svt_optimal is the limit case. *)
Theorem C12_svt_certificate : forall (m n : nat) (X M W Z : nat -> nat -> R) (t nu : R), 0 <= t -> spec_le m n 1 W -> nuc_le m n Z nu ->
  t * frob m n W X + fro2f m n X M / 2 - fro2f m n M (fun i j => X i j + t * W i j) / 2 <= t * nu + fro2f m n Z M / 2.
Proof. exact svt_certificate. Qed.
Print Assumptions C12_svt_certificate.
Theorem C12_approx_bessel : forall rows cols e A u, aocols rows cols e A ->
  (1 - INR cols * e) * rsum cols (fun l => (rsum rows (fun i => u i * A i l))^2) <= rsum rows (fun i => (u i)^2).
Proof. exact abessel. Qed.
Print Assumptions C12_approx_bessel.
Theorem C12_approx_spectral_bound : forall (m n k : nat) (U V : nat -> nat -> R) (e : R),
  aocols m k e U -> aocols n k e (fun j l => V l j) -> INR k * e < 1 ->
  forall g t, 0 <= t -> (forall l, (l < k)%nat -> 0 <= g l <= t) -> spec_le m n t (fun i j => (1 - INR k * e) * compose k U g V i j).
Proof. exact aspec_le. Qed.
Print Assumptions C12_approx_spectral_bound.
Theorem C12_svt_perturbed : forall (m n k : nat) (U V : nat -> nat -> R) (e : R),
  aocols m k e U -> aocols n k e (fun j l => V l j) -> INR k * e < 1 ->
  forall (M : nat -> nat -> R) (sf w : nat -> R) (t : R), 0 <= t -> (forall l, (l < k)%nat -> 0 <= w l <= 1) ->
  forall (Z : nat -> nat -> R) (nu : R), nuc_le m n Z nu ->
  let X := compose k U sf V in let W := fun i j => (1 - INR k * e) * compose k U w V i j in
  t * frob m n W X + fro2f m n X M / 2 - fro2f m n M (fun i j => X i j + t * W i j) / 2 <= t * nu + fro2f m n Z M / 2.
Proof. exact svt_perturbed. Qed.
Print Assumptions C12_svt_perturbed.
Theorem C12_approx_nuclear_bound : forall m n k U V e a, aocols m k e U -> aocols n k e (fun j l => V l j) ->
  (forall l, (l < k)%nat -> 0 <= a l) -> nuc_le m n (compose k U a V) ((1 + e) * rsum k a).
Proof. exact anuc_compose. Qed.
Print Assumptions C12_approx_nuclear_bound.
Theorem C12_svt_perturbed_exact : forall m n k U V s sf g w t, ocols m k U -> ocols n k (fun j l => V l j) -> 0 < t ->
  (forall l, (l < k)%nat -> s l = sf l + g l) -> (forall l, (l < k)%nat -> g l = t * w l) ->
  (forall l, (l < k)%nat -> sf l * g l = t * sf l) ->
  let X := compose k U sf V in let W := fun i j => (1 - INR k * 0) * compose k U w V i j in let M := compose k U s V in
  frob m n W X = rsum k sf /\ fro2f m n M (fun i j => X i j + t * W i j) = 0.
Proof. exact svt_perturbed_exact. Qed.
Print Assumptions C12_svt_perturbed_exact.

(* ---- round 7: the same at the level of the list model and of the executed rational instance (Model/ProxSvtGap.svt_gap: an arithmetic expression in
   the recorded answer (U, s, V), the threshold and the input M).  For ANY recorded answer whose singular vectors are orthonormal to within e
   entrywise (k e < 1) and s >= 0 - nothing is assumed about M = U diag(s) V - the matrix X the model returns satisfies
     t |X|_nuc + |X - M|^2 / 2 <= t (1 + e) sum soft_t(s) + |X - M|^2 / 2 <= t |Z|_nuc + |Z - M|^2 / 2 + svt_gap e U s V t M     for every matrix Z.
   The per-run correspondence evaluates svt_gap exactly in Q on every svd_thresholding case (e = 1e-9) and requires it to be at most
   1e-7 (t sum soft_t(s) + |M|^2 / 2): that is the tolerance the check implies for the optimality of the returned matrix. *)
Theorem C12_svt_output_nuclear_bound : forall (m n k : nat) (U : list (list R)) (s : list R) (V : list (list R)) (e t : R),
  (1 <= k)%nat -> rect m k U -> length s = k -> rect k n V -> aocols m k e (mfun U) -> aocols n k e (fun j l => mfun V l j) ->
  Forall (fun x => 0 <= x) s -> 0 <= t ->
  nuc_le m n (mfun (svd_thresholding_with Rops U s V t)) ((1 + e) * lsum Rops (soft_thresholding Rops t s)).
Proof. exact svt_output_nuc_bound. Qed.
Print Assumptions C12_svt_output_nuclear_bound.
Theorem C12_svt_gap_sound : forall (m n k : nat) (U : list (list R)) (s : list R) (V M : list (list R)) (e t : R),
  (1 <= k)%nat -> rect m k U -> length s = k -> rect k n V -> rect m n M ->
  aocols m k e (mfun U) -> aocols n k e (fun j l => mfun V l j) -> INR k * e < 1 -> Forall (fun x => 0 <= x) s -> 0 <= t ->
  forall (Z : nat -> nat -> R) (nu : R), nuc_le m n Z nu ->
  t * ((1 + e) * lsum Rops (soft_thresholding Rops t s)) + fro2 m n (mfun (svd_thresholding_with Rops U s V t)) (mfun M) / 2
  <= t * nu + fro2 m n Z (mfun M) / 2 + svt_gap Rops e U s V t M.
Proof. exact svt_gap_sound. Qed.
Print Assumptions C12_svt_gap_sound.
Theorem C12_svt_gap_exec_sound : forall (m n k : nat) (U : list (list Q)) (s : list Q) (V M : list (list Q)) (e t : Q),
  (1 <= k)%nat -> rect m k (map (map Q2R) U) -> length s = k -> rect k n (map (map Q2R) V) -> rect m n (map (map Q2R) M) ->
  aocols m k (Q2R e) (mfun (map (map Q2R) U)) -> aocols n k (Q2R e) (fun j l => mfun (map (map Q2R) V) l j) -> INR k * Q2R e < 1 ->
  Forall (fun x => 0 <= x) (map Q2R s) -> 0 <= Q2R t ->
  forall (Z : nat -> nat -> R) (nu : R), nuc_le m n Z nu ->
  let X := mfun (map (map Q2R) (svd_thresholding_with Qops U s V t)) in
  nuc_le m n X ((1 + Q2R e) * lsum Rops (soft_thresholding Rops (Q2R t) (map Q2R s))) /\
  Q2R t * ((1 + Q2R e) * lsum Rops (soft_thresholding Rops (Q2R t) (map Q2R s))) + fro2 m n X (mfun (map (map Q2R) M)) / 2
  <= Q2R t * nu + fro2 m n Z (mfun (map (map Q2R) M)) / 2 + Q2R (svt_gap Qops e U s V t M).
Proof. exact svt_gap_exec_sound. Qed.
Print Assumptions C12_svt_gap_exec_sound.

(* ---- round 7: the per-case certificate.  Corr/C12.svt_case_ok is a BOOLEAN evaluated by the correspondence on the rational data of every svd_thresholding
   case (shapes, s >= 0, t >= 0, both Gram matrices of the recorded answer within 1e-9 of the identity entrywise, in exact arithmetic); when it is true
   the matrix the executed model returns is optimal up to the rational number svt_gap computes - no hypothesis about the SVD oracle is left.
   C12_tape_gram_aocols: the entrywise comparison the correspondence computes IS the hypothesis aocols of the perturbation theorems. *)
Theorem C12_tape_gram_aocols : forall m k (U : list (list Q)) (e : Q), (1 <= m)%nat -> (1 <= k)%nat -> rect m k (map (map Q2R) U) ->
  C12.rows_close e 0 (gram_cols Qops U) (identity_mat Qops k) = true -> aocols m k (Q2R e) (mfun (map (map Q2R) U)).
Proof. exact gram_cols_close_aocols. Qed.
Print Assumptions C12_tape_gram_aocols.
Theorem C12_svt_case_certified : forall (m n k : nat) (U : list (list Q)) (s : list Q) (V M : list (list Q)) (t : Q),
  C12.svt_case_ok m n k U s V M t = true ->
  forall (Z : nat -> nat -> R) (nu : R), nuc_le m n Z nu ->
  let e := (1 # 1000000000)%Q in
  let X := mfun (map (map Q2R) (svd_thresholding_with Qops U s V t)) in
  nuc_le m n X ((1 + Q2R e) * lsum Rops (soft_thresholding Rops (Q2R t) (map Q2R s))) /\
  Q2R t * ((1 + Q2R e) * lsum Rops (soft_thresholding Rops (Q2R t) (map Q2R s))) + fro2 m n X (mfun (map (map Q2R) M)) / 2
  <= Q2R t * nu + fro2 m n Z (mfun (map (map Q2R) M)) / 2 + Q2R (svt_gap Qops e U s V t M).
Proof. exact svt_case_certified. Qed.
Print Assumptions C12_svt_case_certified.

(* ---- round 7: procrustes WITHOUT the exact contract of the SVD oracle.  C12_procrustes_perturbed (index functions): for singular vectors orthonormal to
   within e entrywise, s >= 0, ANY M and any weight d > 0, every Q with orthonormal columns or rows has
     <Q, M> <= (1 + e) sum s + (d max(m, n) + |M - U diag(s) V|_F^2 / d) / 2;
   C12_procrustes_gap_sound (list model) and C12_procrustes_case_certified (per-case certificate from the Boolean Corr/C12.procrustes_case_ok the correspondence
   evaluates): <Q, M> <= <U V, M> + procrustes_gap, the maximisation clause of C12_procrustes_max up to a rational number computed from the recorded answer
   (required <= 1e-7 sum s per case).  Feasibility of U V (orthonormal columns / rows) under the approximate contract is not proved (tested: Gram matrix of the
   implementation's output within 1e-9 of the identity). *)
Theorem C12_procrustes_perturbed : forall (m n k : nat) (U V : nat -> nat -> R) (s : nat -> R) (e : R),
  aocols m k e U -> aocols n k e (fun j l => V l j) -> (forall l, (l < k)%nat -> 0 <= s l) ->
  forall (M Q : nat -> nat -> R) (d : R), 0 < d -> ocols m n Q \/ ocols n m (fun j i => Q i j) ->
  frob m n Q M <= (1 + e) * rsum k s + (d * INR (Nat.max m n) + fro2f m n M (compose k U s V) / d) / 2.
Proof. exact procrustes_perturbed. Qed.
Print Assumptions C12_procrustes_perturbed.
Theorem C12_procrustes_gap_sound : forall (m n k : nat) (U : list (list R)) (s : list R) (V M : list (list R)) (e d : R),
  (1 <= m)%nat -> (1 <= k)%nat -> rect m k U -> length s = k -> rect k n V -> rect m n M ->
  aocols m k e (mfun U) -> aocols n k e (fun j l => mfun V l j) -> Forall (fun x => 0 <= x) s -> 0 < d ->
  forall Q : nat -> nat -> R, ocols m n Q \/ ocols n m (fun j i => Q i j) ->
  frob m n Q (mfun M) <= frob m n (mfun (procrustes_with Rops U V)) (mfun M) + procrustes_gap Rops e d U s V M.
Proof. exact procrustes_gap_sound. Qed.
Print Assumptions C12_procrustes_gap_sound.
Theorem C12_procrustes_case_certified : forall (m n k : nat) (U : list (list Q)) (s : list Q) (V M : list (list Q)) (d : Q),
  C12.procrustes_case_ok m n k U s V M d = true ->
  forall Qm : nat -> nat -> R, ocols m n Qm \/ ocols n m (fun j i => Qm i j) ->
  frob m n Qm (mfun (map (map Q2R) M))
  <= frob m n (mfun (map (map Q2R) (procrustes_with Qops U V))) (mfun (map (map Q2R) M))
     + Q2R (procrustes_gap Qops (1 # 1000000000) d U s V M).
Proof. exact procrustes_case_certified. Qed.
Print Assumptions C12_procrustes_case_certified.

(* ---- round 8: firm non-expansiveness of svd_thresholding and feasibility / nearest point / idempotence of procrustes WITHOUT the exact contract of
   the SVD oracle (Proofs/ProxProofsSvtFirmGap.v, Proofs/ProxProofsProcrustesFeas.v).
   C12_svt_approx_firm: if X1, X2 are g1-, g2-approximate minimisers of t |Z|_nuc + |Z - M1|^2 / 2, resp. ... M2 (the hypotheses are literally the conclusion
     of C12_svt_gap_sound / C12_svt_case_certified), then for EVERY 0 <= lam <= 1:  lam (1 - lam) |X1 - X2|^2 <= lam <X1 - X2, M1 - M2> + g1 + g2;
     nothing is assumed about M1, M2, t.  C12_svt_firm_exact_limit: with g1 = g2 = 0 this family IS firm non-expansiveness (lam -> 0), so
     C12_svt_firmly_nonexpansive is the limit case.
   C12_svt_firm_case_certified: for two svd_thresholding cases whose Boolean Corr/C12.svt_case_ok holds (evaluated per case by the correspondence),
     the matrices the executed model returns satisfy the inequality with g_i = svt_gap of case i (each required <= 1e-7 (t sum soft(s) + |M|^2 / 2) per case).
   C12_procrustes_feasible_case_certified: the Boolean Corr/C12.procrustes_feasible_ok (evaluated per procrustes case on the model's output, exact
     arithmetic) IS approximate feasibility: columns (n <= m) resp. rows (m < n) orthonormal to within 1e-9 entrywise.
   C12_procrustes_nearest_case_certified: with procrustes_case_ok as well, the returned matrix is a nearest point of the set up to
     min(m, n) 1e-9 + 2 procrustes_gap (squared Frobenius distance), over ALL matrices with orthonormal columns (n <= m) or rows (m <= n);
   C12_procrustes_fixed_case_certified: an input that already lies in the set is moved by at most that much (idempotence up to the certificate).
   Exact feasibility of U V from an approximate SVD contract alone (no Boolean on the output) is not proved. *)
Theorem C12_svt_approx_firm : forall (m n : nat) (X1 X2 M1 M2 : nat -> nat -> R) (t nu1 nu2 g1 g2 : R),
  nuc_le m n X1 nu1 -> nuc_le m n X2 nu2 ->
  (forall (Z : nat -> nat -> R) (nu : R), nuc_le m n Z nu -> t * nu1 + fro2 m n X1 M1 / 2 <= t * nu + fro2 m n Z M1 / 2 + g1) ->
  (forall (Z : nat -> nat -> R) (nu : R), nuc_le m n Z nu -> t * nu2 + fro2 m n X2 M2 / 2 <= t * nu + fro2 m n Z M2 / 2 + g2) ->
  forall lam, 0 <= lam <= 1 ->
  lam * (1 - lam) * fro2 m n X1 X2 <= lam * frob m n (fun i j => X1 i j - X2 i j) (fun i j => M1 i j - M2 i j) + g1 + g2.
Proof. exact approx_firm. Qed.
Print Assumptions C12_svt_approx_firm.
Theorem C12_svt_firm_exact_limit : forall (m n : nat) (X1 X2 M1 M2 : nat -> nat -> R) (t nu1 nu2 : R),
  nuc_le m n X1 nu1 -> nuc_le m n X2 nu2 ->
  (forall Z nu, nuc_le m n Z nu -> t * nu1 + fro2 m n X1 M1 / 2 <= t * nu + fro2 m n Z M1 / 2 + 0) ->
  (forall Z nu, nuc_le m n Z nu -> t * nu2 + fro2 m n X2 M2 / 2 <= t * nu + fro2 m n Z M2 / 2 + 0) ->
  fro2 m n X1 X2 <= frob m n (fun i j => X1 i j - X2 i j) (fun i j => M1 i j - M2 i j).
Proof. exact approx_firm_exact. Qed.
Print Assumptions C12_svt_firm_exact_limit.
Theorem C12_svt_firm_case_certified : forall (m n k1 k2 : nat) (U1 : list (list Q)) (s1 : list Q) (V1 M1 : list (list Q))
    (U2 : list (list Q)) (s2 : list Q) (V2 M2 : list (list Q)) (t : Q),
  C12.svt_case_ok m n k1 U1 s1 V1 M1 t = true -> C12.svt_case_ok m n k2 U2 s2 V2 M2 t = true ->
  forall lam : R, 0 <= lam <= 1 ->
  let e := (1 # 1000000000)%Q in
  let X1 := mfun (map (map Q2R) (svd_thresholding_with Qops U1 s1 V1 t)) in
  let X2 := mfun (map (map Q2R) (svd_thresholding_with Qops U2 s2 V2 t)) in
  lam * (1 - lam) * fro2 m n X1 X2
  <= lam * frob m n (fun i j => X1 i j - X2 i j) (fun i j => mfun (map (map Q2R) M1) i j - mfun (map (map Q2R) M2) i j)
     + Q2R (svt_gap Qops e U1 s1 V1 t M1) + Q2R (svt_gap Qops e U2 s2 V2 t M2).
Proof. exact svt_firm_case_certified. Qed.
Print Assumptions C12_svt_firm_case_certified.
Theorem C12_procrustes_feasible_case_certified : forall (m n : nat) (X : list (list Q)),
  C12.procrustes_feasible_ok m n X = true ->
  ((n <= m)%nat -> aocols m n (Q2R (1 # 1000000000)) (mfun (map (map Q2R) X))) /\
  ((m < n)%nat -> aocols n m (Q2R (1 # 1000000000)) (fun j i => mfun (map (map Q2R) X) i j)).
Proof. exact procrustes_feasible_case_certified. Qed.
Print Assumptions C12_procrustes_feasible_case_certified.
Theorem C12_procrustes_nearest_case_certified : forall (m n k : nat) (U : list (list Q)) (s : list Q) (V M : list (list Q)) (d : Q),
  C12.procrustes_case_ok m n k U s V M d = true -> C12.procrustes_feasible_ok m n (procrustes_with Qops U V) = true ->
  forall Qm : nat -> nat -> R, (ocols m n Qm /\ (n <= m)%nat) \/ (ocols n m (fun j i => Qm i j) /\ (m <= n)%nat) ->
  let X := mfun (map (map Q2R) (procrustes_with Qops U V)) in
  fro2 m n X (mfun (map (map Q2R) M))
  <= fro2 m n Qm (mfun (map (map Q2R) M)) + INR (Nat.min m n) * Q2R (1 # 1000000000) + 2 * Q2R (procrustes_gap Qops (1 # 1000000000) d U s V M).
Proof. exact procrustes_nearest_case_certified. Qed.
Print Assumptions C12_procrustes_nearest_case_certified.
Theorem C12_procrustes_fixed_case_certified : forall (m n k : nat) (U : list (list Q)) (s : list Q) (V M : list (list Q)) (d : Q),
  C12.procrustes_case_ok m n k U s V M d = true -> C12.procrustes_feasible_ok m n (procrustes_with Qops U V) = true ->
  let Mf := mfun (map (map Q2R) M) in
  (ocols m n Mf /\ (n <= m)%nat) \/ (ocols n m (fun j i => Mf i j) /\ (m <= n)%nat) ->
  fro2 m n (mfun (map (map Q2R) (procrustes_with Qops U V))) Mf
  <= INR (Nat.min m n) * Q2R (1 # 1000000000) + 2 * Q2R (procrustes_gap Qops (1 # 1000000000) d U s V M).
Proof. exact procrustes_fixed_case_certified. Qed.
Print Assumptions C12_procrustes_fixed_case_certified.

(* ---- round 8: feasibility of procrustes from the APPROXIMATE contract alone (a perturbation theorem; Proofs/ProxProofsProcrustesFeasPerturb.v).
   If the columns of U are orthonormal to within e entrywise and so are the columns of V (tall / square input: the extra clause of C12_procrustes_feasible in
   approximate form - both are decided per case on the recorded answer with e = 1e-9 by Corr/C12.svd_tape_ok), the columns of U V are orthonormal to within
   e (1 + k (1 + e)); symmetrically for the rows of U V from the rows of V and of U (wide / square input).  e = 0 gives C12_procrustes_feasible. *)
Theorem C12_procrustes_feasible_perturbed : forall (m n k : nat) (U V : nat -> nat -> R) (e : R),
  (aocols m k e U -> aocols k n e V -> aocols m n (e * (1 + INR k * (1 + e))) (compose k U (fun _ => 1) V)) /\
  (aocols n k e (fun j l => V l j) -> aocols k m e (fun l i => U i l) -> aocols n m (e * (1 + INR k * (1 + e))) (fun j i => compose k U (fun _ => 1) V i j)).
Proof. exact procrustes_feasible_perturbed. Qed.
Print Assumptions C12_procrustes_feasible_perturbed.
Theorem C12_procrustes_list_feasible_perturbed : forall (m n k : nat) (U V : list (list R)) (e : R),
  (1 <= k)%nat -> rect m k U -> rect k n V -> aocols m k e (mfun U) -> aocols n k e (fun j l => mfun V l j) ->
  (aocols k n e (mfun V) -> aocols m n (e * (1 + INR k * (1 + e))) (mfun (procrustes_with Rops U V))) /\
  (aocols k m e (fun l i => mfun U i l) -> aocols n m (e * (1 + INR k * (1 + e))) (fun j i => mfun (procrustes_with Rops U V) i j)).
Proof. exact procrustes_list_feasible_perturbed. Qed.
Print Assumptions C12_procrustes_list_feasible_perturbed.

(* ---- round 7: smoothness_prox / proximal_operator(smoothness=t) on a tensor with three or more dimensions, the code as it is
   (Model/ProxDispatch.smooth_nd: NumPy's stacked solve of the shape[0] x shape[0] system against the shape[-2] x shape[-1] slices): the call raises
   exactly when shape[-2] <> shape[0]; otherwise the result is, slice by slice and column by column, the solution of the coded tridiagonal system and
   the minimiser of the smoothness objective ALONG AXIS -2 of the slice (for three dimensions axis 1, not axis 0: the repair candidate
   build/fix_candidates/C12_smoothness_ndim.* is not applied) *)
Theorem C12_smooth_nd_raises_iff : forall F (Op : fops F) t d0 p rows, smooth_nd Op t d0 p rows = Err <-> p <> d0.
Proof. exact @smooth_nd_raises_iff. Qed.
Print Assumptions C12_smooth_nd_raises_iff.
Theorem C12_smooth_nd_sound : forall t d0 p q (slices : list (list (list R))) Y, 0 <= t -> (1 <= p)%nat -> (1 <= q)%nat ->
  Forall (rect p q) slices -> smooth_nd Rops t d0 p (concat slices) = Ok Y ->
  p = d0 /\ Y = concat (smooth_slices Rops t slices) /\
  Forall2 (fun Ys Xs => per_column (fun y v => sm_apply Rops t 0 y = v /\ forall z, length z = length v -> smooth_obj t y v <= smooth_obj t z v) Ys Xs)
          (smooth_slices Rops t slices) slices.
Proof. exact smooth_nd_sound. Qed.
Print Assumptions C12_smooth_nd_sound.

(* ---- deliberately unfixed operators: refutation (exact rational witness on the executed instance) + what holds *)
Theorem C12_l1ball_refuted : exists (p : Q) (v : list Q),
  Qle_bool (l1n Qops v) p = true /\ (dist2 Qops v v < dist2 Qops (soft_sparsity_prox Qops p v) v)%Q.
Proof. exact l1ball_refuted. Qed.
Print Assumptions C12_l1ball_refuted.
(* on or outside the ball (the complement of the refuted class) the coded operator IS the projection onto the l1 ball *)
Theorem C12_l1ball_outside_feasible : forall p v, 0 < p -> p <= l1n Rops v -> l1n Rops (soft_sparsity_prox Rops p v) = p.
Proof. exact l1ball_outside_feasible. Qed.
Print Assumptions C12_l1ball_outside_feasible.
Theorem C12_l1ball_partial : forall p v z, 0 < p -> p <= l1n Rops v -> length z = length v -> l1n Rops z <= p ->
  dist2 Rops (soft_sparsity_prox Rops p v) v <= dist2 Rops z v.
Proof. exact l1ball_outside_optimal. Qed.
Print Assumptions C12_l1ball_partial.
Theorem C12_maxnorm_refuted : exists (v z : list Q),
  Qeq_bool (maxabs Qops z) 1 = true /\ (dist2 Qops z v < dist2 Qops (normalize Qops v) v)%Q.
Proof. exact maxnorm_refuted. Qed.
Print Assumptions C12_maxnorm_refuted.
Theorem C12_maxnorm_partial : forall v, 0 < maxabs Rops v -> maxabs Rops (normalize Rops v) = 1.
Proof. exact maxnorm_partial. Qed.
Print Assumptions C12_maxnorm_partial.
Theorem C12_unimodal_refuted : exists (v : list Q),
  unimodalb Qops v = true /\ (dist2 Qops v v < dist2 Qops (hd [] (unimodality_cols Qops [v])) v)%Q.
Proof. exact unimodal_refuted. Qed.
Print Assumptions C12_unimodal_refuted.

(* what does hold for unimodality_prox: the column assembled at a FLAGGED peak candidate m (v_m >= both monotone fits at m) rises
   up to m and falls from m on; hence the coded single-column output is unimodal whenever the selected index is flagged
   (it is not always: ties with the fill value select unflagged rows, e.g. [1,2] -> index 0; then see C12_unimodal_feasible) *)
Theorem C12_uni_assemble_unimodal : forall v m, (m < length v)%nat ->
  nth m (fst (uni_scores Rops v)) false = true -> unimodal_at m (uni_assemble Rops m v).
Proof. exact uni_assemble_unimodal. Qed.
Print Assumptions C12_uni_assemble_unimodal.
(* unconditionally, for ANY number of columns: every output column of unimodality_prox is unimodal and as long as its input column (when the
   selected index is not flagged it is index 0, and a column assembled there is unimodal too; proof by the builder of C11,
   Proofs/ConstraintsProofsUni.v, over this model) *)
Theorem C12_unimodal_feasible : forall cols : list (list R),
  Forall unimodalP (unimodality_cols Rops cols) /\ map (@length R) (unimodality_cols Rops cols) = map (@length R) cols.
Proof. exact unimodality_cols_feasible. Qed.
Print Assumptions C12_unimodal_feasible.

(* ---- non-vacuity: the hypotheses are satisfiable and the model computes *)
Example C12_nonvacuous_soft :
  soft_thresholding Qops (11#10)%Q [1; -2; (3#2)]%Q = [0; (-9#10); (2#5)]%Q /\
  hard_thresholding Qops 2 [1; -3; 2; (1#2)]%Q = [0; -3; 2; 0]%Q /\
  sm_apply Qops (1#2)%Q 0%Q (smoothness_solve Qops (1#2)%Q [1;2;3]%Q) = [1;2;3]%Q.
Proof. repeat split; vm_compute; reflexivity. Qed.
Example C12_nonvacuous_simplex :
  simplex_prox Qops (13#100)%Q [(4#10); (5#10); (1#10)]%Q = [(3#200); (23#200); 0]%Q /\
  simplex_cert Qops (13#100)%Q (simplex_prox Qops (13#100)%Q [(4#10); (5#10); (1#10)]%Q) = true /\
  Qle_bool (13#100) (l1n Qops [(4#10); (-5#10); (1#10)]%Q) = true /\
  iso_cert Qops [3; -1; 2; 2; -5]%Q (monotonicity_prox Qops false [3; -1; 2; 2; -5]%Q) = true /\
  monotonicity_prox Qops false [3; -1; 2; 2; -5]%Q = [(1#5); (1#5); (1#5); (1#5); (1#5)]%Q.
Proof. repeat split; vm_compute; reflexivity. Qed.
Example C12_nonvacuous_round3 :
  (let sc := uni_scores Qops [1; 2; 3]%Q in
   let gmax := match snd sc with [] => 0%Q | x :: r => maxl Qops x r end in
   let m := argmin Qops (uni_difference gmax sc) in (m, nth m (fst sc) false)) = (2%nat, true) /\
  hd [] (unimodality_cols Qops [[1; 2; 3]%Q]) = [1; 2; 3]%Q /\
  sm_apply Qops (3#1)%Q 0%Q (smoothness_solve Qops (3#1)%Q [1; -2; 5; 0]%Q) = [1; -2; 5; 0]%Q /\
  normalized_sparsity_with Qops 5%Q 2 [3; -4; 1]%Q = [(3#5); (-4#5); 0]%Q.
Proof. repeat split; vm_compute; reflexivity. Qed.
Example C12_nonvacuous_dispatch :
  validate_kwargs 3 1 [(KL1, ZList [None; Some (1#1)%Q; Some (2#1)%Q]); (KNonNeg, ZDict [((-3)%Z, 1%Q)])] = Ok (Some (KL1, (1#1)%Q)) /\
  validate_kwargs 3 0 [(KNonNeg, ZDict [((-3)%Z, 1%Q)]); (KL1, ZList [None; Some (1#1)%Q; Some (2#1)%Q])] = Ok (Some (KNonNeg, 1%Q)) /\
  validate_kwargs 2 1 [(KHardSparsity, ZDict [(0%Z, (3#1)%Q)])] = Ok None /\
  validate_kwargs 3 0 [(KHardSparsity, ZDict [(2%Z, (3#1)%Q)]); (KL1, ZDict [((-1)%Z, 1%Q)])] = Err /\
  validate_kwargs 2 0 [(KL1, ZList [Some 0%Q; Some 1%Q])] = Ok None.
Proof. repeat split; vm_compute; reflexivity. Qed.
(* hypotheses that are not parameter ranges: a valid_ht witness that differs from the model's tie choice; the contract of the norm
   tape; convex_set / convex_fun instances; a rectangular matrix through colwise / flatwise *)
Example C12_nonvacuous_hypotheses :
  valid_ht Qops 2 [1; -3; 2; 3]%Q [0; -3; 0; 3]%Q = true /\
  hard_thresholding Qops 1 [1; -3; 2; 3]%Q = [0; 0; 0; 3]%Q /\ valid_ht Qops 1 [1; -3; 2; 3]%Q [0; -3; 0; 0]%Q = true /\
  Qeq_bool (5 * 5)%Q (sumsq Qops (hard_thresholding Qops 2 [3; -4; 1]%Q)) = true /\
  cols_of Qops (colwise Qops (simplex_prox Qops 1%Q) [[3; 0]; [1; 0]]%Q) = [[1; 0]; [(1#2); (1#2)]]%Q /\
  concat (flatwise (hard_thresholding Qops 1) [[1; -3]; [2; 0]]%Q) = hard_thresholding Qops 1 (concat [[1; -3]; [2; 0]]%Q) /\
  Qle_bool 1%Q (l1n Qops [2; -1]%Q) = true /\ Qeq_bool (l1n Qops (soft_sparsity_prox Qops 1%Q [2; -1]%Q)) 1%Q = true.
Proof. repeat split; vm_compute; reflexivity. Qed.
Example C12_nonvacuous_convexity :
  convex_set 3 (Forall (fun x => 0 <= x)) /\ convex_set 3 ndec /\ convex_set 3 (in_simplex 1) /\
  convex_fun 3 (fun x => 2 * l1n Rops x) /\ convex_fun 3 (fun x => 2 * sqrt (sumsq Rops x)).
Proof. exact convexity_instances. Qed.
Example C12_nonvacuous_rect : rect 2 2 [[3; 0]; [1; 0]].
Proof. repeat constructor. Qed.
(* proximal_operator end to end: a dict keyword with a negative key selects the simplex projection of every column on mode 1, nothing on
   mode 0; a float hard_sparsity parameter keeps ceil(p) entries; a colliding request raises; n_const None returns the tensor *)
Example C12_nonvacuous_proximal_operator :
  proximal_operator Qops (fun q : Q => q) (Some 3%nat) 1 [(KSimplex, ZDict [((-2)%Z, 1%Q)])] 0%Q [[3; 0]; [1; 0]]%Q = Ok [[1; (1#2)]; [0; (1#2)]]%Q /\
  proximal_operator Qops (fun q : Q => q) (Some 3%nat) 0 [(KSimplex, ZDict [((-2)%Z, 1%Q)])] 0%Q [[3; 0]; [1; 0]]%Q = Ok [[3; 0]; [1; 0]]%Q /\
  proximal_operator Qops (fun q : Q => q) (Some 1%nat) 0 [(KHardSparsity, ZScalar (3#2)%Q)] 0%Q [[3; -1]; [2; 0]]%Q = Ok [[3; 0]; [2; 0]]%Q /\
  proximal_operator Qops (fun q : Q => q) (Some 2%nat) 0 [(KL1, ZScalar 1%Q); (KNonNeg, ZDict [(1%Z, 1%Q)])] 0%Q [[3; -1]]%Q = Err /\
  proximal_operator Qops (fun q : Q => q) None 0 [(KL1, ZScalar 1%Q)] 0%Q [[3; -1]]%Q = Ok [[3; -1]]%Q /\
  proximal_operator_nd Qops (fun q : Q => q) 3 (Some 1%nat) 0 [(KMonotone, ZScalar 1%Q)] 0%Q [[3; -1]]%Q = Err /\
  proximal_operator_nd Qops (fun q : Q => q) 3 (Some 1%nat) 0 [(KNonNeg, ZScalar 1%Q)] 0%Q [[3; -1]]%Q = Ok [[3; 0]]%Q /\
  selected_pop_z (fun q : Q => q) (Some 3%nat) (-1)%Z [(KNonNeg, ZDict [(2%Z, 1%Q)])] 0%Q = Ok PNonneg /\
  selected_pop_z (fun q : Q => q) (Some 3%nat) 3%Z [(KNonNeg, ZDict [(2%Z, 1%Q)])] 0%Q = Err.
Proof. repeat split; vm_compute; reflexivity. Qed.
(* the SVD-contract hypotheses of C12_procrustes_* / C12_svt_optimal_partial hold for a 2 x 2 instance (V a permutation matrix) *)
Example C12_nonvacuous_svd_contract :
  let U := [[1; 0]; [0; 1]] in let s := [3; 1] in let V := [[0; 1]; [1; 0]] in let M := [[0; 3]; [1; 0]] in
  rect 2 2 U /\ length s = 2%nat /\ rect 2 2 V /\ ocols 2 2 (mfun U) /\ ocols 2 2 (fun j l => mfun V l j) /\ ocols 2 2 (mfun V) /\
  Forall (fun x => 0 <= x) s /\ (forall i j, (i < 2)%nat -> (j < 2)%nat -> mfun M i j = compose 2 (mfun U) (vfun s) (mfun V) i j) /\
  frob 2 2 (mfun U) (mfun U) = INR 2.
Proof. exact svd_contract_instance. Qed.

(* round 7: a matrix whose columns are only approximately orthonormal satisfies aocols (and k e < 1) but not ocols; the side condition of
   C12_prun_idempotent_all for normalised sparsity is reachable through the dispatch (the two selected operators differ in the tape only) *)
Example C12_nonvacuous_approx_orthonormal :
  let A := fun i j : nat => match i, j with O, O => 1 | O, S O => 1 / 100 | S O, S O => 1 | _, _ => 0 end in
  aocols 2 2 (1 / 50) A /\ ~ ocols 2 2 A /\ INR 2 * (1 / 50) < 1.
Proof. exact aocols_instance. Qed.
Example C12_nonvacuous_second_tape : forall n_const order specs aux aux' k s,
  selected_pop Q2R n_const order specs aux = Ok (PNormSparsity k s) ->
  selected_pop Q2R n_const order specs aux' = Ok (PNormSparsity k aux') /\ s = aux.
Proof. exact selected_pop_aux_normsp. Qed.
Example C12_nonvacuous_smooth_nd :
  smooth_nd Qops 1%Q 2 2 [[1; 2]; [3; 4]; [5; 6]; [7; 8]]%Q
    = Ok (concat (smooth_slices Qops 1%Q [[[1; 2]; [3; 4]]; [[5; 6]; [7; 8]]]%Q)) /\
  smooth_nd Qops 1%Q 3 1 [[1; 2]; [3; 4]; [5; 6]]%Q = Err.
Proof. exact smooth_nd_instance. Qed.
(* the gap bound computes: an exact 2 x 2 tape gives a gap of the order of e; a tape whose U is only approximately orthogonal still gives a finite bound *)
Example C12_nonvacuous_svt_gap :
  Qle_bool (svt_gap Qops (1 # 1000000000) [[1; 0]; [0; 1]]%Q [3; 1]%Q [[0; 1]; [1; 0]]%Q 2%Q [[0; 3]; [1; 0]]%Q) (1 # 10000000) = true /\
  Qle_bool 0 (svt_gap Qops (1 # 1000000000) [[1; 0]; [0; 1]]%Q [3; 1]%Q [[0; 1]; [1; 0]]%Q 2%Q [[0; 3]; [1; 0]]%Q) = true /\
  Qle_bool (svt_gap Qops (1 # 50) [[1; (1 # 100)]; [0; 1]]%Q [3; 1]%Q [[0; 1]; [1; 0]]%Q 2%Q [[(1 # 100); 3]; [1; 0]]%Q) 1 = true.
Proof. repeat split; vm_compute; reflexivity. Qed.
Example C12_nonvacuous_svt_case :
  C12.svt_case_ok 2 2 2 [[1; 0]; [0; 1]]%Q [3; 1]%Q [[0; 1]; [1; 0]]%Q [[0; 3]; [1; 0]]%Q 2%Q = true /\
  C12.svt_case_ok 2 2 2 [[1; (1 # 100)]; [0; 1]]%Q [3; 1]%Q [[0; 1]; [1; 0]]%Q [[0; 3]; [1; 0]]%Q 2%Q = false.
Proof. split; vm_compute; reflexivity. Qed.
Example C12_nonvacuous_procrustes_case :
  C12.procrustes_case_ok 2 2 2 [[1; 0]; [0; 1]]%Q [3; 1]%Q [[0; 1]; [1; 0]]%Q [[0; 3]; [1; 0]]%Q (1 # 1000000000) = true /\
  C12.procrustes_gap_ok [[1; 0]; [0; 1]]%Q [3; 1]%Q [[0; 1]; [1; 0]]%Q [[0; 3]; [1; 0]]%Q = true /\
  C12.procrustes_gap_ok [[1; 0]; [0; 1]]%Q [3; 1]%Q [[0; 1]; [1; 0]]%Q [[0; 3]; [(9 # 10); 0]]%Q = false.
Proof. repeat split; vm_compute; reflexivity. Qed.
(* round 8: the Booleans of the new per-case certificates hold on an exact 2 x 2 tape and on a 3 x 2 (tall) one, fail on a non-orthogonal output; two
   certified cases with the same threshold exist (hypotheses of C12_svt_firm_case_certified) *)
Example C12_nonvacuous_procrustes_feasible :
  C12.procrustes_feasible_ok 2 2 (procrustes_with Qops [[1; 0]; [0; 1]]%Q [[0; 1]; [1; 0]]%Q) = true /\
  C12.procrustes_feasible_ok 3 2 [[1; 0]; [0; 1]; [0; 0]]%Q = true /\
  C12.procrustes_feasible_ok 2 3 [[1; 0; 0]; [0; 0; 1]]%Q = true /\
  C12.procrustes_feasible_ok 2 2 [[1; (1 # 100)]; [0; 1]]%Q = false.
Proof. repeat split; vm_compute; reflexivity. Qed.
Example C12_nonvacuous_svt_firm_pair :
  C12.svt_case_ok 2 2 2 [[1; 0]; [0; 1]]%Q [3; 1]%Q [[0; 1]; [1; 0]]%Q [[0; 3]; [1; 0]]%Q 2%Q = true /\
  C12.svt_case_ok 2 2 2 [[0; 1]; [1; 0]]%Q [5; 2]%Q [[1; 0]; [0; 1]]%Q [[0; 2]; [5; 0]]%Q 2%Q = true.
Proof. split; vm_compute; reflexivity. Qed.
Example C12_nonvacuous_procrustes_feasible_perturbed :
  let A := fun i j : nat => match i, j with O, O => 1 | O, S O => 1 / 100 | S O, S O => 1 | _, _ => 0 end in
  aocols 2 2 (1 / 50) A /\ ~ ocols 2 2 A /\ aocols 2 2 (1 / 50 * (1 + INR 2 * (1 + 1 / 50))) (compose 2 A (fun _ => 1) A).
Proof. exact feasible_perturbed_instance. Qed.
