(* C12 -- property theorems only.  Statements are about the model of tensorly/tenalg/proximal.py
   (Model/Prox.v) at the instance Rops (Coq reals = exact-arithmetic semantics), for every list length,
   every input and every parameter value in the stated range.  dist2 a b = |a - b|^2, l1n = l1 norm,
   sumsq = squared l2 norm, lsum = sum of the entries (Model/Prox.v, instantiated at R). *)
From Coq Require Import List Reals QArith Bool.
From TLV Require Import Base.Ops Model.Prox Proofs.ProxProofs Proofs.ProxProofsHard Proofs.ProxProofsRefute.
Import ListNotations.
Open Scope R_scope.

(* ---- non-negativity projection: feasible, nearest feasible point, idempotent, firmly non-expansive *)
Theorem C12_nonneg_feasible : forall v, Forall (fun x => 0 <= x) (non_negative Rops v).
Proof. exact nonneg_feasible. Qed.
Print Assumptions C12_nonneg_feasible.
Theorem C12_nonneg_optimal : forall v z, length z = length v -> Forall (fun x => 0 <= x) z ->
  dist2 Rops (non_negative Rops v) v <= dist2 Rops z v.
Proof. exact nonneg_optimal. Qed.
Print Assumptions C12_nonneg_optimal.
Theorem C12_nonneg_idempotent : forall v, non_negative Rops (non_negative Rops v) = non_negative Rops v.
Proof. exact nonneg_idempotent. Qed.
Print Assumptions C12_nonneg_idempotent.
Theorem C12_nonneg_firmly_nonexpansive : forall u v, length u = length v ->
  dist2 Rops (non_negative Rops u) (non_negative Rops v) <= dotd (non_negative Rops u) (non_negative Rops v) u v.
Proof. exact nonneg_firmly_nonexpansive. Qed.
Print Assumptions C12_nonneg_firmly_nonexpansive.

(* ---- soft thresholding is the exact minimiser of t*|x|_1 + |x - v|^2 / 2 (per coordinate, hence for vectors) *)
Theorem C12_soft1_optimal : forall t x z, 0 <= t ->
  t * Rabs (soft1 Rops t x) + (soft1 Rops t x - x) * (soft1 Rops t x - x) / 2 <= t * Rabs z + (z - x) * (z - x) / 2.
Proof. exact soft1_optimal. Qed.
Print Assumptions C12_soft1_optimal.
Theorem C12_soft_optimal : forall t, 0 <= t -> forall v z, length z = length v ->
  t * l1n Rops (soft_thresholding Rops t v) + dist2 Rops (soft_thresholding Rops t v) v / 2
  <= t * l1n Rops z + dist2 Rops z v / 2.
Proof. exact soft_optimal. Qed.
Print Assumptions C12_soft_optimal.
Theorem C12_soft_arr_optimal : forall ts v z, Forall (fun t => 0 <= t) ts -> length ts = length v -> length z = length v ->
  lsum Rops (map (fun tx => fst tx * Rabs (snd tx)) (combine ts (soft_thresholding_arr Rops ts v)))
    + dist2 Rops (soft_thresholding_arr Rops ts v) v / 2
  <= lsum Rops (map (fun tx => fst tx * Rabs (snd tx)) (combine ts z)) + dist2 Rops z v / 2.
Proof. exact soft_arr_optimal. Qed.
Print Assumptions C12_soft_arr_optimal.

(* ---- squared l2: v / (1 + 2t) minimises t*|x|^2 + |x - v|^2 / 2 *)
Theorem C12_l2sq_optimal : forall t, 0 <= t -> forall v z, length z = length v ->
  t * sumsq Rops (l2_square_prox Rops t v) + dist2 Rops (l2_square_prox Rops t v) v / 2
  <= t * sumsq Rops z + dist2 Rops z v / 2.
Proof. exact l2sq_optimal. Qed.
Print Assumptions C12_l2sq_optimal.

(* ---- l2 (block soft thresholding) minimises t*|x|_2 + |x - v|^2 / 2; the norm is Coq's sqrt *)
Theorem C12_l2_optimal : forall t v z, 0 <= t -> length z = length v ->
  let x := l2_prox_with Rops (sqrt (sumsq Rops v)) t v in
  t * sqrt (sumsq Rops x) + dist2 Rops x v / 2 <= t * sqrt (sumsq Rops z) + dist2 Rops z v / 2.
Proof. exact l2_optimal_sqrt. Qed.
Print Assumptions C12_l2_optimal.

(* ---- smoothness: every solution x of the coded tridiagonal system (the contract of tl.solve) minimises
   (t/2) * (x_0^2 + sum_i (x_i - x_{i+1})^2 + x_{n-1}^2) + |x - v|^2 / 2 *)
Theorem C12_smooth_optimal : forall t x v z, 0 <= t -> sm_apply Rops t 0 x = v -> length z = length x ->
  smooth_obj t x v <= smooth_obj t z v.
Proof. exact smooth_optimal. Qed.
Print Assumptions C12_smooth_optimal.

(* ---- hard thresholding: at most k non-zeros, a nearest vector with at most k non-zeros, idempotent;
   and the same for ANY output accepted by the relational checker valid_ht (tie-breaking free) *)
Theorem C12_hard_sparse : forall k v, (nnzR (hard_thresholding Rops k v) <= k)%nat.
Proof. exact hard_sparse. Qed.
Print Assumptions C12_hard_sparse.
Theorem C12_hard_nearest : forall k v z, length z = length v -> (nnzR z <= k)%nat ->
  dist2 Rops (hard_thresholding Rops k v) v <= dist2 Rops z v.
Proof. exact hard_nearest. Qed.
Print Assumptions C12_hard_nearest.
Theorem C12_hard_idempotent : forall k v,
  hard_thresholding Rops k (hard_thresholding Rops k v) = hard_thresholding Rops k v.
Proof. exact hard_idempotent. Qed.
Print Assumptions C12_hard_idempotent.
Theorem C12_valid_ht_nearest : forall k v x z, valid_ht Rops k v x = true -> length z = length v -> (nnzR z <= k)%nat ->
  dist2 Rops x v <= dist2 Rops z v.
Proof. exact valid_ht_nearest. Qed.
Print Assumptions C12_valid_ht_nearest.
Theorem C12_hard_valid : forall k v, valid_ht Rops k v (hard_thresholding Rops k v) = true.
Proof. exact hard_valid. Qed.
Print Assumptions C12_hard_valid.

(* ---- generic: an optimal projection onto a convex set is firmly non-expansive *)
Theorem C12_firmly_nonexpansive : forall n (C : list R -> Prop) (P : list R -> list R),
  convex_set n C ->
  (forall v, length v = n -> C (P v) /\ length (P v) = n /\ forall w, C w -> length w = n -> dist2 Rops (P v) v <= dist2 Rops w v) ->
  forall u v, length u = n -> length v = n -> dist2 Rops (P u) (P v) <= dotd (P u) (P v) u v.
Proof. exact firmly_nonexpansive. Qed.
Print Assumptions C12_firmly_nonexpansive.

(* ---- deliberately unfixed operators: refutation (exact rational witness on the executed instance) + what holds *)
Theorem C12_l1ball_refuted : exists (p : Q) (v : list Q),
  Qle_bool (l1n Qops v) p = true /\ (dist2 Qops v v < dist2 Qops (soft_sparsity_prox Qops p v) v)%Q.
Proof. exact l1ball_refuted. Qed.
Print Assumptions C12_l1ball_refuted.
Theorem C12_l1ball_partial : forall p v z,
  0 <= simplex_tau Rops p (map (fabs Rops) v) -> l1n Rops (soft_sparsity_prox Rops p v) = p ->
  length z = length v -> l1n Rops z <= p ->
  dist2 Rops (soft_sparsity_prox Rops p v) v <= dist2 Rops z v.
Proof. exact l1ball_partial. Qed.
Print Assumptions C12_l1ball_partial.
Theorem C12_maxnorm_refuted : exists (v z : list Q),
  Qeq_bool (maxabs Qops z) 1 = true /\ (dist2 Qops z v < dist2 Qops (normalize Qops v) v)%Q.
Proof. exact maxnorm_refuted. Qed.
Print Assumptions C12_maxnorm_refuted.
Theorem C12_maxnorm_partial : forall v, 0 < maxabs Rops v -> maxabs Rops (normalize Rops v) = 1.
Proof. exact maxnorm_partial. Qed.
Print Assumptions C12_maxnorm_partial.
Theorem C12_unimodal_refuted : exists (v : list Q),
  unimodalb Qops v = true /\ (dist2 Qops v v < dist2 Qops (hd [] (unimodality_cols Qops [v])) v)%Q.
Proof. exact unimodal_refuted. Qed.
Print Assumptions C12_unimodal_refuted.

(* ---- non-vacuity: the hypotheses are satisfiable and the model computes *)
Example C12_nonvacuous_soft :
  soft_thresholding Qops (11#10)%Q [1; -2; (3#2)]%Q = [0; (-9#10); (2#5)]%Q /\
  hard_thresholding Qops 2 [1; -3; 2; (1#2)]%Q = [0; -3; 2; 0]%Q /\
  sm_apply Qops (1#2)%Q 0%Q (smoothness_solve Qops (1#2)%Q [1;2;3]%Q) = [1;2;3]%Q.
Proof. repeat split; vm_compute; reflexivity. Qed.
