(* C13 -- property theorems only.  Statements are about the model of tensorly/solvers/nnls.py and
   admm.py (Model/Nnls.v) at the real instance Rops, for every size r x n, every problem data, every
   start and every iteration budget / tolerance.  Notation of Proofs/NnlsProofs.v:
   Gf UtU i j = UtU[i][j], bf UtM j i = UtM[i][j], colf V j i = V[i][j] (column j as a function),
   l1of o / l2of o = sparsity / ridge coefficient (0 when None), qp_f / qp_grad (Base/RSum.v) the
   penalised objective  v'Gv/2 - b'v + l1 sum v + l2 sum v^2  and its gradient. *)
From Coq Require Import List Arith Reals Lra.
From TLV Require Import Base.Ops Base.RSum Model.Nnls Proofs.NnlsProofs.
Import ListNotations.
Open Scope R_scope.

(* (i) every HALS iterate is >= epsilon: from a feasible start every iterate, and from ANY start every
   iterate after the first pass (all diagonal entries non-zero); rows with a zero diagonal are never touched *)
Theorem C13_hals_iterates_ge_eps : forall (UtM UtU : list (list R)) (r n : nat) (o : @hopts R),
  wfm r r UtU -> wfm r n UtM -> h_nz o = false ->
  forall (m : nat) (V : list (list R)), wfm r n V ->
  (forall i j, (i < r)%nat -> (j < n)%nat -> h_eps o <= mget Rops V i j) ->
  forall i j, (i < r)%nat -> (j < n)%nat -> h_eps o <= mget Rops (iterl m (hals_pass Rops UtM UtU n o) V) i j.
Proof. exact iterates_ge_eps. Qed.
Print Assumptions C13_hals_iterates_ge_eps.

Theorem C13_hals_iterates_ge_eps_any_start : forall (UtM UtU : list (list R)) (r n : nat) (o : @hopts R),
  wfm r r UtU -> wfm r n UtM -> h_nz o = false ->
  forall (m : nat) (V : list (list R)), wfm r n V -> (forall k, (k < r)%nat -> Gf UtU k k <> 0) ->
  forall i j, (i < r)%nat -> (j < n)%nat -> h_eps o <= mget Rops (iterl (S m) (hals_pass Rops UtM UtU n o) V) i j.
Proof. exact iterates_ge_eps_any_start. Qed.
Print Assumptions C13_hals_iterates_ge_eps_any_start.

(* the iteration loop with its stopping rule returns one of these iterates, whatever tol / n_iter_max *)
Theorem C13_hals_loop_is_iterate : forall (F : Type) (Op : fops F) UtM UtU n o tol fuel first err0 V,
  exists m, (m <= fuel)%nat /\ hals_loop Op UtM UtU n o tol fuel first err0 V = iterl m (hals_pass Op UtM UtU n o) V.
Proof. exact @hals_loop_iter. Qed.
Print Assumptions C13_hals_loop_is_iterate.

Theorem C13_hals_loop_ge_eps : forall (UtM UtU : list (list R)) (r n : nat) (o : @hopts R),
  wfm r r UtU -> wfm r n UtM -> h_nz o = false ->
  forall (tol : R) (fuel : nat) (V : list (list R)), wfm r n V ->
  (forall i j, (i < r)%nat -> (j < n)%nat -> h_eps o <= mget Rops V i j) ->
  forall i j, (i < r)%nat -> (j < n)%nat -> h_eps o <= mget Rops (hals_loop Rops UtM UtU n o tol fuel true 0 V) i j.
Proof. exact loop_ge_eps. Qed.
Print Assumptions C13_hals_loop_ge_eps.

(* (ii) one HALS pass (hence any number, hence the loop) never increases the penalised objective of any column *)
Theorem C13_hals_pass_monotone : forall (UtM UtU : list (list R)) (r n : nat) (o : @hopts R),
  wfm r r UtU -> wfm r n UtM -> h_nz o = false ->
  (forall i j, Gf UtU i j = Gf UtU j i) ->
  (forall k, (k < r)%nat -> Gf UtU k k <> 0 -> 0 < Gf UtU k k + 2 * l2of o) ->
  forall (V : list (list R)) (j : nat), wfm r n V ->
  (forall i j, (i < r)%nat -> (j < n)%nat -> h_eps o <= mget Rops V i j) -> (j < n)%nat ->
  qp_f r (Gf UtU) (bf UtM j) (l1of o) (l2of o) (colf (hals_pass Rops UtM UtU n o V) j)
  <= qp_f r (Gf UtU) (bf UtM j) (l1of o) (l2of o) (colf V j).
Proof. exact pass_monotone. Qed.
Print Assumptions C13_hals_pass_monotone.

Theorem C13_hals_loop_monotone : forall (UtM UtU : list (list R)) (r n : nat) (o : @hopts R),
  wfm r r UtU -> wfm r n UtM -> h_nz o = false ->
  (forall i j, Gf UtU i j = Gf UtU j i) ->
  (forall k, (k < r)%nat -> Gf UtU k k <> 0 -> 0 < Gf UtU k k + 2 * l2of o) ->
  forall (tol : R) (fuel : nat) (V : list (list R)) (j : nat), wfm r n V ->
  (forall i j, (i < r)%nat -> (j < n)%nat -> h_eps o <= mget Rops V i j) -> (j < n)%nat ->
  qp_f r (Gf UtU) (bf UtM j) (l1of o) (l2of o) (colf (hals_loop Rops UtM UtU n o tol fuel true 0 V) j)
  <= qp_f r (Gf UtU) (bf UtM j) (l1of o) (l2of o) (colf V j).
Proof. exact loop_monotone. Qed.
Print Assumptions C13_hals_loop_monotone.

(* (iii) FIXED POINT => KKT (at the bound epsilon; epsilon = 0: V >= 0, g >= 0, V g = 0), l1 and ridge inside g *)
Theorem C13_hals_fixed_point_kkt : forall (UtM UtU : list (list R)) (r n : nat) (o : @hopts R),
  wfm r r UtU -> wfm r n UtM -> h_nz o = false ->
  forall V : list (list R), wfm r n V ->
  (forall k, (k < r)%nat -> Gf UtU k k <> 0 /\ 0 < Gf UtU k k + 2 * l2of o) ->
  hals_pass Rops UtM UtU n o V = V ->
  forall k j, (k < r)%nat -> (j < n)%nat ->
    let g := qp_grad r (Gf UtU) (bf UtM j) (l1of o) (l2of o) (colf V j) k in
    h_eps o <= mget Rops V k j /\ 0 <= g /\ (mget Rops V k j - h_eps o) * g = 0.
Proof. exact fixed_point_kkt. Qed.
Print Assumptions C13_hals_fixed_point_kkt.

(* ... and conversely: the fixed points of the pass are exactly the KKT points *)
Theorem C13_hals_kkt_is_fixed_point : forall (UtM UtU : list (list R)) (r n : nat) (o : @hopts R),
  wfm r r UtU -> wfm r n UtM -> h_nz o = false ->
  forall V : list (list R), wfm r n V ->
  (forall k, (k < r)%nat -> Gf UtU k k <> 0 -> 0 < Gf UtU k k + 2 * l2of o) ->
  (forall k j, (k < r)%nat -> (j < n)%nat ->
    let g := qp_grad r (Gf UtU) (bf UtM j) (l1of o) (l2of o) (colf V j) k in
    h_eps o <= mget Rops V k j /\ 0 <= g /\ (mget Rops V k j - h_eps o) * g = 0) ->
  hals_pass Rops UtM UtU n o V = V.
Proof. exact kkt_fixed_point. Qed.
Print Assumptions C13_hals_kkt_is_fixed_point.

(* (iv) KKT => global optimum of the convex penalised QP over the non-negative orthant *)
Theorem C13_kkt_optimal : forall (n : nat) (G : nat -> nat -> R) (b : nat -> R) (l1 l2 : R),
  (forall i j, G i j = G j i) -> (forall d, 0 <= quad n G d) ->
  forall x z : nat -> R, 0 <= l2 ->
  (forall i, (i < n)%nat -> 0 <= x i /\ 0 <= qp_grad n G b l1 l2 x i /\ x i * qp_grad n G b l1 l2 x i = 0) ->
  (forall i, (i < n)%nat -> 0 <= z i) -> qp_f n G b l1 l2 x <= qp_f n G b l1 l2 z.
Proof. exact kkt_optimal. Qed.
Print Assumptions C13_kkt_optimal.

(* (iii)+(iv) a fixed point of the HALS pass (epsilon = 0) attains the minimum of every column's objective,
   hence the same objective value as any other minimiser (e.g. a reference solver's) *)
Theorem C13_hals_fixed_point_optimal : forall (UtM UtU : list (list R)) (r n : nat) (o : @hopts R),
  wfm r r UtU -> wfm r n UtM -> h_nz o = false ->
  forall V : list (list R), wfm r n V -> h_eps o = 0 -> 0 <= l2of o ->
  (forall i j, Gf UtU i j = Gf UtU j i) -> (forall d, 0 <= quad r (Gf UtU) d) ->
  (forall k, (k < r)%nat -> Gf UtU k k <> 0 /\ 0 < Gf UtU k k + 2 * l2of o) ->
  hals_pass Rops UtM UtU n o V = V ->
  forall j z, (j < n)%nat -> (forall i, (i < r)%nat -> 0 <= z i) ->
    qp_f r (Gf UtU) (bf UtM j) (l1of o) (l2of o) (colf V j) <= qp_f r (Gf UtU) (bf UtM j) (l1of o) (l2of o) z.
Proof. exact fixed_point_optimal. Qed.
Print Assumptions C13_hals_fixed_point_optimal.

(* (v) ADMM with n_const=None returns x with UtU^T x^T = UtM^T, given the contract of tl.solve *)
Theorem C13_admm_none_normal_equations :
  forall (solve : list (list R) -> list (list R) -> list (list R)) UtM UtU x dual (m r it : nat),
  it <> 0%nat -> wfm r r UtU -> wfm m r UtM ->
  solves r m (mtranspose Rops r UtU) (mtranspose Rops r UtM) (solve (mtranspose Rops r UtU) (mtranspose Rops r UtM)) ->
  let x' := fst (fst (admm_none Rops solve UtM UtU x dual m r it)) in
  wfm m r x' /\ forall c i, (c < m)%nat -> (i < r)%nat -> rsum r (fun k => mget Rops UtU k i * mget Rops x' c k) = mget Rops UtM c i.
Proof. exact admm_none_normal_equations. Qed.
Print Assumptions C13_admm_none_normal_equations.
