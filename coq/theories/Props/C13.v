(* C13 -- property theorems only.  Statements are about the model of tensorly/solvers/nnls.py and
   admm.py (Model/Nnls.v) at the real instance Rops, for every size r x n, every problem data, every
   start and every iteration budget / tolerance.  Notation of Proofs/NnlsProofs.v:
   Gf UtU i j = UtU[i][j], bf UtM j i = UtM[i][j], colf V j i = V[i][j] (column j as a function),
   l1of o / l2of o = sparsity / ridge coefficient (0 when None), qp_f / qp_grad (Base/RSum.v) the
   penalised objective  v'Gv/2 - b'v + l1 sum v + l2 sum v^2  and its gradient.
   Round 5 added, for "run to convergence": HALS -- telescoped / summable steps, small step => approximately KKT, best-iterate
   rate, the limit for the iterates and for hals_nnls itself (warm and cold start), objective gap from KKT residuals, tol = 0
   runs all passes; FISTA -- descent of the projected step / first iteration / default step, the O(1/K^2) rate (any tol);
   uniqueness of the KKT point; optimality at any bound epsilon; active set -- non-negativity on every exit and the exit
   certificate under any sign-preserving rounding; the entry point fista with its argument handling.
   Round 6: fista's ridge_coef = None reads as 0 (repaired code ae57725; the refuted / partial pair became C13_fista_returns); finite
   termination of active_set_nnls and its end-to-end statement (exact arithmetic, positive definite UtU, total tl.solve); the
   iterates of fista converge to the solution with rate O(1/m) and their KKT residuals with them.
   Round 7: the WHOLE function admm (Model/NnlsAdmm.v: loop, proximal_operator call with n_const / order, stopping rule, the
   ways the call raises) -- with a number of constraints but none selected the dual variable stays zero, the stopping rule
   never fires, each iteration contracts the distance to the least-squares solution by rho / (mu + rho): end-to-end bound and
   limit; a state reproduced by the non_negative loop body is a KKT point; the documented stand-alone call (order = None) raised: repaired by /repo a5b9e5b, the model follows
   (C13_admm_order_none_is_zero); n_iter_max = 0 raised: repaired by /repo fe4edf7, the model follows (C13_admm_zero_iterations); C13_admm_returns is full; a state reproduced by the l1_reg body meets the lasso
   conditions; fista's momentum recurrence is computed in the model (Model/NnlsMomentum.v) and is the sequence the rate theorems use;
   hals_nnls with nonzero_rows=True and epsilon > 0 is the call with nonzero_rows=False.
   Round 8: the list branch of fista (UtU = [A, B]) -- iterates >= epsilon; its gradient is the gradient of the row-major flattened
   Kronecker problem; a fixed point of the projected step is a global minimiser of the matrix objective over the non-negative
   orthant (A, B symmetric, the Kronecker form assumed positive semidefinite); the list branch IS the matrix branch on the Kronecker
   matrix (same decisions, same result), and the O(1/K^2) rate transferred through that identity. *)
From Coq Require Import List Arith Reals Lra QArith Qabs.
From TLV Require Import Base.Ops Base.PyList Base.Tensor Base.RSum Model.Nnls Model.NnlsEntry Proofs.NnlsProofs Proofs.NnlsProofsDescent Proofs.NnlsProofsNz Proofs.NnlsProofsAdmm Proofs.NnlsProofsFista Proofs.NnlsProofsFista2 Proofs.NnlsProofsFista2Opt Proofs.NnlsProofsFista2Kron Proofs.NnlsProofsFista2Gram Proofs.NnlsProofsAset Proofs.NnlsProofsAsetCert Proofs.NnlsProofsAsetFull Proofs.NnlsProofsExamples Proofs.NnlsProofsConv Proofs.NnlsProofsStep Proofs.NnlsProofsEntry Proofs.NnlsProofsGap Proofs.NnlsProofsTol0 Proofs.NnlsProofsAsetRnd Proofs.NnlsProofsUnique Proofs.NnlsProofsLimit Proofs.NnlsProofsFistaRate Proofs.NnlsProofsEps Proofs.NnlsProofsAsetTerm Model.NnlsAdmm Proofs.NnlsProofsAdmmLoop Proofs.NnlsProofsAdmmWitness Model.NnlsMomentum Proofs.NnlsProofsMomentum Proofs.NnlsProofsNzEps Proofs.NnlsProofsAsetFallback Proofs.NnlsProofsAsetFallbackW.
From TLV Require Model.Prox.
Import ListNotations.
Open Scope R_scope.

(* (i) every HALS iterate is >= epsilon: from a feasible start every iterate, and from ANY start every
   iterate after the first pass (all diagonal entries non-zero); rows with a zero diagonal are never touched *)
Theorem C13_hals_iterates_ge_eps : forall (UtM UtU : list (list R)) (r n : nat) (o : @hopts R),
  wfm r r UtU -> wfm r n UtM -> h_nz o = false ->
  forall (m : nat) (V : list (list R)), wfm r n V ->
  (forall i j, (i < r)%nat -> (j < n)%nat -> h_eps o <= mget Rops V i j) ->
  forall i j, (i < r)%nat -> (j < n)%nat -> h_eps o <= mget Rops (iterl m (hals_pass Rops UtM UtU n o) V) i j.
Proof. exact iterates_ge_eps. Qed.
Print Assumptions C13_hals_iterates_ge_eps.

Theorem C13_hals_iterates_ge_eps_any_start : forall (UtM UtU : list (list R)) (r n : nat) (o : @hopts R),
  wfm r r UtU -> wfm r n UtM -> h_nz o = false ->
  forall (m : nat) (V : list (list R)), wfm r n V -> (forall k, (k < r)%nat -> Gf UtU k k <> 0) ->
  forall i j, (i < r)%nat -> (j < n)%nat -> h_eps o <= mget Rops (iterl (S m) (hals_pass Rops UtM UtU n o) V) i j.
Proof. exact iterates_ge_eps_any_start. Qed.
Print Assumptions C13_hals_iterates_ge_eps_any_start.

(* the iteration loop with its stopping rule returns one of these iterates, whatever tol / n_iter_max *)
Theorem C13_hals_loop_is_iterate : forall (F : Type) (Op : fops F) UtM UtU n o tol fuel first err0 V,
  exists m, (m <= fuel)%nat /\ hals_loop Op UtM UtU n o tol fuel first err0 V = iterl m (hals_pass Op UtM UtU n o) V.
Proof. exact @hals_loop_iter. Qed.
Print Assumptions C13_hals_loop_is_iterate.

Theorem C13_hals_loop_ge_eps : forall (UtM UtU : list (list R)) (r n : nat) (o : @hopts R),
  wfm r r UtU -> wfm r n UtM -> h_nz o = false ->
  forall (tol : R) (fuel : nat) (V : list (list R)), wfm r n V ->
  (forall i j, (i < r)%nat -> (j < n)%nat -> h_eps o <= mget Rops V i j) ->
  forall i j, (i < r)%nat -> (j < n)%nat -> h_eps o <= mget Rops (hals_loop Rops UtM UtU n o tol fuel true 0 V) i j.
Proof. exact loop_ge_eps. Qed.
Print Assumptions C13_hals_loop_ge_eps.

(* the loop with its decision trace (used by the correspondence to see whether a stopping decision was clear-cut)
   computes the loop's result, and hals_nnls is `reject or loop from the start`, for any field *)
Theorem C13_hals_trace_is_loop : forall (F : Type) (Op : fops F) UtM UtU n V0 sol iters tol o,
  hals_nnls Op UtM UtU n V0 sol iters tol o =
  if hals_rejects Op UtM UtU iters o then Err
  else Ok (snd (hals_trace Op UtM UtU n o tol iters true (f0 Op) (match V0 with Some V => V | None => hals_init Op UtM UtU n sol end))).
Proof. exact @hals_nnls_trace. Qed.
Print Assumptions C13_hals_trace_is_loop.

(* (i) for ANY setting of nonzero_rows (the theorems above and ALL descent / fixed-point theorems below assume
   nonzero_rows = False): with machine epsilon >= 0 the safety procedure `V[k,:] = eps(dtype) * max(V)` keeps every
   iterate >= epsilon; the function rejects (ValueError: zero column with nonzero_rows) or returns such a matrix *)
Theorem C13_hals_iterates_ge_eps_any_nonzero_rows : forall (UtM UtU : list (list R)) (r n : nat) (o : @hopts R),
  wfm r r UtU -> wfm r n UtM -> 0 <= h_meps o ->
  forall (m : nat) (V : list (list R)), wfm r n V ->
  (forall i j, (i < r)%nat -> (j < n)%nat -> h_eps o <= mget Rops V i j) ->
  forall i j, (i < r)%nat -> (j < n)%nat -> h_eps o <= mget Rops (iterl m (hals_pass Rops UtM UtU n o) V) i j.
Proof. exact giterates_ge_eps. Qed.
Print Assumptions C13_hals_iterates_ge_eps_any_nonzero_rows.

Theorem C13_hals_nnls_ge_eps_any_nonzero_rows : forall (UtM UtU : list (list R)) (r n : nat) (o : @hopts R),
  wfm r r UtU -> wfm r n UtM -> 0 <= h_meps o ->
  forall (V : list (list R)) (tol : R) (iters : nat), wfm r n V ->
  (forall i j, (i < r)%nat -> (j < n)%nat -> h_eps o <= mget Rops V i j) ->
  hals_nnls Rops UtM UtU n (Some V) [] iters tol o = Err /\ hals_rejects Rops UtM UtU iters o = true \/
  exists W, hals_nnls Rops UtM UtU n (Some V) [] iters tol o = Ok W /\
            forall i j, (i < r)%nat -> (j < n)%nat -> h_eps o <= mget Rops W i j.
Proof. exact ghals_nnls_ge_eps. Qed.
Print Assumptions C13_hals_nnls_ge_eps_any_nonzero_rows.

(* why descent and fixed point <=> KKT are restricted to nonzero_rows = False: with nonzero_rows = True the optimum (1, 0)
   of UtU = I, UtM = (1, -1) (gradient (0, 1)) is moved by one pass to (1, meps) (meps = 1/8 here), which raises the
   objective; with nonzero_rows = False it is a fixed point.  By design of the safety procedure, not a defect. *)
Example C13_hals_nonzero_rows_not_monotone :
  hals_pass Qops nzw_UtM nzw_UtU 1 (mkH None None false 0 (1 # 8))%Q nzw_V = nzw_V /\
  hals_pass Qops nzw_UtM nzw_UtU 1 (mkH None None true 0 (1 # 8))%Q nzw_V = [[1]; [1 # 8]]%Q /\
  kkt_grad Qops nzw_UtM nzw_UtU 1 0%Q 0%Q nzw_V = [[0]; [1]]%Q.
Proof. exact hals_nonzero_rows_witness. Qed.

(* the optional callback (`if callback(V, rec_error) is True: break`) can only make the loop return an earlier iterate
   of the pass, so every statement about iterates applies; without callback the loop is hals_loop *)
Theorem C13_hals_callback_is_iterate : forall (F : Type) (Op : fops F) UtM UtU n o cb tol fuel first err0 V,
  exists m, (m <= fuel)%nat /\ hals_loop_cb Op UtM UtU n o cb tol fuel first err0 V = iterl m (hals_pass Op UtM UtU n o) V.
Proof. exact @hals_loop_cb_iter. Qed.
Print Assumptions C13_hals_callback_is_iterate.
Theorem C13_hals_no_callback : forall (F : Type) (Op : fops F) UtM UtU n o tol fuel first err0 V,
  hals_loop_cb Op UtM UtU n o (fun _ _ => false) tol fuel first err0 V = hals_loop Op UtM UtU n o tol fuel first err0 V.
Proof. exact @hals_loop_cb_none. Qed.
Print Assumptions C13_hals_no_callback.

(* (ii) one HALS pass (hence any number, hence the loop) never increases the penalised objective of any column *)
Theorem C13_hals_pass_monotone : forall (UtM UtU : list (list R)) (r n : nat) (o : @hopts R),
  wfm r r UtU -> wfm r n UtM -> h_nz o = false ->
  (forall i j, Gf UtU i j = Gf UtU j i) ->
  (forall k, (k < r)%nat -> Gf UtU k k <> 0 -> 0 < Gf UtU k k + 2 * l2of o) ->
  forall (V : list (list R)) (j : nat), wfm r n V ->
  (forall i j, (i < r)%nat -> (j < n)%nat -> h_eps o <= mget Rops V i j) -> (j < n)%nat ->
  qp_f r (Gf UtU) (bf UtM j) (l1of o) (l2of o) (colf (hals_pass Rops UtM UtU n o V) j)
  <= qp_f r (Gf UtU) (bf UtM j) (l1of o) (l2of o) (colf V j).
Proof. exact pass_monotone. Qed.
Print Assumptions C13_hals_pass_monotone.

Theorem C13_hals_loop_monotone : forall (UtM UtU : list (list R)) (r n : nat) (o : @hopts R),
  wfm r r UtU -> wfm r n UtM -> h_nz o = false ->
  (forall i j, Gf UtU i j = Gf UtU j i) ->
  (forall k, (k < r)%nat -> Gf UtU k k <> 0 -> 0 < Gf UtU k k + 2 * l2of o) ->
  forall (tol : R) (fuel : nat) (V : list (list R)) (j : nat), wfm r n V ->
  (forall i j, (i < r)%nat -> (j < n)%nat -> h_eps o <= mget Rops V i j) -> (j < n)%nat ->
  qp_f r (Gf UtU) (bf UtM j) (l1of o) (l2of o) (colf (hals_loop Rops UtM UtU n o tol fuel true 0 V) j)
  <= qp_f r (Gf UtU) (bf UtM j) (l1of o) (l2of o) (colf V j).
Proof. exact loop_monotone. Qed.
Print Assumptions C13_hals_loop_monotone.

(* (ii') SUFFICIENT DECREASE (the key inequality of the convergence analysis of block coordinate descent): a pass from
   a feasible V lowers every column's objective by at least sum_k (UtU[k,k]/2 + ridge) (change of entry (k,j))^2 *)
Theorem C13_hals_pass_sufficient_decrease : forall (UtM UtU : list (list R)) (r n : nat) (o : @hopts R),
  wfm r r UtU -> wfm r n UtM -> h_nz o = false ->
  (forall i j, Gf UtU i j = Gf UtU j i) ->
  (forall k, (k < r)%nat -> Gf UtU k k <> 0 -> 0 < Gf UtU k k + 2 * l2of o) ->
  forall (V : list (list R)) (j : nat), wfm r n V ->
  (forall i j', (i < r)%nat -> (j' < n)%nat -> h_eps o <= mget Rops V i j') -> (j < n)%nat ->
  qp_f r (Gf UtU) (bf UtM j) (l1of o) (l2of o) (colf (hals_pass Rops UtM UtU n o V) j)
  <= qp_f r (Gf UtU) (bf UtM j) (l1of o) (l2of o) (colf V j)
     - rsum r (fun k => (Gf UtU k k / 2 + l2of o) * (mget Rops (hals_pass Rops UtM UtU n o V) k j - mget Rops V k j)^2).
Proof. exact pass_sufficient_decrease. Qed.
Print Assumptions C13_hals_pass_sufficient_decrease.

(* STRICT DESCENT: a pass from a feasible V that lowers no column's objective is a fixed point, i.e. (by
   C13_hals_fixed_point_kkt) V is a KKT point; at every feasible non-KKT point some column's objective strictly decreases *)
Theorem C13_hals_strict_descent : forall (UtM UtU : list (list R)) (r n : nat) (o : @hopts R),
  wfm r r UtU -> wfm r n UtM -> h_nz o = false ->
  (forall i j, Gf UtU i j = Gf UtU j i) ->
  (forall k, (k < r)%nat -> Gf UtU k k <> 0 -> 0 < Gf UtU k k + 2 * l2of o) ->
  forall V : list (list R), wfm r n V ->
  (forall i j, (i < r)%nat -> (j < n)%nat -> h_eps o <= mget Rops V i j) ->
  (forall k, (k < r)%nat -> Gf UtU k k <> 0) ->
  (forall j, (j < n)%nat -> qp_f r (Gf UtU) (bf UtM j) (l1of o) (l2of o) (colf V j)
                            <= qp_f r (Gf UtU) (bf UtM j) (l1of o) (l2of o) (colf (hals_pass Rops UtM UtU n o V) j)) ->
  hals_pass Rops UtM UtU n o V = V.
Proof. exact pass_no_decrease_fixed. Qed.
Print Assumptions C13_hals_strict_descent.

(* (iii) FIXED POINT => KKT (at the bound epsilon; epsilon = 0: V >= 0, g >= 0, V g = 0), l1 and ridge inside g *)
Theorem C13_hals_fixed_point_kkt : forall (UtM UtU : list (list R)) (r n : nat) (o : @hopts R),
  wfm r r UtU -> wfm r n UtM -> h_nz o = false ->
  forall V : list (list R), wfm r n V ->
  (forall k, (k < r)%nat -> Gf UtU k k <> 0 /\ 0 < Gf UtU k k + 2 * l2of o) ->
  hals_pass Rops UtM UtU n o V = V ->
  forall k j, (k < r)%nat -> (j < n)%nat ->
    let g := qp_grad r (Gf UtU) (bf UtM j) (l1of o) (l2of o) (colf V j) k in
    h_eps o <= mget Rops V k j /\ 0 <= g /\ (mget Rops V k j - h_eps o) * g = 0.
Proof. exact fixed_point_kkt. Qed.
Print Assumptions C13_hals_fixed_point_kkt.

(* ... and conversely: the fixed points of the pass are exactly the KKT points *)
Theorem C13_hals_kkt_is_fixed_point : forall (UtM UtU : list (list R)) (r n : nat) (o : @hopts R),
  wfm r r UtU -> wfm r n UtM -> h_nz o = false ->
  forall V : list (list R), wfm r n V ->
  (forall k, (k < r)%nat -> Gf UtU k k <> 0 -> 0 < Gf UtU k k + 2 * l2of o) ->
  (forall k j, (k < r)%nat -> (j < n)%nat ->
    let g := qp_grad r (Gf UtU) (bf UtM j) (l1of o) (l2of o) (colf V j) k in
    h_eps o <= mget Rops V k j /\ 0 <= g /\ (mget Rops V k j - h_eps o) * g = 0) ->
  hals_pass Rops UtM UtU n o V = V.
Proof. exact kkt_fixed_point. Qed.
Print Assumptions C13_hals_kkt_is_fixed_point.

(* (iv) KKT => global optimum of the convex penalised QP over the non-negative orthant *)
Theorem C13_kkt_optimal : forall (n : nat) (G : nat -> nat -> R) (b : nat -> R) (l1 l2 : R),
  (forall i j, G i j = G j i) -> (forall d, 0 <= quad n G d) ->
  forall x z : nat -> R, 0 <= l2 ->
  (forall i, (i < n)%nat -> 0 <= x i /\ 0 <= qp_grad n G b l1 l2 x i /\ x i * qp_grad n G b l1 l2 x i = 0) ->
  (forall i, (i < n)%nat -> 0 <= z i) -> qp_f n G b l1 l2 x <= qp_f n G b l1 l2 z.
Proof. exact kkt_optimal. Qed.
Print Assumptions C13_kkt_optimal.

(* (iv') the bound EPSILON > 0 (round 5; hals_nnls: "V >= epsilon instead of V >= 0", fista's default epsilon = 1e-8): KKT at the
   bound epsilon => global minimum over {v >= epsilon}; the fixed points of the HALS pass and of the FISTA step minimise
   every column's objective over that set for EVERY epsilon (epsilon = 0: the theorems C13_kkt_optimal, C13_*_fixed_point_optimal) *)
Theorem C13_kkt_optimal_eps : forall (n : nat) (G : nat -> nat -> R) (b : nat -> R) (l1 l2 eps : R) (x z : nat -> R),
  (forall i j, G i j = G j i) -> (forall d, 0 <= quad n G d) -> 0 <= l2 ->
  (forall i, (i < n)%nat -> eps <= x i /\ 0 <= qp_grad n G b l1 l2 x i /\ (x i - eps) * qp_grad n G b l1 l2 x i = 0) ->
  (forall i, (i < n)%nat -> eps <= z i) -> qp_f n G b l1 l2 x <= qp_f n G b l1 l2 z.
Proof. exact kkt_optimal_eps. Qed.
Print Assumptions C13_kkt_optimal_eps.
Theorem C13_hals_fixed_point_optimal_eps : forall (UtM UtU : list (list R)) (r n : nat) (o : @hopts R) (V : list (list R)),
  wfm r r UtU -> wfm r n UtM -> h_nz o = false -> wfm r n V -> 0 <= l2of o ->
  (forall i j, Gf UtU i j = Gf UtU j i) -> (forall d, 0 <= quad r (Gf UtU) d) ->
  (forall k, (k < r)%nat -> Gf UtU k k <> 0 /\ 0 < Gf UtU k k + 2 * l2of o) ->
  hals_pass Rops UtM UtU n o V = V ->
  forall j z, (j < n)%nat -> (forall i, (i < r)%nat -> h_eps o <= z i) ->
    qp_f r (Gf UtU) (bf UtM j) (l1of o) (l2of o) (colf V j) <= qp_f r (Gf UtU) (bf UtM j) (l1of o) (l2of o) z.
Proof. exact hals_fixed_point_optimal_eps. Qed.
Print Assumptions C13_hals_fixed_point_optimal_eps.
Theorem C13_fista_fixed_point_optimal_eps : forall (UtM UtU : list (list R)) (r n : nat) (sp rd lr eps : R) (V : list (list R)),
  wfm r r UtU -> wfm r n UtM -> 0 < lr -> 0 <= rd -> wfm r n V ->
  (forall i j, Gf UtU i j = Gf UtU j i) -> (forall d, 0 <= quad r (Gf UtU) d) ->
  fista_new Rops UtM UtU n true sp rd lr eps V = V ->
  forall j z, (j < n)%nat -> (forall i, (i < r)%nat -> eps <= z i) ->
    qp_f r (Gf UtU) (bf UtM j) sp rd (colf V j) <= qp_f r (Gf UtU) (bf UtM j) sp rd z.
Proof. exact fista_fixed_point_optimal_eps. Qed.
Print Assumptions C13_fista_fixed_point_optimal_eps.

(* UNIQUENESS (round 5): for a well-conditioned problem -- the penalised form d'Gd/2 + ridge d'd positive definite -- two KKT
   points coincide, so "the same objective value as a reference solver" is "the same SOLUTION" *)
Theorem C13_kkt_unique : forall (n : nat) (G : nat -> nat -> R) (b : nat -> R) (l1 l2 : R) (x z : nat -> R),
  (forall i j, G i j = G j i) ->
  (forall d : nat -> R, (exists i, (i < n)%nat /\ d i <> 0) -> 0 < quad n G d / 2 + l2 * rsum n (fun i => (d i)^2)) ->
  (forall i, (i < n)%nat -> 0 <= x i /\ 0 <= qp_grad n G b l1 l2 x i /\ x i * qp_grad n G b l1 l2 x i = 0) ->
  (forall i, (i < n)%nat -> 0 <= z i /\ 0 <= qp_grad n G b l1 l2 z i /\ z i * qp_grad n G b l1 l2 z i = 0) ->
  forall i, (i < n)%nat -> x i = z i.
Proof. exact kkt_unique. Qed.
Print Assumptions C13_kkt_unique.

(* ... hence a fixed point of the HALS pass and a fixed point of the FISTA step (epsilon = 0, same penalties) are the same matrix *)
Theorem C13_hals_fista_fixed_points_agree : forall (UtM UtU : list (list R)) (r n : nat) (o : @hopts R) (lr : R) (V W : list (list R)),
  wfm r r UtU -> wfm r n UtM -> h_nz o = false -> h_eps o = 0 -> 0 < lr ->
  (forall i j, Gf UtU i j = Gf UtU j i) ->
  (forall d : nat -> R, (exists i, (i < r)%nat /\ d i <> 0) -> 0 < quad r (Gf UtU) d / 2 + l2of o * rsum r (fun i => (d i)^2)) ->
  (forall k, (k < r)%nat -> Gf UtU k k <> 0 /\ 0 < Gf UtU k k + 2 * l2of o) ->
  wfm r n V -> wfm r n W ->
  hals_pass Rops UtM UtU n o V = V -> fista_new Rops UtM UtU n true (l1of o) (l2of o) lr 0 W = W -> V = W.
Proof. exact hals_fista_fixed_points_agree. Qed.
Print Assumptions C13_hals_fista_fixed_points_agree.
Example C13_positive_definite_satisfiable : forall d : nat -> R, (exists i, (i < 2)%nat /\ d i <> 0) ->
  0 < quad 2 (Gf ex_UtU) d / 2 + l2of ex_o * rsum 2 (fun i => (d i)^2).
Proof. exact ex_pd. Qed.

(* (iii)+(iv) a fixed point of the HALS pass (epsilon = 0) attains the minimum of every column's objective,
   hence the same objective value as any other minimiser (e.g. a reference solver's) *)
Theorem C13_hals_fixed_point_optimal : forall (UtM UtU : list (list R)) (r n : nat) (o : @hopts R),
  wfm r r UtU -> wfm r n UtM -> h_nz o = false ->
  forall V : list (list R), wfm r n V -> h_eps o = 0 -> 0 <= l2of o ->
  (forall i j, Gf UtU i j = Gf UtU j i) -> (forall d, 0 <= quad r (Gf UtU) d) ->
  (forall k, (k < r)%nat -> Gf UtU k k <> 0 /\ 0 < Gf UtU k k + 2 * l2of o) ->
  hals_pass Rops UtM UtU n o V = V ->
  forall j z, (j < n)%nat -> (forall i, (i < r)%nat -> 0 <= z i) ->
    qp_f r (Gf UtU) (bf UtM j) (l1of o) (l2of o) (colf V j) <= qp_f r (Gf UtU) (bf UtM j) (l1of o) (l2of o) z.
Proof. exact fixed_point_optimal. Qed.
Print Assumptions C13_hals_fixed_point_optimal.

(* (v) ADMM with n_const=None.  WIRING CHECK ONLY: the hypothesis (tl.solve solves the transposed system) is the
   conclusion up to two transpositions; it says that the branch passes the right matrices to tl.solve and transposes
   the answer back.  The statement of the property is C13_admm_none_least_squares below. *)
Theorem C13_admm_none_normal_equations :
  forall (solve : list (list R) -> list (list R) -> list (list R)) UtM UtU x dual (m r it : nat),
  it <> 0%nat -> wfm r r UtU -> wfm m r UtM ->
  solves r m (mtranspose Rops r UtU) (mtranspose Rops r UtM) (solve (mtranspose Rops r UtU) (mtranspose Rops r UtM)) ->
  let x' := fst (fst (admm_none Rops solve UtM UtU x dual m r it)) in
  wfm m r x' /\ forall c i, (c < m)%nat -> (i < r)%nat -> rsum r (fun k => mget Rops UtU k i * mget Rops x' c k) = mget Rops UtM c i.
Proof. exact admm_none_normal_equations. Qed.
Print Assumptions C13_admm_none_normal_equations.

(* the clause of the property: when UtU and UtM ARE normal-equation data (UtU = U^T U, UtM = M^T U for a design U with q
   rows and data rows M_c) and tl.solve meets its contract, every row of the returned x minimises ||M_c - U z||^2 over
   ALL vectors z: the unconstrained least-squares solution *)
Theorem C13_admm_none_least_squares :
  forall (solve : list (list R) -> list (list R) -> list (list R)) UtM UtU x dual (m r it q : nat)
         (A : nat -> nat -> R) (Y : nat -> nat -> R),
  it <> 0%nat -> wfm r r UtU -> wfm m r UtM ->
  solves r m (mtranspose Rops r UtU) (mtranspose Rops r UtM) (solve (mtranspose Rops r UtU) (mtranspose Rops r UtM)) ->
  (forall k i, (k < r)%nat -> (i < r)%nat -> mget Rops UtU k i = rsum q (fun t => A t k * A t i)) ->
  (forall c i, (c < m)%nat -> (i < r)%nat -> mget Rops UtM c i = rsum q (fun t => Y c t * A t i)) ->
  let x' := fst (fst (admm_none Rops solve UtM UtU x dual m r it)) in
  forall c z, (c < m)%nat ->
    ls_obj q r A (Y c) 0 (fun k => mget Rops x' c k) <= ls_obj q r A (Y c) 0 z.
Proof. exact admm_none_least_squares. Qed.
Print Assumptions C13_admm_none_least_squares.

(* ---------------------------------------------------------------------------------------------- *)
(*  admm: the whole function (Model/NnlsAdmm.v)                                                    *)
(* ---------------------------------------------------------------------------------------------- *)
(* the loop traced with its stopping decisions (used by the correspondence) computes the loop; any field *)
Theorem C13_admm_trace_is_loop : forall (F : Type) (Op : fops F) (solve : list (list F) -> list (list F) -> list (list F))
  (prox : list (list F) -> list (list F)) (UtM UtU : list (list F)) (m r : nat) (tol : F) (fuel : nat)
  (x : list (list F)) (xs : option (list (list F))) (d : list (list F)),
  snd (admm_trace Op solve prox UtM UtU m r tol fuel x xs d) = admm_loop Op solve prox UtM UtU m r tol fuel x xs d.
Proof. exact @admm_trace_snd. Qed.
Print Assumptions C13_admm_trace_is_loop.

(* the square-root-free stopping test of the model is `tl.norm(a) < tol * tl.norm(b)` (every tol, also negative) *)
Theorem C13_admm_norm_test_is_norm_test : forall (tol : R) (a b : list (list R)),
  norm_lt Rops tol a b = true <-> sqrt (nrm2 Rops a) < tol * sqrt (nrm2 Rops b).
Proof. exact norm_lt_spec. Qed.
Print Assumptions C13_admm_norm_test_is_norm_test.

(* "The call returns".  Round 7 found two defects when the whole function was modelled, both repaired in /repo, the model follows the
   repaired code: the use the docstring recommends outside constrained_parafac (n_const = 1, `order` left at its default None) raised
   TypeError (a5b9e5b: order = None is mode 0 -- C13_admm_order_none_is_zero, Example C13_admm_order_none_before_a5b9e5b), and
   n_iter_max = 0 raised UnboundLocalError (fe4edf7: x_split = x^T is bound before the loop -- C13_admm_zero_iterations, Example
   C13_admm_zero_iterations_before_fe4edf7).
   FULL: for EVERY n_iter_max the call returns when (n_const, order) is accepted by proximal_operator -- n_const None, or order (None
   counting as 0) < n_const -- and for n_iter_max = 0 whatever they are; every data, constraint, tol, tl.solve. *)
Theorem C13_admm_returns : forall (F : Type) (Op : fops F) (solve : list (list F) -> list (list F) -> list (list F))
  (n_const order : option nat) (k : constr) (UtM UtU x dual : list (list F)) (m r n : nat) (tol : F),
  (n = 0%nat \/ n_const = None \/ exists nc : nat, n_const = Some nc /\ (order_eff order < nc)%nat) ->
  exists t, admm Op solve n_const order k UtM UtU x dual m r n tol = Ok t.
Proof. exact @admm_returns. Qed.
Print Assumptions C13_admm_returns.
(* the one remaining raising case, as it should (IndexError): at least one iteration and an order >= n_const *)
Theorem C13_admm_raises : forall (F : Type) (Op : fops F) (solve : list (list F) -> list (list F) -> list (list F))
  (n_const order : option nat) (k : constr) (UtM UtU x dual : list (list F)) (m r n : nat) (tol : F),
  n <> 0%nat -> (exists nc : nat, n_const = Some nc /\ (nc <= order_eff order)%nat) ->
  admm Op solve n_const order k UtM UtU x dual m r n tol = Err.
Proof. exact @admm_raises. Qed.
Print Assumptions C13_admm_raises.
(* FULL (repaired code fe4edf7): with n_iter_max = 0 the call returns the start and the split variable consistent with it;
   under the old rule it raised *)
Theorem C13_admm_zero_iterations : forall (F : Type) (Op : fops F) (solve : list (list F) -> list (list F) -> list (list F))
  (n_const order : option nat) (k : constr) (UtM UtU x dual : list (list F)) (m r : nat) (tol : F),
  admm Op solve n_const order k UtM UtU x dual m r 0 tol = Ok (x, mtranspose Op r x, dual).
Proof. exact @admm_zero_iterations. Qed.
Print Assumptions C13_admm_zero_iterations.
Theorem C13_admm_zero_iterations_raised_before_fe4edf7 : forall (F : Type) (Op : fops F) (solve : list (list F) -> list (list F) -> list (list F))
  (n_const order : option nat) (k : constr) (UtM UtU x dual : list (list F)) (m r : nat) (tol : F),
  admm_before_fe4edf7 Op solve n_const order k UtM UtU x dual m r 0 tol = Err.
Proof. exact @admm_zero_iterations_raised_before. Qed.
Print Assumptions C13_admm_zero_iterations_raised_before_fe4edf7.
Example C13_admm_zero_iterations_before_fe4edf7 :
  admm_before_fe4edf7 Qops aw_solve None None (KNone) [[4%Q]] [[2%Q]] [[1%Q]] [[0%Q]] 1 1 0 (1#10000)%Q = Err /\
  admm Qops aw_solve None None (KNone) [[4%Q]] [[2%Q]] [[1%Q]] [[0%Q]] 1 1 0 (1#10000)%Q = Ok ([[1]], [[1]], [[0]])%Q /\
  admm Qops aw_solve (Some 1%nat) (Some 5%nat) (KNonneg) [[4%Q]] [[2%Q]] [[1%Q]] [[0%Q]] 1 1 0 (1#10000)%Q = Ok ([[1]], [[1]], [[0]])%Q.
Proof. exact admm_zero_iterations_witness. Qed.
(* FULL (repaired code a5b9e5b): order = None IS order = 0, for every other argument; under the old rule the call raised *)
Theorem C13_admm_order_none_is_zero : forall (F : Type) (Op : fops F) (solve : list (list F) -> list (list F) -> list (list F))
  (n_const : option nat) (k : constr) (UtM UtU x dual : list (list F)) (m r n : nat) (tol : F),
  admm Op solve n_const None k UtM UtU x dual m r n tol = admm Op solve n_const (Some 0%nat) k UtM UtU x dual m r n tol.
Proof. exact @admm_order_none_is_zero. Qed.
Print Assumptions C13_admm_order_none_is_zero.
Theorem C13_admm_order_none_raised_before_a5b9e5b : forall (F : Type) (Op : fops F) (solve : list (list F) -> list (list F) -> list (list F))
  (nc : nat) (k : constr) (UtM UtU x dual : list (list F)) (m r n : nat) (tol : F),
  admm_before_a5b9e5b Op solve (Some nc) None k UtM UtU x dual m r n tol = Err.
Proof. exact @admm_order_none_raised_before. Qed.
Print Assumptions C13_admm_order_none_raised_before_a5b9e5b.
Example C13_admm_order_none_before_a5b9e5b :
  admm_before_a5b9e5b Qops aw_solve (Some 1%nat) None (KNonneg) [[4%Q]] [[2%Q]] [[0%Q]] [[0%Q]] 1 1 3 (1#10000)%Q = Err /\
  admm Qops aw_solve (Some 1%nat) None (KNonneg) [[4%Q]] [[2%Q]] [[0%Q]] [[0%Q]] 1 1 3 (1#10000)%Q = Ok ([[7#4]], [[7#4]], [[0]])%Q /\
  admm Qops aw_solve (Some 1%nat) (Some 0%nat) (KNonneg) [[4%Q]] [[2%Q]] [[0%Q]] [[0%Q]] 1 1 3 (1#10000)%Q
    = Ok ([[7#4]], [[7#4]], [[0]])%Q /\
  admm Qops aw_solve (Some 1%nat) (Some 1%nat) (KNonneg) [[4%Q]] [[2%Q]] [[0%Q]] [[0%Q]] 1 1 3 (1#10000)%Q = Err /\
  admm Qops aw_solve None None (KNone) [[4%Q]] [[2%Q]] [[0%Q]] [[0%Q]] 1 1 100 (1#10000)%Q = Ok ([[2]], [[1]], [[0]])%Q.
Proof. exact admm_order_none_witness. Qed.

(* the n_const=None branch of the whole-function model IS admm_none: C13_admm_none_least_squares applies to the entry point *)
Theorem C13_admm_nconst_none_is_admm_none : forall (F : Type) (Op : fops F) (solve : list (list F) -> list (list F) -> list (list F))
  (order : option nat) (k : constr) (UtM UtU x dual : list (list F)) (m r n : nat) (tol : F),
  n <> 0%nat ->
  match admm_none Op solve UtM UtU x dual m r n with
  | (x', Some xs', d') => admm Op solve None order k UtM UtU x dual m r n tol = Ok (x', xs', d')
  | _ => False
  end.
Proof. exact @admm_nconst_none. Qed.
Print Assumptions C13_admm_nconst_none_is_admm_none.

(* the elementwise operators of the model are those of the C12 model of tensorly/tenalg/proximal.py, row by row *)
Theorem C13_admm_prox_is_C12_model : forall (F : Type) (Op : fops F) (t : F) (T : list (list F)),
  apply_constr Op KNonneg T = map (Prox.non_negative Op) T /\
  (is0 Op t = false -> apply_constr Op (KL1 t) T = map (Prox.soft_thresholding Op t) T) /\
  (is0 Op t = false -> apply_constr Op (KL2sq t) T = map (Prox.l2_square_prox Op t) T).
Proof. intros F Op t T. exact (conj (prox_is_C12_non_negative Op T) (conj (prox_is_C12_soft_thresholding Op t T) (prox_is_C12_l2_square Op t T))). Qed.
Print Assumptions C13_admm_prox_is_C12_model.

(* FULL, no hypothesis: with a number of constraints but none selected (proximal_operator returns its argument) the dual
   variable is identically zero after every loop body, whatever the data, shapes and tl.solve ... *)
Theorem C13_admm_unconstrained_dual_zero : forall (solve : list (list R) -> list (list R) -> list (list R))
  (UtM UtU : list (list R)) (m r : nat) (x d : list (list R)),
  allz (snd (admm_body Rops solve (fun T => T) UtM UtU m r x d)).
Proof. exact body_id_dual. Qed.
Print Assumptions C13_admm_unconstrained_dual_zero.
(* ... hence the stopping rule never fires: for EVERY tol the loop is the loop without the rule (all n_iter_max bodies run) *)
Theorem C13_admm_unconstrained_runs_all : forall (solve : list (list R) -> list (list R) -> list (list R))
  (UtM UtU : list (list R)) (m r : nat) (tol : R) (fuel : nat) (x : list (list R)) (xs : option (list (list R))) (d : list (list R)),
  admm_loop Rops solve (fun T => T) UtM UtU m r tol fuel x xs d = admm_iter solve UtM UtU m r fuel x xs d.
Proof. exact admm_id_runs_all. Qed.
Print Assumptions C13_admm_unconstrained_runs_all.

(* FULL, END TO END -- the clause "ADMM without constraints returns the unconstrained least-squares solution" for the loop
   (n_const given, no constraint selected, dual_var initialised to zero): for every size, data with rho = trace(UtU)/r > 0,
   lower bound mu >= 0 of the quadratic form of UtU, tl.solve meeting its contract on the ONE matrix (UtU + rho I)^T the loop
   inverts, every tol and every n_iter_max = n >= 1: the call returns the state after exactly n bodies, the dual variable is
   zero, and the squared distance of every row of x to the solution xstar of the normal equations has shrunk by
   (rho / (mu + rho))^(2n) (written without division).  Hypotheses jointly satisfiable: C13_admm_hypotheses_satisfiable. *)
Theorem C13_admm_unconstrained_bound : forall (solve : list (list R) -> list (list R) -> list (list R)) (UtM UtU : list (list R)) (m r : nat),
  wfm r r UtU -> wfm m r UtM -> 0 < admm_rho Rops UtU r ->
  forall mu : R, 0 <= mu ->
  (forall v : nat -> R, mu * rsum r (fun i => v i ^ 2) <= rsum r (fun i => rsum r (fun k => v i * mget Rops UtU k i * v k))) ->
  (forall B, wfm r m B -> solves r m (admm_lhs Rops UtU r) B (solve (admm_lhs Rops UtU r) B)) ->
  forall xstar : list (list R),
  (forall c i, (c < m)%nat -> (i < r)%nat -> rsum r (fun k => mget Rops UtU k i * mget Rops xstar c k) = mget Rops UtM c i) ->
  forall (nc o : nat) (tol : R) (n : nat) (x d : list (list R)),
  (o < nc)%nat -> n <> 0%nat -> wfm m r x -> wfm m r d -> allz d ->
  exists x' xs' d',
    admm Rops solve (Some nc) (Some o) KNone UtM UtU x d m r n tol = Ok (x', xs', d') /\
    (x', Some xs', d') = admm_iter solve UtM UtU m r n x (Some (mtranspose Rops r x)) d /\
    wfm m r x' /\ allz d' /\
    forall c, (c < m)%nat ->
      ((mu + admm_rho Rops UtU r) ^ 2) ^ n * err2 r xstar x' c <= (admm_rho Rops UtU r ^ 2) ^ n * err2 r xstar x c.
Proof. exact admm_unconstrained_bound. Qed.
Print Assumptions C13_admm_unconstrained_bound.

(* the same from ANY initial dual variable: the first body absorbs it (the dual variable becomes zero, x becomes x_1), the
   contraction holds from x_1 on *)
Theorem C13_admm_unconstrained_bound_any_dual : forall (solve : list (list R) -> list (list R) -> list (list R)) (UtM UtU : list (list R)) (m r : nat),
  wfm r r UtU -> wfm m r UtM -> 0 < admm_rho Rops UtU r ->
  forall mu : R, 0 <= mu ->
  (forall v : nat -> R, mu * rsum r (fun i => v i ^ 2) <= rsum r (fun i => rsum r (fun k => v i * mget Rops UtU k i * v k))) ->
  (forall B, wfm r m B -> solves r m (admm_lhs Rops UtU r) B (solve (admm_lhs Rops UtU r) B)) ->
  forall xstar : list (list R),
  (forall c i, (c < m)%nat -> (i < r)%nat -> rsum r (fun k => mget Rops UtU k i * mget Rops xstar c k) = mget Rops UtM c i) ->
  forall (nc o : nat) (tol : R) (n : nat) (x d : list (list R)),
  (o < nc)%nat -> wfm m r x -> wfm m r d ->
  let x1 := fst (fst (admm_body Rops solve (fun T => T) UtM UtU m r x d)) in
  exists x' xs' d',
    admm Rops solve (Some nc) (Some o) KNone UtM UtU x d m r (S n) tol = Ok (x', xs', d') /\
    wfm m r x' /\ allz d' /\
    forall c, (c < m)%nat ->
      ((mu + admm_rho Rops UtU r) ^ 2) ^ n * err2 r xstar x' c <= (admm_rho Rops UtU r ^ 2) ^ n * err2 r xstar x1 c.
Proof. exact admm_unconstrained_bound_any_dual. Qed.
Print Assumptions C13_admm_unconstrained_bound_any_dual.

(* the limit: for positive definite UtU (mu > 0) the returned x tends to the least-squares solution as n_iter_max grows *)
Theorem C13_admm_unconstrained_converges : forall (solve : list (list R) -> list (list R) -> list (list R)) (UtM UtU : list (list R)) (m r : nat),
  wfm r r UtU -> wfm m r UtM -> 0 < admm_rho Rops UtU r ->
  forall mu : R, 0 <= mu ->
  (forall v : nat -> R, mu * rsum r (fun i => v i ^ 2) <= rsum r (fun i => rsum r (fun k => v i * mget Rops UtU k i * v k))) ->
  (forall B, wfm r m B -> solves r m (admm_lhs Rops UtU r) B (solve (admm_lhs Rops UtU r) B)) ->
  forall xstar : list (list R),
  (forall c i, (c < m)%nat -> (i < r)%nat -> rsum r (fun k => mget Rops UtU k i * mget Rops xstar c k) = mget Rops UtM c i) ->
  forall (nc o : nat) (tol : R) (x d : list (list R)),
  (o < nc)%nat -> 0 < mu -> wfm m r x -> wfm m r d -> allz d ->
  forall eps, 0 < eps -> exists N, forall n, (N <= n)%nat -> n <> 0%nat ->
    forall x' xs' d', admm Rops solve (Some nc) (Some o) KNone UtM UtU x d m r n tol = Ok (x', xs', d') ->
    forall c, (c < m)%nat -> err2 r xstar x' c < eps.
Proof. exact admm_unconstrained_converges. Qed.
Print Assumptions C13_admm_unconstrained_converges.

(* non-vacuity: the 1 x 1 instance UtU = [[2]], UtM = [[4]], mu = 2, xstar = [[2]], solve = division satisfies all the
   hypotheses at once; on it the bound reads 16^n (x_n - 2)^2 <= 4^n * 4 *)
Example C13_admm_hypotheses_satisfiable :
  wfm 1 1 [[2]] /\ wfm 1 1 [[4]] /\ 0 < admm_rho Rops [[2]] 1 /\
  (forall v : nat -> R, 2 * rsum 1 (fun i => (v i)^2) <= rsum 1 (fun i => rsum 1 (fun k => v i * mget Rops [[2]] k i * v k))) /\
  (forall B, wfm 1 1 B -> solves 1 1 (admm_lhs Rops [[2]] 1) B (asolve1 (admm_lhs Rops [[2]] 1) B)) /\
  (forall c i, (c < 1)%nat -> (i < 1)%nat -> rsum 1 (fun k => mget Rops [[2]] k i * mget Rops [[2]] c k) = mget Rops [[4]] c i).
Proof. exact admm_example_hyps. Qed.
Example C13_admm_example_bound : forall n, n <> 0%nat ->
  exists x' xs' d', admm Rops asolve1 (Some 1%nat) (Some 0%nat) KNone [[4]] [[2]] [[0]] [[0]] 1 1 n (1/10000) = Ok (x', xs', d') /\
    ((2 + 2)^2)^n * (mget Rops x' 0 0 - 2)^2 <= (2^2)^n * (0 - 2)^2.
Proof. exact admm_example_bound. Qed.

(* FULL: admm with non_negative=True -- a state (x, dual_var) that one loop body reproduces is a KKT point of the row
   problems min 1/2 z' UtU z - UtM_c z, z >= 0: x >= 0, gradient >= 0, complementary; the multiplier is rho * dual_var.
   (Fixed point => KKT only; nothing is proved about the convergence of the constrained iteration.) *)
Theorem C13_admm_nonneg_fixed_point_kkt : forall (solve : list (list R) -> list (list R) -> list (list R)) (UtM UtU : list (list R)) (m r : nat),
  wfm r r UtU -> wfm m r UtM -> 0 < admm_rho Rops UtU r ->
  (forall B, wfm r m B -> solves r m (admm_lhs Rops UtU r) B (solve (admm_lhs Rops UtU r) B)) ->
  forall x d : list (list R), wfm m r x -> wfm m r d ->
  let b := admm_body Rops solve (apply_constr Rops KNonneg) UtM UtU m r x d in
  fst (fst b) = x -> snd b = d ->
  forall c i, (c < m)%nat -> (i < r)%nat ->
    let g := rsum r (fun k => mget Rops UtU k i * mget Rops x c k) - mget Rops UtM c i in
    0 <= mget Rops x c i /\ 0 <= g /\ mget Rops x c i * g = 0 /\ g = admm_rho Rops UtU r * mget Rops d c i.
Proof. exact admm_nonneg_fixed_point_kkt. Qed.
Print Assumptions C13_admm_nonneg_fixed_point_kkt.

(* FULL: admm with l1_reg = t > 0 -- a state (x, dual_var) that one loop body reproduces satisfies, row by row, the optimality
   conditions of the l1-penalised problem min 1/2 z' UtU z - UtM_c z + (rho t) |z|_1 (the weight is rho * t: the proximal step is
   taken with unit step): |g| <= rho t, g = - rho t where x > 0, g = rho t where x < 0, g the gradient of the quadratic part.
   (Fixed point => optimality conditions only.) *)
Theorem C13_admm_l1_fixed_point_kkt : forall (solve : list (list R) -> list (list R) -> list (list R)) (UtM UtU : list (list R)) (m r : nat) (t : R),
  wfm r r UtU -> wfm m r UtM -> 0 < admm_rho Rops UtU r -> 0 < t ->
  (forall B, wfm r m B -> solves r m (admm_lhs Rops UtU r) B (solve (admm_lhs Rops UtU r) B)) ->
  forall x d : list (list R), wfm m r x -> wfm m r d ->
  let b := admm_body Rops solve (apply_constr Rops (KL1 t)) UtM UtU m r x d in
  fst (fst b) = x -> snd b = d ->
  forall c i, (c < m)%nat -> (i < r)%nat ->
    let g := rsum r (fun k => mget Rops UtU k i * mget Rops x c k) - mget Rops UtM c i in
    - (admm_rho Rops UtU r * t) <= g <= admm_rho Rops UtU r * t /\
    (0 < mget Rops x c i -> g = - (admm_rho Rops UtU r * t)) /\ (mget Rops x c i < 0 -> g = admm_rho Rops UtU r * t).
Proof. exact admm_l1_fixed_point_kkt. Qed.
Print Assumptions C13_admm_l1_fixed_point_kkt.

(* FULL: admm with non_negative=True returns a non-negative x -- any tl.solve (no contract), any data and shapes, any tol,
   any n_const / order the call accepts (at least one iteration, or a non-negative start) *)
Theorem C13_admm_nonneg_returns_nonneg : forall (solve : list (list R) -> list (list R) -> list (list R)) (nc : nat) (order : option nat)
  (UtM UtU x dual : list (list R)) (m r n : nat) (tol : R) (x' xs' d' : list (list R)),
  (n <> 0%nat \/ nonnegm x) ->
  admm Rops solve (Some nc) order KNonneg UtM UtU x dual m r n tol = Ok (x', xs', d') -> nonnegm x'.
Proof. exact admm_nonneg_returns_nonneg. Qed.
Print Assumptions C13_admm_nonneg_returns_nonneg.

(* FULL (round 7): nonzero_rows=True with epsilon > 0 -- every updated row is >= epsilon > 0, the safety reset never fires; when no
   diagonal entry of UtU vanishes (otherwise nonzero_rows raises, C13_hals_rejects...) the call IS the call with nonzero_rows=False
   (nz_off o), for every start (warm or cold), budget, tol, sparsity / ridge coefficient: so the theorems stated for
   nonzero_rows=False (descent, limit, fixed point <=> KKT, optimality at the bound epsilon) apply to it *)
Theorem C13_hals_nonzero_rows_eps_is_plain : forall (UtM UtU : list (list R)) (n : nat) (o : @hopts R),
  0 < h_eps o -> n <> 0%nat ->
  forall (V0 : option (list (list R))) (sol : list (list R)) (iters : nat) (tol : R), zero_diag Rops UtM UtU = false ->
  hals_nnls Rops UtM UtU n V0 sol iters tol o = hals_nnls Rops UtM UtU n V0 sol iters tol (nz_off o).
Proof. exact hals_nnls_nonzero_rows_eps. Qed.
Print Assumptions C13_hals_nonzero_rows_eps_is_plain.

(* non-vacuity of the HALS fixed-point / optimality theorems: a 2 x 1 problem with one inactive and one active
   constraint; its optimum (3/2, 0) satisfies every hypothesis above at once (plain and l1/ridge-penalised) *)
Example C13_hals_hypotheses_satisfiable :
  wfm 2 2 ex_UtU /\ wfm 2 1 ex_UtM /\ wfm 2 1 ex_V /\ h_nz ex_o = false /\ h_eps ex_o = 0 /\ 0 <= l2of ex_o /\
  (forall i j, Gf ex_UtU i j = Gf ex_UtU j i) /\ (forall d, 0 <= quad 2 (Gf ex_UtU) d) /\
  (forall k, (k < 2)%nat -> Gf ex_UtU k k <> 0 /\ 0 < Gf ex_UtU k k + 2 * l2of ex_o) /\
  hals_pass Rops ex_UtM ex_UtU 1 ex_o ex_V = ex_V /\
  hals_pass Rops ex_UtM ex_UtU 1 ex_o_pen ex_V_pen = ex_V_pen /\
  fista_new Rops ex_UtM ex_UtU 1 true 0 0 (1 / 3) 0 ex_V = ex_V /\
  mget Rops ex_V 0 0 = 3 / 2 /\ mget Rops ex_V 1 0 = 0.
Proof. exact ex_all. Qed.

(* ---------------------------------------------------------------------------------------------- *)
(*  hals_nnls "run to convergence": the quantitative argument (round 5)                            *)
(*  Notation of Proofs/NnlsProofsConv.v:                                                            *)
(*    stepsq V j   = sum_k (UtU[k,k]/2 + ridge) (pass(V)[k,j] - V[k,j])^2   weighted squared step, column j *)
(*    stepsq_tot V = sum_j stepsq V j ;  Phi V = sum_j objective of column j                       *)
(*    resid W V k j = sum_l |UtU[k,l]| |W[l,j] - V[l,j]|                                            *)
(* ---------------------------------------------------------------------------------------------- *)
(* TELESCOPING of the sufficient decrease over M passes: the objective after M passes plus the weighted squared steps of
   all M passes is at most the objective at the (feasible) start; induction over M *)
Theorem C13_hals_steps_telescope : forall (UtM UtU : list (list R)) (r n : nat) (o : @hopts R),
  wfm r r UtU -> wfm r n UtM -> h_nz o = false ->
  (forall i j, Gf UtU i j = Gf UtU j i) ->
  (forall k, (k < r)%nat -> Gf UtU k k <> 0 -> 0 < Gf UtU k k + 2 * l2of o) ->
  forall (M : nat) (V : list (list R)) (j : nat), wfm r n V ->
  (forall i j', (i < r)%nat -> (j' < n)%nat -> h_eps o <= mget Rops V i j') -> (j < n)%nat ->
  qp_f r (Gf UtU) (bf UtM j) (l1of o) (l2of o) (colf (iterl M (hals_pass Rops UtM UtU n o) V) j)
  + rsum M (fun m => stepsq UtM UtU r n o (iterl m (hals_pass Rops UtM UtU n o) V) j)
  <= qp_f r (Gf UtU) (bf UtM j) (l1of o) (l2of o) (colf V j).
Proof. exact iterates_steps_telescope. Qed.
Print Assumptions C13_hals_steps_telescope.

(* SUMMABLE STEPS: with epsilon = 0, a PSD Gram matrix and ANY KKT point X of the problem (e.g. a reference solver's
   answer) the squared steps of all passes sum to at most Phi(V0) - Phi(X), uniformly in the number of passes: the steps
   tend to zero *)
Theorem C13_hals_steps_summable : forall (UtM UtU : list (list R)) (r n : nat) (o : @hopts R),
  wfm r r UtU -> wfm r n UtM -> h_nz o = false ->
  (forall i j, Gf UtU i j = Gf UtU j i) ->
  (forall k, (k < r)%nat -> Gf UtU k k <> 0 -> 0 < Gf UtU k k + 2 * l2of o) ->
  h_eps o = 0 -> 0 <= l2of o -> (forall d, 0 <= quad r (Gf UtU) d) ->
  forall X : list (list R),
  (forall k j, (k < r)%nat -> (j < n)%nat ->
     0 <= mget Rops X k j /\ 0 <= qp_grad r (Gf UtU) (bf UtM j) (l1of o) (l2of o) (colf X j) k /\
     mget Rops X k j * qp_grad r (Gf UtU) (bf UtM j) (l1of o) (l2of o) (colf X j) k = 0) ->
  forall (M : nat) (V : list (list R)), wfm r n V ->
  (forall i j, (i < r)%nat -> (j < n)%nat -> h_eps o <= mget Rops V i j) ->
  rsum M (fun m => stepsq_tot UtM UtU r n o (iterl m (hals_pass Rops UtM UtU n o) V)) <= Phi UtM UtU r n o V - Phi UtM UtU r n o X.
Proof. exact steps_summable. Qed.
Print Assumptions C13_hals_steps_summable.

(* SMALL STEP => APPROXIMATE KKT: at W = pass(V) (any V of the right shape, non-zero diagonal) entry (k,j) is feasible and
   its KKT residuals are bounded by D = sum_l |UtU[k,l]| |W[l,j] - V[l,j]|: gradient >= -D, |(W - eps) g| <= (W - eps) D.
   (Induction over the rows of the pass: each row update makes its own coordinate conditions exact, later updates
   move the gradient by at most the corresponding part of D.)  D = 0 is the fixed-point theorem. *)
Theorem C13_hals_pass_kkt_residual : forall (UtM UtU : list (list R)) (r n : nat) (o : @hopts R),
  wfm r r UtU -> wfm r n UtM -> h_nz o = false ->
  (forall k, (k < r)%nat -> Gf UtU k k <> 0 -> 0 < Gf UtU k k + 2 * l2of o) ->
  (forall k, (k < r)%nat -> Gf UtU k k <> 0) ->
  forall (V : list (list R)) (k j : nat), wfm r n V -> (k < r)%nat -> (j < n)%nat ->
  let W := hals_pass Rops UtM UtU n o V in
  let g := qp_grad r (Gf UtU) (bf UtM j) (l1of o) (l2of o) (colf W j) k in
  let D := rsum r (fun l => Rabs (Gf UtU k l) * Rabs (mget Rops W l j - mget Rops V l j)) in
  h_eps o <= mget Rops W k j /\ - D <= g /\ Rabs ((mget Rops W k j - h_eps o) * g) <= (mget Rops W k j - h_eps o) * D.
Proof. exact pass_kkt_residual. Qed.
Print Assumptions C13_hals_pass_kkt_residual.

(* BEST-ITERATE RATE: among the first M passes from a feasible start there is one whose result W is non-negative with KKT
   residuals D (as above, against the previous iterate) satisfying  M * w * D^2 <= (sum_l UtU[k,l]^2) (Phi(V0) - Phi(X)),
   where w > 0 bounds the weights UtU[l,l]/2 + ridge from below and X is any KKT point: the best iterate is KKT within
   O(1/sqrt M).  (About the BEST of the iterates, not the last one, which is what hals_nnls returns; for the last one
   only monotonicity of the objective and the telescoped bound are proved.) *)
Theorem C13_hals_best_iterate_kkt_rate : forall (UtM UtU : list (list R)) (r n : nat) (o : @hopts R),
  wfm r r UtU -> wfm r n UtM -> h_nz o = false ->
  (forall i j, Gf UtU i j = Gf UtU j i) ->
  (forall k, (k < r)%nat -> Gf UtU k k <> 0 -> 0 < Gf UtU k k + 2 * l2of o) ->
  (forall k, (k < r)%nat -> Gf UtU k k <> 0) ->
  h_eps o = 0 -> 0 <= l2of o -> (forall d, 0 <= quad r (Gf UtU) d) ->
  forall X : list (list R),
  (forall k j, (k < r)%nat -> (j < n)%nat ->
     0 <= mget Rops X k j /\ 0 <= qp_grad r (Gf UtU) (bf UtM j) (l1of o) (l2of o) (colf X j) k /\
     mget Rops X k j * qp_grad r (Gf UtU) (bf UtM j) (l1of o) (l2of o) (colf X j) k = 0) ->
  forall w : R, 0 < w -> (forall l, (l < r)%nat -> w <= Gf UtU l l / 2 + l2of o) ->
  forall (M : nat) (V : list (list R)), (0 < M)%nat -> wfm r n V ->
  (forall i j, (i < r)%nat -> (j < n)%nat -> h_eps o <= mget Rops V i j) ->
  exists m, (m < M)%nat /\
    let V' := iterl m (hals_pass Rops UtM UtU n o) V in
    let W := iterl (S m) (hals_pass Rops UtM UtU n o) V in
    forall k j, (k < r)%nat -> (j < n)%nat ->
      let g := qp_grad r (Gf UtU) (bf UtM j) (l1of o) (l2of o) (colf W j) k in
      let D := rsum r (fun l => Rabs (Gf UtU k l) * Rabs (mget Rops W l j - mget Rops V' l j)) in
      0 <= mget Rops W k j /\ - D <= g /\ Rabs (mget Rops W k j * g) <= mget Rops W k j * D /\
      INR M * (w * D ^ 2) <= rsum r (fun l => Gf UtU k l ^ 2) * (Phi UtM UtU r n o V - Phi UtM UtU r n o X).
Proof. exact best_iterate_kkt. Qed.
Print Assumptions C13_hals_best_iterate_kkt_rate.

(* THE LIMIT STATEMENT for the iterates themselves (round 5): from a feasible start the weighted squared steps tend to zero
   (completeness of R: a non-negative series with bounded partial sums has terms tending to zero), hence the KKT residual
   bounds of the iterates tend to zero: for every eps > 0 there is N such that EVERY iterate beyond N -- W = iterate m+1,
   V' = iterate m, m >= N -- is non-negative with gradient >= -D, |W g| <= W D and w D^2 <= (sum_l UtU[k,l]^2) eps. *)
Theorem C13_hals_kkt_residuals_tend_to_zero : forall (UtM UtU : list (list R)) (r n : nat) (o : @hopts R),
  wfm r r UtU -> wfm r n UtM -> h_nz o = false ->
  (forall i j, Gf UtU i j = Gf UtU j i) ->
  (forall k, (k < r)%nat -> Gf UtU k k <> 0 -> 0 < Gf UtU k k + 2 * l2of o) ->
  (forall k, (k < r)%nat -> Gf UtU k k <> 0) ->
  h_eps o = 0 -> 0 <= l2of o -> (forall d, 0 <= quad r (Gf UtU) d) ->
  forall X : list (list R),
  (forall k j, (k < r)%nat -> (j < n)%nat ->
     0 <= mget Rops X k j /\ 0 <= qp_grad r (Gf UtU) (bf UtM j) (l1of o) (l2of o) (colf X j) k /\
     mget Rops X k j * qp_grad r (Gf UtU) (bf UtM j) (l1of o) (l2of o) (colf X j) k = 0) ->
  forall w : R, 0 < w -> (forall l, (l < r)%nat -> w <= Gf UtU l l / 2 + l2of o) ->
  forall V : list (list R), wfm r n V -> (forall i j, (i < r)%nat -> (j < n)%nat -> h_eps o <= mget Rops V i j) ->
  forall eps, 0 < eps -> exists N, forall m, (N <= m)%nat ->
    let V' := iterl m (hals_pass Rops UtM UtU n o) V in let Wm := iterl (S m) (hals_pass Rops UtM UtU n o) V in
    forall k j, (k < r)%nat -> (j < n)%nat ->
      let g := qp_grad r (Gf UtU) (bf UtM j) (l1of o) (l2of o) (colf Wm j) k in
      let D := rsum r (fun l => Rabs (Gf UtU k l) * Rabs (mget Rops Wm l j - mget Rops V' l j)) in
      0 <= mget Rops Wm k j /\ - D <= g /\ Rabs (mget Rops Wm k j * g) <= mget Rops Wm k j * D /\
      w * D ^ 2 <= rsum r (fun l => Gf UtU k l ^ 2) * eps.
Proof. exact kkt_residuals_tend_to_zero. Qed.
Print Assumptions C13_hals_kkt_residuals_tend_to_zero.

(* ... stated for the FUNCTION: hals_nnls with tol = 0 and n_iter_max = m + 1 from a feasible warm start returns a non-negative
   matrix whose KKT residuals are bounded by some D >= 0 with w D^2 <= (sum_l UtU[k,l]^2) eps, for every budget beyond
   N(eps): "run to convergence, hals_nnls returns a KKT point" as a limit over the budget.  (No rate for the last iterate:
   N(eps) comes from completeness, not from a formula; the rate theorem above is about the best iterate.) *)
Theorem C13_hals_nnls_converges_to_kkt : forall (UtM UtU : list (list R)) (r n : nat) (o : @hopts R),
  wfm r r UtU -> wfm r n UtM -> h_nz o = false ->
  (forall i j, Gf UtU i j = Gf UtU j i) ->
  (forall k, (k < r)%nat -> Gf UtU k k <> 0 -> 0 < Gf UtU k k + 2 * l2of o) ->
  (forall k, (k < r)%nat -> Gf UtU k k <> 0) ->
  h_eps o = 0 -> 0 <= l2of o -> (forall d, 0 <= quad r (Gf UtU) d) ->
  forall X : list (list R),
  (forall k j, (k < r)%nat -> (j < n)%nat ->
     0 <= mget Rops X k j /\ 0 <= qp_grad r (Gf UtU) (bf UtM j) (l1of o) (l2of o) (colf X j) k /\
     mget Rops X k j * qp_grad r (Gf UtU) (bf UtM j) (l1of o) (l2of o) (colf X j) k = 0) ->
  forall w : R, 0 < w -> (forall l, (l < r)%nat -> w <= Gf UtU l l / 2 + l2of o) ->
  forall V : list (list R), wfm r n V -> (forall i j, (i < r)%nat -> (j < n)%nat -> h_eps o <= mget Rops V i j) ->
  forall eps, 0 < eps -> exists N, forall m, (N <= m)%nat ->
    exists Wm, hals_nnls Rops UtM UtU n (Some V) [] (S m) 0 o = Ok Wm /\
    forall k j, (k < r)%nat -> (j < n)%nat ->
      let g := qp_grad r (Gf UtU) (bf UtM j) (l1of o) (l2of o) (colf Wm j) k in
      exists D, 0 <= D /\ 0 <= mget Rops Wm k j /\ - D <= g /\ Rabs (mget Rops Wm k j * g) <= mget Rops Wm k j * D /\
                w * D ^ 2 <= rsum r (fun l => Gf UtU k l ^ 2) * eps.
Proof. exact hals_nnls_converges_to_kkt. Qed.
Print Assumptions C13_hals_nnls_converges_to_kkt.

(* ... and from the COLD start (V = None), for EVERY recorded answer of tl.solve: the clipped and rescaled start may be infeasible,
   the first pass repairs it, from there the limit statement holds (budget m + 2) *)
Theorem C13_hals_nnls_cold_converges_to_kkt : forall (UtM UtU : list (list R)) (r n : nat) (o : @hopts R),
  wfm r r UtU -> wfm r n UtM -> h_nz o = false ->
  (forall i j, Gf UtU i j = Gf UtU j i) ->
  (forall k, (k < r)%nat -> Gf UtU k k <> 0 -> 0 < Gf UtU k k + 2 * l2of o) ->
  (forall k, (k < r)%nat -> Gf UtU k k <> 0) ->
  h_eps o = 0 -> 0 <= l2of o -> (forall d, 0 <= quad r (Gf UtU) d) ->
  forall X : list (list R),
  (forall k j, (k < r)%nat -> (j < n)%nat ->
     0 <= mget Rops X k j /\ 0 <= qp_grad r (Gf UtU) (bf UtM j) (l1of o) (l2of o) (colf X j) k /\
     mget Rops X k j * qp_grad r (Gf UtU) (bf UtM j) (l1of o) (l2of o) (colf X j) k = 0) ->
  forall w : R, 0 < w -> (forall l, (l < r)%nat -> w <= Gf UtU l l / 2 + l2of o) ->
  forall sol : list (list R), wfm r n sol ->
  forall eps, 0 < eps -> exists N, forall m, (N <= m)%nat ->
    exists Wm, hals_nnls Rops UtM UtU n None sol (S (S m)) 0 o = Ok Wm /\
    forall k j, (k < r)%nat -> (j < n)%nat ->
      let g := qp_grad r (Gf UtU) (bf UtM j) (l1of o) (l2of o) (colf Wm j) k in
      exists D, 0 <= D /\ 0 <= mget Rops Wm k j /\ - D <= g /\ Rabs (mget Rops Wm k j * g) <= mget Rops Wm k j * D /\
                w * D ^ 2 <= rsum r (fun l => Gf UtU k l ^ 2) * eps.
Proof. exact hals_nnls_cold_converges_to_kkt. Qed.
Print Assumptions C13_hals_nnls_cold_converges_to_kkt.

(* APPROXIMATE KKT => NEAR-OPTIMAL OBJECTIVE (the clause "hence attain the same objective value as a reference solver",
   quantitatively): UtU symmetric PSD, ridge >= 0; a point w with gradient >= -d_i and complementarity |w_i g_i| <= c_i has
   objective at most sum_i (c_i + d_i z_i) above that of ANY non-negative z -- in particular above the minimum, or a
   reference solver's value.  (What the Python predicates measure -- KKT residuals of a returned point -- bounds its
   objective gap.) *)
Theorem C13_approx_kkt_objective_gap : forall (n : nat) (G : nat -> nat -> R) (b : nat -> R) (l1 l2 : R) (w z c d : nat -> R),
  (forall i j, G i j = G j i) -> (forall e, 0 <= quad n G e) -> 0 <= l2 ->
  (forall i, (i < n)%nat -> 0 <= z i) ->
  (forall i, (i < n)%nat -> - d i <= qp_grad n G b l1 l2 w i /\ Rabs (w i * qp_grad n G b l1 l2 w i) <= c i) ->
  qp_f n G b l1 l2 w - qp_f n G b l1 l2 z <= rsum n (fun i => c i + d i * z i).
Proof. exact approx_kkt_objective_gap. Qed.
Print Assumptions C13_approx_kkt_objective_gap.

(* ... for the HALS pass (epsilon = 0): the objective of column j at W = pass(V) exceeds that of any z >= 0 by at most
   sum_k D_k (W[k,j] + z_k), D_k = sum_l |UtU[k,l]| |W[l,j] - V[l,j]|: a small step means a small objective gap *)
Theorem C13_hals_pass_objective_gap : forall (UtM UtU : list (list R)) (r n : nat) (o : @hopts R),
  wfm r r UtU -> wfm r n UtM -> h_nz o = false ->
  (forall i j, Gf UtU i j = Gf UtU j i) -> (forall e, 0 <= quad r (Gf UtU) e) -> 0 <= l2of o ->
  (forall k, (k < r)%nat -> Gf UtU k k <> 0 -> 0 < Gf UtU k k + 2 * l2of o) ->
  (forall k, (k < r)%nat -> Gf UtU k k <> 0) -> h_eps o = 0 ->
  forall (V : list (list R)) (j : nat) (z : nat -> R), wfm r n V -> (j < n)%nat -> (forall i, (i < r)%nat -> 0 <= z i) ->
  let W := hals_pass Rops UtM UtU n o V in
  qp_f r (Gf UtU) (bf UtM j) (l1of o) (l2of o) (colf W j) - qp_f r (Gf UtU) (bf UtM j) (l1of o) (l2of o) z
  <= rsum r (fun k => rsum r (fun l => Rabs (Gf UtU k l) * Rabs (mget Rops W l j - mget Rops V l j)) * (mget Rops W k j + z k)).
Proof. exact pass_objective_gap. Qed.
Print Assumptions C13_hals_pass_objective_gap.

(* ... and, for a well-conditioned problem (mu |d|^2 <= d'UtU d + 2 ridge |d|^2), the DISTANCE of W = pass(V) to a KKT point X is controlled
   by the step (round 6): mu/2 |W[:,j] - X[:,j]|^2 <= sum_k D_k (W[k,j] + X[k,j]) *)
Theorem C13_hals_pass_distance : forall (UtM UtU : list (list R)) (r n : nat) (o : @hopts R),
  wfm r r UtU -> wfm r n UtM -> h_nz o = false ->
  (forall i j, Gf UtU i j = Gf UtU j i) -> (forall e, 0 <= quad r (Gf UtU) e) -> 0 <= l2of o ->
  (forall k, (k < r)%nat -> Gf UtU k k <> 0 -> 0 < Gf UtU k k + 2 * l2of o) ->
  (forall k, (k < r)%nat -> Gf UtU k k <> 0) -> h_eps o = 0 ->
  forall (V : list (list R)) (j : nat) (X : list (list R)) (mu : R), wfm r n V -> (j < n)%nat ->
  (forall d : nat -> R, mu * rsum r (fun i => (d i)^2) <= quad r (Gf UtU) d + 2 * l2of o * rsum r (fun i => (d i)^2)) ->
  (forall i, (i < r)%nat -> 0 <= mget Rops X i j /\ 0 <= qp_grad r (Gf UtU) (bf UtM j) (l1of o) (l2of o) (colf X j) i /\
                            mget Rops X i j * qp_grad r (Gf UtU) (bf UtM j) (l1of o) (l2of o) (colf X j) i = 0) ->
  let W := hals_pass Rops UtM UtU n o V in
  mu / 2 * rsum r (fun k => (mget Rops W k j - mget Rops X k j)^2)
  <= rsum r (fun k => rsum r (fun l => Rabs (Gf UtU k l) * Rabs (mget Rops W l j - mget Rops V l j)) * (mget Rops W k j + mget Rops X k j)).
Proof. exact pass_distance. Qed.
Print Assumptions C13_hals_pass_distance.

(* tol = 0 (the protocol under which the harness runs hals_nnls to convergence; exact=True up to its 1e-16): the per-pass
   error is a sum of squares, the rule `rec_error < tol * rec_error0` never fires and the loop performs exactly n_iter_max
   passes -- any nonzero_rows setting *)
Theorem C13_hals_tol0_runs_all : forall (UtM UtU : list (list R)) (n : nat) (o : @hopts R) (fuel : nat) (first : bool) (err0 : R) (V : list (list R)),
  hals_loop Rops UtM UtU n o 0 fuel first err0 V = iterl fuel (hals_pass Rops UtM UtU n o) V.
Proof. exact hals_tol0_runs_all. Qed.
Print Assumptions C13_hals_tol0_runs_all.

(* non-vacuity of the hypotheses of the rate / gap theorems above beyond C13_hals_hypotheses_satisfiable: the optimum of the
   2 x 1 example in the form used here, the weight bound w = 1, and a feasible start (zero) that is NOT a fixed point *)
Example C13_hals_rate_hypotheses_satisfiable :
  (forall k j, (k < 2)%nat -> (j < 1)%nat ->
     0 <= mget Rops ex_V k j /\ 0 <= qp_grad 2 (Gf ex_UtU) (bf ex_UtM j) (l1of ex_o) (l2of ex_o) (colf ex_V j) k /\
     mget Rops ex_V k j * qp_grad 2 (Gf ex_UtU) (bf ex_UtM j) (l1of ex_o) (l2of ex_o) (colf ex_V j) k = 0) /\
  (forall l, (l < 2)%nat -> 1 <= Gf ex_UtU l l / 2 + l2of ex_o) /\
  wfm 2 1 ex_V0 /\ (forall i j, (i < 2)%nat -> (j < 1)%nat -> h_eps ex_o <= mget Rops ex_V0 i j) /\
  hals_pass Rops ex_UtM ex_UtU 1 ex_o ex_V0 <> ex_V0.
Proof. exact ex_rate_hyps. Qed.

(* ---------------------------------------------------------------------------------------------- *)
(*  hals_nnls, cold start (V = None), repaired code:                                               *)
(*  V = clip(solve(UtU, UtM), 0); if sum(UtU*VV^T) > 0: V = V * sum(UtM*V)/sum(UtU*VV^T)           *)
(* ---------------------------------------------------------------------------------------------- *)
(* for EVERY recorded answer of tl.solve the start has the right shape and the result is an iterate of the pass
   from it (before /repo 5f3eaf7 this failed with NaN on the class below) *)
Theorem C13_hals_cold_start : forall (UtM UtU : list (list R)) (r n : nat) (sol : list (list R)) (iters : nat) (tol : R) (o : @hopts R),
  h_nz o = false -> wfm r n sol ->
  wfm r n (hals_init Rops UtM UtU n sol) /\ exists m, (m <= iters)%nat /\
    hals_nnls Rops UtM UtU n None sol iters tol o = Ok (iterl m (hals_pass Rops UtM UtU n o) (hals_init Rops UtM UtU n sol)).
Proof. exact hals_cold_start. Qed.
Print Assumptions C13_hals_cold_start.

(* with a positive budget and a non-zero diagonal every entry of the cold-start result is >= epsilon
   (the start itself may be infeasible: the scale can be negative) *)
Theorem C13_hals_cold_start_ge_eps : forall (UtM UtU : list (list R)) (r n : nat) (sol : list (list R)) (iters : nat) (tol : R) (o : @hopts R),
  wfm r r UtU -> wfm r n UtM -> h_nz o = false -> wfm r n sol ->
  (0 < iters)%nat -> (forall k, (k < r)%nat -> Gf UtU k k <> 0) ->
  exists W, hals_nnls Rops UtM UtU n None sol iters tol o = Ok W /\
            forall i j, (i < r)%nat -> (j < n)%nat -> h_eps o <= mget Rops W i j.
Proof. exact hals_cold_start_ge_eps. Qed.
Print Assumptions C13_hals_cold_start_ge_eps.

(* the former NaN class: no positive entry in the unconstrained solution => the start is the clipped solution,
   identically zero (a feasible start) *)
Theorem C13_hals_cold_start_zero_class : forall (UtM UtU : list (list R)) (n : nat) (sol : list (list R)),
  Forall (Forall (fun x => x <= 0)) sol ->
  hals_init Rops UtM UtU n sol = mmap (fmax Rops (f0 Rops)) sol /\
  Forall (Forall (fun x => x = 0)) (hals_init Rops UtM UtU n sol).
Proof. exact hals_init_zero_class. Qed.
Print Assumptions C13_hals_cold_start_zero_class.

(* non-vacuity / regression: the former NaN witness UtU = [[2]], UtM = [[-1]] (answer of solve -1/2, NNLS optimum 0) *)
Example C13_hals_cold_start_witness : hals_init Rops [[-1]] [[2]] 1 [[-1/2]] = [[0]].
Proof. exact hals_cold_start_witness_zero. Qed.

(* ---------------------------------------------------------------------------------------------- *)
(*  fista (non_negative = True)                                                                    *)
(* ---------------------------------------------------------------------------------------------- *)
(* every returned point of a run with at least one iteration is >= epsilon *)
Theorem C13_fista_iterates_ge_eps : forall (UtM UtU : list (list R)) (r n : nat) (sp rd lr tol eps : R),
  wfm r r UtU -> wfm r n UtM ->
  forall (x0 : list (list R)) (betas : list R) (i j : nat), wfm r n x0 -> betas <> [] -> (i < r)%nat -> (j < n)%nat ->
  eps <= mget Rops (fista Rops UtM UtU n true sp rd lr tol eps x0 betas) i j.
Proof. exact fista_ge_eps. Qed.
Print Assumptions C13_fista_iterates_ge_eps.

(* fixed point of the projected gradient step (any step lr > 0) => KKT at the bound epsilon, l1 and ridge inside g *)
Theorem C13_fista_fixed_point_kkt : forall (UtM UtU : list (list R)) (r n : nat) (sp rd lr eps : R),
  wfm r r UtU -> wfm r n UtM ->
  forall V : list (list R), 0 < lr -> wfm r n V -> fista_new Rops UtM UtU n true sp rd lr eps V = V ->
  forall i j, (i < r)%nat -> (j < n)%nat ->
    let g := qp_grad r (Gf UtU) (bf UtM j) sp rd (colf V j) i in
    eps <= mget Rops V i j /\ 0 <= g /\ (mget Rops V i j - eps) * g = 0.
Proof. exact fista_fixed_point_kkt. Qed.
Print Assumptions C13_fista_fixed_point_kkt.

Theorem C13_fista_kkt_is_fixed_point : forall (UtM UtU : list (list R)) (r n : nat) (sp rd lr eps : R),
  wfm r r UtU -> wfm r n UtM ->
  forall V : list (list R), 0 < lr -> wfm r n V ->
  (forall i j, (i < r)%nat -> (j < n)%nat ->
    let g := qp_grad r (Gf UtU) (bf UtM j) sp rd (colf V j) i in
    eps <= mget Rops V i j /\ 0 <= g /\ (mget Rops V i j - eps) * g = 0) ->
  fista_new Rops UtM UtU n true sp rd lr eps V = V.
Proof. exact fista_kkt_fixed_point. Qed.
Print Assumptions C13_fista_kkt_is_fixed_point.

(* such a point is stationary for the whole accelerated iteration (momentum, stopping rule, any budget) *)
Theorem C13_fista_fixed_point_stationary : forall (UtM UtU : list (list R)) (r n : nat) (sp rd lr tol eps : R),
  forall (V : list (list R)) (betas : list R), wfm r n V -> fista_new Rops UtM UtU n true sp rd lr eps V = V ->
  forall first norm0, fista_loop Rops UtM UtU n true sp rd lr tol eps betas first norm0 V V = V.
Proof. exact fista_stationary. Qed.
Print Assumptions C13_fista_fixed_point_stationary.

Theorem C13_fista_fixed_point_optimal : forall (UtM UtU : list (list R)) (r n : nat) (sp rd lr eps : R),
  wfm r r UtU -> wfm r n UtM ->
  forall V : list (list R), 0 < lr -> eps = 0 -> 0 <= rd -> wfm r n V ->
  (forall i j, Gf UtU i j = Gf UtU j i) -> (forall d, 0 <= quad r (Gf UtU) d) ->
  fista_new Rops UtM UtU n true sp rd lr eps V = V ->
  forall j z, (j < n)%nat -> (forall i, (i < r)%nat -> 0 <= z i) ->
    qp_f r (Gf UtU) (bf UtM j) sp rd (colf V j) <= qp_f r (Gf UtU) (bf UtM j) sp rd z.
Proof. exact fista_fixed_point_optimal. Qed.
Print Assumptions C13_fista_fixed_point_optimal.

(* the stopping quantity of the repaired code (/repo f4b2876), norm = sum |x - x_new|, bounds EVERY entry of the step:
   when `norm < tol * norm_0` fires every coordinate moved by less than tol * norm_0 (the signed sum of the old
   code bounded nothing, see the regression Example below) *)
Theorem C13_fista_stop_rule_bounds_step : forall (r n : nat) (x xn : list (list R)) (i j : nat),
  wfm r n x -> wfm r n xn -> (i < r)%nat -> (j < n)%nat ->
  Rabs (mget Rops x i j - mget Rops xn i j) <= fista_nrm Rops x xn.
Proof. exact fista_nrm_bounds_step. Qed.
Print Assumptions C13_fista_stop_rule_bounds_step.

(* with tol = 0 the rule never fires and fista returns the full iterate of its budget (the protocol under which the
   harness runs fista to convergence, and the meaning of "k-th iterate" in the correspondence) *)
Theorem C13_fista_tol0_runs_all : forall (UtM UtU : list (list R)) (n : nat) (nonneg : bool) (sp rd lr eps : R)
  (betas : list R) (first : bool) (norm0 : R) (x xu : list (list R)),
  fista_loop Rops UtM UtU n nonneg sp rd lr 0 eps betas first norm0 x xu = fista_run UtM UtU n nonneg sp rd lr eps betas x xu.
Proof. exact fista_tol0_runs_all. Qed.
Print Assumptions C13_fista_tol0_runs_all.

Theorem C13_fista_trace_is_loop : forall (F : Type) (Op : fops F) UtM UtU n nonneg sp rd lr tol eps betas first norm0 x xu,
  snd (fista_trace Op UtM UtU n nonneg sp rd lr tol eps betas first norm0 x xu) =
  fista_loop Op UtM UtU n nonneg sp rd lr tol eps betas first norm0 x xu.
Proof. exact @fista_trace_snd. Qed.
Print Assumptions C13_fista_trace_is_loop.

(* DESCENT of the projected gradient step (round 5): when the step is at most 1/L -- lr (d'UtU d + 2 ridge d'd) <= d'd for every
   direction d -- the step x_new = max(x - lr gradient, eps) from a point with column j feasible lowers that column's penalised
   objective by at least |x_new - x|^2 / (2 lr).  The first iteration of fista is this step (momentum_old = 1), so
   fista(n_iter_max = 1) never increases the objective.  The later, extrapolated iterations are not monotone (FISTA is not a
   descent method); for them see the rate theorem C13_fista_rate below. *)
Theorem C13_fista_step_descent : forall (UtM UtU : list (list R)) (r n : nat) (sp rd lr eps : R),
  wfm r r UtU -> wfm r n UtM -> (forall i j, Gf UtU i j = Gf UtU j i) -> 0 < lr ->
  (forall d : nat -> R, lr * (quad r (Gf UtU) d + 2 * rd * rsum r (fun i => (d i)^2)) <= rsum r (fun i => (d i)^2)) ->
  forall (V : list (list R)) (j : nat), wfm r n V -> (forall i, (i < r)%nat -> eps <= mget Rops V i j) -> (j < n)%nat ->
  qp_f r (Gf UtU) (bf UtM j) sp rd (colf (fista_new Rops UtM UtU n true sp rd lr eps V) j)
  <= qp_f r (Gf UtU) (bf UtM j) sp rd (colf V j)
     - / (2 * lr) * rsum r (fun i => (mget Rops (fista_new Rops UtM UtU n true sp rd lr eps V) i j - mget Rops V i j)^2).
Proof. exact fista_step_descent. Qed.
Print Assumptions C13_fista_step_descent.

Theorem C13_fista_first_iteration_descent : forall (UtM UtU : list (list R)) (r n : nat) (sp rd lr eps : R),
  wfm r r UtU -> wfm r n UtM -> (forall i j, Gf UtU i j = Gf UtU j i) -> 0 < lr ->
  (forall d : nat -> R, lr * (quad r (Gf UtU) d + 2 * rd * rsum r (fun i => (d i)^2)) <= rsum r (fun i => (d i)^2)) ->
  forall (tol : R) (x0 : list (list R)) (beta : R) (j : nat), wfm r n x0 -> (forall i, (i < r)%nat -> eps <= mget Rops x0 i j) -> (j < n)%nat ->
  qp_f r (Gf UtU) (bf UtM j) sp rd (colf (fista Rops UtM UtU n true sp rd lr tol eps x0 [beta]) j) <= qp_f r (Gf UtU) (bf UtM j) sp rd (colf x0 j).
Proof. exact fista_first_iteration_descent. Qed.
Print Assumptions C13_fista_first_iteration_descent.

(* THE O(1/K^2) RATE OF FISTA (Beck & Teboulle 2009, Thm 4.4) for the model's accelerated loop (round 5; induction over the
   iterations with the Beck-Teboulle potential 2 lr t_k^2 (F(x_k) - F(s)) + |t_{k+1} x_update - (t_{k+1} - 1) x_k - s|^2).
   Step lr <= 1/L (stated as before), UtU symmetric PSD, ridge >= 0, ANY start (feasible or not: the first iteration does not
   extrapolate), ANY bound epsilon, ANY momentum sequence with t_0 = 0, t_1 = 1, t_{k+1}^2 - t_{k+1} = t_k^2, t_{k+1} >= 1
   (coefficients beta_k = (t_{k+1} - 1) / t_{k+2}: `beta_of t k`), the loop run without its stopping rule (fista_run = fista with
   tol = 0, C13_fista_tol0_runs_all):
       2 lr t_K^2 (F_j(x_K) - F_j(s)) <= |x_0[:,j] - s|^2     for EVERY comparison point s >= epsilon. *)
Theorem C13_fista_rate : forall (UtM UtU : list (list R)) (r n : nat) (sp rd lr eps : R) (j : nat),
  wfm r r UtU -> wfm r n UtM -> (j < n)%nat -> (forall i k, Gf UtU i k = Gf UtU k i) -> (forall d, 0 <= quad r (Gf UtU) d) ->
  0 <= rd -> 0 < lr ->
  (forall d : nat -> R, lr * (quad r (Gf UtU) d + 2 * rd * rsum r (fun i => (d i)^2)) <= rsum r (fun i => (d i)^2)) ->
  forall t : nat -> R, (forall k, t (S k) ^ 2 - t (S k) = t k ^ 2) -> (forall k, 1 <= t (S k)) ->
  forall s : nat -> R, (forall i, (i < r)%nat -> eps <= s i) ->
  forall (K : nat) (x0 : list (list R)), t 0%nat = 0 -> t 1%nat = 1 -> wfm r n x0 ->
  2 * lr * t K ^ 2 * (qp_f r (Gf UtU) (bf UtM j) sp rd (colf (fista_run UtM UtU n true sp rd lr eps (map (beta_of t) (seq 0 K)) x0 x0) j)
                      - qp_f r (Gf UtU) (bf UtM j) sp rd s)
  <= rsum r (fun i => (mget Rops x0 i j - s i)^2).
Proof. exact fista_rate. Qed.
Print Assumptions C13_fista_rate.

(* ... for the function `fista` itself with the CODE'S momentum sequence tseq (t_0 = 0, t_{k+1} = (1 + sqrt(1 + 4 t_k^2)) / 2, so
   t_1 = 1 = momentum_old and beta_k = (momentum_old - 1) / momentum), tol = 0, any epsilon and any start, against a KKT point X at
   the bound epsilon (the optimum over {v >= epsilon}): after K >= 1 iterations the objective gap of column j is >= 0 and at
   most 2 |x_0 - X|^2 / (lr (K+1)^2)  (t_K >= (K+1)/2): "run to convergence, fista attains the objective value of the
   reference solution", with a rate. *)
Theorem C13_fista_rate_optimum : forall (UtM UtU : list (list R)) (r n : nat) (sp rd lr eps : R) (j : nat) (X : list (list R)) (K' : nat) (x0 : list (list R)),
  wfm r r UtU -> wfm r n UtM -> (j < n)%nat -> (forall i k, Gf UtU i k = Gf UtU k i) -> (forall d, 0 <= quad r (Gf UtU) d) ->
  0 <= rd -> 0 < lr ->
  (forall d : nat -> R, lr * (quad r (Gf UtU) d + 2 * rd * rsum r (fun i => (d i)^2)) <= rsum r (fun i => (d i)^2)) ->
  (forall i, (i < r)%nat -> eps <= mget Rops X i j /\ 0 <= qp_grad r (Gf UtU) (bf UtM j) sp rd (colf X j) i /\
                            (mget Rops X i j - eps) * qp_grad r (Gf UtU) (bf UtM j) sp rd (colf X j) i = 0) ->
  wfm r n x0 ->
  let K := S K' in
  let xK := fista Rops UtM UtU n true sp rd lr 0 eps x0 (map (beta_of tseq) (seq 0 K)) in
  let gap := qp_f r (Gf UtU) (bf UtM j) sp rd (colf xK j) - qp_f r (Gf UtU) (bf UtM j) sp rd (colf X j) in
  0 <= gap /\ lr * (INR K + 1)^2 * gap <= 2 * rsum r (fun i => (mget Rops x0 i j - mget Rops X i j)^2).
Proof. exact fista_rate_optimum. Qed.
Print Assumptions C13_fista_rate_optimum.

(* ... and for ANY tol: fista returns the iterate m at which its stopping rule fired or the budget ended (1 <= m <= n_iter_max),
   and the bound holds with that m: the returned point of EVERY such call has objective gap <= 2 |x_0 - X|^2 / (lr (m+1)^2) *)
Theorem C13_fista_rate_any_tol : forall (UtM UtU : list (list R)) (r n : nat) (sp rd lr tol eps : R) (j : nat) (X : list (list R)) (K' : nat) (x0 : list (list R)),
  wfm r r UtU -> wfm r n UtM -> (j < n)%nat -> (forall i k, Gf UtU i k = Gf UtU k i) -> (forall d, 0 <= quad r (Gf UtU) d) ->
  0 <= rd -> 0 < lr ->
  (forall d : nat -> R, lr * (quad r (Gf UtU) d + 2 * rd * rsum r (fun i => (d i)^2)) <= rsum r (fun i => (d i)^2)) ->
  (forall i, (i < r)%nat -> eps <= mget Rops X i j /\ 0 <= qp_grad r (Gf UtU) (bf UtM j) sp rd (colf X j) i /\
                            (mget Rops X i j - eps) * qp_grad r (Gf UtU) (bf UtM j) sp rd (colf X j) i = 0) ->
  wfm r n x0 ->
  let y := fista Rops UtM UtU n true sp rd lr tol eps x0 (map (beta_of tseq) (seq 0 (S K'))) in
  let gap := qp_f r (Gf UtU) (bf UtM j) sp rd (colf y j) - qp_f r (Gf UtU) (bf UtM j) sp rd (colf X j) in
  exists m, (1 <= m <= S K')%nat /\ 0 <= gap /\ lr * (INR m + 1)^2 * gap <= 2 * rsum r (fun i => (mget Rops x0 i j - mget Rops X i j)^2).
Proof. exact fista_rate_any_tol. Qed.
Print Assumptions C13_fista_rate_any_tol.

(* THE ITERATES CONVERGE TO THE SOLUTION (round 6): with mu > 0 a lower bound of the penalised form (mu |d|^2 <= d'UtU d + 2 ridge |d|^2:
   the well-conditioned problem of the property) the point y returned by fista -- any tol, stopped at iteration m -- satisfies
   lr (m+1)^2 mu |y[:,j] - X[:,j]|^2 <= 4 |x_0[:,j] - X[:,j]|^2 for the KKT point X: rate O(1/m) in distance, X the only limit point *)
Theorem C13_fista_distance_rate : forall (UtM UtU : list (list R)) (r n : nat) (sp rd lr tol eps mu : R) (j : nat) (X : list (list R)) (K' : nat) (x0 : list (list R)),
  wfm r r UtU -> wfm r n UtM -> (j < n)%nat -> (forall i k, Gf UtU i k = Gf UtU k i) -> (forall d, 0 <= quad r (Gf UtU) d) ->
  0 <= rd -> 0 < lr ->
  (forall d : nat -> R, lr * (quad r (Gf UtU) d + 2 * rd * rsum r (fun i => (d i)^2)) <= rsum r (fun i => (d i)^2)) ->
  (forall d : nat -> R, mu * rsum r (fun i => (d i)^2) <= quad r (Gf UtU) d + 2 * rd * rsum r (fun i => (d i)^2)) ->
  (forall i, (i < r)%nat -> eps <= mget Rops X i j /\ 0 <= qp_grad r (Gf UtU) (bf UtM j) sp rd (colf X j) i /\
                            (mget Rops X i j - eps) * qp_grad r (Gf UtU) (bf UtM j) sp rd (colf X j) i = 0) ->
  wfm r n x0 ->
  let y := fista Rops UtM UtU n true sp rd lr tol eps x0 (map (beta_of tseq) (seq 0 (S K'))) in
  exists m, (1 <= m <= S K')%nat /\
    lr * (INR m + 1)^2 * (mu * rsum r (fun i => (mget Rops y i j - mget Rops X i j)^2)) <= 4 * rsum r (fun i => (mget Rops x0 i j - mget Rops X i j)^2).
Proof. exact fista_distance_rate. Qed.
Print Assumptions C13_fista_distance_rate.

(* ... and the distance to a KKT point bounds the KKT residuals of ANY point y: with E_i = sum_l |G[i,l]| |y_l - X_l| + 2 ridge |y_i - X_i|,
   gradient_i(y) >= -E_i and |(y_i - eps) gradient_i(y)| <= |y_i - eps| E_i + |y_i - X_i| gradient_i(X); with the theorem above the KKT
   residuals of the points fista returns tend to zero like O(1/m), and every limit point is the KKT point *)
Theorem C13_kkt_residual_from_distance : forall (n : nat) (G : nat -> nat -> R) (b : nat -> R) (l1 l2 eps : R) (X y : nat -> R) (i : nat),
  (i < n)%nat -> 0 <= l2 -> eps <= X i -> 0 <= qp_grad n G b l1 l2 X i -> (X i - eps) * qp_grad n G b l1 l2 X i = 0 ->
  let E := rsum n (fun l => Rabs (G i l) * Rabs (y l - X l)) + 2 * l2 * Rabs (y i - X i) in
  - E <= qp_grad n G b l1 l2 y i /\
  Rabs ((y i - eps) * qp_grad n G b l1 l2 y i) <= Rabs (y i - eps) * E + Rabs (y i - X i) * qp_grad n G b l1 l2 X i.
Proof. exact kkt_residual_from_distance. Qed.
Print Assumptions C13_kkt_residual_from_distance.

(* THE CALL AS A USER WRITES IT (entry point, Model/NnlsEntry.v): default step lr=None with sigma bounding the Rayleigh quotient of
   UtU, any start (x=None: zeros, infeasible for the default epsilon = 1e-8), any tol / epsilon / sparsity_coef (None -> 0), a number
   as ridge_coef, the code's momentum, n_iter_max = K'+1: the call returns and the objective gap of the returned point in column j
   is at most 2 (sigma + 2 ridge) |start - X|^2 / (m+1)^2 for the iteration m >= 1 at which it stopped *)
Theorem C13_fista_call_rate : forall (UtM UtU : list (list R)) (r n : nat) (sp : option R) (rd sigma tol eps : R)
  (x0 : option (list (list R))) (K' j : nat) (X : list (list R)),
  wfm r r UtU -> wfm r n UtM -> (j < n)%nat -> (forall i k, Gf UtU i k = Gf UtU k i) -> (forall d, 0 <= quad r (Gf UtU) d) ->
  0 <= rd -> 0 < sigma + 2 * rd ->
  (forall d : nat -> R, quad r (Gf UtU) d <= sigma * rsum r (fun i => (d i)^2)) ->
  match x0 with Some x => wfm r n x | None => True end ->
  let spv := match sp with Some s => s | None => 0 end in
  let start := match x0 with Some x => x | None => zeros_like Rops UtM end in
  (forall i, (i < r)%nat -> eps <= mget Rops X i j /\ 0 <= qp_grad r (Gf UtU) (bf UtM j) spv rd (colf X j) i /\
                            (mget Rops X i j - eps) * qp_grad r (Gf UtU) (bf UtM j) spv rd (colf X j) i = 0) ->
  exists W m, fista_call Rops UtM UtU n true sp (Some rd) None sigma tol eps x0 (map (beta_of tseq) (seq 0 (S K'))) = Ok W /\
    (1 <= m <= S K')%nat /\
    let gap := qp_f r (Gf UtU) (bf UtM j) spv rd (colf W j) - qp_f r (Gf UtU) (bf UtM j) spv rd (colf X j) in
    0 <= gap /\ (INR m + 1)^2 * gap <= 2 * (sigma + 2 * rd) * rsum r (fun i => (mget Rops start i j - mget Rops X i j)^2).
Proof. exact fista_call_rate. Qed.
Print Assumptions C13_fista_call_rate.

(* FULL (round 7): the momentum recurrence is COMPUTED in the model (Model/NnlsMomentum.v: momentum_old = 1, momentum =
   (1 + sqrt(1 + 4 momentum_old^2)) / 2, coefficient (momentum_old - 1) / momentum); with R's sqrt the coefficient list of K
   iterations is exactly the list `map (beta_of tseq) (seq 0 K)` the rate theorems are stated for; the first coefficient is 0,
   all lie in [0, 1) *)
Theorem C13_fista_momentum_in_model : forall K : nat, fista_betas Rops sqrt K = map (beta_of tseq) (seq 0 K).
Proof. exact fista_betas_tseq. Qed.
Print Assumptions C13_fista_momentum_in_model.
Theorem C13_fista_momentum_range : forall K : nat, Forall (fun b => 0 <= b < 1) (fista_betas Rops sqrt K).
Proof. exact fista_betas_range. Qed.
Print Assumptions C13_fista_momentum_range.
(* ... so C13_fista_call_rate is a statement about the call with its OWN momentum, fista_full: fista(UtM, UtU, x0,
   n_iter_max = K'+1, non_negative=True, sparsity_coef, ridge_coef, lr=None, tol, epsilon) *)
Theorem C13_fista_full_rate : forall (UtM UtU : list (list R)) (r n : nat) (sp : option R) (rd sigma tol eps : R)
  (x0 : option (list (list R))) (K' j : nat) (X : list (list R)),
  wfm r r UtU -> wfm r n UtM -> (j < n)%nat -> (forall i k, Gf UtU i k = Gf UtU k i) -> (forall d, 0 <= quad r (Gf UtU) d) ->
  0 <= rd -> 0 < sigma + 2 * rd ->
  (forall d : nat -> R, quad r (Gf UtU) d <= sigma * rsum r (fun i => (d i)^2)) ->
  match x0 with Some x => wfm r n x | None => True end ->
  let spv := match sp with Some s => s | None => 0 end in
  let start := match x0 with Some x => x | None => zeros_like Rops UtM end in
  (forall i, (i < r)%nat -> eps <= mget Rops X i j /\ 0 <= qp_grad r (Gf UtU) (bf UtM j) spv rd (colf X j) i /\
                            (mget Rops X i j - eps) * qp_grad r (Gf UtU) (bf UtM j) spv rd (colf X j) i = 0) ->
  exists W m, fista_full Rops sqrt UtM UtU n true sp (Some rd) None sigma tol eps x0 (S K') = Ok W /\
    (1 <= m <= S K')%nat /\
    let gap := qp_f r (Gf UtU) (bf UtM j) spv rd (colf W j) - qp_f r (Gf UtU) (bf UtM j) spv rd (colf X j) in
    0 <= gap /\ (INR m + 1)^2 * gap <= 2 * (sigma + 2 * rd) * rsum r (fun i => (mget Rops start i j - mget Rops X i j)^2).
Proof. exact fista_full_rate. Qed.
Print Assumptions C13_fista_full_rate.
(* the square root the correspondence executes at Q is the floor of the square root on the grid 2^-60 *)
Theorem C13_qsqrt_spec : forall q : Q, (0 <= q)%Q ->
  (qsqrt q * qsqrt q <= q)%Q /\ (q < (qsqrt q + (1 # 2 ^ 60)) * (qsqrt q + (1 # 2 ^ 60)))%Q /\ (0 <= qsqrt q)%Q.
Proof. exact qsqrt_spec. Qed.
Print Assumptions C13_qsqrt_spec.

(* the code's momentum sequence meets the hypotheses of C13_fista_rate (non-vacuity of the sequence hypotheses) *)
Example C13_fista_momentum_sequence : tseq 0 = 0 /\ tseq 1 = 1 /\
  forall k, tseq (S k) ^ 2 - tseq (S k) = tseq k ^ 2 /\ 1 <= tseq (S k) /\ (INR (S k) + 1) / 2 <= tseq (S k).
Proof. exact tseq_props. Qed.

(* non-vacuity of the step-size hypothesis: UtU = [[2,1],[1,2]] (eigenvalues 1 and 3), ridge 0, lr = 1/3 = 1/L *)
Example C13_fista_step_size_satisfiable : forall d : nat -> R,
  1 / 3 * (quad 2 (Gf ex_UtU) d + 2 * 0 * rsum 2 (fun i => (d i)^2)) <= rsum 2 (fun i => (d i)^2).
Proof. exact ex_fista_lipschitz. Qed.

(* ---------------------------------------------------------------------------------------------- *)
(*  fista: the entry point with its argument handling (Model/NnlsEntry.v, round 5)                 *)
(* ---------------------------------------------------------------------------------------------- *)
(* FULL (repaired code, /repo ae57725; before, ridge_coef = None -- offered by the docstring -- raised TypeError: the refuted /
   partial pair of round 5): for EVERY offered value of sparsity_coef / ridge_coef / lr / x (a number or None) the call
   returns; it IS `fista` on sparsity_coef (None -> 0), ridge_coef (None -> 0), the start (None -> zeros of UtM's shape) and the
   step (None -> 1 / (sigma + 2 ridge), sigma the recorded leading singular value of UtU), so every theorem about `fista`
   applies to the entry point; with non_negative = True and at least one iteration every entry of the result is >= epsilon *)
Theorem C13_fista_returns : forall (UtM UtU : list (list R)) (r n : nat) (sp rd lr : option R) (sigma tol eps : R)
  (x0 : option (list (list R))) (betas : list R),
  wfm r r UtU -> wfm r n UtM -> match x0 with Some x => wfm r n x | None => True end -> betas <> [] ->
  let rdv := match rd with Some v => v | None => 0 end in
  exists W, fista_call Rops UtM UtU n true sp rd lr sigma tol eps x0 betas = Ok W /\
    W = fista Rops UtM UtU n true (match sp with Some s => s | None => 0 end) rdv
              (match lr with Some l => l | None => 1 / (sigma + 2 * rdv) end) tol eps
              (match x0 with Some x => x | None => zeros_like Rops UtM end) betas /\
    forall i j, (i < r)%nat -> (j < n)%nat -> eps <= mget Rops W i j.
Proof. exact fista_call_returns. Qed.
Print Assumptions C13_fista_returns.

(* ridge_coef = None is ridge_coef = 0 (any field): the theorems below, stated with a number as ridge_coef, cover None *)
Theorem C13_fista_ridge_none_is_zero : forall (F : Type) (Op : fops F) UtM UtU n nonneg sp lr sigma tol eps x0 betas,
  fista_call Op UtM UtU n nonneg sp None lr sigma tol eps x0 betas = fista_call Op UtM UtU n nonneg sp (Some (f0 Op)) lr sigma tol eps x0 betas.
Proof. exact @fista_call_ridge_none_is_zero. Qed.
Print Assumptions C13_fista_ridge_none_is_zero.

(* before_ae57725 (regression of the repaired defect): under the old rule the all-default call on UtU = [[2,1],[1,2]], UtM = (3,-3)
   with ridge_coef = None raised (Err); the repaired call returns what ridge_coef = 0 returns *)
Example C13_fista_ridge_none_before_ae57725 :
  exists (UtM UtU : list (list R)) (betas : list R), betas <> [] /\
    fista_call_before_ae57725 Rops UtM UtU 1 true (Some 0) None None 3 (1 / 100000000) 0 None betas = Err /\
    (fista_call Rops UtM UtU 1 true (Some 0) None None 3 (1 / 100000000) 0 None betas =
     fista_call Rops UtM UtU 1 true (Some 0) (Some 0) None 3 (1 / 100000000) 0 None betas).
Proof. exact fista_call_before_ae57725_witness. Qed.

(* the DEFAULT step: when sigma bounds the Rayleigh quotient of UtU (contract of the recorded leading singular value; satisfiable:
   Example below) the default step 1 / (sigma + 2 ridge) meets the step-size condition, so the all-default-step call with
   n_iter_max = 1 from a start whose column j is feasible (x=None: zeros, epsilon <= 0) does not increase that column's objective *)
Theorem C13_fista_default_step_descent : forall (UtM UtU : list (list R)) (r n : nat) (sp : option R) (rd sigma tol eps beta : R)
  (x0 : option (list (list R))) (j : nat),
  wfm r r UtU -> wfm r n UtM -> (forall i k, Gf UtU i k = Gf UtU k i) -> 0 < sigma + 2 * rd ->
  (forall d : nat -> R, quad r (Gf UtU) d <= sigma * rsum r (fun i => (d i)^2)) ->
  match x0 with Some x => wfm r n x /\ (forall i, (i < r)%nat -> eps <= mget Rops x i j) | None => eps <= 0 end -> (j < n)%nat ->
  let spv := match sp with Some s => s | None => 0 end in
  let start := match x0 with Some x => x | None => zeros_like Rops UtM end in
  exists W, fista_call Rops UtM UtU n true sp (Some rd) None sigma tol eps x0 [beta] = Ok W /\
    qp_f r (Gf UtU) (bf UtM j) spv rd (colf W j) <= qp_f r (Gf UtU) (bf UtM j) spv rd (colf start j).
Proof. exact fista_call_default_step_descent. Qed.
Print Assumptions C13_fista_default_step_descent.
Example C13_fista_sigma_bound_satisfiable : forall d : nat -> R, quad 2 (Gf ex_UtU) d <= 3 * rsum 2 (fun i => (d i)^2).
Proof. exact ex_sigma_bound. Qed.

(* fista with a LIST [A, B] as UtU and a matrix unknown (the `isinstance(UtU, list)` branch; core update of
   non_negative_tucker_hals for an order-2 core): multi_mode_dot(x, [A, B]) = A x B^T, so the gradient entry is that of
   the Kronecker-structured problem, and the fixed points of the projected step are exactly its KKT points at epsilon *)
Theorem C13_fista_list_fixed_point_kkt : forall (UtM A B : list (list R)) (r1 r2 : nat) (sp rd lr eps : R),
  wfm r1 r1 A -> wfm r2 r2 B -> wfm r1 r2 UtM ->
  forall V : list (list R), 0 < lr -> wfm r1 r2 V -> fista2_new Rops UtM A B r2 true sp rd lr eps V = V ->
  forall i j, (i < r1)%nat -> (j < r2)%nat ->
    let g := rsum r1 (fun k => mget Rops A i k * rsum r2 (fun l => mget Rops V k l * mget Rops B j l))
             - mget Rops UtM i j + sp + 2 * rd * mget Rops V i j in
    eps <= mget Rops V i j /\ 0 <= g /\ (mget Rops V i j - eps) * g = 0.
Proof. exact fista2_fixed_point_kkt. Qed.
Print Assumptions C13_fista_list_fixed_point_kkt.
Theorem C13_fista_list_kkt_is_fixed_point : forall (UtM A B : list (list R)) (r1 r2 : nat) (sp rd lr eps : R),
  wfm r1 r1 A -> wfm r2 r2 B -> wfm r1 r2 UtM ->
  forall V : list (list R), 0 < lr -> wfm r1 r2 V ->
  (forall i j, (i < r1)%nat -> (j < r2)%nat ->
    let g := rsum r1 (fun k => mget Rops A i k * rsum r2 (fun l => mget Rops V k l * mget Rops B j l))
             - mget Rops UtM i j + sp + 2 * rd * mget Rops V i j in
    eps <= mget Rops V i j /\ 0 <= g /\ (mget Rops V i j - eps) * g = 0) ->
  fista2_new Rops UtM A B r2 true sp rd lr eps V = V.
Proof. exact fista2_kkt_fixed_point. Qed.
Print Assumptions C13_fista_list_kkt_is_fixed_point.

(* FULL (round 8), list branch: every returned point of a run with at least one iteration is >= epsilon (non_negative=True) -- the
   statement C13_fista_iterates_ge_eps for `isinstance(UtU, list)`, until now only a Python predicate on that branch *)
Theorem C13_fista_list_iterates_ge_eps : forall (UtM A B : list (list R)) (r1 r2 : nat) (sp rd lr tol eps : R),
  wfm r1 r1 A -> wfm r1 r2 UtM ->
  forall (x0 : list (list R)) (betas : list R) (i j : nat), wfm r1 r2 x0 -> betas <> [] -> (i < r1)%nat -> (j < r2)%nat ->
  eps <= mget Rops (fista2 Rops UtM A B r2 true sp rd lr tol eps x0 betas) i j.
Proof. exact fista2_ge_eps. Qed.
Print Assumptions C13_fista_list_iterates_ge_eps.

(* FULL (round 8), list branch: fixed point of the projected step at epsilon = 0 => GLOBAL optimum.  obj2 is the matrix objective
   <X, A X B^T>/2 - <UtM, X> + sp sum X + rd sum X^2 of the core update; a fixed point V minimises it over ALL entrywise non-negative Z.
   A, B symmetric; positive semidefiniteness is assumed of the Kronecker form itself, quad (r1 r2) (kronG A B r2) with
   kronG(p, q) = A[p / r2, q / r2] B[p mod r2, q mod r2] (row-major flattening p = i r2 + j): that A (x) B is PSD whenever A and B
   are is NOT proved here.  The optimisation step is Base.RSum.kkt_optimal on the flattened problem (rsum_flat, qp_f_flat). *)
Theorem C13_fista_list_fixed_point_optimal : forall (UtM A B : list (list R)) (r1 r2 : nat) (sp rd lr : R),
  wfm r1 r1 A -> wfm r2 r2 B -> wfm r1 r2 UtM ->
  forall V : list (list R),
  (forall i k, mget Rops A i k = mget Rops A k i) -> (forall j l, mget Rops B j l = mget Rops B l j) ->
  (forall d, 0 <= quad (r1 * r2) (kronG A B r2) d) -> 0 <= rd -> 0 < lr -> wfm r1 r2 V ->
  fista2_new Rops UtM A B r2 true sp rd lr 0 V = V ->
  forall Z : nat -> nat -> R, (forall i j, 0 <= Z i j) ->
  obj2 UtM A B r1 r2 sp rd (fun i j => mget Rops V i j) <= obj2 UtM A B r1 r2 sp rd Z.
Proof. exact fista2_fixed_point_optimal_matrix. Qed.
Print Assumptions C13_fista_list_fixed_point_optimal.
(* the gradient of the flattened Kronecker problem at p = i r2 + j is the gradient entry (i, j) of the list branch *)
Theorem C13_fista_list_gradient_is_kronecker : forall (UtM A B : list (list R)) (r1 r2 : nat) (sp rd : R) (V : list (list R)) (i j : nat),
  (j < r2)%nat ->
  qp_grad (r1 * r2) (kronG A B r2) (flatf r2 UtM) sp rd (flatf r2 V) (i * r2 + j) =
  rsum r1 (fun k => mget Rops A i k * rsum r2 (fun l => mget Rops V k l * mget Rops B j l)) - mget Rops UtM i j + sp + 2 * rd * mget Rops V i j.
Proof. exact kron_grad_entry. Qed.
Print Assumptions C13_fista_list_gradient_is_kronecker.
(* non-vacuity: A = diag(2, 1), B = (1), UtM = (2, -1): V = (1, 0) (one inactive, one active bound) satisfies every hypothesis *)
Example C13_fista_list_optimal_hypotheses_satisfiable :
  wfm 2 2 f2_A /\ wfm 1 1 f2_B /\ wfm 2 1 f2_UtM /\ wfm 2 1 f2_V /\
  (forall i k, mget Rops f2_A i k = mget Rops f2_A k i) /\ (forall j l, mget Rops f2_B j l = mget Rops f2_B l j) /\
  (forall d, 0 <= quad (2 * 1) (kronG f2_A f2_B 1) d) /\
  fista2_new Rops f2_UtM f2_A f2_B 1 true 0 0 (1 / 2) 0 f2_V = f2_V /\
  mget Rops f2_V 0 0 = 1 /\ mget Rops f2_V 1 0 = 0.
Proof. exact fista2_opt_hypotheses_satisfiable. Qed.

(* FULL (round 8): THE LIST BRANCH IS THE MATRIX BRANCH ON THE KRONECKER MATRIX.  flatM r1 r2 X = the (r1 r2) x 1 column of the entries
   X[p / r2, p mod r2] (row-major), kronM r1 r2 A B = the (r1 r2) x (r1 r2) matrix A[p / r2, q / r2] B[p mod r2, q mod r2]:
   fista with UtU = [A, B] from x0 and fista with UtU = kronM from flatM x0 take the same stopping decisions and return the same
   point -- every start, step, tol, epsilon, non_negative flag, momentum list (induction over the iterations).  Every statement about
   the matrix branch therefore speaks about the list branch of an order-2 unknown. *)
Theorem C13_fista_list_is_fista_on_kronecker : forall (r1 r2 : nat) (UtM A B : list (list R)) (nonneg : bool) (sp rd lr tol eps : R),
  wfm r1 r1 A -> wfm r2 r2 B -> wfm r1 r2 UtM ->
  forall (x0 : list (list R)) (betas : list R), wfm r1 r2 x0 ->
  flatM r1 r2 (fista2 Rops UtM A B r2 nonneg sp rd lr tol eps x0 betas) =
  fista Rops (flatM r1 r2 UtM) (kronM r1 r2 A B) 1 nonneg sp rd lr tol eps (flatM r1 r2 x0) betas.
Proof. exact fista2_is_fista_on_kronecker. Qed.
Print Assumptions C13_fista_list_is_fista_on_kronecker.
Theorem C13_fista_list_same_decisions : forall (r1 r2 : nat) (UtM A B : list (list R)) (nonneg : bool) (sp rd lr tol eps : R),
  wfm r1 r1 A -> wfm r2 r2 B -> wfm r1 r2 UtM ->
  forall (betas : list R) (first : bool) (norm0 : R) (x xu : list (list R)), wfm r1 r2 x -> wfm r1 r2 xu ->
  let t2 := fista2_trace Rops UtM A B r2 nonneg sp rd lr tol eps betas first norm0 x xu in
  let t1 := fista_trace Rops (flatM r1 r2 UtM) (kronM r1 r2 A B) 1 nonneg sp rd lr tol eps betas first norm0 (flatM r1 r2 x) (flatM r1 r2 xu) in
  fst t2 = fst t1 /\ flatM r1 r2 (snd t2) = snd t1.
Proof. exact flatM_trace. Qed.
Print Assumptions C13_fista_list_same_decisions.

(* FULL (round 8): the O(1/K^2) rate of Beck & Teboulle for the list branch (C13_fista_rate transferred through the theorem above):
   non_negative=True, tol = 0, A, B symmetric, the Kronecker form PSD (assumed of the form), step lr <= 1/L stated on the form, ridge >= 0,
   any start, any epsilon, any comparison point s >= epsilon, in the flattened index p = i r2 + j;
   qp_f (r1 r2) kronG (flatf UtM) IS the matrix objective obj2 (C13_fista_list_objective_is_matrix_objective) *)
Theorem C13_fista_list_rate : forall (r1 r2 : nat) (UtM A B : list (list R)) (sp rd lr eps : R),
  wfm r1 r1 A -> wfm r2 r2 B -> wfm r1 r2 UtM ->
  (forall i k, mget Rops A i k = mget Rops A k i) -> (forall j l, mget Rops B j l = mget Rops B l j) ->
  (forall d, 0 <= quad (r1 * r2) (kronG A B r2) d) -> 0 <= rd -> 0 < lr ->
  (forall d : nat -> R, lr * (quad (r1 * r2) (kronG A B r2) d + 2 * rd * rsum (r1 * r2) (fun i => (d i)^2)) <= rsum (r1 * r2) (fun i => (d i)^2)) ->
  forall t : nat -> R, (forall k, t (S k) ^ 2 - t (S k) = t k ^ 2) -> (forall k, 1 <= t (S k)) ->
  forall s : nat -> R, (forall p, (p < r1 * r2)%nat -> eps <= s p) ->
  forall (K : nat) (x0 : list (list R)), t 0%nat = 0 -> t 1%nat = 1 -> wfm r1 r2 x0 ->
  2 * lr * t K ^ 2 * (qp_f (r1 * r2) (kronG A B r2) (flatf r2 UtM) sp rd (flatf r2 (fista2 Rops UtM A B r2 true sp rd lr 0 eps x0 (map (beta_of t) (seq 0 K))))
                      - qp_f (r1 * r2) (kronG A B r2) (flatf r2 UtM) sp rd s)
  <= rsum (r1 * r2) (fun p => (flatf r2 x0 p - s p)^2).
Proof. exact fista2_rate. Qed.
Print Assumptions C13_fista_list_rate.
Theorem C13_fista_list_objective_is_matrix_objective : forall (UtM A B : list (list R)) (r1 r2 : nat) (sp rd : R) (z : nat -> R),
  qp_f (r1 * r2) (kronG A B r2) (flatf r2 UtM) sp rd z = obj2 UtM A B r1 r2 sp rd (fun i j => z (i * r2 + j)%nat).
Proof. exact qp_f_flat. Qed.
Print Assumptions C13_fista_list_objective_is_matrix_objective.
(* non-vacuity of the step hypothesis on the instance above (lr = 1/2 = 1/L for A (x) B = diag(2, 1)); the momentum hypotheses are those of
   C13_fista_rate (satisfied by the code's sequence, C13_fista_rate_optimum) *)
Example C13_fista_list_rate_step_satisfiable : forall d : nat -> R,
  (1 / 2) * (quad (2 * 1) (kronG f2_A f2_B 1) d + 2 * 0 * rsum (2 * 1) (fun i => (d i)^2)) <= rsum (2 * 1) (fun i => (d i)^2).
Proof. exact f2_lipschitz. Qed.

(* FULL (round 8): the Kronecker form of two GRAM matrices is positive semidefinite -- A[i,k] = sum_m Ua[m,i] Ua[m,k], B[j,l] = sum_n Ub[n,j] Ub[n,l]
   (the cross-product matrices factor^T factor that non_negative_tucker_hals passes as UtU): the form is a sum of squares.  This discharges the PSD
   hypothesis of C13_fista_list_fixed_point_optimal and C13_fista_list_rate for that use (for PSD matrices not given as Gram matrices it stays assumed) *)
Theorem C13_fista_list_gram_form_psd : forall (A B : list (list R)) (r1 r2 m1 m2 : nat) (Ua Ub : nat -> nat -> R),
  (forall i k, (i < r1)%nat -> (k < r1)%nat -> mget Rops A i k = rsum m1 (fun m => Ua m i * Ua m k)) ->
  (forall j l, (j < r2)%nat -> (l < r2)%nat -> mget Rops B j l = rsum m2 (fun n => Ub n j * Ub n l)) ->
  forall d, 0 <= quad (r1 * r2) (kronG A B r2) d.
Proof. exact kron_gram_psd. Qed.
Print Assumptions C13_fista_list_gram_form_psd.
Example C13_fista_list_gram_hypotheses_satisfiable :
  (forall i k, (i < 2)%nat -> (k < 2)%nat -> mget Rops g2_A i k = rsum 1 (fun m => g2_U m i * g2_U m k)) /\
  (forall j l, (j < 1)%nat -> (l < 1)%nat -> mget Rops f2_B j l = rsum 1 (fun n => 1 * 1)).
Proof. exact kron_gram_hypotheses_satisfiable. Qed.

(* regression of the former stopping-rule defect: UtU = [[2,1],[1,2]], UtM = (6,3), every parameter at its default
   (lr = 1/3, tol = 1e-8, x0 = 0; epsilon = 0).  After two iterations the point is (7/3, 2/3) and the step was
   (-1/3, 1/3): signed sum 0 (the old rule stopped here, far from the optimum (3, 0)), l1 norm 2/3; a run of three
   iterations moves on to (23/9, 4/9).  Executed at the rational instance. *)
Example C13_fista_stop_rule_regression :
  fista Qops fw_UtM fw_UtU 1 true 0%Q 0%Q (1 # 3)%Q fw_tol 0%Q [[0]; [0]]%Q [0%Q] = [[2]; [1]]%Q /\
  fista Qops fw_UtM fw_UtU 1 true 0%Q 0%Q (1 # 3)%Q fw_tol 0%Q [[0]; [0]]%Q [0%Q; 0%Q] = [[7 # 3]; [2 # 3]]%Q /\
  fista_nrm Qops [[2]; [1]]%Q [[7 # 3]; [2 # 3]]%Q = (2 # 3)%Q /\
  fista Qops fw_UtM fw_UtU 1 true 0%Q 0%Q (1 # 3)%Q fw_tol 0%Q [[0]; [0]]%Q [0%Q; 0%Q; 0%Q] = [[23 # 9]; [4 # 9]]%Q /\
  fista_new Qops fw_UtM fw_UtU 1 true 0%Q 0%Q (1 # 3)%Q 0%Q [[3]; [0]]%Q = [[3]; [0]]%Q /\
  fista_grad Qops fw_UtM fw_UtU 1 0%Q 0%Q [[3]; [0]]%Q = [[0]; [0]]%Q.
Proof. exact fista_stop_rule_witness. Qed.

(* ---------------------------------------------------------------------------------------------- *)
(*  active_set_nnls                                                                                *)
(* ---------------------------------------------------------------------------------------------- *)
(* FULL: exact arithmetic (the rounding function of the interpolation step is the identity), abstract tl.solve
   satisfying its contract (every equation of the block system holds), cold start or ANY non-negative warm start of
   the problem's length, every budget and tolerance.  Whenever active_set_nnls leaves its loop through the
   termination test (flag true of active_set_run; active_set_nnls is its first component) the returned point
   satisfies the KKT conditions within tol, certified by the final passive set p:  x >= 0, (Utm - UtU x)_i = 0 on
   p, x_i = 0 and (Utm - UtU x)_i <= tol off p.  (With C13_kkt_optimal and tol = 0: a global minimiser.)
   The proof shows that the inner loop `for i in range(len(passive_set))` always ends with a non-negative support
   vector within its budget: every interpolation step keeps x >= 0, never adds an index to the passive set and removes
   the index attaining alpha (put exactly on the bound by the code repaired in dadc3ff), so the number of passive
   indices strictly decreases.  Nothing is claimed when n_iter_max runs out (flag false) or an exception escapes. *)
Theorem C13_active_set_exit_kkt :
  forall (solve : list (list R) -> list R -> option (list R))
         (Utm : list R) (UtU : list (list R)) (tol : R) (x0 : option (list R)) (n_iter_max : nat) (y : list R),
  length UtU = length Utm -> (forall i, (i < length Utm)%nat -> length (nth i UtU []) = length Utm) ->
  (forall A b ps, solve A b = Some ps -> Forall2 (fun row bi => dot Rops row ps = bi) A b) ->
  match x0 with Some x => length x = length Utm /\ Forall (fun v => 0 <= v) x | None => True end ->
  active_set_run Rops solve (fun v => v) Utm UtU tol x0 n_iter_max = Some (y, true) ->
  exists p, length p = length Utm /\
    forall i, (i < length Utm)%nat ->
      0 <= nth i y 0 /\
      (nth i p true = true -> nth i (gradient Rops Utm UtU y) 0 = 0) /\
      (nth i p true = false -> nth i y 0 = 0 /\ nth i (gradient Rops Utm UtU y) 0 <= tol).
Proof. exact active_set_exit_kkt_full. Qed.
Print Assumptions C13_active_set_exit_kkt.

(* FULL under a ROUNDED interpolation step (round 5; supersedes the hypothesis of the partial theorem below for the roundings
   that matter): the same certificate for EVERY rounding function rnd of the step x + alpha (s - x) with rnd 0 = 0 and
   rnd v >= 0 for v >= 0 (true of IEEE round-to-nearest; the identity is the exact-arithmetic instance above).  The
   counting argument survives rounding because the code puts the coordinates attaining alpha exactly on the bound (dadc3ff),
   coordinates off the passive set stay exactly 0 and the others stay >= 0.  tl.solve (with its contract), the ratio, alpha
   and the gradient remain exact, as everywhere in the active-set theorems. *)
Theorem C13_active_set_exit_kkt_rounded :
  forall (solve : list (list R) -> list R -> option (list R)) (rnd : R -> R)
         (Utm : list R) (UtU : list (list R)) (tol : R) (x0 : option (list R)) (n_iter_max : nat) (y : list R),
  rnd 0 = 0 -> (forall v, 0 <= v -> 0 <= rnd v) ->
  length UtU = length Utm -> (forall i, (i < length Utm)%nat -> length (nth i UtU []) = length Utm) ->
  (forall A b ps, solve A b = Some ps -> Forall2 (fun row bi => dot Rops row ps = bi) A b) ->
  match x0 with Some x => length x = length Utm /\ Forall (fun v => 0 <= v) x | None => True end ->
  active_set_run Rops solve rnd Utm UtU tol x0 n_iter_max = Some (y, true) ->
  exists p, length p = length Utm /\
    forall i, (i < length Utm)%nat ->
      0 <= nth i y 0 /\
      (nth i p true = true -> nth i (gradient Rops Utm UtU y) 0 = 0) /\
      (nth i p true = false -> nth i y 0 = 0 /\ nth i (gradient Rops Utm UtU y) 0 <= tol).
Proof. exact active_set_exit_kkt_full_r. Qed.
Print Assumptions C13_active_set_exit_kkt_rounded.

(* FINITE TERMINATION (round 6, Lawson-Hanson): exact arithmetic, UtU symmetric POSITIVE DEFINITE (`Gm UtU i j` = UtU[i][j]), tl.solve
   with its contract and TOTAL on the blocks (it never raises: `solve_scatter ... p <> None` for every mask p of the problem's
   length), tol >= 0, cold start or any non-negative warm start.  Every outer iteration after the first strictly decreases the
   objective (the index entering the passive set gets a positive value -- C13_active_set_new_index --, the first interpolation
   step has alpha > 0, later steps and block solves do not increase it); the iterate at the end of an iteration is the support
   vector of its passive set, so no passive set repeats and with more than 2^r + 1 iterations the budget NEVER runs out. *)
Theorem C13_active_set_never_out_of_budget :
  forall (solve : list (list R) -> list R -> option (list R)) (Utm : list R) (UtU : list (list R)) (tol : R),
  length UtU = length Utm -> (forall i, (i < length Utm)%nat -> length (nth i UtU []) = length Utm) ->
  (forall A b ps, solve A b = Some ps -> Forall2 (fun row bi => dot Rops row ps = bi) A b) ->
  (forall i j, Gm UtU i j = Gm UtU j i) ->
  (forall d : nat -> R, (exists i, (i < length Utm)%nat /\ d i <> 0) -> 0 < quad (length Utm) (Gm UtU) d) ->
  0 <= tol ->
  (forall p, length p = length Utm -> solve_scatter Rops solve Utm UtU p <> None) ->
  forall (x0 : option (list R)) (n_iter_max : nat) (y : list R),
  match x0 with Some x => length x = length Utm /\ Forall (fun v => 0 <= v) x | None => True end ->
  (2 ^ length Utm + 1 < n_iter_max)%nat ->
  active_set_run Rops solve (fun v => v) Utm UtU tol x0 n_iter_max <> Some (y, false).
Proof. exact active_set_never_out_of_budget. Qed.
Print Assumptions C13_active_set_never_out_of_budget.

(* the Lawson-Hanson key step: x the support vector of p (positive on p), i1 outside p with positive gradient: the support vector
   of p + {i1} is positive at i1 and has a strictly smaller objective *)
Theorem C13_active_set_new_index :
  forall (solve : list (list R) -> list R -> option (list R)) (Utm : list R) (UtU : list (list R)),
  length UtU = length Utm -> (forall i, (i < length Utm)%nat -> length (nth i UtU []) = length Utm) ->
  (forall A b ps, solve A b = Some ps -> Forall2 (fun row bi => dot Rops row ps = bi) A b) ->
  (forall i j, Gm UtU i j = Gm UtU j i) ->
  (forall d : nat -> R, (exists i, (i < length Utm)%nat /\ d i <> 0) -> 0 < quad (length Utm) (Gm UtU) d) ->
  forall (x : list R) (p : list bool) (i1 : nat) (s1 : list R),
  pinv solve Utm UtU x p -> (i1 < length Utm)%nat -> nth i1 p false = false -> 0 < nth i1 (gradient Rops Utm UtU x) 0 ->
  solve_scatter Rops solve Utm UtU (set_nth i1 true p) = Some s1 ->
  0 < nth i1 s1 0 /\ fobj Utm UtU s1 < fobj Utm UtU x /\ 0 < quad (length Utm) (Gm UtU) (fun i => xf x i - xf s1 i).
Proof. exact new_index. Qed.
Print Assumptions C13_active_set_new_index.

(* END TO END, without the budget caveat: under the same hypotheses and a non-empty problem, active_set_nnls with a budget above
   2^r + 1 RETURNS (no exception escapes, the budget does not run out) through its termination test a vector of the problem's
   length satisfying the KKT conditions within tol, and for tol = 0 the global minimiser of u'(UtU)u/2 - Utm'u over u >= 0:
   "run to convergence, active_set_nnls returns a KKT-optimal non-negative solution" *)
Theorem C13_active_set_terminates_kkt :
  forall (solve : list (list R) -> list R -> option (list R)) (Utm : list R) (UtU : list (list R)) (tol : R),
  length UtU = length Utm -> (forall i, (i < length Utm)%nat -> length (nth i UtU []) = length Utm) ->
  (forall A b ps, solve A b = Some ps -> Forall2 (fun row bi => dot Rops row ps = bi) A b) ->
  (forall i j, Gm UtU i j = Gm UtU j i) ->
  (forall d : nat -> R, (exists i, (i < length Utm)%nat /\ d i <> 0) -> 0 < quad (length Utm) (Gm UtU) d) ->
  0 <= tol ->
  (forall p, length p = length Utm -> solve_scatter Rops solve Utm UtU p <> None) ->
  forall (x0 : option (list R)) (n_iter_max : nat), (0 < length Utm)%nat ->
  match x0 with Some x => length x = length Utm /\ Forall (fun v => 0 <= v) x | None => True end ->
  (2 ^ length Utm + 1 < n_iter_max)%nat ->
  exists y, active_set_nnls Rops solve (fun v => v) Utm UtU tol x0 n_iter_max = Some y /\
    active_set_run Rops solve (fun v => v) Utm UtU tol x0 n_iter_max = Some (y, true) /\ length y = length Utm /\
    (exists p, length p = length Utm /\ forall i, (i < length Utm)%nat ->
       0 <= nth i y 0 /\
       (nth i p true = true -> nth i (gradient Rops Utm UtU y) 0 = 0) /\
       (nth i p true = false -> nth i y 0 = 0 /\ nth i (gradient Rops Utm UtU y) 0 <= tol)) /\
    (tol = 0 -> forall z : nat -> R, (forall i, (i < length Utm)%nat -> 0 <= z i) ->
       qp_f (length Utm) (Gm UtU) (bv Utm) 0 0 (xf y) <= qp_f (length Utm) (Gm UtU) (bv Utm) 0 0 z).
Proof. exact active_set_terminates_kkt. Qed.
Print Assumptions C13_active_set_terminates_kkt.

(* non-vacuity over R (also review item 1.5: the contract of tl.solve and a run reaching the termination test hold JOINTLY): the
   1 x 1 problem UtU = [[1]], Utm = (1) with solve1 (division; None for a zero pivot) meets every hypothesis, hence its run ends
   with flag true *)
Example C13_active_set_termination_hypotheses_satisfiable :
  (forall A b ps, solve1 A b = Some ps -> Forall2 (fun row bi => dot Rops row ps = bi) A b) /\
  (length [[1]] = length [1] /\ (forall i, (i < length [1])%nat -> length (nth i [[1]] []) = length [1]) /\
   (forall i j, Gm [[1]] i j = Gm [[1]] j i) /\
   (forall d : nat -> R, (exists i, (i < length [1])%nat /\ d i <> 0) -> 0 < quad (length [1]) (Gm [[1]]) d) /\
   (forall p, length p = length [1] -> solve_scatter Rops solve1 [1] [[1]] p <> None)) /\
  (forall tol, 0 <= tol -> exists y, active_set_run Rops solve1 (fun v => v) [1] [[1]] tol None 4 = Some (y, true)).
Proof. exact (conj solve1_ok (conj ex1_hyps ex1_terminates)). Qed.

(* PARTIAL (hypothesis named below): the same certificate under ANY rounding function of the interpolation step
   (floating point), for an abstract tl.solve satisfying its contract.  Whenever the loop is
   left through its termination test (flag true of active_set_run; active_set_nnls is its first component), the
   returned point is clip(s, 0) for the support vector s of the final passive set p, and -- HYPOTHESIS: s is
   non-negative (this is what the inner loop establishes unless its budget runs out; not proved here) and p has the
   length of the problem -- it satisfies the KKT conditions within tol: x >= 0, (Utm - UtU x)_i = 0 on the passive
   set, x_i = 0 and (Utm - UtU x)_i <= tol on the active set.  By C13_kkt_optimal with tol = 0 such a point is a
   global minimiser.  Nothing is claimed when n_iter_max runs out (flag false). *)
Theorem C13_active_set_exit_kkt_partial :
  forall (solve : list (list R) -> list R -> option (list R)) (rnd : R -> R)
         (Utm : list R) (UtU : list (list R)) (tol : R) (x0 : option (list R)) (n_iter_max : nat) (y : list R),
  length UtU = length Utm -> (forall i, (i < length Utm)%nat -> length (nth i UtU []) = length Utm) ->
  (forall A b ps, solve A b = Some ps -> Forall2 (fun row bi => dot Rops row ps = bi) A b) ->
  active_set_run Rops solve rnd Utm UtU tol x0 n_iter_max = Some (y, true) ->
  exists s p, solve_scatter Rops solve Utm UtU p = Some s /\ y = map (fmax Rops (f0 Rops)) s /\
    (length p = length Utm -> Forall (fun v => 0 <= v) s ->
     forall i, (i < length Utm)%nat ->
       0 <= nth i y 0 /\
       (nth i p true = true -> nth i (gradient Rops Utm UtU y) 0 = 0) /\
       (nth i p true = false -> nth i y 0 = 0 /\ nth i (gradient Rops Utm UtU y) 0 <= tol)).
Proof. exact active_set_exit_kkt. Qed.
Print Assumptions C13_active_set_exit_kkt_partial.

(* NON-NEGATIVITY on EVERY exit (round 5): whatever tl.solve answers (no contract needed) and however the interpolation step
   is rounded, a vector returned by active_set_nnls -- through the termination test OR because n_iter_max ran out -- is
   non-negative, provided the loop body ran at least once or the start was non-negative (n_iter_max = 0 returns the
   start as it is).  Covers the exits about which C13_active_set_exit_kkt says nothing. *)
Theorem C13_active_set_nonneg :
  forall (solve : list (list R) -> list R -> option (list R)) (rnd : R -> R)
         (Utm : list R) (UtU : list (list R)) (tol : R) (x0 : option (list R)) (n_iter_max : nat) (y : list R),
  (n_iter_max <> 0%nat \/ match x0 with Some x => Forall (fun v => 0 <= v) x | None => True end) ->
  active_set_nnls Rops solve rnd Utm UtU tol x0 n_iter_max = Some y -> Forall (fun v => 0 <= v) y.
Proof. exact active_set_nonneg. Qed.
Print Assumptions C13_active_set_nonneg.

(* FULL (follow-up of round 7): the `except:` path -- tl.solve raises on the passive block chosen in the try block (a singular block:
   semidefinite UtU or a warm start).  Any tl.solve, any rounding function, any data: the iteration that takes the fallback IS the
   first iteration of a run from the zero vector (masks all-active) in which the entering index is argmax of the STALE gradient g of
   the discarded point, and so is the rest of the loop; when g and the gradient at zero select the same index it is literally the
   cold-start run.  What is returned on this path: C13_active_set_nonneg (>= 0 on every exit) and C13_active_set_exit_kkt (KKT when
   left through the termination test) already allow a raising tl.solve (its contract constrains only the answers it gives). *)
Theorem C13_active_set_fallback_is_cold_body :
  forall (solve : list (list R) -> list R -> option (list R)) (rnd : R -> R) (Utm : list R) (UtU : list (list R))
         (iter0 : bool) (x g : list R) (passive active : list bool),
  let add := negb iter0 || forallb (is0 Rops) x in
  let p1 := if add then set_nth (argmax Rops g) true passive else passive in
  solve_scatter Rops solve Utm UtU p1 = None ->
  as_body Rops solve rnd Utm UtU iter0 x g passive active =
  as_body Rops solve rnd Utm UtU true (zeros_of x) g (posmask Rops (zeros_of x)) (negmask (posmask Rops (zeros_of x))).
Proof. exact as_body_fallback_is_cold_body. Qed.
Print Assumptions C13_active_set_fallback_is_cold_body.
Theorem C13_active_set_fallback_is_cold_loop :
  forall (solve : list (list R) -> list R -> option (list R)) (rnd : R -> R) (Utm : list R) (UtU : list (list R)) (tol : R)
         (fuel : nat) (iter0 : bool) (x g : list R) (passive active : list bool),
  let add := negb iter0 || forallb (is0 Rops) x in
  let p1 := if add then set_nth (argmax Rops g) true passive else passive in
  solve_scatter Rops solve Utm UtU p1 = None ->
  as_loop Rops solve rnd Utm UtU tol (S fuel) iter0 x g passive active =
  as_loop Rops solve rnd Utm UtU tol (S fuel) true (zeros_of x) g (posmask Rops (zeros_of x)) (negmask (posmask Rops (zeros_of x))).
Proof. exact as_loop_fallback_is_cold_loop. Qed.
Print Assumptions C13_active_set_fallback_is_cold_loop.
Theorem C13_active_set_fallback_is_cold_run :
  forall (solve : list (list R) -> list R -> option (list R)) (rnd : R -> R) (Utm : list R) (UtU : list (list R)) (tol : R)
         (fuel : nat) (iter0 : bool) (x g : list R) (passive active : list bool),
  let add := negb iter0 || forallb (is0 Rops) x in
  let p1 := if add then set_nth (argmax Rops g) true passive else passive in
  solve_scatter Rops solve Utm UtU p1 = None ->
  length x = length (nth 0 UtU []) ->
  argmax Rops g = argmax Rops (gradient Rops Utm UtU (zeros_of x)) ->
  as_loop Rops solve rnd Utm UtU tol (S fuel) iter0 x g passive active = active_set_run Rops solve rnd Utm UtU tol None (S fuel).
Proof. exact as_loop_fallback_is_cold_run. Qed.
Print Assumptions C13_active_set_fallback_is_cold_run.
(* non-vacuity / reachability, executed at the rational instance with the exact elimination: UtU = [[1,2],[2,4]] (rank 1), Utm = (3,5),
   warm start (1,1): the passive block is singular, the solve raises, the stale gradient (0,-1) selects index 0 (the gradient at zero
   would select index 1), the run ends through the termination test at the KKT point (3,0) -- as the cold-start run does *)
Example C13_active_set_fallback_reachable :
  solve_scatter Qops (gauss_solve Qops) [3; 5]%Q [[1; 2]; [2; 4]]%Q [true; true] = None /\
  gradient Qops [3; 5]%Q [[1; 2]; [2; 4]]%Q [1; 1]%Q = [0; -1]%Q /\
  active_set_run Qops (gauss_solve Qops) (fun x => x) [3; 5]%Q [[1; 2]; [2; 4]]%Q (1 # 10000000)%Q (Some [1; 1]%Q) 100 = Some ([3; 0]%Q, true) /\
  gradient Qops [3; 5]%Q [[1; 2]; [2; 4]]%Q [3; 0]%Q = [0; -1]%Q /\
  active_set_run Qops (gauss_solve Qops) (fun x => x) [3; 5]%Q [[1; 2]; [2; 4]]%Q (1 # 10000000)%Q None 100 = Some ([3; 0]%Q, true).
Proof. exact aset_fallback_witness. Qed.

(* non-vacuity: the termination test is reached (flag true) from a warm and from a cold start, and a budget of one
   iteration can run out (flag false); executed at the rational instance with the exact elimination as solve *)
Example C13_active_set_exit_reachable :
  active_set_run Qops (gauss_solve Qops) (fun x => x) rw_Utm rw_UtU rw_tol (Some rw_x0) 100 = Some ([0; 1 # 4]%Q, true) /\
  active_set_run Qops (gauss_solve Qops) (fun x => x) rw_Utm rw_UtU rw_tol None 1 = Some ([0; 1 # 4]%Q, true) /\
  active_set_run Qops (gauss_solve Qops) (fun x => x) [3; 3]%Q [[2; 1]; [1; 2]]%Q rw_tol None 1 = Some ([3 # 2; 0]%Q, false).
Proof. exact active_set_run_witness. Qed.

(* regression of the former rounding defect (before /repo dadc3ff): the interpolation step x + alpha (s - x) is
   modelled with a rounding function rnd; with |rnd x - x| <= 2^-60 leaving the blocking coordinate (exactly 0) at
   2^-60 the old code returned the non-KKT point (0, 0) on UtU = [[1,-1],[-1,4]], Utm = (-6, 1), x0 = (3, 1); the
   repaired step puts the coordinates attaining alpha exactly on the bound and the perturbed run returns the
   optimum (0, 1/4), like the unperturbed one.  A witness, not a universal theorem; executed at the rational instance. *)
Example C13_active_set_rounding_regression :
  exists (rnd : Q -> Q) (Utm : list Q) (UtU : list (list Q)) (x0 : list Q) (tol : Q),
  (forall x, (Qabs (rnd x - x) <= 1 # 1152921504606846976)%Q) /\
  active_set_nnls Qops (gauss_solve Qops) (fun x => x) Utm UtU tol (Some x0) 100 = Some [0; 1 # 4]%Q /\
  active_set_nnls Qops (gauss_solve Qops) rnd Utm UtU tol (Some x0) 100 = Some [0; 1 # 4]%Q /\
  gradient Qops Utm UtU [0; 1 # 4]%Q = [-23 # 4; 0]%Q.
Proof. exists rw_rnd, rw_Utm, rw_UtU, rw_x0, rw_tol. exact active_set_rounding_witness. Qed.
