(* C14 -- property theorems only.  Statements are about Model/WarmStart.v.
   Ring regime: F is ANY commutative ring (ring_theory hypothesis), any order, any rank, any sizes.
   Skeleton: M (a factor) and W (the weights) are arbitrary types; upd / stop / normf are arbitrary
   functions of the whole state, so the statements hold for every numerical update rule, every
   convergence / callback decision sequence and every iteration budget. *)
From Coq Require Import List Arith Bool Ring ZArith.
From TLV Require Import Base.Shape Base.PyList Base.Tensor Base.BigSum Model.WarmStart Proofs.WarmStartProofs
  Proofs.WarmStartProofs2.
Import ListNotations.

(* (i) the tensor represented by the initialisation, weights absorbed into the last factor *)
Theorem C14_absorb_last_entry : forall (F : Type) (rO rI : F) (radd rmul rsub : F -> F -> F) (ropp : F -> F),
  ring_theory rO rI radd rmul rsub ropp (@eq F) ->
  forall (R : nat) (w : list F) (fs : list (matrix (F := F))) (idx : list nat), fs <> [] ->
  cp_entry rO rI radd rmul R w fs idx = cp_entry rO rI radd rmul R (ones rI R) (absorb_last rmul w fs) idx.
Proof. exact cp_absorb_entry. Qed.
Print Assumptions C14_absorb_last_entry.

Theorem C14_absorb_any_entry : forall (F : Type) (rO rI : F) (radd rmul rsub : F -> F -> F) (ropp : F -> F),
  ring_theory rO rI radd rmul rsub ropp (@eq F) ->
  forall (R : nat) (w : list F) (fs : list (matrix (F := F))) (k : nat) (idx : list nat), k < length fs ->
  cp_entry rO rI radd rmul R w fs idx = cp_entry rO rI radd rmul R (ones rI R) (absorb_at rmul k w fs) idx.
Proof. exact cp_absorb_entry_at. Qed.
Print Assumptions C14_absorb_any_entry.

Theorem C14_init_represents : forall (F : Type) (rO rI : F) (radd rmul rsub : F -> F -> F) (ropp : F -> F),
  ring_theory rO rI radd rmul rsub ropp (@eq F) ->
  forall (eqb : F -> F -> bool), (forall x y, eqb x y = true <-> x = y) ->
  forall (R : nat) (w : list F) (fs : list (matrix (F := F))) (idx : list nat), fs <> [] -> length w = R ->
  cp_entry rO rI radd rmul R (fst (init_cp rI rmul eqb R (Some w) fs)) (snd (init_cp rI rmul eqb R (Some w) fs)) idx
  = cp_entry rO rI radd rmul R w fs idx.
Proof. exact init_cp_represents. Qed.
Print Assumptions C14_init_represents.

Theorem C14_init_weights_are_ones : forall (F : Type) (rI : F) (rmul : F -> F -> F) (eqb : F -> F -> bool)
  (R : nat) (w : option (list F)) (fs : list (matrix (F := F))),
  fst (init_cp rI rmul eqb R w fs) = ones rI R.
Proof. exact init_cp_weights_ones. Qed.
Print Assumptions C14_init_weights_are_ones.

(* re-expressing the initialisation with its weights absorbed gives the same initial state ... *)
Theorem C14_init_absorbed_same_state : forall (F : Type) (rO rI : F) (radd rmul rsub : F -> F -> F) (ropp : F -> F),
  ring_theory rO rI radd rmul rsub ropp (@eq F) ->
  forall (eqb : F -> F -> bool), (forall x y, eqb x y = true <-> x = y) ->
  forall (R : nat) (w : list F) (fs : list (matrix (F := F))), length w = R ->
  (forall row, In row (last fs []) -> length row = R) ->
  init_cp rI rmul eqb R (Some (ones rI R)) (absorb_last rmul w fs) = init_cp rI rmul eqb R (Some w) fs.
Proof. exact init_cp_absorbed_same. Qed.
Print Assumptions C14_init_absorbed_same_state.

(* ... hence the same iterates, whatever the update rule, the stopping decisions and the budget *)
Theorem C14_same_iterates : forall (F : Type) (rO rI : F) (radd rmul rsub : F -> F -> F) (ropp : F -> F),
  ring_theory rO rI radd rmul rsub ropp (@eq F) ->
  forall (eqb : F -> F -> bool), (forall x y, eqb x y = true <-> x = y) ->
  forall (R : nat) (w : list F) (fs : list (matrix (F := F))), length w = R ->
  (forall row, In row (last fs []) -> length row = R) ->
  forall upd stop normf normalize a n fixed budget tol,
  let start := fun wf : list F * list (matrix (F := F)) => mkst (fst wf) (snd wf) in
  run upd stop normf normalize a n fixed budget tol (start (init_cp rI rmul eqb R (Some (ones rI R)) (absorb_last rmul w fs)))
  = run upd stop normf normalize a n fixed budget tol (start (init_cp rI rmul eqb R (Some w) fs)).
Proof. exact same_iterates. Qed.
Print Assumptions C14_same_iterates.

(* (ii) zero budget returns the initialisation: every algorithm, every option *)
Theorem C14_zero_budget : forall (M W : Type) upd stop normf normalize a n fixed tol (s : st M W),
  run upd stop normf normalize a n fixed 0 tol s = Ok s.
Proof. exact @run_zero_budget. Qed.
Print Assumptions C14_zero_budget.

(* (iii) fixed modes stay fixed (Leibniz equality of the factor), default normalisation *)
Theorem C14_fixed_modes : forall (M W : Type) upd stop normf a n fixed budget tol (s s' : st M W) (d : M) (m : nat),
  run upd stop normf false a n fixed budget tol s = Ok s' -> In m (eff_fixed a n fixed) ->
  nth m (facs s') d = nth m (facs s) d.
Proof. exact @run_fixed. Qed.
Print Assumptions C14_fixed_modes.

Theorem C14_fixed_modes_user : forall (M W : Type) upd stop normf a n fixed budget tol (s s' : st M W) (d : M) (m : nat),
  run upd stop normf false a n fixed budget tol s = Ok s' -> In m fixed -> (drops_last a = true -> m <> n - 1) ->
  nth m (facs s') d = nth m (facs s) d.
Proof. exact @run_fixed_user. Qed.
Print Assumptions C14_fixed_modes_user.

Theorem C14_run_shape : forall (M W : Type) upd stop normf a n fixed budget tol (s s' : st M W),
  run upd stop normf false a n fixed budget tol s = Ok s' -> length (facs s') = length (facs s) /\ wts s' = wts s.
Proof. exact @run_shape. Qed.
Print Assumptions C14_run_shape.

Theorem C14_modes_list_spec : forall a n fixed m,
  In m (modes_list a n fixed) <-> m < n /\ ~ In m (eff_fixed a n fixed).
Proof. exact modes_list_In. Qed.
Print Assumptions C14_modes_list_spec.

(* the documented rule "the last mode cannot be fixed" *)
Theorem C14_last_mode_rule : forall a n fixed, drops_last a = true -> NoDup fixed -> 0 < n ->
  In (n - 1) (modes_list a n fixed).
Proof. exact last_mode_updated. Qed.
Print Assumptions C14_last_mode_rule.

(* fixing every mode returns the initialisation: parafac's shortcut ... *)
Theorem C14_all_fixed_shortcut : forall (M W : Type) upd stop normf a n budget tol (s : st M W),
  shortcut a = true -> run upd stop normf false a n (seq 0 n) budget tol s = Ok s.
Proof. exact @run_all_fixed_shortcut. Qed.
Print Assumptions C14_all_fixed_shortcut.

(* ... and without it: when no mode is left to update, a call that returns returns the initialisation ... *)
Theorem C14_all_fixed_partial : forall (M W : Type) upd stop normf a n fixed budget tol (s s' : st M W),
  (forall m, m < n -> In m (eff_fixed a n fixed)) ->
  run upd stop normf false a n fixed budget tol s = Ok s' -> s' = s.
Proof. exact @run_nothing_to_update. Qed.
Print Assumptions C14_all_fixed_partial.

(* ... but non_negative_parafac_hals (default tol) RAISES instead of returning it (genuine defect) *)
Theorem C14_hals_all_fixed_refuted : exists n fixed budget, (forall m, m < n -> In m fixed) /\
  forall (M W : Type) upd stop normf normalize (s : st M W),
  run upd stop normf normalize NNHals n fixed budget true s = Err.
Proof. exact hals_all_fixed_raises. Qed.
Print Assumptions C14_hals_all_fixed_refuted.

(* normalize_factors=True is outside the statement for a reason: it rewrites fixed factors too *)
Theorem C14_fixed_modes_normalize_refuted : exists upd stop normf (s s' : st nat unit),
  run upd stop normf true Parafac 2 [0] 1 true s = Ok s' /\ In 0 (eff_fixed Parafac 2 [0]) /\
  nth 0 (facs s') 0 <> nth 0 (facs s) 0.
Proof. exact normalize_breaks_fixed. Qed.
Print Assumptions C14_fixed_modes_normalize_refuted.

(* tucker(fixed_factors=...): the re-inserted objects are the supplied ones, the new ones keep their order *)
Theorem C14_tucker_reinsert : forall (M : Type) (fixed : list nat) (fs : list M) (partial : list nat -> list M -> list M),
  NoDup fixed -> (forall e, In e fixed -> e < length fs) -> length fixed < length fs ->
  (forall modes free, length (partial modes free) = length free) ->
  exists out, tucker_fixed_lists fixed fs partial = Ok out /\ length out = length fs /\
    (forall e d, In e fixed -> nth e out d = nth e fs d) /\
    map snd (pick (fun i => negb (memb i (py_sorted fixed))) 0 out)
    = partial (map fst (pick (fun i => negb (memb i (py_sorted fixed))) 0 fs))
              (map snd (pick (fun i => negb (memb i (py_sorted fixed))) 0 fs)).
Proof. exact @tucker_reinsert_spec. Qed.
Print Assumptions C14_tucker_reinsert.

(* fixing every Tucker factor raises instead of returning the initialisation (genuine defect) *)
Theorem C14_tucker_all_fixed_refuted : forall (M : Type) (fs : list M) partial,
  tucker_fixed_lists (seq 0 (length fs)) fs partial = Err.
Proof. exact @tucker_all_fixed_raises. Qed.
Print Assumptions C14_tucker_all_fixed_refuted.

(* tucker zero budget: the core is multiplied by F^T F for every fixed factor F -- a different tensor
   unless F has orthonormal columns (genuine defect; witness over Z) *)
Theorem C14_tucker_zero_budget_refuted : exists (core : tensor Z) (F0 F1 : list (list Z)),
  let c1 := multi_mode_dot 0%Z Z.add Z.mul core [F0] [0] in
  let c2 := multi_mode_dot_T 0%Z Z.add Z.mul c1 [F0] [0] in
  multi_mode_dot 0%Z Z.add Z.mul c2 [F0; F1] [0; 1] <> multi_mode_dot 0%Z Z.add Z.mul core [F0; F1] [0; 1].
Proof. exact tucker_zero_budget_counterexample. Qed.
Print Assumptions C14_tucker_zero_budget_refuted.

(* PARAFAC2 from a CP tensor: with Q, Rm the recorded answer of qr(B) (contract Q Rm = B) the
   Parafac2Tensor (w; A, Rm, C; P_i = Q) represents the CP tensor (w; A, B, C) *)
Theorem C14_parafac2_from_cp : forall (F : Type) (rO rI : F) (radd rmul rsub : F -> F -> F) (ropp : F -> F),
  ring_theory rO rI radd rmul rsub ropp (@eq F) ->
  forall (R : nat) (w : list F) (A B C Q Rm : matrix (F := F)) (P : list (matrix (F := F))) (i j k : nat),
  (forall jj r, r < R -> bigsum F rO radd R (fun s => rmul (mget rO Q jj s) (mget rO Rm s r)) = mget rO B jj r) ->
  nth i P [] = Q ->
  p2_entry rO radd rmul R w A Rm C P i j k = cp_entry rO rI radd rmul R w [A; B; C] [i; j; k].
Proof. exact p2_from_cp. Qed.
Print Assumptions C14_parafac2_from_cp.

(* non-vacuity: hypotheses are satisfiable and the model computes *)
Example C14_nonvacuous_absorb :
  let fs := [[[1;2];[3;4]]; [[5;6];[7;8];[9;10]]]%Z in
  cp_dense 0%Z 1%Z Z.add Z.mul 2 [2; -3]%Z fs = mk [2;3] [-26; -34; -42; -42; -54; -66]%Z /\
  cp_dense 0%Z 1%Z Z.add Z.mul 2 [1; 1]%Z (absorb_last Z.mul [2; -3]%Z fs) = mk [2;3] [-26; -34; -42; -42; -54; -66]%Z /\
  init_cp 1%Z Z.mul Z.eqb 2 (Some [2; -3]%Z) fs = ([1;1]%Z, [[[1;2];[3;4]]; [[10;-18];[14;-24];[18;-30]]]%Z).
Proof. vm_compute. repeat split. Qed.

Example C14_nonvacuous_skeleton :
  (* unfixed modes DO change: mode 1 fixed out of 3, two sweeps, the factor records who assigned it *)
  run (fun it m (s : st (list nat) unit) => nth m (facs s) [] ++ [it]) (fun _ _ => false) (fun s => s) false
      Parafac 3 [1] 2 true (mkst tt [[];[];[]]) = Ok (mkst tt [[0;1]; []; [0;1]]) /\
  modes_list Parafac 3 [0;2] = [1;2] /\ modes_list NNHals 3 [0;2] = [1] /\ modes_list Parafac 3 [2;2] = [0;1] /\
  tucker_fixed_lists [2;0] [10;11;12;13] (fun _ free => map (fun x => x + 100) free) = Ok [10;111;12;113].
Proof. vm_compute. repeat split. Qed.
