(* C14 -- property theorems only.  Statements are about Model/WarmStart.v.
   Ring regime: F is ANY commutative ring (ring_theory hypothesis), any order, any rank, any sizes.
   Skeleton: M (a factor), W (the weights) and X (everything else the loop carries: imputed tensor, error history,
   sparse component, dual variables, line-search state) are arbitrary types; upd / stop / normf / post / ls_accept /
   lsw / lsx are arbitrary functions of the whole state, so the statements hold for every numerical update rule, every
   convergence / callback decision sequence, mask and sparsity setting and every iteration budget.  pre / pre_on is
   parafac's orthogonalise hook (an arbitrary replacement of every NON-FIXED factor, commit ef1ea18), ls_on / lsf its
   line search.
   Round 8 (end of this file): partial_tucker's main loop is modelled (Model Section PartialTucker: where it writes; what it computes is arbitrary)
   -- C14_partial_tucker_sweep_writes / _model_shape, C14_tucker_hoi_keeps_fixed (tucker around the modelled loop: no hypothesis on the inner
   routine); the tie of tucker's branch is semantic in the comprehension conditions (C14_pick_condition_ext, C14_picked_positions,
   C14_tucker_branch_by_mode_lists_agrees); C14_fixed_modes_interrupted: the fixed-mode statement at every moment INSIDE a sweep
   (Model Section InterruptedSkel), observed by the harness through injected interruptions (Corr case CInterrupt). *)
From Coq Require Import String.
From Coq Require Import List Arith Bool Ring ZArith Relations.
From TLV Require Import Base.Shape Base.PyList Base.Tensor Base.BigSum Model.WarmStart Proofs.WarmStartProofs
  Proofs.WarmStartProofs2 Proofs.WarmStartTucker Proofs.WarmStartP2 Proofs.WarmStartEndToEnd Proofs.WarmStartSrc Proofs.WarmStartReq Proofs.WarmStartNorm Proofs.WarmStartHalsSem Proofs.WarmStartSrc2 Proofs.WarmStartSrc3 Proofs.WarmStartCls.
Import ListNotations.

(* (i) the tensor represented by the initialisation, weights absorbed into the last factor *)
Theorem C14_absorb_last_entry : forall (F : Type) (rO rI : F) (radd rmul rsub : F -> F -> F) (ropp : F -> F),
  ring_theory rO rI radd rmul rsub ropp (@eq F) ->
  forall (R : nat) (w : list F) (fs : list (matrix (F := F))) (idx : list nat), fs <> [] ->
  cp_entry rO rI radd rmul R w fs idx = cp_entry rO rI radd rmul R (ones rI R) (absorb_last rmul w fs) idx.
Proof. exact cp_absorb_entry. Qed.
Print Assumptions C14_absorb_last_entry.

Theorem C14_absorb_any_entry : forall (F : Type) (rO rI : F) (radd rmul rsub : F -> F -> F) (ropp : F -> F),
  ring_theory rO rI radd rmul rsub ropp (@eq F) ->
  forall (R : nat) (w : list F) (fs : list (matrix (F := F))) (k : nat) (idx : list nat), k < length fs ->
  cp_entry rO rI radd rmul R w fs idx = cp_entry rO rI radd rmul R (ones rI R) (absorb_at rmul k w fs) idx.
Proof. exact cp_absorb_entry_at. Qed.
Print Assumptions C14_absorb_any_entry.

Theorem C14_init_represents : forall (F : Type) (rO rI : F) (radd rmul rsub : F -> F -> F) (ropp : F -> F),
  ring_theory rO rI radd rmul rsub ropp (@eq F) ->
  forall (eqb : F -> F -> bool), (forall x y, eqb x y = true <-> x = y) ->
  forall (R : nat) (w : list F) (fs : list (matrix (F := F))) (idx : list nat), fs <> [] -> length w = R ->
  cp_entry rO rI radd rmul R (fst (init_cp rI rmul eqb R (Some w) fs)) (snd (init_cp rI rmul eqb R (Some w) fs)) idx
  = cp_entry rO rI radd rmul R w fs idx.
Proof. exact init_cp_represents. Qed.
Print Assumptions C14_init_represents.

Theorem C14_init_weights_are_ones : forall (F : Type) (rI : F) (rmul : F -> F -> F) (eqb : F -> F -> bool)
  (R : nat) (w : option (list F)) (fs : list (matrix (F := F))),
  fst (init_cp rI rmul eqb R w fs) = ones rI R.
Proof. exact init_cp_weights_ones. Qed.
Print Assumptions C14_init_weights_are_ones.

(* the same at the level of dense tensors (what the correspondence compares with cp_to_tensor) *)
Theorem C14_absorb_last_dense : forall (F : Type) (rO rI : F) (radd rmul rsub : F -> F -> F) (ropp : F -> F),
  ring_theory rO rI radd rmul rsub ropp (@eq F) ->
  forall (R : nat) (w : list F) (fs : list (matrix (F := F))), fs <> [] ->
  cp_dense rO rI radd rmul R (ones rI R) (absorb_last rmul w fs) = cp_dense rO rI radd rmul R w fs.
Proof. exact cp_absorb_dense. Qed.
Print Assumptions C14_absorb_last_dense.

Theorem C14_init_dense : forall (F : Type) (rO rI : F) (radd rmul rsub : F -> F -> F) (ropp : F -> F),
  ring_theory rO rI radd rmul rsub ropp (@eq F) ->
  forall (eqb : F -> F -> bool), (forall x y, eqb x y = true <-> x = y) ->
  forall (R : nat) (w : list F) (fs : list (matrix (F := F))), fs <> [] -> length w = R ->
  cp_dense rO rI radd rmul R (fst (init_cp rI rmul eqb R (Some w) fs)) (snd (init_cp rI rmul eqb R (Some w) fs))
  = cp_dense rO rI radd rmul R w fs.
Proof. exact init_cp_dense. Qed.
Print Assumptions C14_init_dense.

(* an initialisation without weights is returned as it is *)
Theorem C14_init_no_weights : forall (F : Type) (rI : F) (rmul : F -> F -> F)
  (eqb : F -> F -> bool), (forall x y, eqb x y = true <-> x = y) ->
  forall (R : nat) (fs : list (matrix (F := F))), init_cp rI rmul eqb R None fs = (ones rI R, fs).
Proof. exact init_cp_none. Qed.
Print Assumptions C14_init_no_weights.

(* normalize_factors (commit 3de556b): the default False is the initialiser above; with True the start is cp_normalize of
   it, the same tensor PROVIDED cp_normalize preserves the represented tensor (division by norms: a hypothesis here) *)
Theorem C14_init_normalize_default : forall (F : Type) (rI : F) (rmul : F -> F -> F) (eqb : F -> F -> bool) normf R w
  (fs : list (matrix (F := F))), init_cp_norm rI rmul eqb false normf R w fs = init_cp rI rmul eqb R w fs.
Proof. exact @init_cp_norm_default. Qed.
Print Assumptions C14_init_normalize_default.

Theorem C14_init_normalize_partial : forall (F : Type) (rO rI : F) (radd rmul : F -> F -> F) (eqb : F -> F -> bool) normf R w
  (fs : list (matrix (F := F))) idx,
  (forall x idx, cp_entry rO rI radd rmul R (fst (normf x)) (snd (normf x)) idx = cp_entry rO rI radd rmul R (fst x) (snd x) idx) ->
  forall b, cp_entry rO rI radd rmul R (fst (init_cp_norm rI rmul eqb b normf R w fs)) (snd (init_cp_norm rI rmul eqb b normf R w fs)) idx
  = cp_entry rO rI radd rmul R (fst (init_cp rI rmul eqb R w fs)) (snd (init_cp rI rmul eqb R w fs)) idx.
Proof. exact @init_cp_norm_represents. Qed.
Print Assumptions C14_init_normalize_partial.

(* re-expressing the initialisation with its weights absorbed gives the same initial state ... *)
Theorem C14_init_absorbed_same_state : forall (F : Type) (rO rI : F) (radd rmul rsub : F -> F -> F) (ropp : F -> F),
  ring_theory rO rI radd rmul rsub ropp (@eq F) ->
  forall (eqb : F -> F -> bool), (forall x y, eqb x y = true <-> x = y) ->
  forall (R : nat) (w : list F) (fs : list (matrix (F := F))), length w = R ->
  (forall row, In row (last fs []) -> length row = R) ->
  init_cp rI rmul eqb R (Some (ones rI R)) (absorb_last rmul w fs) = init_cp rI rmul eqb R (Some w) fs.
Proof. exact init_cp_absorbed_same. Qed.
Print Assumptions C14_init_absorbed_same_state.

(* ... hence the same iterates, whatever the update rule, the stopping decisions and the budget *)
Theorem C14_same_iterates : forall (F : Type) (rO rI : F) (radd rmul rsub : F -> F -> F) (ropp : F -> F),
  ring_theory rO rI radd rmul rsub ropp (@eq F) ->
  forall (eqb : F -> F -> bool), (forall x y, eqb x y = true <-> x = y) ->
  forall (R : nat) (w : list F) (fs : list (matrix (F := F))), length w = R ->
  (forall row, In row (last fs []) -> length row = R) ->
  forall (X : Type) (x : X) upd stop normf normalize pre pre_on post ls_on ls_accept lsf lsw lsx a n fixed budget tol,
  let start := fun wf : list F * list (matrix (F := F)) => mkst (fst wf) (snd wf) x in
  run upd stop normf normalize pre pre_on post ls_on ls_accept lsf lsw lsx a n fixed budget tol
      (start (init_cp rI rmul eqb R (Some (ones rI R)) (absorb_last rmul w fs)))
  = run upd stop normf normalize pre pre_on post ls_on ls_accept lsf lsw lsx a n fixed budget tol
      (start (init_cp rI rmul eqb R (Some w) fs)).
Proof. exact same_iterates. Qed.
Print Assumptions C14_same_iterates.

(* (ii) zero budget returns the initialisation: every algorithm, every option *)
Theorem C14_zero_budget : forall (M W X : Type) upd stop normf normalize pre pre_on post ls_on ls_accept lsf lsw lsx
  a n fixed tol (s : st M W X),
  run upd stop normf normalize pre pre_on post ls_on ls_accept lsf lsw lsx a n fixed 0 tol s = Ok s.
Proof. exact @run_zero_budget. Qed.
Print Assumptions C14_zero_budget.

(* (iii) fixed modes stay fixed (Leibniz equality of the factor).  Default normalisation; orthogonalise on or off with ANY
   replacement rule (the hook skips fixed modes); mask / sparsity / error bookkeeping arbitrary; line search on or off with
   ANY candidate formula lsf that returns x for (last, current) = (x, x) -- parafac's formula does, see
   C14_linesearch_candidate / C14_fixed_modes_linesearch *)
Theorem C14_fixed_modes : forall (M W X : Type) upd stop normf pre pre_on post ls_on ls_accept lsf lsw lsx a n fixed budget tol
  (s s' : st M W X) (d : M) (m : nat),
  (has_hooks a = true -> forall it s x, lsf it s x x = x) ->
  run upd stop normf false pre pre_on post ls_on ls_accept lsf lsw lsx a n fixed budget tol s = Ok s' ->
  In m (eff_fixed a n fixed) -> nth m (facs s') d = nth m (facs s) d.
Proof. exact @run_fixed. Qed.
Print Assumptions C14_fixed_modes.

Theorem C14_fixed_modes_user : forall (M W X : Type) upd stop normf pre pre_on post ls_on ls_accept lsf lsw lsx a n fixed budget tol
  (s s' : st M W X) (d : M) (m : nat),
  (has_hooks a = true -> forall it s x, lsf it s x x = x) ->
  run upd stop normf false pre pre_on post ls_on ls_accept lsf lsw lsx a n fixed budget tol s = Ok s' ->
  In m fixed -> (drops_last a = true -> m <> n - 1) -> nth m (facs s') d = nth m (facs s) d.
Proof. exact @run_fixed_user. Qed.
Print Assumptions C14_fixed_modes_user.

(* parafac's line-search candidate last + (cur - last) * jump, entrywise on matrices of any shape over any commutative
   ring, is `last` when cur = last ... *)
Theorem C14_linesearch_candidate : forall (F : Type) (rO rI : F) (radd rmul rsub : F -> F -> F) (ropp : F -> F),
  ring_theory rO rI radd rmul rsub ropp (@eq F) ->
  forall (jump : F) (A : list (list F)), ls_mat radd rsub rmul jump A A = A.
Proof. exact ls_mat_same. Qed.
Print Assumptions C14_linesearch_candidate.

(* ... hence fixed modes survive parafac with orthogonalise, mask, sparsity and linesearch=True in any combination, for every
   jump schedule and accept decision, with no hypothesis left (ring regime: equality of values; in floating point
   x + (x - x) * jump returns +0.0 for an entry -0.0 and NaN for an infinite one) *)
Theorem C14_fixed_modes_linesearch : forall (F : Type) (rO rI : F) (radd rmul rsub : F -> F -> F) (ropp : F -> F),
  ring_theory rO rI radd rmul rsub ropp (@eq F) ->
  forall (W X : Type) upd stop normf pre pre_on post ls_on ls_accept (jump : nat -> st (list (list F)) W X -> F) lsw lsx
  a n fixed budget tol (s s' : st (list (list F)) W X) d m,
  run upd stop normf false pre pre_on post ls_on ls_accept (fun it s => ls_mat radd rsub rmul (jump it s)) lsw lsx
      a n fixed budget tol s = Ok s' ->
  In m (eff_fixed a n fixed) -> nth m (facs s') d = nth m (facs s) d.
Proof. exact fixed_modes_linesearch. Qed.
Print Assumptions C14_fixed_modes_linesearch.

(* end to end (initialiser + skeleton): a fixed mode other than the last is returned as the SUPPLIED array, whatever the
   weights of the initialisation, the algorithm, the update rule, the decisions and the budget *)
Theorem C14_fixed_end_to_end : forall (F : Type) (rI : F) (rmul : F -> F -> F) (eqb : F -> F -> bool) (X : Type)
  upd stop normf pre pre_on post ls_on ls_accept lsf lsw lsx a n fixed budget tol R (w : option (list F))
  (fs : list (matrix (F := F))) (x : X) s' m d,
  (has_hooks a = true -> forall it s x, lsf it s x x = x) ->
  run upd stop normf false pre pre_on post ls_on ls_accept lsf lsw lsx a n fixed budget tol (start x (init_cp rI rmul eqb R w fs)) = Ok s' ->
  In m fixed -> (drops_last a = true -> m <> n - 1) -> m < length fs - 1 -> nth m (facs s') d = nth m fs d.
Proof. exact @fixed_end_to_end. Qed.
Print Assumptions C14_fixed_end_to_end.

(* non_negative_parafac_hals is the one driver that lets the caller fix the LAST mode; since commit 3d55b5c it pulls the
   weights of the initialisation into the last UPDATED mode (init_hals), which still represents the supplied tensor ... *)
Theorem C14_hals_init_represents : forall (F : Type) (rO rI : F) (radd rmul rsub : F -> F -> F) (ropp : F -> F),
  ring_theory rO rI radd rmul rsub ropp (@eq F) ->
  forall (eqb : F -> F -> bool), (forall x y, eqb x y = true <-> x = y) ->
  forall R n fixed (w : list F) (fs : list (matrix (F := F))) idx, fs <> [] -> length w = R -> n = length fs ->
  cp_entry rO rI radd rmul R (fst (init_hals rI rmul eqb R n fixed (Some w) fs)) (snd (init_hals rI rmul eqb R n fixed (Some w) fs)) idx
  = cp_entry rO rI radd rmul R w fs idx.
Proof. exact init_hals_represents. Qed.
Print Assumptions C14_hals_init_represents.

(* ... and EVERY fixed mode, the last one included, comes back as the supplied array after any number of sweeps, as soon
   as one mode is left to update or the weights are unit / absent *)
Theorem C14_hals_fixed_end_to_end : forall (F : Type) (rI : F) (rmul : F -> F -> F) (eqb : F -> F -> bool) (X : Type)
  upd stop normf pre pre_on post ls_on ls_accept lsf lsw lsx n fixed budget tol R (w : option (list F))
  (fs : list (matrix (F := F))) (x : X) s' m d,
  (forall x y, eqb x y = true <-> x = y) ->
  run upd stop normf false pre pre_on post ls_on ls_accept lsf lsw lsx NNHals n fixed budget tol (start x (init_hals rI rmul eqb R n fixed w fs)) = Ok s' ->
  n = length fs -> In m fixed -> m < n ->
  (modes_list NNHals n fixed <> [] \/ all_ones rI eqb (match w with None => ones rI R | Some v => v end) = true) ->
  nth m (facs s') d = nth m fs d.
Proof. exact @hals_fixed_end_to_end. Qed.
Print Assumptions C14_hals_fixed_end_to_end.

(* what is left (known finding, same tensor): EVERY mode fixed and non-unit weights -- no updated mode can take the weights
   and the all-fixed return carries them in the last factor *)
Theorem C14_hals_all_fixed_weights_refuted : exists (w : list Z) (fs : list (list (list Z))) s',
  run (fun _ m s => (nth m (facs s) [], tt)) (fun _ _ => false) (fun s => s) false (fun _ m s => nth m (facs s) []) (fun _ => false) (fun _ _ => tt)
      (fun _ => false) (fun _ _ _ => false) (fun _ _ l c => c) (fun _ _ l c => c) (fun _ _ _ => tt) NNHals 2 [0; 1] 1 true
      (start tt (init_hals 1%Z Z.mul Z.eqb 1 2 [0; 1] (Some w) fs)) = Ok s' /\ (forall m, m < 2 -> In m [0; 1]) /\
  nth 1 (facs s') [] <> nth 1 fs [].
Proof. exact hals_all_fixed_weights_counterexample. Qed.
Print Assumptions C14_hals_all_fixed_weights_refuted.

(* end to end, zero budget: every algorithm, option and fixed list returns a CP tensor representing the supplied one *)
Theorem C14_zero_budget_end_to_end : forall (F : Type) (rO rI : F) (radd rmul rsub : F -> F -> F) (ropp : F -> F),
  ring_theory rO rI radd rmul rsub ropp (@eq F) ->
  forall (eqb : F -> F -> bool), (forall x y, eqb x y = true <-> x = y) ->
  forall (X : Type) (x : X) upd stop normf normalize pre pre_on post ls_on ls_accept lsf lsw lsx a n fixed tol R (w : list F)
    (fs : list (matrix (F := F))) idx,
  fs <> [] -> length w = R ->
  exists s', run upd stop normf normalize pre pre_on post ls_on ls_accept lsf lsw lsx a n fixed 0 tol (start x (init_cp rI rmul eqb R (Some w) fs)) = Ok s' /\
    cp_entry rO rI radd rmul R (wts s') (facs s') idx = cp_entry rO rI radd rmul R w fs idx.
Proof. exact zero_budget_end_to_end. Qed.
Print Assumptions C14_zero_budget_end_to_end.

Theorem C14_run_shape : forall (M W X : Type) upd stop normf pre pre_on post ls_on ls_accept lsf lsw lsx a n fixed budget tol (s s' : st M W X),
  run upd stop normf false pre pre_on post ls_on ls_accept lsf lsw lsx a n fixed budget tol s = Ok s' -> length (facs s') = length (facs s).
Proof. exact @run_shape. Qed.
Print Assumptions C14_run_shape.

Theorem C14_modes_list_spec : forall a n fixed m,
  In m (modes_list a n fixed) <-> m < n /\ ~ In m (eff_fixed a n fixed).
Proof. exact modes_list_In. Qed.
Print Assumptions C14_modes_list_spec.

(* the documented rule "the last mode cannot be fixed" *)
Theorem C14_last_mode_rule : forall a n fixed, drops_last a = true -> NoDup fixed -> 0 < n ->
  In (n - 1) (modes_list a n fixed).
Proof. exact last_mode_updated. Qed.
Print Assumptions C14_last_mode_rule.

(* fixing every mode returns the initialisation: parafac's shortcut, for ANY list naming exactly the modes 0..n-1 -- any order,
   repetitions allowed (set comparison since commit adc0083), every budget, option and hook ... *)
Theorem C14_all_fixed_shortcut : forall (M W X : Type) upd stop normf pre pre_on post ls_on ls_accept lsf lsw lsx a n fixed budget tol (s : st M W X),
  shortcut a = true -> (forall m, m < n -> In m fixed) -> (forall m, In m fixed -> m < n) ->
  run upd stop normf false pre pre_on post ls_on ls_accept lsf lsw lsx a n fixed budget tol s = Ok s.
Proof. exact @run_all_fixed_shortcut. Qed.
Print Assumptions C14_all_fixed_shortcut.

(* ... the drivers that document "the last mode cannot be fixed" have no shortcut: a duplicate-free list naming every mode
   leaves them exactly the last mode to update ... *)
Theorem C14_full_list_leaves_last_mode : forall a n fixed, drops_last a = true -> NoDup fixed -> 0 < n ->
  (forall m, m < n -> In m fixed) -> modes_list a n fixed = [n - 1].
Proof. exact full_list_leaves_last. Qed.
Print Assumptions C14_full_list_leaves_last_mode.

(* ... the algorithms without a shortcut can be left without a mode to update only by a request that repeats the last
   mode; then, IF the call returns (it raises when it needs the last MTTKRP), it returns the initialisation ... *)
Theorem C14_all_fixed_partial : forall (M W X : Type) upd stop normf pre pre_on post ls_on ls_accept lsf lsw lsx a n fixed budget tol (s s' : st M W X),
  has_hooks a = false -> (forall m, m < n -> In m (eff_fixed a n fixed)) ->
  run upd stop normf false pre pre_on post ls_on ls_accept lsf lsw lsx a n fixed budget tol s = Ok s' -> facs s' = facs s /\ wts s' = wts s.
Proof. exact @run_nothing_to_update. Qed.
Print Assumptions C14_all_fixed_partial.

(* ... and non_negative_parafac_hals, the one variant a duplicate-free request can leave without a mode to update,
   returns the initialisation for every budget, tolerance and normalisation setting (repaired by commit c3946df) *)
Theorem C14_hals_all_fixed : forall (M W X : Type) upd stop normf normalize pre pre_on post ls_on ls_accept lsf lsw lsx n fixed budget tol (s : st M W X),
  (forall m, m < n -> In m fixed) -> run upd stop normf normalize pre pre_on post ls_on ls_accept lsf lsw lsx NNHals n fixed budget tol s = Ok s.
Proof. exact @hals_all_fixed_returns. Qed.
Print Assumptions C14_hals_all_fixed.

(* normalize_factors=True is outside the fixed-mode statement: with an ARBITRARY normalisation function the skeleton permits a
   fixed factor to be rewritten (a statement about the skeleton, not about cp_normalize itself, which does rescale every factor) *)
Theorem C14_fixed_modes_normalize_refuted : exists upd stop normf (s s' : st nat unit unit),
  run upd stop normf true (fun _ _ _ => 0) (fun _ => false) (fun _ _ => tt) (fun _ => false) (fun _ _ _ => false)
      (fun _ _ l c => c) (fun _ _ l c => c) (fun _ _ _ => tt) Parafac 2 [0] 1 true s = Ok s' /\ In 0 (eff_fixed Parafac 2 [0]) /\
  nth 0 (facs s') 0 <> nth 0 (facs s) 0.
Proof. exact normalize_breaks_fixed. Qed.
Print Assumptions C14_fixed_modes_normalize_refuted.

(* tucker(fixed_factors=...): the re-inserted objects are the supplied ones, the new ones keep their order *)
Theorem C14_tucker_reinsert : forall (M : Type) (fixed : list nat) (fs : list M) (partial : list nat -> list M -> list M),
  NoDup fixed -> (forall e, In e fixed -> e < length fs) ->
  (forall modes free, length (partial modes free) = length free) ->
  exists out, tucker_fixed_lists fixed fs partial = Ok out /\ length out = length fs /\
    (forall e d, In e fixed -> nth e out d = nth e fs d) /\
    map snd (pick (fun i => negb (memb i (py_sorted fixed))) 0 out)
    = partial (map fst (pick (fun i => negb (memb i (py_sorted fixed))) 0 fs))
              (map snd (pick (fun i => negb (memb i (py_sorted fixed))) 0 fs)).
Proof. exact @tucker_reinsert_spec. Qed.
Print Assumptions C14_tucker_reinsert.

(* fixing every Tucker factor returns the supplied Tucker tensor, whatever partial_tucker would do (repaired by b6b5914) *)
Theorem C14_tucker_all_fixed : forall (F : Type) (zero : F) (add mul : F -> F -> F) pt (core : tensor F)
  (fs : list (matrix (F := F))) (fixed : list nat),
  (forall i, i < length fs -> In i fixed) -> tucker_fixed zero add mul core fs fixed pt = Ok (core, fs).
Proof. exact @tucker_fixed_all_returns. Qed.
Print Assumptions C14_tucker_all_fixed.

(* the whole function tucker(init=(core, fs), fixed_factors=fixed) for EVERY partial_tucker (every budget, tolerance,
   SVD): it returns, and the factors of the fixed modes are the supplied objects *)
Theorem C14_tucker_fixed_factors : forall (F : Type) (zero : F) (add mul : F -> F -> F)
  (pt : tensor F -> list nat -> list (matrix (F := F)) -> tensor F * list (matrix (F := F)))
  (core : tensor F) (fs : list (matrix (F := F))) (fixed : list nat),
  NoDup fixed -> (forall e, In e fixed -> e < length fs) ->
  (forall c modes free, length (snd (pt c modes free)) = length free) ->
  exists c out, tucker_fixed zero add mul core fs fixed pt = Ok (c, out) /\ length out = length fs /\
    forall e d, In e fixed -> nth e out d = nth e fs d.
Proof. exact @tucker_fixed_keeps_factors. Qed.
Print Assumptions C14_tucker_fixed_factors.

(* absorbing factors with orthonormal columns into the core and re-extracting them with the transposes is the
   identity: any commutative ring, any order, any number of (distinct) modes *)
Theorem C14_tucker_absorb_extract : forall (F : Type) (rO rI : F) (radd rmul rsub : F -> F -> F) (ropp : F -> F),
  ring_theory rO rI radd rmul rsub ropp (@eq F) ->
  forall (Ms : list (matrix (F := F))) (modes : list nat) (t : tensor F),
  wf t -> NoDup modes -> length Ms = length modes ->
  (forall A m, In (A, m) (combine Ms modes) ->
     m < length (shape t) /\ ncols A = nth m (shape t) 0 /\ orthonormal_cols rO rI radd rmul (ncols A) A) ->
  multi_mode_dot_T rO radd rmul (multi_mode_dot rO radd rmul t Ms modes) Ms modes = t.
Proof. exact mmd_absorb_extract. Qed.
Print Assumptions C14_tucker_absorb_extract.

(* tucker zero budget: returns exactly the initialisation WHEN the fixed factors have orthonormal columns ... *)
Theorem C14_tucker_zero_budget_partial : forall (F : Type) (rO rI : F) (radd rmul rsub : F -> F -> F) (ropp : F -> F),
  ring_theory rO rI radd rmul rsub ropp (@eq F) ->
  forall (core : tensor F) (fs : list (matrix (F := F))) (fixed : list nat),
  NoDup fixed -> (forall e, In e fixed -> e < length fs) ->
  wf core -> length (shape core) = length fs ->
  (forall e, In e fixed -> ncols (nth e fs []) = nth e (shape core) 0 /\
                           orthonormal_cols rO rI radd rmul (ncols (nth e fs [])) (nth e fs [])) ->
  tucker_fixed rO radd rmul core fs fixed (@pt_zero F) = Ok (core, fs).
Proof. exact tucker_zero_budget_orthonormal. Qed.
Print Assumptions C14_tucker_zero_budget_partial.

(* ... and a different tensor otherwise: the core is multiplied by F^T F for every fixed factor F (genuine defect;
   witness over Z on the whole-function model) *)
Theorem C14_tucker_zero_budget_refuted : exists (core : tensor Z) (fs : list (list (list Z))) (fixed : list nat) c' fs',
  NoDup fixed /\ (forall e, In e fixed -> e < length fs) /\
  tucker_fixed 0%Z Z.add Z.mul core fs fixed (@pt_zero Z) = Ok (c', fs') /\
  tucker_entry_dense 0%Z Z.add Z.mul c' fs' <> tucker_entry_dense 0%Z Z.add Z.mul core fs.
Proof. exact tucker_fixed_zero_budget_counterexample. Qed.
Print Assumptions C14_tucker_zero_budget_refuted.

(* non_negative_tucker / non_negative_tucker_hals start from |init|: the initialisation itself when it is entrywise
   non-negative (fabs x = x) ... *)
Theorem C14_ntd_init_partial : forall (F : Type) (fabs : F -> F) (core : tensor F) (fs : list (matrix (F := F))),
  (forall x, In x (data core) -> fabs x = x) ->
  (forall A, In A fs -> forall row, In row A -> forall x, In x row -> fabs x = x) ->
  tucker_init true fabs core fs = (core, fs).
Proof. exact @tucker_init_feasible. Qed.
Print Assumptions C14_ntd_init_partial.

(* ... not otherwise (deliberate feasibility projection; known finding) ... *)
Theorem C14_ntd_init_refuted : exists (core : tensor Z) (fs : list (list (list Z))),
  tucker_init true Z.abs core fs <> (core, fs).
Proof. exact tucker_init_abs_counterexample. Qed.
Print Assumptions C14_ntd_init_refuted.

(* ... and a fixed mode of non_negative_tucker_hals returns |supplied factor| after any number of sweeps *)
Theorem C14_ntd_fixed_factor : forall (F : Type) (fabs : F -> F) (W X : Type) upd stop normf pre pre_on post ls_on ls_accept lsf lsw lsx
  n fixed budget tol (w : W) (x : X) (fs : list (matrix (F := F))) s' m,
  run upd stop normf false pre pre_on post ls_on ls_accept lsf lsw lsx NTDHals n fixed budget tol (mkst w (map (abs_mat fabs) fs) x) = Ok s' ->
  In m fixed -> m <> n - 1 -> nth m (facs s') [] = abs_mat fabs (nth m fs []).
Proof. exact @ntd_fixed_factor. Qed.
Print Assumptions C14_ntd_fixed_factor.

(* PARAFAC2 from a CP tensor: with Q, Rm the recorded answer of qr(B) (contract Q Rm = B) the
   Parafac2Tensor (w; A, Rm, C; P_i = Q) represents the CP tensor (w; A, B, C) *)
Theorem C14_parafac2_from_cp : forall (F : Type) (rO rI : F) (radd rmul rsub : F -> F -> F) (ropp : F -> F),
  ring_theory rO rI radd rmul rsub ropp (@eq F) ->
  forall (R : nat) (w : list F) (A B C Q Rm : matrix (F := F)) (P : list (matrix (F := F))) (i j k : nat),
  (forall jj r, r < R -> bigsum F rO radd R (fun s => rmul (mget rO Q jj s) (mget rO Rm s r)) = mget rO B jj r) ->
  nth i P [] = Q ->
  p2_entry rO radd rmul R w A Rm C P i j k = cp_entry rO rI radd rmul R w [A; B; C] [i; j; k].
Proof. exact p2_from_cp. Qed.
Print Assumptions C14_parafac2_from_cp.

(* PARAFAC2: weights absorbed into B represent the same tensor (zero budget: the two forms differ only in form) *)
Theorem C14_parafac2_absorb_entry : forall (F : Type) (rO rI : F) (radd rmul rsub : F -> F -> F) (ropp : F -> F),
  ring_theory rO rI radd rmul rsub ropp (@eq F) ->
  forall (R : nat) (w : list F) (A B C : matrix (F := F)) (P : list (matrix (F := F))) (i j k : nat),
  p2_entry rO radd rmul R w A B C P i j k = p2_entry rO radd rmul R (ones rI R) A (scale_cols rmul B w) C P i j k.
Proof. exact p2_absorb_entry. Qed.
Print Assumptions C14_parafac2_absorb_entry.

Theorem C14_parafac2_zero_budget : forall (F : Type) (rI : F) (rmul : F -> F -> F) (PT : Type) upd stop normf normalize
  (R it : nat) (s : p2st F PT), p2_iterate rI rmul upd stop normf normalize R 0 it s = s.
Proof. exact @p2_zero_budget. Qed.
Print Assumptions C14_parafac2_zero_budget.

(* the main loop from (w; A,B,C; P) and from (ones; A, B diag(w), C; P): identical for every positive budget, every
   update (projections, inner ALS, line search), every stopping decision and normalisation setting *)
Theorem C14_parafac2_same_iterates : forall (F : Type) (rO rI : F) (radd rmul rsub : F -> F -> F) (ropp : F -> F),
  ring_theory rO rI radd rmul rsub ropp (@eq F) ->
  forall (PT : Type) upd stop normf normalize (R : nat) (w : list F) (fs : list (matrix (F := F))) (P : PT) (budget it : nat),
  length w = R -> (forall row, In row (nth 1 fs []) -> R <= length row) -> 0 < budget ->
  p2_iterate rI rmul upd stop normf normalize R budget it (mkp2 (ones rI R) (absorb_at rmul 1 w fs) P)
  = p2_iterate rI rmul upd stop normf normalize R budget it (mkp2 w fs P).
Proof. exact p2_same_iterates. Qed.
Print Assumptions C14_parafac2_same_iterates.

(* the whole call: with a zero budget it returns the initialisation (normalised iff normalize_factors, commit 1c1a684), and for
   default normalisation the absorbed and the weighted form of the initialisation give the same result for every positive budget *)
Theorem C14_parafac2_run_zero_budget : forall (F : Type) (rI : F) (rmul : F -> F -> F) (PT : Type) upd stop normf normalize
  (R : nat) (s : p2st F PT), p2_run rI rmul upd stop normf normalize R 0 s = if normalize then normf s else s.
Proof. exact @p2_run_zero_budget. Qed.
Print Assumptions C14_parafac2_run_zero_budget.

Theorem C14_parafac2_run_same_iterates : forall (F : Type) (rO rI : F) (radd rmul rsub : F -> F -> F) (ropp : F -> F),
  ring_theory rO rI radd rmul rsub ropp (@eq F) ->
  forall (PT : Type) upd stop normf normalize (R : nat) (w : list F) (fs : list (matrix (F := F))) (P : PT) (budget : nat),
  normalize = false -> length w = R -> (forall row, In row (nth 1 fs []) -> R <= length row) -> 0 < budget ->
  p2_run rI rmul upd stop normf normalize R budget (mkp2 (ones rI R) (absorb_at rmul 1 w fs) P)
  = p2_run rI rmul upd stop normf normalize R budget (mkp2 w fs P).
Proof. exact p2_run_same_iterates. Qed.
Print Assumptions C14_parafac2_run_same_iterates.

(* initialisation: a Parafac2Tensor is taken as it is, a CP tensor becomes (w; A, R, C; [Q]*I) which represents it
   (contract of qr: Q R = B), and in both cases a decomposition of another rank is rejected *)
Theorem C14_parafac2_init_p2_unchanged : forall (F : Type) (rI : F) qr (rank : nat) (w : list F)
  (fs P : list (matrix (F := F))) s,
  p2_init rI qr rank (FromP2 (Some w) fs P) = Ok s -> s = mkp2 w fs P.
Proof. exact @p2_init_p2_unchanged. Qed.
Print Assumptions C14_parafac2_init_p2_unchanged.

Theorem C14_parafac2_init_rank : forall (F : Type) (rI : F) qr (rank : nat) (init : p2init F) s,
  p2_init rI qr rank init = Ok s -> rank_of (p2f s) = rank.
Proof. exact @p2_init_rank. Qed.
Print Assumptions C14_parafac2_init_rank.

Theorem C14_parafac2_init_cp_represents : forall (F : Type) (rO rI : F) (radd rmul rsub : F -> F -> F) (ropp : F -> F),
  ring_theory rO rI radd rmul rsub ropp (@eq F) ->
  forall qr (R : nat) (w : list F) (A B C : matrix (F := F)) s,
  (forall jj r, r < R -> bigsum F rO radd R (fun t => rmul (mget rO (fst (qr B)) jj t) (mget rO (snd (qr B)) t r)) = mget rO B jj r) ->
  p2_init rI qr R (FromCP (Some w) [A; B; C]) = Ok s ->
  exists Rm : matrix (F := F), p2f s = [A; Rm; C] /\ p2w s = w /\
    forall i j k, i < length A ->
      p2_entry rO radd rmul R (p2w s) A Rm C (p2P s) i j k = cp_entry rO rI radd rmul R w [A; B; C] [i; j; k].
Proof. exact p2_init_cp_represents. Qed.
Print Assumptions C14_parafac2_init_cp_represents.

(* non-vacuity: hypotheses are satisfiable and the model computes *)
Example C14_nonvacuous_absorb :
  let fs := [[[1;2];[3;4]]; [[5;6];[7;8];[9;10]]]%Z in
  cp_dense 0%Z 1%Z Z.add Z.mul 2 [2; -3]%Z fs = mk [2;3] [-26; -34; -42; -42; -54; -66]%Z /\
  cp_dense 0%Z 1%Z Z.add Z.mul 2 [1; 1]%Z (absorb_last Z.mul [2; -3]%Z fs) = mk [2;3] [-26; -34; -42; -42; -54; -66]%Z /\
  init_cp 1%Z Z.mul Z.eqb 2 (Some [2; -3]%Z) fs = ([1;1]%Z, [[[1;2];[3;4]]; [[10;-18];[14;-24];[18;-30]]]%Z).
Proof. vm_compute. repeat split. Qed.

Definition ex_run (ortho : nat -> bool) (ls : nat -> bool) a n fixed budget tol :=
  (* a factor records who touched it: it = assigned in sweep it, 100+it = orthogonalised, 200+it = line-search candidate taken *)
  run (fun it m (s : st (list nat) unit unit) => (nth m (facs s) [] ++ [it], tt)) (fun _ _ => false) (fun s => s) false
      (fun it m s => nth m (facs s) [] ++ [100 + it]) ortho (fun _ _ => tt)
      ls (fun _ _ _ => true) (fun it _ l c => if list_eqb l c then l else c ++ [200 + it]) (fun _ _ l c => c) (fun _ _ _ => tt)
      a n fixed budget tol (mkst tt (repeat [] n) tt).

Example C14_nonvacuous_skeleton :
  (* unfixed modes DO change: mode 1 fixed out of 3, two sweeps *)
  ex_run (fun _ => false) (fun _ => false) Parafac 3 [1] 2 true = Ok (mkst tt [[0;1]; []; [0;1]] tt) /\
  (* line search on in sweep 1: free modes take the candidate, the fixed one is untouched *)
  ex_run (fun _ => false) (fun it => Nat.eqb it 1) Parafac 3 [1] 2 true = Ok (mkst tt [[0;1;201]; []; [0;1;201]] tt) /\
  (* orthogonalise in sweep 0 rewrites the free factors only; the other algorithms have no such hook *)
  ex_run (fun it => Nat.eqb it 0) (fun _ => false) Parafac 3 [1] 2 true = Ok (mkst tt [[100;0;1]; []; [100;0;1]] tt) /\
  ex_run (fun it => Nat.eqb it 0) (fun _ => true) NNParafac 3 [1] 2 true = Ok (mkst tt [[0;1]; []; [0;1]] tt) /\
  (* every mode named, in any order or twice: parafac returns the start; the others are left with the last mode *)
  ex_run (fun _ => true) (fun _ => true) Parafac 3 [1;0;2;2] 2 true = Ok (mkst tt [[];[];[]] tt) /\
  modes_list NNParafac 3 [1;0;2] = [2] /\
  modes_list Parafac 3 [0;2] = [1;2] /\ modes_list NNHals 3 [0;2] = [1] /\ modes_list Parafac 3 [2;2] = [0;1] /\
  (* every mode fixed: HALS-CP returns the start for a positive budget; a request repeating the last mode leaves
     constrained_parafac without a mode and it raises *)
  ex_run (fun _ => false) (fun _ => false) NNHals 2 [1;0] 3 true = Ok (mkst tt [[];[]] tt) /\
  ex_run (fun _ => false) (fun _ => false) Constrained 2 [0;1;1] 1 true = Err /\
  tucker_fixed_lists [1;0] [10;11] (fun _ free => map (fun x => x + 100) free) = Ok [10;11] /\
  tucker_fixed_lists [2;0] [10;11;12;13] (fun _ free => map (fun x => x + 100) free) = Ok [10;111;12;113] /\
  ls_mat Z.add Z.sub Z.mul 3%Z [[1; 2]; [3; 4]]%Z [[2; 2]; [1; 8]]%Z = [[4; 2]; [-3; 16]]%Z /\
  (* HALS-CP start: last mode fixed => the weights go into the last free mode (1); otherwise into the last mode *)
  init_hals 1%Z Z.mul Z.eqb 1 3 [2; 0] (Some [2]%Z) [[[1]]; [[3]]; [[5]]]%Z = ([1]%Z, [[[1]]; [[6]]; [[5]]]%Z) /\
  init_hals 1%Z Z.mul Z.eqb 1 3 [0] (Some [2]%Z) [[[1]]; [[3]]; [[5]]]%Z = ([1]%Z, [[[1]]; [[3]]; [[10]]]%Z) /\
  init_hals 1%Z Z.mul Z.eqb 1 3 [0; 1; 2] (Some [2]%Z) [[[1]]; [[3]]; [[5]]]%Z = ([1]%Z, [[[1]]; [[3]]; [[10]]]%Z).
Proof. vm_compute. repeat split. Qed.

Example C14_nonvacuous_tucker :
  (* a signed partial permutation has orthonormal columns; fixing it (and a second one, listed out of order) returns
     the initialisation at zero budget, a non-orthonormal factor does not; the hypotheses of the partial theorem hold *)
  let core := mk [2; 2; 2] [1; -2; 3; 0; -1; 2; 2; 1]%Z in
  let P0 := [[0; -1]; [1; 0]; [0; 0]]%Z in let P2 := [[0; 1]; [0; 0]; [-1; 0]]%Z in
  let G := [[1; 2]; [0; 1]; [1; 0]; [2; 2]]%Z in
  tucker_fixed 0%Z Z.add Z.mul core [P0; G; P2] [2; 0] (@pt_zero Z) = Ok (core, [P0; G; P2]) /\
  orthonormal_cols 0%Z 1%Z Z.add Z.mul 2 P0 /\ orthonormal_cols 0%Z 1%Z Z.add Z.mul 2 P2 /\ ~ orthonormal_cols 0%Z 1%Z Z.add Z.mul 2 G /\
  tucker_fixed 0%Z Z.add Z.mul core [P0; G; P2] [1] (@pt_zero Z)
    = Ok (mk [2; 2; 2] [24; -12; 33; -12; 6; 18; 12; 21]%Z, [P0; G; P2]) /\
  tucker_fixed 0%Z Z.add Z.mul core [P0; G; P2] [2; 0; 1] (@pt_zero Z) = Ok (core, [P0; G; P2]) /\
  tucker_init true Z.abs core [P0] = (mk [2; 2; 2] [1; 2; 3; 0; 1; 2; 2; 1]%Z, [[[0; 1]; [1; 0]; [0; 0]]%Z]).
Proof.
  assert (Hlt : forall i, i < 2 -> i = 0 \/ i = 1) by (intros i Hi; destruct i as [|[|i]]; auto; exfalso; inversion Hi as [|? H1]; inversion H1 as [|? H2]; inversion H2).
  intros core P0 P2 G. split; [vm_compute; reflexivity|].
  split; [intros i j Hi Hj; destruct (Hlt i Hi) as [->| ->]; destruct (Hlt j Hj) as [->| ->]; reflexivity|].
  split; [intros i j Hi Hj; destruct (Hlt i Hi) as [->| ->]; destruct (Hlt j Hj) as [->| ->]; reflexivity|].
  split; [intros H; specialize (H 0 0 (Nat.lt_0_succ 1) (Nat.lt_0_succ 1)); vm_compute in H; discriminate|].
  vm_compute. repeat split.
Qed.

Example C14_nonvacuous_parafac2 :
  (* the absorb step, the loop on a recording update, and the two initialisation routes *)
  let upd := fun (it : nat) (s : p2st Z (list nat)) => (p2f s, p2P s ++ [it]) in
  p2_iterate 1%Z Z.mul upd (fun _ _ => false) (fun s => s) false 2 2 0 (mkp2 [2; -3]%Z [[[1; 1]]; [[1; 2]; [3; 4]]; [[1; 1]]]%Z [])
    = mkp2 [1; 1]%Z [[[1; 1]]; [[2; -6]; [6; -12]]; [[1; 1]]]%Z [0; 1] /\
  p2_iterate 1%Z Z.mul upd (fun _ _ => false) (fun s => s) false 2 2 0 (mkp2 [1; 1]%Z [[[1; 1]]; [[2; -6]; [6; -12]]; [[1; 1]]]%Z [])
    = mkp2 [1; 1]%Z [[[1; 1]]; [[2; -6]; [6; -12]]; [[1; 1]]]%Z [0; 1] /\
  p2_init 1%Z (fun B => ([[1; 0]; [0; 1]; [0; 0]], [[2; 1]; [0; 3]])%Z) 2 (FromCP (Some [2; -3]%Z) [[[1; 1]]; [[2; 1]; [0; 3]; [0; 0]]; [[1; 1]]]%Z)
    = Ok (mkp2 [2; -3]%Z [[[1; 1]]; [[2; 1]; [0; 3]]; [[1; 1]]]%Z [[[1; 0]; [0; 1]; [0; 0]]%Z]) /\
  p2_init 1%Z (fun B => (B, B)) 3 (FromP2 (Some [2; -3]%Z) [[[1; 1]]; [[1; 2]; [3; 4]]; [[1; 1]]]%Z []) = Err.
Proof. vm_compute. repeat split. Qed.

(* ---- source tie (Proofs/WarmStartSrc.v): the decision prologue of every driver -- everything between the initialiser and the
   sweep loop that reads or rewrites fixed_modes -- is regenerated from the CURRENT Python source by an ast translator on every
   run (harness/props/C14.py, source_tie) as a function n -> fixed -> fmres and proved equal to fm_model by the generated
   lemmas fm_src_<driver>_ok; the statements below are what those lemmas plug into *)
Theorem C14_run_factors_through_prologue : forall (M W X : Type) upd stop normf normalize pre pre_on post ls_on ls_accept lsf lsw lsx
  a n fixed budget tol (s : st M W X),
  run upd stop normf normalize pre pre_on post ls_on ls_accept lsf lsw lsx a n fixed budget tol s
  = run_from upd stop normf normalize pre pre_on post ls_on ls_accept lsf lsw lsx (fm_model a n fixed) a budget tol s.
Proof. exact @run_factors. Qed.
Print Assumptions C14_run_factors_through_prologue.

(* `set(fixed_modes) == set(range(ndim))` is the model's names_every_mode *)
Theorem C14_prologue_set_comparison : forall fixed n, set_eqb fixed (seq 0 n) = names_every_mode fixed n.
Proof. exact set_eqb_range. Qed.
Print Assumptions C14_prologue_set_comparison.

(* fixed modes stay fixed / zero budget returns the start / the loop walks exactly the non-fixed modes, for ANY prologue
   function that agrees with the model's -- instantiated on every run with the regenerated one *)
Theorem C14_fixed_modes_any_prologue : forall (M W X : Type) (src : nat -> list nat -> fmres) (a : algo),
  (forall n fixed, src n fixed = fm_model a n fixed) ->
  forall upd stop normf pre pre_on post ls_on ls_accept lsf lsw lsx n fixed budget tol (s s' : st M W X) d m,
  (has_hooks a = true -> forall it s x, lsf it s x x = x) ->
  run_from upd stop normf false pre pre_on post ls_on ls_accept lsf lsw lsx (src n fixed) a budget tol s = Ok s' ->
  In m fixed -> (drops_last a = true -> m <> n - 1) -> nth m (facs s') d = nth m (facs s) d.
Proof. exact @src_fixed_modes. Qed.
Print Assumptions C14_fixed_modes_any_prologue.

Theorem C14_zero_budget_any_prologue : forall (M W X : Type) (src : nat -> list nat -> fmres) (a : algo),
  (forall n fixed, src n fixed = fm_model a n fixed) ->
  forall upd stop normf normalize pre pre_on post ls_on ls_accept lsf lsw lsx n fixed tol (s : st M W X),
  run_from upd stop normf normalize pre pre_on post ls_on ls_accept lsf lsw lsx (src n fixed) a 0 tol s = Ok s.
Proof. exact @src_zero_budget. Qed.
Print Assumptions C14_zero_budget_any_prologue.

Theorem C14_loop_modes_any_prologue : forall (src : nat -> list nat -> fmres) (a : algo),
  (forall n fixed, src n fixed = fm_model a n fixed) ->
  forall n fixed ml fx, src n fixed = FLoop ml fx -> forall m, In m ml <-> m < n /\ ~ In m fx.
Proof. exact @src_loop_modes. Qed.
Print Assumptions C14_loop_modes_any_prologue.

Theorem C14_all_fixed_any_prologue : forall (src : nat -> list nat -> fmres) (a : algo),
  (forall n fixed, src n fixed = fm_model a n fixed) ->
  forall n fixed, shortcut a = true -> (forall m, m < n -> In m fixed) -> (forall m, In m fixed -> m < n) -> src n fixed = FReturn.
Proof. exact @src_all_fixed_shortcut. Qed.
Print Assumptions C14_all_fixed_any_prologue.

(* HALS-CP start state through the regenerated block in front of the initialiser *)
Theorem C14_hals_init_via_prologue : forall (F : Type) (one : F) (mul : F -> F -> F) (eqb : F -> F -> bool) R n fixed w
  (fs : list (matrix (F := F))),
  let w' := match w with None => ones one R | Some v => v end in
  init_hals one mul eqb R n fixed w fs
  = match hals_pre_model n fixed (negb (all_ones one eqb w')) with
    | Some k => init_cp one mul eqb R None (absorb_at mul k w' fs)
    | None => init_cp one mul eqb R w fs
    end.
Proof. exact @init_hals_via_pre. Qed.
Print Assumptions C14_hals_init_via_prologue.

Example C14_nonvacuous_prologue :
  fm_model Parafac 3 [1; 0; 2; 2] = FReturn /\ fm_model Parafac 3 [0; 2] = FLoop [1; 2] [0] /\
  fm_model NNHals 3 [0; 2] = FLoop [1] [0; 2] /\ fm_model NNHals 2 [1; 0] = FReturn /\
  fm_model Constrained 2 [0; 1; 1] = FLoop [] [0; 1] /\
  hals_pre_model 3 [2; 0] true = Some 1 /\ hals_pre_model 3 [2; 0] false = None /\ hals_pre_model 3 [0] true = None /\
  hals_pre_model 3 [0; 1; 2] true = None /\
  (forall n fixed, fm_expect_parafac n fixed = fm_model Parafac n fixed) /\
  (forall n fixed nonunit, hals_pre_expect n fixed nonunit = hals_pre_model n fixed nonunit).
Proof. repeat split; try (vm_compute; reflexivity). exact fm_expect_parafac_ok. exact hals_pre_expect_ok. Qed.

(* parafac's line search with ANY entrywise candidate formula e jump last cur that maps (x, x) to x (the regenerated formula
   is proved to, by `ring`, on every run): fixed modes survive, for every jump schedule and accept decision *)
Theorem C14_fixed_modes_any_linesearch_formula : forall (F : Type) (e : F -> F -> F -> F), (forall j x, e j x x = x) ->
  forall (W X : Type) upd stop normf pre pre_on post ls_on ls_accept (jump : nat -> st (list (list F)) W X -> F) lsw lsx
  a n fixed budget tol (s s' : st (list (list F)) W X) d m,
  run upd stop normf false pre pre_on post ls_on ls_accept (fun it s => ls_mat_gen e (jump it s)) lsw lsx
      a n fixed budget tol s = Ok s' ->
  In m (eff_fixed a n fixed) -> nth m (facs s') d = nth m (facs s) d.
Proof. exact fixed_modes_ls_gen. Qed.
Print Assumptions C14_fixed_modes_any_linesearch_formula.

(* parafac2's nn_modes gate (commit 29e7702): a user-supplied decomposition is the start state as it is, whatever nn_modes says
   (so C14_parafac2_init_* and the zero-budget statements apply unchanged with nn_modes) ... *)
Theorem C14_parafac2_start_user : forall (F : Type) (one : F) qr rank clip nn (init : p2init F),
  p2_start one qr rank clip false nn init = p2_init one qr rank init.
Proof. exact @p2_start_user. Qed.
Print Assumptions C14_parafac2_start_user.

(* ... and of a built-in initialisation exactly the factors of the modes named by nn_modes are projected *)
Theorem C14_parafac2_start_builtin : forall (F : Type) (one : F) qr rank clip ms (init : p2init F) s,
  p2_start one qr rank clip true (Some ms) init = Ok s ->
  exists s0, p2_init one qr rank init = Ok s0 /\ p2w s = p2w s0 /\ p2P s = p2P s0 /\ length (p2f s) = length (p2f s0) /\
    forall k d, k < length (p2f s0) -> nth k (p2f s) d = if memb k ms then clip (nth k (p2f s0) d) else nth k (p2f s0) d.
Proof. exact @p2_start_builtin. Qed.
Print Assumptions C14_parafac2_start_builtin.

Example C14_nonvacuous_parafac2_start :
  let init := FromP2 (Some [2; -3]%Z) [[[1; -1]]; [[-1; 2]; [3; -4]]; [[1; -2]]]%Z [[[1; 0]; [0; 1]]%Z] in
  let clip := map (map (Z.max 0)) in
  p2_start 1%Z (fun B => (B, B)) 2 clip false (Some [0; 2]) init = p2_init 1%Z (fun B => (B, B)) 2 init /\
  p2_start 1%Z (fun B => (B, B)) 2 clip true (Some [0; 2]) init
    = Ok (mkp2 [2; -3]%Z [[[1; 0]]; [[-1; 2]; [3; -4]]; [[1; 0]]]%Z [[[1; 0]; [0; 1]]%Z]).
Proof. vm_compute. split; reflexivity. Qed.

(* ---- request lists as the caller writes them (integers): entries outside range(ndim), negative ones included, name no mode.
   A valid request is accepted by every driver and is the list itself ... *)
Theorem C14_request_valid : forall a n (fixed : list Z), forallb (names_mode n) fixed = true -> request a n fixed = Ok (map Z.to_nat fixed).
Proof. exact request_valid. Qed.
Print Assumptions C14_request_valid.

(* ... the drivers that do not index a list with the entries accept every request ... *)
Theorem C14_request_never_raises : forall a n (fixed : list Z), indexes_list a = false -> request a n fixed = Ok (map (as_mode n) fixed).
Proof. exact request_never_raises. Qed.
Print Assumptions C14_request_never_raises.

(* ... an entry that names no mode is ignored (same update list as without it; any driver, any position, any multiplicity) ... *)
Theorem C14_nonmode_entries_ignored : forall a n fixed, modes_list a n fixed = modes_list a n (filter (fun x => Nat.ltb x n) fixed).
Proof. exact modes_list_ignores_nonmodes. Qed.
Print Assumptions C14_nonmode_entries_ignored.

Theorem C14_nonmode_entry_disables_shortcut : forall fixed n x, In x fixed -> n <= x -> names_every_mode fixed n = false.
Proof. exact shortcut_needs_modes_only. Qed.
Print Assumptions C14_nonmode_entry_disables_shortcut.

Theorem C14_request_entry_names_no_mode : forall n z, names_mode n z = false -> n <= as_mode n z.
Proof. exact as_mode_no_mode. Qed.
Print Assumptions C14_request_entry_names_no_mode.

(* ... hence a NEGATIVE index does not fix the mode it denotes in Python's convention (genuine defect, known finding
   fixed_modes_negative_index_ignored): fixed_modes=[-1] of non_negative_parafac_hals and [-2] of parafac leave that mode in the update list *)
Theorem C14_negative_index_refuted :
  request NNHals 3 [(-1)%Z] = Ok [4] /\ In (py_index 3 (-1)%Z) (modes_list NNHals 3 [4]) /\
  request Parafac 3 [(-2)%Z] = Ok [5] /\ In (py_index 3 (-2)%Z) (modes_list Parafac 3 [5]).
Proof. exact negative_index_counterexample. Qed.
Print Assumptions C14_negative_index_refuted.

Example C14_nonvacuous_request :
  request Parafac 3 [0; 5; -1]%Z = Ok [0; 5; 4] /\ request NNHals 3 [0; 5]%Z = Err /\ request NNHals 3 [0; -3]%Z = Ok [0; 6] /\
  request NTDHals 3 [-4]%Z = Err /\ modes_list Parafac 3 [0; 5; 4] = [1; 2] /\ modes_list NNHals 3 [0; 6] = [1; 2] /\
  forallb (names_mode 3) [2; 0]%Z = true /\ request NNHals 3 [2; 0]%Z = Ok [2; 0].
Proof. vm_compute. repeat split. Qed.

(* ---- normalize_factors=True with fixed modes.  cp_normalize / tucker_normalize rescale EVERY factor, so a fixed factor is not
   returned bit-identical (C14_fixed_modes_normalize_refuted; known findings normalize_factors_rescales_fixed_factor).  What does
   hold, for every normalisation setting: any preorder Rel that the normalisation respects factor by factor relates the supplied
   factor of a fixed mode to the returned one -- every driver, update rule, hook, decision sequence and budget ... *)
Theorem C14_fixed_modes_any_preorder : forall (M W X : Type) upd stop (normf : st M W X -> st M W X) normalize pre pre_on post ls_on ls_accept
  lsf lsw lsx (d : M) (Rel : M -> M -> Prop),
  (forall x, Rel x x) -> (forall x y z, Rel x y -> Rel y z -> Rel x z) ->
  (forall s m, Rel (nth m (facs s) d) (nth m (facs (normf s)) d)) -> (forall s, length (facs (normf s)) = length (facs s)) ->
  forall a n fixed budget tol (s s' : st M W X) m, (has_hooks a = true -> forall it s x, lsf it s x x = x) ->
  run upd stop normf normalize pre pre_on post ls_on ls_accept lsf lsw lsx a n fixed budget tol s = Ok s' ->
  In m (eff_fixed a n fixed) -> Rel (nth m (facs s) d) (nth m (facs s') d).
Proof. exact @run_fixed_rel. Qed.
Print Assumptions C14_fixed_modes_any_preorder.

(* ... in particular, when the normalisation rescales columns (what cp_normalize / tucker_normalize do), the factor of a fixed mode is
   returned as the supplied one up to finitely many column rescalings: its column directions are fixed *)
Theorem C14_fixed_modes_normalized : forall (F : Type) (mul : F -> F -> F) (W X : Type) upd stop
  (normf : st (list (list F)) W X -> st (list (list F)) W X) normalize pre pre_on post ls_on ls_accept lsf lsw lsx
  a n fixed budget tol (s s' : st (list (list F)) W X) m,
  (forall s m, exists c, nth m (facs (normf s)) [] = scale_cols mul (nth m (facs s) []) c) ->
  (forall s, length (facs (normf s)) = length (facs s)) ->
  (has_hooks a = true -> forall it s x, lsf it s x x = x) ->
  run upd stop normf normalize pre pre_on post ls_on ls_accept lsf lsw lsx a n fixed budget tol s = Ok s' ->
  In m (eff_fixed a n fixed) -> rescaled mul (nth m (facs s) []) (nth m (facs s') []).
Proof. exact fixed_modes_normalized. Qed.
Print Assumptions C14_fixed_modes_normalized.

Example C14_nonvacuous_normalized :
  let normf := fun s : st (list (list nat)) unit unit => mkst (wts s) (map (fun A => scale_cols Nat.mul A [2; 2]) (facs s)) (aux s) in
  (forall s m, exists c, nth m (facs (normf s)) [] = scale_cols Nat.mul (nth m (facs s) []) c) /\
  (forall s, length (facs (normf s)) = length (facs s)) /\
  run (fun _ _ s => ([[7; 7]], tt)) (fun _ _ => false) normf true (fun _ _ _ => []) (fun _ => false) (fun _ _ => tt) (fun _ => false)
      (fun _ _ _ => false) (fun _ _ l c => c) (fun _ _ l c => c) (fun _ _ _ => tt) Parafac 2 [0] 1 true (mkst tt [[[1; 3]]; [[5; 5]]] tt)
  = Ok (mkst tt [[[2; 6]]; [[14; 14]]] tt).
Proof.
  split; [|split; [intros s; cbn [facs]; apply map_length | vm_compute; reflexivity]].
  intros s m. exists [2; 2]. cbn [facs].
  change (@nil (list nat)) with ((fun A => scale_cols Nat.mul A [2; 2]) []) at 1. apply map_nth.
Qed.

(* parafac2 start state for the three kinds of initialisation (user-supplied / built-in random / built-in svd): a user-supplied
   decomposition, or any initialisation without nn_modes, is the initialiser's answer unchanged; init="random" projects the factors of
   the modes in nn_modes; init="svd" additionally recomputes the projections from the projected factors *)
Theorem C14_parafac2_start_kind_user : forall (F : Type) (one : F) qr rank clip proj nn (init : p2init F),
  p2_start_kind one qr rank clip proj UserInit nn init = p2_init one qr rank init.
Proof. exact @p2_start_kind_user. Qed.
Print Assumptions C14_parafac2_start_kind_user.

Theorem C14_parafac2_start_kind_no_nn : forall (F : Type) (one : F) qr rank clip proj kind (init : p2init F),
  p2_start_kind one qr rank clip proj kind None init = p2_init one qr rank init.
Proof. exact @p2_start_kind_no_nn. Qed.
Print Assumptions C14_parafac2_start_kind_no_nn.

Theorem C14_parafac2_start_kind_random : forall (F : Type) (one : F) qr rank clip proj ms (init : p2init F),
  p2_start_kind one qr rank clip proj BuiltinRandom (Some ms) init = p2_start one qr rank clip true (Some ms) init.
Proof. exact @p2_start_kind_random. Qed.
Print Assumptions C14_parafac2_start_kind_random.

Theorem C14_parafac2_start_kind_svd : forall (F : Type) (one : F) qr rank clip proj ms (init : p2init F) s,
  p2_start_kind one qr rank clip proj BuiltinSvd (Some ms) init = Ok s ->
  exists s0, p2_init one qr rank init = Ok s0 /\ p2w s = p2w s0 /\ p2f s = clip_modes clip ms 0 (p2f s0) /\ p2P s = proj (p2f s).
Proof. exact @p2_start_kind_svd. Qed.
Print Assumptions C14_parafac2_start_kind_svd.

(* ---- the block of non_negative_parafac_hals in front of initialize_cp, semantically: for ANY function pre that sends non-unit
   weights into an UPDATED mode and leaves them to initialize_cp only when the last mode is free, the weights are unit or nothing is
   updated (hals_pre_ok; the regenerated block is proved to be one on every run, and so is the model's), the start state represents the
   supplied tensor and every fixed mode -- the last included -- is returned as supplied *)
Theorem C14_hals_block_represents : forall (F : Type) (rO rI : F) (radd rmul rsub : F -> F -> F) (ropp : F -> F),
  ring_theory rO rI radd rmul rsub ropp (@eq F) ->
  forall (eqb : F -> F -> bool), (forall x y, eqb x y = true <-> x = y) ->
  forall pre, hals_pre_ok pre ->
  forall R n fixed (w : list F) (fs : list (matrix (F := F))) idx, fs <> [] -> length w = R -> n = length fs ->
  cp_entry rO rI radd rmul R (fst (init_hals_gen rI rmul eqb pre R n fixed (Some w) fs)) (snd (init_hals_gen rI rmul eqb pre R n fixed (Some w) fs)) idx
  = cp_entry rO rI radd rmul R w fs idx.
Proof. exact @init_hals_gen_represents. Qed.
Print Assumptions C14_hals_block_represents.

Theorem C14_hals_block_fixed_end_to_end : forall (F : Type) (rI : F) (rmul : F -> F -> F) (eqb : F -> F -> bool) pre, hals_pre_ok pre ->
  forall (X : Type) upd stop normf prehook pre_on post ls_on ls_accept lsf lsw lsx n fixed budget tol R (w : option (list F))
    (fs : list (matrix (F := F))) (x : X) s' m d,
  (forall x y, eqb x y = true <-> x = y) ->
  run upd stop normf false prehook pre_on post ls_on ls_accept lsf lsw lsx NNHals n fixed budget tol (start x (init_hals_gen rI rmul eqb pre R n fixed w fs)) = Ok s' ->
  n = length fs -> In m fixed -> m < n ->
  (modes_list NNHals n fixed <> [] \/ all_ones rI eqb (match w with None => ones rI R | Some v => v end) = true) ->
  nth m (facs s') d = nth m fs d.
Proof. exact hals_gen_fixed_end_to_end. Qed.
Print Assumptions C14_hals_block_fixed_end_to_end.

Theorem C14_hals_model_block_admissible : hals_pre_ok hals_pre_model /\
  forall (F : Type) (rI : F) (rmul : F -> F -> F) (eqb : F -> F -> bool) R n fixed w (fs : list (matrix (F := F))),
  init_hals rI rmul eqb R n fixed w fs = init_hals_gen rI rmul eqb hals_pre_model R n fixed w fs.
Proof. exact (conj hals_pre_model_ok (@init_hals_is_gen)). Qed.
Print Assumptions C14_hals_model_block_admissible.

(* ---- round 7: source tie of tucker(fixed_factors=...) and of the head of parafac2's main loop.  The `if fixed_factors:` branch of tucker
   and the statements in front of parafac2's projection step are regenerated from the tensorly source on every run (tucker_src,
   p2_head_src) and proved to agree with the model for all inputs (tucker_agrees, p2_head_agrees); the statements below hold for ANY
   function that agrees, hence for the code's own. *)
Theorem C14_tucker_any_source_fixed_factors : forall (F : Type) (zero : F) (add mul : F -> F -> F) (tk : tucker_ty (F := F)),
  tucker_agrees zero add mul tk ->
  forall (pt : tensor F -> list nat -> list (matrix (F := F)) -> tensor F * list (matrix (F := F)))
    (core : tensor F) (fs : list (matrix (F := F))) (fixed : list nat),
  fixed <> [] -> NoDup fixed -> (forall e, In e fixed -> e < length fs) ->
  (forall c modes free, length (snd (pt c modes free)) = length free) ->
  exists c out, tk core fs fixed pt = Ok (c, out) /\ length out = length fs /\
    forall e d, In e fixed -> nth e out d = nth e fs d.
Proof. exact @src_tucker_keeps_factors. Qed.
Print Assumptions C14_tucker_any_source_fixed_factors.

Theorem C14_tucker_any_source_all_fixed : forall (F : Type) (zero : F) (add mul : F -> F -> F) (tk : tucker_ty (F := F)),
  tucker_agrees zero add mul tk ->
  forall pt (core : tensor F) (fs : list (matrix (F := F))) (fixed : list nat),
  fixed <> [] -> (forall i, i < length fs -> In i fixed) -> tk core fs fixed pt = Ok (core, fs).
Proof. exact @src_tucker_all_fixed. Qed.
Print Assumptions C14_tucker_any_source_all_fixed.

Theorem C14_tucker_any_source_zero_budget_partial : forall (F : Type) (rO rI : F) (radd rmul rsub : F -> F -> F) (ropp : F -> F),
  ring_theory rO rI radd rmul rsub ropp (@eq F) ->
  forall (tk : tucker_ty (F := F)), tucker_agrees rO radd rmul tk ->
  forall (core : tensor F) (fs : list (matrix (F := F))) (fixed : list nat),
  fixed <> [] -> NoDup fixed -> (forall e, In e fixed -> e < length fs) ->
  wf core -> length (shape core) = length fs ->
  (forall e, In e fixed -> ncols (nth e fs []) = nth e (shape core) 0 /\
                           orthonormal_cols rO rI radd rmul (ncols (nth e fs [])) (nth e fs [])) ->
  tk core fs fixed (pt_zero (F := F)) = Ok (core, fs).
Proof. exact src_tucker_zero_budget. Qed.
Print Assumptions C14_tucker_any_source_zero_budget_partial.

(* the translation of today's source agrees with the model, and so does the same branch with the core re-extracted before the fixed
   factors are re-inserted (a harmless re-ordering); the branch without `sorted` does not *)
Theorem C14_tucker_translation_agrees : forall (F : Type) (zero : F) (add mul : F -> F -> F),
  tucker_agrees zero add mul (tucker_expect zero add mul) /\ tucker_agrees zero add mul (tucker_expect_reordered zero add mul).
Proof. exact (fun F zero add mul => conj (tucker_expect_ok F zero add mul) (tucker_expect_reordered_ok F zero add mul)). Qed.
Print Assumptions C14_tucker_translation_agrees.

Theorem C14_tucker_unsorted_foil : ~ tucker_agrees 0%Z Z.add Z.mul (tucker_unsorted 0%Z Z.add Z.mul).
Proof. exact tucker_unsorted_differs. Qed.
Print Assumptions C14_tucker_unsorted_foil.

Example C14_tucker_any_source_nonvacuous :
  tucker_expect 0%Z Z.add Z.mul (mk [1; 1; 1] [2%Z]) [[[1%Z]]; [[5%Z]]; [[1%Z]]] [2; 0] (fun c _ fr => (c, map (map (map (Z.add 1%Z))) fr))
  = Ok (mk [1; 1; 1] [2%Z], [[[1%Z]]; [[6%Z]]; [[1%Z]]]).
Proof. vm_compute. reflexivity. Qed.

(* parafac2: a loop whose head agrees with the model's (weights into factor 1, weights reset, in this order and unconditionally) gives the
   same iterates from (w; A, B, C; P) and from (ones; A, B diag(w), C; P), for every update, stopping rule and positive budget; with a zero
   budget it returns the (normalised iff normalize_factors) initialisation *)
Theorem C14_parafac2_any_head_same_iterates : forall (F : Type) (rO rI : F) (radd rmul rsub : F -> F -> F) (ropp : F -> F),
  ring_theory rO rI radd rmul rsub ropp (@eq F) ->
  forall (PT : Type) upd stop normf normalize hd (R : nat) (w : list F) (fs : list (matrix (F := F))) (P : PT) (budget : nat),
  p2_head_agrees rI rmul hd R -> normalize = false -> length w = R -> (forall row, In row (nth 1 fs []) -> R <= length row) -> 0 < budget ->
  p2_run_hd upd stop normf normalize hd R budget (mkp2 (ones rI R) (absorb_at rmul 1 w fs) P)
  = p2_run_hd upd stop normf normalize hd R budget (mkp2 w fs P).
Proof. exact src_p2_run_same_iterates. Qed.
Print Assumptions C14_parafac2_any_head_same_iterates.

Theorem C14_parafac2_any_head_zero_budget : forall (F : Type) (PT : Type) upd stop normf normalize hd (R : nat) (s : p2st F PT),
  p2_run_hd upd stop normf normalize hd R 0 s = if normalize then normf s else s.
Proof. exact @src_p2_run_zero_budget. Qed.
Print Assumptions C14_parafac2_any_head_zero_budget.

Theorem C14_parafac2_head_translation_agrees : forall (F : Type) (one : F) (mul : F -> F -> F) R,
  p2_head_agrees one mul (p2_head_model one mul R) R /\ p2_head_agrees one mul (p2_head_expect one mul) R.
Proof. exact (fun F one mul R => conj (p2_head_model_agrees one mul R) (p2_head_expect_ok F one mul R)). Qed.
Print Assumptions C14_parafac2_head_translation_agrees.

(* a head that absorbs the weights only `if normalize_factors:` is not one: with normalize_factors=False the two forms of an initialisation
   with the weight 2 give different iterates after one sweep (the weights are counted twice) *)
Theorem C14_parafac2_guarded_head_foil :
  let upd := fun (_ : nat) (s : p2st Z unit) => (p2f s, p2P s) in
  p2_run_hd upd (fun _ _ => false) (fun s => s) false (p2_head_guarded false) 1 1 (mkp2 [1%Z] (absorb_at Z.mul 1 [2%Z] [[[1%Z]]; [[1%Z]]; [[1%Z]]]) tt)
  <> p2_run_hd upd (fun _ _ => false) (fun s => s) false (p2_head_guarded false) 1 1 (mkp2 [2%Z] [[[1%Z]]; [[1%Z]]; [[1%Z]]] tt)
  /\ ~ p2_head_agrees 1%Z Z.mul (p2_head_guarded false) 1.
Proof. exact p2_head_guarded_differs. Qed.
Print Assumptions C14_parafac2_guarded_head_foil.

(* the gate in front of tucker's fixed-factor branch since commit 1ad6e15 (`fixed_factors = list(fixed_factors)` before `if fixed_factors:`):
   for EVERY container of the request (list, tuple, ndarray) and None, the branch is entered iff the request has at least one entry; the
   regenerated gate of the source is proved equal to tucker_gate on every run *)
Theorem C14_tucker_request_any_iterable : forall (c : container) (req : option (list Z)),
  tucker_gate c req = Ok (match req with Some (_ :: _) => true | _ => false end).
Proof. exact tucker_gate_any_iterable. Qed.
Print Assumptions C14_tucker_request_any_iterable.

Theorem C14_tucker_request_enters_iff_nonempty : forall (c : container) (l : list Z), tucker_gate c (Some l) = Ok true <-> l <> [].
Proof. exact tucker_gate_enters. Qed.
Print Assumptions C14_tucker_request_enters_iff_nonempty.

Theorem C14_tucker_request_container_free : forall (c c' : container) (req : option (list Z)), tucker_gate c req = tucker_gate c' req.
Proof. exact tucker_gate_container_free. Qed.
Print Assumptions C14_tucker_request_container_free.

(* before_1ad6e15: the gate took the truth value of the request as passed -- array([0]) was false (request ignored), a longer ndarray had no
   truth value (ValueError); repaired by commit 1ad6e15 (found by this check as tucker_fixed_factors_ndarray_request) *)
Example C14_tucker_request_before_1ad6e15 :
  tucker_gate_before_1ad6e15 CArray (Some [0%Z]) = Ok false /\ tucker_gate_before_1ad6e15 CList (Some [0%Z]) = Ok true /\
  tucker_gate_before_1ad6e15 CArray (Some [0%Z; 1%Z]) = Err /\
  tucker_gate CArray (Some [0%Z]) = Ok true /\ tucker_gate CArray (Some [0%Z; 1%Z]) = Ok true /\ tucker_gate CArray (Some []) = Ok false /\ tucker_gate CTuple None = Ok false.
Proof. exact gate_before_1ad6e15_witness. Qed.

(* ---- the estimator classes as argument routers (Proofs/WarmStartCls.v): the tables store (attribute |-> constructor parameter) and pass
   (driver keyword |-> attribute) of CP, CP_NN, CP_NN_HALS, ConstrainedCP, Tucker, Tucker_NN, Tucker_NN_HALS and Parafac2 are regenerated
   from the source on every run and routes_ok is checked on them; then the driver receives under every keyword the caller's own
   constructor argument, and a driver that reads only such keywords computes what the direct function call computes *)
Theorem C14_class_routes : forall (V : Type) (need : list string) (store pass : table), routes_ok need store pass = true ->
  forall (ar : string -> V) (k : string), (In k need \/ lookup k pass <> None) -> kw_of store pass ar k = Some (ar k).
Proof. exact @class_routes. Qed.
Print Assumptions C14_class_routes.

Theorem C14_class_is_function_call : forall (V Out : Type) (drv : (string -> option V) -> Out) (reads need : list string) (store pass : table),
  routes_ok need store pass = true ->
  (forall k, In k reads -> In k need \/ lookup k pass <> None) ->
  (forall f g, (forall k, In k reads -> f k = g k) -> drv f = drv g) ->
  forall ar : string -> V, drv (kw_of store pass ar) = drv (direct ar).
Proof. exact @class_is_function_call. Qed.
Print Assumptions C14_class_is_function_call.

Theorem C14_class_misrouted_foil :
  routes_ok ["init"%string] [("init", "init"); ("fixed_modes", "init")]%string [("init", "init"); ("fixed_modes", "fixed_modes")]%string = false /\
  routes_ok ["init"; "fixed_modes"]%string cp_store_expect [("init", "init")]%string = false.
Proof. exact cp_misrouted_rejected. Qed.
Print Assumptions C14_class_misrouted_foil.

Example C14_class_routes_nonvacuous :
  routes_ok ["init"; "n_iter_max"; "fixed_modes"; "normalize_factors"]%string cp_store_expect cp_pass_expect = true /\
  kw_of cp_store_expect cp_pass_expect (fun p => if String.eqb p "fixed_modes" then 7 else 0) "fixed_modes"%string = Some 7.
Proof. vm_compute. split; reflexivity. Qed.

(* ---- the start state of partial_tucker / non_negative_tucker / non_negative_tucker_hals (Proofs/WarmStartSrc2.v, TuckerDrivers): the
   user-init branch of initialize_tucker and each driver's code between its initialize_tucker call and its main loop are regenerated from
   the source (tucker_init_src, tkd_start_src_<driver>) and proved to agree with tucker_init / tkd_start on every run; for ANY start
   function that agrees, with any sweep and stopping rule: *)
Theorem C14_tucker_driver_any_source_zero_budget : forall (F : Type) st (nn un : bool), tkd_start_agrees (F := F) st nn un ->
  forall normalize fabs normf sweep stop core fs,
  tkd_run_from st normalize fabs normf sweep stop 0 core fs = tkd_start nn (un && normalize) fabs normf core fs.
Proof. exact @src_tkd_zero_budget. Qed.
Print Assumptions C14_tucker_driver_any_source_zero_budget.

(* partial_tucker (no non-negativity, no normalisation in front of the loop): zero budget returns exactly the supplied (core, factors) *)
Theorem C14_partial_tucker_any_source_zero_budget : forall (F : Type) st, tkd_start_agrees (F := F) st false false ->
  forall normalize fabs normf sweep stop core fs, tkd_run_from st normalize fabs normf sweep stop 0 core fs = (core, fs).
Proof. exact @src_tkd_plain_zero_budget. Qed.
Print Assumptions C14_partial_tucker_any_source_zero_budget.

(* the non-negative variants, default normalisation, on an entrywise non-negative initialisation (named hypothesis fabs x = x; a signed one is
   replaced by its absolute value: known finding, C14_ntd_init_refuted) *)
Theorem C14_ntd_any_source_zero_budget_partial : forall (F : Type) st (un : bool), tkd_start_agrees (F := F) st true un ->
  forall fabs normf sweep stop core fs,
  (forall x, In x (data core) -> fabs x = x) ->
  (forall A, In A fs -> forall row, In row A -> forall x, In x row -> fabs x = x) ->
  tkd_run_from st false fabs normf sweep stop 0 core fs = (core, fs).
Proof. exact @src_tkd_nonneg_zero_budget. Qed.
Print Assumptions C14_ntd_any_source_zero_budget_partial.

Theorem C14_tucker_init_translation_agrees : forall F : Type,
  (forall nn (fabs : F -> F) core fs, tucker_init_expect nn fabs core fs = tucker_init nn fabs core fs) /\
  tkd_start_agrees (tkd_start_expect_nn (F := F)) true true.
Proof. exact (fun F => conj (tucker_init_expect_ok F) (tkd_start_expect_nn_ok F)). Qed.
Print Assumptions C14_tucker_init_translation_agrees.

(* ---- round 8 (Proofs/WarmStartSrc3.v).  (a) The tie of tucker's fixed-factor branch is semantic in the conditions of its two
   comprehensions: `pick` (the comprehension over enumerate(factors)) evaluates its condition only at the positions of the list, and on
   those positions `i in modes_fixed` is `i in fixed_factors`; a branch that selects the free modes by `i not in modes_fixed`, or the fixed
   ones by `i not in modes`, IS the model (tk_tie2 proves it for the term regenerated from the source on every run). *)
Theorem C14_pick_condition_ext : forall (M : Type) (k1 k2 : nat -> bool) (fs : list M) (off : nat),
  (forall i, off <= i < off + length fs -> k1 i = k2 i) -> pick k1 off fs = pick k2 off fs.
Proof. exact @pick_ext. Qed.
Print Assumptions C14_pick_condition_ext.

Theorem C14_picked_positions : forall (M : Type) (k : nat -> bool) (fs : list M) (off i : nat),
  In i (map fst (pick k off fs)) <-> (off <= i < off + length fs /\ k i = true).
Proof. exact @pick_fst_In. Qed.
Print Assumptions C14_picked_positions.

Theorem C14_tucker_branch_by_mode_lists_agrees : forall (F : Type) (zero : F) (add mul : F -> F -> F),
  tucker_agrees zero add mul (tucker_expect_by_modes zero add mul) /\ tucker_agrees zero add mul (tucker_expect_by_free zero add mul).
Proof. exact (fun F zero add mul => conj (tucker_expect_by_modes_ok F zero add mul) (tucker_expect_by_free_ok F zero add mul)). Qed.
Print Assumptions C14_tucker_branch_by_mode_lists_agrees.

(* (b) partial_tucker's main loop is modelled (pt_sweep / pt_iterate / partial_tucker_model): the update of a factor, the core update, the
   mask imputation, the error bookkeeping and the stopping rule are arbitrary functions of the whole state; the loop writes position
   index = 0, 1, ... of the list it was handed, once per entry of `modes`, and nothing else.  The sweep's write position is regenerated from
   the source on every run (pt_sweep_src_ok). *)
Theorem C14_partial_tucker_sweep_writes : forall (F X : Type) (upd : nat -> nat -> nat -> pts F X -> matrix (F := F)) (it : nat) (d : matrix (F := F))
  (modes : list nat) (index : nat) (s : pts F X),
  length (ptf (pt_sweep upd it index modes s)) = length (ptf s) /\
  forall j, (j < index \/ index + length modes <= j) -> nth j (ptf (pt_sweep upd it index modes s)) d = nth j (ptf s) d.
Proof. exact (fun F X upd it d modes index s => conj (pt_sweep_length upd it modes index s) (pt_sweep_other upd it d modes index s)). Qed.
Print Assumptions C14_partial_tucker_sweep_writes.

Theorem C14_partial_tucker_model_shape : forall (F X : Type) pre upd corefn post stop (x0 : tensor F -> list nat -> list (matrix (F := F)) -> X)
  (budget : nat) (c : tensor F) (modes : list nat) (free : list (matrix (F := F))),
  length (snd (partial_tucker_model pre upd corefn post stop x0 budget c modes free)) = length free /\
  partial_tucker_model pre upd corefn post stop x0 0 c modes free = (c, free) /\
  forall j d, length modes <= j ->
    nth j (snd (partial_tucker_model pre upd corefn post stop x0 budget c modes free)) d = nth j free d.
Proof.
  exact (fun F X pre upd corefn post stop x0 budget c modes free =>
    conj (partial_tucker_model_length pre upd corefn post stop x0 budget c modes free)
      (conj (partial_tucker_model_zero_budget pre upd corefn post stop x0 c modes free)
        (fun j d H => pt_iterate_other pre upd corefn post stop modes d j H budget 0 (mkpts c free (x0 c modes free))))).
Qed.
Print Assumptions C14_partial_tucker_model_shape.

(* tucker(fixed_factors=...) around the MODELLED partial_tucker: no hypothesis on the inner routine is left.  For every branch function that
   agrees with the model (the regenerated one: tucker_hoi_fixed_src), every HOI update rule, core update, mask imputation, stopping rule and
   budget, the factors of the fixed modes come back Leibniz-equal to the supplied ones *)
Theorem C14_tucker_hoi_keeps_fixed : forall (F X : Type) (zero : F) (add mul : F -> F -> F) pre upd corefn post stop
  (x0 : tensor F -> list nat -> list (matrix (F := F)) -> X) (tk : tucker_ty (F := F)) (budget : nat) (core : tensor F)
  (fs : list (matrix (F := F))) (fixed : list nat),
  tucker_agrees zero add mul tk -> fixed <> [] -> NoDup fixed -> (forall e, In e fixed -> e < length fs) ->
  exists c out, tk core fs fixed (partial_tucker_model pre upd corefn post stop x0 budget) = Ok (c, out) /\ length out = length fs /\
    forall e d, In e fixed -> nth e out d = nth e fs d.
Proof. exact @tucker_hoi_keeps_fixed. Qed.
Print Assumptions C14_tucker_hoi_keeps_fixed.

Theorem C14_partial_tucker_sweep_translation_agrees : forall (F X : Type) upd it modes (s : pts F X),
  pt_sweep_expect upd it modes s = pt_sweep upd it 0 modes s.
Proof. exact pt_sweep_expect_ok. Qed.
Print Assumptions C14_partial_tucker_sweep_translation_agrees.

Theorem C14_partial_tucker_write_at_mode_foil :
  ~ (forall upd it modes (s : pts Z unit), pt_sweep_at_mode upd it modes s = pt_sweep upd it 0 modes s).
Proof. exact pt_sweep_at_mode_differs. Qed.
Print Assumptions C14_partial_tucker_write_at_mode_foil.

Example C14_tucker_hoi_nonvacuous :
  tucker_fixed 0%Z Z.add Z.mul (mk [1; 1] [1%Z]) [[[1%Z]]; [[5%Z]]] [0]
    (partial_tucker_model (X := unit) (fun _ _ => tt) (fun _ _ _ _ => [[9%Z]]) (fun _ _ s => mk [1; 1] (map (Z.mul 2) (data (ptc s))))
       (fun _ _ => tt) (fun _ _ => false) (fun _ _ _ => tt) 2)
  = Ok (mk [1; 1] [4%Z], [[[1%Z]]; [[9%Z]]]).
Proof. exact tucker_hoi_example. Qed.

(* ---- interrupted runs (Proofs/WarmStartSrc3.v, Section Interrupted): the state a driver is in when it is aborted in mid-sweep -- after any
   number of complete iterations, the orthogonalise hook of the current iteration and the updates of any PREFIX (any sub-list) of the mode
   list -- still holds the initial factor at every fixed mode: C14_fixed_modes at every moment of the run.  The harness observes exactly this
   state (predicate C14_fixed_modes_interrupted: an exception injected into the k-th call of a routine the sweep uses; the driver's factor
   list read from its frame). *)
Theorem C14_fixed_modes_interrupted : forall (M W X : Type) upd stop normf pre pre_on post ls_on ls_accept lsf lsw lsx
  (a : algo) (n : nat) (fixed : list nat) (d : M) (m : nat),
  (has_hooks a = true -> forall it (s : st M W X) x, lsf it s x x = x) ->
  In m (eff_fixed a n fixed) ->
  forall (done_ it : nat) (l : list nat) (s : st M W X), (forall x, In x l -> In x (modes_list a n fixed)) ->
  nth m (facs (interrupted_state upd stop normf pre pre_on post ls_on ls_accept lsf lsw lsx a
                 (fun i => negb (memb i (eff_fixed a n fixed))) (modes_list a n fixed) done_ it l s)) d = nth m (facs s) d.
Proof. exact @run_interrupted_fixed. Qed.
Print Assumptions C14_fixed_modes_interrupted.

Example C14_fixed_modes_interrupted_nonvacuous :
  facs (interrupted_state (fun it m (s : st (list nat) unit unit) => (nth m (facs s) [] ++ [it], tt)) (fun _ _ => false) (fun s => s)
          (fun _ _ _ => []) (fun _ => false) (fun _ _ => tt) (fun _ => false) (fun _ _ _ => false) (fun _ _ l c => c) (fun _ _ l c => c) (fun _ _ _ => tt)
          Parafac (fun i => negb (memb i [0])) (modes_list Parafac 3 [0]) 1 1 [1] (mkst tt [[]; []; []] tt))
  = [[]; [0; 1]; [0]].
Proof. exact interrupted_example. Qed.
