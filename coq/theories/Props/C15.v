(* C15 -- property theorems only.  Statements are about the effect language and the aliasing skeletons of
   Model/Effects.v: a program accepted by the static check `safe` leaves every object of the caller's heap
   untouched, for ALL initial heaps and ALL argument tuples (any aliasing between arguments included).
   Round 5 (end of file): the remaining documented in-place parameters, sequences of calls, estimator classes,
   the interruption points used by the correspondence, monotonicity of the static check in the protection, caught
   exceptions (try / except), and CPTensor.normalize(inplace=False) after fix 9ada0b3 (old rule as a labelled Example).
   Round 7 (end of file; Model/EffectsR7.v): non_negative_tucker (in-place multiplicative updates on the tl.abs copies of a user init) and
   monotonicity_prox / unimodality_prox (index_update into a copy taken before the flip / reshape views), generic in every size, with the
   seeded-defect FAMILIES `by reference instead of tl.abs` / `a view instead of a copy` and their visibility conditions; try statements inside
   callees and loops (xcmd, any oracle) with the instance non_negative_tucker_hals(algorithm="active_set"); the Tucker_NN estimator class.
   Round 8 (end of file; Model/EffectsR8.v): STRUCTURED exceptions with arbitrary nesting (ycmd: a try statement inside a try body, a handler,
   a callee, a loop; handlers that raise; exceptions that reach the caller) with the instances initialize_cp seen from parafac /
   non_negative_parafac_hals for every order; non_negative_tucker_hals (fista) and the Tucker_NN_HALS class for every order. *)
From Coq Require Import List Arith ZArith Bool.
From TLV Require Import Model.Effects Proofs.EffectsProofs Proofs.EffectsProofsSk Proofs.EffectsProofsGen Proofs.EffectsProofsPaths Proofs.EffectsProofsReach Proofs.EffectsProofsR5 Proofs.EffectsProofsMono Proofs.EffectsProofsTry Model.EffectsR7 Proofs.EffectsProofsR7 Proofs.EffectsProofsR7Try Model.EffectsR8 Proofs.EffectsProofsR8 Corr.C15.
Import ListNotations.

(* the frame theorem *)
Theorem C15_frame : forall (c : cmd) (args : list ref) (h0 : heap),
  safe (length args) c = true ->
  forall o, o < length h0 -> nth_error (snd (exec c (env0 args, h0))) o = nth_error h0 o.
Proof. exact frame. Qed.
Print Assumptions C15_frame.

Theorem C15_frame_reachable : forall (c : cmd) (args : list ref) (h0 : heap),
  safe (length args) c = true ->
  forall o, reach h0 args o -> o < length h0 ->
  nth_error (snd (exec c (env0 args, h0))) o = nth_error h0 o.
Proof. exact frame_reachable. Qed.
Print Assumptions C15_frame_reachable.

Theorem C15_frame_footprint : forall (c : cmd) (args : list ref) (h0 : heap),
  safe (length args) c = true -> footprint c args h0 = [].
Proof. exact frame_footprint. Qed.
Print Assumptions C15_frame_footprint.

(* documented in-place parameters: only what is reachable from them may change *)
Theorem C15_frame_inplace : forall (c : cmd) (args : list (ref * bool)) (h0 : heap),
  safe_with (map snd args) c = true ->
  closed_heap h0 -> closed_args h0 (inplace_roots args) ->
  forall o, o < length h0 -> ~ reach h0 (inplace_roots args) o ->
  nth_error (snd (exec c (env0 (map fst args), h0))) o = nth_error h0 o.
Proof. exact frame_inplace. Qed.
Print Assumptions C15_frame_inplace.

(* the abstract interpretation behind `safe` simulates the concrete semantics (heap invariant) *)
Theorem C15_simulation : forall (h0 : heap) (U : nat -> Prop), (forall o, U o -> o < length h0) ->
  forall c e h ae ah ae' ah',
  aexec c (ae, ah) = Some (ae', ah') -> Inv h0 U e h ae ah ->
  Inv h0 U (fst (exec c (e, h))) (snd (exec c (e, h))) ae' ah'.
Proof. exact simulation. Qed.
Print Assumptions C15_simulation.

(* per entry point *)
Theorem C15_modelled_entry_points_safe :
  forallb (fun p => safe (fst p) (snd p)) protected_skeletons = true.
Proof. exact protected_skeletons_safe. Qed.
Print Assumptions C15_modelled_entry_points_safe.

Theorem C15_modelled_entry_points_frame :
  Forall (fun p => forall (args : list ref) (h0 : heap) (o : nat), length args = fst p -> o < length h0 ->
            nth_error (snd (exec (snd p) (env0 args, h0))) o = nth_error h0 o) protected_skeletons.
Proof. exact protected_skeletons_frame. Qed.
Print Assumptions C15_modelled_entry_points_frame.

Theorem C15_parafac_user_init : forall (args : list ref) (h0 : heap) (o : nat), length args = 4 -> o < length h0 ->
  nth_error (snd (exec sk_parafac (env0 args, h0))) o = nth_error h0 o.
Proof. exact parafac_frame. Qed.
Print Assumptions C15_parafac_user_init.

Theorem C15_nn_parafac_hals_user_init : forall (args : list ref) (h0 : heap) (o : nat), length args = 4 -> o < length h0 ->
  nth_error (snd (exec sk_nn_parafac_hals (env0 args, h0))) o = nth_error h0 o.
Proof. exact nn_parafac_hals_frame. Qed.
Print Assumptions C15_nn_parafac_hals_user_init.

Theorem C15_tucker_user_init_mask : forall (args : list ref) (h0 : heap) (o : nat), length args = 3 -> o < length h0 ->
  nth_error (snd (exec sk_tucker (env0 args, h0))) o = nth_error h0 o.
Proof. exact tucker_frame. Qed.
Print Assumptions C15_tucker_user_init_mask.

(* the same, skeleton by skeleton (initialize_cp / initialize_tucker user init, cp_flip_sign, cp_permute_factors, fixed_modes and
   sparsity_coefficients handling, masked update, einsum khatri_rao with mask, active_set_nnls warm start, cp_mode_dot copy=True,
   parafac2_to_slices, CP_PLSR.fit) *)
Theorem C15_modelled_entry_points_safe_each :
  safe 2 sk_initialize_cp_user = true /\ safe 2 sk_initialize_tucker = true /\ safe 1 sk_cp_flip_sign = true /\
  safe 2 sk_cp_permute_factors = true /\ safe 1 (sk_fixed_modes 0) = true /\ safe 2 (sk_sparsity 0 1) = true /\
  safe 2 (sk_masked_update 0 1) = true /\ safe 2 sk_khatri_rao_mask = true /\ safe 3 sk_active_set_nnls = true /\
  safe 2 sk_cp_mode_dot_copy = true /\ safe 1 sk_parafac2_to_slices = true /\ safe 2 sk_cp_plsr_fit = true.
Proof.
  exact (conj initialize_cp_safe (conj initialize_tucker_safe (conj cp_flip_sign_safe (conj cp_permute_factors_safe
        (conj fixed_modes_safe (conj sparsity_safe (conj masked_update_safe (conj khatri_rao_mask_safe (conj active_set_nnls_safe
        (conj cp_mode_dot_copy_safe (conj parafac2_to_slices_safe cp_plsr_fit_safe))))))))))).
Qed.
Print Assumptions C15_modelled_entry_points_safe_each.

(* hals_nnls: V is the documented in-place start matrix; cp_mode_dot(copy=False) works on the caller's CP tensor *)
Theorem C15_hals_nnls_inplace_V :
  safe 3 sk_hals_nnls = false /\ safe_with [false; false; true] sk_hals_nnls = true.
Proof. exact hals_nnls_inplace. Qed.
Print Assumptions C15_hals_nnls_inplace_V.

Theorem C15_hals_nnls_frame : forall (args : list (ref * bool)) (h0 : heap), map snd args = [false; false; true] ->
  closed_heap h0 -> closed_args h0 (inplace_roots args) ->
  forall o, o < length h0 -> ~ reach h0 (inplace_roots args) o ->
  nth_error (snd (exec sk_hals_nnls (env0 (map fst args), h0))) o = nth_error h0 o.
Proof. exact hals_nnls_frame. Qed.
Print Assumptions C15_hals_nnls_frame.

Theorem C15_cp_mode_dot_copy_false_inplace :
  safe 2 sk_cp_mode_dot_nocopy = false /\ safe_with [true; false] sk_cp_mode_dot_nocopy = true /\
  safe 2 sk_cp_mode_dot_matrix_nocopy = false /\ safe_with [true; false] sk_cp_mode_dot_matrix_nocopy = true.
Proof. exact cp_mode_dot_inplace. Qed.
Print Assumptions C15_cp_mode_dot_copy_false_inplace.

Theorem C15_cp_mode_dot_copy_false_frame : forall (args : list (ref * bool)) (h0 : heap), map snd args = [true; false] ->
  closed_heap h0 -> closed_args h0 (inplace_roots args) ->
  forall o, o < length h0 -> ~ reach h0 (inplace_roots args) o ->
  nth_error (snd (exec sk_cp_mode_dot_nocopy (env0 (map fst args), h0))) o = nth_error h0 o.
Proof. exact cp_mode_dot_vec_frame. Qed.
Print Assumptions C15_cp_mode_dot_copy_false_frame.

(* sensitivity of the static check: the code before the fix: commits (DESIGN section 9 rows 18 / 22) and the seeded
   mutants are all rejected, and they do change caller-owned objects on a concrete heap *)
Theorem C15_prefix_and_mutants_rejected :
  forallb (fun p => negb (safe (fst p) (snd p))) rejected_skeletons = true.
Proof. exact rejected_skeletons_unsafe. Qed.
Print Assumptions C15_prefix_and_mutants_rejected.

Theorem C15_prefix_parafac_changes_arguments :
  safe 4 old_parafac = false /\ footprint old_parafac demo_args demo_heap = [5; 7] /\
  footprint sk_parafac demo_args demo_heap = [].
Proof. exact old_parafac_changes_arguments. Qed.
Print Assumptions C15_prefix_parafac_changes_arguments.

Theorem C15_prefix_hals_changes_arguments :
  safe 4 old_nn_parafac_hals = false /\ footprint old_nn_parafac_hals demo_args demo_heap = [3] /\
  footprint sk_nn_parafac_hals demo_args demo_heap = [].
Proof. exact old_hals_changes_arguments. Qed.
Print Assumptions C15_prefix_hals_changes_arguments.

Theorem C15_inplace_mask_mutant_changes_tensor :
  safe 4 mut_parafac_inplace_mask = false /\ footprint mut_parafac_inplace_mask demo_args demo_heap = [0].
Proof. exact inplace_mask_changes_tensor. Qed.
Print Assumptions C15_inplace_mask_mutant_changes_tensor.

Theorem C15_safe_is_sufficient_not_necessary : exists c, safe 1 c = false /\ forall h0 args o, o < length h0 ->
  nth_error (snd (exec c (env0 args, h0))) o = nth_error h0 o.
Proof. exact safe_not_necessary. Qed.
Print Assumptions C15_safe_is_sufficient_not_necessary.

(* ------------------------------------------------------------------ early exits ("returns (or raises)")
   run c n = the program interrupted after n primitive effects (an exception propagating to the caller).
   For ALL programs, argument tuples, heaps and interruption points n. *)
Theorem C15_frame_raise : forall (c : cmd) (args : list ref) (h0 : heap),
  safe (length args) c = true ->
  forall n o, o < length h0 -> nth_error (snd (fst (run c n (env0 args, h0)))) o = nth_error h0 o.
Proof. exact frame_raise. Qed.
Print Assumptions C15_frame_raise.

Theorem C15_frame_inplace_raise : forall (c : cmd) (args : list (ref * bool)) (h0 : heap),
  safe_with (map snd args) c = true ->
  closed_heap h0 -> closed_args h0 (inplace_roots args) ->
  forall n o, o < length h0 -> ~ reach h0 (inplace_roots args) o ->
  nth_error (snd (fst (run c n (env0 (map fst args), h0)))) o = nth_error h0 o.
Proof. exact frame_inplace_raise. Qed.
Print Assumptions C15_frame_inplace_raise.

(* adequacy of `run`: with enough steps it IS exec, and whenever it completes it returns exec's state *)
Theorem C15_run_size : forall c m s, run c (size c + m) s = (exec c s, Some m).
Proof. exact run_size. Qed.
Print Assumptions C15_run_size.
Theorem C15_run_complete : forall c n s s' m, run c n s = (s', Some m) -> s' = exec c s.
Proof. exact run_complete. Qed.
Print Assumptions C15_run_complete.

Example C15_run_nonvacuous :
  snd (run old_parafac 10 (env0 demo_args, demo_heap)) = None /\
  nth_error (snd (fst (run old_parafac 10 (env0 demo_args, demo_heap)))) 5 <> nth_error demo_heap 5 /\
  nth_error (snd (fst (run old_parafac 10 (env0 demo_args, demo_heap)))) 7 = nth_error demo_heap 7 /\
  snd (run old_parafac 100 (env0 demo_args, demo_heap)) = Some 12 /\
  snd (run sk_parafac 40 (env0 demo_args, demo_heap)) = None.
Proof. exact run_nonvacuous. Qed.

(* ------------------------------------------------------------------ order-generic skeleton families: every number of
   modes N, every number of sweeps, every length of the option lists, every update order (induction, no enumeration) *)
Theorem C15_parafac_any_order_safe : forall N sweeps fmlen rm modes, safe 4 (sk_parafac_gen N sweeps fmlen rm modes) = true.
Proof. exact parafac_gen_safe. Qed.
Print Assumptions C15_parafac_any_order_safe.

Theorem C15_parafac_any_order_frame : forall N sweeps fmlen rm modes (args : list ref) (h0 : heap) (n o : nat),
  length args = 4 -> o < length h0 ->
  nth_error (snd (fst (run (sk_parafac_gen N sweeps fmlen rm modes) n (env0 args, h0)))) o = nth_error h0 o.
Proof. exact parafac_gen_frame. Qed.
Print Assumptions C15_parafac_any_order_frame.

Theorem C15_nn_parafac_hals_any_order_safe : forall N sweeps sclen fmlen fixed modes,
  safe 4 (sk_nn_parafac_hals_gen N sweeps sclen fmlen fixed modes) = true.
Proof. exact nn_parafac_hals_gen_safe. Qed.
Print Assumptions C15_nn_parafac_hals_any_order_safe.

Theorem C15_nn_parafac_hals_any_order_frame : forall N sweeps sclen fmlen fixed modes (args : list ref) (h0 : heap) (n o : nat),
  length args = 4 -> o < length h0 ->
  nth_error (snd (fst (run (sk_nn_parafac_hals_gen N sweeps sclen fmlen fixed modes) n (env0 args, h0)))) o = nth_error h0 o.
Proof. exact nn_parafac_hals_gen_frame. Qed.
Print Assumptions C15_nn_parafac_hals_any_order_frame.

Theorem C15_tucker_any_order_safe : forall N sweeps modes, safe 3 (sk_tucker_gen N sweeps modes) = true.
Proof. exact tucker_gen_safe. Qed.
Print Assumptions C15_tucker_any_order_safe.

Theorem C15_tucker_any_order_frame : forall N sweeps modes (args : list ref) (h0 : heap) (n o : nat),
  length args = 3 -> o < length h0 ->
  nth_error (snd (fst (run (sk_tucker_gen N sweeps modes) n (env0 args, h0)))) o = nth_error h0 o.
Proof. exact tucker_gen_frame. Qed.
Print Assumptions C15_tucker_any_order_frame.

Theorem C15_initialize_cp_any_order_safe : forall N, safe 2 (sk_initialize_cp_gen N) = true.
Proof. exact initialize_cp_gen_safe. Qed.
Theorem C15_initialize_tucker_any_order_safe : forall N, safe 2 (sk_initialize_tucker_gen N) = true.
Proof. exact initialize_tucker_gen_safe. Qed.
Print Assumptions C15_initialize_tucker_any_order_safe.

Example C15_generic_skeletons_on_demo_heap :
  footprint (sk_parafac_gen 3 2 2 (Some 1) [0; 1; 2]) demo_args demo_heap = [] /\
  footprint (sk_nn_parafac_hals_gen 3 2 2 2 [0] [1; 2]) demo_args demo_heap = [].
Proof. exact gen_instances_demo. Qed.

(* ------------------------------------------------------------------ process_regularization_weights (solvers/penalizations.py)
   The code copies its list arguments first (fix 58815dd, found by this check in round 2); None entries (nr, ns) and
   unregularised modes (dg) are then assigned into the copies: safe for EVERY list length and assignment pattern. *)
Theorem C15_process_regularization_weights_safe : forall n nr ns dg mx, safe 2 (sk_prw n nr ns dg mx) = true.
Proof. exact prw_safe. Qed.
Print Assumptions C15_process_regularization_weights_safe.

Theorem C15_process_regularization_weights_frame : forall n nr ns dg mx (args : list ref) (h0 : heap) (k o : nat),
  length args = 2 -> o < length h0 ->
  nth_error (snd (fst (run (sk_prw n nr ns dg mx) k (env0 args, h0)))) o = nth_error h0 o.
Proof. exact prw_frame. Qed.
Print Assumptions C15_process_regularization_weights_frame.

(* sensitivity: the code before the fix *)
Theorem C15_prefix_process_regularization_weights_rejected : forall nr ns dg mx, nr ++ ns ++ dg <> [] -> safe 2 (old_prw nr ns dg mx) = false.
Proof. exact old_prw_unsafe. Qed.
Print Assumptions C15_prefix_process_regularization_weights_rejected.

Theorem C15_prefix_process_regularization_weights_changes_arguments :
  footprint (old_prw [0] [1] [] 0) prw_args prw_heap = [0; 1] /\ footprint (sk_prw 2 [0] [1] [] 0) prw_args prw_heap = [].
Proof. exact old_prw_changes_arguments. Qed.
Print Assumptions C15_prefix_process_regularization_weights_changes_arguments.

(* ------------------------------------------------------------------ mutator methods CPTensor.normalize() / TuckerTensor.normalize()
   (documented: "the tensor modifies itself"): a safe computation followed by attribute assignments on the receiver changes
   ONLY the receiver object; every other object of the caller's heap (old weights / core / factor arrays, the old factor
   list, anything aliased) is untouched.  General form and the two instances. *)
Theorem C15_method_frame : forall (pre : list cmd) (sets : list (nat * var)) (args : list ref) (h0 : heap),
  safe (length args) (seq pre) = true -> assigns 0 (seq pre) = false ->
  forall o, o < length h0 -> target (nth 0 args RNull) <> Some o ->
  nth_error (snd (exec (seq (pre ++ map (fun p => ListSet 0 (fst p) (snd p)) sets)) (env0 args, h0))) o = nth_error h0 o.
Proof. exact method_frame. Qed.
Print Assumptions C15_method_frame.

Theorem C15_cp_normalize_method_frame : forall (self : ref) (h0 : heap) (o : nat), o < length h0 -> target self <> Some o ->
  nth_error (snd (exec sk_cp_normalize_method (env0 [self], h0))) o = nth_error h0 o.
Proof. exact cp_normalize_method_frame. Qed.
Print Assumptions C15_cp_normalize_method_frame.

Theorem C15_tucker_normalize_method_frame : forall (self : ref) (h0 : heap) (o : nat), o < length h0 -> target self <> Some o ->
  nth_error (snd (exec sk_tucker_normalize_method (env0 [self], h0))) o = nth_error h0 o.
Proof. exact tucker_normalize_method_frame. Qed.
Print Assumptions C15_tucker_normalize_method_frame.

Example C15_cp_normalize_method_nonvacuous : footprint sk_cp_normalize_method [RObj 0 []] method_heap = [0].
Proof. exact cp_normalize_method_nonvacuous. Qed.

(* ------------------------------------------------------------------ programs with choices (the skeletons EXTRACTED from the source)
   A pcmd denotes the list `paths p` of its resolutions (each data-dependent `if`, independently per loop iteration and
   per inlined call).  `psafe_with` runs the abstract interpreter on all of them at once (shared prefixes); it is sound
   w.r.t. `paths`, so every resolution of an accepted extracted skeleton is framed - also when interrupted. *)
Theorem C15_psafe_paths : forall flags p, psafe_with flags p = true -> forall c, In c (paths p) -> safe_with flags c = true.
Proof. exact psafe_paths. Qed.
Print Assumptions C15_psafe_paths.

Theorem C15_psafe_frame : forall p (args : list ref) (h0 : heap),
  psafe_with (repeat false (length args)) p = true ->
  forall c, In c (paths p) -> forall n o, o < length h0 ->
  nth_error (snd (fst (run c n (env0 args, h0)))) o = nth_error h0 o.
Proof. exact psafe_frame. Qed.
Print Assumptions C15_psafe_frame.

Theorem C15_psafe_frame_inplace : forall p (args : list (ref * bool)) (h0 : heap),
  psafe_with (map snd args) p = true -> closed_heap h0 -> closed_args h0 (inplace_roots args) ->
  forall c, In c (paths p) -> forall n o, o < length h0 -> ~ reach h0 (inplace_roots args) o ->
  nth_error (snd (fst (run c n (env0 (map fst args), h0)))) o = nth_error h0 o.
Proof. exact psafe_frame_inplace. Qed.
Print Assumptions C15_psafe_frame_inplace.

Example C15_psafe_demo :
  psafe_with [false] (PSeq (PChoice (PPrim (Copy 1 0)) (PPrim (Alloc 1 2))) (PPrim (InplaceOp 1 2))) = true /\
  psafe_with [false] (PSeq (PChoice (PPrim (Copy 1 0)) (PPrim (View 1 0 [0]))) (PPrim (InplaceOp 1 2))) = false /\
  length (paths (PRepeat 2 (PChoice (PPrim Skip) (PPrim (Alloc 1 2))))) = 4.
Proof. exact psafe_demo. Qed.

(* ------------------------------------------------------------------ the region used by the correspondence is the `reach` of C15_frame_inplace
   (soundness unconditionally inside the proof; completeness from the closure certificate that Corr.C15.agree checks per case) *)
Theorem C15_region_exact : forall h args flags,
  region_closed h (inplace_region h args flags) = true ->
  forall o, In o (inplace_region h args flags) <-> reach h (inplace_roots (combine args flags)) o.
Proof. exact region_exact. Qed.
Print Assumptions C15_region_exact.

Example C15_region_exact_demo :
  region_closed demo_heap (inplace_region demo_heap demo_args [false; true; false; false]) = true /\
  inplace_region demo_heap demo_args [false; true; false; false] = [6; 1; 5; 2; 3; 4].
Proof. exact region_exact_demo. Qed.

(* non-vacuity of the in-place frame statement *)
Example C15_hals_nnls_nonvacuous :
  closed_heap nnls_heap /\ closed_args nnls_heap (inplace_roots nnls_args) /\ map snd nnls_args = [false; false; true] /\
  footprint sk_hals_nnls (map fst nnls_args) nnls_heap = [2] /\ ~ reach nnls_heap (inplace_roots nnls_args) 0.
Proof. exact hals_nnls_nonvacuous. Qed.

(* ================================================================== round 5 *)
(* ------------------------------------------------------------------ the remaining documented in-place parameters:
   tucker_mode_dot(copy=False) pops from / assigns into the caller's factor list, index_update assigns into its first
   argument; unsafe without the flag, safe with it, and then nothing outside the flagged argument's region changes.
   tucker_mode_dot(copy=True) is safe with every argument protected. *)
Theorem C15_tucker_mode_dot_index_update_inplace :
  safe 2 sk_tucker_mode_dot_copy = true /\
  (safe 2 sk_tucker_mode_dot_vec_nocopy = false /\ safe_with [true; false] sk_tucker_mode_dot_vec_nocopy = true /\
   safe 2 sk_tucker_mode_dot_matrix_nocopy = false /\ safe_with [true; false] sk_tucker_mode_dot_matrix_nocopy = true) /\
  (safe 2 sk_index_update = false /\ safe_with [true; false] sk_index_update = true).
Proof. exact (conj tucker_mode_dot_copy_safe (conj tucker_mode_dot_inplace index_update_inplace)). Qed.
Print Assumptions C15_tucker_mode_dot_index_update_inplace.

Theorem C15_tucker_mode_dot_index_update_frame : forall (args : list (ref * bool)) (h0 : heap), map snd args = [true; false] ->
  closed_heap h0 -> closed_args h0 (inplace_roots args) ->
  forall o, o < length h0 -> ~ reach h0 (inplace_roots args) o ->
  nth_error (snd (exec sk_tucker_mode_dot_vec_nocopy (env0 (map fst args), h0))) o = nth_error h0 o /\
  nth_error (snd (exec sk_tucker_mode_dot_matrix_nocopy (env0 (map fst args), h0))) o = nth_error h0 o /\
  nth_error (snd (exec sk_index_update (env0 (map fst args), h0))) o = nth_error h0 o.
Proof.
  intros args h0 Hf Hc Ha o Ho Hr.
  exact (conj (tucker_mode_dot_vec_frame args h0 Hf Hc Ha o Ho Hr) (conj (tucker_mode_dot_mat_frame args h0 Hf Hc Ha o Ho Hr)
              (index_update_frame args h0 Hf Hc Ha o Ho Hr))).
Qed.
Print Assumptions C15_tucker_mode_dot_index_update_frame.

Example C15_tucker_mode_dot_index_update_nonvacuous :
  footprint sk_tucker_mode_dot_vec_nocopy (map fst tk_args) tk_heap = [4] /\
  footprint sk_tucker_mode_dot_matrix_nocopy (map fst tk_args) tk_heap = [4] /\
  footprint sk_tucker_mode_dot_copy (map fst tk_args) tk_heap = [] /\
  footprint sk_index_update [RObj 0 [1; 3]; RObj 6 [0; 1]] tk_heap = [0].
Proof. exact tucker_mode_dot_nonvacuous. Qed.

(* ------------------------------------------------------------------ sequences of calls (fit, predict, a second fit with the same
   options ...): every call is a safe program receiving ARBITRARY references into the heap as it is then (results of
   earlier calls included).  Nothing of the caller's heap changes over the whole sequence; nothing that exists when the
   remaining calls start is changed by them; also when the last call raises after n primitive effects. *)
Theorem C15_frame_sequence : forall (cs : list (cmd * list ref)) (h0 : heap),
  Forall (fun p => safe (length (snd p)) (fst p) = true) cs ->
  forall o, o < length h0 -> nth_error (exec_calls cs h0) o = nth_error h0 o.
Proof. exact frame_sequence. Qed.
Print Assumptions C15_frame_sequence.

Theorem C15_frame_sequence_results : forall (cs1 cs2 : list (cmd * list ref)) (h0 : heap),
  Forall (fun p => safe (length (snd p)) (fst p) = true) cs2 ->
  forall o, o < length (exec_calls cs1 h0) ->
  nth_error (exec_calls (cs1 ++ cs2) h0) o = nth_error (exec_calls cs1 h0) o.
Proof. exact frame_sequence_results. Qed.
Print Assumptions C15_frame_sequence_results.

Theorem C15_frame_sequence_raise : forall (cs : list (cmd * list ref)) (c : cmd) (args : list ref) (h0 : heap),
  Forall (fun p => safe (length (snd p)) (fst p) = true) cs -> safe (length args) c = true ->
  forall n o, o < length h0 ->
  nth_error (snd (fst (run c n (env0 args, exec_calls cs h0)))) o = nth_error h0 o.
Proof. exact frame_sequence_raise. Qed.
Print Assumptions C15_frame_sequence_raise.

Example C15_frame_sequence_nonvacuous :
  Forall (fun p => safe (length (snd p)) (fst p) = true) demo_calls /\
  length demo_heap = 9 /\ 9 < length (exec_calls demo_calls demo_heap) /\
  firstn 9 (exec_calls demo_calls demo_heap) = demo_heap.
Proof. exact frame_sequence_nonvacuous. Qed.

(* ------------------------------------------------------------------ estimator classes: est.fit_transform(tensor), self = the
   estimator holding the user's options (init, fixed_modes, mask / sparsity_coefficients ...) as attributes.  For ANY number
   of option attributes and ANY decomposition body accepted by `safe`, of the caller's heap ONLY the receiver object changes (decomposition_ is
   stored on it); instances for the three order-generic families (every order, sweep count, list length, mode order). *)
Theorem C15_estimator_fit_frame : forall (nattr : nat) (body : cmd) (ret : var),
  safe (S nattr) body = true ->
  forall (self X : ref) (h0 : heap) (o : nat), o < length h0 -> target self <> Some o ->
  nth_error (snd (exec (sk_estimator_fit nattr body ret) (env0 [self; X], h0))) o = nth_error h0 o.
Proof. exact estimator_fit_frame. Qed.
Print Assumptions C15_estimator_fit_frame.

Theorem C15_cp_hals_tucker_class_fit_frame : forall (self X : ref) (h0 : heap) (o : nat), o < length h0 -> target self <> Some o ->
  (forall N sweeps fmlen rm modes,
     nth_error (snd (exec (sk_estimator_fit 3 (sk_parafac_gen N sweeps fmlen rm modes) 25) (env0 [self; X], h0))) o = nth_error h0 o) /\
  (forall N sweeps sclen fmlen fixed modes,
     nth_error (snd (exec (sk_estimator_fit 3 (sk_nn_parafac_hals_gen N sweeps sclen fmlen fixed modes) 25) (env0 [self; X], h0))) o = nth_error h0 o) /\
  (forall N sweeps modes,
     nth_error (snd (exec (sk_estimator_fit 2 (sk_tucker_gen N sweeps modes) 25) (env0 [self; X], h0))) o = nth_error h0 o).
Proof.
  intros self X h0 o Ho Ht. split; [|split]; intros.
  - apply cp_class_fit_frame; auto.
  - apply hals_class_fit_frame; auto.
  - apply tucker_class_fit_frame; auto.
Qed.
Print Assumptions C15_cp_hals_tucker_class_fit_frame.

Theorem C15_any_estimator_fit_frame : forall nattr (self X : ref) (h0 : heap) (o : nat),
  o < length h0 -> target self <> Some o ->
  nth_error (snd (exec (sk_estimator_fit nattr (Alloc 25 1) 25) (env0 [self; X], h0))) o = nth_error h0 o.
Proof. exact any_estimator_fit_frame. Qed.

Example C15_estimator_fit_nonvacuous :
  footprint (sk_estimator_fit 3 (sk_parafac_gen 3 2 2 (Some 1) [0; 1; 2]) 25) [RObj 9 []; RObj 0 [0; 1; 2; 3]] est_heap = [9].
Proof. exact estimator_fit_nonvacuous. Qed.

(* ------------------------------------------------------------------ interrupted calls in the correspondence: Corr.C15.agree compares
   the observed footprint of a call that raised with the footprints of the interruption points 0..steps of the skeleton.
   That enumeration is complete (every n is represented), its last point is the completed call, and for an accepted
   skeleton all of its members are empty. *)
Theorem C15_interrupt_enumeration_complete : forall c args h,
  (forall n, In (footprint_run c n args h) (interrupted_footprints c args h)) /\
  footprint_run c (steps c) args h = footprint c args h.
Proof. intros c args h. split; [intros n; apply interrupt_enumeration_complete|apply interrupt_last_is_exec]. Qed.
Print Assumptions C15_interrupt_enumeration_complete.

Theorem C15_interrupted_footprints_safe : forall c args h, safe (length args) c = true ->
  forall f, In f (interrupted_footprints c args h) -> f = [].
Proof. exact interrupted_footprints_safe. Qed.
Print Assumptions C15_interrupted_footprints_safe.

Example C15_interrupt_nonvacuous :
  interrupted_footprints sk_hals_nnls (map fst nnls_args) nnls_heap = [[]; []; [2]; [2]; [2]; [2]; [2]; [2]; [2]; [2]; [2]] /\
  steps sk_hals_nnls = 10.
Proof. exact interrupt_nonvacuous. Qed.

(* ------------------------------------------------------------------ the static check is monotone in the protection: flagging
   more parameters as updated in place never turns an accepted program into a rejected one (simulation between two abstract
   executions, induction on the program); so the all-protected verdict `safe`, the one proved for the skeleton families and
   required of every extracted skeleton without documented exception, is the strongest: it implies `safe_with flags` for
   every flag vector, and C15_frame_inplace then applies to it as well. *)
Theorem C15_safe_with_monotone :
  (forall c f f', flags_le f f' -> length f' <= length f -> safe_with f c = true -> safe_with f' c = true) /\
  (forall c flags, safe (length flags) c = true -> safe_with flags c = true).
Proof. exact (conj safe_with_mono safe_implies_safe_with). Qed.
Print Assumptions C15_safe_with_monotone.

Example C15_safe_with_monotone_nonvacuous :
  flags_le [false; false; true] [true; false; true] /\ safe_with [false; false; true] sk_hals_nnls = true /\
  safe_with [true; false; true] sk_hals_nnls = true /\ safe_with [false; false; false] sk_hals_nnls = false.
Proof. exact safe_with_mono_nonvacuous. Qed.

(* ------------------------------------------------------------------ exceptions that are CAUGHT (`try: c  except: hd`): the body
   is interrupted after n primitive effects, the handler then runs (m effects, or to completion) from the state the
   interruption left behind.  `safe_try` = the body is accepted and the handler is accepted from the abstract state of EVERY
   interruption point of the body (`aprefixes`).  Then nothing of the caller's heap changes - wherever the body raises and
   wherever the handler stops.  The demo shows a body that is safe on its own but whose handler may run while the work
   variable still designates the caller's array: rejected, and it does write into the caller's buffer. *)
Theorem C15_frame_try : forall (c hd : cmd) (args : list ref) (h0 : heap),
  safe_try (length args) c hd = true ->
  forall n e2 h2, run c n (env0 args, h0) = ((e2, h2), None) ->
  forall m o, o < length h0 -> nth_error (snd (fst (run hd m (e2, h2)))) o = nth_error h0 o.
Proof. exact frame_try. Qed.
Print Assumptions C15_frame_try.

Theorem C15_frame_try_inplace : forall (c hd : cmd) (args : list (ref * bool)) (h0 : heap),
  safe_try_with (map snd args) c hd = true ->
  closed_heap h0 -> closed_args h0 (inplace_roots args) ->
  forall n e2 h2, run c n (env0 (map fst args), h0) = ((e2, h2), None) ->
  forall m o, o < length h0 -> ~ reach h0 (inplace_roots args) o ->
  nth_error (snd (fst (run hd m (e2, h2)))) o = nth_error h0 o.
Proof. exact frame_try_inplace. Qed.
Print Assumptions C15_frame_try_inplace.

Example C15_frame_try_demo :
  safe_try 1 try_body_good try_handler = true /\
  safe 1 try_body_bad = true /\ safe_try 1 try_body_bad try_handler = false /\
  length (aprefixes try_body_good (aenv0 [false], [])) = 4 /\
  snd (run try_body_bad 2 (env0 [RObj 0 [0; 1]], [OBuf [5; 7]%Z])) = None /\
  snd (fst (run try_handler 1 (fst (run try_body_bad 2 (env0 [RObj 0 [0; 1]], [OBuf [5; 7]%Z]))))) <> [OBuf [5; 7]%Z] /\
  firstn 1 (snd (fst (run try_handler 1 (fst (run try_body_good 2 (env0 [RObj 0 [0; 1]], [OBuf [5; 7]%Z])))))) = [OBuf [5; 7]%Z].
Proof. exact try_demo. Qed.

(* ------------------------------------------------------------------ round 6: a whole program with one try statement,
   pre; try: c except: hd; rest - the protected statements raise after n primitive effects, for EVERY n (n >= size c: no
   exception); `safe_tryprog` = pre accepted, body accepted, handler accepted from every interruption point of the body, rest
   accepted after the body and after the handler.  Instances: the entry points of the anchored packages whose handler goes
   on (active_set_nnls, vonneumann_entropy, the mode normalisation of matricize / tensordot) or re-raises after writes
   (tensor_train_cross); the correspondence evaluates the same check on every call of these entry points.  Sensitivity: a
   handler that resets the warm start of active_set_nnls in place is rejected and writes into the caller's x. *)
Theorem C15_frame_tryprog : forall (pre c hd rest : cmd) (args : list ref) (h0 : heap),
  safe_tryprog (length args) pre c hd rest = true ->
  forall n o, o < length h0 -> nth_error (snd (exec_try pre c hd rest n (env0 args, h0))) o = nth_error h0 o.
Proof. exact frame_tryprog. Qed.
Print Assumptions C15_frame_tryprog.

Theorem C15_wrapper_ctor_safe : safe 1 sk_wrapper_ctor = true.
Proof. exact wrapper_ctor_safe. Qed.

Theorem C15_try_entry_points_frame :
  forallb (fun p => let '(n, (pre, c, hd, rest)) := p in safe_tryprog n pre c hd rest) try_skeletons = true /\
  Forall (fun p => let '(k, (pre, c, hd, rest)) := p in
    forall (args : list ref) (h0 : heap) (n o : nat), length args = k -> o < length h0 ->
      nth_error (snd (exec_try pre c hd rest n (env0 args, h0))) o = nth_error h0 o) try_skeletons.
Proof. exact (conj try_skeletons_safe try_skeletons_frame). Qed.
Print Assumptions C15_try_entry_points_frame.

Example C15_active_set_try_mutant :
  (let '(pre, c, hd, rest) := tp_active_set_nnls_mut in safe_tryprog 3 pre c hd rest) = false /\
  (let '(pre, c, hd, rest) := tp_active_set_nnls_mut in
   footprint_try pre c hd rest 2 [RObj 0 [0; 1]; RObj 1 [0; 1; 2; 3]; RObj 2 [0; 1]] [OBuf [1; 2]%Z; OBuf [1; 0; 0; 1]%Z; OBuf [7; 7]%Z]) = [2] /\
  (let '(pre, c, hd, rest) := tp_active_set_nnls in
   footprint_try pre c hd rest 2 [RObj 0 [0; 1]; RObj 1 [0; 1; 2; 3]; RObj 2 [0; 1]] [OBuf [1; 2]%Z; OBuf [1; 0; 0; 1]%Z; OBuf [7; 7]%Z]) = [].
Proof. exact active_set_try_mutant. Qed.

(* ------------------------------------------------------------------ round 6: SEVERAL try statements (tcmd = plain commands, try / except
   statements, sequencing; try / except / finally = TSeq (TTry c hd) (TPlain final); a try inside a loop = trepeat).  The oracle ns
   gives, per executed try statement, the position at which its body raises - ANY oracle.  `tsafe` computes the set of abstract
   states possible after each statement (normal exit, and the handler run from every interruption point).  Instance used by the
   correspondence: active_set_nnls with its try statement inside the sweep (two sweeps) and an epilogue; sensitivity: a handler
   that resets the warm start in place is rejected and, with the oracle [1; 0], zeroes the caller's x.  Not covered: a try
   statement nested inside another try body or inside a callee. *)
Theorem C15_frame_tcmd : forall (t : tcmd) (args : list ref) (h0 : heap),
  tsafe (length args) t = true ->
  forall ns o, o < length h0 -> nth_error (snd (fst (texec t ns (env0 args, h0)))) o = nth_error h0 o.
Proof. exact frame_tcmd. Qed.
Print Assumptions C15_frame_tcmd.

Example C15_frame_tcmd_demo :
  tsafe 3 tc_active_set_nnls = true /\
  tsafe 3 (tc_active_set (seq [ WriteInto 10 [0%Z; 0%Z]; Alloc 14 2 ])) = false /\
  snd (fst (texec (tc_active_set (seq [ WriteInto 10 [0%Z; 0%Z]; Alloc 14 2 ])) [1; 0]
       (env0 [RObj 0 [0; 1]; RObj 1 [0; 1; 2; 3]; RObj 2 [0; 1]], [OBuf [1; 2]%Z; OBuf [1; 0; 0; 1]%Z; OBuf [7; 7]%Z]))) <>
    [OBuf [1; 2]%Z; OBuf [1; 0; 0; 1]%Z; OBuf [7; 7]%Z] /\
  nth_error (snd (fst (texec (tc_active_set (seq [ WriteInto 10 [0%Z; 0%Z]; Alloc 14 2 ])) [1; 0]
       (env0 [RObj 0 [0; 1]; RObj 1 [0; 1; 2; 3]; RObj 2 [0; 1]], [OBuf [1; 2]%Z; OBuf [1; 0; 0; 1]%Z; OBuf [7; 7]%Z])))) 2 = Some (OBuf [0; 0]%Z).
Proof. exact tcmd_demo. Qed.

(* ------------------------------------------------------------------ CPTensor.normalize(inplace=...) after fix 9ada0b3 (defect found by
   this check in round 5: the option was ignored).  inplace=False returns a normalised copy: the receiver is PROTECTED and
   nothing of the caller's heap changes, also when interrupted.  inplace=True: the receiver is documented as updated
   (C15_cp_normalize_method_frame: only the receiver object changes).  The old rule is kept as a labelled Example. *)
Theorem C15_cp_normalize_method_inplace_false_frame :
  safe 1 sk_cp_normalize_method_copy = true /\
  forall (self : ref) (h0 : heap) (n o : nat), o < length h0 ->
    nth_error (snd (fst (run sk_cp_normalize_method_copy n (env0 [self], h0)))) o = nth_error h0 o.
Proof. exact (conj cp_normalize_method_copy_safe cp_normalize_method_copy_frame). Qed.
Print Assumptions C15_cp_normalize_method_inplace_false_frame.

Example C15_cp_normalize_inplace_false_before_9ada0b3 :
  safe 1 sk_cp_normalize_method = false /\
  (exists (self : ref) (h0 : heap) (o : nat), o < length h0 /\
    nth_error (snd (exec sk_cp_normalize_method (env0 [self], h0))) o <> nth_error h0 o) /\
  footprint sk_cp_normalize_method_copy [RObj 0 []] method_heap = [].
Proof. exact cp_normalize_inplace_false_before_9ada0b3. Qed.

(* ------------------------------------------------------------------ cp_mode_dot(copy=False) with a vector after fix 93a737c: the neighbouring
   factor is REBOUND in the caller's list (C15_cp_mode_dot_copy_false_inplace / _frame are about this skeleton); the old rule,
   which scaled that factor's array in place, as a labelled Example: object 1 (a factor buffer) is in the old footprint only. *)
Example C15_cp_mode_dot_copy_false_before_93a737c :
  footprint sk_cp_mode_dot_nocopy [RObj 5 []; RObj 6 [0; 1]] cpmd_heap = [4; 5] /\
  footprint old_cp_mode_dot_nocopy [RObj 5 []; RObj 6 [0; 1]] cpmd_heap = [1; 4; 5] /\
  safe_with [true; false] old_cp_mode_dot_nocopy = true /\ footprint sk_cp_mode_dot_copy [RObj 5 []; RObj 6 [0; 1]] cpmd_heap = [].
Proof. exact cp_mode_dot_nocopy_before_93a737c. Qed.

(* ================================================================== round 7: two pieces of code whose safety rests on ONE copy each
   (Model/EffectsR7.v, Proofs/EffectsProofsR7.v).
   non_negative_tucker updates `nn_factors[mode] *= ..` and `nn_core *= ..` IN PLACE on what initialize_tucker(non_negative=True)
   returns for a user initialisation: accepted for every order N, number of sweeps, update order, with / without normalisation,
   because tl.abs allocates for every array (induction; invariant: a run-allocated list of writable entries + a writable core). *)
Theorem C15_nn_tucker_any_order_safe :
  (forall N sweeps normalize modes, safe 2 (sk_nn_tucker_gen N sweeps normalize modes) = true) /\
  (forall N, safe 2 (sk_initialize_tucker_nn_gen N) = true).
Proof. exact (conj nn_tucker_gen_safe initialize_tucker_nn_gen_safe). Qed.
Print Assumptions C15_nn_tucker_any_order_safe.

Theorem C15_nn_tucker_any_order_frame : forall N sweeps normalize modes (args : list ref) (h0 : heap) (n o : nat),
  length args = 2 -> o < length h0 ->
  nth_error (snd (fst (run (sk_nn_tucker_gen N sweeps normalize modes) n (env0 args, h0)))) o = nth_error h0 o.
Proof. exact nn_tucker_gen_frame. Qed.
Print Assumptions C15_nn_tucker_any_order_frame.

(* the seeded-defect FAMILY "tl.abs only of the arrays that contain a negative entry" (byref = the factors passed through by
   reference, coreref = the core is): it IS the code when every array has a negative entry (so a mixed-sign generator cannot
   see it), and a by-reference core is rejected for every order / update order / factor pattern once one sweep runs *)
Theorem C15_nn_tucker_abs_by_reference_family :
  (forall N sweeps normalize modes, mut_nn_tucker N sweeps normalize modes [] false = sk_nn_tucker_gen N sweeps normalize modes) /\
  (forall N sweeps modes byref, safe 2 (mut_nn_tucker N (S sweeps) false modes byref true) = false).
Proof. exact (conj mut_nn_tucker_hidden_by_mixed_signs mut_nn_tucker_core_by_reference_rejected). Qed.
Print Assumptions C15_nn_tucker_abs_by_reference_family.

(* order 3: all 15 non-empty by-reference patterns are rejected after one sweep, all are invisible with normalize_factors=True,
   a factor that is never updated hides its pattern; on a concrete heap the mutants change exactly the by-reference arrays *)
Example C15_nn_tucker_abs_by_reference_order3 :
  forallb (fun p => negb (safe 2 (mut_nn_tucker 3 1 false [0; 1; 2] (fst p) (snd p)))) r7_patterns = true /\
  forallb (fun p => safe 2 (mut_nn_tucker 3 2 true [0; 1; 2] (fst p) (snd p))) r7_patterns = true /\
  (safe 2 (mut_nn_tucker 3 1 false [0; 2] [1] false) = true /\ safe 2 (mut_nn_tucker 3 0 false [0; 1; 2] [0; 1; 2] true) = true) /\
  (footprint (mut_nn_tucker 3 1 false [0; 1; 2] [1] false) r7_tucker_args r7_heap = [3] /\
   footprint (mut_nn_tucker 3 1 false [0; 1; 2] [0; 1; 2] true) r7_tucker_args r7_heap = [1; 2; 3; 4] /\
   footprint (sk_nn_tucker_gen 3 2 false [0; 1; 2]) r7_tucker_args r7_heap = [] /\
   footprint (sk_nn_tucker_gen 3 2 true [0; 1; 2]) r7_tucker_args r7_heap = []).
Proof.
  exact (conj mut_nn_tucker_order3_rejected (conj mut_nn_tucker_order3_hidden_by_normalisation
        (conj mut_nn_tucker_order3_hidden_without_update mut_nn_tucker_changes_arguments))).
Qed.

(* monotonicity_prox (either direction) and unimodality_prox, 1-D or 2-D input, every number of rows and columns: index_update
   writes only into the copy taken BEFORE the flip (np.flip is a view) and before nothing else than the reshape of a vector *)
Theorem C15_monotonicity_unimodality_prox_safe :
  (forall dec vec rows cols, safe 1 (sk_monotonicity_prox dec vec rows cols) = true) /\
  (forall vec rows cols, safe 1 (sk_unimodality_prox vec rows cols) = true).
Proof. exact (conj monotonicity_prox_safe unimodality_prox_safe). Qed.
Print Assumptions C15_monotonicity_unimodality_prox_safe.

Theorem C15_monotonicity_unimodality_prox_frame :
  (forall dec vec rows cols (args : list ref) (h0 : heap) (n o : nat), length args = 1 -> o < length h0 ->
     nth_error (snd (fst (run (sk_monotonicity_prox dec vec rows cols) n (env0 args, h0)))) o = nth_error h0 o) /\
  (forall vec rows cols (args : list ref) (h0 : heap) (n o : nat), length args = 1 -> o < length h0 ->
     nth_error (snd (fst (run (sk_unimodality_prox vec rows cols) n (env0 args, h0)))) o = nth_error h0 o).
Proof. exact (conj monotonicity_prox_frame unimodality_prox_frame). Qed.
Print Assumptions C15_monotonicity_unimodality_prox_frame.

(* the seeded-defect family "a VIEW instead of a copy": rejected for every shape with at least one column exactly under the
   option / input kind that selects the view, and definitionally the code otherwise (what a generator must include:
   decreasing=True; a 1-D input; a single-column input) *)
Theorem C15_prox_view_instead_of_copy_family :
  (forall vec rows cols, safe 1 (mut_monotonicity_prox_flip true vec rows (S cols)) = false) /\
  (forall vec rows cols, mut_monotonicity_prox_flip false vec rows cols = sk_monotonicity_prox false vec rows cols) /\
  (forall dec rows cols, safe 1 (mut_monotonicity_prox_vec dec true rows (S cols)) = false) /\
  (forall dec rows cols, mut_monotonicity_prox_vec dec false rows cols = sk_monotonicity_prox dec false rows cols) /\
  (forall vec rows cols, safe 1 (mut_unimodality_prox vec rows (S cols)) = false) /\
  (forall vec rows, safe 1 (mut_unimodality_prox_single_column vec rows 1) = false) /\
  (forall vec rows cols, cols <> 1 -> mut_unimodality_prox_single_column vec rows cols = sk_unimodality_prox vec rows cols).
Proof.
  exact (conj mut_monotonicity_prox_flip_rejected (conj mut_monotonicity_prox_flip_hidden (conj mut_monotonicity_prox_vec_rejected
        (conj mut_monotonicity_prox_vec_hidden (conj mut_unimodality_prox_rejected
        (conj mut_unimodality_prox_single_column_rejected mut_unimodality_prox_single_column_hidden)))))).
Qed.
Print Assumptions C15_prox_view_instead_of_copy_family.

Example C15_prox_view_mutants_change_arguments :
  footprint (mut_monotonicity_prox_flip true false 2 2) [RObj 7 [0; 1; 2; 3]] r7_heap = [7] /\
  footprint (mut_monotonicity_prox_vec false true 3 1) [RObj 8 [0; 1; 2]] r7_heap = [8] /\
  footprint (mut_unimodality_prox false 2 2) [RObj 7 [0; 1; 2; 3]] r7_heap = [7] /\
  footprint (mut_unimodality_prox_single_column true 3 1) [RObj 8 [0; 1; 2]] r7_heap = [8] /\
  footprint (sk_monotonicity_prox true false 2 2) [RObj 7 [0; 1; 2; 3]] r7_heap = [] /\
  footprint (sk_monotonicity_prox true true 3 1) [RObj 8 [0; 1; 2]] r7_heap = [] /\
  footprint (sk_unimodality_prox true 3 1) [RObj 8 [0; 1; 2]] r7_heap = [].
Proof. exact mut_prox_changes_arguments. Qed.

(* ------------------------------------------------------------------ round 7: try statements inside CALLEES and loops (Model.EffectsR7.xcmd:
   plain commands, try statements, sequencing, bounded loops, calls whose body is an xcmd).  Whatever positions the try bodies
   raise at - ANY oracle, consumed in execution order across calls and loop iterations - a program accepted by `xsafe` leaves the
   caller's heap untouched.  tcmd (C15_frame_tcmd) is the call-free fragment. *)
Theorem C15_frame_xcmd : forall (t : xcmd) (args : list ref) (h0 : heap),
  xsafe (length args) t = true ->
  forall ns o, o < length h0 -> nth_error (snd (fst (xexec t ns (env0 args, h0)))) o = nth_error h0 o.
Proof. exact frame_xcmd. Qed.
Print Assumptions C15_frame_xcmd.

Theorem C15_xcmd_extends_tcmd :
  (forall t ns s, xexec (xc_of_tcmd t) ns s = texec t ns s) /\ (forall t l, xstates (xc_of_tcmd t) l = tstates t l).
Proof. exact (conj xc_of_tcmd_exec xc_of_tcmd_states). Qed.

(* non_negative_tucker_hals(algorithm="active_set") with a user init: the core is updated through the callee active_set_nnls, which
   catches the failure of its solve in each of its sweeps (order 3, two outer sweeps, decided by vm_compute) *)
Theorem C15_nn_tucker_hals_active_set_frame :
  xsafe 4 xc_nn_tucker_hals_active_set = true /\
  forall (args : list ref) (h0 : heap) (ns : list nat) (o : nat), length args = 4 -> o < length h0 ->
    nth_error (snd (fst (xexec xc_nn_tucker_hals_active_set ns (env0 args, h0)))) o = nth_error h0 o.
Proof. exact (conj (proj1 nn_tucker_hals_active_set_xsafe) nn_tucker_hals_active_set_frame). Qed.
Print Assumptions C15_nn_tucker_hals_active_set_frame.

(* two cooperating seeded defects in two functions: a callee handler that resets the warm start in place is harmless while the warm
   start is the run's own core, a by-reference core is harmless while nothing writes through it (the HALS variant copies before
   hals_nnls); together they are rejected, and when the callee's first solve raises the handler zeroes the caller's core *)
Example C15_try_in_callee_cooperating_defects :
  (xsafe 4 xc_nn_tucker_hals_active_set = true /\
   xsafe 4 (xc_nn_tucker_hals_as (sk_initialize_tucker_nn_gen 3) xc_active_set_nnls_mut) = true /\
   xsafe 4 (xc_nn_tucker_hals_as (mut_initialize_tucker_nn 3 [] true) xc_active_set_nnls) = true /\
   xsafe 4 (xc_nn_tucker_hals_as (mut_initialize_tucker_nn 3 [] true) xc_active_set_nnls_mut) = false) /\
  (nth_error (snd (fst (xexec (xc_nn_tucker_hals_as (mut_initialize_tucker_nn 3 [] true) xc_active_set_nnls_mut) [0] (env0 r7_hals_args, r7_heap)))) 1
     = Some (OBuf [0; 0; 1; 1]%Z) /\
   firstn 9 (snd (fst (xexec (xc_nn_tucker_hals_as (mut_initialize_tucker_nn 3 [] true) xc_active_set_nnls_mut) [] (env0 r7_hals_args, r7_heap)))) = r7_heap /\
   firstn 9 (snd (fst (xexec xc_nn_tucker_hals_active_set [0; 1; 0; 2] (env0 r7_hals_args, r7_heap)))) = r7_heap).
Proof. exact (conj nn_tucker_hals_active_set_xsafe nn_tucker_hals_active_set_demo). Qed.

(* the estimator class Tucker_NN with the order-generic non_negative_tucker body (round 6 had an opaque body for it) *)
Theorem C15_nn_tucker_class_fit_frame : forall N sweeps normalize modes (self X : ref) (h0 : heap) (o : nat),
  o < length h0 -> target self <> Some o ->
  nth_error (snd (exec (sk_estimator_fit 1 (sk_nn_tucker_gen N sweeps normalize modes) 25) (env0 [self; X], h0))) o = nth_error h0 o.
Proof. exact nn_tucker_class_fit_frame. Qed.
Print Assumptions C15_nn_tucker_class_fit_frame.


(* ================================================================== ROUND 8 *)
(* ------------------------------------------------------------------ structured exceptions, ANY nesting (Model.EffectsR8.ycmd).
   The body and the handler of a try statement are programs of the same language (try inside a try body, inside a handler, inside
   a callee called from a try body, inside loops), `YRaise` raises unconditionally (`except ..: raise Other(..)`), a handler may be
   interrupted like any other code, and an exception no handler catches crosses loops and callers and reaches the top level.  The
   oracle gives, for every plain command in EXECUTION order, the number of primitive effects after which it raises.  Accepted by
   `ysafe` => for EVERY oracle nothing of the caller's heap changes, whether the call returns or raises (third component of the
   outcome); with documented in-place parameters: nothing outside their reachable region. *)
Theorem C15_frame_ycmd :
  (forall (t : ycmd) (args : list ref) (h0 : heap),
     ysafe (length args) t = true ->
     forall ns o, o < length h0 -> nth_error (snd (fst (fst (yexec t ns (env0 args, h0))))) o = nth_error h0 o) /\
  (forall (t : ycmd) (args : list (ref * bool)) (h0 : heap),
     ysafe_with (map snd args) t = true ->
     closed_heap h0 -> closed_args h0 (inplace_roots args) ->
     forall ns o, o < length h0 -> ~ reach h0 (inplace_roots args) o ->
     nth_error (snd (fst (fst (yexec t ns (env0 (map fst args), h0))))) o = nth_error h0 o).
Proof. exact (conj frame_ycmd frame_ycmd_inplace). Qed.
Print Assumptions C15_frame_ycmd.

(* what the nesting-free fragments become: a plain command under the exception semantics is accepted iff `safe_with` accepts it
   (it is `run`); a handler that only re-raises adds nothing (a remark of the manifest up to round 7, now a theorem); a callee whose
   whole body is such a try statement followed by plain code is accepted exactly when the plain program is *)
Theorem C15_ycmd_fragments :
  (forall flags c, ysafe_with flags (YPlain c) = safe_with flags c) /\
  (forall flags c, ysafe_with flags (ytry_reraise (YPlain c)) = safe_with flags c) /\
  (forall flags x c args ret rest,
     ysafe_with flags (yseq [YCall x (ytry_reraise (YPlain c)) args ret; YPlain rest]) = safe_with flags (Seq (Call x c args ret) rest)).
Proof. exact (conj ysafe_plain (conj ysafe_try_reraise ysafe_call_reraise_then_plain)). Qed.
Print Assumptions C15_ycmd_fragments.

(* initialize_cp with a user init - the WHOLE branch is the body of `try: .. except ValueError: raise ValueError(..)` - alone and
   as the callee of parafac / non_negative_parafac_hals: every order N, sweep count, option-list length, update order, every oracle *)
Theorem C15_ycmd_cp_family_frame :
  ((forall N, ysafe 2 (yc_initialize_cp_gen N) = true) /\
   (forall N sweeps fmlen rm modes, ysafe 4 (yc_parafac_gen N sweeps fmlen rm modes) = true) /\
   (forall N sweeps sclen fmlen fixed modes, ysafe 4 (yc_nn_parafac_hals_gen N sweeps sclen fmlen fixed modes) = true)) /\
  ((forall N (args : list ref) (h0 : heap) ns o, length args = 2 -> o < length h0 ->
      nth_error (snd (fst (fst (yexec (yc_initialize_cp_gen N) ns (env0 args, h0))))) o = nth_error h0 o) /\
   (forall N sweeps fmlen rm modes (args : list ref) (h0 : heap) ns o, length args = 4 -> o < length h0 ->
      nth_error (snd (fst (fst (yexec (yc_parafac_gen N sweeps fmlen rm modes) ns (env0 args, h0))))) o = nth_error h0 o) /\
   (forall N sweeps sclen fmlen fixed modes (args : list ref) (h0 : heap) ns o, length args = 4 -> o < length h0 ->
      nth_error (snd (fst (fst (yexec (yc_nn_parafac_hals_gen N sweeps sclen fmlen fixed modes) ns (env0 args, h0))))) o = nth_error h0 o)).
Proof. exact (conj (conj yc_initialize_cp_gen_ysafe (conj yc_parafac_gen_ysafe yc_nn_parafac_hals_gen_ysafe)) yc_cp_family_frame). Qed.
Print Assumptions C15_ycmd_cp_family_frame.

(* vonneumann_entropy (the handler calls eigh a second time and may raise itself: that exception reaches the caller),
   tensor_train_cross (a re-raising try inside the right-to-left loop inside the iteration loop; 2 x 3 iterations),
   non_negative_tucker_hals(algorithm="active_set") (try statements in the callee, order 3, two outer sweeps): vm_compute *)
Theorem C15_ycmd_entry_points_frame :
  (ysafe 1 yc_vonneumann_entropy = true /\ ysafe 2 (yc_tt_cross 2 3) = true /\ ysafe 4 yc_nn_tucker_hals_active_set = true) /\
  ((forall (args : list ref) (h0 : heap) ns o, length args = 1 -> o < length h0 ->
      nth_error (snd (fst (fst (yexec yc_vonneumann_entropy ns (env0 args, h0))))) o = nth_error h0 o) /\
   (forall (args : list ref) (h0 : heap) ns o, length args = 2 -> o < length h0 ->
      nth_error (snd (fst (fst (yexec (yc_tt_cross 2 3) ns (env0 args, h0))))) o = nth_error h0 o) /\
   (forall (args : list ref) (h0 : heap) ns o, length args = 4 -> o < length h0 ->
      nth_error (snd (fst (fst (yexec yc_nn_tucker_hals_active_set ns (env0 args, h0))))) o = nth_error h0 o)).
Proof. exact (conj yc_entry_points_ysafe yc_entry_points_frame). Qed.
Print Assumptions C15_ycmd_entry_points_frame.

(* non-vacuity and sensitivity - what ONLY nesting expresses.  yc_nested_bad: the work variable designates the caller's array
   until the INNER handler replaces it by a copy; the outer handler writes through it.  Rejected, although the inner try statement
   alone is accepted; under the oracle [5; 5; 0; 5] (inner body completes, the statement after the inner try raises at once, the
   outer handler completes) the caller's array is scaled and the call RETURNS; when the inner body raises first the copy is
   scaled instead; when the outer handler raises too the exception reaches the caller.  A try statement inside a HANDLER:
   accepted with the copy, rejected (and the array changes) without. *)
Example C15_ycmd_nesting_demo :
  ysafe 1 yc_nested_good = true /\ ysafe 1 yc_nested_bad = false /\
  ysafe 1 (yseq [YPlain (Rebind 10 0); YTry (YPlain (Alloc 11 2)) (YPlain (Copy 10 0)); YPlain (Alloc 12 2)]) = true /\
  ysafe 1 (YTry (YPlain (seq [Rebind 10 0; Copy 10 0; Alloc 12 2])) (YPlain (InplaceOp 10 3))) = false /\
  yexec yc_nested_bad [5; 5; 0; 5] (env0 y_args, y_heap) <> yexec yc_nested_bad [] (env0 y_args, y_heap) /\
  nth_error (snd (fst (fst (yexec yc_nested_bad [5; 5; 0; 5] (env0 y_args, y_heap))))) 0 = Some (OBuf [15; 21]%Z) /\
  snd (yexec yc_nested_bad [5; 5; 0; 5] (env0 y_args, y_heap)) = false /\
  nth_error (snd (fst (fst (yexec yc_nested_bad [5; 0; 5; 0; 5] (env0 y_args, y_heap))))) 0 = Some (OBuf [5; 7]%Z) /\
  snd (yexec yc_nested_bad [5; 5; 0; 0] (env0 y_args, y_heap)) = true /\
  firstn 1 (snd (fst (fst (yexec yc_nested_good [5; 5; 0; 5] (env0 y_args, y_heap))))) = y_heap /\
  ysafe 1 (yc_handler_try (Copy 10 0)) = true /\ ysafe 1 (yc_handler_try (Rebind 10 0)) = false /\
  nth_error (snd (fst (fst (yexec (yc_handler_try (Rebind 10 0)) [1; 0; 5] (env0 y_args, y_heap))))) 0 = Some (OBuf [15; 21]%Z) /\
  firstn 1 (snd (fst (fst (yexec (yc_handler_try (Copy 10 0)) [1; 0; 5] (env0 y_args, y_heap))))) = y_heap.
Proof. exact ycmd_nesting_demo. Qed.

(* try / finally as a derived form: the epilogue runs on both exits and the exception stays in flight *)
Example C15_ytry_finally_demo :
  snd (yexec (ytry_finally (YPlain (Alloc 11 2)) (YPlain (Alloc 12 2))) [0; 5] (env0 y_args, y_heap)) = true /\
  length (snd (fst (fst (yexec (ytry_finally (YPlain (Alloc 11 2)) (YPlain (Alloc 12 2))) [0; 5] (env0 y_args, y_heap))))) = 2 /\
  snd (yexec (ytry_finally (YPlain (Alloc 11 2)) (YPlain (Alloc 12 2))) [5; 5] (env0 y_args, y_heap)) = false /\
  length (snd (fst (fst (yexec (ytry_finally (YPlain (Alloc 11 2)) (YPlain (Alloc 12 2))) [5; 5] (env0 y_args, y_heap))))) = 3 /\
  ysafe 1 (ytry_finally (YPlain (Rebind 10 0)) (YPlain (InplaceOp 10 3))) = false /\
  ysafe 1 (ytry_finally (YPlain (Copy 10 0)) (YPlain (InplaceOp 10 3))) = true.
Proof. exact ytry_finally_demo. Qed.

(* ------------------------------------------------------------------ non_negative_tucker_hals (fista core update) with a user init and the
   estimator class Tucker_NN_HALS: EVERY order N, number of sweeps, number of fista iterations, lengths of the option lists, removal
   of the last mode from fixed_modes, fixed-mode pattern, update order, with or without normalisation (Hoare-style induction;
   invariant: the factor list is run-allocated, pseudo_inverse is unset or a run-allocated list copy; fista never writes - lemma
   nowrite_total).  Accepted => framed, also when interrupted; the class changes exactly the receiver. *)
Theorem C15_nn_tucker_hals_any_order_frame :
  (forall N sweeps fiters sclen fmlen rm fixed modes normalize,
     safe 4 (sk_nn_tucker_hals_gen N sweeps fiters sclen fmlen rm fixed modes normalize) = true) /\
  (forall N sweeps fiters sclen fmlen rm fixed modes normalize (args : list ref) (h0 : heap) (n o : nat),
     length args = 4 -> o < length h0 ->
     nth_error (snd (fst (run (sk_nn_tucker_hals_gen N sweeps fiters sclen fmlen rm fixed modes normalize) n (env0 args, h0)))) o = nth_error h0 o) /\
  (forall N sweeps fiters sclen fmlen rm fixed modes normalize (self X : ref) (h0 : heap) (o : nat),
     o < length h0 -> target self <> Some o ->
     nth_error (snd (exec (sk_estimator_fit 3 (sk_nn_tucker_hals_gen N sweeps fiters sclen fmlen rm fixed modes normalize) 25) (env0 [self; X], h0))) o
       = nth_error h0 o).
Proof. exact (conj nn_tucker_hals_gen_safe (conj nn_tucker_hals_gen_frame nn_tucker_hals_class_fit_frame)). Qed.
Print Assumptions C15_nn_tucker_hals_any_order_frame.

(* two cooperating seeded sites in two functions (order 3): hals_nnls on the transposed VIEW instead of its copy, and an
   initialisation that passes arrays without a negative entry by reference - each accepted alone, rejected together, and the
   caller's factor A (object 2) changes; the code itself: empty footprint *)
Example C15_nn_tucker_hals_cooperating_defects :
  safe 4 (nn_tucker_hals_body (sk_initialize_tucker_nn_gen 3) hals_mode_nocopy 3 1 1 3 1 None [] [0; 1; 2] false) = true /\
  safe 4 (nn_tucker_hals_body (mut_initialize_tucker_nn 3 [0] false) (hals_mode_gen 24) 3 1 1 3 1 None [] [0; 1; 2] false) = true /\
  safe 4 (nn_tucker_hals_body (mut_initialize_tucker_nn 3 [0] false) hals_mode_nocopy 3 1 1 3 1 None [] [0; 1; 2] false) = false /\
  footprint (nn_tucker_hals_body (mut_initialize_tucker_nn 3 [0] false) hals_mode_nocopy 3 1 1 3 1 None [] [0; 1; 2] false)
            [RObj 0 [0; 1; 2; 3]; RObj 6 []; RNull; RNull] r7_heap = [2] /\
  footprint (sk_nn_tucker_hals_gen 3 2 2 3 1 None [] [0; 1; 2] true) [RObj 0 [0; 1; 2; 3]; RObj 6 []; RNull; RNull] r7_heap = [].
Proof. exact nn_tucker_hals_cooperating. Qed.
